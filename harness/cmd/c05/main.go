// c05: existence / absence proofs of the real iavl + rootmulti code.
//
// For generated histories on a real rootmulti.Store (two IAVL substores) the harness dumps every
// committed tree (hook DumpShape), issues the real ABCI store query with prove=true for present and
// absent keys at all positions, verifies the returned proof with the real ProofRuntime, and then
// pushes every single-field mutation of each valid proof — and a few structured forgeries — through
// the real verifier under recover().  lean/Driver/C05.lean replays the model prover and verifier on
// the same lines and judges every accepted proof against the committed tree.
package main

import (
	"bytes"
	"crypto/sha256"
	"encoding/hex"
	"flag"
	"fmt"
	"io"
	"log"
	"sort"
	"strings"

	"github.com/pokt-network/pocket-core/store/iavl"
	amino "github.com/tendermint/go-amino"
	"github.com/pokt-network/pocket-core/store/rootmulti"
	"github.com/pokt-network/pocket-core/store/types"
	abci "github.com/tendermint/tendermint/abci/types"
	"github.com/tendermint/tendermint/crypto/merkle"
	dbm "github.com/tendermint/tm-db"
	"verifharness/internal/gen"
)

// ---------------------------------------------------------------- serialisation

func hx(b []byte) string {
	if len(b) == 0 {
		return "-"
	}
	return hex.EncodeToString(b)
}

func serPath(p iavl.PathToLeaf) string {
	if len(p) == 0 {
		return "_"
	}
	var s []string
	for _, n := range p {
		s = append(s, fmt.Sprintf("%d.%d.%d.%s.%s", n.Height, n.Size, n.Version, hx(n.Left), hx(n.Right)))
	}
	return strings.Join(s, ",")
}

func serRange(p *iavl.RangeProof) string {
	if p == nil {
		return "~"
	}
	in := "!"
	if len(p.InnerNodes) > 0 {
		var s []string
		for _, q := range p.InnerNodes {
			s = append(s, serPath(q))
		}
		in = strings.Join(s, "/")
	}
	lv := "!"
	if len(p.Leaves) > 0 {
		var s []string
		for _, l := range p.Leaves {
			s = append(s, fmt.Sprintf("%s.%s.%d", hx(l.Key), hx(l.ValueHash), l.Version))
		}
		lv = strings.Join(s, ",")
	}
	return serPath(p.LeftPath) + "|" + in + "|" + lv
}

// op is the harness' own editable form of one merkle.ProofOp.
type op struct {
	typ   string // "v", "a", "m"
	key   []byte
	rp    *iavl.RangeProof      // v, a
	infos []rootmulti.StoreInfo // m
}

func (o op) ser() string {
	switch o.typ {
	case "m":
		si := "!"
		if len(o.infos) > 0 {
			var s []string
			for _, i := range o.infos {
				s = append(s, fmt.Sprintf("%s.%d.%s", hx([]byte(i.Name)), i.Core.CommitID.Version, hx(i.Core.CommitID.Hash)))
			}
			si = strings.Join(s, ",")
		}
		return "m:" + hx(o.key) + ":" + si
	default:
		return o.typ + ":" + hx(o.key) + ":" + serRange(o.rp)
	}
}

func serOps(ops []op) string {
	if len(ops) == 0 {
		return "!"
	}
	var s []string
	for _, o := range ops {
		s = append(s, o.ser())
	}
	return strings.Join(s, "+")
}

func (o op) proofOp() merkle.ProofOp {
	switch o.typ {
	case "v":
		return iavl.NewValueOp(o.key, o.rp).ProofOp()
	case "a":
		return iavl.NewAbsenceOp(o.key, o.rp).ProofOp()
	default:
		return rootmulti.NewMultiStoreProofOp(o.key, rootmulti.NewMultiStoreProof(o.infos)).ProofOp()
	}
}

func decodeOps(p *merkle.Proof) ([]op, bool) {
	var out []op
	for _, po := range p.Ops {
		switch po.Type {
		case iavl.ProofOpIAVLValue:
			d, err := iavl.ValueOpDecoder(po)
			if err != nil {
				return nil, false
			}
			out = append(out, op{typ: "v", key: po.Key, rp: d.(iavl.ValueOp).Proof})
		case iavl.ProofOpIAVLAbsence:
			d, err := iavl.AbsenceOpDecoder(po)
			if err != nil {
				return nil, false
			}
			out = append(out, op{typ: "a", key: po.Key, rp: d.(iavl.AbsenceOp).Proof})
		case rootmulti.ProofOpMultiStore:
			d, err := rootmulti.MultiStoreProofOpDecoder(po)
			if err != nil {
				return nil, false
			}
			m := d.(*rootmulti.MultiStoreProofOp)
			out = append(out, op{typ: "m", key: po.Key, infos: m.Proof.StoreInfos})
		default:
			return nil, false
		}
	}
	return out, true
}

// ---------------------------------------------------------------- deep copies

func cpb(b []byte) []byte {
	if b == nil {
		return nil
	}
	return append([]byte{}, b...)
}

func cpPath(p iavl.PathToLeaf) iavl.PathToLeaf {
	if p == nil {
		return nil
	}
	q := make(iavl.PathToLeaf, len(p))
	for i, n := range p {
		q[i] = iavl.ProofInnerNode{Height: n.Height, Size: n.Size, Version: n.Version, Left: cpb(n.Left), Right: cpb(n.Right)}
	}
	return q
}

func cpRange(p *iavl.RangeProof) *iavl.RangeProof {
	if p == nil {
		return nil
	}
	q := &iavl.RangeProof{LeftPath: cpPath(p.LeftPath)}
	for _, x := range p.InnerNodes {
		q.InnerNodes = append(q.InnerNodes, cpPath(x))
	}
	for _, l := range p.Leaves {
		q.Leaves = append(q.Leaves, iavl.ProofLeafNode{Key: cpb(l.Key), ValueHash: cpb(l.ValueHash), Version: l.Version})
	}
	return q
}

func cpOps(ops []op) []op {
	out := make([]op, len(ops))
	for i, o := range ops {
		out[i] = op{typ: o.typ, key: cpb(o.key), rp: cpRange(o.rp)}
		for _, si := range o.infos {
			c := si
			c.Core.CommitID.Hash = cpb(si.Core.CommitID.Hash)
			out[i].infos = append(out[i].infos, c)
		}
	}
	return out
}

// ---------------------------------------------------------------- real verification

var prt = rootmulti.DefaultProofRuntime()

// verifyReal runs the real ProofRuntime on the given ops. value == nil: absence.
func verifyReal(ops []op, root []byte, store string, key []byte, value []byte, absence bool) (verdict string) {
	defer func() {
		if r := recover(); r != nil {
			verdict = "panic"
		}
	}()
	p := &merkle.Proof{}
	for _, o := range ops {
		p.Ops = append(p.Ops, o.proofOp())
	}
	kp := merkle.KeyPath{}
	kp = kp.AppendKey([]byte(store), merkle.KeyEncodingURL)
	kp = kp.AppendKey(key, merkle.KeyEncodingHex)
	var err error
	if absence {
		err = prt.VerifyAbsence(p, root, kp.String())
	} else {
		err = prt.VerifyValue(p, root, kp.String(), value)
	}
	if err != nil {
		return "reject"
	}
	return "accept"
}

// ---------------------------------------------------------------- mutations

type mutant struct {
	label    string
	ops      []op
	root     []byte
	key      []byte
	value    []byte
	kindSwap bool // verify the opposite kind of statement (absence instead of value and vice versa)
}

func flip(b []byte) []byte {
	c := cpb(b)
	if len(c) == 0 {
		return []byte{0x01}
	}
	c[len(c)/2] ^= 0x01
	return c
}

func junk32(seed byte) []byte {
	h := sha256.Sum256([]byte{seed, 0x5a})
	return h[:]
}

// byteMuts: the altered versions of one byte-slice field.
func byteMuts(b []byte) map[string][]byte {
	m := map[string][]byte{}
	if len(b) == 0 {
		m["fill"] = junk32(7)
		m["fill1"] = []byte{0x00}
	} else {
		m["flip"] = flip(b)
		m["nil"] = nil
		m["ext"] = append(cpb(b), 0x00)
		m["trunc"] = cpb(b[:len(b)-1])
	}
	return m
}

func sortedKeys(m map[string][]byte) []string {
	var ks []string
	for k := range m {
		ks = append(ks, k)
	}
	sort.Strings(ks)
	return ks
}

// mutatePath enumerates the single-field mutations of one PathToLeaf; set installs the new path.
func mutatePath(loc string, p iavl.PathToLeaf, emit func(label string, np iavl.PathToLeaf)) {
	for i := range p {
		other := func(left bool) string {
			o := p[i].Right
			if !left {
				o = p[i].Left
			}
			if len(o) > 0 {
				return "other-set"
			}
			return "other-empty"
		}
		for _, d := range []int{-1, 1} {
			q := cpPath(p)
			if int(q[i].Height)+d >= -128 && int(q[i].Height)+d <= 127 {
				q[i].Height = int8(int(q[i].Height) + d)
				emit(fmt.Sprintf("%s.height.%+d", loc, d), q)
			}
			q = cpPath(p)
			q[i].Size += int64(d)
			emit(fmt.Sprintf("%s.size.%+d", loc, d), q)
			q = cpPath(p)
			q[i].Version += int64(d)
			emit(fmt.Sprintf("%s.version.%+d", loc, d), q)
		}
		bm := byteMuts(p[i].Left)
		for _, k := range sortedKeys(bm) {
			q := cpPath(p)
			q[i].Left = bm[k]
			emit(fmt.Sprintf("%s.left.%s.%s", loc, k, other(true)), q)
		}
		bm = byteMuts(p[i].Right)
		for _, k := range sortedKeys(bm) {
			q := cpPath(p)
			q[i].Right = bm[k]
			emit(fmt.Sprintf("%s.right.%s.%s", loc, k, other(false)), q)
		}
		// swap the two hashes of the node
		q := cpPath(p)
		q[i].Left, q[i].Right = q[i].Right, q[i].Left
		emit(loc+".swap-left-right", q)
		// list operations
		q = append(cpPath(p[:i]), cpPath(p[i+1:])...)
		emit(loc+".node-dropped", q)
		q = append(cpPath(p[:i+1]), cpPath(p[i:])...)
		emit(loc+".node-duplicated", q)
		if i+1 < len(p) {
			q = cpPath(p)
			q[i], q[i+1] = q[i+1], q[i]
			emit(loc+".nodes-swapped", q)
		}
	}
	// an extra node at either end
	extra := iavl.ProofInnerNode{Height: 1, Size: 2, Version: 1, Right: junk32(3)}
	emit(loc+".node-appended", append(cpPath(p), extra))
	emit(loc+".node-prepended", append(iavl.PathToLeaf{extra}, cpPath(p)...))
}

// mutants enumerates all single-field mutations of a valid (ops, root, key, value) tuple.
func mutants(ops []op, root, key, value []byte, absence bool) []mutant {
	var out []mutant
	add := func(label string, nops []op) {
		out = append(out, mutant{label: label, ops: nops, root: root, key: key, value: value})
	}
	for oi, o := range ops {
		withRange := func(f func(rp *iavl.RangeProof)) []op {
			c := cpOps(ops)
			f(c[oi].rp)
			return c
		}
		pre := o.typ
		// --- op level
		bm := byteMuts(o.key)
		for _, k := range sortedKeys(bm) {
			c := cpOps(ops)
			c[oi].key = bm[k]
			add(pre+".opkey."+k, c)
		}
		if o.typ == "v" || o.typ == "a" {
			c := cpOps(ops)
			if o.typ == "v" {
				c[oi].typ = "a"
			} else {
				c[oi].typ = "v"
			}
			add(pre+".optype.swapped", c)
			// the same proof offered for the opposite statement about the same key
			v2 := value
			if absence {
				v2 = []byte("1")
			}
			out = append(out, mutant{label: "stmt.kind.swapped", ops: cpOps(c), root: root, key: key, value: v2, kindSwap: true})
		}
		c := append(cpOps(ops[:oi]), cpOps(ops[oi+1:])...)
		add(pre+".op-dropped", c)
		c = append(cpOps(ops[:oi+1]), cpOps(ops[oi:])...)
		add(pre+".op-duplicated", c)
		if oi+1 < len(ops) {
			c = cpOps(ops)
			c[oi], c[oi+1] = c[oi+1], c[oi]
			add(pre+".ops-swapped", c)
		}
		switch o.typ {
		case "v", "a":
			if o.rp == nil {
				continue
			}
			add(pre+".proof.nil", withRange(func(rp *iavl.RangeProof) { *rp = iavl.RangeProof{} }))
			mutatePath(pre+".leftpath", o.rp.LeftPath, func(label string, np iavl.PathToLeaf) {
				add(label, withRange(func(rp *iavl.RangeProof) { rp.LeftPath = np }))
			})
			for pi := range o.rp.InnerNodes {
				pi := pi
				mutatePath(pre+".innernodes", o.rp.InnerNodes[pi], func(label string, np iavl.PathToLeaf) {
					add(label, withRange(func(rp *iavl.RangeProof) { rp.InnerNodes[pi] = np }))
				})
				add(pre+".innernodes.path-dropped", withRange(func(rp *iavl.RangeProof) {
					rp.InnerNodes = append(rp.InnerNodes[:pi], rp.InnerNodes[pi+1:]...)
				}))
				add(pre+".innernodes.path-duplicated", withRange(func(rp *iavl.RangeProof) {
					rp.InnerNodes = append(rp.InnerNodes[:pi+1], rp.InnerNodes[pi:]...)
				}))
			}
			add(pre+".innernodes.path-appended", withRange(func(rp *iavl.RangeProof) { rp.InnerNodes = append(rp.InnerNodes, iavl.PathToLeaf{}) }))
			for li := range o.rp.Leaves {
				li := li
				l := o.rp.Leaves[li]
				bm := byteMuts(l.Key)
				for _, k := range sortedKeys(bm) {
					v := bm[k]
					add(pre+".leaf.key."+k, withRange(func(rp *iavl.RangeProof) { rp.Leaves[li].Key = v }))
				}
				bm = byteMuts(l.ValueHash)
				for _, k := range sortedKeys(bm) {
					v := bm[k]
					add(pre+".leaf.valuehash."+k, withRange(func(rp *iavl.RangeProof) { rp.Leaves[li].ValueHash = v }))
				}
				for _, d := range []int64{-1, 1} {
					d := d
					add(fmt.Sprintf("%s.leaf.version.%+d", pre, d), withRange(func(rp *iavl.RangeProof) { rp.Leaves[li].Version += d }))
				}
				add(pre+".leaf-dropped", withRange(func(rp *iavl.RangeProof) { rp.Leaves = append(rp.Leaves[:li], rp.Leaves[li+1:]...) }))
				add(pre+".leaf-duplicated", withRange(func(rp *iavl.RangeProof) { rp.Leaves = append(rp.Leaves[:li+1], rp.Leaves[li:]...) }))
				if li+1 < len(o.rp.Leaves) {
					add(pre+".leaves-swapped", withRange(func(rp *iavl.RangeProof) { rp.Leaves[li], rp.Leaves[li+1] = rp.Leaves[li+1], rp.Leaves[li] }))
				}
			}
		case "m":
			for si := range o.infos {
				si := si
				edit := func(f func(x *rootmulti.StoreInfo)) []op {
					c := cpOps(ops)
					f(&c[oi].infos[si])
					return c
				}
				bm := byteMuts([]byte(o.infos[si].Name))
				for _, k := range sortedKeys(bm) {
					v := bm[k]
					add("m.storeinfo.name."+k, edit(func(x *rootmulti.StoreInfo) { x.Name = string(v) }))
				}
				bm = byteMuts(o.infos[si].Core.CommitID.Hash)
				for _, k := range sortedKeys(bm) {
					v := bm[k]
					add("m.storeinfo.hash."+k, edit(func(x *rootmulti.StoreInfo) { x.Core.CommitID.Hash = v }))
				}
				for _, d := range []int64{-1, 1} {
					d := d
					add(fmt.Sprintf("m.storeinfo.version.%+d", d), edit(func(x *rootmulti.StoreInfo) { x.Core.CommitID.Version += d }))
				}
				c := cpOps(ops)
				c[oi].infos = append(c[oi].infos[:si], c[oi].infos[si+1:]...)
				add("m.storeinfo-dropped", c)
				c = cpOps(ops)
				c[oi].infos = append(c[oi].infos[:si+1], c[oi].infos[si:]...)
				add("m.storeinfo-duplicated", c)
				if si+1 < len(o.infos) {
					c = cpOps(ops)
					c[oi].infos[si], c[oi].infos[si+1] = c[oi].infos[si+1], c[oi].infos[si]
					add("m.storeinfos-swapped", c)
				}
			}
		}
	}
	// --- statement level
	for _, k := range sortedKeys(byteMuts(root)) {
		out = append(out, mutant{label: "stmt.root." + k, ops: cpOps(ops), root: byteMuts(root)[k], key: key, value: value})
	}
	for _, k := range sortedKeys(byteMuts(key)) {
		if k == "nil" {
			continue
		}
		out = append(out, mutant{label: "stmt.key." + k, ops: cpOps(ops), root: root, key: byteMuts(key)[k], value: value})
	}
	if !absence {
		for _, k := range sortedKeys(byteMuts(value)) {
			nv := byteMuts(value)[k]
			if nv == nil {
				nv = []byte{}
			}
			out = append(out, mutant{label: "stmt.value." + k, ops: cpOps(ops), root: root, key: key, value: nv})
		}
	}
	return out
}

// ---------------------------------------------------------------- world

type world struct {
	db    dbm.DB
	rs    *rootmulti.Store
	keys  map[string]*types.KVStoreKey
	order []string
	t     *gen.Trace
	live  map[string]map[string][]byte
	hist  map[int64]map[string]map[string][]byte // version -> store -> contents
	app   map[int64][]byte                       // version -> app hash
}

func newWorld(t *gen.Trace, order []string) *world {
	w := &world{db: dbm.NewMemDB(), order: order, t: t, keys: map[string]*types.KVStoreKey{}, live: map[string]map[string][]byte{},
		hist: map[int64]map[string]map[string][]byte{}, app: map[int64][]byte{}}
	w.rs = rootmulti.NewStore(w.db, false, 1000)
	for _, n := range order {
		w.keys[n] = types.NewKVStoreKey(n)
		w.rs.MountStoreWithDB(w.keys[n], types.StoreTypeIAVL, nil)
		w.live[n] = map[string][]byte{}
	}
	if err := w.rs.LoadLatestVersion(); err != nil {
		panic(err)
	}
	return w
}

func (w *world) commit() int64 {
	id := w.rs.Commit()
	snap := map[string]map[string][]byte{}
	for n, m := range w.live {
		snap[n] = map[string][]byte{}
		for k, v := range m {
			snap[n][k] = v
		}
	}
	w.hist[id.Version] = snap
	w.app[id.Version] = id.Hash
	// commit info as the proof op will carry it
	var infos []string
	for _, n := range w.order {
		st := w.rs.GetCommitKVStore(w.keys[n]).(*iavl.Store)
		cid := st.LastCommitID()
		infos = append(infos, fmt.Sprintf("%s.%d.%s", hx([]byte(n)), cid.Version, hx(cid.Hash)))
	}
	w.t.Line("commit", true, "commit %d %s => %s", id.Version, strings.Join(infos, ","), hx(id.Hash))
	return id.Version
}

// dumpTree writes the shape of one store's tree at a version.
func (w *world) dumpTree(n string, v int64) {
	// a second, read-only tree object over the substore's node database
	mt, err := iavl.NewMutableTree(dbm.NewPrefixDB(w.db, []byte("s/k:"+n+"/")), 1000)
	if err != nil {
		panic(err)
	}
	if _, err = mt.LoadVersion(v); err != nil {
		panic(err)
	}
	it, err := mt.GetImmutable(v)
	if err != nil {
		panic(err)
	}
	var nodes []string
	for _, sn := range it.DumpShape() {
		if sn.Height == 0 {
			nodes = append(nodes, fmt.Sprintf("L.%s.%s.%d", hx(sn.Key), hx(sn.Value), sn.Version))
		} else {
			nodes = append(nodes, fmt.Sprintf("I.%d.%d.%d.%s", sn.Height, sn.Size, sn.Version, hx(sn.Key)))
		}
	}
	d := "!"
	if len(nodes) > 0 {
		d = strings.Join(nodes, ",")
	}
	w.t.Line("tree", len(nodes) > 1, "tree %s %d %s => %s", hx([]byte(n)), v, d, hx(it.Hash()))
}

type queryRes struct {
	value  []byte
	ops    []op
	status string // ok | PANIC | ERR
}

func (w *world) query(n string, v int64, key []byte) (r queryRes) {
	defer func() {
		if e := recover(); e != nil {
			r = queryRes{status: "PANIC"}
		}
	}()
	res := w.rs.Query(abci.RequestQuery{Path: "/" + n + "/key", Data: key, Height: v, Prove: true})
	if res.Code != 0 || res.Proof == nil {
		return queryRes{status: "ERR"}
	}
	ops, ok := decodeOps(res.Proof)
	if !ok {
		return queryRes{status: "ERR"}
	}
	return queryRes{value: res.Value, ops: ops, status: "ok"}
}


// ---------------------------------------------------------------- structured forgeries

func aminoNode(height int8, size, version int64, a, b []byte) []byte {
	buf := new(bytes.Buffer)
	_ = amino.EncodeInt8(buf, height)
	_ = amino.EncodeVarint(buf, size)
	_ = amino.EncodeVarint(buf, version)
	_ = amino.EncodeByteSlice(buf, a)
	_ = amino.EncodeByteSlice(buf, b)
	return buf.Bytes()
}

func sha(b []byte) []byte { h := sha256.Sum256(b); return h[:] }

// craftedValue is a stored *value* that is byte-for-byte the hash preimage of a leaf (fkey, fval, version 1).
func craftedValue(fkey, fval []byte) []byte { return aminoNode(0, 1, 1, fkey, sha(fval)) }

type forgery struct {
	label   string
	ops     []op
	key     []byte
	value   []byte // nil: absence
	absence bool
	facts   [][]byte // preimages whose SHA-256 the forger computed himself
}

// existence returns the honest existence proof ops of a present key (nil if the query fails).
func (w *world) existence(n string, v int64, k []byte) []op {
	q := w.query(n, v, k)
	if q.status != "ok" || q.value == nil || len(q.ops) != 2 || q.ops[0].typ != "v" || q.ops[0].rp == nil {
		return nil
	}
	return q.ops
}

// forgeries builds the structured (multi-field) forgeries that the tree of store n at version v admits.
func (w *world) forgeries(n string, v int64, crafted map[string][2][]byte) []forgery {
	var out []forgery
	cont := w.hist[v][n]
	var ks []string
	for k := range cont {
		ks = append(ks, k)
	}
	sort.Strings(ks)
	fval := []byte("forged")
	for i, ps := range ks {
		P := []byte(ps)
		ops := w.existence(n, v, P)
		if ops == nil {
			continue
		}
		lp := ops[0].rp.LeftPath
		// FG1/FG3: the leaf-most path node is a right turn (Left set): give it a Right of our own.
		if len(lp) > 0 && len(lp[len(lp)-1].Left) > 0 {
			fkey := append(cpb(P), 0x01) // > P, not stored (no universe key ends in 0x01)
			if _, ok := cont[string(fkey)]; !ok {
				leafPre := aminoNode(0, 1, 1, fkey, sha(fval))
				c := cpOps(ops)
				c[0].key = fkey
				c[0].rp.LeftPath[len(lp)-1].Right = sha(leafPre)
				c[0].rp.Leaves = append(c[0].rp.Leaves, iavl.ProofLeafNode{Key: fkey, ValueHash: sha(fval), Version: 1})
				c[0].rp.InnerNodes = []iavl.PathToLeaf{{}}
				out = append(out, forgery{"forged.value.both-set", c, fkey, fval, false, [][]byte{fval, leafPre}})
			}
			if i+1 < len(ks) {
				T := []byte(ks[i+1]) // a stored key above P: "prove" it absent
				zkey := append(cpb(T), 0xff, 0x01)
				leafPre := aminoNode(0, 1, 1, zkey, sha(fval))
				c := cpOps(ops)
				c[0].typ = "a"
				c[0].key = T
				c[0].rp.LeftPath[len(lp)-1].Right = sha(leafPre)
				c[0].rp.Leaves = append(c[0].rp.Leaves, iavl.ProofLeafNode{Key: zkey, ValueHash: sha(fval), Version: 1})
				c[0].rp.InnerNodes = []iavl.PathToLeaf{{}}
				out = append(out, forgery{"forged.absence.both-set", c, T, nil, true, [][]byte{fval, leafPre}})
			}
		}
		// FG2: leaves A < K < C consecutive; C's path inside the right sibling subtree is not leftmost.
		if i+2 < len(ks) {
			K, C := []byte(ks[i+1]), []byte(ks[i+2])
			opsC := w.existence(n, v, C)
			if opsC != nil {
				pc := opsC[0].rp.LeftPath
				j := -1
				for x := range lp {
					if len(lp[x].Right) > 0 {
						j = x
					}
				}
				if j >= 0 && len(pc) > j+1 && len(pc[j].Left) > 0 && pc[j].Height == lp[j].Height {
					c := cpOps(ops)
					c[0].typ = "a"
					c[0].key = K
					c[0].rp.Leaves = append(c[0].rp.Leaves, opsC[0].rp.Leaves[0])
					c[0].rp.InnerNodes = []iavl.PathToLeaf{cpPath(pc[j+1:])}
					out = append(out, forgery{"forged.absence.inner-not-leftmost", c, K, nil, true, nil})
				}
			}
		}
		// FG4: the stored value of P is the preimage of a leaf hash: present P's leaf as an inner node.
		if cr, ok := crafted[n+"/"+ps]; ok && bytes.Equal(cont[ps], craftedValue(cr[0], cr[1])) {
			c := cpOps(ops)
			c[0].key = cr[0]
			real := c[0].rp.Leaves[0]
			c[0].rp.LeftPath = append(c[0].rp.LeftPath, iavl.ProofInnerNode{Height: 0, Size: 1, Version: real.Version, Left: cpb(P)})
			c[0].rp.Leaves = []iavl.ProofLeafNode{{Key: cr[0], ValueHash: sha(cr[1]), Version: 1}}
			out = append(out, forgery{"forged.value.leaf-as-inner", c, cr[0], cr[1], false, [][]byte{cr[1]}})
		}
	}
	// FG6: the store is empty at this version (root hash nil): structurally invalid range proofs, on
	// which the root computation fails, carrying a leaf with a key and value of our choice.
	if len(ks) == 0 {
		q := w.query(n, v, []byte("a"))
		if q.status == "ok" && len(q.ops) == 2 && q.ops[1].typ == "m" {
			fkey := []byte("forged-key")
			leaf := iavl.ProofLeafNode{Key: fkey, ValueHash: sha(fval), Version: 1}
			leaf2 := iavl.ProofLeafNode{Key: []byte("forged-key2"), ValueHash: sha(fval), Version: 1}
			bad := map[string]*iavl.RangeProof{
				"node-without-child-hash": {LeftPath: iavl.PathToLeaf{{Height: 1, Size: 2, Version: 1}}, Leaves: []iavl.ProofLeafNode{leaf}},
				"node-height-zero":        {LeftPath: iavl.PathToLeaf{{Height: 0, Size: 1, Version: 1, Left: junk32(5)}}, Leaves: []iavl.ProofLeafNode{leaf}},
				"node-both-hashes":        {LeftPath: iavl.PathToLeaf{{Height: 1, Size: 2, Version: 1, Left: junk32(5), Right: junk32(6)}}, Leaves: []iavl.ProofLeafNode{leaf}},
				"inner-leaves-mismatch":   {InnerNodes: []iavl.PathToLeaf{{}}, Leaves: []iavl.ProofLeafNode{leaf}},
				"left-over-leaves":        {InnerNodes: []iavl.PathToLeaf{{}}, Leaves: []iavl.ProofLeafNode{leaf, leaf2}},
				"no-leaves":               {},
			}
			var names []string
			for k := range bad {
				names = append(names, k)
			}
			sort.Strings(names)
			for _, k := range names {
				c := cpOps(q.ops)
				c[0] = op{typ: "v", key: fkey, rp: bad[k]}
				out = append(out, forgery{"forged.empty-store." + k, c, fkey, fval, false, [][]byte{fval}})
			}
		}
	}
	// FG5: a one-leaf tree of our own, announced under the store's name *before* the real StoreInfo.
	if len(ks) > 0 {
		ops := w.existence(n, v, []byte(ks[0]))
		if ops != nil {
			fkey := []byte("zz-forged")
			leafPre := aminoNode(0, 1, 1, fkey, sha(fval))
			c := cpOps(ops)
			c[0].key = fkey
			c[0].rp = &iavl.RangeProof{Leaves: []iavl.ProofLeafNode{{Key: fkey, ValueHash: sha(fval), Version: 1}}}
			fake := rootmulti.StoreInfo{Name: n}
			fake.Core.CommitID.Version = v
			fake.Core.CommitID.Hash = sha(leafPre)
			c[1].infos = append([]rootmulti.StoreInfo{fake}, c[1].infos...)
			out = append(out, forgery{"forged.multistore.dup-name", c, fkey, fval, false, [][]byte{fval, leafPre}})
		}
	}
	return out
}

// ---------------------------------------------------------------- probe: which repairs does the code have?

func probeMode() string {
	t := gen.NewTrace("/dev/null")
	w := newWorld(t, []string{"acc", "pos"})
	for _, k := range []string{"a", "ab", "b", "c"} {
		_ = w.rs.GetKVStore(w.keys["acc"]).Set([]byte(k), []byte("v"))
		w.live["acc"][k] = []byte("v")
	}
	_ = w.rs.GetKVStore(w.keys["pos"]).Set([]byte("x"), []byte("v"))
	w.live["pos"]["x"] = []byte("v")
	v := w.commit()
	root := w.app[v]
	strict, dup, succ := "strict=?", "dup=?", "succ=?"
	for _, k := range []string{"a", "ab", "b", "c"} {
		ops := w.existence("acc", v, []byte(k))
		if ops == nil {
			continue
		}
		for i, nd := range ops[0].rp.LeftPath {
			if len(nd.Left) > 0 {
				c := cpOps(ops)
				c[0].rp.LeftPath[i].Right = junk32(9)
				if verifyReal(c, root, "acc", []byte(k), []byte("v"), false) == "accept" {
					strict = "strict=0"
				} else {
					strict = "strict=1"
				}
			}
		}
		c := cpOps(ops)
		c[1].infos = append([]rootmulti.StoreInfo{c[1].infos[0]}, c[1].infos...)
		if verifyReal(c, root, "acc", []byte(k), []byte("v"), false) == "accept" {
			dup = "dup=0"
		} else {
			dup = "dup=1"
		}
	}
	q := w.query("acc", v, []byte("aa"))
	if q.status == "ok" && q.value == nil {
		if verifyReal(q.ops, root, "acc", []byte("aa"), nil, true) == "accept" {
			succ = "succ=1"
		} else {
			succ = "succ=0"
		}
	}
	return strict + " " + dup + " " + succ
}

// storeQuery asks the IAVL store itself (store/iavl/store.go Query), bypassing rootmulti.
func (w *world) storeQuery(n string, v int64, key []byte) (r queryRes) {
	defer func() {
		if e := recover(); e != nil {
			r = queryRes{status: "PANIC"}
		}
	}()
	st := w.rs.GetCommitKVStore(w.keys[n]).(*iavl.Store)
	res := st.Query(abci.RequestQuery{Path: "/key", Data: key, Height: v, Prove: true})
	if res.Code != 0 || res.Proof == nil {
		return queryRes{status: "ERR"}
	}
	ops, ok := decodeOps(res.Proof)
	if !ok {
		return queryRes{status: "ERR"}
	}
	return queryRes{value: res.Value, ops: ops, status: "ok"}
}

func main() {
	seed := flag.Uint64("seed", 1, "seed")
	n := flag.Int("n", 3000, "approximate number of trace lines")
	out := flag.String("out", "c05.trace", "trace file")
	maxMut := flag.Int("mut", 0, "max mutants per valid proof (0: all)")
	expect := flag.String("expect", "", "repairs the code is expected to have, e.g. \"strict=1 dup=1 succ=1\" (empty: whatever the probe finds)")
	flag.Parse()
	log.SetOutput(io.Discard)
	r := gen.New(*seed)
	t := gen.NewTrace(*out)
	exp := "-"
	if *expect != "" {
		exp = *expect
	}
	t.Line("mode", false, "mode %s => %s", probeMode(), exp)
	// a fixed history first: six consecutive keys (every structured forgery is possible on its tree)
	history(r, t, *n/3+100, *maxMut, true)
	for t.Lines < *n {
		history(r, t, *n/4+100, *maxMut, false)
	}
	t.Close(nil)
}

var keyU = [][]byte{[]byte("a"), []byte("aa"), []byte("ab"), []byte("b"), {'b', 0}, []byte("c"), {0}, {0xff}, {0xff, 0xff}, {'a', 0xff}, []byte("d"), []byte("ba")}
var valU = [][]byte{[]byte("1"), []byte("22"), {}, {0}, []byte("value-3"), {0xff, 0xff}}

func history(r *gen.R, t *gen.Trace, budget, maxMut int, canned bool) {
	start := t.Lines
	order := []string{"acc", "pos"}
	if canned {
		// plus a store that is never written and one that is emptied again
		order = []string{"acc", "pos", "emp", "was"}
	}
	w := newWorld(t, order)
	var onames []string
	for _, n := range order {
		onames = append(onames, hx([]byte(n)))
	}
	t.Line("open", false, "open %s => -", strings.Join(onames, ","))
	nk := 3 + r.Intn(len(keyU)-2)
	keys := keyU[:nk]
	if r.Chance(1, 3) {
		keys = keyU
	}
	blocks := 1 + r.Intn(4)
	crafted := map[string][2][]byte{} // store/key -> (forged key, forged value) hidden in the stored value
	var latest int64
	if canned {
		blocks = 0
		for i, k := range []string{"a", "b", "c", "d", "e", "f"} {
			n := "acc"
			v := []byte("v" + k)
			if i == 3 {
				fk, fv := []byte("d\x02"), []byte("hidden")
				v = craftedValue(fk, fv)
				crafted[n+"/"+k] = [2][]byte{fk, fv}
			}
			_ = w.rs.GetKVStore(w.keys[n]).Set([]byte(k), v)
			w.live[n][k] = v
		}
		_ = w.rs.GetKVStore(w.keys["pos"]).Set([]byte("x"), []byte("1"))
		w.live["pos"]["x"] = []byte("1")
		_ = w.rs.GetKVStore(w.keys["was"]).Set([]byte("w"), []byte("1"))
		w.live["was"]["w"] = []byte("1")
		w.commit()
		_ = w.rs.GetKVStore(w.keys["was"]).Delete([]byte("w"))
		delete(w.live["was"], "w")
		latest = w.commit()
	}
	for b := 0; b < blocks; b++ {
		nw := 1 + r.Intn(6)
		for i := 0; i < nw; i++ {
			n := order[r.Intn(2)]
			k := keys[r.Intn(len(keys))]
			st := w.rs.GetKVStore(w.keys[n])
			if r.Chance(1, 4) && len(w.live[n]) > 0 {
				_ = st.Delete(k)
				delete(w.live[n], string(k))
			} else {
				v := valU[r.Intn(len(valU))]
				if r.Chance(1, 6) {
					fk, fv := append(cpb(k), 0x02), []byte("hidden")
					v = craftedValue(fk, fv)
					crafted[n+"/"+string(k)] = [2][]byte{fk, fv}
				}
				_ = st.Set(k, v)
				w.live[n][string(k)] = v
			}
		}
		latest = w.commit()
	}
	// uncommitted writes reach the working trees after the last commit (the window between the flush
	// of a block's writes and SaveVersion): every query below is about *committed* versions and must
	// not see them - neither in values nor in proofs, at the latest height in particular
	if canned || r.Chance(2, 3) {
		np := 2 + r.Intn(5)
		for i := 0; i < np; i++ {
			n := order[r.Intn(2)]
			k := keyU[r.Intn(len(keyU))]
			if canned {
				n, k = "acc", [][]byte{[]byte("a"), []byte("c"), []byte("0"), []byte("g"), []byte("cc"), []byte("f")}[i%6]
			}
			st := w.rs.GetKVStore(w.keys[n])
			if _, live := w.live[n][string(k)]; live && (i%2 == 0) {
				_ = st.Delete(k)
				delete(w.live[n], string(k))
				t.Line("pending", false, "pending %s del %s => -", hx([]byte(n)), hx(k))
			} else {
				_ = st.Set(k, []byte("uncommitted"))
				w.live[n][string(k)] = []byte("uncommitted")
				t.Line("pending", false, "pending %s set %s => -", hx([]byte(n)), hx(k))
			}
		}
	}
	// choose the versions to examine: the latest and one older
	vs := []int64{latest}
	if canned {
		budget = 1 << 30 // the fixed history is always examined completely (at its latest version)
	} else if latest > 1 {
		vs = append(vs, 1+int64(r.Intn(int(latest-1))))
	}
	for _, v := range vs {
		for _, n := range order {
			if t.Lines-start > budget {
				break
			}
			w.dumpTree(n, v)
			probes := append([][]byte{}, keyU...)
			probes = append(probes, []byte("e"), []byte("aaa"), []byte{0, 0})
			if len(w.hist[v][n]) == 0 {
				probes = probes[:3] // an empty store: a few keys are enough
			}
			for _, k := range probes {
				q := w.query(n, v, k)
				want, present := w.hist[v][n][string(k)]
				switch q.status {
				case "ok":
					t.Line("query", present, "query %s %d %s => %s %s", hx([]byte(n)), v, hx(k), gen.Hex(q.value), serOps(q.ops))
				default:
					t.Line("query", false, "query %s %d %s => %s !", hx([]byte(n)), v, hx(k), q.status)
					continue
				}
				_ = want
				if sq := w.storeQuery(n, v, k); sq.status == "ok" {
					t.Line("squery", present, "squery %s %d %s => %s %s", hx([]byte(n)), v, hx(k), gen.Hex(sq.value), serOps(sq.ops))
				} else {
					t.Line("squery", false, "squery %s %d %s => %s !", hx([]byte(n)), v, hx(k), sq.status)
				}
				absence := q.value == nil
				root := w.app[v]
				verdict := verifyReal(q.ops, root, n, k, q.value, absence)
				kind := "v"
				if absence {
					kind = "a"
				}
				t.Line("verify", true, "verify honest %s %s %s %s %s %s => %s", kind, hx(root), hx([]byte(n)), hx(k), gen.Hex(q.value), serOps(q.ops), verdict)
				if verdict != "accept" {
					continue
				}
				// every single-field mutation of the valid proof
				ms := mutants(q.ops, root, k, q.value, absence)
				if maxMut > 0 && len(ms) > maxMut {
					// thinning (quick tier): op-, leaf-, storeinfo- and statement-level mutants are always
					// kept; the per-node mutants of the paths are sampled
					var keep, rest []mutant
					for _, m := range ms {
						if strings.Contains(m.label, "leftpath") || strings.Contains(m.label, "innernodes") {
							rest = append(rest, m)
						} else {
							keep = append(keep, m)
						}
					}
					step := len(rest)/maxMut + 1
					for i := r.Intn(step); i < len(rest); i += step {
						keep = append(keep, rest[i])
					}
					ms = keep
				}
				base := serOps(q.ops)
				for _, m := range ms {
					if serOps(m.ops) == base && bytes.Equal(m.root, root) && bytes.Equal(m.key, k) && bytes.Equal(m.value, q.value) {
						continue // not a mutation after canonical encoding
					}
					mabs, mkind, mval := absence, kind, m.value
					if m.kindSwap {
						mabs = !absence
						mkind = map[string]string{"v": "a", "a": "v"}[kind]
						if mabs {
							mval = nil
						}
					}
					vd := verifyReal(m.ops, m.root, n, m.key, mval, mabs)
					t.Line("mut:"+kind, vd == "accept", "verify %s %s %s %s %s %s %s => %s", m.label, mkind, hx(m.root), hx([]byte(n)), hx(m.key), gen.Hex(mval), serOps(m.ops), vd)
				}
				// the valid proof re-used for another key: the key is replaced in the statement and in the
				// operator (ProofOp.Key is not covered by any hash), for every stored key and for absent
				// keys at all positions; value proofs also with the other key's stored value
				for _, k2 := range probes {
					if bytes.Equal(k2, k) {
						continue
					}
					c := cpOps(q.ops)
					c[0].key = cpb(k2)
					vals := [][]byte{q.value}
					if !absence {
						if v2, ok := w.hist[v][n][string(k2)]; ok && !bytes.Equal(v2, q.value) {
							vals = append(vals, v2)
						}
					}
					for _, v2 := range vals {
						vd := verifyReal(c, root, n, k2, v2, absence)
						t.Line("altkey:"+kind, vd == "accept", "verify altered-key %s %s %s %s %s %s => %s", kind, hx(root), hx([]byte(n)), hx(k2), gen.Hex(v2), serOps(c), vd)
					}
				}
			}
			// structured forgeries: several fields changed together by somebody who knows the verifier
			for _, f := range w.forgeries(n, v, crafted) {
				for _, pre := range f.facts {
					t.Line("fact", false, "fact %s => %s", hx(pre), hx(sha(pre)))
				}
				kind := "v"
				if f.absence {
					kind = "a"
				}
				vd := verifyReal(f.ops, w.app[v], n, f.key, f.value, f.absence)
				t.Line("forge:"+f.label, vd == "accept", "verify %s %s %s %s %s %s %s => %s", f.label, kind, hx(w.app[v]), hx([]byte(n)), hx(f.key), gen.Hex(f.value), serOps(f.ops), vd)
			}
		}
	}
	t.Line("end", false, "end => -")
}
