// c07: for generated block histories on a real rootmulti.Store, the DB is wrapped by faultdb; during
// every Commit the underlying MemDB is copied after EVERY atomic write.  For every commit and every
// crash index k (0 = before the first write … m = all writes) a fresh store object is opened on the
// copy ("restart after the crash"), its LastCommitID and contents are dumped, the interrupted block is
// re-executed and committed, and one more block of the history is executed on top.
// Trace consumed by lean/Driver/C07.lean.
package main

import (
	"flag"
	"fmt"
	"strings"

	dbm "github.com/tendermint/tm-db"

	"verifharness/internal/faultdb"
	"verifharness/internal/gen"
	"verifharness/internal/msdrive"
)

func commitLine(t *gen.Trace, db *faultdb.DB, ms *msdrive.MS, bi int, o msdrive.Oracle) (ok bool) {
	defer func() {
		if e := recover(); e != nil {
			db.Stop()
			t.Line("commit", true, "commit %d => PANIC %s", bi, msdrive.ErrStr(e))
			ok = false
		}
	}()
	db.Start()
	id := ms.Store.Commit()
	evs := db.Stop()
	t.Line("commit", true, "commit %d => %s %s", bi, msdrive.CID(id), msdrive.RenderEvents(evs))
	msdrive.StoreStates(t, "state", fmt.Sprint(id.Version), ms, o)
	return true
}

func main() {
	seed := flag.Uint64("seed", 1, "")
	n := flag.Int("n", 6, "number of histories")
	out := flag.String("out", "c07.trace", "")
	flag.Parse()
	r := gen.New(*seed)
	t := gen.NewTrace(*out)
	crashes := 0
	for h := 0; h < *n; h++ {
		ps := msdrive.PickNames(r, 1+r.Intn(3))
		space := 4 + r.Intn(10)
		nb := 2 + r.Intn(4)
		blocks := msdrive.GenBlocks(r, ps, nb, space, 7)
		if h%2 == 0 && len(blocks[0]) == 0 { // make the first block non-trivial in half of the histories
			blocks[0] = msdrive.GenBlocks(r, ps, 1, space, 7)[0]
		}
		spec := msdrive.Spec{Persistent: ps}
		t.Line("hist", false, "hist %d %s", h, strings.Join(ps, ","))
		func() {
			defer func() {
				if e := recover(); e != nil {
					t.Line("panic", false, "panic main => %s", msdrive.ErrStr(e))
				}
			}()
			inner := dbm.NewMemDB()
			db := faultdb.Wrap(inner)
			ms, err := msdrive.Open(db, spec, int64(1+r.Intn(30)))
			if err != nil {
				panic(err)
			}
			t.Line("open", false, "open => %s", msdrive.CID(ms.Store.LastCommitID()))
			o := msdrive.NewOracle(ps)
			snaps := []msdrive.Oracle{o.Clone()}
			// disk[bi][k] = the DB after the k-th atomic write of commit bi (k = 0: before the commit)
			disk := make([][]*dbm.MemDB, nb)
			events := make([][]faultdb.Event, nb)
			for bi, b := range blocks {
				ms.ApplyWritesRoute(b, msdrive.RouteOf(bi, b))
				o.Apply(b)
				disk[bi] = []*dbm.MemDB{msdrive.CopyMemDB(inner)}
				db.After = func(idx int, ev faultdb.Event) {
					disk[bi] = append(disk[bi], msdrive.CopyMemDB(inner))
					events[bi] = append(events[bi], ev)
				}
				commitLine(t, db, ms, bi, o)
				db.After = nil
				snaps = append(snaps, o.Clone())
			}
			t.Line("base", false, "base => ok")
			for bi := range blocks {
				m := len(events[bi])
				for k := 0; k <= m; k++ {
					crashes++
					func() {
						defer func() {
							if e := recover(); e != nil {
								t.Line("panic", false, "panic crash%d.%d => %s", bi, k, msdrive.ErrStr(e))
							}
						}()
						t.Line("crash", true, "crash %d %d => %s", bi+1, k, msdrive.RenderEvents(events[bi][:k]))
						cp := faultdb.Wrap(msdrive.CopyMemDB(disk[bi][k]))
						// writes performed while loading (LoadVersion(0) discards an uncommitted first version) are recorded too
						cp.Start()
						ms2, err := msdrive.Open(cp, spec, int64(1+r.Intn(30)))
						levs := cp.Stop()
						if err != nil {
							t.Line("reopen", true, "reopen latest => ERR %s", msdrive.ErrStr(err))
							return
						}
						if len(levs) > 0 {
							t.Line("reopen", true, "reopen latest => %s %s", msdrive.CID(ms2.Store.LastCommitID()), msdrive.RenderEvents(levs))
						} else {
							t.Line("reopen", true, "reopen latest => %s", msdrive.CID(ms2.Store.LastCommitID()))
						}
						msdrive.StoreStates(t, "rstate", "latest", ms2, nil)
						next := bi
						if k == m {
							next = bi + 1 // fully committed: just go on with the next block
						}
						for j := next; j < nb && j <= bi+1; j++ {
							ms2.ApplyWritesRoute(blocks[j], msdrive.RouteOf(j, blocks[j]))
							if !commitLine(t, cp, ms2, j, snaps[j+1]) {
								return
							}
						}
					}()
				}
			}
		}()
	}
	t.Close(map[string]interface{}{"histories": *n, "crash_points": crashes})
}
