package antelab

import (
	"time"

	"github.com/pokt-network/pocket-core/crypto"
	sdk "github.com/pokt-network/pocket-core/types"
	"github.com/pokt-network/pocket-core/x/auth"
	authTypes "github.com/pokt-network/pocket-core/x/auth/types"
	dbm "github.com/tendermint/tm-db"
	"verifharness/internal/chain"
)

// Roles names the keys of the generated chain.
type Roles struct {
	W       *chain.World
	Val     chain.Key   // validator (proposer)
	Node    chain.Key   // custodial servicer (output = itself)
	NodeNC  chain.Key   // non-custodial servicer, output = Out
	Out     chain.Key   // output address of NodeNC (funded account)
	App     chain.Key   // staked application
	App2    chain.Key   // another staked application
	Rich    []chain.Key // funded plain accounts
	TwoDen  chain.Key   // account that also holds "aaa" coins
	Poor    []chain.Key // balances 0, fee-1, fee, fee+1
	Fresh   []chain.Key // keys without an account
	Foreign, ForeignK chain.Key // genesis account at Foreign.Addr whose STORED public key is ForeignK's (nothing validates that a stored key hashes to its address)
	Owner   chain.Key
	Multi   Multi       // funded 2-of-2 multisig account
	MultiIn Multi       // same keys, signatures placed in the wrong order
	Deep    Multi       // multisig with more keys than TxSigLimit allows
	AppU    chain.Key   // application that is unstaking (begin-unstake in the setup block)
	NodeU   chain.Key   // node whose unstaking has COMPLETED: record kept with status Unstaked, output OutU
	NodeW   chain.Key   // node that is unstaking (status Unstaking), output OutU
	NodeJ   chain.Key   // staked node that is jailed, output OutU
	OutU    chain.Key   // recorded output address of NodeU / NodeW / NodeJ (funded)
	NodeLow chain.Key   // non-custodial node whose operator account holds less than one fee; output = Out2
	Out2    chain.Key   // output address of NodeLow (funded, balance differs from every other account)
	Out3    chain.Key   // funded account used as the new output address in output-address edits
	NewApp  chain.Key   // funded plain account named as the new key of an application transfer
	Multis  []Multi     // funded multisig accounts of 2, 3 and 4 keys (Multis[0] = Multi)
}

// UnstakingTime of the generated chains (blocks are one minute apart).
const UnstakingTime = 40 * time.Minute

const NCStake = 60000000000

const Fee = 10000 // required fee of every message type at multiplier 1

// Options of a generated chain.
type Options struct {
	ChainID  string
	Features map[string]int64 // nil = every feature from height 1
	FeeMulti int64            // default fee multiplier (0 = 1)
	SendMulti int64           // per-type multiplier for "send" (0 = none)
}

func upokt(a int64) sdk.Coins { return sdk.Coins{sdk.NewCoin(sdk.DefaultStakeDenom, sdk.NewInt(a))} }

// NewChain boots a node with the role accounts in genesis and runs two empty blocks (so that
// height-1 gated features are active in every branch that looks at the last committed height).
func NewChain(o Options) (*Lab, *Roles) {
	if o.Features == nil {
		chain.ModernGlobals() // every feature from height 2; block 1 converts the legacy genesis records
	} else {
		chain.ResetGlobals(o.Features, 2, 1)
	}
	w, g := chain.DefaultWorld(o.ChainID, 2, 5, 3, 9)
	g.Features = o.Features
	r := &Roles{W: w, Val: w.Vals[0], Node: w.Servs[0], NodeNC: w.Servs[1], Out: w.Accts[0], App: w.Apps[0], App2: w.Apps[1],
		Rich: w.Accts[1:4], TwoDen: w.Accts[4], Owner: w.Owner, Fresh: w.Fresh,
		NodeU: w.Servs[2], NodeW: w.Servs[3], NodeJ: w.Servs[4], OutU: w.Accts[8], AppU: w.Apps[2], NodeLow: w.Vals[1], Out2: w.Accts[5], Out3: w.Accts[6], NewApp: w.Accts[7]}
	for i := 0; i < 4; i++ {
		r.Poor = append(r.Poor, chain.KeyN(3000+uint64(i)))
	}
	m1, m2 := chain.KeyN(4000), chain.KeyN(4001)
	r.Multi = Multi{Members: []Signer{Single{m1}, Single{m2}}}
	r.MultiIn = Multi{Members: r.Multi.Members, Order: []int{1, 0}}
	var deep []Signer
	for i := 0; i < 8; i++ {
		deep = append(deep, Single{chain.KeyN(4100 + uint64(i))})
	}
	r.Deep = Multi{Members: deep}
	r.Multis = []Multi{r.Multi}
	r.Foreign, r.ForeignK = chain.KeyN(4390), chain.KeyN(4391)
	for n := 3; n <= 4; n++ {
		var ms []Signer
		for i := 0; i < n; i++ {
			ms = append(ms, Single{chain.KeyN(uint64(4200 + 10*n + i))})
		}
		r.Multis = append(r.Multis, Multi{Members: ms})
	}
	g.Mutate = func(gs *chain.Genesis) {
		for i := range gs.Nodes.Validators {
			if gs.Nodes.Validators[i].Address.Equals(r.NodeNC.Addr) {
				gs.Nodes.Validators[i].OutputAddress = r.Out.Addr
			}
		}
		gs.Nodes.Params.UnstakingTime = UnstakingTime
		poor := []int64{0, Fee - 1, Fee, Fee + 1}
		gs.Auth.Accounts = append(gs.Auth.Accounts, &auth.BaseAccount{Address: r.Foreign.Addr, Coins: upokt(500000000000), PubKey: r.ForeignK.Pub})
		gs.Auth.Accounts = append(gs.Auth.Accounts, &auth.BaseAccount{Address: r.ForeignK.Addr, Coins: upokt(400000000000), PubKey: r.ForeignK.Pub}) // the other key is a funded account of its own (it can pay a fee)
		for i, k := range r.Poor {
			c := upokt(poor[i])
			if poor[i] == 0 {
				c = sdk.Coins{}
			}
			gs.Auth.Accounts = append(gs.Auth.Accounts, &auth.BaseAccount{Address: k.Addr, Coins: c, PubKey: k.Pub})
		}
		for _, a := range gs.Auth.Accounts {
			if ba, ok := a.(*auth.BaseAccount); ok {
				// distinct balances, so that a fee taken from the wrong account is visible in the dump
				for i, k := range []chain.Key{r.Out, r.Out2, r.Out3, r.NewApp, r.App, r.App2, r.NodeNC} {
					if ba.Address.Equals(k.Addr) {
						ba.Coins = upokt(1000000000000 + int64(i+1)*1111111)
					}
				}
			}
			if ba, ok := a.(*auth.BaseAccount); ok && ba.Address.Equals(r.TwoDen.Addr) {
				ba.Coins = sdk.Coins{sdk.NewCoin("aaa", sdk.NewInt(1000000)), sdk.NewCoin(sdk.DefaultStakeDenom, sdk.NewInt(1000000000000))}
			}
		}
		if o.FeeMulti != 0 {
			gs.Auth.Params.FeeMultiplier.Default = o.FeeMulti
		}
		if o.SendMulti != 0 {
			gs.Auth.Params.FeeMultiplier.FeeMultis = []authTypes.FeeMultiplier{{Key: "stake_validator", Multiplier: 2}, {Key: "send", Multiplier: o.SendMulti}}
		}
	}
	gen := chain.BuildGenesis(g)
	n := chain.NewNode(gen, o.ChainID, g.GenesisTime, dbm.NewMemDB(), dbm.NewMemDB(), dbm.NewMemDB(), false)
	n.InitChain()
	l := New(n, o.ChainID, r.Val.Addr)
	l.EmptyBlock()
	// multisig keys cannot appear in genesis (auth.ValidateGenesis rejects them): fund their
	// accounts with ordinary transfers in a setup block
	var setup [][]byte
	for i, m := range append([]Multi{r.Deep}, r.Multis...) {
		setup = append(setup, chain.SignTx(o.ChainID, r.Rich[0], chain.MsgSend(r.Rich[0].Addr, AddrOf(m.Pub()), 1000000000), chain.DefaultFee*(o.FeeMulti+o.SendMulti+1), int64(900+i), ""))
	}
	// genesis validators pass through LegacyValidator (no output address): make NodeNC
	// non-custodial with an edit-stake signed by the operator; 60e9 = stake weight ceiling, so later
	// edits with the same amount are accepted
	setup = append(setup, chain.SignTx(o.ChainID, r.NodeNC, chain.MsgNodeStake(r.NodeNC, NCStake, []string{chain.ChainHash}, "https://nc.example:443", r.Out.Addr, nil), chain.DefaultFee*(o.FeeMulti+1), 950, ""))
	// NodeLow: non-custodial (output Out2); afterwards its operator account is drained to half a fee
	setup = append(setup, chain.SignTx(o.ChainID, r.NodeLow, chain.MsgNodeStake(r.NodeLow, NCStake, []string{chain.ChainHash}, "https://low.example:443", r.Out2.Addr, nil), chain.DefaultFee*(o.FeeMulti+1), 951, ""))
	for i, k := range []chain.Key{r.NodeU, r.NodeW, r.NodeJ} {
		setup = append(setup, chain.SignTx(o.ChainID, k, chain.MsgNodeStake(k, NCStake, []string{chain.ChainHash}, "https://u.example:443", r.OutU.Addr, nil), chain.DefaultFee*(o.FeeMulti+1), int64(960+i), ""))
	}
	setup = append(setup, chain.SignTx(o.ChainID, r.AppU, chain.MsgAppUnstake(r.AppU.Addr), chain.DefaultFee*(o.FeeMulti+1), 953, ""))
	l.EmptyBlock()
	run := func(txs [][]byte) {
		l.Begin(txs)
		for _, t := range txs {
			if res := l.Deliver(t); res.Code != 0 {
				panic("setup transaction failed: " + res.Log)
			}
		}
		l.End()
	}
	run(setup)
	drainFee := chain.DefaultFee * (o.FeeMulti + o.SendMulti + 1)
	bal := n.App.VerifAccountKeeper().GetCoins(l.Ctx(), r.NodeLow.Addr).AmountOf(sdk.DefaultStakeDenom).Int64()
	run([][]byte{chain.SignTx(o.ChainID, r.NodeLow, chain.MsgSend(r.NodeLow.Addr, r.Rich[0].Addr, bal-drainFee-Fee/2), drainFee, 952, "")})
	// NodeU: a record left behind with status Unstaked.  Under the modern rule set the end-blocker
	// deletes a node record right after FinishUnstakingValidator (unstakeAllMatureValidators), and genesis
	// refuses unstaked records; leftovers of this kind come from the pre-NCUST force-unstake path, which
	// keeps the record of a node outside the validator set.  It is reproduced here the way the keeper
	// does it: NodeU begins unstaking through a real transaction and, once its status is Unstaking,
	// FinishUnstakingValidator is applied inside a block (stake returned, status Unstaked, record and output
	// address kept).  NodeW then begins unstaking (its record stays Unstaking for UnstakingTime).
	nk := n.App.VerifNodesKeeper()
	status := func(k chain.Key) (st int, found, jailed bool) {
		v, ok := nk.GetValidator(l.Ctx(), k.Addr)
		return int(v.Status), ok, ok && v.Jailed
	}
	waitUnstaking := func(k chain.Key) {
		for i := 0; ; i++ {
			if st, found, _ := status(k); found && st == int(sdk.Unstaking) {
				return
			}
			if i > 30 {
				panic("node did not start unstaking")
			}
			l.EmptyBlock() // waiting nodes are released at the next session boundary
		}
	}
	run([][]byte{chain.SignTx(o.ChainID, r.NodeU, chain.MsgNodeUnstake(r.NodeU.Addr, r.NodeU.Addr), chain.DefaultFee*(o.FeeMulti+1), 970, "")})
	waitUnstaking(r.NodeU)
	l.Begin(nil)
	if v, ok := nk.GetValidator(l.Ctx(), r.NodeU.Addr); ok {
		nk.FinishUnstakingValidator(l.Ctx(), v)
	}
	l.End()
	if st, found, _ := status(r.NodeU); !found || st != int(sdk.Unstaked) {
		panic("NodeU record is not Unstaked")
	}
	run([][]byte{chain.SignTx(o.ChainID, r.NodeW, chain.MsgNodeUnstake(r.NodeW.Addr, r.NodeW.Addr), chain.DefaultFee*(o.FeeMulti+1), 971, "")})
	waitUnstaking(r.NodeW)
	// NodeJ is jailed by calling the keeper's JailValidator inside a block: the genesis servicers have no
	// signing info on this chain (so downtime jailing cannot trigger below height 30040) and a
	// double-sign only slashes; how a node gets jailed is not what C14 is about
	l.Begin(nil)
	nk.JailValidator(l.Ctx(), r.NodeJ.Addr)
	l.End()
	if _, _, jailed := status(r.NodeJ); !jailed {
		panic("NodeJ was not jailed")
	}
	return l, r
}

func AddrOf(pk crypto.PublicKey) sdk.Address { return sdk.Address(pk.Address()) }
