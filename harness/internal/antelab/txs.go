package antelab

import (
	"encoding/binary"

	"github.com/pokt-network/pocket-core/app"
	codecTypes "github.com/pokt-network/pocket-core/codec/types"
	"github.com/pokt-network/pocket-core/crypto"
	sdk "github.com/pokt-network/pocket-core/types"
	authTypes "github.com/pokt-network/pocket-core/x/auth/types"
	"verifharness/internal/chain"
)

// Signer produces a signature and the public key placed in the transaction.
type Signer interface {
	Pub() crypto.PublicKey
	Sign(msg []byte) []byte
}

// Single is one ed25519 key.
type Single struct{ K chain.Key }

func (s Single) Pub() crypto.PublicKey { return s.K.Pub }
func (s Single) Sign(m []byte) []byte {
	b, err := s.K.Priv.Sign(m)
	if err != nil {
		panic(err)
	}
	return b
}

// Multi is a (possibly nested) multisig key; Order is the order in which member signatures are
// placed (nil = key order).
type Multi struct {
	Members []Signer
	Order   []int
}

func (m Multi) Pub() crypto.PublicKey {
	var ks []crypto.PublicKey
	for _, s := range m.Members {
		ks = append(ks, s.Pub())
	}
	return crypto.PublicKeyMultiSignature{PublicKeys: ks}
}

func (m Multi) Sign(msg []byte) []byte {
	ms := crypto.MultiSignature{}
	order := m.Order
	if order == nil {
		for i := range m.Members {
			order = append(order, i)
		}
	}
	for _, i := range order {
		ms.Sigs = append(ms.Sigs, m.Members[i].Sign(msg))
	}
	return ms.Marshal()
}

// Signature mutations.
const (
	SigGood = iota
	SigFlip
	SigEmpty
)

// TxSpec describes a transaction byte string to build.
type TxSpec struct {
	Msg       sdk.ProtoMsg
	Fee       sdk.Coins // placed as is (may be unsorted / duplicate / zero)
	Memo      string
	Entropy   int64
	SignChain string // chain id in the signed document
	By        Signer
	OmitPk    bool
	SigMut    int
}

// Build encodes the transaction exactly as auth.DefaultTxEncoder does after the codec upgrade
// (uvarint length prefix + ProtoStdTx), but from the proto struct so that a missing public key and
// malformed fee sets can be expressed.
func Build(s TxSpec) []byte {
	sd, err := authTypes.StdSignBytes(s.SignChain, s.Entropy, s.Fee, s.Msg, s.Memo)
	if err != nil {
		panic(err)
	}
	sig := s.By.Sign(sd)
	switch s.SigMut {
	case SigFlip:
		sig = append([]byte{}, sig...)
		sig[len(sig)/2] ^= 0x01
	case SigEmpty:
		sig = nil
	}
	any, err := codecTypes.NewAnyWithValue(s.Msg)
	if err != nil {
		panic(err)
	}
	p := authTypes.ProtoStdTx{Msg: *any, Fee: s.Fee, Memo: s.Memo, Entropy: s.Entropy,
		Signature: authTypes.ProtoStdSignature{Signature: sig}}
	if !s.OmitPk {
		p.Signature.PublicKey = s.By.Pub().RawBytes()
	}
	body, err := p.Marshal()
	if err != nil {
		panic(err)
	}
	var sz [binary.MaxVarintLen64]byte
	n := binary.PutUvarint(sz[:], uint64(len(body)))
	return append(sz[:n:n], body...)
}

var _ = app.Codec

// ---------------------------------------------------------------------------------------------
// semantics-preserving re-encodings of a length-prefixed ProtoStdTx

// Reencodings lists the classes produced by Reencode.
var Reencodings = []string{"unknown-field", "length-prefix-padded", "entropy-varint-padded", "field-tag-padded", "repeated-scalar"}

func splitPrefix(raw []byte) (body []byte) {
	_, n := binary.Uvarint(raw)
	return raw[n:]
}

func withPrefix(body []byte) []byte {
	var sz [binary.MaxVarintLen64]byte
	n := binary.PutUvarint(sz[:], uint64(len(body)))
	return append(sz[:n:n], body...)
}

// padVarint re-encodes the minimal varint v into `extra` more bytes (non-minimal, same value).
func padVarint(v []byte, extra int) []byte {
	out := append([]byte{}, v...)
	out[len(out)-1] |= 0x80
	for i := 0; i < extra-1; i++ {
		out = append(out, 0x80)
	}
	return append(out, 0x00)
}

// Reencode returns a different byte string that decodes to the same ProtoStdTx, or nil when the
// class does not apply to this transaction.
func Reencode(raw []byte, class string) []byte {
	body := splitPrefix(raw)
	switch class {
	case "unknown-field": // append field 15, wire type 0, value 1
		return withPrefix(append(append([]byte{}, body...), 0x78, 0x01))
	case "length-prefix-padded":
		var sz [binary.MaxVarintLen64]byte
		n := binary.PutUvarint(sz[:], uint64(len(body)))
		return append(padVarint(sz[:n], 1), body...)
	case "entropy-varint-padded", "repeated-scalar", "field-tag-padded":
		// the entropy field (tag 0x28) is the last field written by the generated marshaler
		i := lastField(body, 5)
		if i < 0 {
			return nil
		}
		val := body[i+1:]
		switch class {
		case "entropy-varint-padded":
			if len(val) >= 10 {
				return nil
			}
			return withPrefix(append(append([]byte{}, body[:i+1]...), padVarint(val, 1)...))
		case "field-tag-padded":
			return withPrefix(append(append(append([]byte{}, body[:i]...), 0xa8, 0x00), val...))
		default: // an earlier occurrence of the scalar field with another value; the last one wins
			return withPrefix(append(append(append([]byte{}, body[:i]...), 0x28, 0x07), body[i:]...))
		}
	}
	return nil
}

// lastField scans the top-level fields of a proto message and returns the offset of the tag byte
// of the last field with the given number when that field is the final one (varint wire type).
func lastField(body []byte, num int) int {
	i, last := 0, -1
	for i < len(body) {
		tag, n := binary.Uvarint(body[i:])
		if n <= 0 {
			return -1
		}
		start := i
		i += n
		switch tag & 7 {
		case 0:
			_, m := binary.Uvarint(body[i:])
			if m <= 0 {
				return -1
			}
			i += m
		case 2:
			l, m := binary.Uvarint(body[i:])
			if m <= 0 {
				return -1
			}
			i += m + int(l)
		case 1:
			i += 8
		case 5:
			i += 4
		default:
			return -1
		}
		if int(tag>>3) == num && tag&7 == 0 && n == 1 {
			last = start
		} else {
			last = -1
		}
	}
	if i != len(body) {
		return -1
	}
	return last
}
