package antelab

import (
	"encoding/binary"

	"github.com/pokt-network/pocket-core/app"
	codecTypes "github.com/pokt-network/pocket-core/codec/types"
	"github.com/pokt-network/pocket-core/crypto"
	sdk "github.com/pokt-network/pocket-core/types"
	authTypes "github.com/pokt-network/pocket-core/x/auth/types"
	"verifharness/internal/chain"
	"verifharness/internal/gen"
	"verifharness/internal/wirerw"
)

// Signer produces a signature and the public key placed in the transaction.
type Signer interface {
	Pub() crypto.PublicKey
	Sign(msg []byte) []byte
}

// Single is one ed25519 key.
type Single struct{ K chain.Key }

func (s Single) Pub() crypto.PublicKey { return s.K.Pub }
func (s Single) Sign(m []byte) []byte {
	b, err := s.K.Priv.Sign(m)
	if err != nil {
		panic(err)
	}
	return b
}

// Multi is a (possibly nested) multisig key; Order is the order in which member signatures are
// placed (nil = key order).
type Multi struct {
	Members []Signer
	Order   []int
}

func (m Multi) Pub() crypto.PublicKey {
	var ks []crypto.PublicKey
	for _, s := range m.Members {
		ks = append(ks, s.Pub())
	}
	return crypto.PublicKeyMultiSignature{PublicKeys: ks}
}

func (m Multi) Sign(msg []byte) []byte {
	ms := crypto.MultiSignature{}
	order := m.Order
	if order == nil {
		for i := range m.Members {
			order = append(order, i)
		}
	}
	for _, i := range order {
		ms.Sigs = append(ms.Sigs, m.Members[i].Sign(msg))
	}
	return ms.Marshal()
}

// Slot is one positional entry of a hand-built multi-signature.
type Slot struct {
	Member int  // index of the member key that signs this slot
	Wrong  bool // signed by Stranger instead (a key that is not a member)
	Empty  bool // an empty signature
}

// MultiLayout is a multisig key whose signature list is laid out explicitly (prefixes, omissions,
// wrong keys, extra and duplicated entries).
type MultiLayout struct {
	Members  []Signer
	Slots    []Slot
	Stranger Signer
}

func (m MultiLayout) Pub() crypto.PublicKey { return Multi{Members: m.Members}.Pub() }

func (m MultiLayout) Sign(msg []byte) []byte {
	ms := crypto.MultiSignature{Sigs: [][]byte{}}
	for _, s := range m.Slots {
		switch {
		case s.Empty:
			ms.Sigs = append(ms.Sigs, []byte{})
		case s.Wrong:
			ms.Sigs = append(ms.Sigs, m.Stranger.Sign(msg))
		default:
			ms.Sigs = append(ms.Sigs, m.Members[s.Member].Sign(msg))
		}
	}
	return ms.Marshal()
}

// Signature mutations.
const (
	SigGood = iota
	SigFlip
	SigEmpty
)

// TxSpec describes a transaction byte string to build.
type TxSpec struct {
	Msg       sdk.ProtoMsg
	Fee       sdk.Coins // placed as is (may be unsorted / duplicate / zero)
	Memo      string
	Entropy   int64
	SignChain string // chain id in the signed document
	By        Signer
	OmitPk    bool
	SigMut    int
}

// Build encodes the transaction exactly as auth.DefaultTxEncoder does after the codec upgrade
// (uvarint length prefix + ProtoStdTx), but from the proto struct so that a missing public key and
// malformed fee sets can be expressed.
func Build(s TxSpec) []byte {
	sd, err := authTypes.StdSignBytes(s.SignChain, s.Entropy, s.Fee, s.Msg, s.Memo)
	if err != nil {
		panic(err)
	}
	sig := s.By.Sign(sd)
	switch s.SigMut {
	case SigFlip:
		sig = append([]byte{}, sig...)
		sig[len(sig)/2] ^= 0x01
	case SigEmpty:
		sig = nil
	}
	any, err := codecTypes.NewAnyWithValue(s.Msg)
	if err != nil {
		panic(err)
	}
	p := authTypes.ProtoStdTx{Msg: *any, Fee: s.Fee, Memo: s.Memo, Entropy: s.Entropy,
		Signature: authTypes.ProtoStdSignature{Signature: sig}}
	if !s.OmitPk {
		p.Signature.PublicKey = s.By.Pub().RawBytes()
	}
	body, err := p.Marshal()
	if err != nil {
		panic(err)
	}
	var sz [binary.MaxVarintLen64]byte
	n := binary.PutUvarint(sz[:], uint64(len(body)))
	return append(sz[:n:n], body...)
}

var _ = app.Codec

// ---------------------------------------------------------------------------------------------
// re-encodings of a length-prefixed ProtoStdTx: the byte-level rewriter of the codec package
// (harness/internal/wirerw, also used by cmd/c38 -mode c16), so that exactly the classes judged
// there by the real decoder are delivered to the real application here.

// Reencodings lists every rewrite class with what the byte-level half expects of it
// ("same" content, "changed" content, "reject").
func Reencodings() []wirerw.Class { return wirerw.Classes() }

// Reencode applies the class to raw; nil when the class does not apply to this transaction.
func Reencode(r *gen.R, raw []byte, class string) []byte {
	out, _, ok := wirerw.Rewrite(r, class, raw)
	if !ok || string(out) == string(raw) {
		return nil
	}
	return out
}
