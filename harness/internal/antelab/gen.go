package antelab

import (
	"fmt"
	"strings"

	sdk "github.com/pokt-network/pocket-core/types"
	appsTypes "github.com/pokt-network/pocket-core/x/apps/types"
	authTypes "github.com/pokt-network/pocket-core/x/auth/types"
	"verifharness/internal/chain"
	"verifharness/internal/gen"
)

// Profile weights the generator towards one property's matrix.
type Profile struct {
	Name        string
	BadSig      int // percent of cases with a signature/key defect
	BadFee      int // percent of cases with a fee other than "equal to required"
	Resubmit    int // percent of cases that resubmit earlier bytes unchanged
	Reencode    int // percent of cases that resubmit an earlier tx re-encoded
	Relations   bool // exercise every signer relation (owner / output / stranger / fresh / multisig)
}

var Profiles = map[string]Profile{
	"c14": {Name: "c14", BadSig: 45, BadFee: 10, Resubmit: 3, Reencode: 0, Relations: true},
	"c15": {Name: "c15", BadSig: 12, BadFee: 60, Resubmit: 5, Reencode: 0, Relations: true},
	"c16": {Name: "c16", BadSig: 8, BadFee: 8, Resubmit: 30, Reencode: 30, Relations: false},
}

// Gen draws transactions for one chain.
type Gen struct {
	R       *gen.R
	L       *Lab
	Ro      *Roles
	P       Profile
	ChainID string
	entropy int64
	Sent    []Case // earlier byte strings (for resubmission / re-encoding)
	mult    int64
	perType map[string]int64 // per message type multipliers of the chain
}

func NewGen(r *gen.R, l *Lab, ro *Roles, p Profile, mult int64) *Gen {
	if mult == 0 {
		mult = 1
	}
	return &Gen{R: r, L: l, Ro: ro, P: p, ChainID: l.ChainID, entropy: 1000, mult: mult}
}

type msgChoice struct {
	name     string
	msg      sdk.ProtoMsg
	right    []Signer // keys that are allowed to sign
	payerBal string
}

func (g *Gen) pickMsg() msgChoice {
	r, ro := g.R, g.Ro
	one := func(k chain.Key) []Signer { return []Signer{Single{k}} }
	rich := ro.Rich[r.Intn(len(ro.Rich))]
	switch r.Intn(16) {
	case 0, 1, 2: // transfer from a funded account
		amt := []int64{1, 5000, 123456, 5000000000000}[r.Intn(4)]
		return msgChoice{"send", chain.MsgSend(rich.Addr, ro.Rich[r.Intn(len(ro.Rich))].Addr, amt), one(rich), "ample"}
	case 3: // transfer from an account holding about one fee
		k := ro.Poor[r.Intn(len(ro.Poor))]
		return msgChoice{"send-poor", chain.MsgSend(k.Addr, rich.Addr, int64(r.Intn(2))), one(k), "poor"}
	case 4: // transfer from the account that holds two denominations
		return msgChoice{"send-twoden", chain.MsgSend(ro.TwoDen.Addr, rich.Addr, 7), one(ro.TwoDen), "twoden"}
	case 5: // transfer from the multisig account
		return msgChoice{"send-multi", chain.MsgSend(AddrOf(ro.Multi.Pub()), rich.Addr, 3), []Signer{ro.Multi}, "ample"}
	case 6: // edit-stake of the non-custodial node: operator or output address may sign
		amt := int64(NCStake)
		if r.Chance(1, 3) {
			amt-- // lowering the stake: handler failure
		}
		return msgChoice{"nodeedit-nc", chain.MsgNodeStake(ro.NodeNC, amt, []string{chain.ChainHash}, "https://nc.example:443", ro.Out.Addr, nil),
			[]Signer{Single{ro.NodeNC}, Single{ro.Out}}, "ample"}
	case 7: // edit-stake of the custodial node with the same amount (same bin: handler failure)
		return msgChoice{"nodeedit", chain.MsgNodeStake(ro.Node, 15000000000, []string{chain.ChainHash}, "https://c.example:443", ro.Node.Addr, nil), one(ro.Node), "ample"}
	case 8: // unstake: the message names its signer; operator and output are accepted by the handler
		s := []chain.Key{ro.NodeNC, ro.Out, rich}[r.Intn(3)]
		target := ro.NodeNC
		if r.Chance(3, 4) {
			target = ro.Node // keeps NodeNC staked most of the time
			s = []chain.Key{ro.Node, rich}[r.Intn(2)]
			if r.Chance(9, 10) {
				s = rich // stranger names itself as signer: ante passes, handler refuses, fee charged
			}
		} else if r.Chance(4, 5) {
			s = rich
		}
		return msgChoice{"nodeunstake", chain.MsgNodeUnstake(target.Addr, s.Addr), []Signer{Single{s}, Single{target}}, "ample"}
	case 9: // unjail of a node that is not jailed: handler failure
		return msgChoice{"nodeunjail", chain.MsgNodeUnjail(ro.Node.Addr, ro.Node.Addr), one(ro.Node), "ample"}
	case 10: // application edit-stake
		return msgChoice{"appstake", chain.MsgAppStake(ro.App, int64(10000000+r.Intn(3)*1000000), []string{chain.ChainHash}), one(ro.App), "ample"}
	case 11: // application transfer: signed by the current application, names the new key
		nk := ro.Fresh[r.Intn(len(ro.Fresh))]
		m := &appsTypes.MsgStake{PubKey: nk.Pub, Chains: nil, Value: sdk.ZeroInt()}
		return msgChoice{"apptransfer", m, []Signer{Single{ro.App2}, Single{ro.App}}, "ample"}
	case 12: // application unstake (rare success, afterwards handler failures)
		if r.Chance(1, 6) {
			return msgChoice{"appunstake", chain.MsgAppUnstake(ro.App2.Addr), one(ro.App2), "ample"}
		}
		return msgChoice{"appunstake-nonapp", chain.MsgAppUnstake(rich.Addr), one(rich), "ample"}
	case 13: // parameter change by the owner / by somebody else naming himself
		if r.Bool() {
			return msgChoice{"param", chain.MsgChangeParam(ro.Owner.Addr, "pos/MaxValidators", int64(3+r.Intn(4))), one(ro.Owner), "ample"}
		}
		return msgChoice{"param-nonowner", chain.MsgChangeParam(rich.Addr, "pos/MaxValidators", int64(1)), one(rich), "ample"}
	case 14:
		if r.Chance(1, 3) { // DAO transfer/burn by somebody who is not the DAO owner: fee paid, handler refuses with the ROOT code sdk/4
			return msgChoice{"dao-nonowner", chain.MsgDAO(rich.Addr, rich.Addr, int64(1+r.Intn(1000)), r.Chance(1, 2)), one(rich), "ample"}
		}
		return msgChoice{"dao", chain.MsgDAO(ro.Owner.Addr, rich.Addr, int64(1+r.Intn(1000)), r.Chance(1, 4)), one(ro.Owner), "ample"}
	default: // sender without an account
		k := ro.Fresh[r.Intn(len(ro.Fresh))]
		return msgChoice{"send-fresh", chain.MsgSend(k.Addr, rich.Addr, 1), one(k), "none"}
	}
}

const feeKinds = 12

// reqFor is the required fee of msg on this chain.
func (g *Gen) reqFor(msg sdk.Msg) int64 {
	if m, ok := g.perType[msg.Type()]; ok {
		return Fee * m
	}
	return Fee * g.mult
}

func (g *Gen) pickFee(bad bool, req int64) (sdk.Coins, string) {
	if !bad {
		return sdk.Coins{sdk.Coin{Denom: "upokt", Amount: sdk.NewInt(req)}}, "equal"
	}
	return g.feeOf(g.R.Intn(feeKinds), req)
}

func (g *Gen) feeOf(kind int, req int64) (sdk.Coins, string) {
	r := g.R
	c := func(d string, a int64) sdk.Coin { return sdk.Coin{Denom: d, Amount: sdk.NewInt(a)} }
	switch kind {
	case 0:
		return sdk.Coins{c("upokt", req-1)}, "below"
	case 1:
		return sdk.Coins{c("upokt", req+1+int64(r.Intn(50000)))}, "above"
	case 2:
		return sdk.Coins{}, "zero"
	case 3:
		return sdk.Coins{c("aaa", 5), c("upokt", req)}, "twodenoms"
	case 4:
		return sdk.Coins{c("upokt", req), c("aaa", 5)}, "unsorted"
	case 5:
		return sdk.Coins{c("upokt", req), c("upokt", req)}, "duplicate"
	case 6:
		return sdk.Coins{c("upokt", 0)}, "zerocoin"
	case 7:
		return sdk.Coins{c("aaa", req*2)}, "otherdenom"
	case 8:
		return sdk.Coins{c("upokt", 5000000000000)}, "huge"
	case 9:
		return sdk.Coins{c("upokt", 1)}, "one"
	case 10:
		return sdk.Coins{c("aaa", 5), c("upokt", req-1)}, "twodenoms-below"
	default:
		return sdk.Coins{c("upokt", req*2)}, "double"
	}
}

// Next draws the next case.
func (g *Gen) Next() Case {
	r, ro := g.R, g.Ro
	roll := r.Intn(100)
	if len(g.Sent) > 0 && roll < g.P.Resubmit {
		c := g.Sent[r.Intn(len(g.Sent))]
		c.Kind = "resubmit/" + c.Kind
		return c
	}
	if len(g.Sent) > 0 && roll < g.P.Resubmit+g.P.Reencode {
		for try := 0; try < 8; try++ {
			c := g.Sent[r.Intn(len(g.Sent))]
			if c.Variant != "-" {
				continue
			}
			cls := Reencodings()
			class := cls[r.Intn(len(cls))].Name
			if bz := Reencode(r, c.Raw, class); bz != nil {
				nc := Case{Kind: "reencode-" + class + "/" + c.Kind, Raw: bz, Variant: class}
				g.Sent = append(g.Sent, nc) // a variant can itself be resubmitted
				return nc
			}
		}
	}
	m := g.pickMsg()
	g.entropy++
	// every 23rd transaction: a transfer FROM the account whose stored public key belongs to another key,
	// signed by that other key with the public key omitted (world-state lookup path).  The key on record
	// does not hash to the signer address, so the transaction must be refused.  No PRNG draw.
	foreign := g.entropy%23 == 7
	if foreign {
		m = msgChoice{"send-foreignpk", chain.MsgSend(ro.Foreign.Addr, ro.Rich[0].Addr, 4321), []Signer{Single{ro.Foreign}}, "ample"}
	}
	spec := TxSpec{Msg: m.msg, Entropy: g.entropy, SignChain: g.ChainID}
	var feeKind string
	spec.Fee, feeKind = g.pickFee(r.Intn(100) < g.P.BadFee, g.reqFor(m.msg))
	rel := "owner"
	spec.By = m.right[0]
	if g.P.Relations && len(m.right) > 1 && r.Chance(1, 2) {
		spec.By = m.right[1+r.Intn(len(m.right)-1)]
		rel = "alt"
	}
	sigKind := "good"
	if r.Intn(100) < g.P.BadSig {
		switch r.Intn(9) {
		case 0:
			spec.SigMut, sigKind = SigFlip, "flip"
		case 1:
			spec.SignChain, sigKind = "other-chain", "otherchain"
		case 2:
			spec.SigMut, sigKind = SigEmpty, "emptysig"
		case 3:
			spec.OmitPk, sigKind = true, "nopk"
		case 4:
			spec.By, rel = Single{ro.Rich[r.Intn(len(ro.Rich))]}, "stranger"
		case 5:
			spec.By, rel = Single{ro.Fresh[r.Intn(len(ro.Fresh))]}, "fresh"
		case 6:
			spec.By, rel = ro.Multi, "multisig-stranger"
		case 7:
			if _, ok := spec.By.(Multi); ok {
				spec.By, rel = ro.MultiIn, "multisig-misordered"
			} else {
				spec.By, rel = ro.Deep, "multisig-deep"
			}
		default:
			spec.Memo, sigKind = strings.Repeat("m", 300), "longmemo"
		}
	}
	if foreign {
		spec.By, rel = Single{ro.ForeignK}, "storedkey"
		spec.OmitPk, sigKind = true, "nopk"
		spec.SigMut, spec.SignChain, spec.Memo = 0, g.ChainID, ""
	}
	c := Case{Kind: fmt.Sprintf("%s/%s/%s/fee-%s", m.name, rel, sigKind, feeKind), Raw: Build(spec), Variant: "-"}
	g.Sent = append(g.Sent, c)
	if len(g.Sent) > 400 {
		g.Sent = g.Sent[len(g.Sent)-400:]
	}
	return c
}

// Core returns the blocks of must-cover cases run before the random stream.
func (g *Gen) Core() [][]Case {
	ro := g.Ro
	var blocks [][]Case
	mk := func(name string, msg sdk.ProtoMsg, by Signer, fee sdk.Coins, feeKind string) Case {
		g.entropy++
		if fee == nil { // exactly the required fee of this message
			fee = sdk.Coins{sdk.Coin{Denom: "upokt", Amount: sdk.NewInt(g.reqFor(msg))}}
		}
		c := Case{Kind: fmt.Sprintf("core-%s/owner/good/fee-%s", name, feeKind), Variant: "-",
			Raw: Build(TxSpec{Msg: msg, Fee: fee, Entropy: g.entropy, SignChain: g.ChainID, By: by})}
		g.Sent = append(g.Sent, c)
		return c
	}
	var eq sdk.Coins // nil = exactly the required fee
	sendReq := g.reqFor(chain.MsgSend(ro.Rich[0].Addr, ro.Rich[1].Addr, 1))
	switch g.P.Name {
	case "c15":
		// every fee shape from a simple key, from the two-denomination account and from the multisig account
		for k := -1; k < feeKinds; k++ {
			fee, name := eq, "equal"
			if k >= 0 {
				fee, name = g.feeOf(k, sendReq)
			}
			blocks = append(blocks, []Case{
				mk("send", chain.MsgSend(ro.Rich[0].Addr, ro.Rich[1].Addr, 11), Single{ro.Rich[0]}, fee, name),
				mk("send-twoden", chain.MsgSend(ro.TwoDen.Addr, ro.Rich[1].Addr, 11), Single{ro.TwoDen}, fee, name),
				mk("send-multi", chain.MsgSend(AddrOf(ro.Multi.Pub()), ro.Rich[1].Addr, 11), ro.Multi, fee, name),
				mk("nodeunjail", chain.MsgNodeUnjail(ro.Node.Addr, ro.Node.Addr), Single{ro.Node}, fee, name), // handler failure
			})
		}
		// balances 0, fee-1, fee, fee+1 paying the exact fee, sending 0 or 1
		var b []Case
		for _, k := range ro.Poor {
			for amt := int64(0); amt < 2; amt++ {
				b = append(b, mk("send-poor", chain.MsgSend(k.Addr, ro.Rich[1].Addr, amt), Single{k}, eq, "equal"))
			}
		}
		blocks = append(blocks, b)
		// partially signed multisig transfers must not be charged
		var ps []Case
		for _, c := range g.MultisigMatrix() {
			if strings.Contains(c.Kind, "/prefix") || strings.Contains(c.Kind, "/full/") || strings.Contains(c.Kind, "/nosigs") {
				ps = append(ps, c)
			}
		}
		blocks = append(blocks, ps)
		blocks = append(blocks, g.SignerNotInMsg())
		blocks = append(blocks, g.ParamBlocks()...)
	case "c16":
		// one transaction of every outcome class, then the identical bytes again in the next block and
		// in the block after: executed and indexed (code 0); rejected by the ante handler with an auth
		// code (fee below required) and with a root code (stranger's signature, sdk/4); past the ante
		// handler (fee paid) and refused by the message handler with a ROOT code below 10 (DAO transfer
		// and DAO burn by a non-owner, sdk/4), with a module code (unjail of a node that is not jailed,
		// parameter change by a non-owner) and with a root code >= 10 (transfer above the balance, sdk/10)
		{
			below := sdk.Coins{sdk.Coin{Denom: "upokt", Amount: sdk.NewInt(g.reqFor(chain.MsgSend(ro.Rich[0].Addr, ro.Rich[1].Addr, 1)) - 1)}}
			oc := []Case{
				mk("outcome-ok", chain.MsgSend(ro.Rich[0].Addr, ro.Rich[1].Addr, 31), Single{ro.Rich[0]}, eq, "equal"),
				mk("outcome-ante-auth", chain.MsgSend(ro.Rich[0].Addr, ro.Rich[1].Addr, 32), Single{ro.Rich[0]}, below, "below"),
				mk("outcome-ante-root", chain.MsgSend(ro.Rich[0].Addr, ro.Rich[1].Addr, 33), Single{ro.Rich[2]}, eq, "equal"),
				mk("outcome-handler-root-lt10-dao-transfer", chain.MsgDAO(ro.Rich[0].Addr, ro.Rich[1].Addr, 5, false), Single{ro.Rich[0]}, eq, "equal"),
				mk("outcome-handler-root-lt10-dao-burn", chain.MsgDAO(ro.Rich[1].Addr, ro.Rich[1].Addr, 5, true), Single{ro.Rich[1]}, eq, "equal"),
				mk("outcome-handler-module-pos", chain.MsgNodeUnjail(ro.Node.Addr, ro.Node.Addr), Single{ro.Node}, eq, "equal"),
				mk("outcome-handler-module-gov", chain.MsgChangeParam(ro.Rich[2].Addr, "pos/MaxValidators", int64(1)), Single{ro.Rich[2]}, eq, "equal"),
				mk("outcome-handler-root-ge10", chain.MsgSend(ro.Rich[2].Addr, ro.Rich[1].Addr, 5000000000000), Single{ro.Rich[2]}, eq, "equal"),
			}
			again := func(tag string) []Case {
				var out []Case
				for _, c := range oc {
					c.Kind = strings.Replace(c.Kind, "core-outcome", "core-resubmit-"+tag+"-outcome", 1)
					out = append(out, c)
				}
				return out
			}
			blocks = append(blocks, oc, again("next"), again("later"))
		}
		// blocks that END with (or contain) an ante-level rejection next to executed transactions, then the
		// executed ones again byte for byte in later blocks: [T, U] [U, T] [T, U, T'] for U = a signer that
		// cannot pay the fee (auth/6), an over-long memo (auth/1), an in-block duplicate (auth/6 from the tx cache)
		{
			g.entropy++
			longMemo := Case{Kind: "core-lastante-longmemo/owner/good/fee-equal", Variant: "-",
				Raw: Build(TxSpec{Msg: chain.MsgSend(ro.Rich[0].Addr, ro.Rich[1].Addr, 51), Fee: sdk.Coins{sdk.Coin{Denom: "upokt", Amount: sdk.NewInt(g.reqFor(chain.MsgSend(ro.Rich[0].Addr, ro.Rich[1].Addr, 51)))}},
					Memo: strings.Repeat("m", 300), Entropy: g.entropy, SignChain: g.ChainID, By: Single{ro.Rich[0]}})}
			var executed []Case
			tx := func(i int64) Case {
				c := mk("lastante-executed", chain.MsgSend(ro.Rich[int(i)%3].Addr, ro.Rich[int(i+1)%3].Addr, 60+i), Single{ro.Rich[int(i)%3]}, eq, "equal")
				executed = append(executed, c)
				return c
			}
			unfunded := func() Case {
				return mk("lastante-unfunded", chain.MsgSend(ro.Poor[0].Addr, ro.Rich[1].Addr, 1), Single{ro.Poor[0]}, eq, "equal")
			}
			dupOf := func(c Case) Case { c.Kind = "core-lastante-inblockdup/owner/good/fee-equal"; return c }
			t1, t2, t3, t4, t5, t6, t7 := tx(1), tx(2), tx(3), tx(4), tx(5), tx(6), tx(7)
			blocks = append(blocks,
				[]Case{t1, unfunded()},           // [T, U]
				[]Case{t2, longMemo},             // [T, U]
				[]Case{t3, dupOf(t3)},            // [T, U] with U = in-block duplicate
				[]Case{unfunded(), t4},           // [U, T]
				[]Case{t5, unfunded(), t6},       // [T, U, T']
				[]Case{t7, longMemo, dupOf(t7)},  // [T, U, U]
			)
			again := func(tag string) []Case {
				var out []Case
				for _, c := range executed {
					c.Kind = "core-resubmit-" + tag + "-lastante/owner/good/fee-equal"
					out = append(out, c)
				}
				return out
			}
			blocks = append(blocks, again("next"), again("later"))
		}
		// every re-encoding class of an executed transfer: in the same block, in the next block
		for _, cl := range Reencodings() {
			class := cl.Name
			a := mk("send", chain.MsgSend(ro.Rich[0].Addr, ro.Rich[1].Addr, 21), Single{ro.Rich[0]}, eq, "equal")
			b := mk("send", chain.MsgSend(ro.Rich[1].Addr, ro.Rich[2].Addr, 22), Single{ro.Rich[1]}, eq, "equal")
			va := Case{Kind: "core-reencode-" + class + "/sameblock", Variant: class}
			vb := Case{Kind: "core-reencode-" + class + "/nextblock", Variant: class}
			for try := 0; try < 6 && va.Raw == nil; try++ { // the rewriter picks a nesting level at random
				va.Raw = Reencode(g.R, a.Raw, class)
			}
			for try := 0; try < 6 && vb.Raw == nil; try++ {
				vb.Raw = Reencode(g.R, b.Raw, class)
			}
			ra, rb := a, b
			ra.Kind, rb.Kind = "core-resubmit/sameblock", "core-resubmit/nextblock"
			if va.Raw == nil || vb.Raw == nil {
				continue
			}
			blocks = append(blocks, []Case{a, va, ra, b}, []Case{vb, rb, va, ra})
		}
	case "c14":
		blocks = append(blocks, g.RestakeMatrix()...)
		blocks = append(blocks, g.ForeignAppStake())
		// the documented special signers, once each with a good signature
		nk := ro.Fresh[0]
		blocks = append(blocks, []Case{
			mk("nodeedit-nc-by-output", chain.MsgNodeStake(ro.NodeNC, NCStake, []string{chain.ChainHash}, "https://nc.example:443", ro.Out.Addr, nil), Single{ro.Out}, eq, "equal"),
			mk("nodeedit-nc-by-operator", chain.MsgNodeStake(ro.NodeNC, NCStake, []string{chain.ChainHash}, "https://nc.example:443", ro.Out.Addr, nil), Single{ro.NodeNC}, eq, "equal"),
			mk("nodeedit-nc-by-stranger", chain.MsgNodeStake(ro.NodeNC, NCStake, []string{chain.ChainHash}, "https://nc.example:443", ro.Out.Addr, nil), Single{ro.Rich[0]}, eq, "equal"),
			mk("apptransfer-by-stranger", &appsTypes.MsgStake{PubKey: nk.Pub, Chains: nil, Value: sdk.ZeroInt()}, Single{ro.Rich[0]}, eq, "equal"),
			mk("apptransfer-by-newkey", &appsTypes.MsgStake{PubKey: nk.Pub, Chains: nil, Value: sdk.ZeroInt()}, Single{nk}, eq, "equal"),
			mk("apptransfer-by-app", &appsTypes.MsgStake{PubKey: nk.Pub, Chains: nil, Value: sdk.ZeroInt()}, Single{ro.App2}, eq, "equal"),
			mk("send-by-multisig", chain.MsgSend(AddrOf(ro.Multi.Pub()), ro.Rich[1].Addr, 11), ro.Multi, eq, "equal"),
			mk("send-by-multisig-misordered", chain.MsgSend(AddrOf(ro.Multi.Pub()), ro.Rich[1].Addr, 11), ro.MultiIn, eq, "equal"),
		})
		blocks = append(blocks, g.SignerNotInMsg())
		mm := g.MultisigMatrix()
		for len(mm) > 0 {
			k := min(8, len(mm))
			blocks = append(blocks, mm[:k])
			mm = mm[k:]
		}
	}
	if g.P.Name == "c14" {
		// the account whose STORED public key belongs to another key: a transfer out of it signed by that
		// other key, public key omitted (world-state lookup) and supplied; and by its own key
		var cs []Case
		for i, sp := range []TxSpec{{By: Single{ro.ForeignK}, OmitPk: true}, {By: Single{ro.ForeignK}}, {By: Single{ro.Foreign}, OmitPk: true}, {By: Single{ro.Foreign}}} {
			g.entropy++
			msg := chain.MsgSend(ro.Foreign.Addr, ro.Rich[0].Addr, int64(4321+i))
			sp.Msg, sp.Entropy, sp.SignChain = msg, g.entropy, g.ChainID
			sp.Fee = sdk.Coins{sdk.Coin{Denom: "upokt", Amount: sdk.NewInt(g.reqFor(msg))}}
			cs = append(cs, Case{Kind: fmt.Sprintf("core-send-foreignpk%d/storedkey/nopk/fee-equal", i), Variant: "-", Raw: Build(sp)})
		}
		blocks = append(blocks, cs)
	}
	return blocks
}

// StrangerSend is a transfer out of Rich[1]'s account signed (correctly, with its own public key in
// the transaction) by Rich[0], who is not a signer of the message.
func (g *Gen) StrangerSend() Case {
	g.entropy++
	fee := sdk.Coins{sdk.Coin{Denom: "upokt", Amount: sdk.NewInt(g.reqFor(chain.MsgSend(g.Ro.Rich[1].Addr, g.Ro.Rich[2].Addr, 777)))}}
	return Case{Kind: "core-send/stranger/good/fee-equal", Variant: "-",
		Raw: Build(TxSpec{Msg: chain.MsgSend(g.Ro.Rich[1].Addr, g.Ro.Rich[2].Addr, 777), Fee: fee, Entropy: g.entropy, SignChain: g.ChainID, By: Single{g.Ro.Rich[0]}})}
}

// MultisigMatrix: for every funded multisig account (2, 3, 4 keys) a transfer out of it carrying each
// signature layout: all members in order; all members reversed; every strict prefix; every single
// omission; a non-member's signature at each position; an extra signature; member 0's signature
// duplicated at every position; one empty slot; no signature at all.  Only the first may change state.
func (g *Gen) MultisigMatrix() []Case {
	ro := g.Ro
	var out []Case
	for _, m := range ro.Multis {
		n := len(m.Members)
		full := func() []Slot {
			var s []Slot
			for i := 0; i < n; i++ {
				s = append(s, Slot{Member: i})
			}
			return s
		}
		type lay struct {
			name  string
			slots []Slot
		}
		lays := []lay{{"full", full()}}
		rev := full()
		for i, j := 0, n-1; i < j; i, j = i+1, j-1 {
			rev[i], rev[j] = rev[j], rev[i]
		}
		lays = append(lays, lay{"reversed", rev})
		for k := 1; k < n; k++ {
			lays = append(lays, lay{fmt.Sprintf("prefix%d", k), full()[:k]})
		}
		for j := 0; j < n; j++ {
			s := full()
			lays = append(lays, lay{fmt.Sprintf("omit%d", j), append(s[:j:j], s[j+1:]...)})
		}
		for j := 0; j < n; j++ {
			s := full()
			s[j] = Slot{Wrong: true}
			lays = append(lays, lay{fmt.Sprintf("wrongkey%d", j), s})
		}
		lays = append(lays, lay{"extra", append(full(), Slot{Member: 0})})
		dup := full()
		for j := range dup {
			dup[j] = Slot{Member: 0}
		}
		lays = append(lays, lay{"duplicated", dup})
		es := full()
		es[n-1] = Slot{Empty: true}
		lays = append(lays, lay{"emptyslot", es}, lay{"nosigs", nil})
		from := AddrOf(m.Pub())
		for _, l := range lays {
			g.entropy++
			msg := chain.MsgSend(from, ro.Rich[1].Addr, 9)
			fee := sdk.Coins{sdk.Coin{Denom: "upokt", Amount: sdk.NewInt(g.reqFor(msg))}}
			c := Case{Kind: fmt.Sprintf("core-multisig%d/%s/good/fee-equal", n, l.name), Variant: "-",
				Raw: Build(TxSpec{Msg: msg, Fee: fee, Entropy: g.entropy, SignChain: g.ChainID,
					By: MultiLayout{Members: m.Members, Slots: l.slots, Stranger: Single{ro.Rich[0]}}})}
			g.Sent = append(g.Sent, c)
			out = append(out, c)
		}
	}
	return out
}

// SignerNotInMsg: authenticated transactions whose verifying key is NOT one of Msg.GetSigners() —
// an output-address edit signed by the node's current output address (the message names operator and
// NEW output), for a funded and for an underfunded operator, and an application transfer signed by
// the current application (the message names only the new key, here a funded plain account).  The
// fee must come from the account of the key that signed.  Operator, old output, new output, old app
// and new key are distinct accounts with distinct balances.  The edits are undone by the new
// output address, which is again not a declared signer.
func (g *Gen) SignerNotInMsg() []Case {
	ro := g.Ro
	mk := func(name string, msg sdk.ProtoMsg, by chain.Key) Case {
		g.entropy++
		fee := sdk.Coins{sdk.Coin{Denom: "upokt", Amount: sdk.NewInt(g.reqFor(msg))}}
		c := Case{Kind: "core-" + name + "/alt/good/fee-equal", Variant: "-",
			Raw: Build(TxSpec{Msg: msg, Fee: fee, Entropy: g.entropy, SignChain: g.ChainID, By: Single{by}})}
		g.Sent = append(g.Sent, c)
		return c
	}
	edit := func(node chain.Key, out sdk.Address) sdk.ProtoMsg {
		return chain.MsgNodeStake(node, NCStake, []string{chain.ChainHash}, "https://edit.example:443", out, nil)
	}
	return []Case{
		mk("outputedit-by-current-output", edit(ro.NodeNC, ro.Out3.Addr), ro.Out),
		mk("outputedit-back-by-current-output", edit(ro.NodeNC, ro.Out.Addr), ro.Out3),
		mk("outputedit-lowoperator-by-current-output", edit(ro.NodeLow, ro.Out3.Addr), ro.Out2),
		mk("outputedit-lowoperator-back", edit(ro.NodeLow, ro.Out2.Addr), ro.Out3),
		mk("apptransfer-to-funded-key-by-app", &appsTypes.MsgStake{PubKey: ro.NewApp.Pub, Chains: nil, Value: sdk.ZeroInt()}, ro.App2),
	}
}

// ForeignAppStake: application MsgStake messages that are NOT transfer-shaped (amount > 0, chains
// non-empty) and name SOMEBODY ELSE's public key, signed with a good signature by (a) a key that owns
// a staked application, (b) a key that owns an unstaking application, (c) a key without application;
// the victims are (i) an existing staked application (stake raised) and (ii) a funded account that
// is not an application.  Only the key named in the message may sign such a message.
func (g *Gen) ForeignAppStake() []Case {
	ro := g.Ro
	var out []Case
	signers := []struct {
		name string
		k    chain.Key
	}{{"stakedapp", ro.App2}, {"unstakingapp", ro.AppU}, {"noapp", ro.Rich[0]}}
	victims := []struct {
		name string
		k    chain.Key
		amt  int64
	}{{"existingapp", ro.App, 12000000}, {"plainaccount", ro.NewApp, 10000000}}
	for _, v := range victims {
		for _, s := range signers {
			g.entropy++
			msg := chain.MsgAppStake(v.k, v.amt, []string{chain.ChainHash})
			fee := sdk.Coins{sdk.Coin{Denom: "upokt", Amount: sdk.NewInt(g.reqFor(msg))}}
			c := Case{Kind: fmt.Sprintf("core-foreignappstake-%s-by-%s/stranger/good/fee-equal", v.name, s.name), Variant: "-",
				Raw: Build(TxSpec{Msg: msg, Fee: fee, Entropy: g.entropy, SignChain: g.ChainID, By: Single{s.k}})}
			g.Sent = append(g.Sent, c)
			out = append(out, c)
		}
	}
	return out
}

// ParamBlocks: the ACL owner changes an auth parameter in the MIDDLE of a block — the fee
// multipliers (per type and default) up and back down, the memo limit, the signature limit — and the
// same block goes on with transactions at the old fee / the new fee / a long memo / a 3-key multisig;
// the next block repeats them.  Every tx must be judged by the parameters in the store at that
// moment (the model reads them from the dumped pre-state of each tx).  The last change of each group
// restores the genesis value, so the random stream that follows is unaffected.
func (g *Gen) ParamBlocks() [][]Case {
	ro := g.Ro
	def := g.mult
	feeParams := func(def int64, per map[string]int64) authTypes.FeeMultipliers {
		fm := authTypes.FeeMultipliers{Default: def}
		for _, k := range chain.SortedKeys(per) {
			fm.FeeMultis = append(fm.FeeMultis, authTypes.FeeMultiplier{Key: k, Multiplier: per[k]})
		}
		return fm
	}
	origPer := map[string]int64{}
	for k, v := range g.perType {
		origPer[k] = v
	}
	raisedPer := map[string]int64{"send": 7}
	for k, v := range origPer {
		if k != "send" {
			raisedPer[k] = v
		}
	}
	send := func() sdk.ProtoMsg { return chain.MsgSend(ro.Rich[0].Addr, ro.Rich[1].Addr, 41) }
	origSend, origDef := g.reqFor(send()), Fee*def
	mk := func(name string, msg sdk.ProtoMsg, by Signer, fee int64, memo string) Case {
		g.entropy++
		c := Case{Kind: "core-param-" + name + "/owner/good/fee-explicit", Variant: "-",
			Raw: Build(TxSpec{Msg: msg, Fee: sdk.Coins{sdk.Coin{Denom: "upokt", Amount: sdk.NewInt(fee)}}, Memo: memo, Entropy: g.entropy, SignChain: g.ChainID, By: by})}
		g.Sent = append(g.Sent, c)
		return c
	}
	rich0, owner := Single{ro.Rich[0]}, Single{ro.Owner}
	unjail := func() sdk.ProtoMsg { return chain.MsgNodeUnjail(ro.Node.Addr, ro.Node.Addr) }
	change := func(key string, val interface{}) sdk.ProtoMsg { return chain.MsgChangeParam(ro.Owner.Addr, key, val) }
	m3 := ro.Multis[1] // 3 keys: recSignDepth counts 4
	m3send := func() sdk.ProtoMsg { return chain.MsgSend(AddrOf(m3.Pub()), ro.Rich[1].Addr, 42) }
	return [][]Case{
		{ // raise the multipliers mid-block
			mk("before-raise-send-oldfee", send(), rich0, origSend, ""),
			mk("raise-feemultipliers", change("auth/FeeMultipliers", feeParams(def*2, raisedPer)), owner, origDef, ""),
			mk("after-raise-send-oldfee", send(), rich0, origSend, ""),
			mk("after-raise-send-newfee", send(), rich0, Fee*7, ""),
			mk("after-raise-unjail-olddefault", unjail(), Single{ro.Node}, origDef, ""),
			mk("after-raise-unjail-newdefault", unjail(), Single{ro.Node}, origDef*2, ""),
		},
		{ // the next block, still raised; then lower them again mid-block
			mk("nextblock-send-oldfee", send(), rich0, origSend, ""),
			mk("nextblock-send-newfee", send(), rich0, Fee*7, ""),
			mk("restore-feemultipliers", change("auth/FeeMultipliers", feeParams(def, origPer)), owner, origDef*2, ""),
			mk("after-restore-send-oldfee", send(), rich0, origSend, ""),
			mk("after-restore-send-justbelow", send(), rich0, origSend-1, ""),
		},
		{ // memo limit lowered mid-block
			mk("before-memo-send-memo20", send(), rich0, origSend, strings.Repeat("m", 20)),
			mk("lower-maxmemo", change("auth/MaxMemoCharacters", uint64(10)), owner, origDef, ""),
			mk("after-memo-send-memo20", send(), rich0, origSend, strings.Repeat("m", 20)),
			mk("after-memo-send-memo10", send(), rich0, origSend, strings.Repeat("m", 10)),
		},
		{
			mk("nextblock-send-memo20", send(), rich0, origSend, strings.Repeat("m", 20)),
			mk("restore-maxmemo", change("auth/MaxMemoCharacters", uint64(256)), owner, origDef, ""),
			mk("after-restore-send-memo20", send(), rich0, origSend, strings.Repeat("m", 20)),
		},
		{ // signature limit lowered mid-block: a 3-key multisig counts 4
			mk("before-siglimit-multisig3", m3send(), m3, origSend, ""),
			mk("lower-txsiglimit", change("auth/TxSigLimit", uint64(3)), owner, origDef, ""),
			mk("after-siglimit-multisig3", m3send(), m3, origSend, ""),
			mk("after-siglimit-multisig2", chain.MsgSend(AddrOf(ro.Multi.Pub()), ro.Rich[1].Addr, 43), ro.Multi, origSend, ""),
		},
		{
			mk("nextblock-multisig3", m3send(), m3, origSend, ""),
			mk("restore-txsiglimit", change("auth/TxSigLimit", uint64(7)), owner, origDef, ""),
			mk("after-restore-multisig3", m3send(), m3, origSend, ""),
		},
	}
}

// RestakeMatrix: node MsgStake messages for records that exist but are not ordinary staked nodes —
// NodeU (unstaking completed: status Unstaked, record and output address kept), NodeW (Unstaking),
// NodeJ (staked, jailed) — signed by a stranger naming itself as output, a stranger naming the
// recorded output, the recorded output address, and the operator.  Only operator and recorded
// output may act on a record on file; the two legitimate re-stakes come last.
func (g *Gen) RestakeMatrix() [][]Case {
	ro := g.Ro
	stranger := ro.Rich[2]
	var blocks [][]Case
	for _, rec := range []struct {
		name string
		k    chain.Key
	}{{"unstaked", ro.NodeU}, {"unstaking", ro.NodeW}, {"jailed", ro.NodeJ}} {
		var b []Case
		for _, c := range []struct {
			name string
			out  sdk.Address
			by   chain.Key
		}{
			{"stranger-names-itself", stranger.Addr, stranger},
			{"stranger-names-recorded-output", ro.OutU.Addr, stranger},
			{"recorded-output", ro.OutU.Addr, ro.OutU},
			{"operator", ro.OutU.Addr, rec.k},
		} {
			g.entropy++
			msg := chain.MsgNodeStake(rec.k, NCStake, []string{chain.ChainHash}, "https://restake.example:443", c.out, nil)
			fee := sdk.Coins{sdk.Coin{Denom: "upokt", Amount: sdk.NewInt(g.reqFor(msg))}}
			cs := Case{Kind: fmt.Sprintf("core-restake-%s-by-%s/alt/good/fee-equal", rec.name, c.name), Variant: "-",
				Raw: Build(TxSpec{Msg: msg, Fee: fee, Entropy: g.entropy, SignChain: g.ChainID, By: Single{c.by}})}
			g.Sent = append(g.Sent, cs)
			b = append(b, cs)
		}
		blocks = append(blocks, b)
	}
	return blocks
}
