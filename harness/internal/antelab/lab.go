// Package antelab drives the real PocketCoreApp one DeliverTx at a time for the ante-handler
// properties C14 (authorized signers), C15 (fees) and C16 (at-most-once).
//
// For every transaction it records, on one self-contained trace line:
//   - the chain rule set at that height (feature gates, auth params),
//   - the abstract pre-state the ante handler can read (accounts with balances and public keys,
//     node records with output addresses, application addresses, indexer hit),
//   - the decoded transaction (message features computed by the message's own pure methods),
//   - an oracle table "does public key K verify this tx's signature over this chain's sign bytes",
//     computed by the harness with its own reconstruction of the sign document,
//   - the real ante handler's outcome on a discarded cache (probe),
//   - the real DeliverTx result, balances after it and a digest of every persistent store.
//
// The Lean driver (lean/PocketModel/Ledger/AnteDriver.lean) replays the model's ante step on the
// pre-state and evaluates the executable specification on the implementation's own outputs.
package antelab

import (
	"crypto/sha256"
	"encoding/hex"
	"encoding/json"
	"fmt"
	"sort"
	"strings"
	"time"

	"github.com/pokt-network/pocket-core/codec"
	"github.com/pokt-network/pocket-core/crypto"
	sdk "github.com/pokt-network/pocket-core/types"
	appsTypes "github.com/pokt-network/pocket-core/x/apps/types"
	"github.com/pokt-network/pocket-core/x/auth"
	authTypes "github.com/pokt-network/pocket-core/x/auth/types"
	nodesTypes "github.com/pokt-network/pocket-core/x/nodes/types"
	abci "github.com/tendermint/tendermint/abci/types"
	"github.com/tendermint/tendermint/state/txindex"
	tmtypes "github.com/tendermint/tendermint/types"
	"verifharness/internal/chain"
)

// Lab is a node plus the bookkeeping of the block in progress.
type Lab struct {
	N        *chain.Node
	ChainID  string
	H        int64 // height of the block in progress (0 = none)
	hdr      abci.Header
	bid      tmtypes.BlockID
	batch    *txindex.Batch
	blockTxs [][]byte
	total    int64
	Time     time.Time
	Proposer sdk.Address
	Evidence []abci.Evidence // byzantine validators reported in the next BeginBlock (then cleared)
	Votes    []abci.VoteInfo // last-commit votes reported in every BeginBlock until changed
}

func New(n *chain.Node, chainID string, proposer sdk.Address) *Lab {
	return &Lab{N: n, ChainID: chainID, Time: n.Time, Proposer: proposer}
}

// Begin starts block N.Height+1 that will contain txs (the block must be known up front because
// the real block store is filled before execution, as Tendermint does).
func (l *Lab) Begin(txs [][]byte) {
	n := l.N
	h := n.Height + 1
	l.Time = l.Time.Add(time.Minute)
	ttxs := make(tmtypes.Txs, len(txs))
	for i, t := range txs {
		ttxs[i] = tmtypes.Tx(t)
	}
	l.total += int64(len(txs))
	lastCommit := tmtypes.NewCommit(n.LastBlockID, nil)
	blk := &tmtypes.Block{
		Header: tmtypes.Header{
			ChainID: l.ChainID, Height: h, Time: l.Time.UTC(), NumTxs: int64(len(txs)), TotalTxs: l.total,
			LastBlockID: n.LastBlockID, AppHash: n.AppHash, ProposerAddress: []byte(l.Proposer),
			ValidatorsHash: []byte("verif-validators-hash-0000000000"), NextValidatorsHash: []byte("verif-validators-hash-0000000000"),
			ConsensusHash: []byte("verif-consensus-hash-00000000000"),
		},
		Data:       tmtypes.Data{Txs: ttxs},
		LastCommit: lastCommit,
	}
	blk.Header.DataHash = ttxs.Hash()
	blk.Header.LastCommitHash = lastCommit.Hash()
	parts := blk.MakePartSet(65536)
	bid := tmtypes.BlockID{Hash: blk.Hash(), PartsHeader: parts.Header()}
	n.BlockStore.SaveBlock(blk, parts, tmtypes.NewCommit(bid, nil))
	l.hdr = abci.Header{ChainID: l.ChainID, Height: h, Time: l.Time.UTC(), NumTxs: int64(len(txs)), TotalTxs: l.total,
		LastBlockId: abci.BlockID{Hash: n.LastBlockID.Hash, PartsHeader: abci.PartSetHeader{Total: int32(n.LastBlockID.PartsHeader.Total), Hash: n.LastBlockID.PartsHeader.Hash}},
		AppHash: n.AppHash, ProposerAddress: []byte(l.Proposer), DataHash: blk.Header.DataHash, LastCommitHash: blk.Header.LastCommitHash,
		ValidatorsHash: blk.Header.ValidatorsHash, NextValidatorsHash: blk.Header.NextValidatorsHash, ConsensusHash: blk.Header.ConsensusHash}
	n.App.BeginBlock(abci.RequestBeginBlock{Hash: bid.Hash, Header: l.hdr, ByzantineValidators: l.Evidence, LastCommitInfo: abci.LastCommitInfo{Votes: l.Votes}})
	l.Evidence = nil
	l.H, l.bid = h, bid
	l.batch = txindex.NewBatch(int64(len(txs)))
	l.blockTxs = nil
}

// Deliver runs the real DeliverTx and records the result for the indexer feed.
func (l *Lab) Deliver(tx []byte) abci.ResponseDeliverTx {
	r := l.N.App.DeliverTx(abci.RequestDeliverTx{Tx: tx})
	_ = l.batch.Add(&tmtypes.TxResult{Height: l.H, Index: uint32(len(l.blockTxs)), Tx: tmtypes.Tx(tx), Result: r})
	l.blockTxs = append(l.blockTxs, tx)
	return r
}

// End runs EndBlock, Commit and feeds the real tx indexer with the block's results, as
// Tendermint's indexer service does after the block has been applied.
func (l *Lab) End() {
	n := l.N
	n.App.EndBlock(abci.RequestEndBlock{Height: l.H})
	c := n.App.Commit()
	if err := n.Indexer.AddBatch(l.batch); err != nil {
		panic(err)
	}
	n.Height, n.LastBlockID, n.AppHash, n.Time = l.H, l.bid, c.Data, l.Time.UTC()
	l.H = 0
}

// EmptyBlock runs a block without transactions.
func (l *Lab) EmptyBlock() { l.Begin(nil); l.End() }

// Ctx is a read context on the working state at the height of the block in progress (or the last
// committed height between blocks).
func (l *Lab) Ctx() sdk.Context {
	hdr := l.hdr
	if l.H == 0 {
		hdr = abci.Header{ChainID: l.ChainID, Height: l.N.Height, Time: l.N.Time}
	}
	return sdk.NewContext(l.N.App.Store(), hdr, false, l.N.App.Logger()).WithBlockStore(l.N.BlockStore)
}

// ---------------------------------------------------------------------------------------------
// state observation

func CoinsStr(c sdk.Coins) string {
	if len(c) == 0 {
		return "-"
	}
	ps := make([]string, len(c))
	for i, x := range c {
		ps[i] = hex.EncodeToString([]byte(x.Denom)) + ":" + x.Amount.String()
	}
	return strings.Join(ps, ",")
}

func AddrStr(a []byte) string {
	if len(a) == 0 {
		return "~"
	}
	return hex.EncodeToString(a)
}

// KeyID is the identity of a public key on trace lines.
func KeyID(pk crypto.PublicKey) string {
	if pk == nil {
		return "~"
	}
	h := sha256.Sum256(pk.RawBytes())
	return hex.EncodeToString(h[:6])
}

// Shape renders the multisig nesting of a key: "." = simple key, "(…)" = multisig.
func Shape(pk crypto.PublicKey) string {
	if m, ok := pk.(crypto.PublicKeyMultiSig); ok {
		var sb strings.Builder
		sb.WriteByte('(')
		for _, k := range m.Keys() {
			sb.WriteString(Shape(k))
		}
		sb.WriteByte(')')
		return sb.String()
	}
	return "."
}

// Verdict is the harness's own judgement "key k verifies sig over doc".  For a simple key it is the
// key's VerifyBytes.  For a multisig key it is NOT the real PublicKeyMultiSignature.VerifyBytes: the
// multi-signature is decoded and the trace carries the number of signatures and, per position, whether
// the signature is non-empty and verifies under the member key at that position; the Lean driver
// composes them (Ledger.multisigOk: count = number of keys, every position verifies).
func Verdict(k crypto.PublicKey, doc, sig []byte) string {
	safe := func(f func() bool) (v bool) {
		defer func() {
			if recover() != nil {
				v = false
			}
		}()
		return f()
	}
	m, ok := k.(crypto.PublicKeyMultiSig)
	if !ok {
		return fmt.Sprint(b01(safe(func() bool { return k.VerifyBytes(doc, sig) })))
	}
	var sigs [][]byte
	decoded := safe(func() bool { sigs = crypto.MultiSignature{}.Unmarshal(sig).Signatures(); return true })
	if !decoded {
		return "M-1:-"
	}
	keys := m.Keys()
	bits := ""
	for i := 0; i < len(sigs) && i < len(keys); i++ {
		member := Verdict(keys[i], doc, sigs[i])
		good := len(sigs[i]) > 0 && (member == "1" || memberOK(member, keys[i]))
		bits += fmt.Sprint(b01(good))
	}
	if bits == "" {
		bits = "-"
	}
	return fmt.Sprintf("M%d:%s", len(sigs), bits)
}

// memberOK composes a nested multisig member's verdict (same rule as the driver's multisigOk).
func memberOK(v string, k crypto.PublicKey) bool {
	m, ok := k.(crypto.PublicKeyMultiSig)
	if !ok || !strings.HasPrefix(v, "M") {
		return false
	}
	var n int
	var bits string
	if _, err := fmt.Sscanf(v, "M%d:%s", &n, &bits); err != nil {
		return false
	}
	return n == len(m.Keys()) && len(bits) == n && !strings.Contains(bits, "0") && bits != "-"
}

// AcctView is one account as the ante handler sees it.
type AcctView struct {
	Addr  string
	Coins string
	Pk    crypto.PublicKey
}

// Accounts lists all accounts through ctx (sorted by address).
func (l *Lab) Accounts(ctx sdk.Ctx) []AcctView {
	var out []AcctView
	for _, a := range l.N.App.VerifAccountKeeper().GetAllAccounts(ctx) {
		out = append(out, AcctView{Addr: AddrStr(a.GetAddress()), Coins: CoinsStr(a.GetCoins()), Pk: a.GetPubKey()})
	}
	sort.Slice(out, func(i, j int) bool { return out[i].Addr < out[j].Addr })
	return out
}

func acctsField(as []AcctView) string {
	if len(as) == 0 {
		return "-"
	}
	ps := make([]string, len(as))
	for i, a := range as {
		ps[i] = a.Addr + "/" + a.Coins + "/" + KeyID(a.Pk)
	}
	return strings.Join(ps, ";")
}

// ValsField lists node records: operator/output(~ when nil).
func (l *Lab) ValsField(ctx sdk.Ctx) string {
	var ps []string
	for _, v := range l.N.App.VerifNodesKeeper().GetAllValidators(ctx) {
		ps = append(ps, AddrStr(v.Address)+"/"+AddrStr(v.OutputAddress))
	}
	sort.Strings(ps)
	if len(ps) == 0 {
		return "-"
	}
	return strings.Join(ps, ";")
}

// AppsField lists application addresses (any status).
func (l *Lab) AppsField(ctx sdk.Ctx) string {
	var ps []string
	for _, a := range l.N.App.VerifAppsKeeper().GetAllApplications(ctx) {
		ps = append(ps, AddrStr(a.Address))
	}
	sort.Strings(ps)
	if len(ps) == 0 {
		return "-"
	}
	return strings.Join(ps, ";")
}

// StoreDigest hashes every key/value of every persistent substore of the working state.
func (l *Lab) StoreDigest() string {
	ctx := l.Ctx()
	h := sha256.New()
	names := make([]string, 0, len(l.N.App.Keys))
	for name := range l.N.App.Keys {
		names = append(names, name)
	}
	sort.Strings(names)
	for _, name := range names {
		st := ctx.KVStore(l.N.App.Keys[name])
		it, _ := st.Iterator(nil, nil)
		fmt.Fprintf(h, "store %s\n", name)
		for ; it.Valid(); it.Next() {
			fmt.Fprintf(h, "%x=%x\n", it.Key(), it.Value())
		}
		it.Close()
	}
	return hex.EncodeToString(h.Sum(nil)[:8])
}

// FeeCollector is the address of the fee collector module account.
func (l *Lab) FeeCollector() sdk.Address {
	return l.N.App.VerifAccountKeeper().GetModuleAddress(authTypes.FeeCollectorName)
}

// ---------------------------------------------------------------------------------------------
// rule set

func b01(b bool) int {
	if b {
		return 1
	}
	return 0
}

// RulesField renders the feature gates and auth params in force for ctx's height.
func (l *Lab) RulesField(ctx sdk.Ctx) string {
	cdc := l.N.App.VerifCodec()
	h := ctx.BlockHeight()
	p := l.N.App.VerifAccountKeeper().GetParams(ctx)
	var fm []string
	for _, m := range p.FeeMultiplier.FeeMultis {
		fm = append(fm, fmt.Sprintf("%s:%d", hex.EncodeToString([]byte(m.Key)), m.Multiplier))
	}
	fms := "-"
	if len(fm) > 0 {
		fms = strings.Join(fm, ",")
	}
	return fmt.Sprintf("h=%d chain=%s ncust=%d oedit=%d apptr=%d upg=%d redup=%d maxmemo=%d siglimit=%d feedef=%d feemul=%s fc=%s",
		h, hex.EncodeToString([]byte(ctx.ChainID())), b01(cdc.IsAfterNonCustodialUpgrade(h)), b01(cdc.IsAfterOutputAddressEditorUpgrade(h)),
		b01(cdc.IsAfterAppTransferUpgrade(h)), b01(ctx.IsAfterUpgradeHeight()),
		b01(cdc.IsAfterNamedFeatureActivationHeight(l.N.App.LastBlockHeight(), codec.TxCacheEnhancementKey)),
		p.MaxMemoCharacters, p.TxSigLimit, p.FeeMultiplier.Default, fms, AddrStr(l.FeeCollector()))
}

// ---------------------------------------------------------------------------------------------
// sign document (the harness's own reconstruction, independent of auth.StdSignBytes)

// SignDoc builds the canonical sign bytes: sorted-key JSON of chain id, entropy (amino JSON renders
// int64 as a string), fee, memo and the message's sign bytes.
func SignDoc(chainID string, entropy int64, fee sdk.Coins, msg sdk.Msg, memo string) []byte {
	q := func(s string) string { b, _ := json.Marshal(s); return string(b) }
	var fs []string
	for _, c := range fee {
		fs = append(fs, fmt.Sprintf(`{"amount":%s,"denom":%s}`, q(c.Amount.String()), q(c.Denom)))
	}
	return []byte(fmt.Sprintf(`{"chain_id":%s,"entropy":%s,"fee":[%s],"memo":%s,"msg":%s}`,
		q(chainID), q(fmt.Sprint(entropy)), strings.Join(fs, ","), q(memo), string(msg.GetSignBytes())))
}

// ---------------------------------------------------------------------------------------------
// message features (pure methods of the message itself)

func msgKind(m sdk.Msg) string {
	switch x := m.(type) {
	case *nodesTypes.MsgStake:
		return "nodestake:" + AddrStr(x.PublicKey.Address())
	case *appsTypes.MsgStake:
		vt := 0
		if x.IsValidTransfer() == nil {
			vt = 1
		}
		pa := "~"
		if x.PubKey != nil {
			pa = AddrStr(x.PubKey.Address())
		}
		return fmt.Sprintf("appstake:%s:%d", pa, vt)
	}
	return "other"
}

func errField(e sdk.Error) string {
	if e == nil {
		return "ok"
	}
	return fmt.Sprintf("%s/%d", e.Codespace(), e.Code())
}

// ---------------------------------------------------------------------------------------------
// one observed DeliverTx

// Case describes one submitted byte string for the trace.
type Case struct {
	Kind    string // statistics bucket / scenario label
	Raw     []byte
	Variant string // "-" or the re-encoding class of Raw relative to an earlier original
	Keys    []crypto.PublicKey // extra candidate keys for the oracle table (e.g. the intended signer)
}

// Observe delivers c.Raw inside the block in progress and renders the trace line.
func (l *Lab) Observe(c Case) (line string, res abci.ResponseDeliverTx, nontrivial bool) {
	return l.ObserveAt(c, false)
}

// ObserveAt is Observe; with haltProbe the transaction is not delivered: the real ante handler is
// run on a dropped cache with a context whose block height is codec.CodecChainHaltHeight (the
// height cannot be reached cheaply by a real chain: BeginBlock insists on consecutive heights), and
// the line (operation `probe`) reports the ante handler's own writes as the state change.
func (l *Lab) ObserveAt(c Case, haltProbe bool) (line string, res abci.ResponseDeliverTx, nontrivial bool) {
	n := l.N
	ctx := l.Ctx()
	op := "tx"
	if haltProbe {
		hdr := ctx.BlockHeader()
		hdr.Height = codec.CodecChainHaltHeight
		ctx = ctx.WithBlockHeader(hdr).WithBlockHeight(hdr.Height)
		op = "probe"
	}
	ak := n.App.VerifAccountKeeper()
	rawHash := tmtypes.Tx(c.Raw).Hash()
	idxHit := 0
	if r, _ := n.Indexer.Get(rawHash); r != nil {
		idxHit = 1
	}
	pre := l.Accounts(ctx)
	preDigest := l.StoreDigest()
	var sb strings.Builder
	fmt.Fprintf(&sb, "%s %s raw=%s variant=%s idx=%d ", op, l.RulesField(ctx), hex.EncodeToString(rawHash[:10]), c.Variant, idxHit)
	fmt.Fprintf(&sb, "accts=%s vals=%s apps=%s ", acctsField(pre), l.ValsField(ctx), l.AppsField(ctx))

	// decode with the application's own decoder (height argument as in BaseApp.DeliverTx)
	tx, derr := auth.DefaultTxDecoder(n.App.VerifCodec())(c.Raw, n.App.LastBlockHeight())
	probe := "-"
	probeAccts := "-"
	if derr != nil {
		sb.WriteString("decode=fail ")
	} else {
		stdTx := tx.(authTypes.StdTx)
		msg := stdTx.Msg
		var signers []string
		for _, s := range msg.GetSigners() {
			signers = append(signers, AddrStr(s))
		}
		sd := SignDoc(l.ChainID, stdTx.Entropy, stdTx.Fee, msg, stdTx.Memo)
		real, _ := authTypes.StdSignBytes(l.ChainID, stdTx.Entropy, stdTx.Fee, msg, stdTx.Memo)
		content := sha256.Sum256(append(append([]byte{}, sd...), stdTx.Signature.Signature...))
		// oracle table: every key the ante handler could consult + the scenario's keys
		keys := map[string]crypto.PublicKey{}
		if stdTx.Signature.PublicKey != nil {
			keys[KeyID(stdTx.Signature.PublicKey)] = stdTx.Signature.PublicKey
		}
		for _, a := range pre {
			if a.Pk != nil {
				keys[KeyID(a.Pk)] = a.Pk
			}
		}
		for _, k := range c.Keys {
			keys[KeyID(k)] = k
		}
		var ks []string
		for _, id := range chain.SortedKeys(keys) {
			k := keys[id]
			ks = append(ks, fmt.Sprintf("%s/%s/%s/%s", id, AddrStr(k.Address()), Shape(k), Verdict(k, sd, stdTx.Signature.Signature)))
		}
		keysF := "-"
		if len(ks) > 0 {
			keysF = strings.Join(ks, ";")
		}
		fmt.Fprintf(&sb, "decode=ok type=%s signers=%s mfee=%s mk=%s basic=%s fee=%s pk=%s sigempty=%d memolen=%d sb=%d content=%s keys=%s ",
			hex.EncodeToString([]byte(msg.Type())), strings.Join(signers, ","), msg.GetFee().String(), msgKind(msg), errField(msg.ValidateBasic()),
			CoinsStr(stdTx.Fee), KeyID(stdTx.Signature.PublicKey), b01(len(stdTx.Signature.Signature) == 0), len(stdTx.Memo),
			b01(string(sd) == string(real)), hex.EncodeToString(content[:10]), keysF)
		// probe: the real ante handler on a cache that is dropped
		if msg.ValidateBasic() == nil {
			cctx, _ := ctx.WithTxBytes(c.Raw).CacheContext()
			func() {
				defer func() {
					if r := recover(); r != nil {
						probe = "panic"
						probeAccts = "-"
					}
				}()
				_, r, spk, abort := auth.NewAnteHandler(ak)(cctx, tx, c.Raw, n.Indexer, false)
				if abort {
					probe = fmt.Sprintf("abort:%s/%d", r.Codespace, r.Code)
				} else {
					probe = "pass:" + KeyID(spk)
					nontrivial = true
				}
				probeAccts = acctsField(l.Accounts(cctx))
			}()
		}
	}
	midDigest := l.StoreDigest() // the probe must not have touched the working state
	if haltProbe {
		if midDigest != preDigest {
			probe = "PROBE-LEAKED"
		}
		code := "-/0"
		if strings.HasPrefix(probe, "abort:") {
			code = probe[6:]
		} else if probe == "panic" {
			code = "sdk/1"
		} else if probe == "-" {
			code = "-/1"
		}
		if probeAccts == "-" {
			probeAccts = acctsField(pre)
		}
		fmt.Fprintf(&sb, "=> probe=%s pacc=%s code=%s changed=%d post=%s", probe, probeAccts, code, b01(probeAccts != acctsField(pre)), probeAccts)
		return sb.String(), res, nontrivial
	}
	res = l.Deliver(c.Raw)
	post := l.Accounts(l.Ctx())
	postDigest := l.StoreDigest()
	if midDigest != preDigest {
		preDigest = "PROBE-LEAKED"
	}
	fmt.Fprintf(&sb, "=> probe=%s pacc=%s code=%s/%d changed=%d post=%s", probe, probeAccts, orDash(res.Codespace), res.Code,
		b01(preDigest != postDigest), acctsField(post))
	return sb.String(), res, nontrivial
}

func orDash(s string) string {
	if s == "" {
		return "-"
	}
	return s
}
