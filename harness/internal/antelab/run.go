package antelab

import (
	"bufio"
	"encoding/json"
	"flag"
	"fmt"
	"os"
	"os/exec"
	"strings"

	"github.com/pokt-network/pocket-core/codec"
	"verifharness/internal/chain"
	"verifharness/internal/gen"
)

// Part is one chain configuration of a trace; every part runs in its own process because
// pocket-core keeps the rule set in package globals.
type Part struct {
	Name      string
	Share     int  // share of -n (percent)
	NoAppTr   bool // application-transfer feature not active: the "public key from the account" path is reachable
	FeeMulti  int64
	SendMulti int64 // per-type multiplier for "send" (and 2 for "stake_validator")
	HaltProbe bool // probe the ante handler with a context at the chain-halt height (no DeliverTx)
	HaltChain bool // run a real chain up to the chain-halt height and deliver there
}

// Run is the main function of cmd/c14, cmd/c15, cmd/c16.
func Run(profile string, parts []Part) {
	seed := flag.Uint64("seed", 1, "")
	n := flag.Int("n", 200, "number of transactions")
	out := flag.String("out", "trace.txt", "")
	part := flag.Int("part", -1, "internal: run one part")
	only := flag.String("only", "", "run only the named part (with the whole -n)")
	flag.Parse()
	if *only != "" {
		for i := range parts {
			parts[i].Share = 0
			if parts[i].Name == *only {
				parts[i].Share = 100
			}
		}
	}
	if *part >= 0 {
		runPart(profile, parts[*part], *seed+uint64(*part)*7919, *n, *out)
		return
	}
	// parent: one child per part, then merge traces and statistics
	merged, err := os.Create(*out)
	if err != nil {
		panic(err)
	}
	w := bufio.NewWriter(merged)
	stats := map[string]interface{}{}
	kinds := map[string]float64{}
	var samples []interface{}
	lines, nontriv := 0.0, 0.0
	for i, p := range parts {
		cnt := *n * p.Share / 100
		if cnt == 0 {
			continue
		}
		po := fmt.Sprintf("%s.part%d", *out, i)
		cmd := exec.Command(os.Args[0], "-seed", fmt.Sprint(*seed), "-n", fmt.Sprint(cnt), "-out", po, "-part", fmt.Sprint(i), "-only", *only)
		cmd.Stderr = os.Stderr
		cmd.Stdout = os.Stderr
		if err := cmd.Run(); err != nil {
			fmt.Fprintf(os.Stderr, "part %s failed: %v\n", p.Name, err)
			os.Exit(1)
		}
		b, err := os.ReadFile(po)
		if err != nil {
			panic(err)
		}
		fmt.Fprintf(w, "reset part=%s => -\n", p.Name)
		w.Write(b)
		var st map[string]interface{}
		if sb, err := os.ReadFile(po + ".stats.json"); err == nil && json.Unmarshal(sb, &st) == nil {
			for k, v := range st["kinds"].(map[string]interface{}) {
				kinds[p.Name+":"+k] += v.(float64)
			}
			lines += st["lines"].(float64)
			nontriv += st["distinct_nontrivial"].(float64)
			if ss, ok := st["samples"].([]interface{}); ok && len(samples) < 8 {
				samples = append(samples, ss[:min(2, len(ss))]...)
			}
			for k, v := range st {
				if strings.HasPrefix(k, "x_") {
					stats[p.Name+":"+k] = v
				}
			}
		}
		os.Remove(po)
		os.Remove(po + ".stats.json")
	}
	w.Flush()
	merged.Close()
	stats["lines"], stats["distinct_nontrivial"], stats["kinds"], stats["samples"] = lines+float64(len(parts)), nontriv, kinds, samples
	b, _ := json.MarshalIndent(stats, "", " ")
	os.WriteFile(*out+".stats.json", b, 0o644)
}

func runPart(profile string, p Part, seed uint64, n int, out string) {
	t := gen.NewTrace(out)
	r := gen.New(seed)
	opts := Options{ChainID: "verif-" + p.Name, FeeMulti: p.FeeMulti, SendMulti: p.SendMulti}
	if p.NoAppTr {
		f := chain.AllFeatures(2)
		f[codec.AppTransferKey] = 1000000
		opts.Features = f
	}
	l, ro := NewChain(opts)
	mult := p.FeeMulti
	g := NewGen(r, l, ro, Profiles[profile], mult)
	if p.SendMulti != 0 {
		g.perType = map[string]int64{"send": p.SendMulti, "stake_validator": 2}
	}
	codes := map[string]int{}
	emit := func(c Case, haltProbe bool) {
		line, res, nt := l.ObserveAt(c, haltProbe)
		t.Line(bucket(c.Kind), nt, "%s", line)
		codes[fmt.Sprintf("%s/%d", res.Codespace, res.Code)]++
	}
	switch {
	case p.HaltProbe:
		// transactions signed by keys unrelated to the message, probed at the halt height and at
		// the heights next to it
		l.Begin(nil)
		emit(g.StrangerSend(), true)
		for i := 1; i < n; i++ {
			c := g.Next()
			emit(c, true)
		}
		l.End()
	case p.HaltChain:
		for l.N.Height < codec.CodecChainHaltHeight-2 {
			l.EmptyBlock()
		}
		for b := 0; b < 3; b++ { // heights halt-1, halt, halt+1
			cs := []Case{g.StrangerSend()} // the excluded point itself, at every one of the three heights
			for i := 0; i < n/3; i++ {
				cs = append(cs, g.Next())
			}
			var txs [][]byte
			for _, c := range cs {
				txs = append(txs, c.Raw)
			}
			l.Begin(txs)
			for _, c := range cs {
				emit(c, false)
			}
			l.End()
			t.Line("endblock", false, "endblock h=%d => -", l.N.Height)
		}
	default:
		done := 0
		for _, cs := range g.Core() {
			var txs [][]byte
			for _, c := range cs {
				txs = append(txs, c.Raw)
			}
			l.Begin(txs)
			for _, c := range cs {
				emit(c, false)
			}
			l.End()
			t.Line("endblock", false, "endblock h=%d => -", l.N.Height)
			done += len(cs)
		}
		for done < n {
			k := 1 + r.Intn(4)
			var cs []Case
			for i := 0; i < k && done+i < n; i++ {
				cs = append(cs, g.Next())
			}
			var txs [][]byte
			for _, c := range cs {
				txs = append(txs, c.Raw)
			}
			l.Begin(txs)
			for _, c := range cs {
				emit(c, false)
			}
			l.End()
			t.Line("endblock", false, "endblock h=%d => -", l.N.Height)
			done += len(cs)
		}
	}
	t.Close(map[string]interface{}{"x_codes": codes})
}

// bucket reduces a scenario label to a statistics bucket (message / relation / signature).
func bucket(kind string) string {
	ps := strings.Split(kind, "/")
	if len(ps) > 3 {
		ps = ps[:3]
	}
	return strings.Join(ps, "/")
}
