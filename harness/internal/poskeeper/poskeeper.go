// Package poskeeper builds a minimal real x/nodes keeper (plus the real auth keeper) on a MemDB
// multistore, the way /repo/x/nodes/keeper/common_test.go does.  Used by cmd/c26 and cmd/c27.
package poskeeper

import (
	"github.com/pokt-network/pocket-core/codec"
	types2 "github.com/pokt-network/pocket-core/codec/types"
	"github.com/pokt-network/pocket-core/crypto"
	"github.com/pokt-network/pocket-core/store"
	sdk "github.com/pokt-network/pocket-core/types"
	"github.com/pokt-network/pocket-core/types/module"
	"github.com/pokt-network/pocket-core/x/auth"
	"github.com/pokt-network/pocket-core/x/gov"
	govTypes "github.com/pokt-network/pocket-core/x/gov/types"
	"github.com/pokt-network/pocket-core/x/nodes/keeper"
	"github.com/pokt-network/pocket-core/x/nodes/types"
	abci "github.com/tendermint/tendermint/abci/types"
	"github.com/tendermint/tendermint/libs/log"
	tmtypes "github.com/tendermint/tendermint/types"
	dbm "github.com/tendermint/tm-db"
)

type mockPocketKeeper struct{}

func (m mockPocketKeeper) ClearSessionCache() {}

// Env is one keeper instance with its root context.
type Env struct {
	Ctx sdk.Context
	K   keeper.Keeper
	AK  auth.Keeper
}

func makeCodec() *codec.Codec {
	cdc := codec.NewCodec(types2.NewInterfaceRegistry())
	auth.RegisterCodec(cdc)
	gov.RegisterCodec(cdc)
	sdk.RegisterCodec(cdc)
	crypto.RegisterAmino(cdc.AminoCodec().Amino)
	return cdc
}

// New mounts account, pos and params stores on a fresh MemDB, runs the auth module's default genesis
// and stores the default x/nodes params.
func New() *Env {
	keyAcc := sdk.NewKVStoreKey(auth.StoreKey)
	keyParams := sdk.ParamsKey
	tkeyParams := sdk.ParamsTKey
	keyPOS := sdk.NewKVStoreKey(types.ModuleName)
	db := dbm.NewMemDB()
	ms := store.NewCommitMultiStore(db, false, 5000000)
	ms.MountStoreWithDB(keyAcc, sdk.StoreTypeIAVL, db)
	ms.MountStoreWithDB(keyPOS, sdk.StoreTypeIAVL, db)
	ms.MountStoreWithDB(keyParams, sdk.StoreTypeIAVL, db)
	ms.MountStoreWithDB(tkeyParams, sdk.StoreTypeTransient, db)
	if err := ms.LoadLatestVersion(); err != nil {
		panic(err)
	}
	ctx := sdk.NewContext(ms, abci.Header{ChainID: "test-chain"}, false, log.NewNopLogger()).WithAppVersion("0.0.0")
	ctx = ctx.WithConsensusParams(&abci.ConsensusParams{
		Validator: &abci.ValidatorParams{PubKeyTypes: []string{tmtypes.ABCIPubKeyTypeEd25519}},
	})
	cdc := makeCodec()
	maccPerms := map[string][]string{
		auth.FeeCollectorName:   nil,
		types.StakedPoolName:    {auth.Burner, auth.Staking, auth.Minter},
		types.ModuleName:        {auth.Burner, auth.Staking, auth.Minter},
		govTypes.DAOAccountName: {auth.Burner, auth.Staking},
	}
	accSubspace := sdk.NewSubspace(auth.DefaultParamspace)
	posSubspace := sdk.NewSubspace(keeper.DefaultParamspace)
	ak := auth.NewKeeper(cdc, keyAcc, accSubspace, maccPerms)
	basics := module.NewBasicManager(auth.AppModuleBasic{}, gov.AppModuleBasic{})
	mm := module.NewManager(auth.NewAppModule(ak))
	mm.InitGenesis(ctx, basics.DefaultGenesis())
	k := keeper.NewKeeper(cdc, keyPOS, ak, posSubspace, "pos")
	k.PocketKeeper = mockPocketKeeper{}
	k.SetParams(ctx, types.DefaultParams())
	return &Env{Ctx: ctx, K: k, AK: ak}
}

// Balance of the staking denomination held by addr.
func (e *Env) Balance(ctx sdk.Ctx, addr sdk.Address) sdk.BigInt {
	acc := e.AK.GetAccount(ctx, addr)
	if acc == nil {
		return sdk.ZeroInt()
	}
	return acc.GetCoins().AmountOf(sdk.DefaultStakeDenom)
}

// Supply of the staking denomination.
func (e *Env) Supply(ctx sdk.Ctx) sdk.BigInt {
	return e.AK.GetSupply(ctx).GetTotal().AmountOf(sdk.DefaultStakeDenom)
}

// Validator builds a staked validator record with the given key seed byte pattern.
func Validator(pub crypto.Ed25519PublicKey, tokens sdk.BigInt, output sdk.Address, delegators map[string]uint32) types.Validator {
	return types.Validator{
		Address:          sdk.Address(pub.Address()),
		StakedTokens:     tokens,
		PublicKey:        pub,
		Jailed:           false,
		Status:           sdk.Staked,
		ServiceURL:       "https://www.google.com:443",
		Chains:           []string{"0001", "0002", "FFFF"},
		OutputAddress:    output,
		RewardDelegators: delegators,
	}
}
