// Package bankdrv: helpers shared by the ledger-level harness commands c17, c18, c36, c37chain —
// a phase-wise block runner (BeginBlock / DeliverTx / EndBlock / Commit as separate calls, with the
// auth store readable in between) and the canonical dump of the bank state (accounts + supply).
//
// In deliver mode pocket-core's BaseApp executes on the commit multistore itself
// (setDeliverState builds the context on app.cms), so chain.Node.Ctx() reads the state as it is
// between two DeliverTx calls.
package bankdrv

import (
	"fmt"
	"sort"
	"strings"

	sdk "github.com/pokt-network/pocket-core/types"
	authexp "github.com/pokt-network/pocket-core/x/auth/exported"
	abci "github.com/tendermint/tendermint/abci/types"
	"github.com/tendermint/tendermint/state/txindex"
	tmtypes "github.com/tendermint/tendermint/types"
	"verifharness/internal/chain"
)

// Stepper runs blocks on a node one ABCI call at a time.
type Stepper struct {
	N        *chain.Node
	totalTxs int64
	h        int64
	bid      tmtypes.BlockID
	blk      chain.Block
	batch    *txindex.Batch
	idx      int
	// TolerateIndexErr: record a failing TransactionIndexer.AddBatch in IndexErr instead of panicking
	// (Tendermint's indexer service only logs such an error).
	TolerateIndexErr bool
	IndexErr         error
}

func NewStepper(n *chain.Node) *Stepper { return &Stepper{N: n} }

// Begin saves the synthetic block in the block store (as Tendermint does before ApplyBlock) and
// runs BeginBlock.
func (s *Stepper) Begin(b chain.Block) abci.ResponseBeginBlock {
	n := s.N
	h := n.Height + 1
	txs := make(tmtypes.Txs, len(b.Txs))
	for i, t := range b.Txs {
		txs[i] = tmtypes.Tx(t)
	}
	s.totalTxs += int64(len(txs))
	lastCommit := tmtypes.NewCommit(n.LastBlockID, nil)
	blk := &tmtypes.Block{
		Header: tmtypes.Header{
			ChainID: n.ChainID, Height: h, Time: b.Time.UTC(), NumTxs: int64(len(txs)), TotalTxs: s.totalTxs,
			LastBlockID: n.LastBlockID, AppHash: n.AppHash, ProposerAddress: []byte(b.Proposer),
			ValidatorsHash: []byte("verif-validators-hash-0000000000"), NextValidatorsHash: []byte("verif-validators-hash-0000000000"),
			ConsensusHash: []byte("verif-consensus-hash-00000000000"),
		},
		Data:       tmtypes.Data{Txs: txs},
		LastCommit: lastCommit,
	}
	blk.Header.DataHash = txs.Hash()
	blk.Header.LastCommitHash = lastCommit.Hash()
	parts := blk.MakePartSet(65536)
	bid := tmtypes.BlockID{Hash: blk.Hash(), PartsHeader: parts.Header()}
	n.BlockStore.SaveBlock(blk, parts, tmtypes.NewCommit(bid, nil))
	hdr := abci.Header{ChainID: n.ChainID, Height: h, Time: b.Time.UTC(), NumTxs: int64(len(txs)), TotalTxs: s.totalTxs,
		LastBlockId: abci.BlockID{Hash: n.LastBlockID.Hash, PartsHeader: abci.PartSetHeader{Total: int32(n.LastBlockID.PartsHeader.Total), Hash: n.LastBlockID.PartsHeader.Hash}},
		AppHash: n.AppHash, ProposerAddress: []byte(b.Proposer), DataHash: blk.Header.DataHash, LastCommitHash: blk.Header.LastCommitHash,
		ValidatorsHash: blk.Header.ValidatorsHash, NextValidatorsHash: blk.Header.NextValidatorsHash, ConsensusHash: blk.Header.ConsensusHash}
	s.h, s.bid, s.blk, s.idx = h, bid, b, 0
	s.batch = txindex.NewBatch(int64(len(b.Txs)))
	return n.App.BeginBlock(abci.RequestBeginBlock{Hash: bid.Hash, Header: hdr, LastCommitInfo: abci.LastCommitInfo{Votes: b.Votes}, ByzantineValidators: b.Evidence})
}

// Deliver runs DeliverTx for the next transaction of the block given to Begin.
func (s *Stepper) Deliver() abci.ResponseDeliverTx {
	t := s.blk.Txs[s.idx]
	r := s.N.App.DeliverTx(abci.RequestDeliverTx{Tx: t})
	_ = s.batch.Add(&tmtypes.TxResult{Height: s.h, Index: uint32(s.idx), Tx: tmtypes.Tx(t), Result: r})
	s.idx++
	return r
}

func (s *Stepper) End() abci.ResponseEndBlock {
	return s.N.App.EndBlock(abci.RequestEndBlock{Height: s.h})
}

// Commit commits, feeds the tx indexer and advances the node's bookkeeping.
func (s *Stepper) Commit() []byte {
	n := s.N
	c := n.App.Commit()
	if err := n.Indexer.AddBatch(s.batch); err != nil {
		if !s.TolerateIndexErr {
			panic(fmt.Sprintf("tx indexer AddBatch at height %d: %v", s.h, err))
		}
		s.IndexErr = err
	}
	n.Height, n.LastBlockID, n.AppHash, n.Time = s.h, s.bid, c.Data, s.blk.Time.UTC()
	return c.Data
}

// MidCtx is a read/write context on the state as it is inside the current block (header of the
// block being executed).  Outside a block it equals Node.Ctx().
func (s *Stepper) MidCtx() sdk.Context {
	n := s.N
	h, t := n.Height, n.Time
	if s.h > n.Height {
		h, t = s.h, s.blk.Time.UTC()
	}
	return sdk.NewContext(n.App.Store(), abci.Header{ChainID: n.ChainID, Height: h, Time: t}, false, n.App.Logger()).WithBlockStore(n.BlockStore)
}

// Acct is one auth-store entry reduced to what the ledger model sees.
type Acct struct {
	Addr   string // hex
	Upokt  string
	Module string // "-" for a BaseAccount
	Other  string // other denominations, "" normally
}

// Bank is the bank part of the abstract state.
type Bank struct {
	Supply      string
	SupplyOther string
	Accts       []Acct
}

// DumpBank reads all accounts (auth store iterator) and the supply through the real keeper.
func DumpBank(n *chain.Node, ctx sdk.Ctx) Bank {
	ak := n.App.VerifAccountKeeper()
	var b Bank
	for _, a := range ak.GetAllAccounts(ctx) {
		ac := Acct{Addr: a.GetAddress().String(), Upokt: a.GetCoins().AmountOf(sdk.DefaultStakeDenom).String(), Module: "-"}
		if len(a.GetAddress()) == 0 {
			ac.Addr = "-"
		}
		if m, ok := a.(authexp.ModuleAccountI); ok {
			ac.Module = m.GetName()
		}
		for _, c := range a.GetCoins() {
			if c.Denom != sdk.DefaultStakeDenom {
				ac.Other += "+" + c.Denom + "=" + c.Amount.String()
			}
		}
		b.Accts = append(b.Accts, ac)
	}
	sort.Slice(b.Accts, func(i, j int) bool { return b.Accts[i].Addr < b.Accts[j].Addr })
	// the recorded supply, read the way a query of this state reads it (a context flagged as
	// "previous state" bypasses every node-local cache of the keepers)
	var sctx sdk.Ctx = ctx
	if c, ok := ctx.(sdk.Context); ok {
		sctx = c.SetPrevCtx(true)
	}
	sup := ak.GetSupply(sctx)
	if sup == nil {
		b.Supply = "nil"
		return b
	}
	b.Supply = sup.GetTotal().AmountOf(sdk.DefaultStakeDenom).String()
	for _, c := range sup.GetTotal() {
		if c.Denom != sdk.DefaultStakeDenom {
			b.SupplyOther += "+" + c.Denom + "=" + c.Amount.String()
		}
	}
	return b
}

// String renders `S=<supply> A=<addr>:<upokt>:<module>;...` (accounts sorted by address).
func (b Bank) String() string {
	ps := make([]string, len(b.Accts))
	for i, a := range b.Accts {
		ps[i] = a.Addr + ":" + a.Upokt + ":" + a.Module + a.Other
	}
	as := strings.Join(ps, ";")
	if as == "" {
		as = "-"
	}
	return fmt.Sprintf("S=%s%s A=%s", b.Supply, b.SupplyOther, as)
}

// Bal returns the upokt balance string of addr (hex), "0" when absent.
func (b Bank) Bal(addr string) string {
	for _, a := range b.Accts {
		if a.Addr == addr {
			return a.Upokt
		}
	}
	return "0"
}

// ErrClass maps an sdk.Error to the model's error classes.
func ErrClass(e sdk.Error) string {
	if e == nil {
		return "ok"
	}
	switch e.Code() {
	case sdk.CodeInvalidCoins:
		return "invalidCoins"
	case sdk.CodeInsufficientCoins:
		return "insufficient"
	case sdk.CodeUnknownAddress:
		return "unknownAddress"
	case sdk.CodeModuleAccountCreate:
		return "moduleCreate"
	case sdk.CodeForbidden:
		return "forbidden"
	case sdk.CodeInternal:
		return "internal"
	}
	return fmt.Sprintf("code%d", e.Code())
}

// Coins turns the model's amount convention into the sdk.Coins value handed to the keeper:
// >0 one upokt coin, 0 the empty set, <0 a raw (invalid) non-positive coin.
func Coins(amt int64) sdk.Coins {
	switch {
	case amt > 0:
		return sdk.NewCoins(sdk.NewCoin(sdk.DefaultStakeDenom, sdk.NewInt(amt)))
	case amt == 0:
		return sdk.NewCoins()
	default:
		return sdk.Coins{sdk.Coin{Denom: sdk.DefaultStakeDenom, Amount: sdk.NewInt(amt)}}
	}
}
