package chain

import (
	"encoding/json"
	"fmt"
	"time"

	"github.com/pokt-network/pocket-core/app"
	sdk "github.com/pokt-network/pocket-core/types"
	appsTypes "github.com/pokt-network/pocket-core/x/apps/types"
	govTypes "github.com/pokt-network/pocket-core/x/gov/types"
	nodesTypes "github.com/pokt-network/pocket-core/x/nodes/types"
	abci "github.com/tendermint/tendermint/abci/types"
	"verifharness/internal/gen"
)

// Message constructors (typed, so that a harness can build any transaction deterministically).

func MsgSend(from, to sdk.Address, amt int64) sdk.ProtoMsg {
	return &nodesTypes.MsgSend{FromAddress: from, ToAddress: to, Amount: sdk.NewInt(amt)}
}
func MsgNodeStake(k Key, amt int64, chains []string, url string, output sdk.Address, del map[string]uint32) sdk.ProtoMsg {
	return &nodesTypes.MsgStake{PublicKey: k.Pub, Chains: chains, Value: sdk.NewInt(amt), ServiceUrl: url, Output: output, RewardDelegators: del}
}
func MsgNodeUnstake(addr, signer sdk.Address) sdk.ProtoMsg {
	return &nodesTypes.MsgBeginUnstake{Address: addr, Signer: signer}
}
func MsgNodeUnjail(addr, signer sdk.Address) sdk.ProtoMsg {
	return &nodesTypes.MsgUnjail{ValidatorAddr: addr, Signer: signer}
}
func MsgAppStake(k Key, amt int64, chains []string) sdk.ProtoMsg {
	return &appsTypes.MsgStake{PubKey: k.Pub, Chains: chains, Value: sdk.NewInt(amt)}
}
func MsgAppUnstake(addr sdk.Address) sdk.ProtoMsg { return &appsTypes.MsgBeginUnstake{Address: addr} }
func MsgChangeParam(from sdk.Address, key string, val interface{}) sdk.ProtoMsg {
	bz, err := app.Codec().MarshalJSON(val)
	if err != nil {
		panic(err)
	}
	return &govTypes.MsgChangeParam{FromAddress: from, ParamKey: key, ParamVal: bz}
}
func MsgDAO(from, to sdk.Address, amt int64, burn bool) sdk.ProtoMsg {
	act := govTypes.DAOTransferString
	if burn {
		act = govTypes.DAOBurnString
	}
	return &govTypes.MsgDAOTransfer{FromAddress: from, ToAddress: to, Amount: sdk.NewInt(amt), Action: act}
}
func MsgUpgrade(from sdk.Address, u govTypes.Upgrade) sdk.ProtoMsg {
	return &govTypes.MsgUpgrade{Address: from, Upgrade: u}
}

// Fees required per message type in this version (x/*/types/fee.go); the default is ample.
const DefaultFee = 100000

// TxDesc is a generated transaction with a human-readable description for traces.
type TxDesc struct {
	Bytes []byte
	Desc  string
	Kind  string
}

// World is the generator's view of who is what; it is only a heuristic for producing mostly-valid
// transactions — the oracle is always the implementation/model, never this view.
type World struct {
	ChainID  string
	Vals     []Key // genesis validators
	Servs    []Key // genesis servicers
	Apps     []Key
	Accts    []Key
	Owner    Key
	Fresh    []Key // unfunded/unstaked keys usable for new stakes
	MinStake int64
	entropy  int64
}

func (w *World) nextEntropy() int64 { w.entropy++; return w.entropy }

func (w *World) anyKey(r *gen.R) Key {
	all := append(append(append(append([]Key{}, w.Vals...), w.Servs...), w.Apps...), w.Accts...)
	return all[r.Intn(len(all))]
}

// GenTx draws one transaction: ~80% well-formed and plausible, ~20% malformed (bad signature,
// wrong chain id, stranger signer, low fee, huge amount).
func (w *World) GenTx(r *gen.R) TxDesc {
	mal := r.Chance(1, 5)
	chainID := w.ChainID
	fee := int64(DefaultFee)
	sign := func(k Key, m sdk.ProtoMsg, kind, desc string) TxDesc {
		malKind := ""
		if mal {
			switch r.Intn(4) {
			case 0:
				chainID = "other-chain"
				malKind = "+wrongchain"
			case 1:
				k = w.Accts[r.Intn(len(w.Accts))]
				malKind = "+strangersig"
			case 2:
				fee = 1
				malKind = "+lowfee"
			default:
				malKind = "+flipsig"
			}
		}
		bz := SignTx(chainID, k, m, fee, w.nextEntropy(), "")
		if malKind == "+flipsig" {
			bz[len(bz)/2] ^= 0x01
		}
		return TxDesc{Bytes: bz, Kind: kind + malKind, Desc: desc}
	}
	switch r.Intn(14) {
	case 0, 1, 2, 3:
		from, to := w.anyKey(r), w.anyKey(r)
		amt := []int64{1, 1000, 12345, 999999999999, 1000000000000, 5000000000000}[r.Intn(6)]
		if r.Chance(1, 8) {
			to = w.Fresh[r.Intn(len(w.Fresh))]
		}
		return sign(from, MsgSend(from.Addr, to.Addr, amt), "send", fmt.Sprintf("send %s->%s %d", from.Addr, to.Addr, amt))
	case 4: // new node stake from a funded account key
		k := w.Accts[r.Intn(len(w.Accts))]
		amt := w.MinStake + int64(r.Intn(3))*1000000 - int64(r.Intn(2))*2000000
		return sign(k, MsgNodeStake(k, amt, []string{ChainHash}, "https://x.com:443", k.Addr, nil), "nodestake", fmt.Sprintf("nodestake %s %d", k.Addr, amt))
	case 5: // edit stake of an existing node (up / same / down)
		ks := append(append([]Key{}, w.Vals...), w.Servs...)
		k := ks[r.Intn(len(ks))]
		amt := w.MinStake + int64(r.Intn(5))*1500000
		var del map[string]uint32
		if r.Chance(1, 3) {
			// one entry only: MsgProtoStake marshals the map in Go map order, so a 2-entry map would
			// make the tx bytes differ between processes that regenerate the same history
			del = map[string]uint32{w.Fresh[0].Addr.String(): uint32(1 + r.Intn(40))}
		}
		return sign(k, MsgNodeStake(k, amt, []string{ChainHash}, "https://y.com:443", k.Addr, del), "nodeedit", fmt.Sprintf("nodeedit %s %d", k.Addr, amt))
	case 6:
		ks := append(append([]Key{}, w.Vals...), w.Servs...)
		k := ks[r.Intn(len(ks))]
		return sign(k, MsgNodeUnstake(k.Addr, k.Addr), "nodeunstake", "nodeunstake "+k.Addr.String())
	case 7:
		ks := append(append([]Key{}, w.Vals...), w.Servs...)
		k := ks[r.Intn(len(ks))]
		return sign(k, MsgNodeUnjail(k.Addr, k.Addr), "nodeunjail", "nodeunjail "+k.Addr.String())
	case 8:
		k := w.Accts[r.Intn(len(w.Accts))]
		if r.Bool() && len(w.Apps) > 0 {
			k = w.Apps[r.Intn(len(w.Apps))]
		}
		amt := int64(10000000 + r.Intn(3)*1000000)
		return sign(k, MsgAppStake(k, amt, []string{ChainHash}), "appstake", fmt.Sprintf("appstake %s %d", k.Addr, amt))
	case 9:
		if len(w.Apps) == 0 {
			return w.GenTx(r)
		}
		k := w.Apps[r.Intn(len(w.Apps))]
		return sign(k, MsgAppUnstake(k.Addr), "appunstake", "appunstake "+k.Addr.String())
	case 10:
		to := w.anyKey(r)
		amt := []int64{1, 1000000, 49999999999, 50000000001}[r.Intn(4)]
		burn := r.Chance(1, 3)
		return sign(w.Owner, MsgDAO(w.Owner.Addr, to.Addr, amt, burn), "dao", fmt.Sprintf("dao burn=%v %d", burn, amt))
	case 11:
		key, val := "pos/MaxValidators", interface{}(int64(1 + r.Intn(6)))
		switch r.Intn(4) {
		case 1:
			key, val = "pos/StakeMinimum", int64(w.MinStake+int64(r.Intn(3))*1000000)
		case 2:
			key, val = "pos/UnstakingTime", time.Duration(int64(1+r.Intn(5))*int64(time.Minute))
		case 3:
			key, val = "application/MaxApplications", int64(1+r.Intn(5))
		}
		b, _ := json.Marshal(val)
		return sign(w.Owner, MsgChangeParam(w.Owner.Addr, key, val), "param", fmt.Sprintf("param %s=%s", key, b))
	case 12: // fresh key tries something without funds
		k := w.Fresh[r.Intn(len(w.Fresh))]
		return sign(k, MsgSend(k.Addr, w.Accts[0].Addr, 5), "send-unfunded", "send-unfunded "+k.Addr.String())
	default: // non-owner tries a gov action
		k := w.Accts[r.Intn(len(w.Accts))]
		return sign(k, MsgChangeParam(k.Addr, "pos/MaxValidators", int64(1)), "param-nonowner", "param-nonowner "+k.Addr.String())
	}
}

// GenBlock draws a block: time step, proposer, votes (some missed), rare double-sign evidence.
func (w *World) GenBlock(r *gen.R, prev time.Time, height int64, maxTxs int) (Block, []TxDesc) {
	step := []time.Duration{time.Second, time.Minute, 15 * time.Minute, time.Hour, 26 * time.Hour}[r.Intn(5)]
	b := Block{Time: prev.Add(step), Proposer: w.Vals[r.Intn(len(w.Vals))].Addr}
	for _, v := range w.Vals {
		b.Votes = append(b.Votes, abci.VoteInfo{Validator: abci.Validator{Address: v.Addr, Power: 15000}, SignedLastBlock: !r.Chance(1, 6)})
	}
	if r.Chance(1, 25) && height > 2 {
		v := w.Vals[r.Intn(len(w.Vals))]
		b.Evidence = append(b.Evidence, abci.Evidence{Type: "duplicate/vote", Validator: abci.Validator{Address: v.Addr, Power: 15000}, Height: height - 1, Time: prev, TotalVotingPower: 30000})
	}
	var ds []TxDesc
	n := r.Intn(maxTxs + 1)
	if height < FirstModernHeight {
		n = 0 // block 1 runs under pre-feature rules (see ModernGlobals)
	}
	for i := 0; i < n; i++ {
		d := w.GenTx(r)
		if r.Chance(1, 15) && len(ds) > 0 { // resubmit an earlier tx of this block (duplicate)
			d = ds[r.Intn(len(ds))]
			d.Kind += "+dup"
		}
		ds = append(ds, d)
		b.Txs = append(b.Txs, d.Bytes)
	}
	return b, ds
}

// DefaultWorld builds keys and genesis for a small modern chain.
func DefaultWorld(chainID string, nVals, nServs, nApps, nAccts int) (*World, GenesisOpts) {
	w := &World{ChainID: chainID, MinStake: 15000000000}
	id := uint64(1)
	mk := func(n int) []Key {
		var ks []Key
		for i := 0; i < n; i++ {
			ks = append(ks, KeyN(id))
			id++
		}
		return ks
	}
	w.Vals, w.Servs, w.Apps, w.Accts = mk(nVals), mk(nServs), mk(nApps), mk(nAccts)
	w.Owner = KeyN(1000)
	for i := 0; i < 4; i++ {
		w.Fresh = append(w.Fresh, KeyN(2000+uint64(i)))
	}
	gt := time.Date(2024, 1, 1, 0, 0, 0, 0, time.UTC)
	o := GenesisOpts{ChainID: chainID, GenesisTime: gt, Validators: w.Vals, Servicers: w.Servs, Apps: w.Apps, Accounts: w.Accts, Owner: w.Owner, MinStake: w.MinStake, MaxValidators: int64(nVals)}
	return w, o
}
