package chain

import (
	"encoding/json"
	"fmt"
	"sort"
	"strings"

	sdk "github.com/pokt-network/pocket-core/types"
	authexp "github.com/pokt-network/pocket-core/x/auth/exported"
)

// Acct is one account of the abstract state.
type Acct struct {
	Addr   string
	Coins  string // canonical: denom:amount,... ("-" when empty)
	Upokt  string
	Module string // module account name or ""
	HasPub bool
}

// Val is one node record.
type Val struct {
	Addr, Status   string
	Jailed         bool
	Tokens         string
	UnstakingTime  int64 // unix nanos, 0 when zero time
	Output         string
	Chains         []string
	Delegators     map[string]uint32
	ServiceURL     string
}

// App is one application record.
type App struct {
	Addr, Status  string
	Jailed        bool
	Tokens        string
	MaxRelays     string
	UnstakingTime int64
	Chains        []string
}

// KV is a raw store entry.
type KV struct{ K, V []byte }

// State is the abstract state dumped after a block.
type State struct {
	Height   int64
	Accounts []Acct
	Supply   string
	Vals     []Val
	Apps     []App
	Claims   []string // canonical JSON per claim
	Params   map[string]string
	DAO      string
	Raw      map[string][]KV // "<store>/<prefixhex>" -> entries
}

func coinsStr(c sdk.Coins) string {
	if len(c) == 0 {
		return "-"
	}
	ps := make([]string, len(c))
	for i, x := range c {
		ps[i] = x.Denom + ":" + x.Amount.String()
	}
	return strings.Join(ps, ",")
}

func unixNanoOrZero(t interface{ IsZero() bool; UnixNano() int64 }) int64 {
	if t.IsZero() {
		return 0
	}
	return t.UnixNano()
}

// RawPrefix lists the entries of one persistent substore under a key prefix, in key order.
func (n *Node) RawPrefix(storeName string, prefix []byte) []KV {
	ctx := n.Ctx()
	st := ctx.KVStore(n.App.Keys[storeName])
	it, _ := sdk.KVStorePrefixIterator(st, prefix)
	defer it.Close()
	var out []KV
	for ; it.Valid(); it.Next() {
		out = append(out, KV{append([]byte(nil), it.Key()...), append([]byte(nil), it.Value()...)})
	}
	return out
}

// Dump reads the abstract state from the just-committed working state through the real keepers.
func (n *Node) Dump(rawPrefixes map[string][][]byte) *State {
	ctx := n.Ctx()
	s := &State{Height: n.Height, Params: map[string]string{}, Raw: map[string][]KV{}}
	ak := n.App.VerifAccountKeeper()
	for _, a := range ak.GetAllAccounts(ctx) {
		ac := Acct{Addr: a.GetAddress().String(), Coins: coinsStr(a.GetCoins()), Upokt: a.GetCoins().AmountOf(sdk.DefaultStakeDenom).String(), HasPub: a.GetPubKey() != nil}
		if m, ok := a.(authexp.ModuleAccountI); ok {
			ac.Module = m.GetName()
		}
		s.Accounts = append(s.Accounts, ac)
	}
	sort.Slice(s.Accounts, func(i, j int) bool { return s.Accounts[i].Addr < s.Accounts[j].Addr })
	s.Supply = coinsStr(ak.GetSupply(ctx).GetTotal())
	nk := n.App.VerifNodesKeeper()
	for _, v := range nk.GetAllValidators(ctx) {
		s.Vals = append(s.Vals, Val{Addr: v.Address.String(), Status: fmt.Sprint(int(v.Status)), Jailed: v.Jailed, Tokens: v.StakedTokens.String(),
			UnstakingTime: unixNanoOrZero(v.UnstakingCompletionTime), Output: v.OutputAddress.String(), Chains: v.Chains, Delegators: v.RewardDelegators, ServiceURL: v.ServiceURL})
	}
	sort.Slice(s.Vals, func(i, j int) bool { return s.Vals[i].Addr < s.Vals[j].Addr })
	apk := n.App.VerifAppsKeeper()
	for _, a := range apk.GetAllApplications(ctx) {
		s.Apps = append(s.Apps, App{Addr: a.Address.String(), Status: fmt.Sprint(int(a.Status)), Jailed: a.Jailed, Tokens: a.StakedTokens.String(),
			MaxRelays: a.MaxRelays.String(), UnstakingTime: unixNanoOrZero(a.UnstakingCompletionTime), Chains: a.Chains})
	}
	sort.Slice(s.Apps, func(i, j int) bool { return s.Apps[i].Addr < s.Apps[j].Addr })
	pk := n.App.VerifPocketKeeper()
	for _, c := range pk.GetAllClaims(ctx) {
		b, _ := json.Marshal(c)
		s.Claims = append(s.Claims, string(sdk.MustSortJSON(b)))
	}
	sort.Strings(s.Claims)
	gk := n.App.VerifGovKeeper()
	s.DAO = gk.GetDAOTokens(ctx).String()
	pj := func(name string, v interface{}) {
		b, _ := n.App.VerifCodec().MarshalJSON(v)
		s.Params[name] = string(sdk.MustSortJSON(b))
	}
	pj("auth", ak.GetParams(ctx))
	pj("pos", nk.GetParams(ctx))
	pj("application", apk.GetParams(ctx))
	pj("pocketcore", pk.GetParams(ctx))
	pj("gov", gk.GetParams(ctx))
	for st, ps := range rawPrefixes {
		for _, p := range ps {
			s.Raw[fmt.Sprintf("%s/%x", st, p)] = n.RawPrefix(st, p)
		}
	}
	return s
}

// Digest is a canonical one-line-per-item rendering used for twin comparisons.
func (s *State) Lines() []string {
	var out []string
	for _, a := range s.Accounts {
		m := a.Module
		if m == "" {
			m = "-"
		}
		out = append(out, fmt.Sprintf("acct %s %s %s", a.Addr, a.Coins, m))
	}
	out = append(out, "supply "+s.Supply, "dao "+s.DAO)
	for _, v := range s.Vals {
		ds := "-"
		if len(v.Delegators) > 0 {
			var ps []string
			for _, k := range SortedKeys(v.Delegators) {
				ps = append(ps, fmt.Sprintf("%s=%d", k, v.Delegators[k]))
			}
			ds = strings.Join(ps, ",")
		}
		out = append(out, fmt.Sprintf("val %s st=%s jailed=%v tok=%s unst=%d out=%s chains=%s del=%s", v.Addr, v.Status, v.Jailed, v.Tokens, v.UnstakingTime, orDash(v.Output), strings.Join(v.Chains, ","), ds))
	}
	for _, a := range s.Apps {
		out = append(out, fmt.Sprintf("app %s st=%s jailed=%v tok=%s max=%s unst=%d chains=%s", a.Addr, a.Status, a.Jailed, a.Tokens, a.MaxRelays, a.UnstakingTime, strings.Join(a.Chains, ",")))
	}
	for _, c := range s.Claims {
		out = append(out, "claim "+c)
	}
	for _, k := range SortedKeys(s.Params) {
		out = append(out, "params "+k+" "+s.Params[k])
	}
	for _, k := range SortedKeys(s.Raw) {
		for _, kv := range s.Raw[k] {
			out = append(out, fmt.Sprintf("raw %s %x %x", k, kv.K, kv.V))
		}
	}
	return out
}

func orDash(s string) string {
	if s == "" {
		return "-"
	}
	return s
}
