// Package chain boots the real PocketCoreApp on an in-memory DB and drives it through ABCI
// directly (InitChain, BeginBlock, DeliverTx, EndBlock, Commit, CheckTx, Query) — no Tendermint
// node, no network.  It supplies what Tendermint would: a real BlockStore filled with synthetic
// blocks (so PrevCtx / GetPrevBlockHash work), the real TransactionIndexer fed after every block,
// and a stub RPC client reporting "catching up" (the claim/proof-sending goroutine stays inert).
//
// pocket-core keeps consensus-relevant state in package globals (codec.UpgradeFeatureMap,
// codec.UpgradeHeight, sdk.GlobalCtxCache, sdk.VbCCache, session/evidence caches): run each
// history in a fresh process, or call ResetGlobals between nodes when twin runs share a process.
package chain

import (
	"crypto/ed25519"
	"crypto/sha256"
	"encoding/binary"
	"encoding/hex"
	"fmt"
	"os"
	"sort"
	"sync"
	"time"

	"github.com/pokt-network/pocket-core/app"
	bam "github.com/pokt-network/pocket-core/baseapp"
	"github.com/pokt-network/pocket-core/codec"
	"github.com/pokt-network/pocket-core/crypto"
	"github.com/pokt-network/pocket-core/store"
	sdk "github.com/pokt-network/pocket-core/types"
	"github.com/pokt-network/pocket-core/types/module"
	apps "github.com/pokt-network/pocket-core/x/apps"
	appsTypes "github.com/pokt-network/pocket-core/x/apps/types"
	"github.com/pokt-network/pocket-core/x/auth"
	authTypes "github.com/pokt-network/pocket-core/x/auth/types"
	"github.com/pokt-network/pocket-core/x/gov"
	govTypes "github.com/pokt-network/pocket-core/x/gov/types"
	"github.com/pokt-network/pocket-core/x/nodes"
	nodesTypes "github.com/pokt-network/pocket-core/x/nodes/types"
	pocket "github.com/pokt-network/pocket-core/x/pocketcore"
	pocketTypes "github.com/pokt-network/pocket-core/x/pocketcore/types"
	abci "github.com/tendermint/tendermint/abci/types"
	"github.com/tendermint/tendermint/libs/log"
	"github.com/tendermint/tendermint/rpc/client"
	ctypes "github.com/tendermint/tendermint/rpc/core/types"
	"github.com/tendermint/tendermint/state/txindex"
	tmStore "github.com/tendermint/tendermint/store"
	tmtypes "github.com/tendermint/tendermint/types"
	dbm "github.com/tendermint/tm-db"
)

const ChainHash = "0001"

// ACLKeys are the governance-controlled parameters given to the Owner key in generated genesis files.
var ACLKeys = []string{
	"application/ApplicationStakeMinimum", "application/AppUnstakingTime", "application/BaseRelaysPerPOKT",
	"application/MaxApplications", "application/MaximumChains", "application/ParticipationRateOn",
	"application/StabilityAdjustment", "auth/MaxMemoCharacters", "auth/TxSigLimit", "auth/FeeMultipliers",
	"gov/acl", "gov/daoOwner", "gov/upgrade", "pocketcore/ClaimExpiration", "pocketcore/ClaimSubmissionWindow",
	"pocketcore/MinimumNumberOfProofs", "pocketcore/ReplayAttackBurnMultiplier", "pocketcore/SessionNodeCount",
	"pocketcore/SupportedBlockchains", "pos/BlocksPerSession", "pos/DAOAllocation", "pos/DowntimeJailDuration",
	"pos/MaxEvidenceAge", "pos/MaximumChains", "pos/MaxJailedBlocks", "pos/MaxValidators", "pos/MinSignedPerWindow",
	"pos/ProposerPercentage", "pos/RelaysToTokensMultiplier", "pos/SignedBlocksWindow", "pos/SlashFractionDoubleSign",
	"pos/SlashFractionDowntime", "pos/StakeDenom", "pos/StakeMinimum", "pos/UnstakingTime",
}

// Key is a deterministic ed25519 key.
type Key struct {
	Priv crypto.PrivateKey
	Pub  crypto.PublicKey
	Addr sdk.Address
}

// KeyN derives the n-th key of a run from fixed seed material (no randomness).
func KeyN(n uint64) Key {
	var b [8]byte
	binary.BigEndian.PutUint64(b[:], n)
	seed := sha256.Sum256(append([]byte("verif-key-"), b[:]...))
	pk := ed25519.NewKeyFromSeed(seed[:])
	var raw crypto.Ed25519PrivateKey
	copy(raw[:], pk)
	return Key{Priv: raw, Pub: raw.PublicKey(), Addr: sdk.Address(raw.PublicKey().Address())}
}

// stubClient is the tendermint RPC client seen by the pocketcore keeper.
type stubClient struct{ client.Client }

func (stubClient) ConsensusReactorStatus() (*ctypes.ResultConsensusReactorStatus, error) {
	return &ctypes.ResultConsensusReactorStatus{IsCatchingUp: true}, nil
}

// GenesisOpts describes the generated genesis.
type GenesisOpts struct {
	ChainID       string
	GenesisTime   time.Time
	Validators    []Key // staked nodes with ValidatorStake and an account
	Servicers     []Key // staked nodes with MinStake
	Apps          []Key
	Accounts      []Key // plain funded accounts
	Owner         Key   // DAO owner + ACL owner of every param
	Balance       int64
	MinStake      int64
	ValidatorStake int64
	MaxValidators int64
	Features      map[string]int64 // feature key -> activation height (codec.UpgradeFeatureMap); nil = AllFeatures(2)
	UpgradeHeight int64            // stored gov upgrade height (0 => 2)
	OldUpgradeHeight int64         // stored old upgrade height (0 => 1): amino genesis at height 0, codec upgrade +
	                               // ConvertState at block 1, every feature and the validator split from block 2
	Mutate        func(g *Genesis)
}

// Genesis holds the typed module genesis states before they are marshalled.
type Genesis struct {
	Auth   auth.GenesisState
	Nodes  nodesTypes.GenesisState
	Apps   appsTypes.GenesisState
	Pocket pocketTypes.GenesisState
	Gov    govTypes.GenesisState
}

func basicManager() module.BasicManager {
	return module.NewBasicManager(apps.AppModuleBasic{}, auth.AppModuleBasic{}, gov.AppModuleBasic{}, nodes.AppModuleBasic{}, pocket.AppModuleBasic{})
}

// BuildGenesis produces the app genesis state for opts.
func BuildGenesis(o GenesisOpts) app.GenesisState {
	cdc := app.Codec()
	def := basicManager().DefaultGenesis()
	var g Genesis
	cdc.MustUnmarshalJSON(def[auth.ModuleName], &g.Auth)
	cdc.MustUnmarshalJSON(def[nodesTypes.ModuleName], &g.Nodes)
	cdc.MustUnmarshalJSON(def[appsTypes.ModuleName], &g.Apps)
	cdc.MustUnmarshalJSON(def[pocketTypes.ModuleName], &g.Pocket)
	cdc.MustUnmarshalJSON(def[govTypes.ModuleName], &g.Gov)
	if o.MinStake == 0 {
		o.MinStake = 15000000000
	}
	if o.ValidatorStake == 0 {
		o.ValidatorStake = o.MinStake + 1000000
	}
	if o.Balance == 0 {
		o.Balance = 1000000000000
	}
	g.Nodes.Params.StakeMinimum = o.MinStake
	if o.MaxValidators > 0 {
		g.Nodes.Params.MaxValidators = o.MaxValidators
	}
	coin := func(a int64) sdk.Coins { return sdk.NewCoins(sdk.NewCoin(sdk.DefaultStakeDenom, sdk.NewInt(a))) }
	seen := map[string]bool{}
	addAcc := func(k Key, amt int64) {
		if seen[k.Addr.String()] {
			return
		}
		seen[k.Addr.String()] = true
		g.Auth.Accounts = append(g.Auth.Accounts, &auth.BaseAccount{Address: k.Addr, Coins: coin(amt), PubKey: k.Pub})
	}
	for _, v := range o.Validators {
		g.Nodes.Validators = append(g.Nodes.Validators, nodesTypes.Validator{Address: v.Addr, PublicKey: v.Pub, Status: sdk.Staked,
			Chains: []string{ChainHash}, ServiceURL: sdk.PlaceholderServiceURL, StakedTokens: sdk.NewInt(o.ValidatorStake), OutputAddress: v.Addr})
		addAcc(v, o.Balance)
	}
	for _, v := range o.Servicers {
		g.Nodes.Validators = append(g.Nodes.Validators, nodesTypes.Validator{Address: v.Addr, PublicKey: v.Pub, Status: sdk.Staked,
			Chains: []string{ChainHash}, ServiceURL: sdk.PlaceholderServiceURL, StakedTokens: sdk.NewInt(o.MinStake), OutputAddress: v.Addr})
		addAcc(v, o.Balance)
	}
	for _, a := range o.Apps {
		g.Apps.Applications = append(g.Apps.Applications, appsTypes.Application{Address: a.Addr, PublicKey: a.Pub, Status: sdk.Staked,
			Chains: []string{ChainHash}, StakedTokens: sdk.NewInt(10000000), MaxRelays: sdk.NewInt(100000)})
		addAcc(a, o.Balance)
	}
	for _, a := range o.Accounts {
		addAcc(a, o.Balance)
	}
	addAcc(o.Owner, o.Balance)
	g.Pocket.Params.SupportedBlockchains = []string{ChainHash}
	n := int64(len(o.Validators) + len(o.Servicers))
	if n > 0 && n < g.Pocket.Params.SessionNodeCount {
		g.Pocket.Params.SessionNodeCount = n
	}
	acl := govTypes.ACL{}
	for _, k := range ACLKeys {
		acl.SetOwner(k, o.Owner.Addr)
	}
	g.Gov.Params.ACL = acl
	g.Gov.Params.DAOOwner = o.Owner.Addr
	if o.Features == nil {
		o.Features = AllFeatures(2)
	}
	if o.UpgradeHeight == 0 {
		o.UpgradeHeight, o.OldUpgradeHeight = 2, 1
	}
	var feats []string
	for _, k := range SortedKeys(o.Features) {
		feats = append(feats, fmt.Sprintf("%s:%d", k, o.Features[k]))
	}
	g.Gov.Params.Upgrade = govTypes.Upgrade{Height: o.UpgradeHeight, Version: "0.12.0", OldUpgradeHeight: o.OldUpgradeHeight, Features: feats}
	g.Gov.DAOTokens = sdk.NewInt(50000000000)
	if o.Mutate != nil {
		o.Mutate(&g)
	}
	def[auth.ModuleName] = cdc.MustMarshalJSON(g.Auth)
	def[nodesTypes.ModuleName] = cdc.MustMarshalJSON(g.Nodes)
	def[appsTypes.ModuleName] = cdc.MustMarshalJSON(g.Apps)
	def[pocketTypes.ModuleName] = cdc.MustMarshalJSON(g.Pocket)
	def[govTypes.ModuleName] = cdc.MustMarshalJSON(g.Gov)
	return app.GenesisState(def)
}

// FeatureKeys are all named protocol features of this pocket-core version.
var FeatureKeys = []string{codec.UpgradeCodecUpdateKey, codec.ValidatorSplitUpdateKey, codec.NonCustodialUpdateKey,
	codec.EnforceMaxChainsUpdateKey, codec.TxCacheEnhancementKey, codec.MaxRelayProtKey, codec.ReplayBurnKey,
	codec.BlockSizeModifyKey, codec.RSCALKey, codec.VEDITKey, codec.OutputAddressEditKey, codec.ClearUnjailedValSessionKey,
	codec.PerChainRTTM, codec.AppTransferKey, codec.RewardDelegatorsKey}

// AllFeatures schedules every feature at height h (a "modern" chain from the start).
func AllFeatures(h int64) map[string]int64 {
	m := map[string]int64{}
	for _, k := range FeatureKeys {
		m[k] = h
	}
	return m
}

// ModernGlobals = ResetGlobals for the default GenesisOpts.  The schedule mirrors mainnet's path in
// miniature: genesis (height 0) is written with the legacy amino codec, block 1 is the codec upgrade
// height (ConvertState rewrites node/app records as protobuf), and every named feature plus the
// validator split are active from block 2 on.  So: block 1 runs under pre-feature rules — send
// transactions from height 2 (World.GenBlock does) — and genesis node records have no output address
// (LegacyValidator has none; a non-custodial output is set by an edit-stake tx).
// Two alternatives do NOT work: features at 1 (InitGenesis writes legacy node records at height 0
// that block 1's ConvertState cannot decode once NCUST is active: genesis nodes vanish), and
// features/codec at -1 (types.TransactionIndexer marshals with height 0 and needs amino there).
func ModernGlobals() { ResetGlobals(AllFeatures(2), 2, 1) }

// FirstModernHeight is the first block executed under the modern rule set with the default schedule.
const FirstModernHeight = 2

// ResetGlobals puts pocket-core's package-level state back to process-start values and installs
// the feature schedule for a new node in the same process.
func ResetGlobals(features map[string]int64, upgradeHeight, oldUpgradeHeight int64) {
	app.VerifResetCodec()
	codec.UpgradeFeatureMap = map[string]int64{}
	for k, v := range features {
		codec.UpgradeFeatureMap[k] = v
	}
	codec.UpgradeHeight = upgradeHeight
	codec.OldUpgradeHeight = oldUpgradeHeight
	sdk.InitCtxCache(20)
	sdk.VbCCache = sdk.NewCache(1200)
	nodesTypes.InitConfig(100)
	appsTypes.InitConfig(100)
}

var initOnce sync.Once

// Node is one full node: app + DB + blockstore + tx indexer.
type Node struct {
	App        *app.PocketCoreApp
	DB         dbm.DB
	BlockDB    dbm.DB
	IndexDB    dbm.DB
	BlockStore *tmStore.BlockStore
	Indexer    *sdk.TransactionIndexer
	ChainID    string
	Genesis    app.GenesisState
	GenTime    time.Time
	Height     int64
	LastBlockID tmtypes.BlockID
	AppHash    []byte
	Time       time.Time
	Cache      bool
	totalTxs   int64
}

// NewNode creates the app on the given DBs (pass fresh MemDBs for a new chain, or the DBs of a
// previous Node for a restart).
func NewNode(gen app.GenesisState, chainID string, genTime time.Time, db, blockDB, indexDB dbm.DB, cache bool) *Node {
	initOnce.Do(func() {
		c := sdk.DefaultTestingPocketConfig()
		app.GlobalConfig = c
		pocketTypes.GlobalPocketConfig = c.PocketConfig
		pocketTypes.GlobalTenderMintConfig = c.TendermintConfig
	})
	app.GenState = gen
	devnull, _ := os.Open(os.DevNull)
	logger := log.NewTMLogger(devnull)
	hosted := &pocketTypes.HostedBlockchains{M: map[string]pocketTypes.HostedBlockchain{ChainHash: {ID: ChainHash, URL: sdk.PlaceholderURL}}, L: sync.RWMutex{}}
	a := app.NewPocketCoreApp(gen, nil, stubClient{}, hosted, logger, db, cache, 5000000, bam.SetPruning(store.PruneNothing))
	n := &Node{App: a, DB: db, BlockDB: blockDB, IndexDB: indexDB, ChainID: chainID, Genesis: gen, GenTime: genTime, Cache: cache}
	n.BlockStore = tmStore.NewBlockStore(blockDB)
	n.Indexer = sdk.NewTransactionIndexer(indexDB)
	a.SetBlockstore(n.BlockStore)
	a.SetTxIndexer(n.Indexer)
	n.Height = a.LastBlockHeight()
	n.AppHash = a.LastCommitID().Hash
	if n.Height > 0 {
		if meta := n.BlockStore.LoadBlockMeta(n.Height); meta != nil {
			n.LastBlockID = meta.BlockID
			n.Time = meta.Header.Time
		}
	}
	return n
}

// InitChain runs ABCI InitChain with the genesis validators of the app state.
func (n *Node) InitChain() abci.ResponseInitChain {
	n.Time = n.GenTime
	return n.App.InitChain(abci.RequestInitChain{ChainId: n.ChainID, Time: n.GenTime})
}

// Block is the chain data of one block.
type Block struct {
	Time     time.Time
	Proposer sdk.Address
	Votes    []abci.VoteInfo
	Evidence []abci.Evidence
	Txs      [][]byte
}

// TxResult is the canonicalised outcome of a DeliverTx.
type TxResult struct {
	Code      uint32
	Codespace string
	Data      []byte
	Signer    sdk.Address
	Recipient sdk.Address
	MsgType   string
}

// BlockResult is what a block produced.
type BlockResult struct {
	Height     int64
	AppHash    []byte
	Txs        []TxResult
	ValUpdates []abci.ValidatorUpdate
}

// RunBlock saves the block in the block store (as Tendermint does before ApplyBlock), then
// executes BeginBlock, DeliverTx*, EndBlock, Commit and feeds the tx indexer.
func (n *Node) RunBlock(b Block) BlockResult {
	h := n.Height + 1
	txs := make(tmtypes.Txs, len(b.Txs))
	for i, t := range b.Txs {
		txs[i] = tmtypes.Tx(t)
	}
	n.totalTxs += int64(len(txs))
	lastCommit := tmtypes.NewCommit(n.LastBlockID, nil)
	blk := &tmtypes.Block{
		Header: tmtypes.Header{
			ChainID: n.ChainID, Height: h, Time: b.Time.UTC(), NumTxs: int64(len(txs)), TotalTxs: n.totalTxs,
			LastBlockID: n.LastBlockID, AppHash: n.AppHash, ProposerAddress: []byte(b.Proposer),
			ValidatorsHash: []byte("verif-validators-hash-0000000000"), NextValidatorsHash: []byte("verif-validators-hash-0000000000"),
			ConsensusHash: []byte("verif-consensus-hash-00000000000"),
		},
		Data:       tmtypes.Data{Txs: txs},
		LastCommit: lastCommit,
	}
	blk.Header.DataHash = txs.Hash()
	blk.Header.LastCommitHash = lastCommit.Hash()
	parts := blk.MakePartSet(65536)
	bid := tmtypes.BlockID{Hash: blk.Hash(), PartsHeader: parts.Header()}
	n.BlockStore.SaveBlock(blk, parts, tmtypes.NewCommit(bid, nil))

	hdr := abci.Header{ChainID: n.ChainID, Height: h, Time: b.Time.UTC(), NumTxs: int64(len(txs)), TotalTxs: n.totalTxs,
		LastBlockId: abci.BlockID{Hash: n.LastBlockID.Hash, PartsHeader: abci.PartSetHeader{Total: int32(n.LastBlockID.PartsHeader.Total), Hash: n.LastBlockID.PartsHeader.Hash}},
		AppHash: n.AppHash, ProposerAddress: []byte(b.Proposer), DataHash: blk.Header.DataHash, LastCommitHash: blk.Header.LastCommitHash,
		ValidatorsHash: blk.Header.ValidatorsHash, NextValidatorsHash: blk.Header.NextValidatorsHash, ConsensusHash: blk.Header.ConsensusHash}
	n.App.BeginBlock(abci.RequestBeginBlock{Hash: bid.Hash, Header: hdr, LastCommitInfo: abci.LastCommitInfo{Votes: b.Votes}, ByzantineValidators: b.Evidence})
	res := BlockResult{Height: h}
	batch := txindex.NewBatch(int64(len(b.Txs)))
	for i, t := range b.Txs {
		r := n.App.DeliverTx(abci.RequestDeliverTx{Tx: t})
		res.Txs = append(res.Txs, TxResult{Code: r.Code, Codespace: r.Codespace, Data: r.Data, Signer: r.Signer, Recipient: r.Recipient, MsgType: r.MessageType})
		_ = batch.Add(&tmtypes.TxResult{Height: h, Index: uint32(i), Tx: tmtypes.Tx(t), Result: r})
	}
	eb := n.App.EndBlock(abci.RequestEndBlock{Height: h})
	res.ValUpdates = eb.ValidatorUpdates
	c := n.App.Commit()
	res.AppHash = c.Data
	if err := n.Indexer.AddBatch(batch); err != nil {
		panic(err)
	}
	n.Height, n.LastBlockID, n.AppHash, n.Time = h, bid, c.Data, b.Time.UTC()
	return res
}

// Ctx returns a read context on the current (just committed) working state.
func (n *Node) Ctx() sdk.Context {
	return sdk.NewContext(n.App.Store(), abci.Header{ChainID: n.ChainID, Height: n.Height, Time: n.Time}, false, n.App.Logger()).WithBlockStore(n.BlockStore)
}

// Restart builds a new app object on the same databases (a node restart).
func (n *Node) Restart() *Node {
	m := NewNode(n.Genesis, n.ChainID, n.GenTime, n.DB, n.BlockDB, n.IndexDB, n.Cache)
	m.totalTxs = n.totalTxs
	return m
}

// SignTx builds a signed StdTx (protobuf encoding) with explicit entropy.
func SignTx(chainID string, k Key, msg sdk.ProtoMsg, fee int64, entropy int64, memo string) []byte {
	cdc := app.Codec()
	b := authTypes.NewTxBuilder(auth.DefaultTxEncoder(cdc), auth.DefaultTxDecoder(cdc), chainID, memo,
		sdk.NewCoins(sdk.NewCoin(sdk.DefaultStakeDenom, sdk.NewInt(fee))))
	bz, err := b.BuildAndSignWithEntropyForTesting(k.Priv, msg, entropy)
	if err != nil {
		panic(err)
	}
	return bz
}

func Hex(b []byte) string {
	if len(b) == 0 {
		return "-"
	}
	return hex.EncodeToString(b)
}

// SortedKeys returns the keys of a string-keyed map in order.
func SortedKeys[V any](m map[string]V) []string {
	ks := make([]string, 0, len(m))
	for k := range m {
		ks = append(ks, k)
	}
	sort.Strings(ks)
	return ks
}

var _ = fmt.Sprintf
