package msdrive

import (
	"fmt"
	"sort"
	"strings"

	"verifharness/internal/faultdb"
	"verifharness/internal/gen"
)

// Write is one Set/Delete on a named substore.
type Write struct {
	Store string
	Del   bool
	K, V  []byte
}

var PNames = []string{"acc", "pos", "a", "ab", "main"}

// PickNames draws n distinct substore names (in fixed order).
func PickNames(r *gen.R, n int) []string {
	idx := map[int]bool{}
	for len(idx) < n {
		idx[r.Intn(len(PNames))] = true
	}
	var out []string
	for i, s := range PNames {
		if idx[i] {
			out = append(out, s)
		}
	}
	return out
}

// GenBlocks: nb blocks of writes over the given stores and key space.
func GenBlocks(r *gen.R, ps []string, nb, space, maxw int) [][]Write {
	blocks := make([][]Write, nb)
	for i := range blocks {
		k := r.Intn(maxw + 1)
		if r.Chance(1, 10) {
			k = 0
		}
		for j := 0; j < k; j++ {
			w := Write{Store: r.Pick(ps), K: Key(r, space), V: Val(r)}
			w.Del = r.Chance(1, 3)
			blocks[i] = append(blocks[i], w)
		}
	}
	return blocks
}

// Oracle is the plain-map specification of the substores' contents.
type Oracle map[string]map[string][]byte

func NewOracle(ps []string) Oracle {
	o := Oracle{}
	for _, p := range ps {
		o[p] = map[string][]byte{}
	}
	return o
}

func (o Oracle) Clone() Oracle {
	c := Oracle{}
	for s, m := range o {
		c[s] = map[string][]byte{}
		for k, v := range m {
			c[s][k] = v
		}
	}
	return c
}

func (o Oracle) Apply(ws []Write) {
	for _, w := range ws {
		if w.Del {
			delete(o[w.Store], string(w.K))
		} else {
			o[w.Store][string(w.K)] = w.V
		}
	}
}

func (o Oracle) Dump(store string) string {
	m := o[store]
	keys := make([]string, 0, len(m))
	for k := range m {
		keys = append(keys, k)
	}
	sort.Strings(keys)
	if len(keys) == 0 {
		return "-"
	}
	parts := make([]string, len(keys))
	for i, k := range keys {
		parts[i] = gen.Hex([]byte(k)) + ":" + gen.Hex(m[k])
	}
	return strings.Join(parts, ",")
}

// ApplyWrites performs the writes on the real multistore.
func (m *MS) ApplyWrites(ws []Write) {
	for _, w := range ws {
		kv := m.KV(w.Store)
		if w.Del {
			_ = kv.Delete(w.K)
		} else {
			_ = kv.Set(w.K, w.V)
		}
	}
}

// RouteOf: how block bi travels to the substores (0 direct, 1 through CacheMultiStore()+Write(), 2 through a
// nested cache wrap).  A function of the block so that replicas, replays and re-executions take the same route
// (the order in which writes reach an IAVL tree shapes it).
func RouteOf(bi int, ws []Write) int { return (bi + len(ws)) % 3 }

// ApplyWritesRoute performs the writes on the real multistore along the given route.
func (m *MS) ApplyWritesRoute(ws []Write, route int) {
	if route == 0 {
		m.ApplyWrites(ws)
		return
	}
	top := m.Store.CacheMultiStore()
	cur := top
	if route == 2 {
		cur = top.CacheMultiStore()
	}
	for _, w := range ws {
		kv := cur.GetKVStore(m.Keys[w.Store])
		if w.Del {
			_ = kv.Delete(w.K)
		} else {
			_ = kv.Set(w.K, w.V)
		}
	}
	if route == 2 {
		cur.Write()
	}
	top.Write()
}

func RenderEvents(evs []faultdb.Event) string {
	if len(evs) == 0 {
		return "-"
	}
	parts := make([]string, len(evs))
	for i, e := range evs {
		parts[i] = e.Render()
	}
	return strings.Join(parts, " ")
}

// StoreStates emits one line per substore: "<tag> <ver> <store> => <iavl version> <root hash> <dump> [<oracle dump>]".
func StoreStates(t *gen.Trace, tag string, ver string, ms *MS, o Oracle) {
	for _, n := range ms.Spec.Persistent {
		cs := ms.Store.GetCommitStore(ms.Keys[n])
		id := cs.LastCommitID()
		if o != nil {
			t.Line(tag, true, "%s %s %s => %s %s %s", tag, ver, n, CID(id), DumpKV(ms.KV(n)), o.Dump(n))
		} else {
			t.Line(tag, true, "%s %s %s => %s %s", tag, ver, n, CID(id), DumpKV(ms.KV(n)))
		}
	}
}

func ErrStr(e interface{}) string {
	s := strings.ReplaceAll(fmt.Sprint(e), " ", "_")
	s = strings.ReplaceAll(s, "\n", "_")
	if len(s) > 90 {
		s = s[:90]
	}
	return s
}
