// Package msdrive: helpers shared by the C04/C06/C07/C08 harness commands — building a real
// rootmulti.Store over a tm-db backend, dumping substore contents in canonical order, reading the
// persisted commit-info records, copying a MemDB, generating colliding keys.
package msdrive

import (
	"bytes"
	"fmt"
	"sort"
	"strings"

	"github.com/pokt-network/pocket-core/codec"
	cdctypes "github.com/pokt-network/pocket-core/codec/types"
	"github.com/pokt-network/pocket-core/store/iavl"
	"github.com/pokt-network/pocket-core/store/rootmulti"
	"github.com/pokt-network/pocket-core/store/types"
	dbm "github.com/tendermint/tm-db"

	"verifharness/internal/gen"
)

// Cdc is the same amino codec rootmulti uses for its commit-info and latest-version records.
var Cdc = codec.NewCodec(cdctypes.NewInterfaceRegistry())

// Spec names the substores to mount (in this order).
type Spec struct {
	Persistent []string
	Transient  []string
}

// MS is a mounted real multistore.
type MS struct {
	Store *rootmulti.Store
	Keys  map[string]types.StoreKey
	DB    dbm.DB
	Spec  Spec
}

// New mounts the substores on db without loading anything.
func New(db dbm.DB, spec Spec, cacheSize int64) *MS {
	st := rootmulti.NewStore(db, false, cacheSize)
	m := &MS{Store: st, Keys: map[string]types.StoreKey{}, DB: db, Spec: spec}
	for _, n := range spec.Persistent {
		k := types.NewKVStoreKey(n)
		m.Keys[n] = k
		st.MountStoreWithDB(k, types.StoreTypeIAVL, nil)
	}
	for _, n := range spec.Transient {
		k := types.NewTransientStoreKey(n)
		m.Keys[n] = k
		st.MountStoreWithDB(k, types.StoreTypeTransient, nil)
	}
	return m
}

// Open = New + LoadLatestVersion.
func Open(db dbm.DB, spec Spec, cacheSize int64) (*MS, error) {
	m := New(db, spec, cacheSize)
	return m, m.Store.LoadLatestVersion()
}

// OpenAt = New + LoadVersion(ver).
func OpenAt(db dbm.DB, spec Spec, cacheSize int64, ver int64) (*MS, error) {
	m := New(db, spec, cacheSize)
	return m, m.Store.LoadVersion(ver)
}

func (m *MS) KV(name string) types.KVStore { return m.Store.GetKVStore(m.Keys[name]) }

// DumpKV renders the whole content of a KVStore as "k:v,k:v" in iteration (ascending) order.  For an IAVL
// store the tree is first walked synchronously (hook DumpKVForVerif) under recover(): a missing node then
// yields "PANIC:<msg>" instead of killing the process from the iterator's goroutine; afterwards the real
// iterator is used and must agree with the walk ("ITERDIFF" otherwise).
func DumpKV(kv types.KVStore) (out string) {
	if st, ok := kv.(*iavl.Store); ok {
		var walked string
		failed := false
		func() {
			defer func() {
				if e := recover(); e != nil {
					failed = true
					msg := strings.ReplaceAll(fmt.Sprint(e), " ", "_")
					if len(msg) > 60 {
						msg = msg[:60]
					}
					walked = "PANIC:" + msg
				}
			}()
			var parts []string
			for _, p := range st.DumpKVForVerif() {
				parts = append(parts, gen.Hex(p[0])+":"+gen.Hex(p[1]))
			}
			walked = "-"
			if len(parts) > 0 {
				walked = strings.Join(parts, ",")
			}
		}()
		if failed {
			return walked
		}
		defer func() {
			if out != walked {
				out = "ITERDIFF:" + out
			}
		}()
	}
	return dumpIter(kv)
}

func dumpIter(kv types.KVStore) string {
	it, err := kv.Iterator(nil, nil)
	if err != nil {
		return "ERR"
	}
	defer it.Close()
	var parts []string
	for ; it.Valid(); it.Next() {
		parts = append(parts, gen.Hex(it.Key())+":"+gen.Hex(it.Value()))
	}
	if len(parts) == 0 {
		return "-"
	}
	return strings.Join(parts, ",")
}

// Count returns the number of entries of a KVStore.
func Count(kv types.KVStore) int {
	it, err := kv.Iterator(nil, nil)
	if err != nil {
		return -1
	}
	defer it.Close()
	n := 0
	for ; it.Valid(); it.Next() {
		n++
	}
	return n
}

// ReadCommitInfo decodes the persisted record s/<ver>; ok=false if absent.
func ReadCommitInfo(db dbm.DB, ver int64) (ci rootmulti.CommitInfo, raw []byte, ok bool) {
	raw, _ = db.Get([]byte(fmt.Sprintf("s/%d", ver)))
	if raw == nil {
		return ci, nil, false
	}
	if err := Cdc.LegacyUnmarshalBinaryLengthPrefixed(raw, &ci); err != nil {
		return ci, raw, false
	}
	return ci, raw, true
}

// RenderInfos renders StoreInfos in their persisted order: name:version:hash;...
func RenderInfos(ci rootmulti.CommitInfo) string {
	if len(ci.StoreInfos) == 0 {
		return "-"
	}
	parts := make([]string, len(ci.StoreInfos))
	for i, si := range ci.StoreInfos {
		parts[i] = fmt.Sprintf("%s:%d:%s", si.Name, si.Core.CommitID.Version, gen.Hex(si.Core.CommitID.Hash))
	}
	return strings.Join(parts, ";")
}

// CID renders a CommitID as "<version> <hash>".
func CID(id types.CommitID) string { return fmt.Sprintf("%d %s", id.Version, gen.Hex(id.Hash)) }

// CopyMemDB returns an independent MemDB with the same content.
func CopyMemDB(src dbm.DB) *dbm.MemDB {
	dst := dbm.NewMemDB()
	it, err := src.Iterator(nil, nil)
	if err != nil {
		panic(err)
	}
	defer it.Close()
	for ; it.Valid(); it.Next() {
		k := append([]byte(nil), it.Key()...)
		v := append([]byte{}, it.Value()...)
		_ = dst.Set(k, v)
	}
	return dst
}

// DumpDB lists all (key,value) pairs of a DB in key order.
func DumpDB(db dbm.DB) [][2][]byte {
	it, err := db.Iterator(nil, nil)
	if err != nil {
		panic(err)
	}
	defer it.Close()
	var out [][2][]byte
	for ; it.Valid(); it.Next() {
		out = append(out, [2][]byte{append([]byte(nil), it.Key()...), append([]byte{}, it.Value()...)})
	}
	sort.Slice(out, func(i, j int) bool { return bytes.Compare(out[i][0], out[j][0]) < 0 })
	return out
}

// Key draws a key from a small colliding alphabet (shared prefixes, 00/FF bytes, empty-ish).
func Key(r *gen.R, space int) []byte {
	if space <= 0 {
		space = 12
	}
	pool := [][]byte{{0x00}, {0x00, 0x00}, {0x01}, {0x61}, {0x61, 0x00}, {0x61, 0x61}, {0x61, 0x62}, {0x62},
		{0xff}, {0xff, 0x00}, {0xff, 0xff}, {0x7f}, {0x80}, {0x61, 0x61, 0x61}, {0x10}, {0x20}}
	i := r.Intn(space)
	if i < len(pool) {
		return append([]byte(nil), pool[i]...)
	}
	return []byte{byte(i >> 8), byte(i), 0x55}
}

// Val draws a non-nil value (possibly empty).
func Val(r *gen.R) []byte {
	switch r.Intn(8) {
	case 0:
		return []byte{}
	case 1:
		return []byte{0x00}
	case 2:
		return r.Bytes(1 + r.Intn(40))
	default:
		return []byte{byte(r.Intn(4)), byte(r.Intn(3))}
	}
}
