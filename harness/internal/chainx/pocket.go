package chainx

import (
	"crypto/sha256"

	sdk "github.com/pokt-network/pocket-core/types"
	pocketTypes "github.com/pokt-network/pocket-core/x/pocketcore/types"
	tmcfg "github.com/tendermint/tendermint/config"

	"verifharness/internal/chain"
)

// InitSessionCache gives the process the in-memory session / evidence caches a running node has
// (types.InitPocketNodeCache does this at node start-up; without it GlobalSessionCache is nil and
// every claim validation panics inside runTx).
func InitSessionCache(maxEntries int) {
	s, e := &pocketTypes.CacheStorage{}, &pocketTypes.CacheStorage{}
	s.Init("", "", tmcfg.LevelDBOptions{}, maxEntries, true)
	e.Init("", "", tmcfg.LevelDBOptions{}, maxEntries, true)
	pocketTypes.GlobalSessionCache = s
	pocketTypes.GlobalEvidenceCache = e
}

// MsgClaim builds a relay-evidence claim of node `from` for the session of application `app`
// starting at sessionHeight (the merkle root is a commitment only: any 32-byte hash is accepted
// by the claim handler).
func MsgClaim(from chain.Key, app chain.Key, sessionHeight int64, totalProofs int64, salt byte) sdk.ProtoMsg {
	return MsgClaimChain(from, app, chain.ChainHash, sessionHeight, totalProofs, salt)
}

// MsgClaimChain is MsgClaim for an explicit network identifier.
func MsgClaimChain(from chain.Key, app chain.Key, chainID string, sessionHeight int64, totalProofs int64, salt byte) sdk.ProtoMsg {
	h := sha256.Sum256([]byte{salt, byte(sessionHeight)})
	return &pocketTypes.MsgClaim{
		SessionHeader: pocketTypes.SessionHeader{ApplicationPubKey: app.Pub.RawString(), Chain: chainID, SessionBlockHeight: sessionHeight},
		MerkleRoot:    pocketTypes.HashRange{Hash: h[:], Range: pocketTypes.Range{Lower: 0, Upper: uint64(totalProofs) * 1000}},
		TotalProofs:   totalProofs,
		FromAddress:   from.Addr,
		EvidenceType:  pocketTypes.RelayEvidence,
	}
}
