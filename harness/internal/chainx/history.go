package chainx

import (
	"encoding/hex"
	"encoding/json"
	"os"
	"time"

	sdk "github.com/pokt-network/pocket-core/types"
	abci "github.com/tendermint/tendermint/abci/types"

	"verifharness/internal/chain"
)

// History is chain data generated ONCE (by the parent process) and executed by every twin / repeat
// run.  Transaction bytes must not be regenerated per process: gogoproto marshals the
// RewardDelegators map of MsgStake in Go map order, so two processes signing "the same" transaction
// produce different bytes (different tx hash, data hash, block hash).
type History struct {
	Blocks []HBlock `json:"blocks"`
}

type HVote struct {
	Addr   string `json:"addr"`
	Power  int64  `json:"power"`
	Signed bool   `json:"signed"`
}

type HEvidence struct {
	Type   string `json:"type"`
	Addr   string `json:"addr"`
	Power  int64  `json:"power"`
	Height int64  `json:"height"`
	Time   int64  `json:"time"`
	Total  int64  `json:"total"`
}

type HBlock struct {
	Time     int64       `json:"time"` // unix nanos
	Proposer string      `json:"proposer"`
	Votes    []HVote     `json:"votes"`
	Evidence []HEvidence `json:"evidence"`
	Txs      []string    `json:"txs"`
	Kinds    []string    `json:"kinds"`
	Descs    []string    `json:"descs,omitempty"`
}

// AddBlock appends a generated block.
func (h *History) AddBlock(b chain.Block, kinds []string) {
	hb := HBlock{Time: b.Time.UnixNano(), Proposer: hex.EncodeToString(b.Proposer), Kinds: kinds}
	for _, v := range b.Votes {
		hb.Votes = append(hb.Votes, HVote{hex.EncodeToString(v.Validator.Address), v.Validator.Power, v.SignedLastBlock})
	}
	for _, e := range b.Evidence {
		hb.Evidence = append(hb.Evidence, HEvidence{e.Type, hex.EncodeToString(e.Validator.Address), e.Validator.Power, e.Height, e.Time.UnixNano(), e.TotalVotingPower})
	}
	for _, t := range b.Txs {
		hb.Txs = append(hb.Txs, hex.EncodeToString(t))
	}
	h.Blocks = append(h.Blocks, hb)
}

// SetDescs attaches human-readable descriptions to the last block's transactions.
func (h *History) SetDescs(descs []string) { h.Blocks[len(h.Blocks)-1].Descs = descs }

// Block rebuilds the chain data of block i.
func (h *History) Block(i int) (chain.Block, []string) {
	hb := h.Blocks[i]
	unhex := func(s string) []byte { b, _ := hex.DecodeString(s); return b }
	b := chain.Block{Time: time.Unix(0, hb.Time).UTC(), Proposer: sdk.Address(unhex(hb.Proposer))}
	for _, v := range hb.Votes {
		b.Votes = append(b.Votes, abci.VoteInfo{Validator: abci.Validator{Address: unhex(v.Addr), Power: v.Power}, SignedLastBlock: v.Signed})
	}
	for _, e := range hb.Evidence {
		b.Evidence = append(b.Evidence, abci.Evidence{Type: e.Type, Validator: abci.Validator{Address: unhex(e.Addr), Power: e.Power}, Height: e.Height, Time: time.Unix(0, e.Time).UTC(), TotalVotingPower: e.Total})
	}
	for _, t := range hb.Txs {
		b.Txs = append(b.Txs, unhex(t))
	}
	return b, hb.Kinds
}

func (h *History) Save(path string) error {
	bz, err := json.Marshal(h)
	if err != nil {
		return err
	}
	return os.WriteFile(path, bz, 0o644)
}

func LoadHistory(path string) (*History, error) {
	bz, err := os.ReadFile(path)
	if err != nil {
		return nil, err
	}
	h := &History{}
	return h, json.Unmarshal(bz, h)
}
