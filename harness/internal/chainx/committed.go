package chainx

import (
	"github.com/pokt-network/pocket-core/store/rootmulti"
	sdk "github.com/pokt-network/pocket-core/types"
	abci "github.com/tendermint/tendermint/abci/types"

	"verifharness/internal/chain"
)

// CommittedBalance reads an account balance from the LAST COMMITTED version of the multistore (a lazily
// loaded copy under a prev context: no working-state reads, no node-local caches); "?" when the version
// cannot be loaded, "0" when the account does not exist there.
func CommittedBalance(n *chain.Node, addr sdk.Address) (b string) {
	defer func() {
		if e := recover(); e != nil {
			b = "?"
		}
	}()
	h := n.App.LastBlockHeight()
	st, err := n.App.Store().(*rootmulti.Store).LoadLazyVersion(h)
	if err != nil {
		return "?"
	}
	ctx := sdk.NewContext((*st).(sdk.MultiStore), abci.Header{ChainID: n.ChainID, Height: h}, false, n.App.Logger()).SetPrevCtx(true)
	acc := n.App.VerifAccountKeeper().GetAccount(ctx, addr)
	if acc == nil {
		return "0"
	}
	return acc.GetCoins().AmountOf(sdk.DefaultStakeDenom).String()
}
