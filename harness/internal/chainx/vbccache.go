package chainx

import (
	"crypto/sha256"
	"encoding/hex"
	"fmt"
	"sort"
	"strconv"
	"strings"

	"github.com/pokt-network/pocket-core/store/rootmulti"
	sdk "github.com/pokt-network/pocket-core/types"
	nodesTypes "github.com/pokt-network/pocket-core/x/nodes/types"
	abci "github.com/tendermint/tendermint/abci/types"

	"verifharness/internal/chain"
)

func addrsDigest(as []sdk.Address) string {
	h := sha256.New()
	for _, a := range as {
		h.Write(a)
		h.Write([]byte{0})
	}
	return fmt.Sprintf("%d.%s", len(as), hex.EncodeToString(h.Sum(nil))[:6])
}

// VbcMonitor evaluates the coherence of the REAL validators-by-chain cache (sdk.VbCCache): every entry
// keyed "<height>-<chain>" must be the list the pos store of version <height> yields for exactly that
// chain id (prefix iteration, no cache involved).  Store answers of committed versions are memoised.
type VbcMonitor struct{ memo map[string]string }

func NewVbcMonitor() *VbcMonitor { return &VbcMonitor{memo: map[string]string{}} }

// Dump returns ("h-chain:digest,…" of the cache, the same for the store) over the entries whose
// height is a committed version; "-" when there is none.
func (m *VbcMonitor) Dump(n *chain.Node) (cache, store string) {
	var cs, ss []string
	keys := sdk.VbCCache.Keys()
	ks := make([]string, 0, len(keys))
	for _, k := range keys {
		if s, ok := k.(string); ok {
			ks = append(ks, s)
		}
	}
	sort.Strings(ks)
	for _, k := range ks {
		parts := strings.SplitN(k, "-", 2)
		if len(parts) != 2 {
			continue
		}
		h, err := strconv.ParseInt(parts[0], 10, 64)
		if err != nil || h < 1 || h > n.App.LastBlockHeight() {
			continue
		}
		v, ok := sdk.VbCCache.Peek(k)
		if !ok {
			continue
		}
		l, _ := v.([]sdk.Address)
		label := strings.Replace(k, "-", "/", 1)
		cs = append(cs, label+":"+addrsDigest(l))
		ans, ok := m.memo[k]
		if !ok {
			ans = m.storeAnswer(n, h, parts[1])
			m.memo[k] = ans
		}
		ss = append(ss, label+":"+ans)
	}
	if len(cs) == 0 {
		return "-", "-"
	}
	return strings.Join(cs, ","), strings.Join(ss, ",")
}

func (m *VbcMonitor) storeAnswer(n *chain.Node, height int64, chainID string) (d string) {
	defer func() {
		if e := recover(); e != nil {
			d = "?"
		}
	}()
	cBz, err := hex.DecodeString(chainID)
	if err != nil {
		return "badhex"
	}
	st, err := n.App.Store().(*rootmulti.Store).LoadLazyVersion(height)
	if err != nil {
		return "?"
	}
	ctx := sdk.NewContext((*st).(sdk.MultiStore), abci.Header{ChainID: n.ChainID, Height: height}, false, n.App.Logger()).SetPrevCtx(true)
	kv := ctx.KVStore(n.App.Keys[nodesTypes.StoreKey])
	it, _ := sdk.KVStorePrefixIterator(kv, nodesTypes.KeyForValidatorsByNetworkID(cBz))
	defer it.Close()
	var as []sdk.Address
	for ; it.Valid(); it.Next() {
		as = append(as, append(sdk.Address(nil), nodesTypes.AddressForValidatorByNetworkIDKey(it.Key(), cBz)...))
	}
	return addrsDigest(as)
}
