package chainx

import (
	sdk "github.com/pokt-network/pocket-core/types"
	appsTypes "github.com/pokt-network/pocket-core/x/apps/types"
	nodesTypes "github.com/pokt-network/pocket-core/x/nodes/types"
	pocketTypes "github.com/pokt-network/pocket-core/x/pocketcore/types"

	"verifharness/internal/chain"
)

// Route is one custom query with request data encoded by the module's own JSON codec (amino JSON:
// 64-bit integers are strings, so encoding/json would not do).
type Route struct {
	Path string
	Data []byte
}

func mj(f func() ([]byte, error)) []byte {
	b, err := f()
	if err != nil {
		panic(err)
	}
	return b
}

// AppRoutes are the custom routes of the application module for addr.
func AppRoutes(addr sdk.Address) []Route {
	c := appsTypes.ModuleCdc
	return []Route{
		{"custom/application/application", mj(func() ([]byte, error) { return c.MarshalJSON(appsTypes.QueryAppParams{Address: addr}) })},
		{"custom/application/applications", mj(func() ([]byte, error) { return c.MarshalJSON(appsTypes.QueryApplicationsWithOpts{Page: 1, Limit: 100}) })},
		{"custom/application/applications", mj(func() ([]byte, error) {
			return c.MarshalJSON(appsTypes.QueryApplicationsWithOpts{Page: 1, Limit: 100, StakingStatus: sdk.Staked, Blockchain: chain.ChainHash})
		})},
		{"custom/application/parameters", nil},
		{"custom/application/appStakedPool", nil},
	}
}

// NodeRoutes are the custom routes of the pos (+auth, gov, pocketcore read-only) modules for addr.
func NodeRoutes(addr sdk.Address) []Route {
	c := nodesTypes.ModuleCdc
	return []Route{
		{"custom/pos/validator", mj(func() ([]byte, error) { return c.MarshalJSON(nodesTypes.QueryValidatorParams{Address: addr}) })},
		{"custom/pos/validators", mj(func() ([]byte, error) { return c.MarshalJSON(nodesTypes.QueryValidatorsParams{Page: 1, Limit: 100}) })},
		{"custom/pos/validators", mj(func() ([]byte, error) {
			return c.MarshalJSON(nodesTypes.QueryValidatorsParams{Page: 1, Limit: 100, StakingStatus: sdk.Staked, Blockchain: chain.ChainHash})
		})},
		{"custom/pos/signingInfo", mj(func() ([]byte, error) { return c.MarshalJSON(nodesTypes.QuerySigningInfoParams{Address: addr}) })},
		{"custom/pos/signingInfos", mj(func() ([]byte, error) { return c.MarshalJSON(nodesTypes.QuerySigningInfosParams{Page: 1, Limit: 100}) })},
		{"custom/pos/account_balance", mj(func() ([]byte, error) { return c.MarshalJSON(nodesTypes.QueryAccountBalanceParams{Address: addr}) })},
		{"custom/pos/account", mj(func() ([]byte, error) { return c.MarshalJSON(nodesTypes.QueryAccountParams{Address: addr}) })},
		{"custom/pos/total_supply", nil},
		{"custom/pos/stakedPool", nil},
		{"custom/pos/parameters", nil},
		{"custom/gov/acl", nil},
		{"custom/gov/dao", nil},
		{"custom/gov/daoOwner", nil},
		{"custom/gov/upgrade", nil},
		{"custom/pocketcore/supportedBlockchains", nil},
		{"custom/pocketcore/parameters", nil},
		{"custom/nosuch/route", nil},
	}
}

// DispatchRoute is custom/pocketcore/dispatch for an application.
func DispatchRoute(app chain.Key) Route { return DispatchRouteChain(app, chain.ChainHash) }

// DispatchRouteChain is DispatchRoute for an explicit network identifier.
func DispatchRouteChain(app chain.Key, chainID string) Route {
	hdr := pocketTypes.SessionHeader{ApplicationPubKey: app.Pub.RawString(), Chain: chainID, SessionBlockHeight: 1}
	return Route{"custom/pocketcore/dispatch", mj(func() ([]byte, error) {
		return pocketTypes.ModuleCdc.MarshalJSON(pocketTypes.QueryDispatchParams{SessionHeader: hdr})
	})}
}
