package chainx

import (
	"crypto/sha256"
	"encoding/hex"
	"fmt"
	"sort"
	"strings"

	appsTypes "github.com/pokt-network/pocket-core/x/apps/types"

	"verifharness/internal/chain"
)

// AppDigest is a short canonical digest of an application record.
func AppDigest(a appsTypes.Application) string {
	h := sha256.Sum256([]byte(fmt.Sprintf("%d/%v/%s/%s/%s/%d", a.Status, a.Jailed, a.StakedTokens, a.MaxRelays, strings.Join(a.Chains, ","), a.UnstakingCompletionTime.UnixNano())))
	return hex.EncodeToString(h[:4])
}

// AppCacheDump renders the REAL ApplicationCache, most recently used first ("addr8:digest,...").
func AppCacheDump(n *chain.Node) string {
	k := n.App.VerifAppsKeeper()
	keys := k.ApplicationCache.Keys() // oldest first
	var ps []string
	for i := len(keys) - 1; i >= 0; i-- {
		ks, _ := keys[i].(string)
		v, ok := k.ApplicationCache.Peek(ks)
		if !ok {
			continue
		}
		ap, ok := v.(appsTypes.Application)
		if !ok {
			ps = append(ps, ks[:8]+":badtype")
			continue
		}
		ps = append(ps, ks[:8]+":"+AppDigest(ap))
	}
	if len(ps) == 0 {
		return "-"
	}
	return strings.Join(ps, ",")
}

// AppStoreDump renders the application records of the working store (iteration, no cache involved).
func AppStoreDump(n *chain.Node) string {
	var ps []string
	for _, ap := range n.App.VerifAppsKeeper().GetAllApplications(n.Ctx()) {
		ps = append(ps, ap.Address.String()[:8]+":"+AppDigest(ap))
	}
	sort.Strings(ps)
	if len(ps) == 0 {
		return "-"
	}
	return strings.Join(ps, ",")
}
