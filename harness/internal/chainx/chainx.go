// Package chainx: helpers shared by the twin-run harnesses c11, c12, c13 (owned by that builder).
//
//   - Runner.RunBlock: chain.Node.RunBlock with a hook at every point between two ABCI calls;
//   - RawSnapshot / RawDigest: every key of every persistent substore of the *working* state;
//   - Child: re-execute this binary with a role flag (pocket-core keeps consensus-relevant state in
//     package globals, so twins run in separate processes) and collect its stdout lines.
package chainx

import (
	"bufio"
	"bytes"
	"context"
	"crypto/sha256"
	"encoding/hex"
	"fmt"
	"os"
	"os/exec"
	"sort"
	"strings"
	"time"

	sdk "github.com/pokt-network/pocket-core/types"
	abci "github.com/tendermint/tendermint/abci/types"
	"github.com/tendermint/tendermint/state/txindex"
	tmtypes "github.com/tendermint/tendermint/types"

	"verifharness/internal/chain"
)

// Hook is called between ABCI calls of a block. point is one of
// "pre-begin", "post-begin", "pre-tx" (i = index), "post-txs", "post-end", "post-commit".
type Hook func(point string, i int)

// Runner drives one node block by block (same chain data as chain.Node.RunBlock).
type Runner struct {
	N        *chain.Node
	TotalTxs int64
	// AfterTx, when set, is called right after every DeliverTx with the index and the response.
	AfterTx func(i int, r abci.ResponseDeliverTx)
	// BeforeTx, when set, is called right before every DeliverTx.
	BeforeTx func(i int)
}

// RunBlock saves the block, then BeginBlock, DeliverTx*, EndBlock, Commit, index; hook may be nil.
func (r *Runner) RunBlock(b chain.Block, hook Hook) chain.BlockResult {
	n := r.N
	call := func(p string, i int) {
		if hook != nil {
			hook(p, i)
		}
	}
	h := n.Height + 1
	txs := make(tmtypes.Txs, len(b.Txs))
	for i, t := range b.Txs {
		txs[i] = tmtypes.Tx(t)
	}
	r.TotalTxs += int64(len(txs))
	lastCommit := tmtypes.NewCommit(n.LastBlockID, nil)
	blk := &tmtypes.Block{
		Header: tmtypes.Header{
			ChainID: n.ChainID, Height: h, Time: b.Time.UTC(), NumTxs: int64(len(txs)), TotalTxs: r.TotalTxs,
			LastBlockID: n.LastBlockID, AppHash: n.AppHash, ProposerAddress: []byte(b.Proposer),
			ValidatorsHash: []byte("verif-validators-hash-0000000000"), NextValidatorsHash: []byte("verif-validators-hash-0000000000"),
			ConsensusHash: []byte("verif-consensus-hash-00000000000"),
		},
		Data:       tmtypes.Data{Txs: txs},
		LastCommit: lastCommit,
	}
	blk.Header.DataHash = txs.Hash()
	blk.Header.LastCommitHash = lastCommit.Hash()
	parts := blk.MakePartSet(65536)
	bid := tmtypes.BlockID{Hash: blk.Hash(), PartsHeader: parts.Header()}
	n.BlockStore.SaveBlock(blk, parts, tmtypes.NewCommit(bid, nil))

	hdr := abci.Header{ChainID: n.ChainID, Height: h, Time: b.Time.UTC(), NumTxs: int64(len(txs)), TotalTxs: r.TotalTxs,
		LastBlockId: abci.BlockID{Hash: n.LastBlockID.Hash, PartsHeader: abci.PartSetHeader{Total: int32(n.LastBlockID.PartsHeader.Total), Hash: n.LastBlockID.PartsHeader.Hash}},
		AppHash:     n.AppHash, ProposerAddress: []byte(b.Proposer), DataHash: blk.Header.DataHash, LastCommitHash: blk.Header.LastCommitHash,
		ValidatorsHash: blk.Header.ValidatorsHash, NextValidatorsHash: blk.Header.NextValidatorsHash, ConsensusHash: blk.Header.ConsensusHash}
	call("pre-begin", 0)
	n.App.BeginBlock(abci.RequestBeginBlock{Hash: bid.Hash, Header: hdr, LastCommitInfo: abci.LastCommitInfo{Votes: b.Votes}, ByzantineValidators: b.Evidence})
	call("post-begin", 0)
	res := chain.BlockResult{Height: h}
	batch := txindex.NewBatch(int64(len(b.Txs)))
	for i, t := range b.Txs {
		call("pre-tx", i)
		if r.BeforeTx != nil {
			r.BeforeTx(i)
		}
		d := n.App.DeliverTx(abci.RequestDeliverTx{Tx: t})
		if r.AfterTx != nil {
			r.AfterTx(i, d)
		}
		res.Txs = append(res.Txs, chain.TxResult{Code: d.Code, Codespace: d.Codespace, Data: d.Data, Signer: d.Signer, Recipient: d.Recipient, MsgType: d.MessageType})
		_ = batch.Add(&tmtypes.TxResult{Height: h, Index: uint32(i), Tx: tmtypes.Tx(t), Result: d})
	}
	call("post-txs", 0)
	eb := n.App.EndBlock(abci.RequestEndBlock{Height: h})
	res.ValUpdates = eb.ValidatorUpdates
	call("post-end", 0)
	c := n.App.Commit()
	res.AppHash = c.Data
	if err := n.Indexer.AddBatch(batch); err != nil {
		panic(err)
	}
	n.Height, n.LastBlockID, n.AppHash, n.Time = h, bid, c.Data, b.Time.UTC()
	call("post-commit", 0)
	return res
}

// Restart = chain.Node.Restart keeping the runner's tx counter.
func (r *Runner) Restart() { r.N = r.N.Restart() }

// RawSnapshot lists every entry of every persistent substore of the working state
// ("<store>/<keyhex>" -> valuehex).  Reads go through a plain context on app.cms, i.e. they see
// uncommitted writes.
func RawSnapshot(n *chain.Node) map[string]string {
	out := map[string]string{}
	ctx := n.Ctx()
	for _, name := range chain.SortedKeys(n.App.Keys) {
		st := ctx.KVStore(n.App.Keys[name])
		it, _ := sdk.KVStorePrefixIterator(st, nil)
		for ; it.Valid(); it.Next() {
			out[name+"/"+hex.EncodeToString(it.Key())] = hex.EncodeToString(it.Value())
		}
		it.Close()
	}
	return out
}

// DigestMap hashes a snapshot canonically.
func DigestMap(m map[string]string) string {
	ks := make([]string, 0, len(m))
	for k := range m {
		ks = append(ks, k)
	}
	sort.Strings(ks)
	h := sha256.New()
	for _, k := range ks {
		fmt.Fprintf(h, "%s=%s\n", k, m[k])
	}
	return hex.EncodeToString(h.Sum(nil))[:16]
}

// RawDigest = DigestMap(RawSnapshot(n)).
func RawDigest(n *chain.Node) string { return DigestMap(RawSnapshot(n)) }

// DiffKeys lists the keys whose value differs between two snapshots (sorted, at most max).
func DiffKeys(a, b map[string]string, max int) []string {
	var ks []string
	for k, v := range a {
		if w, ok := b[k]; !ok || w != v {
			ks = append(ks, k)
		}
	}
	for k := range b {
		if _, ok := a[k]; !ok {
			ks = append(ks, k)
		}
	}
	sort.Strings(ks)
	if len(ks) > max {
		ks = ks[:max]
	}
	return ks
}

// StateDigest hashes the canonical abstract state.
func StateDigest(s *chain.State) string {
	h := sha256.New()
	for _, l := range s.Lines() {
		h.Write([]byte(l))
		h.Write([]byte{'\n'})
	}
	return hex.EncodeToString(h.Sum(nil))[:16]
}

// Codes renders DeliverTx results as "code/codespace,..." ("-" when the block is empty).
func Codes(res chain.BlockResult) string {
	if len(res.Txs) == 0 {
		return "-"
	}
	ps := make([]string, len(res.Txs))
	for i, t := range res.Txs {
		cs := t.Codespace
		if cs == "" {
			cs = "ok"
		}
		ps[i] = fmt.Sprintf("%d/%s", t.Code, cs)
	}
	return strings.Join(ps, ",")
}

// ValUpdates renders validator updates canonically.
func ValUpdates(res chain.BlockResult) string {
	if len(res.ValUpdates) == 0 {
		return "-"
	}
	ps := make([]string, len(res.ValUpdates))
	for i, u := range res.ValUpdates {
		ps[i] = fmt.Sprintf("%x:%d", u.PubKey.Data, u.Power)
	}
	sort.Strings(ps)
	return strings.Join(ps, ",")
}

// ChildTimeout bounds one child process (a hung child is reported as a crash of that history).
var ChildTimeout = 240 * time.Second

// Child re-executes this binary with args and returns its stdout lines; stderr is passed back in
// the error when the child fails.
func Child(env []string, args ...string) ([]string, error) {
	cctx, cancel := context.WithTimeout(context.Background(), ChildTimeout)
	defer cancel()
	cmd := exec.CommandContext(cctx, os.Args[0], args...)
	cmd.Env = append(os.Environ(), env...)
	var out, errb bytes.Buffer
	cmd.Stdout, cmd.Stderr = &out, &errb
	err := cmd.Run()
	var lines []string
	sc := bufio.NewScanner(&out)
	sc.Buffer(make([]byte, 1<<20), 1<<26)
	for sc.Scan() {
		lines = append(lines, sc.Text())
	}
	if err != nil {
		tail := errb.String()
		if len(tail) > 1500 {
			tail = tail[len(tail)-1500:]
		}
		return lines, fmt.Errorf("child %v: %v: %s", args, err, tail)
	}
	return lines, nil
}

// Balance reads an account balance from the working state (0 when the account does not exist).
func Balance(n *chain.Node, addr sdk.Address) string {
	acc := n.App.VerifAccountKeeper().GetAccount(n.Ctx(), addr)
	if acc == nil {
		return "0"
	}
	return acc.GetCoins().AmountOf(sdk.DefaultStakeDenom).String()
}
