package chainx

import (
	"crypto/sha256"
	"encoding/hex"
	"fmt"
	"sort"
	"strconv"
	"strings"

	sdk "github.com/pokt-network/pocket-core/types"

	"verifharness/internal/chain"
)

// CtxMonitor evaluates the coherence of the REAL node-wide context cache (sdk.GlobalCtxCache, keyed by
// height): every cached context must be what a fresh load of that height gives — same header, same
// contents of every persistent substore.  Fresh digests of committed heights are memoised.
type CtxMonitor struct{ memo map[string]string }

func NewCtxMonitor() *CtxMonitor { return &CtxMonitor{memo: map[string]string{}} }

func ctxDigest(n *chain.Node, ctx sdk.Context) (d string) {
	defer func() {
		if e := recover(); e != nil {
			d = "panic"
		}
	}()
	hdr := ctx.BlockHeader()
	hh := sha256.Sum256([]byte(hdr.String()))
	sh := sha256.New()
	for _, name := range chain.SortedKeys(n.App.Keys) {
		st := ctx.KVStore(n.App.Keys[name])
		it, _ := sdk.KVStorePrefixIterator(st, nil)
		for ; it.Valid(); it.Next() {
			fmt.Fprintf(sh, "%s/%x=%x\n", name, it.Key(), it.Value())
		}
		it.Close()
	}
	return hex.EncodeToString(hh[:3]) + "." + hex.EncodeToString(sh.Sum(nil))[:6]
}

// Dump returns ("h:hdr.store,…" of the cached contexts, the same for fresh loads).
func (m *CtxMonitor) Dump(n *chain.Node) (cached, fresh string) {
	if sdk.GlobalCtxCache == nil {
		return "-", "-"
	}
	var ks []string
	for _, k := range sdk.GlobalCtxCache.Keys() {
		if s, ok := k.(string); ok {
			ks = append(ks, s)
		}
	}
	sort.Strings(ks)
	var cs, fs []string
	for _, k := range ks {
		h, err := strconv.ParseInt(k, 10, 64)
		if err != nil || h < 1 || h > n.App.LastBlockHeight() {
			continue
		}
		v, ok := sdk.GlobalCtxCache.Peek(k)
		if !ok {
			continue
		}
		c, ok := v.(sdk.Context)
		if !ok {
			continue
		}
		cs = append(cs, k+":"+ctxDigest(n, c))
		f, ok := m.memo[k]
		if !ok {
			// a fresh load that bypasses (and does not disturb) the real cache
			real := sdk.GlobalCtxCache
			sdk.InitCtxCache(1)
			fc, e2 := n.App.NewContext(h)
			sdk.GlobalCtxCache = real
			if e2 != nil {
				f = "err"
			} else if fcc, ok := fc.(sdk.Context); ok {
				f = ctxDigest(n, fcc)
			} else {
				f = "?"
			}
			m.memo[k] = f
		}
		fs = append(fs, k+":"+f)
	}
	if len(cs) == 0 {
		return "-", "-"
	}
	return strings.Join(cs, ","), strings.Join(fs, ",")
}
