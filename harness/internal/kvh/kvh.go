// Package kvh: history generator shared by the C01 (cachekv) and C02 (prefix) harnesses.
//
// It drives a *stack* of real pocket-core stores in-process — dbadapter.Store{MemDB} at the
// bottom, cachekv.Store / prefix.Store wraps above — with a generated history of calls on the top
// store (get/has/set/del/iter/riter, iterators that are opened, left open across writes and then
// advanced/drained), life-cycle calls (wrap, pwrap, write, pop = discard) and direct dumps of the
// root DB.  One trace line per call carries the implementation's answer; lean/Driver/C0{1,2}.lean
// replay the same history on the Lean model and on the map-overlay specification.
package kvh

import (
	"fmt"
	"sort"
	"strings"

	dbm "github.com/tendermint/tm-db"

	"github.com/pokt-network/pocket-core/store/cachekv"
	"github.com/pokt-network/pocket-core/store/dbadapter"
	"github.com/pokt-network/pocket-core/store/prefix"
	stypes "github.com/pokt-network/pocket-core/store/types"
	"verifharness/internal/gen"
)

// Config selects the mix of a history.
type Config struct {
	Seed     uint64
	N        int
	Out      string
	MaxDepth int // maximal number of wraps
	// weights (relative) of the life-cycle operations
	WWrap, WPwrap, WPop, WWrite int
	// weights of reads/writes/iteration
	WGet, WHas, WSet, WDel, WIter, WOpen, WNext, WDrain, WDump, WNil, WPend int
	// weight of a set/delete issued on the store *below* a cache wrap that has not been touched
	// since its creation or its last Write (such a wrap holds nothing, so it must show the change)
	WBelow int
	// every EpochSets sets the whole stack is dropped and a fresh MemDB is used.  MemDB iterators
	// hold a read lock until their feeder goroutine has pushed every item into a 64-slot channel;
	// keeping the root below 64 keys guarantees that a write issued while an iterator is open
	// cannot block.
	EpochSets int
}

type layer struct {
	kind  string // "cache" | "prefix"
	store stypes.KVStore
	cache *cachekv.Store
	pfx   []byte
	fresh bool     // cache wrap untouched since NewStore / Write
	dirty [][]byte // keys set/deleted through this wrap since NewStore / Write
}

type openIter struct {
	id int
	it stypes.Iterator
}

type H struct {
	cfg     Config
	r       *gen.R
	t       *gen.Trace
	db      *dbm.MemDB
	root    dbadapter.Store
	layers  []layer
	iters   []openIter
	nextID  int
	sets    int
	valCtr  int
	pool    [][]byte
	pfxPool [][]byte
	// statistics
	resets, maxDepth, openDuringWrite, opsWithOpen, nonEmptyIters, panics int
	depthHist                                                             [8]int
}

var alphabet = []byte{0x00, 0x01, 0x02, 0xfe, 0xff}

// prefixes the histories like: empty, short, ending in FF, all-FF, and their neighbours
var prefixes = [][]byte{
	{}, {0x00}, {0x01}, {0xff}, {0x01, 0xff}, {0xff, 0xff}, {0x00, 0xff}, {0xfe}, {0xfe, 0xff},
	{0x01, 0xff, 0xff}, {0x01, 0x00}, {0xff, 0xfe}, {0x02}, {0x01, 0xfe},
}

func cp(b []byte) []byte { return append([]byte{}, b...) }

func (h *H) top() stypes.KVStore {
	if len(h.layers) == 0 {
		return h.root
	}
	return h.layers[len(h.layers)-1].store
}

func (h *H) rawKey() []byte {
	n := h.r.Intn(4)
	if h.r.Chance(1, 12) {
		n = 4
	}
	b := make([]byte, n)
	for i := range b {
		b[i] = alphabet[h.r.Intn(len(alphabet))]
	}
	return b
}

// nearPrefix: a key at or next to the boundary of a prefix range.
func (h *H) nearPrefix() []byte {
	p := cp(h.pfxPool[h.r.Intn(len(h.pfxPool))])
	switch h.r.Intn(9) {
	case 0:
		return p
	case 1, 2:
		return append(p, alphabet[h.r.Intn(len(alphabet))])
	case 3:
		return append(p, alphabet[h.r.Intn(len(alphabet))], alphabet[h.r.Intn(len(alphabet))])
	case 4: // the exclusive end bound itself
		e := stypes.PrefixEndBytes(p)
		if e == nil {
			return append(p, 0xff)
		}
		return e
	case 5: // just below the end bound / just above
		e := stypes.PrefixEndBytes(p)
		if e == nil {
			return append(p, 0xff, 0xff)
		}
		return append(e, 0x00)
	case 6: // proper prefix of the prefix
		if len(p) > 0 {
			return p[:len(p)-1]
		}
		return p
	case 7: // just below the prefix
		if len(p) > 0 && p[len(p)-1] > 0 {
			q := cp(p)
			q[len(q)-1]--
			return append(q, 0xff)
		}
		return p
	default:
		return append(p, 0xff)
	}
}

func (h *H) newEpoch() {
	h.pool = h.pool[:0]
	h.pfxPool = h.pfxPool[:0]
	np := 2 + h.r.Intn(3)
	for i := 0; i < np; i++ {
		h.pfxPool = append(h.pfxPool, prefixes[h.r.Intn(len(prefixes))])
	}
	n := 8 + h.r.Intn(10)
	for i := 0; i < n; i++ {
		if h.r.Chance(1, 2) {
			h.pool = append(h.pool, h.nearPrefix())
		} else {
			h.pool = append(h.pool, h.rawKey())
		}
	}
}

// key: mostly from the epoch's pool (so that get/set/del/iter collide), sometimes fresh.
func (h *H) key() []byte {
	switch x := h.r.Intn(10); {
	case x < 6:
		return cp(h.pool[h.r.Intn(len(h.pool))])
	case x < 8:
		return h.nearPrefix()
	default:
		return h.rawKey()
	}
}

// topKey: a key meaningful at the top store — when prefix wraps are on the stack, keys of the pool
// are stripped of the prefixes above them half of the time.
func (h *H) topKey() []byte {
	k := h.key()
	if h.r.Chance(1, 2) {
		for _, l := range h.layers {
			if l.kind == "prefix" && len(l.pfx) <= len(k) && string(k[:len(l.pfx)]) == string(l.pfx) {
				k = k[len(l.pfx):]
			}
		}
	}
	if k == nil {
		k = []byte{}
	}
	return k
}

func (h *H) value() []byte {
	if h.r.Chance(1, 10) {
		return []byte{}
	}
	h.valCtr++
	if h.r.Chance(1, 3) {
		return []byte{byte(h.valCtr)}
	}
	return []byte{byte(h.valCtr >> 8), byte(h.valCtr)}
}

func (h *H) bound() []byte {
	switch x := h.r.Intn(20); {
	case x < 6:
		return nil
	case x < 7:
		return []byte{}
	default:
		return h.topKey()
	}
}

func renderItems(ks, vs [][]byte, truncated bool) string {
	if len(ks) == 0 {
		return "[]"
	}
	var sb strings.Builder
	for i := range ks {
		if i > 0 {
			sb.WriteByte(',')
		}
		sb.WriteString(gen.Hex(ks[i]))
		sb.WriteByte(':')
		sb.WriteString(gen.Hex(vs[i]))
	}
	if truncated {
		sb.WriteString(",...")
	}
	return sb.String()
}

const maxItems = 400

// take up to n items from an iterator (n < 0: all).
func take(it stypes.Iterator, n int) (ks, vs [][]byte, trunc bool) {
	for i := 0; (n < 0 || i < n) && it.Valid(); i++ {
		if len(ks) >= maxItems {
			return ks, vs, true
		}
		ks = append(ks, cp(it.Key()))
		v := it.Value()
		if v != nil {
			v = cp(v)
		}
		vs = append(vs, v)
		it.Next()
	}
	return ks, vs, false
}

func (h *H) guard(f func() string) (res string) {
	defer func() {
		if r := recover(); r != nil {
			h.panics++
			res = "PANIC"
		}
	}()
	return f()
}

func (h *H) closeIters() {
	for _, oi := range h.iters {
		func() {
			defer func() { recover() }()
			oi.it.Close()
		}()
	}
	h.iters = nil
}

func (h *H) reset(emit bool) {
	h.closeIters()
	h.db = dbm.NewMemDB()
	h.root = dbadapter.Store{DB: h.db}
	h.layers = nil
	h.sets = 0
	h.newEpoch()
	if emit {
		h.resets++
		h.t.Line("reset", false, "reset => ok")
	}
}

type wop struct {
	name string
	w    int
}

func (h *H) pick() string {
	c := h.cfg
	ops := []wop{
		{"get", c.WGet}, {"has", c.WHas}, {"set", c.WSet}, {"del", c.WDel}, {"iter", c.WIter}, {"riter", c.WIter},
		{"iopen", c.WOpen}, {"inext", c.WNext}, {"idrain", c.WDrain}, {"rootdump", c.WDump}, {"nil", c.WNil},
		{"wrap", c.WWrap}, {"pwrap", c.WPwrap}, {"pop", c.WPop}, {"write", c.WWrite}, {"pend", c.WPend},
		{"below", c.WBelow},
	}
	tot := 0
	for _, o := range ops {
		tot += o.w
	}
	x := h.r.Intn(tot)
	for _, o := range ops {
		if x < o.w {
			return o.name
		}
		x -= o.w
	}
	return "get"
}

// Run generates cfg.N trace lines.
func Run(cfg Config) {
	h := &H{cfg: cfg, r: gen.New(cfg.Seed), t: gen.NewTrace(cfg.Out)}
	if cfg.EpochSets <= 0 || cfg.EpochSets > 56 {
		h.cfg.EpochSets = 48
	}
	h.reset(false)
	for h.t.Lines < cfg.N {
		h.one()
	}
	h.closeIters()
	dh := map[string]int{}
	for i, v := range h.depthHist {
		if v > 0 {
			dh[fmt.Sprintf("depth%d", i)] = v
		}
	}
	h.t.Close(map[string]interface{}{
		"resets": h.resets, "max_depth": h.maxDepth, "writes_with_iterator_open": h.openDuringWrite,
		"ops_while_iterator_open": h.opsWithOpen, "non_empty_iterations": h.nonEmptyIters,
		"panics_observed": h.panics, "ops_by_depth": dh,
	})
}

func (h *H) stackDesc() string {
	var s []string
	for _, l := range h.layers {
		if l.kind == "cache" {
			s = append(s, "c")
		} else {
			s = append(s, "p"+gen.Hex(l.pfx))
		}
	}
	sort.Strings(nil)
	return strings.Join(s, "/")
}

func (h *H) one() {
	t := h.t
	depth := len(h.layers)
	if depth > h.maxDepth {
		h.maxDepth = depth
	}
	if depth < len(h.depthHist) {
		h.depthHist[depth]++
	}
	if len(h.iters) > 0 {
		h.opsWithOpen++
	}
	if h.sets >= h.cfg.EpochSets {
		h.reset(true)
		return
	}
	op := h.pick()
	top := h.top()
	switch op {
	case "get", "has", "set", "del", "iter", "riter", "iopen", "nil", "write":
		// a call on the top store reaches every wrap below it (cache misses read through, Write
		// sets into the parent): none of them is untouched afterwards
		for i := range h.layers {
			h.layers[i].fresh = false
		}
	}
	switch op {
	case "get":
		k := h.topKey()
		res := h.guard(func() string { v, _ := top.Get(k); return gen.Hex(v) })
		t.Line("get", res != "~" && res != "PANIC", "get %s => %s", gen.Hex(k), res)
	case "has":
		k := h.topKey()
		res := h.guard(func() string { b, _ := top.Has(k); return fmt.Sprint(b) })
		t.Line("has", res == "true", "has %s => %s", gen.Hex(k), res)
	case "set":
		k, v := h.topKey(), h.value()
		h.sets++
		res := h.guard(func() string { _ = top.Set(k, v); return "ok" })
		if depth > 0 {
			h.layers[depth-1].dirty = append(h.layers[depth-1].dirty, k)
		}
		t.Line("set", depth > 0 && res == "ok", "set %s %s => %s", gen.Hex(k), gen.Hex(v), res)
	case "del":
		k := h.topKey()
		res := h.guard(func() string { _ = top.Delete(k); return "ok" })
		if depth > 0 {
			h.layers[depth-1].dirty = append(h.layers[depth-1].dirty, k)
		}
		t.Line("del", depth > 0 && res == "ok", "del %s => %s", gen.Hex(k), res)
	case "iter", "riter":
		s, e := h.bound(), h.bound()
		res := h.guard(func() string {
			var it stypes.Iterator
			if op == "iter" {
				it, _ = top.Iterator(s, e)
			} else {
				it, _ = top.ReverseIterator(s, e)
			}
			ks, vs, tr := take(it, -1)
			it.Close()
			return renderItems(ks, vs, tr)
		})
		if res != "[]" && res != "PANIC" {
			h.nonEmptyIters++
		}
		t.Line(op, res != "[]" && res != "PANIC", "%s %s %s => %s", op, gen.Hex(s), gen.Hex(e), res)
	case "iopen":
		if len(h.iters) >= 3 {
			h.drain(h.r.Intn(len(h.iters)))
			return
		}
		s, e := h.bound(), h.bound()
		if h.r.Chance(1, 2) { // wide ranges are the interesting ones for open iterators
			s, e = nil, nil
		}
		asc := h.r.Chance(1, 2)
		h.nextID++
		id := h.nextID
		res := h.guard(func() string {
			var it stypes.Iterator
			if asc {
				it, _ = top.Iterator(s, e)
			} else {
				it, _ = top.ReverseIterator(s, e)
			}
			h.iters = append(h.iters, openIter{id, it})
			return "ok"
		})
		a := 0
		if asc {
			a = 1
		}
		t.Line("iopen", res == "ok", "iopen %d %d %s %s => %s", id, a, gen.Hex(s), gen.Hex(e), res)
	case "inext":
		if len(h.iters) == 0 {
			return
		}
		oi := h.iters[h.r.Intn(len(h.iters))]
		n := 1 + h.r.Intn(3)
		res := h.guard(func() string { ks, vs, tr := take(oi.it, n); return renderItems(ks, vs, tr) })
		t.Line("inext", res != "[]" && res != "PANIC", "inext %d %d => %s", oi.id, n, res)
	case "idrain":
		if len(h.iters) == 0 {
			return
		}
		h.drain(h.r.Intn(len(h.iters)))
	case "rootdump":
		res := h.guard(func() string {
			it, _ := h.db.Iterator(nil, nil)
			ks, vs, tr := take(it, -1)
			it.Close()
			return renderItems(ks, vs, tr)
		})
		t.Line("rootdump", res != "[]", "rootdump => %s", res)
	case "nil":
		if depth == 0 {
			return
		}
		switch h.r.Intn(4) {
		case 0:
			res := h.guard(func() string { v, _ := top.Get(nil); return gen.Hex(v) })
			t.Line("nilarg", false, "get ~ => %s", res)
		case 1:
			res := h.guard(func() string { b, _ := top.Has(nil); return fmt.Sprint(b) })
			t.Line("nilarg", false, "has ~ => %s", res)
		case 2:
			k := h.topKey()
			res := h.guard(func() string { _ = top.Set(k, nil); return "ok" })
			t.Line("nilarg", false, "set %s ~ => %s", gen.Hex(k), res)
		default:
			res := h.guard(func() string { _ = top.Delete(nil); return "ok" })
			t.Line("nilarg", false, "del ~ => %s", res)
		}
	case "wrap":
		if depth >= h.cfg.MaxDepth {
			return
		}
		c := cachekv.NewStore(top)
		h.layers = append(h.layers, layer{kind: "cache", store: c, cache: c, fresh: true})
		t.Line("wrap", true, "wrap => ok")
	case "pwrap":
		if depth >= h.cfg.MaxDepth {
			return
		}
		var p []byte
		if h.r.Chance(3, 4) {
			p = cp(h.pfxPool[h.r.Intn(len(h.pfxPool))])
		} else {
			p = cp(prefixes[h.r.Intn(len(prefixes))])
		}
		h.layers = append(h.layers, layer{kind: "prefix", store: prefix.NewStore(top, p), pfx: p})
		t.Line("pwrap", true, "pwrap %s => ok", gen.Hex(p))
	case "pop":
		if depth == 0 {
			return
		}
		h.layers = h.layers[:depth-1]
		t.Line("pop", true, "pop => ok")
	case "write":
		if depth == 0 || h.layers[depth-1].kind != "cache" {
			return
		}
		if len(h.iters) > 0 {
			h.openDuringWrite++
		}
		c := h.layers[depth-1].cache
		res := h.guard(func() string { c.Write(); return "ok" })
		h.layers[depth-1].fresh = true
		t.Line("write", true, "write => %s", res)
		// the written wrap must hold nothing any more: change a just-written key underneath it
		// and read it back through the wrap
		if d := h.layers[depth-1].dirty; h.cfg.WBelow > 0 && len(d) > 0 && h.r.Chance(1, 2) {
			k := cp(d[h.r.Intn(len(d))])
			h.below(k)
			res := h.guard(func() string { v, _ := top.Get(k); return gen.Hex(v) })
			h.layers[depth-1].fresh = false
			t.Line("get", res != "~" && res != "PANIC", "get %s => %s", gen.Hex(k), res)
		}
		h.layers[depth-1].dirty = nil
	case "pend":
		p := cp(prefixes[h.r.Intn(len(prefixes))])
		if h.r.Chance(1, 3) {
			p = h.rawKey()
		}
		var ks []string
		saved := h.pfxPool
		h.pfxPool = [][]byte{p}
		for i := 0; i < 6; i++ {
			ks = append(ks, gen.Hex(h.nearPrefix()))
		}
		h.pfxPool = saved
		ks = append(ks, gen.Hex(h.rawKey()))
		res := h.guard(func() string { return gen.Hex(stypes.PrefixEndBytes(p)) })
		t.Line("pend", len(p) > 0, "pend %s %s => %s", gen.Hex(p), strings.Join(ks, ","), res)
	case "below":
		if depth == 0 || h.layers[depth-1].kind != "cache" || !h.layers[depth-1].fresh {
			return
		}
		h.below(h.topKey())
	}
}

// below: set/delete k on the store under the (untouched) top cache wrap.
func (h *H) below(k []byte) {
	t := h.t
	depth := len(h.layers)
	for i := 0; i < depth-1; i++ {
		h.layers[i].fresh = false
	}
	{
		var below stypes.KVStore = h.root
		if depth > 1 {
			below = h.layers[depth-2].store
		}
		if h.r.Chance(2, 3) {
			v := h.value()
			h.sets++
			res := h.guard(func() string { _ = below.Set(k, v); return "ok" })
			t.Line("below", res == "ok", "bset %s %s => %s", gen.Hex(k), gen.Hex(v), res)
		} else {
			res := h.guard(func() string { _ = below.Delete(k); return "ok" })
			t.Line("below", res == "ok", "bdel %s => %s", gen.Hex(k), res)
		}
	}
}

func (h *H) drain(i int) {
	oi := h.iters[i]
	h.iters = append(h.iters[:i:i], h.iters[i+1:]...)
	res := h.guard(func() string {
		ks, vs, tr := take(oi.it, -1)
		oi.it.Close()
		return renderItems(ks, vs, tr)
	})
	h.t.Line("idrain", res != "[]" && res != "PANIC", "idrain %d => %s", oi.id, res)
}
