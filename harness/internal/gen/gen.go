// Package gen: single-PRNG generators and the line/trace writer shared by all harness commands.
package gen

import (
	"bufio"
	"encoding/hex"
	"encoding/json"
	"fmt"
	"os"
	"sort"
)

// R is a splitmix64 PRNG; every random choice of a harness run derives from one R so that a
// (seed, n) pair replays exactly.
type R struct{ s uint64 }

func New(seed uint64) *R {
	// The seed is mixed first, so that seeds s and s+1 give unrelated streams (with a plain
	// s*gamma start state they would be the same stream shifted by one draw).
	z := seed + 0x1234567
	z = (z ^ (z >> 30)) * 0xBF58476D1CE4E5B9
	z = (z ^ (z >> 27)) * 0x94D049BB133111EB
	z ^= z >> 31
	return &R{s: z*0x9E3779B97F4A7C15 + 0x632BE59BD9B4E019}
}

func (r *R) U64() uint64 {
	r.s += 0x9E3779B97F4A7C15
	z := r.s
	z = (z ^ (z >> 30)) * 0xBF58476D1CE4E5B9
	z = (z ^ (z >> 27)) * 0x94D049BB133111EB
	return z ^ (z >> 31)
}

// Intn returns a value in [0,n).
func (r *R) Intn(n int) int {
	if n <= 0 {
		return 0
	}
	return int(r.U64() % uint64(n))
}
func (r *R) Bool() bool          { return r.U64()&1 == 1 }
func (r *R) Chance(p, q int) bool { return r.Intn(q) < p }
func (r *R) Pick(xs []string) string { return xs[r.Intn(len(xs))] }
func (r *R) Bytes(n int) []byte {
	b := make([]byte, n)
	for i := range b {
		b[i] = byte(r.U64())
	}
	return b
}

// Hex renders bytes for the line protocol; the empty slice is "-" and nil is "~".
func Hex(b []byte) string {
	if b == nil {
		return "~"
	}
	if len(b) == 0 {
		return "-"
	}
	return hex.EncodeToString(b)
}

// Trace writes one line per operation (flushed per line so that a crash keeps what was done) and
// collects the distribution statistics that go into the evidence file.
type Trace struct {
	f        *os.File
	w        *bufio.Writer
	Lines    int
	Kinds    map[string]int
	distinct map[string]struct{}
	Nontriv  int
	Samples  []string
}

func NewTrace(path string) *Trace {
	f, err := os.Create(path)
	if err != nil {
		panic(err)
	}
	return &Trace{f: f, w: bufio.NewWriterSize(f, 1<<16), Kinds: map[string]int{}, distinct: map[string]struct{}{}}
}

// Line emits a protocol line. kind is the statistics bucket; nontrivial says whether this case
// reaches a non-error, non-degenerate branch by the command's own stated rule.
func (t *Trace) Line(kind string, nontrivial bool, format string, a ...interface{}) {
	s := fmt.Sprintf(format, a...)
	t.w.WriteString(s)
	t.w.WriteByte('\n')
	t.Lines++
	t.Kinds[kind]++
	if nontrivial {
		if _, ok := t.distinct[s]; !ok {
			t.distinct[s] = struct{}{}
			t.Nontriv++
		}
	}
	if len(t.Samples) < 6 || (t.Lines%997 == 0 && len(t.Samples) < 12) {
		if len(s) > 300 {
			s = s[:300] + "..."
		}
		t.Samples = append(t.Samples, s)
	}
}

func (t *Trace) Flush() { t.w.Flush() }

// Close flushes and writes <path>.stats.json next to the trace.
func (t *Trace) Close(extra map[string]interface{}) {
	t.w.Flush()
	name := t.f.Name()
	t.f.Close()
	kinds := make([]string, 0, len(t.Kinds))
	for k := range t.Kinds {
		kinds = append(kinds, k)
	}
	sort.Strings(kinds)
	st := map[string]interface{}{
		"lines": t.Lines, "distinct_nontrivial": t.Nontriv, "kinds": t.Kinds, "samples": t.Samples,
	}
	for k, v := range extra {
		st[k] = v
	}
	b, _ := json.MarshalIndent(st, "", " ")
	os.WriteFile(name+".stats.json", b, 0o644)
}
