// Package appsh (applications-module harness helpers, owned by the C20/C28/C43 packages):
// block execution with per-phase hooks (a copy of chain.Node.RunBlock cut into BeginBlock /
// DeliverTx / EndBlock+Commit so that the abstract state can be dumped after every transaction
// from the deliver state), and the abstract applications-ledger dump consumed by
// lean/Driver/C20.lean (records, raw index prefixes of the application store decoded, pool,
// balances, parameters).
package appsh

import (
	"encoding/binary"
	"fmt"
	"sort"
	"strings"
	"time"

	sdk "github.com/pokt-network/pocket-core/types"
	appsTypes "github.com/pokt-network/pocket-core/x/apps/types"
	authexp "github.com/pokt-network/pocket-core/x/auth/exported"
	authTypes "github.com/pokt-network/pocket-core/x/auth/types"
	nodesTypes "github.com/pokt-network/pocket-core/x/nodes/types"
	abci "github.com/tendermint/tendermint/abci/types"
	"github.com/tendermint/tendermint/state/txindex"
	tmtypes "github.com/tendermint/tendermint/types"
	"verifharness/internal/chain"
)

// Stepper executes one block in phases on a chain.Node.
type Stepper struct {
	N        *chain.Node
	TotalTxs int64
	hdr      abci.Header
	bid      tmtypes.BlockID
	batch    *txindex.Batch
	idx      uint32
	InBlock  bool
}

// Begin saves the synthetic block (with all its txs, as Tendermint does before ApplyBlock) and
// runs BeginBlock.
func (s *Stepper) Begin(b chain.Block) {
	n := s.N
	h := n.Height + 1
	txs := make(tmtypes.Txs, len(b.Txs))
	for i, t := range b.Txs {
		txs[i] = tmtypes.Tx(t)
	}
	s.TotalTxs += int64(len(txs))
	lastCommit := tmtypes.NewCommit(n.LastBlockID, nil)
	blk := &tmtypes.Block{
		Header: tmtypes.Header{
			ChainID: n.ChainID, Height: h, Time: b.Time.UTC(), NumTxs: int64(len(txs)), TotalTxs: s.TotalTxs,
			LastBlockID: n.LastBlockID, AppHash: n.AppHash, ProposerAddress: []byte(b.Proposer),
			ValidatorsHash: []byte("verif-validators-hash-0000000000"), NextValidatorsHash: []byte("verif-validators-hash-0000000000"),
			ConsensusHash: []byte("verif-consensus-hash-00000000000"),
		},
		Data:       tmtypes.Data{Txs: txs},
		LastCommit: lastCommit,
	}
	blk.Header.DataHash = txs.Hash()
	blk.Header.LastCommitHash = lastCommit.Hash()
	parts := blk.MakePartSet(65536)
	s.bid = tmtypes.BlockID{Hash: blk.Hash(), PartsHeader: parts.Header()}
	n.BlockStore.SaveBlock(blk, parts, tmtypes.NewCommit(s.bid, nil))
	s.hdr = abci.Header{ChainID: n.ChainID, Height: h, Time: b.Time.UTC(), NumTxs: int64(len(txs)), TotalTxs: s.TotalTxs,
		LastBlockId: abci.BlockID{Hash: n.LastBlockID.Hash, PartsHeader: abci.PartSetHeader{Total: int32(n.LastBlockID.PartsHeader.Total), Hash: n.LastBlockID.PartsHeader.Hash}},
		AppHash: n.AppHash, ProposerAddress: []byte(b.Proposer), DataHash: blk.Header.DataHash, LastCommitHash: blk.Header.LastCommitHash,
		ValidatorsHash: blk.Header.ValidatorsHash, NextValidatorsHash: blk.Header.NextValidatorsHash, ConsensusHash: blk.Header.ConsensusHash}
	n.App.BeginBlock(abci.RequestBeginBlock{Hash: s.bid.Hash, Header: s.hdr, LastCommitInfo: abci.LastCommitInfo{Votes: b.Votes}, ByzantineValidators: b.Evidence})
	s.batch = txindex.NewBatch(int64(len(b.Txs)))
	s.idx = 0
	s.InBlock = true
}

// Deliver runs DeliverTx for the next transaction of the block given to Begin.
func (s *Stepper) Deliver(tx []byte) chain.TxResult {
	r := s.N.App.DeliverTx(abci.RequestDeliverTx{Tx: tx})
	_ = s.batch.Add(&tmtypes.TxResult{Height: s.hdr.Height, Index: s.idx, Tx: tmtypes.Tx(tx), Result: r})
	s.idx++
	return chain.TxResult{Code: r.Code, Codespace: r.Codespace, Data: r.Data, Signer: r.Signer, Recipient: r.Recipient, MsgType: r.MessageType}
}

// DeliverCtx is a context on the state of the block in progress.  pocket-core's baseapp runs
// BeginBlock / DeliverTx / EndBlock on a context over the root multistore itself
// (setDeliverState: ctx = NewContext(app.cms, …); deliverState.ms is a separate, unused cache that
// Commit flushes over it), so the block in progress is read — and keeper calls are made — on
// app.Store() with the block header.  (BaseApp.NewContext(false, …) would give the unused cache:
// writes through it are flushed at Commit over whatever the transactions wrote.)
func (s *Stepper) DeliverCtx() sdk.Context {
	return sdk.NewContext(s.N.App.Store(), s.hdr, false, s.N.App.Logger()).WithBlockStore(s.N.BlockStore)
}

// End runs EndBlock and Commit and feeds the tx indexer.
func (s *Stepper) End() []abci.ValidatorUpdate {
	n := s.N
	eb := n.App.EndBlock(abci.RequestEndBlock{Height: s.hdr.Height})
	c := n.App.Commit()
	if err := n.Indexer.AddBatch(s.batch); err != nil {
		panic(err)
	}
	n.Height, n.LastBlockID, n.AppHash, n.Time = s.hdr.Height, s.bid, c.Data, s.hdr.Time
	s.InBlock = false
	return eb.ValidatorUpdates
}

// Ctx is the deliver-state context inside a block and the committed-state context outside.
func (s *Stepper) Ctx() sdk.Context {
	if s.InBlock {
		return s.DeliverCtx()
	}
	return s.N.Ctx()
}

// ---------------------------------------------------------------- abstract state

func timeNs(t time.Time) int64 {
	if t.IsZero() {
		return 0
	}
	return t.UnixNano()
}

func orDash(s string) string {
	if s == "" {
		return "-"
	}
	return s
}

// AppsState renders the applications-ledger abstract state as the words
//
//	t=<block time ns> pool=<n> fee=<n> supply=<n> nstaked=<n>
//	P=<minStake>,<maxChains>,<maxApps>,<baseRelays>,<stability>,<unstakingNs>,<participation 0|1>
//	A=<addr>:<pubkey>:<status>:<jailed 0|1>:<tokens>:<maxRelays>:<unstakingNs>:<chain+chain|->;…   (store order)
//	I=<power>:<addr from key>:<addr value>;…        (raw prefix 0x02, store order)
//	Q=<time ns>:<addr+addr>;…                         (raw prefix 0x03, store order)
//	B=<addr>:<upokt>;…                                (every non-module account, address order)
func AppsState(n *chain.Node, ctx sdk.Context) string {
	cdc := n.App.VerifCodec()
	apk := n.App.VerifAppsKeeper()
	ak := n.App.VerifAccountKeeper()
	st := ctx.KVStore(n.App.Keys[appsTypes.StoreKey])
	var as, is, qs, bs []string
	it, _ := sdk.KVStorePrefixIterator(st, appsTypes.AllApplicationsKey)
	for ; it.Valid(); it.Next() {
		a, err := appsTypes.UnmarshalApplication(cdc, ctx, it.Value())
		if err != nil {
			as = append(as, fmt.Sprintf("%x:BAD", it.Key()[1:]))
			continue
		}
		j := 0
		if a.Jailed {
			j = 1
		}
		mr := a.MaxRelays.String()
		if mr == "<nil>" {
			mr = "0"
		}
		as = append(as, fmt.Sprintf("%x:%s:%d:%d:%s:%s:%d:%s", it.Key()[1:], a.PublicKey.RawString(), int(a.Status), j, a.StakedTokens.String(), mr, timeNs(a.UnstakingCompletionTime), orDash(strings.Join(a.Chains, "+"))))
		if fmt.Sprintf("%x", it.Key()[1:]) != a.Address.String() {
			as[len(as)-1] += ":KEYMISMATCH"
		}
	}
	it.Close()
	it, _ = sdk.KVStorePrefixIterator(st, appsTypes.StakedAppsKey)
	for ; it.Valid(); it.Next() {
		k := it.Key()
		if len(k) != 1+8+sdk.AddrLen {
			is = append(is, fmt.Sprintf("BAD%x", k))
			continue
		}
		p := binary.BigEndian.Uint64(k[1:9])
		ad := make([]byte, sdk.AddrLen)
		for i, b := range k[9:] {
			ad[i] = ^b
		}
		is = append(is, fmt.Sprintf("%d:%x:%x", p, ad, it.Value()))
	}
	it.Close()
	it, _ = sdk.KVStorePrefixIterator(st, appsTypes.UnstakingAppsKey)
	for ; it.Valid(); it.Next() {
		tm, err := sdk.ParseTimeBytes(it.Key()[1:])
		var addrs sdk.Addresses
		err2 := cdc.UnmarshalBinaryLengthPrefixed(it.Value(), &addrs, ctx.BlockHeight())
		if err != nil || err2 != nil {
			qs = append(qs, fmt.Sprintf("BAD%x", it.Key()))
			continue
		}
		var xs []string
		for _, a := range addrs {
			xs = append(xs, a.String())
		}
		qs = append(qs, fmt.Sprintf("%d:%s", timeNs(tm), orDash(strings.Join(xs, "+"))))
	}
	it.Close()
	mod := map[string]string{}
	for _, a := range ak.GetAllAccounts(ctx) {
		amt := a.GetCoins().AmountOf(sdk.DefaultStakeDenom).String()
		if m, ok := a.(authexp.ModuleAccountI); ok {
			mod[m.GetName()] = amt
			continue
		}
		bs = append(bs, fmt.Sprintf("%s:%s", a.GetAddress().String(), amt))
	}
	sort.Strings(bs)
	z := func(s string) string {
		if s == "" {
			return "0"
		}
		return s
	}
	p := apk.GetParams(ctx)
	po := 0
	if p.ParticipationRateOn {
		po = 1
	}
	join := func(xs []string) string { return orDash(strings.Join(xs, ";")) }
	return fmt.Sprintf("t=%d pool=%s fee=%s supply=%s nstaked=%s P=%d,%d,%d,%d,%d,%d,%d A=%s I=%s Q=%s B=%s",
		timeNs(ctx.BlockHeader().Time), z(mod[appsTypes.StakedPoolName]), z(mod[authTypes.FeeCollectorName]),
		ak.GetSupply(ctx).GetTotal().AmountOf(sdk.DefaultStakeDenom).String(), z(mod[nodesTypes.StakedPoolName]),
		p.AppStakeMin, p.MaxChains, p.MaxApplications, p.BaseRelaysPerPOKT, p.StabilityAdjustment, int64(p.UnstakingTime), po,
		join(as), join(is), join(qs), join(bs))
}

// Code renders a DeliverTx result as "<codespace>:<code>" ("ok" for code 0).
func Code(r chain.TxResult) string {
	if r.Code == 0 {
		return "ok"
	}
	return fmt.Sprintf("%s:%d", r.Codespace, r.Code)
}
