// Package wirerw: a protobuf wire-level rewriter.  Given the length-prefixed frame DefaultTxEncoder
// produced for a signed StdTx it produces re-encodings of one named class (padded varints, unknown
// fields, duplicated scalars, reordered fields, ...).  Used by cmd/c38 (byte-level half of C16) and
// meant to be imported by the chain-level harness so that exactly the same byte strings are delivered.
//
//	for _, c := range wirerw.Classes() { out, path, ok := wirerw.Rewrite(r, c.Name, frame) ... }
//
// Expect is "same" (re-encoding of the same content), "changed" (decodes to other content) or
// "reject" (the decoder must refuse it).
package wirerw

import (
	"encoding/binary"
	"fmt"
	"math/big"
	"sort"
	"strings"

	"verifharness/internal/gen"
)

// Class describes one rewrite class.
type Class struct{ Name, Expect string }

// Classes lists all rewrite classes (stable order).
func Classes() []Class {
	var out []Class
	for _, rw := range rewrites {
		out = append(out, Class{rw.class, rw.expect})
	}
	return append(out, Class{"length-prefix-padded", "same"}, Class{"length-prefix-overflow", "reject"}, Class{"bigint-text-alias", "same"})
}

// Rewrite applies the class to a length-prefixed frame.  path tells where it was applied ("top", "1" the
// Any, "1.2" the packed message, "2" the first fee coin, "3" the signature, "frame" the length prefix);
// ok is false when the class was not applicable to this transaction (out == frame).
func Rewrite(r *gen.R, class string, frame []byte) (out []byte, path string, ok bool) {
	_, plen := binary.Uvarint(frame)
	if plen <= 0 {
		return frame, "", false
	}
	body := frame[plen:]
	reframe := func(nb []byte) []byte { return append(binary.AppendUvarint(nil, uint64(len(nb))), nb...) }
	switch class {
	case "length-prefix-padded":
		total := plen + 1 + r.Intn(10-plen)
		return append(putVarint(uint64(len(body)), total, 0), body...), "frame", true
	case "length-prefix-overflow":
		return append(putVarint(uint64(len(body)), 10, 2), body...), "frame", true
	case "bigint-text-alias":
		p := []string{"2", "1.2"}[r.Intn(2)]
		nb := try2(func() []byte {
			return at(body, parsePath(p), func(ts []wtok) []wtok {
				ts = cp(ts)
				for j := range ts {
					want := uint64(3) // amount / value of MsgSend, MsgDAOTransfer, apps.MsgStake
					if p == "2" {
						want = 2 // Coin.amount
					}
					if ts[j].wt == 2 && ts[j].num == want && isDecimal(ts[j].data) {
						al := BigTextAliases(string(ts[j].data))
						if len(al) > 0 {
							ts[j].data = []byte(al[r.Intn(len(al))])
							return ts
						}
					}
				}
				return ts
			})
		})
		if nb == nil || string(nb) == string(body) {
			return frame, p, false
		}
		return reframe(nb), p, true
	}
	for _, rw := range rewrites {
		if rw.class != class {
			continue
		}
		p := c16paths[r.Intn(len(c16paths))]
		curPath = p
		nb := try2(func() []byte { return at(body, parsePath(p), func(ts []wtok) []wtok { return rw.apply(r, ts) }) })
		if nb == nil || string(nb) == string(body) {
			p = ""
			curPath = p
			nb = at(body, nil, func(ts []wtok) []wtok { return rw.apply(r, ts) })
		}
		out = reframe(nb)
		if class == "truncated" {
			out = out[:len(out)-1-r.Intn(3)]
		}
		if p == "" {
			p = "top"
		}
		return out, p, string(out) != string(frame)
	}
	panic("wirerw: unknown class " + class)
}

var _ = fmt.Sprint

// ---- generic wire tokens -------------------------------------------------------------------

type bigIntT = big.Int

type wtok struct {
	num  uint64 // field number as it will be written (may carry bits >= 2^32)
	wt   int
	val  uint64 // wire type 0
	data []byte // wire types 1, 2, 5 (and raw group body for 3)
	// encoding choices (0 = minimal)
	tagLen, lenLen, valLen int
	valJunk                byte // extra high bits in the 10th byte of a 10-byte value varint
}

func putVarint(x uint64, total int, junk byte) []byte {
	b := binary.AppendUvarint(nil, x)
	if total <= len(b) {
		return b
	}
	// pad with continuation bytes: set the continuation bit on the last byte, append 0x80.. 0x00
	b[len(b)-1] |= 0x80
	for len(b) < total-1 {
		b = append(b, 0x80)
	}
	last := byte(0)
	if total == 10 {
		last = junk &^ 0x80
	}
	return append(b, last)
}

func (t wtok) bytes() []byte {
	out := putVarint(t.num<<3|uint64(t.wt), t.tagLen, 0)
	switch t.wt {
	case 0:
		out = append(out, putVarint(t.val, t.valLen, t.valJunk)...)
	case 2:
		out = append(out, putVarint(uint64(len(t.data)), t.lenLen, 0)...)
		out = append(out, t.data...)
	default:
		out = append(out, t.data...)
	}
	return out
}

func serialize(ts []wtok) []byte {
	var out []byte
	for _, t := range ts {
		out = append(out, t.bytes()...)
	}
	return out
}

// parseWire reads canonical encoder output (only wire types 0 and 2 occur there).
func parseWire(b []byte) []wtok {
	var ts []wtok
	for len(b) > 0 {
		tag, n := binary.Uvarint(b)
		if n <= 0 {
			panic("parseWire: bad tag")
		}
		b = b[n:]
		t := wtok{num: tag >> 3, wt: int(tag & 7)}
		switch t.wt {
		case 0:
			v, m := binary.Uvarint(b)
			if m <= 0 {
				panic("parseWire: bad varint")
			}
			t.val = v
			b = b[m:]
		case 2:
			l, m := binary.Uvarint(b)
			if m <= 0 || uint64(len(b)-m) < l {
				panic("parseWire: bad length")
			}
			t.data = append([]byte(nil), b[m:m+int(l)]...)
			b = b[m+int(l):]
		default:
			panic("parseWire: unexpected wire type in encoder output")
		}
		ts = append(ts, t)
	}
	return ts
}

// at applies f to the token list of the nested message at path (field numbers, first occurrence).
func at(b []byte, path []uint64, f func([]wtok) []wtok) []byte {
	ts := parseWire(b)
	if len(path) == 0 {
		return serialize(f(ts))
	}
	for i := range ts {
		if ts[i].num == path[0] && ts[i].wt == 2 {
			ts[i].data = at(ts[i].data, path[1:], f)
			return serialize(ts)
		}
	}
	return b // path absent in this tx: no change
}

// ---- rewrite classes -------------------------------------------------------------------------

type rewrite struct {
	class string
	// semantic expectation used only for statistics: "same" (re-encoding of the same content),
	// "changed" (decodes but to other content) or "reject"
	expect string
	apply  func(r *gen.R, ts []wtok) []wtok
}

func pickIdx(r *gen.R, ts []wtok, ok func(wtok) bool) int {
	var idx []int
	for i, t := range ts {
		if ok(t) {
			idx = append(idx, i)
		}
	}
	if len(idx) == 0 {
		return -1
	}
	return idx[r.Intn(len(idx))]
}

func cp(ts []wtok) []wtok { return append([]wtok(nil), ts...) }

func insertAt(ts []wtok, i int, t wtok) []wtok {
	out := append([]wtok(nil), ts[:i]...)
	out = append(out, t)
	return append(out, ts[i:]...)
}

func unknownTok(r *gen.R, kind int) wtok {
	num := []uint64{15, 16, 1000, 536870911}[r.Intn(4)]
	switch kind {
	case 0:
		return wtok{num: num, wt: 0, val: r.U64()}
	case 1:
		return wtok{num: num, wt: 1, data: r.Bytes(8)}
	case 2:
		return wtok{num: num, wt: 2, data: r.Bytes(r.Intn(6))}
	case 5:
		return wtok{num: num, wt: 5, data: r.Bytes(4)}
	default: // group: start tag, one inner varint field, end tag
		inner := wtok{num: 1, wt: 0, val: 7}.bytes()
		inner = append(inner, putVarint(num<<3|4, 0, 0)...)
		return wtok{num: num, wt: 3, data: inner}
	}
}

var rewrites = []rewrite{
	{"tag-padded", "same", func(r *gen.R, ts []wtok) []wtok {
		ts = cp(ts)
		if len(ts) == 0 {
			return ts
		}
		i := r.Intn(len(ts))
		ts[i].tagLen = 2 + r.Intn(9)
		return ts
	}},
	{"length-padded", "same", func(r *gen.R, ts []wtok) []wtok {
		ts = cp(ts)
		if i := pickIdx(r, ts, func(t wtok) bool { return t.wt == 2 }); i >= 0 {
			ts[i].lenLen = 2 + r.Intn(9)
		}
		return ts
	}},
	{"varint-padded", "same", func(r *gen.R, ts []wtok) []wtok {
		ts = cp(ts)
		if i := pickIdx(r, ts, func(t wtok) bool { return t.wt == 0 }); i >= 0 {
			ts[i].valLen = 2 + r.Intn(9)
		}
		return ts
	}},
	{"varint-10th-byte-junk", "same", func(r *gen.R, ts []wtok) []wtok {
		// bits above 2^64 in the 10th byte are dropped by the generated decoder
		ts = cp(ts)
		if i := pickIdx(r, ts, func(t wtok) bool { return t.wt == 0 && t.val < 1<<63 }); i >= 0 {
			ts[i].valLen = 10
			ts[i].valJunk = byte(2 + 2*r.Intn(63))
		}
		return ts
	}},
	{"tag-high-bits", "same", func(r *gen.R, ts []wtok) []wtok {
		// fieldNum := int32(wire >> 3): bits 32.. of the field number are discarded
		ts = cp(ts)
		if len(ts) == 0 {
			return ts
		}
		i := r.Intn(len(ts))
		ts[i].num |= uint64(1+r.Intn(1<<20)) << 32
		return ts
	}},
	{"unknown-varint-field", "same", func(r *gen.R, ts []wtok) []wtok {
		return insertAt(ts, r.Intn(len(ts)+1), unknownTok(r, 0))
	}},
	{"unknown-bytes-field", "same", func(r *gen.R, ts []wtok) []wtok {
		return insertAt(ts, r.Intn(len(ts)+1), unknownTok(r, 2))
	}},
	{"unknown-fixed64-field", "same", func(r *gen.R, ts []wtok) []wtok {
		return insertAt(ts, r.Intn(len(ts)+1), unknownTok(r, 1))
	}},
	{"unknown-fixed32-field", "same", func(r *gen.R, ts []wtok) []wtok {
		return insertAt(ts, r.Intn(len(ts)+1), unknownTok(r, 5))
	}},
	{"unknown-group-field", "same", func(r *gen.R, ts []wtok) []wtok {
		return insertAt(ts, r.Intn(len(ts)+1), unknownTok(r, 3))
	}},
	{"duplicated-scalar-last-wins", "same", func(r *gen.R, ts []wtok) []wtok {
		// an earlier occurrence with another value is overwritten by the original one
		i := pickIdx(r, ts, func(t wtok) bool { return t.wt == 0 })
		if i < 0 {
			return ts
		}
		d := ts[i]
		d.val = r.U64()
		return insertAt(ts, r.Intn(i+1), d)
	}},
	{"duplicated-scalar-other-last", "changed", func(r *gen.R, ts []wtok) []wtok {
		i := pickIdx(r, ts, func(t wtok) bool { return t.wt == 0 })
		if i < 0 {
			return ts
		}
		d := ts[i]
		d.val = ts[i].val + 1 + uint64(r.Intn(1000))
		return insertAt(ts, i+1+r.Intn(len(ts)-i), d)
	}},
	{"fields-reordered", "same", func(r *gen.R, ts []wtok) []wtok {
		// permute the fields but keep the relative order of occurrences of the same number
		ts = cp(ts)
		if len(ts) < 2 {
			return ts
		}
		sort.SliceStable(ts, func(a, b int) bool { return ts[a].num > ts[b].num })
		return ts
	}},
	{"explicit-default-scalar", "same", func(r *gen.R, ts []wtok) []wtok {
		// proto3 default written explicitly for an absent scalar field (entropy = 0 / status = 0 ...)
		present := map[uint64]bool{}
		for _, t := range ts {
			present[t.num] = true
		}
		for n := uint64(1); n <= 6; n++ {
			if !present[n] {
				return insertAt(ts, r.Intn(len(ts)+1), wtok{num: n, wt: 0, val: 0})
			}
		}
		return ts
	}},
	{"explicit-empty-bytes", "same", func(r *gen.R, ts []wtok) []wtok {
		present := map[uint64]bool{}
		for _, t := range ts {
			present[t.num] = true
		}
		for n := uint64(1); n <= 6; n++ {
			if !present[n] {
				return insertAt(ts, r.Intn(len(ts)+1), wtok{num: n, wt: 2})
			}
		}
		return ts
	}},
	{"embedded-message-split", "same", func(r *gen.R, ts []wtok) []wtok {
		// a non-repeated embedded message written as two occurrences that the decoder merges
		// (only fields that are embedded messages or plain byte strings in every message type used
		// here: splitting a public-key field would be rejected by crypto.NewPublicKeyBz, which the
		// wire model does not cover)
		i := pickIdx(r, ts, func(t wtok) bool {
			allowed := (curPath == "" && (t.num == 1 || t.num == 3)) || (curPath == "1.2" && t.num == 2)
			return allowed && t.wt == 2 && len(t.data) >= 4 && splittable(t.data)
		})
		if i < 0 {
			return ts
		}
		inner := parseWire(ts[i].data)
		k := 1 + r.Intn(len(inner)-1)
		a, b := ts[i], ts[i]
		a.data, b.data = serialize(inner[:k]), serialize(inner[k:])
		out := insertAt(ts, i+1, b)
		out[i] = a
		return out
	}},
	{"wiretype-6", "reject", func(r *gen.R, ts []wtok) []wtok {
		return insertAt(ts, r.Intn(len(ts)+1), wtok{num: 15, wt: 6})
	}},
	{"end-group-at-top", "reject", func(r *gen.R, ts []wtok) []wtok {
		return insertAt(ts, r.Intn(len(ts)+1), wtok{num: 15, wt: 4})
	}},
	{"field-number-zero", "reject", func(r *gen.R, ts []wtok) []wtok {
		return insertAt(ts, r.Intn(len(ts)+1), wtok{num: 0, wt: 0, val: 1})
	}},
	{"varint-11-bytes", "reject", func(r *gen.R, ts []wtok) []wtok {
		ts = cp(ts)
		if i := pickIdx(r, ts, func(t wtok) bool { return t.wt == 0 }); i >= 0 {
			ts[i].valLen = 11
		}
		return ts
	}},
	{"truncated", "reject", func(r *gen.R, ts []wtok) []wtok { return ts }}, // the frame is cut short by the caller
}

// splittable: data parses as a message with at least two fields
func splittable(b []byte) (ok bool) {
	defer func() {
		if recover() != nil {
			ok = false
		}
	}()
	return len(parseWire(b)) >= 2
}

// BigTextAliases: big.Int.UnmarshalText parses with base 0 (prefixes, underscores, sign).
func BigTextAliases(dec string) []string {
	neg := strings.HasPrefix(dec, "-")
	abs := strings.TrimPrefix(dec, "-")
	var out []string
	n, ok := new(bigIntT).SetString(abs, 10)
	if !ok {
		return nil
	}
	sign := ""
	if neg {
		sign = "-"
	} else {
		out = append(out, "+"+abs)
	}
	out = append(out, sign+"0x"+n.Text(16), sign+"0X"+strings.ToUpper(n.Text(16)), sign+"0b"+n.Text(2), sign+"0o"+n.Text(8), sign+"0"+n.Text(8))
	if len(abs) >= 2 {
		out = append(out, sign+abs[:1]+"_"+abs[1:])
	}
	if abs == "0" {
		out = append(out, "-0", "00", "0_0")
	}
	return out
}

var curPath string // the path the current rewrite is applied at

var c16paths = []string{"", "", "1", "1.2", "1.2", "2", "3"}

func parsePath(p string) []uint64 {
	if p == "" {
		return nil
	}
	var out []uint64
	for _, s := range strings.Split(p, ".") {
		var n uint64
		fmt.Sscan(s, &n)
		out = append(out, n)
	}
	return out
}
func try2(f func() []byte) (b []byte) {
	defer func() {
		if recover() != nil {
			b = nil
		}
	}()
	return f()
}

func isDecimal(b []byte) bool {
	if len(b) == 0 || len(b) > 80 {
		return false
	}
	for i, c := range b {
		if c == '-' && i == 0 && len(b) > 1 {
			continue
		}
		if c < '0' || c > '9' {
			return false
		}
	}
	return true
}
