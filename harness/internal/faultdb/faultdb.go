// Package faultdb wraps a tm-db DB and records every write that reaches it: each direct
// Set/SetSync/Delete/DeleteSync and each Batch.Write/WriteSync is one *event* (one atomic write, the
// granularity at which a crash can separate writes).  A hook runs after every event so that the
// caller can snapshot the underlying DB ("the disk if the process died right here").
package faultdb

import (
	"encoding/hex"
	"strings"

	dbm "github.com/tendermint/tm-db"
)

// Op is one key operation inside an event.
type Op struct {
	Del bool
	Key []byte
	Val []byte
}

// Event is one atomic write.
type Event struct {
	Kind string // "set", "delete", "batch"
	Sync bool
	Ops  []Op
}

// Render: ops joined by ',' — s<key>=<val> / d<key> (hex; empty value "-").
func (e Event) Render() string {
	if len(e.Ops) == 0 {
		return "B:"
	}
	parts := make([]string, len(e.Ops))
	for i, o := range e.Ops {
		if o.Del {
			parts[i] = "d" + hex.EncodeToString(o.Key)
		} else {
			v := hex.EncodeToString(o.Val)
			if v == "" {
				v = "-"
			}
			parts[i] = "s" + hex.EncodeToString(o.Key) + "=" + v
		}
	}
	return "B:" + strings.Join(parts, ",")
}

// DB is the recording wrapper.
type DB struct {
	dbm.DB
	Recording bool
	Events    []Event
	After     func(idx int, ev Event) // called after the event has been applied to the inner DB
}

func Wrap(inner dbm.DB) *DB { return &DB{DB: inner} }

// Start begins a fresh recording; Stop ends it and returns the events.
func (d *DB) Start() { d.Events = nil; d.Recording = true }
func (d *DB) Stop() []Event {
	d.Recording = false
	ev := d.Events
	d.Events = nil
	return ev
}

func cp(b []byte) []byte {
	if b == nil {
		return nil
	}
	return append([]byte{}, b...)
}

func (d *DB) record(ev Event) {
	if !d.Recording {
		return
	}
	d.Events = append(d.Events, ev)
	if d.After != nil {
		d.After(len(d.Events)-1, ev)
	}
}

func (d *DB) Set(k, v []byte) error {
	err := d.DB.Set(k, v)
	d.record(Event{Kind: "set", Ops: []Op{{Key: cp(k), Val: cp(v)}}})
	return err
}
func (d *DB) SetSync(k, v []byte) error {
	err := d.DB.SetSync(k, v)
	d.record(Event{Kind: "set", Sync: true, Ops: []Op{{Key: cp(k), Val: cp(v)}}})
	return err
}
func (d *DB) Delete(k []byte) error {
	err := d.DB.Delete(k)
	d.record(Event{Kind: "delete", Ops: []Op{{Del: true, Key: cp(k)}}})
	return err
}
func (d *DB) DeleteSync(k []byte) error {
	err := d.DB.DeleteSync(k)
	d.record(Event{Kind: "delete", Sync: true, Ops: []Op{{Del: true, Key: cp(k)}}})
	return err
}

type batch struct {
	d     *DB
	inner dbm.Batch
	ops   []Op
}

func (d *DB) NewBatch() dbm.Batch { return &batch{d: d, inner: d.DB.NewBatch()} }

func (b *batch) Set(k, v []byte) {
	b.ops = append(b.ops, Op{Key: cp(k), Val: cp(v)})
	b.inner.Set(k, v)
}
func (b *batch) Delete(k []byte) {
	b.ops = append(b.ops, Op{Del: true, Key: cp(k)})
	b.inner.Delete(k)
}
func (b *batch) Write() error {
	err := b.inner.Write()
	b.d.record(Event{Kind: "batch", Ops: b.ops})
	b.ops = nil
	return err
}
func (b *batch) WriteSync() error {
	err := b.inner.WriteSync()
	b.d.record(Event{Kind: "batch", Sync: true, Ops: b.ops})
	b.ops = nil
	return err
}
func (b *batch) Close() { b.inner.Close() }
