#!/usr/bin/env python3
"""Shared machinery for /verif/bin/check.

A property's check module (checks/Cnn.py) describes, with the helpers below:
  * which Lean module holds its theorems          -> ctx.lean_proofs("Props.Cnn")
  * which regenerated source facts it relies on   -> ctx.facts([...])
  * which correspondence streams tie the model to /repo's working tree
                                                  -> ctx.stream(name, cmd, driver, n=..., args=[...])
Everything is rebuilt from /repo's current working tree on every run (go build with the harness
module's `replace => /repo`, build tag `verif`).
"""
import hashlib
import json
import os
import re
import shutil
import subprocess
import sys
import time

VERIF = os.path.dirname(os.path.dirname(os.path.abspath(__file__)))
LEAN = os.path.join(VERIF, "lean")
HARNESS = os.path.join(VERIF, "harness")
REPO = os.environ.get("VERIF_REPO", "/repo")
OUT = os.path.join(VERIF, "out")
ALLOWED_AXIOMS = {"propext", "Classical.choice", "Quot.sound"}
FORBIDDEN = [r"\bsorry\b", r"\badmit\b", r"^\s*axiom\s", r"\bnative_decide\b", r"\bbv_decide\b",
             r"\bimplemented_by\b", r"\bunsafe\s", r"maxHeartbeats\s+0\b", r"\bextern\b"]

GOENV = dict(os.environ, GOFLAGS="-mod=mod", GOPROXY="off", GOSUMDB="off", GOTOOLCHAIN="local",
             CGO_ENABLED=os.environ.get("CGO_ENABLED", "0"))


def sh(cmd, cwd=None, env=None, timeout=None, stdin=None, stdout=None):
    """Run a command, return (rc, combined output)."""
    try:
        p = subprocess.run(cmd, cwd=cwd, env=env, timeout=timeout, stdin=stdin,
                           stdout=stdout if stdout is not None else subprocess.PIPE,
                           stderr=subprocess.STDOUT if stdout is None else subprocess.PIPE, text=True)
        out = p.stdout if stdout is None else (p.stderr or "")
        return p.returncode, out or ""
    except subprocess.TimeoutExpired as e:
        return 124, "TIMEOUT after %ss: %s" % (timeout, " ".join(map(str, cmd)))


def strip_lean_comments(src):
    # remove nested block comments and line comments (good enough for token grep)
    out, i, depth = [], 0, 0
    while i < len(src):
        if src.startswith("/-", i):
            depth += 1
            i += 2
        elif depth and src.startswith("-/", i):
            depth -= 1
            i += 2
        elif depth:
            i += 1
        elif src.startswith("--", i):
            j = src.find("\n", i)
            i = len(src) if j < 0 else j
        else:
            out.append(src[i])
            i += 1
    return "".join(out)


def lean_local_imports(module, seen=None):
    """Transitive closure of local (PocketModel/Proofs/Props) imports of a module -> file paths."""
    seen = seen if seen is not None else {}
    path = os.path.join(LEAN, module.replace(".", "/") + ".lean")
    if module in seen or not os.path.exists(path):
        return seen
    seen[module] = path
    for m in re.findall(r"^\s*(?:public\s+)?import\s+([A-Za-z0-9_.]+)", open(path).read(), re.M):
        if m.split(".")[0] in ("PocketModel", "Proofs", "Props"):
            lean_local_imports(m, seen)
    return seen


class Ctx:
    def __init__(self, pid, tier, seed, replay=None):
        self.pid, self.tier, self.seed, self.replay = pid, tier, seed, replay
        self.t0 = time.time()
        self.alt = os.path.realpath(REPO) != "/repo"   # development aid: checking a scratch worktree
        self.alt_tag = hashlib.sha1(REPO.encode()).hexdigest()[:8] if self.alt else ""
        # one scratch directory per run (tier + process id): two runs of the same check never share files
        self.outdir = os.path.join(OUT, pid + ("-" + self.alt_tag if self.alt else ""), f"{tier}-p{os.getpid()}")
        os.makedirs(self.outdir, exist_ok=True)
        os.makedirs(os.path.join(OUT, "bin"), exist_ok=True)
        self.obligations = []      # [{name, kind, ok, detail}]
        self.failures = []         # [{kind, sig, detail, stream, line_no, line}]
        self.known_seen = {}
        self.evaluations = 0
        self.distinct_nontrivial = 0
        self.samples = []
        self.kinds = {}
        self.rules = []
        self.trusted = ["Lean 4.33.0 kernel", "correspondence harness (Go generators, canonicalisation, Lean driver parser)"]
        self.assumptions = []
        self.axioms = {}
        self.checker_cmds = []
        self.notes = []
        self.streams = []
        self.searched = False
        self.thorough = tier == "thorough"

    # ---------------------------------------------------------------- proofs
    def lean_proofs(self, module, namespace=None, leanchecker=None):
        """Build the property's theorem module, grep for forbidden constructs, audit axioms."""
        namespace = namespace or self.pid
        files = lean_local_imports(module)
        cmd = ["lake", "build", module]
        self.checker_cmds.append("cd lean && " + " ".join(cmd))
        rc, out = sh(cmd, cwd=LEAN, timeout=3000)
        src = open(files[module]).read() if module in files else ""
        body = strip_lean_comments(src)
        thms = re.findall(r"^\s*(?:private\s+|protected\s+)?theorem\s+([^\s(:{\[]+)", body, re.M)
        if rc != 0:
            tail = "\n".join([l for l in out.splitlines() if not l.startswith("trace:")][-30:])
            for t in thms or ["<module>"]:
                self.obligations.append(dict(name=f"{namespace}.{t}", kind="theorem", ok=False, detail="lake build failed"))
            self.fail("proof", f"build:{module}", f"lake build {module} failed:\n{tail}")
            return False
        # forbidden tokens in the module and everything local it imports
        bad = []
        for m, p in files.items():
            txt = strip_lean_comments(open(p).read())
            for pat in FORBIDDEN:
                for hit in re.finditer(pat, txt, re.M):
                    bad.append(f"{m}: {hit.group(0).strip()}")
        if bad:
            self.fail("proof", f"forbidden:{module}", "forbidden construct(s): " + "; ".join(bad[:10]))
        # axiom audit
        audit = os.path.join(self.outdir, "Audit.lean")
        with open(audit, "w") as f:
            f.write(f"import {module}\n")
            for t in thms:
                f.write(f"#print axioms {namespace}.{t}\n")
        acmd = ["lake", "env", "lean", audit]
        self.checker_cmds.append("cd lean && lake env lean <Audit.lean: #print axioms on every theorem of %s>" % module)
        rc, out = sh(acmd, cwd=LEAN, timeout=1200)
        seen = {}
        for m in re.finditer(r"'([^']+)' (?:depends on axioms: \[([^\]]*)\]|does not depend on any axioms)", out.replace("\n ", " ").replace("\n", " ")):
            seen[m.group(1)] = [a.strip() for a in (m.group(2) or "").split(",") if a.strip()]
        ok_all = rc == 0
        for t in thms:
            full = f"{namespace}.{t}"
            ax = seen.get(full)
            ok = ax is not None and set(ax) <= ALLOWED_AXIOMS
            self.axioms[full] = ax
            self.obligations.append(dict(name=full, kind="theorem", ok=ok,
                                         detail="axioms: " + (", ".join(ax) if ax else "none") if ax is not None else "not found by #print axioms"))
            if not ok:
                ok_all = False
                self.fail("proof", f"axioms:{full}", f"{full}: axioms {ax}; audit output: {out[-400:]}")
        if not thms:
            self.fail("proof", f"empty:{module}", "no theorems found")
        if (leanchecker if leanchecker is not None else self.thorough):
            c = ["lake", "env", "leanchecker", module]
            self.checker_cmds.append("cd lean && " + " ".join(c))
            rc, out = sh(c, cwd=LEAN, timeout=3000)
            self.obligations.append(dict(name=f"leanchecker {module}", kind="recheck", ok=rc == 0, detail=out[-200:]))
            if rc != 0:
                self.fail("proof", f"leanchecker:{module}", out[-600:])
        self.trusted.append("axioms used: " + ", ".join(sorted({a for v in self.axioms.values() if v for a in v})) if any(self.axioms.values()) else "axioms used: none")
        return ok_all

    # ---------------------------------------------------------------- go
    def go_build(self, cmd, race=False):
        src_sum, dst_sum = os.path.join(REPO, "go.sum"), os.path.join(HARNESS, "go.sum")
        try:
            if open(src_sum).read() != (open(dst_sum).read() if os.path.exists(dst_sum) else ""):
                have = set(open(dst_sum).read().splitlines()) if os.path.exists(dst_sum) else set()
                need = [l for l in open(src_sum).read().splitlines() if l not in have]
                if need:
                    with open(dst_sum, "a") as f:
                        f.write("\n".join(need) + "\n")
        except OSError:
            pass
        # one binary per run (it lives in the run's scratch directory): neither checks sharing a harness
        # command nor two runs of the same check race on it
        binp = os.path.join(self.outdir, "bin-" + cmd + ("-race" if race else ""))
        if os.path.exists(binp):
            os.remove(binp)  # never run a stale binary
        env = dict(GOENV)
        args = ["go", "build", "-tags", "verif"]
        if os.path.realpath(REPO) != "/repo":
            # development aid: check a scratch worktree (VERIF_REPO=/tmp/wt) without touching /repo
            tag = hashlib.sha1(REPO.encode()).hexdigest()[:8]
            alt = os.path.join(OUT, f"alt-{tag}.mod")
            mod = open(os.path.join(HARNESS, "go.mod")).read().replace("=> /repo", "=> " + os.path.realpath(REPO))
            open(alt, "w").write(mod)
            shutil.copy(dst_sum, os.path.join(OUT, f"alt-{tag}.sum"))
            args += ["-modfile", alt]
        if race:
            args.append("-race")
            env["CGO_ENABLED"] = "1"
        args += ["-o", binp, "./cmd/" + cmd]
        rc, out = sh(args, cwd=HARNESS, env=env, timeout=1800)
        if rc != 0 or not os.path.exists(binp):
            self.fail("build", f"gobuild:{cmd}", f"go build ./cmd/{cmd} failed against {REPO} working tree:\n{out[-1500:]}")
            return None
        return binp

    # ---------------------------------------------------------------- streams
    def stream(self, name, cmd, driver, n, args=(), seed=None, timeout=900, race=False, drv_timeout=900, count=True):
        """One correspondence stream: impl trace -> Lean driver -> verdicts."""
        seed = self.seed if seed is None else seed
        binp = self.go_build(cmd, race=race) if (cmd, race) not in getattr(self, "_built", {}) else self._built[(cmd, race)]
        if not hasattr(self, "_built"):
            self._built = {}
        self._built[(cmd, race)] = binp
        ob = dict(name=f"correspondence:{name}", kind="correspondence", ok=False, detail="")
        self.obligations.append(ob)
        if binp is None:
            ob["detail"] = "harness build failed"
            return None
        trace = os.path.join(self.outdir, f"{name}.{seed}.trace")
        verdicts = trace + ".verdict"
        for p in (trace, verdicts, trace + ".stats.json"):
            if os.path.exists(p):
                os.remove(p)
        gcmd = [binp, "-seed", str(seed), "-n", str(n), "-out", trace] + [str(a) for a in args]
        env = dict(os.environ, GOMEMLIMIT="8GiB")
        rc, out = sh(gcmd, cwd=self.outdir, env=env, timeout=timeout)
        if rc != 0:
            self.fail("crash", f"harness:{name}", f"{' '.join(gcmd)} exited {rc}:\n{out[-1500:]}", stream=name, seed=seed, n=n, cmd=cmd, args=list(args))
            ob["detail"] = "harness crashed"
            return None
        # the driver is interpreted: the compiled modules it imports must be up to date
        dsrc = open(os.path.join(LEAN, driver)).read()
        dmods = [m for m in re.findall(r"^\s*import\s+([A-Za-z0-9_.]+)", dsrc, re.M) if m.split(".")[0] in ("PocketModel", "Proofs", "Props")]
        if dmods:
            rc, out = sh(["lake", "build"] + dmods, cwd=LEAN, timeout=3000)
            if rc != 0:
                tail = "\n".join([l for l in out.splitlines() if not l.startswith("trace:")][-20:])
                self.fail("proof", f"build-driver:{driver}", f"lake build of driver imports failed:\n{tail}", stream=name, seed=seed, n=n, cmd=cmd, args=list(args))
                ob["detail"] = "driver imports do not build"
                return None
        with open(trace) as fin, open(verdicts, "w") as fout:
            p = subprocess.run(["lake", "env", "lean", "--run", driver], cwd=LEAN, stdin=fin, stdout=fout,
                               stderr=subprocess.PIPE, text=True, timeout=drv_timeout)
        if p.returncode != 0:
            self.fail("crash", f"driver:{name}", f"lean driver {driver} exited {p.returncode}: {p.stderr[-800:]}", stream=name, seed=seed, n=n, cmd=cmd, args=list(args))
            ob["detail"] = "driver crashed"
            return None
        tl = [l.rstrip("\n") for l in open(trace) if l.strip() and not l.startswith("#")]
        vl = [l.rstrip("\n") for l in open(verdicts)]
        res = dict(ok=0, diff=0, propfail=0, bad=0)
        if len(tl) != len(vl):
            self.fail("diff", f"length:{name}", f"trace has {len(tl)} lines, driver answered {len(vl)}", stream=name, seed=seed, n=n, cmd=cmd, args=list(args))
        for i, (t, v) in enumerate(zip(tl, vl)):
            if v == "OK":
                res["ok"] += 1
            elif v.startswith("PROPFAIL"):
                res["propfail"] += 1
                parts = v.split(" ", 2)
                self.fail("propfail", parts[1] if len(parts) > 1 else "?", parts[2] if len(parts) > 2 else "", stream=name, seed=seed, n=n, cmd=cmd, args=list(args), line_no=i + 1, line=t)
            elif v.startswith("DIFF"):
                res["diff"] += 1
                self.fail("diff", f"diff:{name}", v[5:], stream=name, seed=seed, n=n, cmd=cmd, args=list(args), line_no=i + 1, line=t)
            else:
                res["bad"] += 1
                self.fail("diff", f"bad:{name}", v, stream=name, seed=seed, n=n, cmd=cmd, args=list(args), line_no=i + 1, line=t)
        st = {}
        try:
            st = json.load(open(trace + ".stats.json"))
        except Exception:
            pass
        if count:
            self.evaluations += len(tl)
            self.distinct_nontrivial += int(st.get("distinct_nontrivial", 0))
            for k, v in (st.get("kinds") or {}).items():
                self.kinds[f"{name}/{k}"] = self.kinds.get(f"{name}/{k}", 0) + v
            for s in (st.get("samples") or [])[:4]:
                if len(self.samples) < 12:
                    self.samples.append(f"[{name}] {s}")
        ob["ok"] = res["diff"] == 0 and res["bad"] == 0 and len(tl) == len(vl) and len(tl) > 0
        ob["detail"] = f"{len(tl)} lines: {res}"
        self.streams.append(dict(name=name, seed=seed, n=n, lines=len(tl), **res, extra={k: v for k, v in st.items() if k not in ("samples", "kinds")}))
        return res

    # ---------------------------------------------------------------- facts
    def facts(self, name, ok, detail):
        self.obligations.append(dict(name=f"facts:{name}", kind="facts", ok=bool(ok), detail=detail[:300]))
        if not ok:
            self.fail("facts", f"facts:{name}", detail)

    def fail(self, kind, sig, detail, **kw):
        self.failures.append(dict(kind=kind, sig=sig, detail=detail, **kw))

    def rule(self, text):
        self.rules.append(text)

    def trust(self, *items):
        self.trusted.extend(items)

    def assume(self, *items):
        self.assumptions.extend(items)


def load_known():
    """known-findings.json (the committed list) plus per-property fragments in known-findings.d/."""
    out = []
    paths = [os.path.join(VERIF, "known-findings.json")]
    d = os.path.join(VERIF, "known-findings.d")
    if os.path.isdir(d):
        paths += sorted(os.path.join(d, f) for f in os.listdir(d) if f.endswith(".json"))
    for p in paths:
        try:
            out += json.load(open(p)).get("findings", [])
        except Exception:
            pass
    seen, uniq = set(), []
    for k in out:
        key = (k.get("property"), k.get("sig"), k.get("status"))
        if key not in seen:
            seen.add(key)
            uniq.append(k)
    return uniq


def finish(ctx, search=None):
    """Classify failures, run the search stage if needed, write evidence, print verdict lines."""
    known = [k for k in load_known() if k.get("property") == ctx.pid and k.get("status") == "known"]
    ksigs = {k["sig"]: k for k in known}
    prop_unknown = [f for f in ctx.failures if f["kind"] == "propfail" and f["sig"] not in ksigs]
    prop_known = [f for f in ctx.failures if f["kind"] == "propfail" and f["sig"] in ksigs]
    # a DIFF on a line that also is a known finding is not separate; other failures are "broken tie/proof"
    others = [f for f in ctx.failures if f["kind"] != "propfail"]
    if others and not prop_unknown and search is not None and not ctx.searched:
        ctx.searched = True
        before = len(ctx.failures)
        try:
            search(ctx)
        except Exception as e:  # the search is best effort
            ctx.notes.append(f"search stage raised {e!r}")
        new = ctx.failures[before:]
        prop_unknown += [f for f in new if f["kind"] == "propfail" and f["sig"] not in ksigs]
        prop_known += [f for f in new if f["kind"] == "propfail" and f["sig"] in ksigs]
    lines = []
    os.makedirs(os.path.join(VERIF, "replays"), exist_ok=True)
    violations = 0
    if prop_unknown:
        # one VIOLATION per distinct signature, with the first (smallest) failing input as replay
        bysig = {}
        for f in prop_unknown:
            cur = bysig.get(f["sig"])
            if cur is None or len(f.get("line", "")) < len(cur.get("line", "")):
                bysig[f["sig"]] = f
        for sig, f in sorted(bysig.items()):
            rp = write_replay(ctx, f, "failing-input")
            lines.append(f"VIOLATION property={ctx.pid} replay={rp}")
            violations += 1
    elif others:
        f = others[0]
        rp = write_replay(ctx, dict(f, all=[dict(kind=o["kind"], sig=o["sig"], detail=o["detail"][:400]) for o in others[:20]]), "no-failing-input")
        lines.append(f"VIOLATION property={ctx.pid} replay={rp} no-failing-input-found")
        violations += 1
    seen_k = {}
    for f in prop_known:
        seen_k.setdefault(f["sig"], f)
    for k in known:
        obs = "observed this run" if k["sig"] in seen_k else "not exercised this run"
        lines.append(f"KNOWN-FINDING: property={ctx.pid} {k['sig']}: {k.get('what', '')} ({obs})")
    write_evidence(ctx, violations, known=[k["sig"] for k in known], known_observed=sorted(seen_k))
    for l in lines:
        print(l)
    if not violations and not os.environ.get("VERIF_KEEP"):
        shutil.rmtree(ctx.outdir, ignore_errors=True)   # traces of a clean run are not needed any more
    else:
        for f in os.listdir(ctx.outdir) if os.path.isdir(ctx.outdir) else []:
            if f.startswith("bin-"):                    # harness binaries are rebuilt by every run anyway
                os.remove(os.path.join(ctx.outdir, f))
    ok = sum(1 for o in ctx.obligations if o["ok"])
    print(f"[{ctx.pid}] tier={ctx.tier} seed={ctx.seed} obligations={len(ctx.obligations)} discharged={ok} "
          f"evaluations={ctx.evaluations} violations={violations} wall={time.time() - ctx.t0:.1f}s")
    return 1 if violations else 0


def write_replay(ctx, f, kind):
    h = hashlib.sha1((ctx.pid + f.get("sig", "") + f.get("line", "") + f.get("detail", "")[:200]).encode()).hexdigest()[:10]
    path = os.path.join(VERIF, "replays", f"{ctx.pid}-{h}.json")
    rec = dict(property=ctx.pid, kind=kind, tier=ctx.tier, signature=f.get("sig"), detail=f.get("detail"),
               stream=f.get("stream"), seed=f.get("seed"), n=f.get("n"), harness_cmd=f.get("cmd"), harness_args=f.get("args"),
               line_no=f.get("line_no"), input_line=f.get("line"),
               what_no_longer_checks=(f.get("sig") if kind == "no-failing-input" else None),
               all_failures=f.get("all"),
               reproduce=f"cd /verif && bin/check {ctx.pid} --replay {path}")
    json.dump(rec, open(path, "w"), indent=1)
    return path


def write_evidence(ctx, violations, known=(), known_observed=()):
    obligations = len(ctx.obligations)
    discharged = sum(1 for o in ctx.obligations if o["ok"])
    cov = dict(
        obligations=max(obligations, 1), discharged=discharged,
        checker_cmd=" ; ".join(dict.fromkeys(ctx.checker_cmds)) or "n/a",
        trusted_base=list(dict.fromkeys(ctx.trusted)),
        obligation_list=ctx.obligations,
        evaluations=ctx.evaluations, distinct_nontrivial=ctx.distinct_nontrivial,
        rule=" | ".join(ctx.rules), samples=ctx.samples or ["(no correspondence stream ran)"],
        op_distribution=ctx.kinds, streams=ctx.streams,
        known_findings=list(known), known_findings_observed=list(known_observed),
        search_stage_ran=ctx.searched, notes=ctx.notes,
    )
    ev = dict(property_id=ctx.pid, tier=ctx.tier, seed=int(ctx.seed), level="proof", coverage=cov,
              assumptions=ctx.assumptions, wall_s=round(time.time() - ctx.t0, 2), violations=violations)
    # evidence/ describes /repo itself; a run against a scratch worktree (VERIF_REPO) writes elsewhere
    evdir = os.path.join(VERIF, "evidence") if not ctx.alt else ctx.outdir
    os.makedirs(evdir, exist_ok=True)
    json.dump(ev, open(os.path.join(evdir, f"{ctx.pid}.json"), "w"), indent=1)
