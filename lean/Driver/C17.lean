import PocketModel.Ledger.BankProto
/-! Driver for C17: bank operations (model vs real auth keeper) and block histories (verified
runtime monitor of `supply = Σ balances` and of the mint/burn attribution). -/
open Ledger Ledger.BankProto

structure St where
  mt : ModTable := []
  prev : Option Bank := none

def parseOp : List String → Option Op
  | ["send", s, d, a] => do pure (.send (← Bytes.parse s) (← Bytes.parse d) (← a.toInt?))
  | ["modToAcc", m, d, a] => do pure (.modToAcc m (← Bytes.parse d) (← a.toInt?))
  | ["accToMod", s, m, a] => do pure (.accToMod (← Bytes.parse s) m (← a.toInt?))
  | ["modToMod", m1, m2, a] => do pure (.modToMod m1 m2 (← a.toInt?))
  | ["mint", m, a] => do pure (.mint m (← a.toInt?))
  | ["burn", m, a] => do pure (.burn m (← a.toInt?))
  | ["touch", m] => some (.touch m)
  | _ => none

/-- Spec of the supply movement as a function of the implementation's own result code. -/
def expectedDelta (op : Op) (res : String) : Int :=
  match op with
  | .mint _ a => if res = "ok" then a else 0
  | .burn _ a => if res = "ok" then -a else 0
  | _ => 0

def step (s : St) (pre post : List String) : St × Verdict :=
  match pre with
  | ["init", mods] =>
    match parseMods mods, parseBank post with
    | some mt, some b =>
      ({ mt := mt, prev := some b }, (invVerdict b "genesis").getD .ok)
    | _, _ => (s, .bad "init")
  | "op" :: ws =>
    match parseOp ws, post, s.prev with
    | some op, res :: bw, some p =>
      match parseBank bw with
      | none => (s, .bad "bank")
      | some b =>
        let s' := { s with prev := some b }
        let line := " ".intercalate ws
        match invVerdict b line with
        | some v => (s', v)
        | none =>
          if b.supply - p.supply ≠ expectedDelta op res then
            (s', .propfail "supply-moved-without-mint-burn" s!"{line} result={res} delta={b.supply - p.supply}")
          else
            let o := Bank.step s.mt p op
            if errName o.err ≠ res then (s', .diff s!"{line}: result model={errName o.err} impl={res}")
            else if o.st.supply ≠ b.supply then (s', .diff s!"{line}: supply model={o.st.supply} impl={b.supply}")
            else if !sameAccts b.accts o.st.accts then (s', .diff s!"{line}: {firstDiff b.accts o.st.accts}")
            else (s', .ok)
    | _, _, _ => (s, .bad "op")
  | ["ext", kind, _, _] =>
    match parseBank post, s.prev with
    | some b, some p =>
      let s' := { s with prev := some b }
      match invVerdict b s!"ext {kind}" with
      | some v => (s', v)
      | none =>
        let d := b.supply - p.supply
        if kind = "reward" && d < 0 then (s', .propfail "reward-shrank-supply" s!"delta={d}")
        else if kind = "burn" && d > 0 then (s', .propfail "burn-grew-supply" s!"delta={d}")
        else (s', .ok)
    | _, _ => (s, .bad "ext")
  | "dropped" :: ws =>
    -- an operation on a discarded cache layer: the state must be exactly the previous one
    match post, s.prev with
    | _ :: bw, some p =>
      match parseBank bw with
      | none => (s, .bad "bank")
      | some b =>
        let s' := { s with prev := some b }
        let line := "dropped " ++ " ".intercalate ws
        match invVerdict b line with
        | some v => (s', v)
        | none =>
          if b.supply ≠ p.supply || !sameAccts b.accts p.accts then
            (s', .propfail "discarded-write-leaked" s!"{line}: {if b.supply ≠ p.supply then s!"supply {p.supply} -> {b.supply}" else firstDiff b.accts p.accts}")
          else (s', .ok)
    | _, _ => (s, .bad "dropped")
  | ["sync", what] =>
    match parseBank post, s.prev with
    | some b, some p =>
      let s' := { s with prev := some b }
      match invVerdict b s!"sync {what}" with
      | some v => (s', v)
      | none =>
        if b.supply ≠ p.supply then (s', .propfail "supply-moved-without-mint-burn" s!"empty block delta={b.supply - p.supply}")
        else (s', .ok)
    | _, _ => (s, .bad "sync")
  | ["begin", h, missed, evid] =>
    match parseBank post, s.prev with
    | some b, some p =>
      let s' := { s with prev := some b }
      match invVerdict b s!"begin {h}" with
      | some v => (s', v)
      | none =>
        let d := b.supply - p.supply
        if d > 0 then (s', .propfail "supply-moved-without-mint-burn" s!"BeginBlock {h} grew the supply by {d}")
        else if d ≠ 0 && missed = "0" && evid = "0" then
          (s', .propfail "supply-moved-without-mint-burn" s!"BeginBlock {h} without missed votes or evidence: delta={d}")
        else (s', .ok)
    | _, _ => (s, .bad "begin")
  | ["tx", kind, code, burn] =>
    match parseBank post, s.prev, burn.toInt? with
    | some b, some p, some bn =>
      let s' := { s with prev := some b }
      match invVerdict b s!"tx {kind} code={code}" with
      | some v => (s', v)
      | none =>
        let d := b.supply - p.supply
        let want : Int := if code = "0" then -bn else 0
        if d ≠ want then
          (s', .propfail "supply-moved-without-mint-burn" s!"tx {kind} code={code} delta={d} expected={want}")
        else (s', .ok)
    | _, _, _ => (s, .bad "tx")
  | [ph, h] =>
    if ph = "end" || ph = "commit" then
      match parseBank post, s.prev with
      | some b, some p =>
        let s' := { s with prev := some b }
        match invVerdict b s!"{ph} {h}" with
        | some v => (s', v)
        | none =>
          let d := b.supply - p.supply
          if d > 0 || (ph = "commit" && d ≠ 0) then
            (s', .propfail "supply-moved-without-mint-burn" s!"{ph} {h} delta={d}")
          else (s', .ok)
      | _, _ => (s, .bad ph)
    else (s, .bad "line")
  | _ => (s, .bad "line")

def main : IO Unit := Proto.run ({} : St) step
