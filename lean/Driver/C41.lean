import PocketModel.Basic.Proto
import PocketModel.Num.Coins
import PocketModel.Num.BigDec
/-! Driver for C41: coin-set, BigInt and BigDec operations.  Stateless. -/
open Coins

def parseCoin (s : String) : Option Coin :=
  match s.splitOn ":" with
  | [d, a] => do
    let dn ← Bytes.parse d
    let am ← a.toInt?
    pure ⟨dn, am⟩
  | _ => none

def parseCoins (s : String) : Option Coins :=
  if s = "-" then some [] else (s.splitOn ",").mapM parseCoin

def renderCoins (cs : Coins) : String :=
  if cs.isEmpty then "-" else ",".intercalate (cs.map fun c => s!"{Bytes.render c.denom}:{c.amount}")

def denomsOf (l : List Coins) : List Denom := (l.flatten.map (·.denom)).eraseDups

def optInt : Option Int → String
  | none => "PANIC"
  | some x => toString x

def cmpRes (model : String) (impl : List String) : Verdict :=
  let i := " ".intercalate impl
  if model = i then .ok else .diff s!"model={model} impl={i}"

def step (_ : Unit) (pre post : List String) : Unit × Verdict :=
  let v : Verdict :=
    match pre with
    | ["const", name] =>
      let want : Option String := match name with
        | "precision" => some "18"
        | "decbits" => some (toString (BigDec.maxBits - Int256.maxBitLen))
        | "one" => some (toString BigDec.P)
        | "smallest" => some (toString BigDec.smallest)
        | "maxbits255" => some (toString (Int256.inRange (2 ^ 255 - 1) && !Int256.inRange (2 ^ 255)))
        | _ => none
      match want with
      | some w => if BigDec.P = 10 ^ 18 then cmpRes w post else .diff "model precision"
      | none => .bad "const"
    | ["add", a, b] =>
      match parseCoins a, parseCoins b with
      | some ca, some cb =>
        let m := safeAdd ca cb
        let ms := match m with | none => "PANIC" | some c => renderCoins c
        -- property oracle on the implementation's own answer
        match post with
        | ["PANIC"] =>
          -- allowed only if some per-denomination exact sum is out of range
          if (denomsOf [ca, cb]).any (fun d => !Int256.inRange (sumOf ca d + sumOf cb d)) || m.isNone then cmpRes ms post
          else .propfail "add-panics-in-range" s!"a={a} b={b}"
        | [r] =>
          match parseCoins r with
          | none => .bad "result"
          | some ci =>
            let ds := denomsOf [ca, cb, ci]
            if strictSorted ca && strictSorted cb then
              if !(ds.all fun d => sumOf ci d = sumOf ca d + sumOf cb d) then .propfail "add-amounts" s!"a={a} b={b} impl={r}"
              else if !canonical ci then .propfail "add-not-canonical" s!"a={a} b={b} impl={r}"
              else cmpRes ms post
            else cmpRes ms post
        | _ => .bad "result arity"
      | _, _ => .bad "coins"
    | ["sub", a, b] =>
      match parseCoins a, parseCoins b with
      | some ca, some cb =>
        let m := safeSub ca cb
        let ms := match m with | none => "PANIC" | some (c, n) => s!"{renderCoins c} {n}"
        match post with
        | [r, n] =>
          match parseCoins r, Proto.parseBool n with
          | some ci, some ni =>
            let ds := denomsOf [ca, cb, ci]
            if strictSorted ca && strictSorted cb then
              if !(ds.all fun d => sumOf ci d = sumOf ca d - sumOf cb d) then .propfail "sub-amounts" s!"a={a} b={b} impl={r}"
              else if !canonical ci then .propfail "sub-not-canonical" s!"a={a} b={b} impl={r}"
              else if ni != (ds.any fun d => sumOf ca d < sumOf cb d) then .propfail "sub-negative-flag" s!"a={a} b={b} impl={r} {n}"
              else cmpRes ms post
            else cmpRes ms post
          | _, _ => .bad "result"
        | _ => cmpRes ms post
      | _, _ => .bad "coins"
    | ["subp", a, b] =>
      match parseCoins a, parseCoins b with
      | some ca, some cb =>
        let m := sub ca cb
        let ms := match m with | none => "PANIC" | some c => renderCoins c
        match post with
        | [r] =>
          match (if r = "PANIC" then some [] else parseCoins r) with
          | some ci => if ci.any (fun c => c.amount < 0) then .propfail "sub-produced-negative" s!"a={a} b={b} impl={r}" else cmpRes ms post
          | none => .bad "result"
        | _ => .bad "arity"
      | _, _ => .bad "coins"
    | ["amt", a, d] =>
      match parseCoins a, Bytes.parse d with
      | some ca, some dn =>
        let m := amountOf ca dn
        if strictSorted ca && post != [toString (sumOf ca dn)] then .propfail "amountof-lookup" s!"a={a} d={d} impl={post}"
        else cmpRes (toString m) post
      | _, _ => .bad "args"
    | ["valid", a] =>
      match parseCoins a with
      | some ca =>
        if post = ["true"] && !(strictSorted ca && ca.all (fun c => c.amount > 0)) then .propfail "valid-not-canonical" s!"a={a}"
        else cmpRes (toString (isValid ca)) post
      | none => .bad "coins"
    | ["gte", a, b] =>
      match parseCoins a, parseCoins b with
      | some ca, some cb => cmpRes (toString (isAllGTE ca cb)) post
      | _, _ => .bad "coins"
    | [op, x, y] =>
      match x.toInt?, y.toInt? with
      | some a, some b =>
        let inr (z : Int) := Int256.inRange z
        let exact (z : Int) (m : Option Int) : Verdict :=
          -- property: exact value or failure on overflow
          match post with
          | ["PANIC"] => if inr z && op != "iquo" && op != "imod" then .propfail "int-panics-in-range" s!"{op} {x} {y}" else cmpRes (optInt m) post
          | [r] => if r.toInt? != some z then .propfail "int-inexact" s!"{op} {x} {y} impl={r}"
                   else if !inr z then .propfail "int-overflow-not-reported" s!"{op} {x} {y} impl={r} needs {Int256.bitLen z} bits"
                   else cmpRes (optInt m) post
          | _ => .bad "arity"
        match op with
        | "iadd" => exact (a + b) (Int256.add a b)
        | "isub" => exact (a - b) (Int256.sub a b)
        | "imul" => exact (a * b) (Int256.mul a b)
        | "iquo" => cmpRes (optInt (Int256.quo a b)) post
        | "imod" => cmpRes (optInt (Int256.mod a b)) post
        | "dadd" => cmpRes (optInt (BigDec.add a b)) post
        | "dsub" => cmpRes (optInt (BigDec.sub a b)) post
        | "dmul" =>
          match post with
          | [r] =>
            match r.toInt? with
            | some ri =>
              let e := a * b
              if 2 * (ri * BigDec.P - e) > BigDec.P || 2 * (e - ri * BigDec.P) > BigDec.P then .propfail "dec-mul-rounding" s!"{x} {y} impl={r}"
              else cmpRes (optInt (BigDec.mul a b)) post
            | none => cmpRes (optInt (BigDec.mul a b)) post
          | _ => .bad "arity"
        | "dmult" => cmpRes (optInt (BigDec.mulTruncate a b)) post
        | "dmuli" => cmpRes (optInt (BigDec.mulInt a b)) post
        | "dquo" => cmpRes (optInt (BigDec.quo a b)) post
        | "dquot" => cmpRes (optInt (BigDec.quoTruncate a b)) post
        | "dquou" => cmpRes (optInt (BigDec.quoRoundUp a b)) post
        | "dquoi" => cmpRes (optInt (BigDec.quoInt a b)) post
        | "dpow" => cmpRes (optInt (BigDec.power a b.toNat)) post
        | _ => .bad s!"op {op}"
      | _, _ => .bad "ints"
    | [op, x] =>
      match x.toInt? with
      | some a =>
        match op with
        | "dround" => cmpRes (toString (BigDec.roundInt a)) post
        | "dtrunc" => cmpRes (toString (BigDec.truncateInt a)) post
        | "dround64" => cmpRes (optInt (BigDec.roundInt64 a)) post
        | "dtrunc64" => cmpRes (optInt (BigDec.truncateInt64 a)) post
        | _ => .bad s!"op {op}"
      | none => .bad "int"
    | _ => .bad "op"
  ((), v)

def main : IO Unit := Proto.run () step
