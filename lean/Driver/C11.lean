import PocketModel.Basic.Proto
import PocketModel.Ledger.BaseApp
/-! Driver for C11: twin histories on the real application (see harness/cmd/c11).

* `mode <asis|fixed|unknown> => code ante msg` — the probe; the model's two-mark table
  (`BaseApp.visible`) must reproduce the observed marks, otherwise the code matches neither plumbing.
* `A blk h => apphash codes valupdates stateDigest rawDigest` — reference twin (blocks only).
* `A dtx h i kind => code ante msg` — marks observed around a delivered send; compared with the
  model's deliver semantics.
* `B act kind point desc => code changed ante msg diff` — one off-chain call of the busy twin:
  executable spec = the working state must not change (PROPFAIL `<kind>-mutates-state`); for
  simulations the marks are compared with the model under the probed plumbing (DIFF).
* latest-height balance probes (`ans=`/`com=`/`wrk=`): the answer of a custom query at the latest height
  must be the last committed version's (`BaseApp.queryCustom` reads `loadVersion`), also mid-block —
  PROPFAIL `customquery-reads-working-state`.
* `B blk h => …` — must equal A's line for the same height (PROPFAIL `<kind>-mutates-state`).
-/
open BaseApp

structure St where
  plumbing : Option Plumbing := none
  kind : String := ""
  ablk : List (String × List String) := []
  bcount : Nat := 0
  reported : Bool := false
  incoherent : Bool := false
  globalsReported : Bool := false
  ctxReported : Bool := false

def field (ws : List String) (name : String) : Option String :=
  (ws.find? (·.startsWith (name ++ "="))).map (fun w => (w.drop (name.length + 1)).toString)

def bit (s : String) : Option Bool := if s = "1" then some true else if s = "0" then some false else none

def marksOf (ws : List String) : Option Marks := do
  let a ← field ws "ante" >>= bit
  let m ← field ws "msg" >>= bit
  pure ⟨a, m⟩

def showMarks (m : Marks) : String := s!"ante={if m.ante then 1 else 0} msg={if m.msg then 1 else 0}"

def parseItems (s : String) : Option (List (String × String)) :=
  if s = "-" then some [] else
  (s.splitOn ",").mapM fun e => match e.splitOn ":" with
    | [k, d] => some (k, d)
    | _ => none

def renderItems (l : List (String × String)) : String :=
  if l.isEmpty then "-" else ",".intercalate (l.map fun e => s!"{e.1}:{e.2}")

/-- every cached application record equals the record of the working store -/
def coherentB (cache store : List (String × String)) : Bool :=
  cache.all fun e => (store.find? (·.1 = e.1)).map (·.2) = some e.2

def sigOf (kind : String) : String :=
  if kind = "none" then "twin-nondeterminism" else kind ++ "-mutates-state"

def step (st : St) (pre post : List String) : St × Verdict :=
  match pre with
  | ["mode", m] =>
    let p : Option Plumbing := if m = "asis" then some .asis else if m = "fixed" then some .fixed else none
    match p, marksOf post with
    | some p, some obs =>
      let want := visible p .simulate true
      if obs = want then ({ st with plumbing := some p }, .ok)
      else ({ st with plumbing := some p }, .diff s!"probe: model {showMarks want} impl {showMarks obs}")
    | none, _ => (st, .diff s!"probe: the real simulate path matches neither the as-is nor the fixed plumbing: {post}")
    | _, none => (st, .bad "probe marks")
  | ["hist", _, kind, _, _] => ({ st with kind := kind, ablk := [], bcount := 0, reported := false, incoherent := false, globalsReported := false, ctxReported := false }, .ok)
  | ["crash", _, role] =>
    if role = "B" then ({ st with reported := true }, .propfail (sigOf st.kind) s!"twin B crashed or hung: {" ".intercalate (post.take 30)}")
    else (st, .diff s!"twin A crashed: {" ".intercalate (post.take 30)}")
  | ["A", "blk", h] => ({ st with ablk := (h, post) :: st.ablk }, if post.length = 6 then .ok else .bad "blk arity")
  | ["A", "dtx", _, _, _] =>
    match st.plumbing, field post "code", marksOf post with
    | some p, some code, some obs =>
      if code = "0/ok" then
        let want := visible p .deliver true
        (st, if obs = want then .ok else .diff s!"deliver ok: model {showMarks want} impl {showMarks obs}")
      else
        -- aborted (nothing visible) or handler ran after the ante handler's writes were flushed
        (st, if obs = visible p .deliver false || obs.ante then .ok
             else .diff s!"failed deliver shows a handler write without the ante write: {showMarks obs}")
    | none, _, _ => (st, .bad "no mode line")
    | _, _, _ => (st, .bad "dtx fields")
  | "B" :: "act" :: kind :: _ =>
    match st.plumbing, field post "code", field post "changed" >>= bit with
    | some p, some code, some changed =>
      let detail := s!"{" ".intercalate (pre.drop 2)} => {" ".intercalate post}"
      -- model prediction for simulated sends
      let modelV : Verdict :=
        if kind = "simulate" then
          match marksOf post with
          | some obs =>
            if code = "0/ok" then
              let want := visible p .simulate true
              if obs = want then .ok else .diff s!"simulate: model {showMarks want} impl {showMarks obs}"
            else if obs.ante then .diff "simulate: ante handler write visible" else .ok
          | none => .ok
        else .ok
      match modelV with
      | .ok =>
        if changed then (st, .propfail (sigOf kind) detail)
        else if (field post "ctxc") ≠ (field post "ctxf") && !st.ctxReported then
          -- GlobalCtxCache: every cached context must be the freshly loaded version of its height (header and contents)
          let c := ((field post "ctxc") >>= parseItems).getD []
          let f := ((field post "ctxf") >>= parseItems).getD []
          let bad := c.filter fun e => (f.find? (·.1 = e.1)).map (·.2) ≠ some e.2
          ({ st with ctxReported := true }, .propfail "ctxcache-poisoned-by-offchain-call" s!"{" ".intercalate (pre.drop 2)}: cached contexts (height:header.contents) {renderItems bad} differ from fresh loads {renderItems (f.filter fun e => bad.any (·.1 = e.1))}")
        else if (field post "ans").isSome && (field post "com") ≠ some "?" && (field post "ans") ≠ (field post "com") then
          -- model: `queryCustom` at the latest height reads `versions.getLast?`, the last COMMITTED version
          (st, .propfail "customquery-reads-working-state" s!"{" ".intercalate (pre.drop 2)}: answer {(field post "ans").getD "?"} but the last committed version holds {(field post "com").getD "?"} (working state: {(field post "wrk").getD "?"}): the query context aliases the working trees of the root multistore")
        else if (field post "gpre") ≠ (field post "gpost") then
          -- codec.UpgradeHeight / OldUpgradeHeight / UpgradeFeatureMap gate consensus rules: part of `G`, and read by block execution
          if st.globalsReported then (st, .ok)
          else ({ st with globalsReported := true }, .propfail "simulate-changes-upgrade-globals" s!"{" ".intercalate (pre.drop 2)}: upgrade globals {(field post "gpre").getD "?"} -> {(field post "gpost").getD "?"} (store unchanged, result code {code})")
        else
          -- node-local side state: the REAL ApplicationCache must stay coherent with the working store
          match field post "cache" >>= parseItems, field post "store" >>= parseItems with
          | some c, some s =>
            if coherentB c s || st.incoherent then (st, .ok)
            else ({ st with incoherent := true }, .propfail (kind ++ "-poisons-appcache") s!"{" ".intercalate (pre.drop 2)}: cache {renderItems c} vs working store {renderItems s}")
          | _, _ => (st, .bad "cache dump")
      | v => (st, v)
    | none, _, _ => (st, .bad "no mode line")
    | _, _, _ => (st, .bad "act fields")
  | ["B", "blk", h] =>
    let st' := { st with bcount := st.bcount + 1 }
    match st.ablk.find? (·.1 = h) with
    | none => (st', .bad s!"no A block {h}")
    | some (_, a) =>
      if a = post then (st', .ok)
      else if st.reported then (st', .ok)
      else if a.take 5 = post.take 5 then (st', .ok)   -- only the upgrade globals differ: reported on the call that changed them   -- the divergence of this history is already reported
      else
        let what := if a.take 1 ≠ post.take 1 then "app hash" else if (a.drop 1).take 1 ≠ (post.drop 1).take 1 then "DeliverTx codes" else if a.drop 5 ≠ post.drop 5 then "upgrade globals (codec.UpgradeHeight/OldUpgradeHeight/UpgradeFeatureMap)" else "state"
        ({ st' with reported := true }, .propfail (sigOf st.kind) s!"block {h}: {what} differs from the twin without off-chain activity: A={" ".intercalate (a.take 2)} B={" ".intercalate (post.take 2)}")
  | ["end", _] =>
    if st.bcount = st.ablk.length || st.reported then (st, .ok)
    else (st, .diff s!"twin block counts differ: A={st.ablk.length} B={st.bcount}")
  | _ => (st, .bad "op")

def main : IO Unit := Proto.run ({} : St) step
