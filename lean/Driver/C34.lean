import PocketModel.Basic.Proto
import PocketModel.Conc.Relay
/-! Driver for C34: one line per schedule.  The model runs the same schedule; the final evidence,
the per-relay outcome and the order of responses/seal are compared with what the real sub-steps
produced, and the property (`exact`) is evaluated on the implementation's own final state. -/
open ConcRelay

def kvs (ws : List String) : List (String × String) :=
  ws.filterMap fun w => match w.splitOn "=" with
    | [k, v] => some (k, v)
    | _ => none

def look (m : List (String × String)) (k : String) : String := (m.lookup k).getD ""

def natList (s : String) : List Nat := if s = "-" || s = "" then [] else (s.splitOn ",").filterMap String.toNat?

def parseLabel (s : String) : Option Label :=
  if s = "c1" then some .cread else if s = "c2" then some .cseal
  else match s.toList with
  | 'r' :: rest =>
    let ds := rest.takeWhile Char.isDigit
    let a := rest.drop ds.length
    match (String.ofList ds).toNat?, a with
    | some i, ['v'] => some (.relay i .validate)
    | some i, ['g'] => some (.relay i .get)
    | some i, ['a'] => some (.relay i .add)
    | some i, ['s'] => some (.relay i .set)
    | some i, ['r'] => some (.relay i .respond)
    | _, _ => none
  | _ => none

def pcName : Pc → String
  | .start => "start" | .validated => "validated" | .got => "got" | .added => "added"
  | .stored => "stored" | .responded => "responded" | .rejected => "rejected"

def eventName : Event → String
  | .resp i => s!"resp{i}"
  | .seal => "seal"

def joinOr (l : List String) : String := if l.isEmpty then "-" else ",".intercalate l

def render (s : St) : String :=
  s!"stored={joinOr ((storedProofs s).map toString)} n={storedN s} sealed={s.sealed_} pcs={joinOr (s.threads.map fun t => pcName t.pc)} log={joinOr (s.log.reverse.map eventName)}"

def parseEvent (s : String) : Option Event :=
  if s = "seal" then some .seal
  else if s.startsWith "resp" then ((s.drop 4).toString.toNat?).map .resp else none

def step (_ : Unit) (pre post : List String) : Unit × Verdict :=
  let v : Verdict :=
    match pre with
    | "sched" :: ws =>
      let m := kvs ws
      let max := (look m "max").toNat?.getD 0
      let ids := natList (look m "ids")
      let respond := look m "respond" = "true"
      match ((look m "steps").splitOn ",").mapM parseLabel with
      | none => .bad "steps"
      | some labels =>
        -- without a separate respond step the response directly follows the set step
        let labels := if respond then labels else labels.flatMap fun l => match l with
          | .relay i .set => [.relay i .set, .relay i .respond]
          | l => [l]
        let fin := run (init max ids) labels
        let model := render fin
        let impl := " ".intercalate post
        -- the property on the implementation's own final state
        let r := kvs post
        let stored := natList (look r "stored")
        let n := (look r "n").toNat?.getD 0
        let evs := ((look r "log").splitOn ",").filterMap parseEvent
        let before := (evs.takeWhile (· ≠ .seal)).filterMap fun e => match e with | .resp i => some i | _ => none
        let missing := before.filter fun i => match ids[i]? with | some p => !stored.contains p | none => false
        let cfg := look m "cfg"
        -- a failing line whose final state the model did not predict gets a different signature
        let tag := if model = impl then "" else "/model-disagrees"
        if !decide stored.Nodup then .propfail ("dup-under-interleaving" ++ tag) s!"cfg={cfg} steps={look m "steps"} stored={look r "stored"}"
        else if n > max || stored.length > max then .propfail ("over-limit-under-interleaving" ++ tag) s!"cfg={cfg} max={max} steps={look m "steps"} n={n} stored={look r "stored"}"
        else if !missing.isEmpty then
          if evs.contains .seal then .propfail ("responded-before-seal-not-recorded" ++ tag) s!"cfg={cfg} steps={look m "steps"} stored={look r "stored"} log={look r "log"}"
          else .propfail ("lost-update" ++ tag) s!"cfg={cfg} steps={look m "steps"} stored={look r "stored"} log={look r "log"}"
        else if model = impl then .ok else .diff s!"model=[{model}] impl=[{impl}] steps={look m "steps"}"
    | "free" :: ws =>
      let m := kvs ws
      let r := kvs post
      let max := (look m "max").toNat?.getD 0
      let nat (k : String) := (look r k).toNat?.getD 0
      if post.head? = some "CRASH" then .diff s!"free-running child crashed: {post}"
      else if look r "race" = "true" then .propfail "data-race-detected" s!"g={look m "g"} distinct={look m "distinct"} max={max} seal={look m "seal"}"
      else if nat "dups" > 0 then .propfail "dup-under-interleaving" s!"free-running: {post}"
      else if nat "stored" > max || nat "n" > max then .propfail "over-limit-under-interleaving" s!"free-running: max={max} {post}"
      else if nat "missing" > 0 && look m "seal" = "false" && look r "sealed" = "false" then .propfail "lost-update" s!"free-running: {post}"
      else .ok
    | _ => .bad "op"
  ((), v)

def main : IO Unit := Proto.run () step
