import PocketModel.Basic.Proto
import PocketModel.Conc.Relay
import PocketModel.Conc.Cache
/-! Driver for C34: one line per schedule.  The model runs the same schedule; the final evidence,
the per-relay outcome and the order of responses/seal are compared with what the real sub-steps
produced, and the property (`exact`) is evaluated on the implementation's own final state. -/
open ConcRelay

def kvs (ws : List String) : List (String × String) :=
  ws.filterMap fun w => match w.splitOn "=" with
    | [k, v] => some (k, v)
    | _ => none

def look (m : List (String × String)) (k : String) : String := (m.lookup k).getD ""

def natList (s : String) : List Nat := if s = "-" || s = "" then [] else (s.splitOn ",").filterMap String.toNat?

def parseLabel (s : String) : Option Label :=
  if s = "c1" then some .cread else if s = "c2" then some .cseal
  else match s.toList with
  | 'r' :: rest =>
    let ds := rest.takeWhile Char.isDigit
    let a := rest.drop ds.length
    match (String.ofList ds).toNat?, a with
    | some i, ['v'] => some (.relay i .validate)
    | some i, ['g'] => some (.relay i .get)
    | some i, ['a'] => some (.relay i .add)
    | some i, ['s'] => some (.relay i .set)
    | some i, ['r'] => some (.relay i .respond)
    | _, _ => none
  | _ => none

def pcName : Pc → String
  | .start => "start" | .validated => "validated" | .got => "got" | .added => "added"
  | .stored => "stored" | .responded => "responded" | .rejected => "rejected"

def eventName : Event → String
  | .resp i => s!"resp{i}"
  | .seal => "seal"

def joinOr (l : List String) : String := if l.isEmpty then "-" else ",".intercalate l

def render (s : St) : String :=
  s!"stored={joinOr ((storedProofs s).map toString)} n={storedN s} sealed={s.sealed_} pcs={joinOr (s.threads.map fun t => pcName t.pc)} log={joinOr (s.log.reverse.map eventName)}"

def parseEvent (s : String) : Option Event :=
  if s = "seal" then some .seal
  else if s.startsWith "resp" then ((s.drop 4).toString.toNat?).map .resp else none

def step (_ : Unit) (pre post : List String) : Unit × Verdict :=
  let v : Verdict :=
    match pre with
    | "sched" :: ws =>
      let m := kvs ws
      let max := (look m "max").toNat?.getD 0
      let ids := natList (look m "ids")
      let respond := look m "respond" = "true"
      match ((look m "steps").splitOn ",").mapM parseLabel with
      | none => .bad "steps"
      | some labels =>
        -- without a separate respond step the response directly follows the set step
        let labels := if respond then labels else labels.flatMap fun l => match l with
          | .relay i .set => [.relay i .set, .relay i .respond]
          | l => [l]
        let fin := run (init max ids) labels
        let model := render fin
        let impl := " ".intercalate post
        -- the property on the implementation's own final state
        let r := kvs post
        let stored := natList (look r "stored")
        let n := (look r "n").toNat?.getD 0
        let evs := ((look r "log").splitOn ",").filterMap parseEvent
        let before := (evs.takeWhile (· ≠ .seal)).filterMap fun e => match e with | .resp i => some i | _ => none
        let missing := before.filter fun i => match ids[i]? with | some p => !stored.contains p | none => false
        let cfg := look m "cfg"
        -- a failing line whose final state the model did not predict gets a different signature
        let tag := if model = impl then "" else "/model-disagrees"
        -- keeper-level family (real HandleRelay, hosted chain acts during Execute): there a relay's
        -- proof is stored before the request is executed, so EVERY answered relay must be recorded
        -- (sealed or not) and no more than `max` relays may be answered
        let pcsI := (look r "pcs").splitOn ","
        let answeredIdx := (List.range pcsI.length).filter fun i => pcsI.getD i "" = "responded"
        let unrecorded := answeredIdx.filter fun i => match ids[i]? with | some p => !stored.contains p | none => false
        if cfg.startsWith "hr-" && !unrecorded.isEmpty && decide stored.Nodup then
          .propfail ("served-relay-not-recorded" ++ tag) s!"cfg={cfg} steps={look m "steps"} stored={look r "stored"} pcs={look r "pcs"} log={look r "log"}"
        else if cfg.startsWith "hr-" && answeredIdx.length > max then
          .propfail ("over-limit-under-interleaving" ++ tag) s!"cfg={cfg} max={max} answered={answeredIdx.length} steps={look m "steps"} stored={look r "stored"}"
        else if !decide stored.Nodup then .propfail ("dup-under-interleaving" ++ tag) s!"cfg={cfg} steps={look m "steps"} stored={look r "stored"}"
        else if n > max || stored.length > max then .propfail ("over-limit-under-interleaving" ++ tag) s!"cfg={cfg} max={max} steps={look m "steps"} n={n} stored={look r "stored"}"
        else if !missing.isEmpty then
          if evs.contains .seal then .propfail ("responded-before-seal-not-recorded" ++ tag) s!"cfg={cfg} steps={look m "steps"} stored={look r "stored"} log={look r "log"}"
          else .propfail ("lost-update" ++ tag) s!"cfg={cfg} steps={look m "steps"} stored={look r "stored"} log={look r "log"}"
        else if model = impl then .ok else .diff s!"model=[{model}] impl=[{impl}] steps={look m "steps"}"
    | "serial" :: ws =>
      -- relays one at a time over several sessions, tiny evidence cache, iterator and seals
      let m := kvs ws
      let r := kvs post
      let cap := (look m "cap").toNat?.getD 1
      let max := (look m "max").toNat?.getD 0
      let nsess := (look m "sessions").toNat?.getD 0
      let parseOp (s : String) : Option SerialCache.Op :=
        if s = "it" then some .iter
        else if s.startsWith "sl" then ((s.drop 2).toString.toNat?).map .sealSnap
        else if s.startsWith "r" then
          match ((s.drop 1).toString.splitOn ".").map String.toNat? with
          | [some k, some p] => some (.relay k p)
          | _ => none
        else none
      match ((look m "ops").splitOn ",").mapM parseOp with
      | none => .bad "ops"
      | some ops =>
        let outName : SerialCache.Out → String
          | .ok => "ok" | .sealed90 => "90" | .dup37 => "37" | .over71 => "71" | .none => "-"
          | .sealedNow => "sealed" | .nosnap => "nosnap"
        let renderFin (look1 : Nat → Option (List Nat)) (isSealed : Nat → Bool) : String :=
          ";".intercalate ((List.range nsess).map fun k => match look1 k with
            | some v => s!"{if v.isEmpty then "-" else ".".intercalate (v.map toString)}/{v.length}/{isSealed k}"
            | none => "-/0/false")
        -- the cache layer as coded; the final reads go through the same `get`
        let (c, outs) := SerialCache.run true max (SerialCache.init cap) ops
        let (finVals, cfin) := (List.range nsess).foldl (fun (acc : List (Option (List Nat)) × SerialCache.C) k =>
          let (v, c') := SerialCache.get true acc.2 k
          (acc.1 ++ [v], c')) ([], c)
        let model := s!"res={",".intercalate (outs.map outName)} final={renderFin (fun k => finVals.getD k none) (fun k => cfin.sealed_.contains k)}"
        let impl := " ".intercalate post
        -- the cache-free reference (plain map; the claim loop's stale write-back is part of it)
        let (rf, _) := SerialCache.rrun max SerialCache.rinit ops
        -- the property on the implementation's own answers
        let res := (look r "res").splitOn ","
        let finals := ((look r "final").splitOn ";").map fun f => match f.splitOn "/" with
          | [ids, n, _] => ((if ids = "-" then [] else (ids.splitOn ".").filterMap String.toNat?), n.toNat?.getD 0)
          | _ => ([], 0)
        let events := ops.zip res
        -- answered ids per session, in order, with the flag "before the explicit seal of that session"
        let answered (k : Nat) : List (Nat × Bool) :=
          (events.foldl (fun (acc : List (Nat × Bool) × Bool) e => match e with
            | (.relay k' p, "ok") => if k' = k then (acc.1 ++ [(p, !acc.2)], acc.2) else acc
            | (.sealSnap k', "sealed") => if k' = k then (acc.1, true) else acc
            | _ => acc) ([], false)).1
        let tag := if model = impl then "" else "/model-disagrees"
        let detail := s!"cap={cap} max={max} ops={look m "ops"} res={look r "res"} final={look r "final"}"
        let bad : Option String := (List.range nsess).findSome? fun k =>
          let a := answered k
          let ids := a.map (·.1)
          let (st, n) := finals.getD k ([], 0)
          if !decide ids.Nodup then some "replayed-relay-accepted"
          else if ids.length > max || n > max || st.length > max then some "over-limit"
          else if !decide st.Nodup then some "dup-under-interleaving"
          else
            let lost := a.filter fun (p, before) => before && !st.contains p
            if lost.isEmpty then none
            else
              -- is the loss already explained without any cache (stale snapshot written back by the seal)?
              let refStored := (SerialCache.lookup rf.m k).getD []
              if lost.all fun (p, _) => !refStored.contains p then some "responded-before-seal-not-recorded"
              else some "answered-relay-not-recorded"
        match bad with
        | some sig => .propfail (sig ++ tag) detail
        | none => if model = impl then .ok else .diff s!"model=[{model}] impl=[{impl}] ops={look m "ops"} cap={cap}"
    | "free" :: ws =>
      let m := kvs ws
      let r := kvs post
      let max := (look m "max").toNat?.getD 0
      let nat (k : String) := (look r k).toNat?.getD 0
      if post.head? = some "CRASH" then .diff s!"free-running child crashed: {post}"
      else if look r "race" = "true" then .propfail "data-race-detected" s!"g={look m "g"} distinct={look m "distinct"} max={max} seal={look m "seal"}"
      else if nat "dups" > 0 then .propfail "dup-under-interleaving" s!"free-running: {post}"
      else if nat "stored" > max || nat "n" > max then .propfail "over-limit-under-interleaving" s!"free-running: max={max} {post}"
      else if nat "missing" > 0 && look m "seal" = "false" && look r "sealed" = "false" then .propfail "lost-update" s!"free-running: {post}"
      else .ok
    | _ => .bad "op"
  ((), v)

def main : IO Unit := Proto.run () step
