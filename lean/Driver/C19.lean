import PocketModel.Ledger.NodesDriver
/-! Driver for C19 (nodes ledger): see `PocketModel/Ledger/NodesDriver.lean`. -/
def main : IO Unit := Proto.run (NodesDriver.init "C19") NodesDriver.step
