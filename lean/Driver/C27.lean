import PocketModel.Basic.Proto
import PocketModel.Num.FracPow
import Std.Data.HashMap
/-!
Driver for C27: ApproxRoot / FracPow / stake-weighted reward / challenge burn.

State = memo table of `ApproxRoot(100)` outcomes (the root does not depend on the exponent, the
model functions take the root as an oracle).  Besides comparing model and implementation exactly,
every line is judged by the executable specification of the property on the implementation's own
outputs: termination (no `TIMEOUT`), non-negativity, monotonicity in stake / relay count, constancy
above the ceiling.  The two known defects get their own signatures **only at the excluded points**:

* `fracpow-overflow-to-one` — a decrease whose higher-stake side sits in a bin (> 496) whose
  `ApproxRoot(100)` overflows, so that `FracPow` returned 1;
* `burn-nonmonotone-floor`  — a burn decrease / non-constancy above the ceiling at a stake where
  `BurnForChallenge`'s own flooring (`ceiling − stake mod floor`) differs from the reward flooring.
Any other violation carries a different signature.
-/
open BigDec

abbrev Cache := Std.HashMap Int Out

/-- Loop iterations granted to the model (the table proves ≤ 179 are needed for bins ≤ 498). -/
def driverFuel : Nat := 3000

def rootC (c : Cache) (d : Int) : Out × Cache :=
  match c.get? d with
  | some o => (o, c)
  | none => let o := approxRoot d 100 driverFuel; (o, c.insert d o)

def oracle (c : Cache) : Int → Out := fun d =>
  match c.get? d with
  | some o => o
  | none => approxRoot d 100 driverFuel

def outStr (panicWord : String) : Out → String
  | .val x => toString x
  | .err => panicWord
  | .timeout => "TIMEOUT"

def ints (l : List String) : Option (List Int) := l.mapM String.toInt?

def isNumS (s : String) : Bool := s.toInt?.isSome

def cmp (model impl : String) : Verdict :=
  if model = impl then .ok else .diff s!"model={model} impl={impl}"

/-- A known-defect signature is only reported when the implementation behaves exactly as modelled
on that line; otherwise the line is a correspondence break. -/
def knownSig (sig detail : String) (c : Verdict) : Verdict :=
  match c with
  | .ok => .propfail sig detail
  | v => v

/-- bin as computed by the reward flooring (model), `none` on panic. -/
def rewardBin (p : Pip22) (stake : Int) : Option Int :=
  (flooredStake p stake).bind fun fs => Int256.quo fs p.floor
def burnBin (p : Pip22) (stake : Int) : Option Int :=
  (flooredStakeBurn p stake).bind fun fs => Int256.quo fs p.floor

/-- valid PIP-22 parameter set in the sense of the property. -/
def validParams (p : Pip22) (m : Int) : Bool :=
  decide (0 < p.floor ∧ p.floor ≤ p.ceiling ∧ 0 < p.wm ∧ 0 ≤ p.exponent ∧ p.exponent ≤ one ∧
    p.exponent % 10000000000000000 = 0 ∧ 0 ≤ m)

def warm (c : Cache) (bins : List (Option Int)) : Cache :=
  bins.foldl (fun c b => match b with | some b => (rootC c (ofInt b)).2 | none => c) c

def collapsed (c : Cache) (b : Option Int) : Bool :=
  match b with
  | some b => b > 496 && (oracle c (ofInt b) == .err)
  | none => false

def step (c : Cache) (pre post : List String) : Cache × Verdict :=
  match pre with
  | ["root", d, r] =>
    match d.toInt?, r.toNat? with
    | some d, some r =>
      let (o, c) := if r = 100 then rootC c d else (approxRoot d r driverFuel, c)
      let v : Verdict :=
        match post with
        | [i] =>
          -- termination is part of the property on the domain the reward code uses
          if i = "TIMEOUT" && r = 100 && d ≥ 0 && d % P = 0 then .propfail "approxroot-nontermination" s!"d={d} root={r}"
          else cmp (outStr "ERR" o) i
        | _ => .bad "arity"
      (c, v)
    | _, _ => (c, .bad "args")
  | ["fp", d, e] =>
    match d.toInt?, e.toInt? with
    | some d, some e =>
      let c := (rootC c d).2
      let o := fracPowR (oracle c) d e 100
      let v : Verdict :=
        match post with
        | [i] =>
          if i = "TIMEOUT" && d ≥ 0 && d % P = 0 && 0 ≤ e && e ≤ one then .propfail "fracpow-nontermination" s!"d={d} e={e}"
          else if d ≥ 0 && 0 ≤ e && (match i.toInt? with | some x => x < 0 | none => false) then .propfail "fracpow-negative" s!"d={d} e={e} impl={i}"
          else cmp (outStr "PANIC" o) i
        | _ => .bad "arity"
      (c, v)
    | _, _ => (c, .bad "args")
  | ["fprow", b] =>
    match b.toInt? with
    | some b =>
      let d := ofInt b
      let c := (rootC c d).2
      let c := (rootC c (ofInt (b - 1))).2
      let ks : List Int := (List.range 101).map Int.ofNat
      let model := ks.map fun k => outStr "PANIC" (fracPowR (oracle c) d (k * 10000000000000000) 100)
      let prev := ks.map fun k => fracPowR (oracle c) (ofInt (b - 1)) (k * 10000000000000000) 100
      let v : Verdict :=
        if post.length ≠ 101 then .bad "arity"
        else if post.any (· = "TIMEOUT") then .propfail "fracpow-nontermination" s!"bin={b}"
        else if post.any (fun i => match i.toInt? with | some x => x < 0 | none => false) then .propfail "fracpow-negative" s!"bin={b}"
        else
          -- monotone in the bin, judged on the implementation's row against the (model) row below
          let dec := (post.zip prev).any fun (i, pv) =>
            match i.toInt?, pv with
            | some x, .val y => b ≥ 1 && x < y
            | _, _ => false
          if dec then
            if collapsed c (some b) && !(collapsed c (some (b - 1))) then knownSig "fracpow-overflow-to-one" s!"bin={b}: FracPow(bin) < FracPow(bin-1)" (cmp (" ".intercalate model) (" ".intercalate post))
            else .propfail "fracpow-nonmonotone-bin" s!"bin={b}"
          else cmp (" ".intercalate model) (" ".intercalate post)
      (c, v)
    | none => (c, .bad "args")
  | [op, f, cl, w, e, m, x, y, z] =>
    match ints [f, cl, w, e, m, x, y, z] with
    | some [f, cl, w, e, m, x, y, z] =>
      let p : Pip22 := ⟨f, cl, w, e⟩
      match op, post with
      | "rew", [i1, i2] =>
        -- x = relays, y ≤ z stakes
        let c := warm c [rewardBin p y, rewardBin p z]
        let m1 := calculateRewardR (oracle c) p x y m
        let m2 := calculateRewardR (oracle c) p x z m
        let valid := validParams p m && decide (0 ≤ x ∧ 0 ≤ y ∧ y ≤ z)
        let v : Verdict :=
          if valid && (i1 = "TIMEOUT" || i2 = "TIMEOUT") then .propfail "reward-nontermination" s!"{pre}"
          else match i1.toInt?, i2.toInt? with
            | some a, some b =>
              if !valid then cmp s!"{outStr "PANIC" m1} {outStr "PANIC" m2}" s!"{i1} {i2}"
              else if a < 0 || b < 0 then .propfail "reward-negative" s!"{pre} impl={i1},{i2}"
              else if a > b then
                if collapsed c (rewardBin p z) then knownSig "fracpow-overflow-to-one" s!"reward decreases with stake: {pre} impl={i1},{i2}" (cmp s!"{outStr "PANIC" m1} {outStr "PANIC" m2}" s!"{i1} {i2}")
                else .propfail "reward-nonmonotone-stake" s!"{pre} impl={i1},{i2}"
              else if y ≥ cl && a ≠ b then .propfail "reward-not-constant-above-ceiling" s!"{pre} impl={i1},{i2}"
              else cmp s!"{outStr "PANIC" m1} {outStr "PANIC" m2}" s!"{i1} {i2}"
            | _, _ => cmp s!"{outStr "PANIC" m1} {outStr "PANIC" m2}" s!"{i1} {i2}"
        (c, v)
      | "rewr", [i1, i2] =>
        -- x ≤ y relays, z stake
        let c := warm c [rewardBin p z]
        let m1 := calculateRewardR (oracle c) p x z m
        let m2 := calculateRewardR (oracle c) p y z m
        let valid := validParams p m && decide (0 ≤ x ∧ x ≤ y ∧ 0 ≤ z)
        let v : Verdict :=
          if valid && (i1 = "TIMEOUT" || i2 = "TIMEOUT") then .propfail "reward-nontermination" s!"{pre}"
          else match i1.toInt?, i2.toInt? with
            | some a, some b =>
              if valid && (a < 0 || b < 0) then .propfail "reward-negative" s!"{pre} impl={i1},{i2}"
              else if valid && a > b then .propfail "reward-nonmonotone-relays" s!"{pre} impl={i1},{i2}"
              else cmp s!"{outStr "PANIC" m1} {outStr "PANIC" m2}" s!"{i1} {i2}"
            | _, _ => cmp s!"{outStr "PANIC" m1} {outStr "PANIC" m2}" s!"{i1} {i2}"
        (c, v)
      | "burn", [i1, i2] =>
        -- x = challenges, y ≤ z stakes; the implementation reports tokens removed = min(coins, stake)
        let c := warm c [burnBin p y, burnBin p z]
        let o1 := burnForChallengeR (oracle c) p x y m
        let o2 := burnForChallengeR (oracle c) p x z m
        let sl (o : Out) (s : Int) : String :=
          match o with
          | .val coins => toString (slashed coins s)
          | .err => "PANIC"
          | .timeout => "TIMEOUT"
        let valid := validParams p m && decide (0 ≤ x ∧ 0 ≤ y ∧ y ≤ z)
        let quirk (s : Int) : Bool := burnBin p s != rewardBin p s
        let v : Verdict :=
          if valid && (i1 = "TIMEOUT" || i2 = "TIMEOUT") then .propfail "burn-nontermination" s!"{pre}"
          else match i1.toInt?, i2.toInt? with
            | some a, some b =>
              -- the computed amounts are observable only when not capped by the stake
              if !valid || a ≥ y || b ≥ z then cmp s!"{sl o1 y} {sl o2 z}" s!"{i1} {i2}"
              else if a < 0 || b < 0 then .propfail "burn-negative" s!"{pre} impl={i1},{i2}"
              else if a > b then
                if quirk z then knownSig "burn-nonmonotone-floor" s!"burn decreases with stake: {pre} impl={i1},{i2}" (cmp s!"{sl o1 y} {sl o2 z}" s!"{i1} {i2}")
                else if collapsed c (burnBin p z) then knownSig "fracpow-overflow-to-one" s!"burn decreases with stake: {pre} impl={i1},{i2}" (cmp s!"{sl o1 y} {sl o2 z}" s!"{i1} {i2}")
                else .propfail "burn-nonmonotone-stake" s!"{pre} impl={i1},{i2}"
              else if y ≥ cl && a ≠ b then
                if quirk y || quirk z then knownSig "burn-nonmonotone-floor" s!"burn not constant above the ceiling: {pre} impl={i1},{i2}" (cmp s!"{sl o1 y} {sl o2 z}" s!"{i1} {i2}")
                else .propfail "burn-not-constant-above-ceiling" s!"{pre} impl={i1},{i2}"
              else cmp s!"{sl o1 y} {sl o2 z}" s!"{i1} {i2}"
            | _, _ => cmp s!"{sl o1 y} {sl o2 z}" s!"{i1} {i2}"
        (c, v)
      | _, _ => (c, .bad "op/arity")
    | _ => (c, .bad "ints")
  | _ => (c, .bad "op")

def main : IO Unit := Proto.run ({} : Cache) step
