import PocketModel.Basic.Proto
import PocketModel.Crypto.Sig
/-! Driver for C39: key dispatch / encodings / addresses / multisig composition.  Stateless.
Primitive verification verdicts (ed25519, secp256k1, nested members) arrive as data. -/
open Crypto

partial def renderKey : Key → String
  | .ed r => "e:" ++ Bytes.toHex r
  | .secp r => "s:" ++ Bytes.toHex r
  | .multi ks => "m[" ++ ";".intercalate (ks.map renderKey) ++ "]"
  | .nil => "n"

mutual
partial def parseKeyC : List Char → Option (Key × List Char)
  | 'n' :: rest => some (.nil, rest)
  | 'e' :: ':' :: rest =>
    let h := rest.takeWhile (fun c => c ≠ ';' ∧ c ≠ ']')
    (Bytes.ofHexChars h).map fun b => (.ed b, rest.drop h.length)
  | 's' :: ':' :: rest =>
    let h := rest.takeWhile (fun c => c ≠ ';' ∧ c ≠ ']')
    (Bytes.ofHexChars h).map fun b => (.secp b, rest.drop h.length)
  | 'm' :: '[' :: ']' :: rest => some (.multi [], rest)
  | 'm' :: '[' :: rest => (parseMembers rest).map fun (ks, r) => (.multi ks, r)
  | _ => none
partial def parseMembers (cs : List Char) : Option (List Key × List Char) :=
  match parseKeyC cs with
  | none => none
  | some (k, ';' :: rest) => (parseMembers rest).map fun (ks, r) => (k :: ks, r)
  | some (k, ']' :: rest) => some ([k], rest)
  | _ => none
end

def parseKey (s : String) : Option Key :=
  match parseKeyC s.toList with
  | some (k, []) => some k
  | _ => none

def renderOptKey : Option Key → String
  | none => "ERR"
  | some k => renderKey k

def parseSigs (s : String) : Option (List Bytes) :=
  if s = "-" then some [] else (s.splitOn ",").mapM fun x => if x = "~" then some [] else Bytes.parse x

def renderSigs (l : List Bytes) : String :=
  if l.isEmpty then "-" else ",".intercalate (l.map fun b => if b.isEmpty then "~" else Bytes.toHex b)

def cmp (model : String) (impl : List String) : Verdict :=
  let i := " ".intercalate impl
  if model = i then .ok else .diff s!"model={model} impl={i}"

def optBool : Option Bool → String
  | none => "PANIC"
  | some b => toString b

def members : Key → List Key
  | .multi ks => ks
  | _ => []

def hasNil : Key → Bool
  | .multi ks => ks.any fun k => match k with | .nil => true | _ => false
  | _ => false

def sigOfLabel (label : String) : String :=
  if label.startsWith "dupkey-" then "mutated-sig-accepted"   -- repeated member key, one bad slot
  else if label.startsWith "swap" || label.startsWith "rotate" then "multisig-order-ignored"
  else if label.startsWith "omit" || label = "nosigs" then "multisig-fewer-accepted"
  else if label.startsWith "dup" || label.startsWith "extra" || label = "emptykey-extra" then "multisig-extra-or-duplicate-accepted"
  else "mutated-sig-accepted"

def step (_ : Unit) (pre post : List String) : Unit × Verdict :=
  let v : Verdict :=
    match pre with
    | ["consts"] =>
      cmp s!"{Bytes.toHex pfxEd} {Bytes.toHex pfxSecp} {Bytes.toHex pfxMulti} {Bytes.toHex pfxMsig} {edSize} {secpSize}" post
    | ["enc", k] =>
      match parseKey k with
      | some key => cmp s!"{Bytes.render key.amino} {Bytes.render key.rawBytes}" post
      | none => .bad "key"
    | ["rt", k] =>
      match parseKey k with
      | some key =>
        match post with
        | [k2, k3, a, a2, a3] =>
          if k2 ≠ k || k3 ≠ k then .propfail "key-roundtrip-changed" s!"key={k} viaRaw={k2} viaAmino={k3}"
          else if a2 ≠ a || a3 ≠ a then .propfail "address-changed" s!"key={k} {a} {a2} {a3}"
          else
            let m2 := renderOptKey (newPublicKeyBz key.rawBytes)
            let m3 := renderOptKey (pubKeyFromBytes key.amino)
            if m2 = k2 ∧ m3 = k3 then .ok else .diff s!"model={m2} {m3} impl={k2} {k3}"
        | _ => .propfail "key-roundtrip-changed" s!"key={k} result={post}"
      | none => .bad "key"
    | ["addr", k, hr, ha, rr] =>
      match parseKey k, Bytes.parse hr, Bytes.parse ha, Bytes.parse rr with
      | some key, some hraw, some ham, some rip =>
        -- oracle table for the hash parameters
        let H : Bytes → Bytes := fun x => if x = key.amino then ham else hraw
        let R : Bytes → Bytes := fun _ => rip
        let a := key.address H R
        if a.length ≠ 20 then .diff "model address length" else cmp (Bytes.render a) post
      | _, _, _, _ => .bad "args"
    | ["new", b] =>
      match Bytes.parse b with
      | some bz => cmp (renderOptKey (newPublicKeyBz bz)) post
      | none => .bad "bytes"
    | ["pkfb", b] =>
      match Bytes.parse b with
      | some bz => cmp (renderOptKey (pubKeyFromBytes bz)) post
      | none => .bad "bytes"
    | ["json", k] =>
      match parseKey k with
      | some key =>
        match post with
        | [j, k2] =>
          if k2 ≠ k then .propfail "key-roundtrip-changed" s!"json key={k} back={k2}"
          else cmp ("\"" ++ Bytes.toHex key.rawBytes ++ "\" " ++ renderOptKey (newPublicKeyBz key.rawBytes)) [j, k2]
        | _ => .propfail "key-roundtrip-changed" s!"json key={k} result={post}"
      | none => .bad "key"
    | ["ver", _kind, label, k, _m, _s] =>
      match post with
      | ["true"] =>
        if label = "ok" then .ok
        else if label = "key" || label = "other" then .propfail "wrong-key-accepted" s!"{label} key={k}"
        else .propfail "mutated-sig-accepted" s!"{label} key={k}"
      | ["false"] => if label = "ok" then .propfail "valid-sig-rejected" s!"key={k}" else .ok
      | _ => if label = "ok" then .propfail "valid-sig-rejected" s!"key={k} result={post}" else .diff s!"verify result {post}"
    | ["msv", label, k, sb, dec, prims, truth] =>
      match parseKey k, Bytes.parse sb with
      | some key, some sbz =>
        let ks := members key
        let mdec := decodeMultiSig sbz
        let mdecS := match mdec with | none => "DECERR" | some l => renderSigs l
        let implDec := if dec = "DECERR" then "DECERR" else match parseSigs dec with | some l => renderSigs l | none => "?"
        if mdecS ≠ implDec then .diff s!"multisig decode model={mdecS} impl={dec}"
        else
          let pr := prims.toList
          let vm : Nat → Bytes → Bytes → Option Bool := fun i _ _ =>
            match pr[i]? with
            | some '1' => some true
            | some '0' => some false
            | some 'p' => none
            | _ => some false
          let ksI : List (Option Nat) := ks.zipIdx.map fun (kk, i) => match kk with | .nil => none | _ => some i
          let model : Option Bool := match mdec with
            | none => some false
            | some sigs => multisigVerifyP vm ksI [] sigs
          let i := " ".intercalate post
          -- executable specification on the implementation's own verdict (well-formed keys only)
          let tr := if truth = "-" then [] else truth.toList
          let nsigs := match mdec with | none => 0 | some l => l.length
          let specAccept := mdec.isSome && nsigs == ks.length && tr.length == nsigs && tr.all (· = '1')
          if !hasNil key && i = "true" && !specAccept then .propfail (sigOfLabel label) s!"{label} key={k} sigs={dec} truth={truth}"
          else if !hasNil key && i ≠ "true" && specAccept then .propfail "valid-sig-rejected" s!"{label} key={k} result={i}"
          else cmp (optBool model) post
      | _, _ => .bad "args"
    | ["eq", a, b] =>
      match parseKey a, parseKey b with
      | some ka, some kb => cmp (optBool (ka.equals kb)) post
      | _, _ => .bad "keys"
    | ["addsig", ss, idx, sg] =>
      match parseSigs ss, idx.toNat?, Bytes.parse sg with
      | some sigs, some i, some sig =>
        let m := addSignatureByIndex sigs sig i
        match post with
        | [r] =>
          match parseSigs r with
          | some res =>
            -- spec: the signature is found at the requested index, earlier entries are kept
            if res[i]? ≠ some sig || res.length ≠ max sigs.length (i + 1)
               || !((List.range sigs.length).all fun j => j = i || res[j]? = sigs[j]?) then
              .propfail "addsig-index-misplaced" s!"sigs={ss} index={idx} sig={sg} result={r}"
            else cmp (renderSigs m) [renderSigs res]
          | none => .bad "result"
        | _ => .bad "arity"
      | _, _, _ => .bad "args"
    | ["assemble", n, order] =>
      match n.toNat?, (order.splitOn ",").mapM String.toNat? with
      | some nk, some ord =>
        let sigOf (j : Nat) : Bytes := [UInt8.ofNat (j + 1)]
        let final := assemble sigOf ord
        let pos := ",".intercalate (final.map fun s => match (List.range nk).find? (fun j => sigOf j = s) with | some j => toString j | none => "x")
        let ok := multisigVerify (fun (j : Nat) _ s => s == sigOf j) (List.range nk) [] final
        let isPerm := ord.length = nk ∧ (List.range nk).all fun j => ord.contains j
        match post with
        | [_, verdict] =>
          if isPerm ∧ verdict ≠ "true" then .propfail "assembled-multisig-rejected" s!"n={n} signing-order={order} result={post}"
          else cmp s!"{pos} {ok}" post
        | _ => .diff s!"assemble result {post}"
      | _, _ => .bad "args"
    | _ => .bad "op"
  ((), v)

def main : IO Unit := Proto.run () step
