import PocketModel.Basic.Proto
import PocketModel.Store.HeightCache
/-!
Driver for C10.  State: the model variant selected by the `mode` line and, per store name, the model
of the cache-on store and of the cache-off store, both fed the same history.

Every read line carries the answers of both real twins.  Verdict:
* twins disagree (the property's executable spec `on = off` fails on the implementation's own output):
  `PROPFAIL <sig>`; when both answers are exactly what the selected model predicts the signature names
  the modelled defect, otherwise it ends in `-unmodelled` (a behaviour the model does not have);
* twins agree but one of them differs from the model: `DIFF`.
-/
open HeightCache

structure Entry where
  name : String
  on : Store
  off : Store

structure St where
  V : Variant
  fixedMode : Bool
  stores : List Entry

def renderItems (l : List (Bytes × Bytes)) : String :=
  if l.isEmpty then "." else ";".intercalate (l.map fun p => s!"{Bytes.render p.1}={Bytes.render p.2}")

def renderResult : Result → String
  | .val v => Bytes.renderOpt v
  | .bool b => toString b
  | .items r => s!"{renderItems r.items} {if r.panicked then "panic" else "ok"}"

def renderKeys (r : IterResult) : String :=
  if r.panicked then "PANIC" else if r.items.isEmpty then "." else ";".intercalate (r.items.map fun p => Bytes.render p.1)

/-- the harness' `probe()` script on the model -/
def probeModel (V : Variant) : List String :=
  let c := (Cache.new 2).initialize [] 0
  let c := { c with curData := (c.curData.set [0x62] [0x31]).set [0x64] [0x32] }
  let c := (c.commit V 1).commit V 2
  let it (s e : Option Bytes) (asc : Bool) := match c.iter V 1 s e asc with | some r => renderKeys r | none => "err"
  [ (match c.get V 1 [0x78] with | some v => Bytes.renderOpt v | none => "err"),
    it none none true,
    it (some [0x61]) (some [0x64]) false,
    it (some [0x63]) none true,
    it none (some [0x65]) false,
    it none (some []) true ]

def findEntry (st : St) (n : String) : Option Entry := st.stores.find? (·.name = n)

def updEntry (st : St) (n : String) (f : Entry → Entry) : St :=
  { st with stores := st.stores.map fun e => if e.name = n then f e else e }

def viewOf (s : Store) (h : Int) : Option Store := if h = 0 then some s else s.lazyLoad h

def dropEmptyKeys (l : List (Bytes × Bytes)) : List (Bytes × Bytes) := l.filter fun p => p.1 ≠ []

/-- name of the modelled defect behind a twin difference that the model reproduces exactly -/
def classify (r : Read) (on off : Result) (view : Store) : String :=
  match r, on, off with
  | .get _, .val (some []), .val none => "get-absent-nonnil"
  | .getW _, .val (some []), .val none => "get-absent-nonnil"
  | .hasW _, .bool true, .bool false => "hasw-absent-true"
  | .iter s e asc, .items a, .items b => it s e asc a b
  | .iterW s e asc, .items a, .items b => it s e asc a b
  | .get _, _, _ => "get-differs"
  | .getW _, _, _ => "get-differs"
  | .has _, _, _ => "has-differs"
  | .hasW _, _, _ => "hasw-differs"
  | _, _, _ => "iter-differs"
where
  it (s e : Option Bytes) (asc : Bool) (a b : IterResult) : String :=
    if e = some [] then "iter-empty-end-unbounded"
    else if a.panicked then "riter-index-underflow"
    else if str s ≠ [] ∧ str e = [] then "iter-open-end-swapped"
    else if dropEmptyKeys a.items = dropEmptyKeys b.items ∧ b.items.length < a.items.length then "iter-spurious-empty-keys"
    else if !asc ∧ str e ≠ [] ∧ (view.working.get (str e)).isSome ∧ a.items = [] then "riter-end-key-dropped"
    else "iter-differs"

def kindOf : Read → String
  | .get _ => "get" | .getW _ => "get" | .has _ => "has" | .hasW _ => "hasw"
  | .iter _ _ asc => if asc then "iter" else "riter"
  | .iterW _ _ asc => if asc then "iter" else "riter"

def judge (st : St) (n : String) (h : Int) (r : Read) (implOn implOff : String) (line : String) : Verdict :=
  match findEntry st n with
  | none => .bad s!"unknown store {n}"
  | some e =>
    match viewOf e.on h, viewOf e.off h with
    | some von, some voff =>
      let mOn := von.read st.V r
      let mOff := voff.read st.V r
      let agrees := renderResult mOn = implOn ∧ renderResult mOff = implOff
      if implOn ≠ implOff then
        if agrees then .propfail (classify r mOn mOff von) line
        else .propfail s!"{kindOf r}-differs-unmodelled" s!"{line} model-on={renderResult mOn} model-off={renderResult mOff}"
      else if agrees then .ok
      else .diff s!"model-on={renderResult mOn} model-off={renderResult mOff} impl-on={implOn} impl-off={implOff}"
    | _, _ => .bad s!"version {h} not saved in the model"

def step (st : St) (pre post : List String) : St × Verdict :=
  let line := " ".intercalate pre
  match pre with
  | ["mode", m] =>
    if m = "asis" then
      ({ st with V := asIs, fixedMode := false }, if probeModel asIs = post then .ok else .diff s!"probe: as-is model answers {probeModel asIs}")
    else if m = "fixed" then
      ({ st with V := fixed, fixedMode := true }, if probeModel fixed = post then .ok else .diff s!"probe: fixed model answers {probeModel fixed}")
    else (st, .diff s!"heightcache matches neither the as-is nor the fixed model: probe {post}")
  | ["open", n, cap] =>
    match cap.toNat? with
    | some c => ({ st with stores := ⟨n, Store.fresh (some c), Store.fresh none⟩ :: st.stores.filter (·.name ≠ n) }, .ok)
    | none => (st, .bad "cap")
  | ["end"] => ({ st with stores := [] }, .ok)
  | ["set", n, k, v] =>
    match Bytes.parse k, Bytes.parse v with
    | some k, some v => (updEntry st n fun e => { e with on := e.on.step st.V (.set k v), off := e.off.step st.V (.set k v) }, .ok)
    | _, _ => (st, .bad "set")
  | ["del", n, k] =>
    match Bytes.parse k with
    | some k => (updEntry st n fun e => { e with on := e.on.step st.V (.del k), off := e.off.step st.V (.del k) }, .ok)
    | none => (st, .bad "del")
  | [op] =>
    if op = "commit" ∨ op = "reopen" then
      let o : Op := if op = "commit" then .commit else .reopen
      let st' := { st with stores := st.stores.map fun e => { e with on := e.on.step st.V o, off := e.off.step st.V o } }
      let want := st'.stores.map fun e => s!"{e.on.version} {e.off.version}"
      (st', if want.all (· = " ".intercalate post) then .ok else .diff s!"versions: model {want} impl {post}")
    else (st, .bad "op")
  | [op, n, h, k] =>
    match h.toInt?, Bytes.parse k, post with
    | some h, some k, [a, b] =>
      let r : Option Read := match op with
        | "get" => some (.get k) | "getw" => some (.getW k) | "has" => some (.has k) | "hasw" => some (.hasW k) | _ => none
      match r with
      | some r => (st, judge st n h r a b line)
      | none => (st, .bad "op")
    | _, _, _ => (st, .bad "point read")
  | [op, n, h, s, e] =>
    match h.toInt?, Bytes.parseOpt s, Bytes.parseOpt e, post with
    | some h, some s, some e, [la, sa, lb, sb] =>
      let r : Option Read := match op with
        | "iter" => some (.iter s e true) | "riter" => some (.iter s e false)
        | "iterw" => some (.iterW s e true) | "riterw" => some (.iterW s e false) | _ => none
      match r with
      | some r => (st, judge st n h r s!"{la} {sa}" s!"{lb} {sb}" line)
      | none => (st, .bad "op")
    | _, _, _, _ => (st, .bad "range read")
  | _ => (st, .bad "line")

def main : IO Unit := Proto.run (⟨asIs, false, []⟩ : St) step
