import PocketModel.Store.IavlProofDriver
/-! Driver for C05: see `PocketModel/Store/IavlProofDriver.lean`. -/
def main : IO Unit := Proto.run C05Driver.init C05Driver.step
