import PocketModel.Ledger.BankProto
import PocketModel.Ledger.Gov
/-! Driver for C36: signed gov transactions through the real DeliverTx.  Transition checking: the
model steps from the implementation's previous dump; the executable spec (authorisation and
exactness) judges the implementation's own before/after dumps. -/
open Ledger Ledger.BankProto

structure St where
  mt : ModTable := []
  prev : Option GovState := none

def parsePairs (s : String) : Option (List (String × String)) :=
  if s = "-" then some [] else
  (s.splitOn ",").mapM fun p =>
    match p.splitOn "=" with
    | [k, v] => some (k, v)
    | _ => none

def parseACLPairs (s : String) : Option ACL := do
  let ps ← parsePairs s
  ps.mapM fun (k, v) => do pure (k, ← Bytes.parse v)

/-- `S=… A=… ACL=… DO=… P=…` -/
def parseGov (ws : List String) : Option GovState :=
  match ws with
  | [s, a, acl, dow, p] =>
    if acl.startsWith "ACL=" && dow.startsWith "DO=" && p.startsWith "P=" then do
      let b ← parseBank [s, a]
      let ac ← parseACLPairs (acl.drop 4).toString
      let d ← Bytes.parse (dow.drop 3).toString
      let ps ← parsePairs (p.drop 2).toString
      pure { bank := b, acl := ac, daoOwner := d, params := ps }
    else none
  | _ => none

def deductFee (b : Bank) (fc : Addr) (src : Addr) (fee : Int) : Option Bank :=
  match b.accts.get src with
  | none => none
  | some a =>
    if a.bal < fee then none
    else
      let o := Bank.sendCoins b src fc fee
      if o.err.isSome then none else some o.st

def parseVal (s : String) : Option ParamVal :=
  match s.splitOn ":" with
  | ["undecodable"] => some .undecodable
  | ["plain", d] => some (.plain d)
  | ["acl", d, ps] => do pure (.acl (← parseACLPairs ps) d)
  | ["owner", d, a] => do pure (.owner (← Bytes.parse a) d)
  | _ => none

/-- same association (as maps, both without duplicate keys) -/
def sameParams (a b : Params) : Bool :=
  a.length == b.length && a.all fun p => b.get p.1 == some p.2

def addrsOf (a b : Accounts) : List Addr := (a.map (·.1) ++ b.map (·.1)).eraseDups

/-- every balance of `post` equals the balance of `base` plus `delta addr`, no module kind changed -/
def balancesMatch (base post : Bank) (delta : Addr → Int) : Bool :=
  (addrsOf base.accts post.accts).all fun a =>
    post.balOf a == base.balOf a + delta a &&
    (match base.accts.get a, post.accts.get a with
     | some x, some y => x.module == y.module
     | some _, none => false
     | _, _ => true)

def govSame (a b : GovState) : Bool := a.acl == b.acl && a.daoOwner == b.daoOwner && sameParams a.params b.params

def finish (s : St) (post : GovState) (line : String) (codeOk : Bool) (mres : GovOut) (mfee : Option Bank)
    (mvalid : Bool) (pre : GovState) : St × Verdict :=
  -- model outcome: ValidateBasic, ante fee, handler
  let (mst, mok) : GovState × Bool :=
    if !mvalid then (pre, false)
    else match mfee with
      | none => (pre, false)
      | some _ => (mres.st, mres.err.isNone)
  let s' := { s with prev := some post }
  if mok ≠ codeOk then (s', .diff s!"{line}: model ok={mok}")
  else if mst.bank.supply ≠ post.bank.supply || !sameAccts post.bank.accts mst.bank.accts then
    (s', .diff s!"{line}: {firstDiff post.bank.accts mst.bank.accts}")
  else if !govSame mst post then (s', .diff s!"{line}: acl/daoOwner/params differ from the model")
  else (s', .ok)

def step (s : St) (pre post : List String) : St × Verdict :=
  match pre, s.prev with
  | ["init", mods], _ =>
    match parseMods mods, parseGov post with
    | some mt, some g => ({ mt := mt, prev := some g }, (invVerdict g.bank "genesis").getD .ok)
    | _, _ => (s, .bad "init")
  | ["sync", what], some p =>
    match parseGov post with
    | some g =>
      let s' := { s with prev := some g }
      match invVerdict g.bank s!"sync {what}" with
      | some v => (s', v)
      | none =>
        -- outside transactions only the feature-activation hook of the gov BeginBlocker may touch the
        -- ACL (x/gov/module.go activateAdditionalParametersACL): new keys, owned by the DAO owner,
        -- and the new parameters themselves appear; nothing that existed may change
        let aclOk := p.acl.all (fun e => g.acl.getOwner e.1 == p.acl.getOwner e.1) &&
          g.acl.all (fun e => p.acl.any (fun e' => e'.1 == e.1) || e.2 == p.daoOwner)
        let parOk := p.params.all (fun e => e.1 == "gov/acl" || g.params.get e.1 == some e.2)
        if !(aclOk && parOk && g.daoOwner == p.daoOwner) then
          (s', .propfail "nonowner-changed-param" s!"parameters or ACL owners changed outside a transaction ({what})")
        else (s', .ok)
    | none => (s, .bad "sync")
  | kind :: sg :: rest, some p =>
    match Bytes.parse sg, post with
    | some signer, code :: _cs :: gw =>
      match parseGov gw with
      | none => (s, .bad "gov dump")
      | some g =>
        let s' := { s with prev := some g }
        let line := " ".intercalate pre ++ s!" code={code}"
        let codeOk := code = "0"
        let fc := match s.mt.find "fee_collector" with | some m => m.addr | none => []
        let dao := match s.mt.find "dao" with | some m => m.addr | none => []
        match invVerdict g.bank line with
        | some v => (s', v)
        | none =>
        let feeOf (w : String) : Int := w.toInt?.getD 0
        -- which ante outcome explains the fee collector's balance (the handler may also credit it)
        let feeBase (fee : Int) (credit : Int) : Option Bank :=
          let charged := g.bank.balOf fc - p.bank.balOf fc - credit
          if signer = fc then some p.bank
          else if charged = fee then deductFee p.bank fc signer fee
          else if charged = 0 then some p.bank
          else none
        match kind, rest with
        | "kparam", [key0, wf, reg, vs, hs, sp] =>
          -- the gov handler called directly at block height `hs` (no ante handler, no fee)
          let key := if key0 = "~" then "" else key0
          match parseVal vs, Proto.parseBool wf, Proto.parseBool reg, hs.toInt?, Proto.parseBool sp with
          | some val, some wfb, some regb, some hi, some split =>
            if !govSame p g && signer ≠ p.acl.getOwner key then (s', .propfail "nonowner-changed-param" line)
            else if !balancesMatch p.bank g.bank (fun _ => 0) || g.bank.supply ≠ p.bank.supply then
              (s', .propfail "gov-msg-moved-funds" line)
            else
              let o := Gov.changeParam p hi split ⟨wfb, regb⟩ key val signer
              finish s g line codeOk o (some p.bank) true p
          | _, _, _, _, _ => (s, .bad "kparam args")
        | "param", [key0, wf, reg, vs, fe] =>
          let key := if key0 = "~" then "" else key0
          match parseVal vs, Proto.parseBool wf, Proto.parseBool reg with
          | some val, some wfb, some regb =>
            let fee := feeOf fe
            let changed := !govSame p g
            if changed && signer ≠ p.acl.getOwner key then (s', .propfail "nonowner-changed-param" line)
            else match feeBase fee 0 with
              | none => (s', .propfail "gov-msg-moved-funds" s!"{line}: fee collector")
              | some base =>
                if !balancesMatch base g.bank (fun _ => 0) || g.bank.supply ≠ p.bank.supply then
                  (s', .propfail "gov-msg-moved-funds" line)
                else
                  let mfee := deductFee p.bank fc signer fee
                  let pst := { p with bank := mfee.getD p.bank }
                  let o := Gov.changeParam pst g.bank.supply true ⟨wfb, regb⟩ key val signer
                  -- heights in the harness stay far below 40000 and the split is active: guard off
                  let o := if o.err = some .heightGuard then Gov.changeParam pst 0 true ⟨wfb, regb⟩ key val signer else o
                  finish s g line codeOk o mfee (signer ≠ [] && key ≠ "") p
          | _, _, _ => (s, .bad "param args")
        | "upgrade", [fe] =>
          let fee := feeOf fe
          let changed := !govSame p g
          if changed && signer ≠ p.acl.getOwner upgradeKey then (s', .propfail "nonowner-changed-param" line)
          else match feeBase fee 0 with
            | none => (s', .propfail "gov-msg-moved-funds" s!"{line}: fee collector")
            | some base =>
              if !balancesMatch base g.bank (fun _ => 0) || g.bank.supply ≠ p.bank.supply then
                (s', .propfail "gov-msg-moved-funds" line)
              else if !(g.acl == p.acl && g.daoOwner == p.daoOwner) then
                (s', .propfail "nonowner-changed-param" s!"{line}: an upgrade changed the ACL or the DAO owner")
              else
                let mfee := deductFee p.bank fc signer fee
                let pst := { p with bank := mfee.getD p.bank }
                -- the merged upgrade value is C37's subject: take the implementation's stored digest
                let o := Gov.upgrade pst (g.params.get upgradeKey) signer
                finish s g line codeOk o mfee true p
        | "dao", [to, am, bu, fe] =>
          match Bytes.parse to, am.toInt?, Proto.parseBool bu with
          | some dst, some amt, some burn =>
            let fee := feeOf fe
            if !govSame p g then (s', .propfail "nonowner-changed-param" s!"{line}: a DAO message changed parameters")
            else
              let credit : Int := if codeOk && !burn && dst = fc && dao ≠ fc then amt else 0
              match feeBase fee credit with
              | none => (s', .propfail "dao-amount-inexact" s!"{line}: fee collector")
              | some base =>
                let moved := !balancesMatch base g.bank (fun _ => 0) || g.bank.supply ≠ p.bank.supply
                if moved && signer ≠ p.daoOwner then (s', .propfail "dao-moved-by-nonowner" line)
                else
                  let exact : Bool :=
                    if codeOk then
                      if burn then
                        balancesMatch base g.bank (fun a => if a = dao then -amt else 0) && g.bank.supply = p.bank.supply - amt
                      else
                        balancesMatch base g.bank (fun a => (if a = dao then -amt else 0) + (if a = dst then amt else 0))
                          && g.bank.supply = p.bank.supply
                    else !moved
                  if !exact then (s', .propfail "dao-amount-inexact" line)
                  else if codeOk && (amt ≤ 0 || base.balOf dao < amt) then
                    (s', .propfail "dao-amount-inexact" s!"{line}: accepted beyond the DAO balance")
                  else
                    let mfee := deductFee p.bank fc signer fee
                    let pst := { p with bank := mfee.getD p.bank }
                    let o := if burn then Gov.msgDAOBurn s.mt pst signer amt else Gov.msgDAOTransfer s.mt pst signer dst amt
                    finish s g line codeOk o mfee (signer ≠ [] && amt ≠ 0 && (burn || dst ≠ [])) p
          | _, _, _ => (s, .bad "dao args")
        | _, _ => (s, .bad "kind")
    | _, _ => (s, .bad "line")
  | _, _ => (s, .bad "line")

def main : IO Unit := Proto.run ({} : St) step
