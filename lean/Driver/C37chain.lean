import PocketModel.Basic.Proto
import PocketModel.Upgrade
/-! Driver for the chain-level half of C37: signed `MsgUpgrade` transactions through the real app,
then a restart in a fresh process.  The model is `PocketModel/Upgrade.lean` (pure builder's);
this driver adds the ACL/ValidateBasic gate and judges the restart on the implementation's own
dumps. -/
open Upgrade

structure St where
  g : Globals := {}
  stored : Upgrade.Upgrade := {}
  ready : Bool := false
  /-- an accepted upgrade went through the pre-codec branch of `HandleUpgrade` in this scenario -/
  preCodec : Bool := false

def field (pfx : String) (w : String) : Option String :=
  if w.startsWith pfx then some (w.drop pfx.length).toString else none

def parseHexList (s : String) : Option (List Bytes) :=
  if s = "-" then some [] else (s.splitOn ",").mapM Bytes.parse

def parseFM (s : String) : Option FMap :=
  if s = "-" then some [] else
  (s.splitOn ",").mapM fun e =>
    match e.splitOn ":" with
    | [k, v] => do pure (← Bytes.parse k, ← v.toInt?)
    | _ => none

/-- `UH=… OUH=… FM=…` -/
def parseGlob : List String → Option Globals
  | [a, b, c] => do
    let uh ← (← field "UH=" a).toInt?
    let ouh ← (← field "OUH=" b).toInt?
    let fm ← parseFM (← field "FM=" c)
    pure { upgradeHeight := uh, oldUpgradeHeight := ouh, featureMap := fm }
  | _ => none

/-- `SH=… SV=… SO=… SF=…` -/
def parseStored : List String → Option Upgrade.Upgrade
  | [a, b, c, d] => do
    let h ← (← field "SH=" a).toInt?
    let v ← Bytes.parse (← field "SV=" b)
    let o ← (← field "SO=" c).toInt?
    let f ← parseHexList (← field "SF=" d)
    pure { height := h, version := v, oldUpgradeHeight := o, features := f }
  | _ => none

def sameFM (a b : FMap) : Bool :=
  a.length == b.length && a.all fun e => b.contains e.1 && b.get e.1 == e.2

def sameGlob (a b : Globals) : Bool :=
  a.upgradeHeight == b.upgradeHeight && a.oldUpgradeHeight == b.oldUpgradeHeight && sameFM a.featureMap b.featureMap

def showFM (m : FMap) : String := ",".intercalate (m.map fun e => s!"{String.fromUTF8! (ByteArray.mk e.1.toArray)}:{e.2}")

def parseProbes (s : String) : Option (List (Bytes × Int)) :=
  if s = "-" || s = "" then some [] else
  (s.splitOn ",").mapM fun e =>
    match e.splitOn "@" with
    | [k, h] => do pure (← Bytes.parse k, ← h.toInt?)
    | _ => none

def predBits (g : Globals) (ps : List (Bytes × Int)) : String :=
  if ps.isEmpty then "-" else String.ofList (ps.map fun p => if isAfterNamed g p.2 p.1 then '1' else '0')

def step (s : St) (pre post : List String) : St × Verdict :=
  match pre with
  | ["init", _, _] =>
    match post with
    | [a, b, c, d, e, f, g] =>
      match parseGlob [a, b, c], parseStored [d, e, f, g] with
      | some gl, some st => ({ g := gl, stored := st, ready := true, preCodec := false }, .ok)
      | _, _ => (s, .bad "init")
    | _ => (s, .bad "init arity")
  | ["blocks", _, h] =>
    match post with
    | [a, b, c, d, e, f, g] =>
      match parseGlob [a, b, c], parseStored [d, e, f, g] with
      | some gl, some st =>
        if !sameGlob gl s.g || st != s.stored then
          ({ s with g := gl, stored := st }, .propfail "chain-schedule-changed-without-upgrade" s!"empty blocks up to {h}")
        else (s, .ok)
      | _, _ => (s, .bad "blocks")
    | _ => (s, .bad "blocks arity")
  | ["upg", sc, h, who, mh, mv, mf] =>
    match post with
    | [code, a, b, c, d, e, f, g] =>
      match parseGlob [a, b, c], parseStored [d, e, f, g], h.toInt?, mh.toInt?, Bytes.parse mv, parseHexList mf with
      | some gl, some st, some hi, some mhi, some mvb, some mfl =>
        let s' : St := { s with g := gl, stored := st, preCodec := s.preCodec || (code = "0" && !isAfterUpgradeHeight s.g hi) }
        let line := s!"upg {sc} h={h} {who} msgHeight={mh} code={code}"
        let changed := !sameGlob gl s.g || st != s.stored
        -- executable spec, on the implementation's outputs alone
        if changed && who ≠ "owner" then (s', .propfail "chain-upgrade-by-nonowner" line)
        else if changed && code ≠ "0" then (s', .propfail "chain-failed-upgrade-changed-schedule" line)
        else
          -- model: ValidateBasic, ACL, HandleUpgrade
          let msg : Upgrade.Upgrade := { height := mhi, version := mvb, oldUpgradeHeight := 0, features := mfl }
          let m : Option (Upgrade.Upgrade × Globals) :=
            if mhi = 0 || mvb.isEmpty || who ≠ "owner" then none else handleUpgrade s.stored s.g hi msg
          match m with
          | none =>
            if code = "0" then (s', .diff s!"{line}: model rejects")
            else if changed then (s', .diff s!"{line}: model unchanged")
            else (s', .ok)
          | some (mst, mg) =>
            if code ≠ "0" then (s', .diff s!"{line}: model accepts")
            else if mst != st then (s', .diff s!"{line}: stored upgrade differs from the model")
            else if !sameGlob mg gl then (s', .diff s!"{line}: live globals differ: model UH={mg.upgradeHeight} OUH={mg.oldUpgradeHeight} FM={showFM mg.featureMap}")
            else (s', .ok)
      | _, _, _, _, _, _ => (s, .bad "upg fields")
    | _ => (s, .bad "upg arity")
  | ["restart", sc, h, probes] =>
    match post with
    | ["LIVE", a, b, c, lp, "REST", a', b', c', rp, d, e, f, g, _] =>
      match parseGlob [a, b, c], parseGlob [a', b', c'], parseStored [d, e, f, g], parseProbes probes with
      | some live, some rest, some st, some ps =>
        let line := s!"restart {sc} h={h}"
        let lost := live.featureMap.filter fun e => e.2 ≠ 0 && rest.featureMap.get e.1 = 0
        let gained := rest.featureMap.filter fun e => e.2 ≠ 0 && live.featureMap.get e.1 = 0
        if !lost.isEmpty then
          -- the excluded point of `restart_same_schedule` (stored upgrade height 0) has its own signature
          (s, .propfail (if st.height = 0 then "chain-restart-loses-features-height0" else "chain-restart-loses-features") s!"{line}: scheduled on the running node, absent after restart: {showFM lost} (stored upgrade height {st.height})")
        else if !gained.isEmpty then
          (s, .propfail (if s.preCodec then "chain-restart-gains-features-precodec" else "chain-restart-gains-features") s!"{line}: absent on the running node, scheduled after restart: {showFM gained}")
        else if !sameFM live.featureMap rest.featureMap then
          (s, .propfail "chain-restart-schedule-differs" s!"{line}: live {showFM live.featureMap} restarted {showFM rest.featureMap}")
        else if lp ≠ rp then (s, .propfail "chain-restart-predicate-differs" line)
        else if live.upgradeHeight ≠ rest.upgradeHeight || live.oldUpgradeHeight ≠ rest.oldUpgradeHeight then
          (s, .propfail (if st.height = 0 then "chain-restart-heights-differ-height0" else "chain-restart-heights-differ") s!"{line}: live UH={live.upgradeHeight} OUH={live.oldUpgradeHeight} restarted UH={rest.upgradeHeight} OUH={rest.oldUpgradeHeight}")
        else
          -- model: the restart block of NewPocketCoreApp and the predicates
          if st != s.stored || !sameGlob live s.g then (s, .diff s!"{line}: state moved between the last line and the restart")
          else match restart st, restartFixed st with
            | none, _ => (s, .diff s!"{line}: model restart panics")
            | _, none => (s, .diff s!"{line}: model restart panics")
            | some mg, some mgf =>
              -- as coded, or as repaired by fixes/C37-restart-feature-map.patch
              if !sameGlob mg rest && !sameGlob mgf rest then (s, .diff s!"{line}: restarted globals differ from the model")
              else if (field "PRED=" lp) ≠ some (predBits live ps) then (s, .diff s!"{line}: live predicates differ from the model")
              else if (field "PRED=" rp) ≠ some (predBits rest ps) then (s, .diff s!"{line}: restarted predicates differ from the model")
              else (s, .ok)
      | _, _, _, _ => (s, .bad "restart fields")
    | _ => (s, .bad s!"restart arity {post.length}")
  | _ => (s, .bad "line")

def main : IO Unit := Proto.run ({} : St) step
