import PocketModel.Basic.Proto
import PocketModel.Indexer
/-! Driver for C42: replays the harness' indexer operations on the model (`Indexer.lean`) and judges
the implementation's own answers against the executable specification (filter + sort of the set of
indexed results, requested direction, pagination, total). -/
open Indexer

structure St where
  fixed : Bool := false          -- which sort mapping the tree under test has (probed by the harness)
  modeSeen : Bool := false
  store : Store := []
  txs : List TxRes := []          -- every result handed to Index/AddBatch in this session, in order

def parseOptBytes (s : String) : Option (Option Bytes) := Bytes.parseOpt s

/-- `h:i:hash:signer:recipient:codespace:code`; the ante-failure rule is evaluated here (model side). -/
def parseTx (s : String) : Option TxRes :=
  match s.splitOn ":" with
  | [h, i, hash, sg, rc, cs, code] => do
    let h ← h.toNat?
    let i ← i.toNat?
    let hash ← Bytes.parse hash
    let sg ← parseOptBytes sg
    let rc ← parseOptBytes rc
    let code ← code.toNat?
    pure { height := h, index := i, hash := hash, signer := sg, recipient := rc,
           anteFail := (cs == "auth") && decide (code < 10) }
  | _ => none

def renderTx (t : TxRes) : String := s!"{t.height}:{t.index}:{Bytes.render t.hash}"

def renderOptTx : Option TxRes → String
  | none => "nil"
  | some t => renderTx t

def renderList (l : List (Option TxRes)) : String :=
  if l.isEmpty then "-" else ",".intercalate (l.map renderOptTx)

def renderRes : Res (List (Option TxRes) × Nat) → String
  | .err => "err"
  | .ok (l, total) => s!"ok {total} {renderList l}"

def parseSort (s : String) : SortArg :=
  if s = "asc" then .asc else if s = "desc" then .desc else .other

/-! ## Executable specification -/

def indexed (txs : List TxRes) : List TxRes := txs.filter (!·.anteFail)

def txPrefix : Bytes := [116, 120, 46]

def pairwiseB {α : Type} (r : α → α → Bool) : List α → Bool
  | [] => true
  | x :: xs => xs.all (r x) && pairwiseB r xs

/-- Preconditions of the property: distinct hashes, distinct (height, position), hashes that are
not index keys, numbers below MaxInt64.  Outside them only the model is compared. -/
def good (txs : List TxRes) : Bool :=
  let ix := indexed txs
  pairwiseB (fun a b => a.hash != b.hash) ix &&
  pairwiseB (fun a b => !(a.height == b.height && a.index == b.index)) ix &&
  ix.all (fun t => !t.hash.isEmpty && !(txPrefix.isPrefixOf t.hash) && t.height < Elen.maxInt64 && t.index < Elen.maxInt64)

def insertBy {α : Type} (lt : α → α → Bool) (x : α) : List α → List α
  | [] => [x]
  | y :: ys => if lt x y then x :: y :: ys else y :: insertBy lt x ys

def sortBy {α : Type} (lt : α → α → Bool) (l : List α) : List α := l.foldr (insertBy lt) []

def posLt (a b : TxRes) : Bool := a.height < b.height || (a.height == b.height && a.index < b.index)

/-- The matching results in ascending (height, position) order. -/
def expectedAsc (txs : List TxRes) (p : TxRes → Bool) : List TxRes := sortBy posLt ((indexed txs).filter p)

def pageOf {α : Type} (l : List α) (skip size : Int) : List α :=
  (l.drop skip.toNat).take (if size > 10000 then 10000 else size).toNat

/-- Judge a search answer.  `impl` is the rendered answer of the implementation. -/
def judgeSearch (st : St) (p : TxRes → Bool) (sort : SortArg) (skip size : Int) (model : String)
    (impl : String) (ctx : String) : Verdict :=
  if !good st.txs then
    if model = impl then .ok else .diff s!"(outside spec preconditions) model={model} impl={impl}"
  else
    let asc := expectedAsc st.txs p
    let want (l : List TxRes) := s!"ok {l.length} {renderList ((pageOf l skip size).map some)}"
    match sort with
    | .other =>
      if impl = "err" then (if model = impl then .ok else .diff s!"model={model} impl={impl}")
      else .propfail "search-unsupported-sort-accepted" ctx
    | _ =>
      let full := if sort = .asc then asc else asc.reverse
      if impl = want full then
        (if model = impl then .ok else .diff s!"model={model} impl={impl}")
      else if impl = want full.reverse then
        -- exactly the requested set, paginated correctly, but in the opposite direction
        if model = impl then .propfail "sort-direction-inverted" ctx
        else .propfail "sort-direction-inverted" s!"{ctx} (and model={model})"
      else if impl.startsWith s!"ok {full.length} " then .propfail "search-wrong-results" s!"{ctx} want={want full} impl={impl}"
      else .propfail "search-wrong-total" s!"{ctx} want={want full} impl={impl}"

def sortMap (st : St) : SortArg → Option Dir := if st.fixed then sortMapFixed else sortMapAsIs

def renderStore (s : Store) : String :=
  if s.isEmpty then "-" else
  ",".intercalate (s.map fun e => match e.2 with
    | .idx h => s!"{Bytes.render e.1}>{Bytes.render h}"
    | .result _ => s!"{Bytes.render e.1}>*")

def step (st : St) (pre post : List String) : St × Verdict :=
  let impl := " ".intercalate post
  match pre with
  | ["mode", m] =>
    if m = "asis" then ({ st with fixed := false, modeSeen := true }, .ok)
    else if m = "fixed" then ({ st with fixed := true, modeSeen := true }, .ok)
    else (st, .diff s!"PrefixIterator's sort mapping matches neither the as-is model (asc=reverse) nor the fixed model (asc=forward): {m}")
  | ["enc", n] =>
    match n.toNat? with
    | some v =>
      let m := Bytes.render (Elen.encodeInt v)
      (st, if m = impl then .ok else .diff s!"enc {v}: model={m} impl={impl}")
    | none => (st, .bad "enc arg")
  | ["reset"] => ({ st with store := [], txs := [] }, .ok)
  | ["batch", b] =>
    match (b.splitOn ";").mapM parseTx with
    | some ts =>
      ({ st with store := addBatch st.store ts, txs := st.txs ++ ts },
        if impl = "ok" then .ok else .diff s!"AddBatch returned {impl}")
    | none => (st, .bad "batch")
  | ["idx", x] =>
    match parseTx x with
    | some t =>
      ({ st with store := index st.store t, txs := st.txs ++ [t] },
        if impl = "ok" then .ok else .diff s!"Index returned {impl}")
    | none => (st, .bad "idx")
  | ["dump"] =>
    let m := renderStore st.store
    (st, if m = impl then .ok else .diff s!"database contents differ: model={m} impl={impl}")
  | ["get", h] =>
    match Bytes.parse h with
    | some hash =>
      let m := match get st.store hash with
        | .err => "err"
        | .ok v => s!"ok {renderOptTx v}"
      let v : Verdict :=
        if good st.txs && !hash.isEmpty then
          let want := match (indexed st.txs).find? (·.hash == hash) with
            | some t => s!"ok {renderTx t}"
            | none => "ok nil"
          if impl ≠ want then .propfail "get-by-hash-wrong" s!"hash={h} want={want} impl={impl}"
          else if m = impl then .ok else .diff s!"model={m} impl={impl}"
        else if m = impl then .ok else .diff s!"model={m} impl={impl}"
      (st, v)
    | none => (st, .bad "hash")
  | ["qhash", h] =>
    match Bytes.parse h with
    | some hash =>
      let m := renderRes (searchHash st.store hash)
      let v : Verdict :=
        if good st.txs && !hash.isEmpty then
          match (indexed st.txs).find? (·.hash == hash) with
          | some t =>
            if impl ≠ s!"ok 1 {renderTx t}" then .propfail "get-by-hash-wrong" s!"tx.hash={h} impl={impl}"
            else if m = impl then .ok else .diff s!"model={m} impl={impl}"
          | none => if m = impl then .ok else .diff s!"model={m} impl={impl}"
        else if m = impl then .ok else .diff s!"model={m} impl={impl}"
      (st, v)
    | none => (st, .bad "hash")
  | [q, a, sort, skip, size] =>
    match skip.toInt?, size.toInt? with
    | some sk, some sz =>
      let so := parseSort sort
      let ctx := " ".intercalate pre
      if q = "qh" then
        match a.toNat? with
        | some h =>
          let m := renderRes (searchHeight (sortMap st) st.store h so sk sz)
          (st, judgeSearch st (fun t => t.height == h) so sk sz m impl ctx)
        | none => (st, .bad "height")
      else
        match Bytes.parse a with
        | some addr =>
          if q = "qs" then
            let m := renderRes (searchAddr (sortMap st) st.store txSignerKey addr so sk sz)
            (st, judgeSearch st (fun t => t.signer == some addr) so sk sz m impl ctx)
          else if q = "qr" then
            let m := renderRes (searchAddr (sortMap st) st.store txRecipientKey addr so sk sz)
            (st, judgeSearch st (fun t => t.recipient == some addr) so sk sz m impl ctx)
          else (st, .bad "query kind")
        | none => (st, .bad "addr")
    | _, _ => (st, .bad "skip/size")
  | [q, a, h, sort, skip, size] =>
    -- address AND height: outside the property's statement (the range over-matches, see notes);
    -- compared with the model only
    match Bytes.parse a, h.toNat?, skip.toInt?, size.toInt? with
    | some addr, some hh, some sk, some sz =>
      let ns := if q = "qsh" then txSignerKey else txRecipientKey
      let m := renderRes (searchAddrHeight (sortMap st) st.store ns addr hh (parseSort sort) sk sz)
      (st, if m = impl then .ok else .diff s!"model={m} impl={impl}")
    | _, _, _, _ => (st, .bad "args")
  | _ => (st, .bad "op")

def main : IO Unit := Proto.run ({} : St) step
