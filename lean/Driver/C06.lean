import PocketModel.Basic.Proto
import PocketModel.Store.RootMulti
import PocketModel.Store.Sha256
/-! Driver for C06: twin block histories on the real `rootmulti.Store`.

The model is run with the map-iteration oracle *observed* in the persisted `CommitInfo` and with the
IAVL root hashes reported by the implementation as data (`TH` = the dictionary history ↦ hash, which
must stay a function).  The commit hash itself is recomputed here with the model's merkle structure
and a real SHA-256. -/
open RootMulti

structure Run where
  id : Nat
  ms : MS
  commits : List CommitID   -- newest first
  perturb : Option Nat
  deriving Inhabited

structure St where
  runs : List Run := []
  dict : List (List (List Op) × Bytes) := []

def nm (s : String) : Name := Bytes.ofString s
def names (s : String) : List Name := if s = "-" then [] else (s.splitOn ",").map nm

def parseHash (s : String) : Option Bytes := if s = "~" then some [] else Bytes.parse s

structure Info where
  name : String
  ver : Nat
  hash : Bytes

def parseInfo (s : String) : Option Info :=
  match s.splitOn ":" with
  | [n, v, h] => do
    let v ← v.toNat?
    let h ← parseHash h
    pure ⟨n, v, h⟩
  | _ => none

def parseInfos (s : String) : Option (Nat × List Info) :=
  match s.splitOn "/" with
  | [v, l] => do
    let v ← v.toNat?
    let is ← if l = "-" then some [] else (l.splitOn ";").mapM parseInfo
    pure (v, is)
  | _ => none

def findRun (st : St) (id : Nat) : Option Run := st.runs.find? (·.id = id)
def putRun (st : St) (r : Run) : St := { st with runs := r :: st.runs.filter (·.id ≠ r.id) }

def lookupDict (d : List (List (List Op) × Bytes)) (h : List (List Op)) : Option Bytes :=
  (d.find? (·.1 = h)).map (·.2)

/-- The oracle that reproduces an observed order of names (unlisted stores keep their place at the end). -/
def oracleOf (order : List Name) : Oracle := fun l =>
  order.filterMap (fun n => l.find? (·.1 = n)) ++ l.filter (fun e => !order.contains e.1)

def step (st : St) (pre post : List String) : St × Verdict :=
  match pre with
  | ["case", _] => ({ st with runs := [] }, .ok)
  | ["panic", id] => (st, .propfail "panic" s!"run {id}: {post}")
  | ["new", id, ps, ts, pb] =>
    match id.toNat?, pb.toInt? with
    | some id, some pb =>
      let ms := MS.fresh (names ps) (names ts)
      let r : Run := ⟨id, ms, [], if pb < 0 then none else some pb.toNat⟩
      let v := if post = ["0", "~"] then Verdict.ok else .propfail "fresh-lastcommitid" s!"{post}"
      (putRun st r, v)
    | _, _ => (st, .bad "new")
  | "w" :: id :: store :: rest =>
    match id.toNat? >>= findRun st with
    | none => (st, .bad "run")
    | some r =>
      let op : Option Op := match rest with
        | ["s", k, v] => do let k ← Bytes.parse k; let v ← Bytes.parse v; pure (Op.set k v)
        | ["d", k] => do let k ← Bytes.parse k; pure (Op.del k)
        | _ => none
      match op with
      | none => (st, .bad "op")
      | some op =>
        if (r.ms.stores.lookup (nm store)).isNone then (st, .bad "store") else
        (putRun st { r with ms := r.ms.write (nm store) op }, .ok)
  | ["tget", id, store, k] =>
    match id.toNat? >>= findRun st, Bytes.parse k with
    | some r, some k =>
      match r.ms.stores.lookup (nm store) with
      | some (.transient m) =>
        let mv := Bytes.renderOpt (m.lookup k)
        (st, if [mv] = post then .ok else .diff s!"transient get model={mv} impl={post}")
      | _ => (st, .bad "not transient")
    | _, _ => (st, .bad "tget")
  | ["tgetc", id, store, k] =>
    -- after a commit the transient stores are empty: every read-back must find nothing
    match id.toNat? >>= findRun st with
    | some r =>
      match r.ms.stores.lookup (nm store) with
      | some (.transient m) =>
        if post.all (· = "~") then (st, if m.isEmpty then .ok else .diff "model transient store not empty after commit")
        else (st, .propfail "transient-not-empty-after-commit" s!"run {id} store {store} key {k}: {post}")
      | _ => (st, .bad "not transient")
    | none => (st, .bad "tgetc")
  -- a historical view (LoadLazyVersion / CacheMultiStoreWithVersion) touched a transient store.  As found:
  -- the lazily loaded multistore has no transient substore (access panics); the cache view wraps the live one
  -- and is never written back.
  | ["hview", _, kind, _, _] =>
    if kind = "lazy" then (st, if post = ["panic"] then .ok else .diff s!"LoadLazyVersion view resolves a transient store: {post}")
    else (st, if post = ["ok"] then .ok else .diff s!"CacheMultiStoreWithVersion view: {post}")
  -- what the next block starts with: every transient store must be empty, whatever went through historical views
  | ["tstart", id, store] =>
    match id.toNat? >>= findRun st with
    | some r =>
      match r.ms.stores.lookup (nm store) with
      | some (.transient m) =>
        if post = ["0", "~", "~"] then (st, if m.isEmpty then .ok else .diff "model transient store not empty at block start")
        else (st, .propfail "historical-view-writes-live-transient" s!"transient-not-empty-at-block-start: run {id} store {store}: {post}")
      | _ => (st, .bad "not transient")
    | none => (st, .bad "tstart")
  -- an abandoned block followed by LoadLatestVersion on the same instance: the uncommitted transient writes
  -- are dropped with the rest of the in-flight state (the last commit id itself is compared at the next commit)
  | ["reload", id, store] =>
    match post with
    | "true" :: "0" :: "~" :: _ => (st, .ok)
    | _ => (st, .propfail "transient-survives-reload" s!"run {id} store {store}: after an abandoned block and LoadLatestVersion the transient store holds {post}")
  | ["commit", id] =>
    match id.toNat? >>= findRun st, post with
    | some r, [ver, hash, lver, lhash, infos, tsz] =>
      match ver.toNat?, parseHash hash, parseInfos infos with
      | some ver, some hash, some (civer, is) =>
        let tnames := r.ms.transientNames
        -- per-substore ids reported by the implementation
        let pstores := r.ms.stores.filterMap fun e => match e.2 with | .iavl p => some (e.1, p) | _ => none
        -- 1. the hash dictionary must stay a function of the write history
        let (dict, dictBad) := pstores.foldl (fun (acc : List (List (List Op) × Bytes) × Option String) e =>
          let hist := e.2.blocks ++ [e.2.pending]
          match is.find? (fun i => nm i.name = e.1) with
          | none => acc
          | some i =>
            match lookupDict acc.1 hist with
            | some h' => if h' = i.hash then acc else (acc.1, some s!"store {String.fromUTF8! ⟨e.1.toArray⟩}: same history, hashes {Bytes.render h'} vs {Bytes.render i.hash}")
            | none => ((hist, i.hash) :: acc.1, acc.2)) (st.dict, none)
        let TH : List (List Op) → Bytes := fun h => (lookupDict dict h).getD []
        let σ := oracleOf (is.map (nm ·.name))
        let (ms', ci) := commit Sha256.sum TH σ r.ms
        let r' : Run := { r with ms := ms', commits := ⟨ver, hash⟩ :: r.commits }
        let st' := putRun { st with dict := dict } r'
        let implInfos : List StoreInfo := is.map fun i => ⟨nm i.name, ⟨i.ver, i.hash⟩⟩
        let idx := r.commits.length
        let v : Verdict :=
          if is.any (fun i => tnames.contains (nm i.name)) then .propfail "transient-in-commitinfo" s!"infos={infos}"
          else if ver ≠ r.ms.lastVersion + 1 then .propfail "version-not-succ" s!"prev={r.ms.lastVersion} got={ver}"
          else if civer ≠ ver then .propfail "commitinfo-version" s!"record={civer} returned={ver}"
          else if [lver, lhash] ≠ [ver.repr, hash.render] && [lver, lhash] ≠ [toString ver, if hash.isEmpty then "~" else hash.render] then .propfail "lastcommitid" s!"returned={ver} {hash.render} last={lver} {lhash}"
          else if dictBad.isSome then .propfail "hash-not-function-of-history" (dictBad.getD "")
          else if tsz ≠ "-" && (tsz.splitOn ",").any (fun e => (e.splitOn ":").getLast? ≠ some "0") then .propfail "transient-not-empty-after-commit" s!"entries left: {tsz}"
          else
            -- twin comparison with run 0 of the same case (the property's own statement) comes first
            let twin : Verdict :=
              match (if r.id = 0 then none else findRun st 0) with
              | none => .ok
              | some r0 =>
                match (r0.commits.reverse)[idx]? with
                | none => .ok
                | some c0 =>
                  let same := c0 = ⟨ver, hash⟩
                  match r.perturb with
                  | none => if same then .ok else .propfail "twin-commitid-differs" s!"run {r.id} height {ver}: {hash.render} vs run0 {c0.hash.render}"
                  | some pb =>
                    if idx < pb then (if same then .ok else .propfail "twin-commitid-differs" s!"run {r.id} height {ver} (before perturbation)")
                    else if same then .propfail "hash-insensitive-to-persistent-write" s!"run {r.id} height {ver}" else .ok
            match twin with
            | .ok =>
              if implInfos ≠ ci.infos then .diff s!"store infos model≠impl: impl={infos}"
              else if ci.hash Sha256.sum ≠ hash then .diff s!"commit hash model={Bytes.render (ci.hash Sha256.sum)} impl={hash.render}"
              else .ok
            | v => v
        (st', v)
      | _, _, _ => (st, if infos = "MISSING" then .propfail "commitinfo-missing" s!"{post}" else .bad "commit fields")
    | _, _ => (st, .bad "commit")
  | _ => (st, .bad s!"unknown {pre}")

def main : IO Unit := Proto.run ({} : St) step
