import PocketModel.Basic.Proto
import PocketModel.Crypto.Keybase
/-! Driver for C40.  `unarm` lines: mintkey's decision logic over oracle primitives (JSON fields,
hex/base64 decodings and the scrypt+AES-GCM verdict arrive as data).  Keybase lines: the keybase
model over an *ideal* AEAD whose key is the HMAC normal form of the passphrase, compared with the
real keybase; plus the executable specification (an abstract map address ↦ (key, passphrase)
maintained from the implementation's own answers). -/
open Keybase

/-! ### ideal instance for keybase sequences -/

abbrev IKey := Bytes × Bytes
abbrev ICt := IKey × Bytes

def idealA (norm : Bytes → Bytes) : AEADOps where
  Key := IKey
  Ct := ICt
  kdf p s := (norm p, s)
  enc k x := (k, x)
  dec k' c := if k' = c.1 then some c.2 else none

def idealC (norm : Bytes → Bytes) : CodecOps (idealA norm).Ct where
  Text := ArmorRec ICt
  render r := r
  parse r := some (r, true)
  hexEnc b := b
  hexDec b := some b
  hexDecLenient b := b

/-! ### oracle instance for one `unarm` line -/

def oracleA (verdict : Option Bytes) : AEADOps where
  Key := Unit
  Ct := Unit
  kdf _ _ := ()
  enc _ _ := ()
  dec _ _ := verdict

/-- `hex.DecodeString` ignoring the error: the decoded prefix. -/
def hexLenient : List Char → Bytes
  | a :: b :: rest =>
    match Bytes.hexVal a, Bytes.hexVal b with
    | some x, some y => UInt8.ofNat (x * 16 + y) :: hexLenient rest
    | _, _ => []
  | _ => []

def oracleC (verdict : Option Bytes) (jsonOK : Bool) (kdf : String) (saltText : Bytes)
    (saltDec : Option Bytes) (ctOK : Bool) : CodecOps (oracleA verdict).Ct where
  Text := Unit
  render _ := ()
  parse _ := if jsonOK then some (⟨kdf, saltText, "", "", ()⟩, ctOK) else none
  hexEnc b := b
  hexDec _ := saltDec
  hexDecLenient b := hexLenient (b.map fun c => Char.ofNat c.toNat)

def errName : Err → String
  | .json => "ERR:json" | .kdf => "ERR:kdf" | .nosalt => "ERR:nosalt" | .salthex => "ERR:salthex"
  | .b64 => "ERR:b64" | .auth => "ERR:auth" | .keytype => "ERR:keytype" | .notfound => "ERR:notfound"
  | .exists_ => "ERR:exists" | .nopriv => "ERR:nopriv" | .empty => "ERR:empty"

def strOfBytes (b : Bytes) : String := String.ofList (b.map fun c => Char.ofNat c.toNat)

/-! ### state -/

structure St where
  passTab : List (Bytes × Bytes) := []          -- passphrase ↦ sha256
  addrTab : List (Bytes × Bytes) := []          -- private key ↦ address
  salt : Nat := 1
  kb : KB (idealA id) (idealC id) := KB.empty _ _   -- replaced at `newkb` (norm depends on passTab)
  abs : List (Bytes × (Bytes × Bytes)) := []    -- spec: address ↦ (key, passphrase), from impl answers

def normOf (tab : List (Bytes × Bytes)) (p : Bytes) : Bytes :=
  normPass (fun x => match tab.lookup x with | some h => h | none => x) p

/-- The keybase model runs over `idealA id`: passphrases are normalised *before* they enter. -/
def St.n (s : St) (p : Bytes) : Bytes := normOf s.passTab p

def St.addrOf (s : St) (sk : Bytes) : Bytes := (s.addrTab.lookup sk).getD []

def absInsert (m : List (Bytes × (Bytes × Bytes))) (a : Bytes) (v : Bytes × Bytes) :=
  (a, v) :: m.filter (·.1 ≠ a)

def sortBytes (l : List Bytes) : List Bytes :=
  l.foldl (fun acc x => (acc.takeWhile (· < x)) ++ [x] ++ (acc.dropWhile (· < x))) []

def renderAddrs (l : List Bytes) : String :=
  if l.isEmpty then "-" else ",".intercalate (l.map Bytes.toHex)

def cmp (model : String) (impl : List String) : Verdict :=
  let i := " ".intercalate impl
  if model = i then .ok else .diff s!"model={model} impl={i}"

def saltBytes (n : Nat) : Bytes := [UInt8.ofNat (n / 65536 % 256), UInt8.ofNat (n / 256 % 256), UInt8.ofNat (n % 256), 1]

/-- passphrase check of the executable spec for an operation that succeeded with `given` although
the key is protected by `stored`. -/
def passVerdict (s : St) (op : String) (stored given : Bytes) : Option Verdict :=
  if given = stored then none
  else if s.n given = s.n stored then
    some (.propfail "hmac-equivalent-passphrase-accepted" s!"{op}: stored={Bytes.render stored} given={Bytes.render given}")
  else some (.propfail "wrong-passphrase-accepted" s!"{op}: stored={Bytes.render stored} given={Bytes.render given}")

def step (s : St) (pre post : List String) : St × Verdict :=
  let A := idealA id
  let C := idealC id
  let runOp (s : St) (op : Op A C) : St × Res A C :=
    let (kb', r) := Keybase.step s.addrOf s.kb op
    ({ s with kb := kb', salt := s.salt + 2 }, r)
  let resStr (r : Res A C) : String :=
    match r with
    | .ok => "OK"
    | .addr a => s!"OK {Bytes.toHex a}"
    | .key k => s!"OK {Bytes.toHex k}"
    | .armor _ => "OK armor"
    | .addrs l => s!"OK {renderAddrs l}"
    | .err e => errName e
  match pre with
  | ["pass", _cls, p, h] =>
    match Bytes.parse p, Bytes.parse h with
    | some pb, some hb => ({ s with passTab := (pb, hb) :: s.passTab }, .ok)
    | _, _ => (s, .bad "pass")
  | ["encrypt", _, _] =>
    -- kdf name, security parameter string and salt length of a fresh armor
    (s, cmp s!"OK {Bytes.toHex (Bytes.ofString "scrypt")} {Bytes.toHex (Bytes.ofString "12")} 32" post)
  | ["unarm", cls, priv, encP, decP, jsonOK, kdf, saltT, saltD, ctD, oracle] =>
    match Bytes.parse priv, Bytes.parse encP, Bytes.parse decP, Bytes.parse kdf, Bytes.parse saltT with
    | some sk, some ep, some dp, some kdfB, some saltText =>
      let verdict : Option Bytes := if oracle = "FAIL" || oracle = "-" || oracle = "KDFERR" then none else Bytes.parse oracle
      let saltDec : Option Bytes := if saltD = "ERR" then none else Bytes.parse saltD
      let OA := oracleA verdict
      let OC := oracleC verdict (jsonOK = "1") (strOfBytes kdfB) saltText saltDec (ctD ≠ "ERR")
      let m := match unarmorDecrypt OA OC () dp with
        | .ok k => s!"OK {Bytes.toHex k}"
        | .error e => errName e
      let i := " ".intercalate post
      -- executable specification on the implementation's own answer
      let v : Verdict :=
        match post with
        | ["OK", k] =>
          if k ≠ Bytes.toHex sk then .propfail "returned-key-differs" s!"{cls} want={priv} got={k}"
          else if cls = "otherpass" then
            match passVerdict s "unarmor" ep dp with
            | some v => v
            | none => cmp m post
          else cmp m post
        | _ =>
          if cls = "same" then .propfail "right-passphrase-rejected" s!"pass={encP} result={i}"
          else cmp m post
      (s, v)
    | _, _, _, _, _ => (s, .bad "unarm args")
  | ["newkb"] => ({ s with kb := KB.empty _ _, abs := [], addrTab := [] }, .ok)
  | ["import", priv, addr, pass] =>
    match Bytes.parse priv, Bytes.parse addr, Bytes.parse pass with
    | some sk, some a, some p =>
      let s := { s with addrTab := (sk, a) :: s.addrTab }
      let (s', r) := runOp s (.importObj sk (s.n p) (saltBytes s.salt))
      let v : Verdict :=
        match post with
        | ["OK", a'] =>
          if a' ≠ addr then .propfail "import-wrong-address" s!"want={addr} got={a'}"
          else if (s.abs.lookup a).isSome then .propfail "import-overwrites-key" s!"addr={addr}"
          else cmp (resStr r) post
        | _ => if (s.abs.lookup a).isNone then .propfail "import-rejected" s!"addr={addr} result={post}" else cmp (resStr r) post
      let abs' := if post.head? = some "OK" then absInsert s.abs a (sk, p) else s.abs
      ({ s' with abs := abs' }, v)
    | _, _, _ => (s, .bad "import args")
  | ["create", pass] =>
    match Bytes.parse pass, post with
    | some p, ["OK", addr, priv] =>
      match Bytes.parse addr, Bytes.parse priv with
      | some a, some sk =>
        let s := { s with addrTab := (sk, a) :: s.addrTab }
        let (s', r) := runOp s (.create sk (s.n p) (saltBytes s.salt))
        ({ s' with abs := absInsert s.abs a (sk, p) }, cmp (resStr r) ["OK", addr])
      | _, _ => (s, .propfail "created-key-not-exportable" s!"create pass={pass} result={post}")
    | _, _ => (s, .diff s!"create failed: {post}")
  | ["imparm", priv, addr, armP, decP, encP] =>
    match Bytes.parse priv, Bytes.parse addr, Bytes.parse armP, Bytes.parse decP, Bytes.parse encP with
    | some sk, some a, some ap, some dp, some ep =>
      let s := { s with addrTab := (sk, a) :: s.addrTab }
      let armor := encryptArmor A C sk (s.n ap) (saltBytes s.salt) ""
      let (s', r) := runOp s (.importArmor armor (s.n dp) (s.n ep) (saltBytes (s.salt + 1)))
      let v : Verdict :=
        match post with
        | ["OK", a'] =>
          if a' ≠ addr then .propfail "import-wrong-address" s!"want={addr} got={a'}"
          else if (s.abs.lookup a).isSome then .propfail "import-overwrites-key" s!"addr={addr}"
          else match passVerdict s "ImportPrivKey" ap dp with
            | some v => v
            | none => cmp (resStr r) post
        | _ =>
          if dp = ap && (s.abs.lookup a).isNone then .propfail "right-passphrase-rejected" s!"imparm {post}"
          else cmp (resStr r) post
      let abs' := if post.head? = some "OK" then absInsert s.abs a (sk, ep) else s.abs
      ({ s' with abs := abs' }, v)
    | _, _, _, _, _ => (s, .bad "imparm args")
  | [op, addr, pass] =>
    -- exportobj / delete / sign: one address, one passphrase
    match Bytes.parse addr, Bytes.parse pass with
    | some a, some p =>
      let mop : Option (Op A C) :=
        if op = "exportobj" then some (.exportObj a (s.n p))
        else if op = "delete" then some (.delete a (s.n p))
        else if op = "sign" then some (.sign a (s.n p))
        else none
      match mop with
      | none => (s, .bad s!"op {op}")
      | some mo =>
        let (s', r) := runOp s mo
        let stored := s.abs.lookup a
        let ok : Bool := post.head? == some "OK"
        let m : String :=
          if op = "sign" then
            match r with
            | .key k => s!"OK true {Bytes.toHex (s.addrOf k)}"
            | r => resStr r
          else resStr r
        let v : Verdict :=
          if ok then
            match stored with
            | none => .propfail "absent-key-served" s!"{op} addr={addr}"
            | some (sk, sp) =>
              match passVerdict s op sp p with
              | some v => v
              | none =>
                if op = "exportobj" && post ≠ ["OK", Bytes.toHex sk] then .propfail "returned-key-differs" s!"{op} addr={addr}"
                else if op = "sign" && post ≠ ["OK", "true", addr] then .propfail "signed-with-other-key" s!"addr={addr} result={post}"
                else cmp m post
          else
            match stored with
            | some (_, sp) => if sp = p then .propfail "right-passphrase-rejected" s!"{op} addr={addr} result={post}" else cmp m post
            | none => cmp m post
        let abs' := if op = "delete" && ok then s.abs.filter (·.1 ≠ a) else s.abs
        ({ s' with abs := abs' }, v)
    | _, _ => (s, .bad "args")
  | ["export", addr, decP, encP] =>
    match Bytes.parse addr, Bytes.parse decP, Bytes.parse encP with
    | some a, some dp, some ep =>
      let (s', r) := runOp s (.exportArmor a (s.n dp) (s.n ep) (saltBytes s.salt))
      let m : String := match r with
        | .armor t => (match unarmorDecrypt A C t (s.n ep) with | .ok k => s!"OK {Bytes.toHex k}" | .error _ => "OK UNREADABLE")
        | r => resStr r
      let v : Verdict :=
        match post, s.abs.lookup a with
        | ["OK", k], some (sk, sp) =>
          match passVerdict s "export" sp dp with
          | some v => v
          | none => if k ≠ Bytes.toHex sk then .propfail "export-import-roundtrip-changed" s!"addr={addr} want={Bytes.toHex sk} got={k}" else cmp m post
        | "OK" :: _, none => .propfail "absent-key-served" s!"export addr={addr}"
        | _, some (_, sp) => if sp = dp then .propfail "right-passphrase-rejected" s!"export addr={addr} result={post}" else cmp m post
        | _, none => cmp m post
      (s', v)
    | _, _, _ => (s, .bad "args")
  | ["update", addr, oldP, newP] =>
    match Bytes.parse addr, Bytes.parse oldP, Bytes.parse newP with
    | some a, some op, some np =>
      let (s', r) := runOp s (.update a (s.n op) (s.n np) (saltBytes s.salt))
      let ok : Bool := post == ["OK"]
      let v : Verdict :=
        match ok, s.abs.lookup a with
        | true, some (_, sp) => (passVerdict s "update" sp op).getD (cmp (resStr r) post)
        | true, none => .propfail "absent-key-served" s!"update addr={addr}"
        | false, some (_, sp) => if sp = op then .propfail "right-passphrase-rejected" s!"update addr={addr} result={post}" else cmp (resStr r) post
        | false, none => cmp (resStr r) post
      let abs' := match ok, s.abs.lookup a with
        | true, some (sk, _) => absInsert s.abs a (sk, np)
        | _, _ => s.abs
      ({ s' with abs := abs' }, v)
    | _, _, _ => (s, .bad "args")
  | ["unsafedelete", addr] =>
    match Bytes.parse addr with
    | some a =>
      let (s', r) := runOp s (.unsafeDelete a)
      let abs' := if post = ["OK"] then s.abs.filter (·.1 ≠ a) else s.abs
      ({ s' with abs := abs' }, cmp (resStr r) post)
    | none => (s, .bad "args")
  | ["get", addr] =>
    match Bytes.parse addr with
    | some a =>
      let (s', r) := runOp s (.get a)
      let present := (s.abs.lookup a).isSome
      let v : Verdict :=
        if post = ["OK", addr] && !present then .propfail "deleted-key-retrievable" s!"get addr={addr}"
        else if post ≠ ["OK", addr] && present then .propfail "stored-key-not-retrievable" s!"get addr={addr} result={post}"
        else cmp (resStr r) post
      (s', v)
    | none => (s, .bad "args")
  | ["list"] =>
    let (s', r) := runOp s .list
    let want := "OK " ++ renderAddrs (sortBytes (s.abs.map (·.1)))
    let i := " ".intercalate post
    let v : Verdict :=
      if i ≠ want then .propfail "listing-differs-from-map" s!"want={want} got={i}"
      else cmp (resStr r) post
    (s', v)
  | ["getcoinbase"] =>
    let (s', r) := runOp s .getCoinbase
    let v : Verdict :=
      match post with
      | ["OK", a] =>
        match Bytes.parse a with
        | some ab => if (s.abs.lookup ab).isNone then .propfail "coinbase-returns-deleted-key" s!"addr={a}" else cmp (resStr r) post
        | none => .bad "addr"
      | _ => cmp (resStr r) post
    (s', v)
  | ["setcoinbase", addr] =>
    match Bytes.parse addr with
    | some a =>
      let (s', r) := runOp s (.setCoinbase a)
      (s', cmp (resStr r) post)
    | none => (s, .bad "args")
  | _ => (s, .bad "op")

def main : IO Unit := Proto.run ({} : St) step
