import PocketModel.Basic.Proto
import PocketModel.Store.IavlMulti
/-!
Driver for C09: replays a block history with historical views held open on the real
`rootmulti.Store` against the multistore model (`Iavl.MS`) and the per-height map specification
(`Iavl.MSpec`).  `PROPFAIL` = the implementation's answer through a historical view differs from the
map committed at that view's height; `DIFF` = it agrees with the specification but not the model.
-/
open Iavl

structure St where
  ms : MS := MS.init 2
  spec : MSpec := MSpec.init 2
  views : List (Nat × Nat) := []        -- view id ↦ height
  nextV : Nat := 0
  iters : List (Nat × KVs × KVs) := []  -- iterator id ↦ remaining entries (model, spec)
  nextI : Nat := 0
  hcache : Bool := false                -- the multistore's height cache is switched on (C10's subject)

def renderKVs (kvs : KVs) : String :=
  if kvs.isEmpty then "-"
  else ",".intercalate (kvs.map fun p => s!"{Bytes.render p.1}:{Bytes.render p.2}")

def join (ws : List String) : String := " ".intercalate ws

def judge (sig : String) (line : String) (specS modelS implS : String) : Verdict :=
  if implS.startsWith "PANIC" then .propfail "impl-panic" s!"{line} => {implS}"
  else if implS != specS then .propfail sig s!"{line}: spec={specS} impl={implS}"
  else if implS != modelS then .diff s!"{line}: model={modelS} impl={implS}"
  else .ok

def parseId (pfx : String) (s : String) : Option Nat :=
  if s.startsWith pfx then (s.drop pfx.length).toNat? else none

def viewHeight (st : St) (id : Nat) : Option Nat := (st.views.find? (·.1 == id)).map (·.2)

def valueOf : Option ReadResult → String
  | some (.get _ v) => Bytes.renderOpt v
  | some (.has b) => toString b
  | some (.range kvs) => renderKVs kvs
  | some _ => "?"
  | none => "novers"

def specRead (st : St) (h i : Nat) (r : Read) : Option ReadResult :=
  (st.spec.committedAt h i).map (fun m => KVs.read m r)

def rangeOf : Option ReadResult → Option KVs
  | some (.range kvs) => some kvs
  | _ => none

def step0 (st : St) (pre post : List String) : St × Verdict :=
  let line := join pre
  let impl := join post
  match pre with
  | ["config", "hcache", b] => ({ st with hcache := b == "1" }, .ok)
  | ["set", i, k, v] =>
    match i.toNat?, Bytes.parse k, Bytes.parse v with
    | some ii, some kb, some vb =>
      ({ st with ms := st.ms.step (.set ii kb vb), spec := st.spec.step (.set ii kb vb) }, judge "write" line "ok" "ok" impl)
    | _, _, _ => (st, .bad "set args")
  | ["rm", i, k] =>
    match i.toNat?, Bytes.parse k with
    | some ii, some kb =>
      ({ st with ms := st.ms.step (.remove ii kb), spec := st.spec.step (.remove ii kb) }, judge "write" line "ok" "ok" impl)
    | _, _ => (st, .bad "rm args")
  | ["commit"] =>
    let ms' := st.ms.step .commit
    let spec' := st.spec.step .commit
    ({ st with ms := ms', spec := spec' }, judge "commit-version" line (toString spec'.version) (toString ms'.version) impl)
  | ["open", kind, h] =>
    match h.toNat? with
    | some hh =>
      let specOk := decide (1 ≤ hh ∧ hh ≤ st.spec.version)
      let modelOk :=
        if kind == "I" then st.ms.stores.all (fun t => (t.getImmutable hh).isSome)
        else (st.ms.loadLazyVersion (hh : Int)).isSome
      let s (ok : Bool) := if ok then s!"v{st.nextV}" else "err"
      let v := judge "open-view" line (s specOk) (s modelOk) impl
      if impl.startsWith "v" then ({ st with views := (st.nextV, hh) :: st.views, nextV := st.nextV + 1 }, v)
      else (st, v)
    | none => (st, .bad "open args")
  | ["drop", v] =>
    match parseId "v" v with
    | some id => ({ st with views := st.views.filter (·.1 != id) }, .ok)
    | none => (st, .bad "drop args")
  | ["vget", v, i, k] =>
    match (parseId "v" v).bind (viewHeight st), i.toNat?, Bytes.parse k with
    | some h, some ii, some kb =>
      (st, judge "historical-get" line (valueOf (specRead st h ii (.get kb))) (valueOf (st.ms.readAt h ii (.get kb))) impl)
    | _, _, _ => (st, .bad "vget args")
  | ["vhas", v, i, k] =>
    match (parseId "v" v).bind (viewHeight st), i.toNat?, Bytes.parse k with
    | some h, some ii, some kb =>
      (st, judge "historical-has" line (valueOf (specRead st h ii (.has kb))) (valueOf (st.ms.readAt h ii (.has kb))) impl)
    | _, _, _ => (st, .bad "vhas args")
  | ["viter", v, i, s, e, asc] =>
    match (parseId "v" v).bind (viewHeight st), i.toNat?, Bytes.parseOpt s, Bytes.parseOpt e with
    | some h, some ii, some sb, some eb =>
      let rd := Read.range sb eb (asc == "1") false
      (st, judge "historical-iterate" line (valueOf (specRead st h ii rd)) (valueOf (st.ms.readAt h ii rd)) impl)
    | _, _, _, _ => (st, .bad "viter args")
  | ["vopen", v, i, s, e, asc] =>
    match (parseId "v" v).bind (viewHeight st), i.toNat?, Bytes.parseOpt s, Bytes.parseOpt e with
    | some h, some ii, some sb, some eb =>
      let rd := Read.range sb eb (asc == "1") false
      match rangeOf (st.ms.readAt h ii rd), rangeOf (specRead st h ii rd) with
      | some mk, some sk =>
        let s (l : KVs) := s!"it{st.nextI} {!l.isEmpty}"
        let vd := judge "historical-iterator-open" line (s sk) (s mk) impl
        if impl.startsWith "it" then ({ st with iters := (st.nextI, mk, sk) :: st.iters, nextI := st.nextI + 1 }, vd)
        else (st, vd)
      | _, _ => (st, .bad "vopen: view without version")
    | _, _, _, _ => (st, .bad "vopen args")
  | ["inext", it, cnt] =>
    match parseId "it" it, cnt.toNat? with
    | some id, some c =>
      match st.iters.find? (·.1 == id) with
      | some (_, mk, sk) =>
        let s (l : KVs) := s!"{!(l.drop c).isEmpty} {renderKVs (l.take c)}"
        let st' := { st with iters := st.iters.map (fun p => if p.1 == id then (p.1, p.2.1.drop c, p.2.2.drop c) else p) }
        (st', judge "historical-iterator-next" line (s sk) (s mk) impl)
      | none => (st, .bad "inext: unknown iterator")
    | _, _ => (st, .bad "inext args")
  | ["iclose", it] =>
    match parseId "it" it with
    | some id => ({ st with iters := st.iters.filter (·.1 != id) }, judge "iterator-close" line "ok" "ok" impl)
    | none => (st, .bad "iclose args")
  | ["query", i, h, k] =>
    match i.toNat?, h.toNat?, Bytes.parse k with
    | some ii, some hh, some kb =>
      -- `getHeight`: height 0 means latest-1 when that version exists, else latest
      let eff (version : Nat) : Nat := if hh = 0 then (if version ≥ 2 then version - 1 else version) else hh
      let fmt (hEff : Nat) (r : Option ReadResult) : String :=
        match r with
        | none => "novers"
        | some _ => s!"{hEff} {valueOf r}"
      let hs := eff st.spec.version
      let hm := eff st.ms.version
      (st, judge "historical-query" line (fmt hs (specRead st hs ii (.get kb))) (fmt hm (st.ms.readAt hm ii (.get kb))) impl)
    | _, _, _ => (st, .bad "query args")
  | ["wget", i, k] =>
    match i.toNat?, Bytes.parse k with
    | some ii, some kb =>
      let sp := (st.spec.cur[ii]?).map (fun m => KVs.read m (.get kb))
      (st, judge "working-get" line (valueOf sp) (valueOf (st.ms.readWorking ii (.get kb))) impl)
    | _, _ => (st, .bad "wget args")
  | _ => (st, .bad s!"op {line.take 40}")

/-- With the height cache on, failing answers get their own signatures (`hcache-…`): they are the
defects of `store/heightcache` recorded under C10, seen through historical views. -/
def step (st : St) (pre post : List String) : St × Verdict :=
  let (st', v) := step0 st pre post
  match v with
  | .propfail sig d => (st', if st.hcache then .propfail ("hcache-" ++ sig) d else v)
  | _ => (st', v)

def main : IO Unit := Proto.run ({} : St) step
