import PocketModel.Store.TowerDriver
/-! Driver for C01 (cachekv store): see `PocketModel/Store/TowerDriver.lean`. -/
def main : IO Unit := Proto.run TowerDriver.init TowerDriver.step
