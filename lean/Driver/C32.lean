import PocketModel.Basic.Proto
import PocketModel.Ledger.Pocket
/-!
Driver for C32: claim / proof life-cycle on the real application.

Every line carries the implementation's dumped state AFTER the step (claims store, balances, node
stakes, supply); the driver remembers the previous dump as the pre-state (transition checking).
For a transaction line the words before `=>` are the message and the oracle inputs of the Lean
transition, evaluated by the harness with the real keeper functions right before `DeliverTx`.

* DIFF      — `Pocket.deliverClaim / deliverProof / beginBlock` from the dumped pre-state does not
              reproduce the dumped post-state or the result code;
* PROPFAIL  — the implementation's own outputs violate the executable specification the theorems
              of `Props/C32.lean` are about (`claimAcceptable`, `proofPayable`, payments ≤ acceptances
              per key, the paid claim is gone, expiry removes exactly the expired claims unpaid, …).
-/
open Pocket

structure Ledger where
  key : ClaimKey
  accepts : Nat
  pays : Nat
  /-- some payment for this key was made through a proof whose leaf type differs from the key's evidence type -/
  mistyped : Bool

structure DState where
  ready : Bool := false
  height : Int := 0
  claims : Claims := []
  supply : Int := 0
  bal : List (String × Int) := []
  stake : String := ""
  ledger : List Ledger := []

def kv (ws : List String) (k : String) : Option String :=
  (ws.find? (fun w => w.startsWith (k ++ "="))).map fun w => (w.drop (k.length + 1)).toString

def kvInt (ws : List String) (k : String) : Option Int := (kv ws k).bind String.toInt?
def kvBool (ws : List String) (k : String) : Option Bool :=
  match kv ws k with
  | some "1" => some true
  | some "0" => some false
  | _ => none

def parseKey (s : String) : Option ClaimKey :=
  match s.splitOn "/" with
  | [n, a, c, h, t] => do
    let sbh ← h.toInt?
    let et ← t.toNat?
    pure ⟨Bytes.ofString n, Bytes.ofString a, Bytes.ofString c, sbh, et⟩
  | _ => none

def strOf (b : Bytes) : String := String.ofList (b.map fun x => Char.ofNat x.toNat)

def renderKey (k : ClaimKey) : String := s!"{strOf k.node}/{strOf k.app}/{strOf k.chain}/{k.sbh}/{k.et}"

def parseClaims (s : String) : Option Claims :=
  if s = "-" then some [] else
  (s.splitOn ",").mapM fun item =>
    match item.splitOn ":" with
    | [k, t, e, r] => do
      let key ← parseKey k
      let total ← t.toInt?
      let exp ← e.toInt?
      pure (key, { total := total, root := Bytes.ofString r, expiration := exp })
    | _ => none

def renderClaims (cs : Claims) : String :=
  if cs.isEmpty then "-" else ",".intercalate (cs.map fun p => s!"{renderKey p.1}:{p.2.total}:{p.2.expiration}:{strOf p.2.root}")

def parseBal (s : String) : Option (List (String × Int)) :=
  if s = "-" then some [] else
  (s.splitOn ",").mapM fun item =>
    match item.splitOn ":" with
    | [n, a] => do pure (n, ← a.toInt?)
    | _ => none

def parseCode (s : String) : Option (Option Code) :=
  match s.splitOn ":" with
  | [sp, n] => do
    let c ← n.toNat?
    if sp = "ok" then pure none else pure (some ⟨sp, c⟩)
  | _ => none

def renderCode : Option Code → String
  | none => "ok:0"
  | some c => s!"{c.space}:{c.code}"

def balOf (b : List (String × Int)) (n : String) : Int := ((b.find? (·.1 = n)).map (·.2)).getD 0

/-- add `d` to account `n` (creating it) -/
def balAdd (b : List (String × Int)) (n : String) (d : Int) : List (String × Int) :=
  if b.any (·.1 = n) then b.map fun p => if p.1 = n then (p.1, p.2 + d) else p else b ++ [(n, d)]

def balEq (a b : List (String × Int)) : Bool :=
  let names := (a.map (·.1) ++ b.map (·.1)).eraseDups
  names.all fun n => balOf a n = balOf b n

def balDiff (a b : List (String × Int)) : String :=
  let names := (a.map (·.1) ++ b.map (·.1)).eraseDups
  " ".intercalate ((names.filter fun n => balOf a n ≠ balOf b n).map fun n => s!"{n}:model={balOf a n},impl={balOf b n}")

/-- same set of entries (the store is a map; both sides have unique keys) -/
def claimsEq (a b : Claims) : Bool :=
  a.length = b.length && a.all (fun p => Claims.get b p.1 = some p.2) && b.all (fun p => Claims.get a p.1 = some p.2)

structure Dump where
  supply : Int
  claims : Claims
  bal : List (String × Int)
  stake : String

def parseDump (post : List String) : Option Dump := do
  let supply ← kvInt post "supply"
  let claims ← (kv post "claims").bind parseClaims
  let bal ← (kv post "bal").bind parseBal
  let stake ← kv post "stake"
  pure ⟨supply, claims, bal, stake⟩

def DState.adopt (d : DState) (h : Int) (p : Dump) : DState :=
  { d with ready := true, height := h, claims := p.claims, supply := p.supply, bal := p.bal, stake := p.stake }

def ledgerGet (l : List Ledger) (k : ClaimKey) : Ledger :=
  (l.find? (·.key = k)).getD ⟨k, 0, 0, false⟩

def ledgerPut (l : List Ledger) (e : Ledger) : List Ledger :=
  e :: l.filter (·.key ≠ e.key)

def fee : Int := 10000

def lowerByte (b : UInt8) : UInt8 := if 65 ≤ b.toNat ∧ b.toNat ≤ 90 then b + 32 else b

/-- The session a claim key is about, with the application key and the chain read AS KEYS, not as
texts: the harness names a non-canonical hex spelling of application `a0` `a0^U` / `a0^M`, and chain
identifiers are hex strings. -/
def canonKey (k : ClaimKey) : ClaimKey :=
  { k with app := k.app.takeWhile (· ≠ 94), chain := k.chain.map lowerByte }

/-- why an accepted claim is not acceptable (signature suffix) -/
def claimReason (h : Int) (m : MsgClaim) (e : ClaimEnv) : String :=
  if e.dup then "duplicate-tx"
  else if e.vb.isSome then "malformed"
  else if !e.anteOk then "unauthenticated"
  else if !(m.key.et == 1 || m.key.et == 2) then "without-evidence-type"
  else if !e.sessCtxOk then "without-session-context"
  else if h ≤ m.key.sbh + e.sessB - 1 then "out-of-window"          -- session not ended
  else if h > e.curW * e.curB + m.key.sbh then "out-of-window"      -- mature
  else if m.total < e.minProofs then "too-few-proofs"
  else if !e.chainSupported then "chain-unsupported"
  else if !e.nodeFound then "node-not-staked"
  else if !e.appFound then "app-not-staked"
  else if e.maxRelays < m.total then "over-allowance"
  else if e.chainsOverLimit then "app-chains-over-limit"
  else if e.sessionPre.isSome then "invalid-session"
  else if !e.headerCanonical then "header-not-canonical"
  else if !e.inSession then "node-not-in-session"
  else "?"

def first (vs : List Verdict) : Verdict :=
  match vs.find? (fun v => match v with | .propfail .. => true | _ => false) with
  | some v => v
  | none =>
    match vs.find? (fun v => match v with | .ok => false | _ => true) with
    | some v => v
    | none => .ok

def chk (c : Bool) (v : Verdict) : Verdict := if c then .ok else v

def stepClaim (d : DState) (h : Int) (pre _post : List String) (impl : Option Code) (p : Dump) : DState × Verdict :=
  let parsed : Option (MsgClaim × ClaimEnv × String) := do
    let key ← (pre.drop 3).head?.bind parseKey
    let total ← kvInt pre "total"
    let rootu ← kv pre "rootu"
    let exp ← kvInt pre "exp"
    let signer ← kv pre "signer"
    let vb ← (kv pre "vb").bind parseCode
    let sess ← (kv pre "sess").bind parseCode
    let sessPre : Option Code := if (kv pre "sess") = some "na:0" then none else sess
    let e : ClaimEnv :=
      { dup := ← kvBool pre "dup", vb := vb, anteOk := ← kvBool pre "ante", sessCtxOk := ← kvBool pre "sctx", sessB := ← kvInt pre "B",
        minProofs := ← kvInt pre "min", chainSupported := ← kvBool pre "chain", nodeFound := ← kvBool pre "node",
        appFound := ← kvBool pre "app", maxRelays := ← kvInt pre "max", chainsOverLimit := ← kvBool pre "chlim",
        sessionPre := sessPre, headerCanonical := ← kvBool pre "canon", inSession := ← kvBool pre "insess", curW := ← kvInt pre "W", curB := ← kvInt pre "cB",
        claimExp := ← kvInt pre "E" }
    pure ({ key := key, total := total, root := Bytes.ofString rootu, expiration := exp }, e, signer)
  match parsed with
  | none => (d, .bad "claim line")
  | some (m, e, signer) =>
    let s : State := { height := h, claims := d.claims, supply := d.supply }
    let r := deliverClaim s m e
    let accepted := impl.isNone
    -- specification on the implementation's own outputs
    let spec : List Verdict :=
      [ chk (!(accepted && !claimAcceptable h m e)) (.propfail s!"claim-accepted-{claimReason h m e}" s!"h={h} key={renderKey m.key}"),
        chk (!(accepted && e.sessB > 0 && m.key.sbh % e.sessB ≠ 1 % e.sessB))
          (.propfail "claim-accepted-for-non-session-height" s!"h={h} key={renderKey m.key} blocksPerSession={e.sessB}"),
        chk (!(accepted && Claims.get p.claims m.key ≠ some (storedClaim h m e)))
          (.propfail "accepted-claim-not-stored" s!"h={h} key={renderKey m.key} stored={renderClaims p.claims}"),
        chk (!(accepted && !(p.claims.all fun q => q.1 = m.key || Claims.get d.claims q.1 = some q.2)))
          (.propfail "claim-changed-other-entries" s!"h={h} key={renderKey m.key}"),
        chk (!(accepted && !(d.claims.all fun q => q.1 = m.key || Claims.get p.claims q.1 = some q.2)))
          (.propfail "claim-changed-other-entries" s!"h={h} key={renderKey m.key}"),
        chk (!(!accepted && !claimsEq d.claims p.claims)) (.propfail "rejected-claim-changed-store" s!"h={h} key={renderKey m.key}"),
        chk (p.supply = d.supply) (.propfail "mint-outside-proof" s!"h={h} claim tx changed the supply by {p.supply - d.supply}"),
        chk (!(accepted && d.ledger.any fun l => l.key ≠ m.key && canonKey l.key = canonKey m.key && l.accepts > 0))
          (.propfail "session-claimed-under-two-spellings" s!"h={h} key={renderKey m.key}: the same (servicer, application key, chain, session, type) was already claimed under another spelling of the header") ]
    -- model vs implementation
    let feePaid := !e.dup && e.vb.isNone && e.anteOk
    let expBal := if feePaid then balAdd (balAdd d.bal signer (-fee)) "m_fee_collector" fee else d.bal
    let codeOk := if r.err = some Code.ante then impl.isSome else r.err = impl
    let tie : List Verdict :=
      [ chk codeOk (.diff s!"code model={renderCode r.err} impl={renderCode impl}"),
        chk (claimsEq r.state.claims p.claims) (.diff s!"claims model={renderClaims r.state.claims} impl={renderClaims p.claims}"),
        chk (r.state.supply = p.supply) (.diff s!"supply model={r.state.supply} impl={p.supply}"),
        chk (balEq expBal p.bal) (.diff s!"balances {balDiff expBal p.bal}"),
        chk (d.stake = p.stake) (.diff "node stakes changed in a claim tx") ]
    let ledger := if accepted then
        let l := ledgerGet d.ledger m.key
        ledgerPut d.ledger { l with accepts := l.accepts + 1 }
      else d.ledger
    ({ d.adopt h p with ledger := ledger }, first (spec ++ tie))

def stepProof (d : DState) (h : Int) (pre _post : List String) (impl : Option Code) (p : Dump) : DState × Verdict :=
  let parsed : Option (MsgProof × ProofEnv × String × List (String × Int)) := do
    let key ← (pre.drop 3).head?.bind parseKey
    let leaf ← match kv pre "leaf" with
      | some "relay" => some LeafKind.relay
      | some "chal" => some LeafKind.challenge
      | _ => none
    let signer ← kv pre "signer"
    let vb ← (kv pre "vb").bind parseCode
    let mk ← match kv pre "mk" with
      | some "valid" => some Merkle.valid
      | some "replay" => some Merkle.replay
      | some "invalid" => some Merkle.invalid
      | some "na" => some Merkle.invalid
      | _ => none
    let leafv ← (kv pre "leafv").bind parseCode
    let rw ← (kv pre "rw").bind parseBal
    let e : ProofEnv :=
      { dup := ← kvBool pre "dup", vb := vb, anteOk := ← kvBool pre "ante", levelOk := ← kvBool pre "lvl", rootMatch := ← kvBool pre "rootm",
        sessCtxOk := ← kvBool pre "sctx", indexAvail := ← kvBool pre "idxavail", indexOk := ← kvBool pre "idx",
        merkle := mk, appFound := ← kvBool pre "app", leafErr := if (kv pre "leafv") = some "na:0" then none else leafv,
        reward := (rw.map (·.2)).foldl (· + ·) 0,
        -- the burn amounts are C27's subject: taken from the output, checked for sign and source
        burn := d.supply - p.supply,
        challengeBurn := (rw.map (·.2)).foldl (· + ·) 0 - (p.supply - d.supply) }
    pure (⟨key, leaf⟩, e, signer, rw)
  match parsed with
  | none => (d, .bad "proof line")
  | some (m, e, signer, rw) =>
    let s : State := { height := h, claims := d.claims, supply := d.supply }
    let r := deliverProof false s m e
    let ds := p.supply - d.supply
    let paid := ds > 0 || impl.isNone
    let typed := m.leaf.et = m.key.et
    let sfx := if typed then "" else "-evtype-mismatch"
    let l := ledgerGet d.ledger m.key
    let l' : Ledger := if paid then { l with pays := l.pays + 1, mistyped := l.mistyped || !typed } else l
    let preClaim := Claims.get d.claims m.key
    let foundOracle := kvBool pre "found"
    let spec : List Verdict :=
      [ chk (foundOracle = some preClaim.isSome) (.bad s!"oracle found={kv pre "found"} but the dumped pre-state says {preClaim.isSome}"),
        chk (!(paid && preClaim.isNone)) (.propfail "reward-without-stored-claim" s!"h={h} key={renderKey m.key} ds={ds}"),
        chk (!(paid && preClaim.isSome && !proofPayable d.claims m e))
          (.propfail "invalid-proof-rewarded" s!"h={h} key={renderKey m.key} ds={ds} oracle: {" ".intercalate (pre.dropWhile (· ≠ "|"))}"),
        chk (!(paid && (preClaim.map (fun c => decide (c.expiration ≤ h))).getD false))
          (.propfail "expired-claim-paid" s!"h={h} key={renderKey m.key}"),
        chk (!(paid && l'.pays > l'.accepts))
          (.propfail s!"reward-paid-twice{if l'.mistyped then "-evtype-mismatch" else ""}"
            s!"h={h} key={renderKey m.key}: {l'.pays} payments for {l'.accepts} accepted claim(s)"),
        chk (d.claims.all fun q => q.1 = m.key || (Claims.get p.claims q.1).isSome)
          (.propfail s!"foreign-claim-deleted{sfx}" s!"h={h} proof for {renderKey m.key} removed another claim: before={renderClaims d.claims} after={renderClaims p.claims}"),
        chk (!(paid && d.ledger.any fun o => o.key ≠ m.key && canonKey o.key = canonKey m.key && o.pays > 0))
          (.propfail "session-rewarded-per-spelling" s!"h={h} key={renderKey m.key}: the same session was already rewarded under another spelling of the header"),
        chk (!(paid && typed && !l'.mistyped && l.pays ≥ 1 && l'.pays ≤ l'.accepts))
          (.propfail "session-rewarded-again-after-reclaim" s!"h={h} key={renderKey m.key}: payment no. {l'.pays} for the same (servicer, application, chain, session) after it was claimed again"),
        chk (!(paid && (Claims.get p.claims m.key).isSome))
          (.propfail s!"claim-survived-proof{sfx}" s!"h={h} key={renderKey m.key} ds={ds}: the paid claim is still in the store"),
        chk (p.claims.all fun q => Claims.get d.claims q.1 = some q.2)
          (.propfail "proof-created-claim" s!"h={h} key={renderKey m.key}"),
        chk (!(impl.isSome && impl ≠ some Code.replayAttack && (!claimsEq d.claims p.claims || ds ≠ 0)))
          (.propfail "rejected-proof-changed-state" s!"h={h} key={renderKey m.key} code={renderCode impl} ds={ds}"),
        chk (!(ds < 0 && impl ≠ some Code.replayAttack && !(impl.isNone && m.leaf = .challenge)))
          (.propfail "burn-outside-burn-branches" s!"h={h} ds={ds}") ]
    let feePaid := !e.dup && e.vb.isNone && e.anteOk
    let b0 := if feePaid then balAdd (balAdd d.bal signer (-fee)) "m_fee_collector" fee else d.bal
    let minted := r.events.any fun ev => match ev with | .minted .. => true | _ => false
    let b1 := if minted then rw.foldl (fun b q => balAdd b q.1 q.2) b0 else b0
    let burned := r.events.any fun ev => match ev with | .burned .. => true | _ => false
    let cburned := r.events.any fun ev => match ev with | .challengeBurn .. => true | _ => false
    let b2 := if burned then balAdd b1 "m_staked_tokens_pool" (-(e.burn))
      else if cburned then balAdd b1 "m_staked_tokens_pool" (-(e.challengeBurn)) else b1
    let codeOk := if r.err = some Code.ante then impl.isSome else r.err = impl
    let tie : List Verdict :=
      [ chk codeOk (.diff s!"code model={renderCode r.err} impl={renderCode impl}"),
        chk (claimsEq r.state.claims p.claims) (.diff s!"claims model={renderClaims r.state.claims} impl={renderClaims p.claims}"),
        chk (r.state.supply = p.supply) (.diff s!"supply model={r.state.supply} impl={p.supply}"),
        chk (!(burned && e.burn < 0)) (.diff s!"replay branch increased the supply by {-e.burn}"),
        chk (!(cburned && e.challengeBurn < 0)) (.diff s!"challenge proof minted {-e.challengeBurn} more than the oracle reward"),
        chk (balEq b2 p.bal) (.diff s!"balances {balDiff b2 p.bal}"),
        chk (burned || cburned || d.stake = p.stake) (.diff "node stakes changed outside the burn branches") ]
    ({ d.adopt h p with ledger := if paid then ledgerPut d.ledger l' else d.ledger }, first (spec ++ tie))

def step (d : DState) (pre post : List String) : DState × Verdict :=
  match parseDump post with
  | none => (d, .bad "dump")
  | some p =>
    match pre with
    | "init" :: _ => (({} : DState).adopt 0 p, if p.claims.isEmpty then .ok else .bad "initial claims")
    | ["begin", hs] =>
      match hs.toInt? with
      | none => (d, .bad "height")
      | some h =>
        if !d.ready then (d, .bad "no init") else
        let s : State := { height := h - 1, claims := d.claims, supply := d.supply }
        let (s', _) := beginBlock s
        let spec : List Verdict :=
          [ chk (p.claims.all fun q => decide (h < q.2.expiration))
              (.propfail "expired-claim-survived" s!"h={h} claims={renderClaims p.claims}"),
            chk (d.claims.all fun q => decide (q.2.expiration ≤ h) || Claims.get p.claims q.1 = some q.2)
              (.propfail "unexpired-claim-removed" s!"h={h} before={renderClaims d.claims} after={renderClaims p.claims}"),
            chk (p.supply = d.supply) (.propfail "expiry-changed-supply" s!"h={h} ds={p.supply - d.supply}"),
            chk (p.claims.all fun q => Claims.get d.claims q.1 = some q.2) (.propfail "claim-appeared-at-begin-block" s!"h={h}") ]
        let tie := [ chk (claimsEq s'.claims p.claims) (.diff s!"claims model={renderClaims s'.claims} impl={renderClaims p.claims}") ]
        (d.adopt h p, first (spec ++ tie))
    | ["end", hs] =>
      match hs.toInt? with
      | none => (d, .bad "height")
      | some h =>
        let v := first
          [ chk (claimsEq d.claims p.claims) (.propfail "claim-store-changed-at-end-block" s!"h={h}"),
            chk (p.supply = d.supply) (.diff s!"supply changed in EndBlock/Commit by {p.supply - d.supply}") ]
        (d.adopt h p, v)
    | "tx" :: hs :: kind :: _ =>
      match hs.toInt?, (kv post "code").bind parseCode with
      | some h, some impl =>
        if !d.ready then (d, .bad "no init") else
        if kind = "claim" then stepClaim d h pre post impl p
        else if kind = "proof" then stepProof d h pre post impl p
        else (d, .bad "tx kind")
      | _, _ => (d, .bad "tx header")
    | _ => (d, .bad "op")

def main : IO Unit := Proto.run ({} : DState) step
