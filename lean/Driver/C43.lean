import PocketModel.Basic.Proto
import PocketModel.Ledger.Genesis
/-!
Driver for C43: consumes the trace of `harness/cmd/c43` (see its header for the line formats).
State: the abstract ledger `A` of the exporting node of the current history.
* `export`   : the exported JSON (abstracted by the harness) against `Gen.exportGenesis A` and against
               the spec "nothing of A is missing".
* `init`     : the real `InitChain` on the export against `Gen.initChain`.
* `validate` / `initmod` : the per-module steps against `Gen.validate*` / `Gen.initModules`.
* `cmp`      : every component of the state the new node reached against (a) `A` — the property —
               and (b) the model's `InitGenesis` prediction.
-/
open Gen

def splitOnC (s : String) (c : Char) : List String := if s = "-" ∨ s = "" then [] else (s.split (· == c)).toList.map (·.toString)

def pI (s : String) : Option Int := s.toInt?

def pAcct (s : String) : Option Acct :=
  match s.splitOn ":" with
  | [a, u, m, hp, o] => do
    let a ← Bytes.parse a
    let u ← pI u
    pure { addr := a, upokt := u, module := if m = "-" then "" else m, hasPub := hp = "1", other := o = "1" }
  | _ => none

def pNode (s : String) : Option Node :=
  match s.splitOn ":" with
  | [a, st, j, tok, ut, out, ch, del, url] => do
    let a ← Bytes.parse a
    let st ← st.toNat?
    let tok ← pI tok
    let ut ← pI ut
    pure { addr := a, status := st, jailed := j = "1", tokens := tok, unstakingTime := ut, output := out, chains := splitOnC ch '+', delegators := del, url := url }
  | _ => none

def pApp (s : String) : Option (Apps.Addr × Apps.App) :=
  match s.splitOn ":" with
  | [a, pk, st, j, tok, mr, ut, ch] => do
    let a ← Bytes.parse a
    let pk ← Bytes.parse pk
    let st ← st.toNat?
    let tok ← pI tok
    let mr ← pI mr
    let ut ← pI ut
    pure (a, { pk := pk, status := st, jailed := j = "1", tokens := tok, maxRelays := mr, chains := splitOnC ch '+', unstakingTime := ut })
  | _ => none

def pClaim (s : String) : Option Claim := do
  let e ← (s.splitOn ":").getLast?
  let x ← pI e
  pure { record := s, expiration := x }

def pSign (s : String) : Option Sign :=
  match (s.splitOn ":") with
  | [a, st, i, ju, m, jb] => do
    let a ← Bytes.parse a
    pure { addr := a, start := ← pI st, index := ← pI i, jailedUntil := ← pI ju, missed := ← pI m, jailedBlocks := ← pI jb }
  | _ => none

def pPower (s : String) : Option (Apps.Addr × Int) :=
  match s.splitOn ":" with
  | [a, p] => do pure (← Bytes.parse a, ← pI p)
  | _ => none

def pNodeIdx (s : String) : Option NodeIdx :=
  match s.splitOn "/" with
  | ["staked", p, k, v] => do pure (.staked (← pI p) (← Bytes.parse k) (← Bytes.parse v))
  | ["chain", c, a] => do pure (.chain c (← Bytes.parse a))
  | ["unstaking", t, as] => do pure (.unstaking (← pI t) (← (splitOnC as '+').mapM Bytes.parse))
  | ["waiting", a] => do pure (.waiting (← Bytes.parse a))
  | _ => none

def pParams (sub : String) (s : String) : List (String × String) :=
  (splitOnC s ';').filterMap fun e => match e.splitOn ":" with
    | [k, v] => some (sub ++ "/" ++ k, v)
    | _ => none

def fieldOf (ws : List String) (k : String) : Option String :=
  ws.findSome? fun w => if w.startsWith (k ++ "=") then some ((w.drop (k.length + 1)).toString) else none

def listOf {α} (ws : List String) (k : String) (p : String → Option α) : Option (List α) :=
  (fieldOf ws k).bind fun s => (splitOnC s ';').mapM p

def pTyped (s : String) : Option (Int × Apps.Params) :=
  match (s.splitOn ",").mapM pI with
  | some [pm, a, b, c, d, e, f, g] => some (pm, { minStake := a, maxChains := b, maxApps := c, baseRelays := d, stability := e, unstakingTime := f, participation := g = 1 })
  | _ => none

def pAddrOpt (s : String) : Option (Option Apps.Addr) := if s = "-" then some none else (Bytes.parse s).map some

def pL (ws : List String) : Option L := do
  let idx ← listOf ws "nodeidx" pNodeIdx
  let aidx ← listOf ws "appidx" pNodeIdx
  let (pm, ap) ← (fieldOf ws "typed").bind pTyped
  let params := ["auth", "pos", "application", "pocketcore", "gov"].flatMap fun m => pParams m ((fieldOf ws ("params-" ++ m)).getD "-")
  pure { accounts := ← listOf ws "accounts" pAcct
         supply := ← (fieldOf ws "supply").bind pI
         nodes := ← listOf ws "nodes" pNode
         nodeIdx := idx
         signing := ← listOf ws "signing" pSign
         prevPower := ← listOf ws "prevpower" pPower
         prevTotal := ← (fieldOf ws "prevtotal").bind pI
         proposer := ← (fieldOf ws "proposer").bind pAddrOpt
         apps := ← listOf ws "apps" pApp
         appIdx := aidx.filterMap fun e => match e with | .staked p k v => some ((p, k), v) | _ => none
         appQueue := aidx.filterMap fun e => match e with | .unstaking t as => some (t, as) | _ => none
         claims := ← listOf ws "claims" pClaim
         params := params
         acl := splitOnC ((fieldOf ws "acl").getD "-") ';'
         posMinStake := pm
         appParams := ap }

/-! ## rendering (canonical, sorted) -/

def hx (b : Apps.Addr) : String := Bytes.toHex b
def sortS (xs : List String) : List String := xs.mergeSort (fun a b => a ≤ b)
def joinS (xs : List String) : String := if xs.isEmpty then "-" else ";".intercalate (sortS xs)
def plus (xs : List String) : String := if xs.isEmpty then "-" else "+".intercalate xs

def rAcct (a : Acct) : String := s!"{hx a.addr}:{a.upokt}:{if a.module = "" then "-" else a.module}:{if a.hasPub then 1 else 0}:{if a.other then 1 else 0}"
def rNode (n : Node) : String := s!"{hx n.addr}:{n.status}:{if n.jailed then 1 else 0}:{n.tokens}:{n.unstakingTime}:{n.output}:{plus n.chains}:{n.delegators}:{n.url}"
def rApp (e : Apps.Addr × Apps.App) : String :=
  s!"{hx e.1}:{hx e.2.pk}:{e.2.status}:{if e.2.jailed then 1 else 0}:{e.2.tokens}:{e.2.maxRelays}:{e.2.unstakingTime}:{plus e.2.chains}"
def rSign (s : Sign) : String := s!"{hx s.addr}:{s.start}:{s.index}:{s.jailedUntil}:{s.missed}:{s.jailedBlocks}"
def rNodeIdx : NodeIdx → String
  | .staked p k v => s!"staked/{p}/{hx k}/{hx v}"
  | .chain c a => s!"chain/{c}/{hx a}"
  | .unstaking t as => s!"unstaking/{t}/{"+".intercalate (as.map hx)}"
  | .waiting a => s!"waiting/{hx a}"
def rParams (sub : String) (ps : List (String × String)) : String :=
  joinS ((ps.filter fun e => inSubspace e.1 sub).map fun e => s!"{(e.1.drop (sub.length + 1)).toString}:{e.2}")

/-- a component of a ledger, rendered as the harness renders it -/
def comp (l : L) (c : String) : String :=
  match c with
  | "accounts" => joinS (l.accounts.map rAcct)
  | "supply" => toString l.supply
  | "nodes" => joinS (l.nodes.map rNode)
  | "nodeidx" => joinS (l.nodeIdx.map rNodeIdx)
  | "signing" => joinS (l.signing.map rSign)
  | "prevpower" => joinS (l.prevPower.map fun e => s!"{hx e.1}:{e.2}")
  | "prevtotal" => toString l.prevTotal
  | "proposer" => match l.proposer with | some a => hx a | none => "-"
  | "apps" => joinS (l.apps.map rApp)
  | "appidx" => joinS ((l.appIdx.map fun e => s!"staked/{e.1.1}/{hx e.1.2}/{hx e.2}") ++ (l.appQueue.map fun e => s!"unstaking/{e.1}/{"+".intercalate (e.2.map hx)}"))
  | "claims" => joinS (l.claims.map (·.record))
  | "acl" => joinS l.acl
  | "dao" => toString l.dao
  | _ => if c.startsWith "params-" then rParams ((c.drop 7).toString) l.params else "?"

/-- the view of a component the property compares (justified normalisations, see design-notes/C43.md) -/
def specView (l : L) (c : String) : String :=
  match c with
  | "accounts" => joinS ((viewAccounts l).map rAcct)   -- an account with empty coins ≡ no account
  | _ => comp l c

/-! ## stages -/

def stageOf (s : String) : Option Stage :=
  match s with
  | "auth" => some .auth | "pos" => some .pos | "application" => some .application
  | "pocketcore" => some .pocketcore | "gov" => some .gov | "done" => some .done | _ => none

def stageNum : Stage → Nat
  | .auth => 0 | .pos => 1 | .application => 2 | .pocketcore => 3 | .gov => 4 | .done => 5

/-- state after the modules before `st` completed (model) -/
def stateAt (g : G) (st : Stage) : L :=
  let l1 := initAuth g emptyL
  if stageNum st ≤ 1 then l1 else
  match initPos g l1 with
  | none => l1
  | some l2 =>
    if stageNum st ≤ 2 then l2 else
    match initApps g l2 with
    | none => l2
    | some l3 =>
      if stageNum st ≤ 3 then l3 else
      let l4 := initPocket g l3
      if stageNum st ≤ 4 then l4 else
      match initGov g l4 with
      | none => l4
      | some l5 => l5

/-- the number of the module that owns a component (it is written when that module completed) -/
def ownerNum (c : String) : Nat :=
  if c = "accounts" ∨ c = "supply" ∨ c = "params-auth" ∨ c = "dao" then 0
  else if c = "nodes" ∨ c = "nodeidx" ∨ c = "signing" ∨ c = "prevpower" ∨ c = "prevtotal" ∨ c = "proposer" ∨ c = "params-pos" then 1
  else if c = "apps" ∨ c = "appidx" ∨ c = "params-application" then 2
  else if c = "claims" ∨ c = "params-pocketcore" then 3
  else 4

/-- diagnosed cause of an as-coded difference, per component -/
def causeOf (c : String) : String :=
  match c with
  | "supply" => "inflated-by-staked-and-dao-tokens"
  | "nodes" => "output-and-delegators-dropped"
  | "apps" => "maxrelays-recomputed"
  | "params-pos" => "post-genesis-params-dropped"
  | "params-pocketcore" => "post-genesis-params-dropped"
  | "nodeidx" => "waiting-set-dropped"
  | "dao" => "dao-tokens-minted-twice"
  | "accounts" => "dao-tokens-minted-twice"
  | _ => "as-coded"

/-- derived stores: compared with the model only; justified differences of the signing infos -/
def derivedOnly (c : String) : Bool := c = "signing"

structure DState where
  a : Option L := none
  id : String := ""

def crashIsAuthNilPubKey (s : String) : Bool := (s.splitOn "x/auth/types.ValidateGenesis").length > 1

def missing (a x : List String) : List String := a.filter fun e => !x.contains e

def step (d : DState) (pre post : List String) : DState × Verdict :=
  match pre with
  | ["hist", id] =>
    match pL post with
    | none => (d, .bad "hist state")
    | some l => ({ a := some l, id := id }, .ok)
  | _ =>
  match d.a with
  | none => (d, .bad "no hist")
  | some l =>
    let g := exportGenesis l
    match pre with
    | ["export", _] =>
      let xa := (listOf post "x-accounts" pAcct).getD []
      let xn := (listOf post "x-nodes" pNode).getD []
      let xp := (listOf post "x-apps" pApp).getD []
      let xc := (listOf post "x-claims" pClaim).getD []
      let xs := (listOf post "x-signing" pSign).getD []
      let xpp := (listOf post "x-prevpower" pPower).getD []
      -- spec: nothing of A is missing from the export
      let mAcc := missing ((viewAccounts l).map rAcct) (xa.map rAcct)
      let mNodes := missing (l.nodes.map rNode) (xn.map rNode)
      let mApps := missing (l.apps.map rApp) (xp.map rApp)
      let mClaims := missing (l.claims.map (·.record)) (xc.map (·.record))
      let spec : Option (String × String) :=
        if !mAcc.isEmpty then some ("export-missing-accounts", joinS mAcc)
        else if (fieldOf post "x-supply").bind pI ≠ some l.supply then some ("export-supply-differs", s!"state={l.supply} export={fieldOf post "x-supply"}")
        else if !mNodes.isEmpty then some ("export-missing-nodes", joinS mNodes)
        else if !mApps.isEmpty then some ("export-missing-apps", joinS mApps)
        else if !mClaims.isEmpty then some ("export-missing-claims", joinS mClaims)
        else if missing l.acl (splitOnC ((fieldOf post "x-acl").getD "-") ';') ≠ [] then some ("export-missing-acl", "")
        else none
      -- model: the export is exactly `exportGenesis A`
      let diffs :=
        (if joinS (g.accounts.map rAcct) ≠ joinS (xa.map rAcct) then ["accounts"] else []) ++
        (if joinS (g.nodes.map rNode) ≠ joinS (xn.map rNode) then ["nodes"] else []) ++
        (if joinS (g.apps.map rApp) ≠ joinS (xp.map rApp) then ["apps"] else []) ++
        (if joinS (g.claims.map (·.record)) ≠ joinS (xc.map (·.record)) then ["claims"] else []) ++
        (if joinS (g.signing.map rSign) ≠ joinS (xs.map rSign) then ["signing"] else []) ++
        (if joinS (g.prevPower.map fun e => s!"{hx e.1}:{e.2}") ≠ joinS (xpp.map fun e => s!"{hx e.1}:{e.2}") then ["prevpower"] else []) ++
        (if (fieldOf post "x-prevtotal").bind pI ≠ some g.prevTotal then ["prevtotal"] else []) ++
        (if (fieldOf post "x-dao").bind pI ≠ some g.daoTokens then ["dao"] else []) ++
        (if fieldOf post "x-exported" ≠ some "1" then ["exported-flag"] else []) ++
        (if fieldOf post "x-missed" ≠ some "0" then ["missed-blocks"] else [])
      match spec with
      | some (sig, det) => (d, .propfail sig det)
      | none => (d, if diffs.isEmpty then .ok else .diff s!"export differs from model in {diffs}")
    | ["init", _] =>
      let impl := post.headD "?"
      let model := initChain g
      match model with
      | .ok _ =>
        if impl = "ok" then (d, .ok) else (d, .propfail "export-init-fatal-unexplained" impl)
      | .validateFailed m r =>
        if impl = "ok" then (d, .diff s!"model: validate {m} fails, impl ok")
        else if m = "auth" ∧ r = .panic ∧ crashIsAuthNilPubKey impl then (d, .propfail "export-init-fatal-auth-validate-nil-pubkey" impl)
        else (d, .propfail s!"export-init-fatal-validate-{m}" impl)
      | .exited m =>
        if impl = "ok" then (d, .diff s!"model: {m} exits, impl ok") else (d, .propfail s!"export-init-fatal-exit-{m}" impl)
    | ["validate", m, _] =>
      let impl := post.headD "?"
      let cls := if impl = "ok" then VRes.ok else if impl.startsWith "panic" then VRes.panic else VRes.err
      let model := match m with
        | "auth" => validateAuth g | "pos" => validatePos g | "application" => validateApps g
        | "pocketcore" => validatePocket g | _ => VRes.ok
      if cls = .ok then (d, if model = .ok then .ok else .diff s!"model: validate {m} = {repr model}, impl ok")
      else if model = cls then (d, .propfail s!"export-init-validate-{m}-rejects" impl)
      else (d, .propfail s!"export-init-validate-{m}-rejects-unexplained" impl)
    | ["initmod", _] =>
      let impl := post.headD "?"
      let (st, _) := initModules g
      if impl = "ok" then (d, if st = .done then .ok else .diff s!"model: {st.render} exits, impl ok")
      else
        let im := ((impl.splitOn ":").drop 1).headD "?"
        if im = st.render then (d, .propfail s!"export-init-exit-{im}" impl)
        else (d, .propfail s!"export-init-exit-{im}-unexplained" s!"{impl} model={st.render}")
    | ["cmp", c, _, stg] =>
      match stageOf ((stg.drop 6).toString) with
      | none => (d, .bad "stage")
      | some st =>
        if ownerNum c ≥ stageNum st then (d, .ok)   -- the owning module did not complete: covered by the initmod line
        else
          let b := post.headD "-"
          let m := stateAt g st
          let bView := if c = "accounts" then
              match (splitOnC b ';').mapM pAcct with
              | some as => joinS ((as.filter fun a => a.upokt ≠ 0 || a.other).map rAcct)
              | none => b
            else b
          if derivedOnly c then (d, if comp m c = b then .ok else .diff s!"{c} model={comp m c} impl={b}")
          else if bView = specView l c then (d, if specView m c = bView then .ok else .diff s!"{c}: equal to A but model={specView m c}")
          else if bView = specView m c then (d, .propfail s!"export-init-{c}-differs-{causeOf c}" s!"A={specView l c} B={bView}")
          else (d, .propfail s!"export-init-{c}-differs" s!"A={specView l c} B={bView} model={specView m c}")
    | _ => (d, .bad "op")

def main : IO Unit := Proto.run ({} : DState) step
