import PocketModel.Basic.Proto
import PocketModel.Ledger.Caches
/-! Driver for C13: twin histories on the real application (see harness/cmd/c13).

* `mode asis|fixed => … key ver pre post` — the probe; the model's `getApp` under that query context
  must reproduce the observed cache transition, otherwise the code matches neither model.
* `A blk h kinds => apphash codes valupdates stateDigest rawDigest` — reference twin.
* `B act kind point desc => code cap [key ver pre] post store` — one off-chain request of the busy
  twin: (a) model transition check of the REAL ApplicationCache for `application` queries
  (`Caches.getApp` with the probed context flavour, LRU order and eviction included) — DIFF;
  (b) verified runtime monitor: the dumped cache must be coherent with the dumped working store
  (`Caches.Coherent`, the invariant of `C13.caches_coherent`) — PROPFAIL `appcache-incoherent`.
* `coh` / `act` lines also carry the REAL validators-by-chain cache and the store's answers:
  `Caches.VbcCoherent` evaluated on them — PROPFAIL `vbccache-incoherent`.
* `B blk h … => …` must equal A's line — PROPFAIL `<kind>-changes-consensus`.
-/
open Caches

structure St where
  q : Option QueryCtx := none
  kind : String := ""
  ablk : List (String × List String) := []
  bcount : Nat := 0
  reported : Bool := false
  incoherent : Bool := false
  vbcBad : Bool := false

def field (ws : List String) (name : String) : Option String :=
  (ws.find? (·.startsWith (name ++ "="))).map (fun w => (w.drop (name.length + 1)).toString)

def parseItems (s : String) : Option (List (String × String)) :=
  if s = "-" then some [] else
  (s.splitOn ",").mapM fun e => match e.splitOn ":" with
    | [k, d] => some (k, d)
    | _ => none

def renderItems (l : List (String × String)) : String :=
  if l.isEmpty then "-" else ",".intercalate (l.map fun e => s!"{e.1}:{e.2}")

def sigOf (kind : String) : String :=
  if kind = "none" then "twin-nondeterminism" else kind ++ "-changes-consensus"

/-- decidable form of `Caches.Coherent` on dumps -/
def coherentB (cache store : List (String × String)) : Bool :=
  cache.all fun e => (store.find? (·.1 = e.1)).map (·.2) = some e.2

/-- model transition of one custom `application` query -/
def modelQuery (q : QueryCtx) (cap : Nat) (pre : List (String × String)) (key : String) (ver : Option String) :
    List (String × String) :=
  (getApp q.prev (fun k => if k = key then ver else none) (⟨cap, pre⟩ : LRU String String) key).1.items

def checkTransition (q : QueryCtx) (post : List String) : Option Verdict := do
  let cap ← field post "cap" >>= String.toNat?
  let key ← field post "key"
  let ver ← field post "ver"
  let pre ← field post "pre" >>= parseItems
  let pst ← field post "post" >>= parseItems
  if ver = "?" then return .ok   -- version not loadable (future height): the query fails before the keeper
  let want := modelQuery q cap pre key (if ver = "-" then none else some ver)
  return if want = pst then .ok else .diff s!"ApplicationCache transition: model {renderItems want} impl {renderItems pst} (pre {renderItems pre}, key {key}, ver {ver}, cap {cap})"

/-- `Caches.VbcCoherent` on dumps: every validators-by-chain entry (height/chain ↦ list digest) equals
the store's answer for exactly that height and chain id. -/
def vbcVerdict (st : St) (where_ : String) (post : List String) : Option (St × Verdict) :=
  match field post "vbc" >>= parseItems, field post "vbcstore" >>= parseItems with
  | some c, some s =>
    if coherentB c s || st.vbcBad then none
    else
      let bad := c.filter fun e => (s.find? (·.1 = e.1)).map (·.2) ≠ some e.2
      some ({ st with vbcBad := true }, .propfail "vbccache-incoherent" s!"{where_}: validators-by-chain cache entries {renderItems bad} differ from the store's answers {renderItems (s.filter fun e => bad.any (·.1 = e.1))}")
  | _, _ => none

def stepCore (st : St) (pre post : List String) : St × Verdict :=
  match pre with
  | ["mode", m] =>
    let q : Option QueryCtx := if m = "asis" then some .asis else if m = "fixed" then some .fixed else none
    match q with
    | none => (st, .diff s!"probe: the custom query context matches neither model: {post}")
    | some q =>
      match checkTransition q post with
      | some v => ({ st with q := some q }, v)
      | none => (st, .bad "probe fields")
  | "hist" :: _ :: kind :: _ => ({ st with kind := kind, ablk := [], bcount := 0, reported := false, incoherent := false, vbcBad := false }, .ok)
  | ["crash", _, role] =>
    if role = "B" then ({ st with reported := true }, .propfail (sigOf st.kind) s!"twin B crashed or hung: {" ".intercalate (post.take 30)}")
    else (st, .diff s!"twin A crashed: {" ".intercalate (post.take 30)}")
  | ["A", "blk", h, _] => ({ st with ablk := (h, post) :: st.ablk }, if post.length = 5 then .ok else .bad "blk arity")
  | ["B", "restart", _] => (st, .ok)
  | [role, "coh", h] =>
    -- the coherence invariant after block execution; without off-chain application queries nothing but
    -- block execution itself can have broken it
    match field post "post" >>= parseItems, field post "store" >>= parseItems with
    | some c, some s =>
      if coherentB c s then (st, .ok)
      else if role = "B" && (st.kind = "appquery" || st.kind = "simulate") then
        if st.incoherent then (st, .ok)
        else ({ st with incoherent := true }, .propfail "appcache-incoherent" s!"after block {h}: cache {renderItems c} vs working store {renderItems s}")
      else (st, .propfail "appcache-incoherent-by-block" s!"twin {role} ({st.kind}) after block {h}: cache {renderItems c} vs working store {renderItems s}")
    | _, _ => (st, .bad "dump fields")
  | "B" :: "act" :: _ =>
    match st.q with
    | none => (st, .bad "no mode line")
    | some q =>
      let tv : Verdict := if (field post "key").isSome then (checkTransition q post).getD (.bad "act fields") else .ok
      match tv with
      | .ok =>
        match field post "post" >>= parseItems, field post "store" >>= parseItems with
        | some c, some s =>
          if coherentB c s || st.incoherent then (st, .ok)
          else ({ st with incoherent := true }, .propfail "appcache-incoherent" s!"{" ".intercalate (pre.drop 2)}: cache {renderItems c} vs working store {renderItems s}")
        | _, _ => (st, .bad "dump fields")
      | v => (st, v)
  | ["B", "blk", h, _] =>
    let st' := { st with bcount := st.bcount + 1 }
    match st.ablk.find? (·.1 = h) with
    | none => (st', .bad s!"no A block {h}")
    | some (_, a) =>
      if a = post || st.reported then (st', .ok)
      else
        let what := if a.take 1 ≠ post.take 1 then "app hash" else if (a.drop 1).take 1 ≠ (post.drop 1).take 1 then "DeliverTx codes" else "state"
        ({ st' with reported := true }, .propfail (sigOf st.kind) s!"block {h} ({" ".intercalate (pre.drop 3)}): {what} differs from the twin without off-chain traffic: A={" ".intercalate ((a.drop 1).take 1)} B={" ".intercalate ((post.drop 1).take 1)}")
  | ["end", _] =>
    if st.bcount = st.ablk.length || st.reported then (st, .ok)
    else (st, .diff s!"twin block counts differ: A={st.ablk.length} B={st.bcount}")
  | _ => (st, .bad "op")

/-- the line's own verdict first; when that is OK, the validators-by-chain monitor -/
def step (st : St) (pre post : List String) : St × Verdict :=
  let r := stepCore st pre post
  match r.2 with
  | .ok =>
    match pre with
    | _ :: "coh" :: _ | "B" :: "act" :: _ => (vbcVerdict r.1 (" ".intercalate (pre.take 5)) post).getD r
    | _ => r
  | _ => r

def main : IO Unit := Proto.run ({} : St) step
