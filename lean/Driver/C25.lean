import PocketModel.Ledger.NodesDriver
/-! Driver for C25 (nodes ledger): see `PocketModel/Ledger/NodesDriver.lean`. -/
def main : IO Unit := Proto.run (NodesDriver.init "C25") NodesDriver.step
