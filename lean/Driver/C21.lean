import PocketModel.Ledger.NodesDriver
/-! Driver for C21 (nodes ledger): see `PocketModel/Ledger/NodesDriver.lean`. -/
def main : IO Unit := Proto.run (NodesDriver.init "C21") NodesDriver.step
