import Std.Data.HashMap
import PocketModel.Basic.Proto
import PocketModel.Store.IavlSpec
import PocketModel.Store.IavlHeap
/-!
Driver for C09 stage B (heap level).  The trace (`harness/cmd/c09b`) carries, after every operation
on the real `iavl.MutableTree`, a dump of the Go heap below every root (object identity, persisted
flag, memoised hash, child pointers, how lazily loaded children resolve now).  The driver keeps

* the pure model (`Iavl.Tree` + `loadVersion`/`saveVersionX`) — answers and trees are compared with it;
* the last observed state of every Go object and DB record — a **run-time monitor of the ownership
  discipline** (`Iavl.Heap.cellLe`, the decidable relation `Proofs.Store.IavlHeap` proves of every
  model operation).

PROPFAIL signatures (the implementation's own heap violates the discipline):
* `heap-persisted-node-mutated` — an object observed persisted is later observed different; or a
  persisted object has child pointers / no hash / differs from the DB record under its hash
* `heap-hashed-node-mutated` — an unpersisted object with a memoised hash changed (stale memo), or
  differs from an existing DB record with its hash
* `heap-db-record-overwritten` — the DB record under a hash changed
* `heap-working-node-shared-with-saved-version` — an object still owned by the working tree is
  reachable from a saved root: an unpersisted one below a view handle or a version's root record,
  an unhashed one below lastSaved
* `heap-saved-version-changed` — the abstraction of a saved version / an open view differs from the
  one first observed
* `heap-node-missing` — a child hash resolves neither in the cache nor in the DB
* `heap-view-differs-from-saved-version` — the tree below a view handle opened at version v is not the
  tree below the root record of version v (dumped in the same snapshot)
* `historical-read` / `working-read` — an answer through a held view / the working tree differs from
  the map specification of that tree
DIFF: an answer or the abstraction of a dumped root differs from the pure model; an unhashed,
unpersisted object was written in place (the model's clone discipline is not the code's).
-/
open Iavl Iavl.Heap

inductive Res where
  | cache (m : Nat) | disk | missing
  deriving Repr, BEq

structure DSt where
  tree : Tree := {}
  views : List (Nat × Option (Option Node)) := []     -- view id ↦ model tree (`none` if the open failed in the model)
  nextV : Nat := 0
  vvers : List (Nat × Nat) := []                      -- view id ↦ the version it was opened at
  cells : Std.HashMap Nat Cell := {}                  -- object id ↦ last observed state
  recs : Std.HashMap Nat Stored := {}                 -- hash id ↦ DB record
  res : Std.HashMap Nat Res := {}                     -- hash id ↦ how GetNode resolves it now
  first : Std.HashMap String (Option Node) := {}      -- label ↦ abstraction first observed
  model : Option (St × MT) := none                    -- the heap MODEL replayed next to the real heap (first `modelBudget` ops)
  mviews : List (Nat × Option Addr) := []             -- view id ↦ the model's root handle
  budget : Nat := 0

def join (ws : List String) : String := " ".intercalate ws

def renderKVs (kvs : KVs) : String :=
  if kvs.isEmpty then "-"
  else ",".intercalate (kvs.map fun p => s!"{Bytes.render p.1}:{Bytes.render p.2}")

def renderRead : Option ReadResult → String
  | none => "novers"
  | some (.get i v) => s!"{i} {Bytes.renderOpt v}"
  | some (.has b) => toString b
  | some (.byIndex none) => "~ ~"
  | some (.byIndex (some (k, v))) => s!"{Bytes.render k} {Bytes.render v}"
  | some (.range kvs) => renderKVs kvs

def judge (sig : String) (line : String) (modelS implS : String) : Verdict :=
  if implS.startsWith "PANIC" then .propfail "impl-panic" s!"{line} => {implS}"
  else if implS != modelS then .diff s!"{sig} {line}: model={modelS} impl={implS}"
  else .ok

/-- hash id ↦ the `Hash` used inside `Cell`s (an injective rendering of the id). -/
def hashOfId (n : Nat) : Hash := [UInt8.ofNat (n / 65536), UInt8.ofNat (n / 256 % 256), UInt8.ofNat (n % 256)]
def idOfHash (h : Hash) : Nat :=
  match h with
  | [a, b, c] => a.toNat * 65536 + b.toNat * 256 + c.toNat
  | _ => 0

def parseHashTok (s : String) : Option (Option Hash) :=
  if s = "~" then some none
  else if s.startsWith "h" then (s.drop 1).toNat?.map (fun n => some (hashOfId n))
  else none

def parsePtrTok (s : String) : Option (Option Nat) :=
  if s = "~" then some none
  else if s.startsWith "m" then (s.drop 1).toNat?.map some
  else none

def parseObj (s : String) : Option Nat := if s.startsWith "m" then (s.drop 1).toNat? else none
def parseHid (s : String) : Option Nat := if s.startsWith "h" then (s.drop 1).toNat? else none

/-- The tree a reader starting at object `m` sees now (children by pointer, else through the
resolution of the child hash: cache object or DB record), the objects visited and whether an
unpersisted one was among them. -/
structure Walk where
  objs : List Nat := []
  dirty : List Nat := []      -- unpersisted objects
  unhashed : List Nat := []   -- objects without memoised hash (still owned by the working tree)

mutual
partial def absObj (st : DSt) (m : Nat) (w : Walk) : Option (Node × Walk) := do
  let c ← st.cells[m]?
  let w := { w with objs := m :: w.objs, dirty := if c.persisted then w.dirty else m :: w.dirty,
                    unhashed := if c.hash.isSome then w.unhashed else m :: w.unhashed }
  if c.height = 0 then some (.leaf c.key (c.value.getD []) c.version, w)
  else
    let (l, w) ← absChild st c.leftPtr c.leftHash w
    let (r, w) ← absChild st c.rightPtr c.rightHash w
    some (.inner c.key c.height c.size l r c.version, w)
partial def absChild (st : DSt) (ptr : Option Nat) (hash : Option Hash) (w : Walk) : Option (Node × Walk) :=
  match ptr with
  | some p => absObj st p w
  | none => match hash with
    | none => none
    | some hh => absHash st (idOfHash hh) w
partial def absHash (st : DSt) (hid : Nat) (w : Walk) : Option (Node × Walk) :=
  match st.res[hid]? with
  | some (.cache m) => absObj st m w
  | some .disk => do
    let s ← st.recs[hid]?
    if s.height = 0 then some (.leaf s.key (s.value.getD []) s.version, w)
    else
      let lh ← s.leftHash
      let rh ← s.rightHash
      let (l, w) ← absHash st (idOfHash lh) w
      let (r, w) ← absHash st (idOfHash rh) w
      some (.inner s.key s.height s.size l r s.version, w)
  | _ => none
end

def sigOf (old : Cell) : String :=
  if old.persisted then "heap-persisted-node-mutated"
  else if old.hash.isSome then "heap-hashed-node-mutated"
  else "dirty"

/-- Single-object well-formedness: persisted ⇒ hash, no pointers; hashed inner ⇒ both child hashes. -/
def cellAlone (c : Cell) : Option String :=
  if c.persisted && (c.hash.isNone || c.leftPtr.isSome || c.rightPtr.isSome) then some "heap-persisted-node-mutated"
  else if c.hash.isSome && c.height != 0 && (c.leftHash.isNone || c.rightHash.isNone) then
    some (if c.persisted then "heap-persisted-node-mutated" else "heap-hashed-node-mutated")
  else none

structure HAcc where
  st : DSt
  fails : List (String × String) := []   -- PROPFAIL (sig, detail)
  diffs : List String := []
  bad : List String := []

def HAcc.fail (a : HAcc) (sig d : String) : HAcc := { a with fails := a.fails ++ [(sig, d)] }
def HAcc.diff (a : HAcc) (d : String) : HAcc := { a with diffs := a.diffs ++ [d] }

def checkAgainstRecord (a : HAcc) (m : Nat) (c : Cell) : HAcc :=
  match c.hash with
  | none => a
  | some hh =>
    match a.st.recs[idOfHash hh]? with
    | none => if c.persisted then a.fail "heap-persisted-node-mutated" s!"m{m} is persisted but there is no DB record under its hash" else a
    | some s =>
      if cellMatchesRecord c s then a
      else a.fail (if c.persisted then "heap-persisted-node-mutated" else "heap-hashed-node-mutated")
        s!"m{m} differs from the DB record under its hash h{idOfHash hh}"

def modelRoot (st : DSt) (label : String) : Option (Option Node) :=
  if label = "W" then some st.tree.root
  else if label = "L" then some st.tree.lastSaved
  else if label.startsWith "V" then ((label.drop 1).toNat?).bind (fun v => st.tree.getImmutable v)
  else if label.startsWith "X" then ((label.drop 1).toNat?).bind (fun id => ((st.views.find? (·.1 == id)).map (·.2)).join)
  else none

def renderTree : Option Node → String
  | none => "-"
  | some n => renderKVs n.toList

def heapToken (a : HAcc) (tok : String) : HAcc :=
  match tok.splitOn "," with
  | ["N", ms, k, v, h, s, ver, hh, lh, rh, lp, rp, p] =>
    match parseObj ms, Bytes.parse k, Bytes.parseOpt v, h.toNat?, s.toNat?, ver.toNat?, parseHashTok hh, parseHashTok lh,
          parseHashTok rh, parsePtrTok lp, parsePtrTok rp with
    | some m, some kb, some vb, some hn, some sn, some vn, some hh', some lh', some rh', some lp', some rp' =>
      let c : Cell := { key := kb, value := vb, height := hn, size := sn, version := vn, hash := hh', leftHash := lh',
                        rightHash := rh', leftPtr := lp', rightPtr := rp', persisted := p == "1" }
      let a := match a.st.cells[m]? with
        | none => a
        | some old =>
          if cellLe old c then a
          else
            let sg := sigOf old
            if sg == "dirty" then a.diff s!"object m{m} (unpersisted, unhashed) was written in place: {tok}"
            else a.fail sg s!"object m{m} changed: now {tok}"
      let a := match cellAlone c with
        | some sg => a.fail sg s!"object m{m} ill-formed: {tok}"
        | none => a
      { a with st := { a.st with cells := a.st.cells.insert m c } }
    | _, _, _, _, _, _, _, _, _, _, _ => { a with bad := a.bad ++ [tok] }
  | ["D", hs, k, v, h, s, ver, lh, rh] =>
    match parseHid hs, Bytes.parse k, Bytes.parseOpt v, h.toNat?, s.toNat?, ver.toNat?, parseHashTok lh, parseHashTok rh with
    | some hid, some kb, some vb, some hn, some sn, some vn, some lh', some rh' =>
      -- `MakeNode`: a leaf record has no child hashes, an inner record no value
      let sr : Stored := { key := kb, value := if hn = 0 then vb else none, height := hn, size := sn, version := vn,
                           leftHash := lh', rightHash := rh' }
      let a := match a.st.recs[hid]? with
        | some old => if old == sr then a else a.fail "heap-db-record-overwritten" s!"record under h{hid} changed: {tok}"
        | none => a
      { a with st := { a.st with recs := a.st.recs.insert hid sr } }
    | _, _, _, _, _, _, _, _ => { a with bad := a.bad ++ [tok] }
  | ["E", hs, how] =>
    match parseHid hs with
    | some hid =>
      let r : Option Res :=
        if how = "d" then some .disk else if how = "x" then some .missing
        else if how.startsWith "c:m" then (how.drop 3).toNat?.map Res.cache else none
      match r with
      | some r => { a with st := { a.st with res := a.st.res.insert hid r } }
      | none => { a with bad := a.bad ++ [tok] }
    | none => { a with bad := a.bad ++ [tok] }
  | _ => a

def rootToken (a : HAcc) (tok : String) : HAcc :=
  match tok.splitOn "," with
  | ["R", label, ref] =>
    let st := a.st
    let saved := label != "W"
    let walked : Option (Option Node × Walk) :=
      if ref = "-" then some (none, {})
      else if ref = "none" then none
      else match parseObj ref with
        | some m => (absObj st m {}).map (fun r => (some r.1, r.2))
        | none => match parseHid ref with
          | some hid => (absHash st hid {}).map (fun r => (some r.1, r.2))
          | none => none
    match walked with
    | none =>
      if ref = "none" then
        if (modelRoot st label).isSome then a.fail "heap-saved-version-changed" s!"{label}: root record is gone" else a
      else a.fail "heap-node-missing" s!"{label}: a node below {ref} resolves neither in the cache nor in the DB"
    | some (t, w) =>
      -- every object below this root: agreement with the DB record under its hash
      let a := w.objs.foldl (fun a m => match a.st.cells[m]? with
        | some c => checkAgainstRecord a m c
        | none => a) a
      -- a saved root reaches sealed objects only: persisted ones below a version record or a view
      -- handle; below lastSaved also hashed unpersisted ones (after the idempotent re-commit
      -- lastSaved *is* the re-created, hashed, not yet persisted working tree)
      let offending := if label == "L" then w.unhashed else w.dirty
      let a :=
        if saved && !offending.isEmpty then
          a.fail "heap-working-node-shared-with-saved-version"
            s!"{label} reaches objects still owned by the working tree: {offending.map (fun m => s!"m{m}")}"
        else a
      let a :=
        if saved && label != "L" then
          match a.st.first[label]? with
          | some t0 =>
            if t0 == t then a
            else a.fail "heap-saved-version-changed" s!"{label}: was {renderTree t0} now {renderTree t}"
          | none => { a with st := { a.st with first := a.st.first.insert label t } }
        else a
      -- a view handle of version v must show the tree the root record of version v shows
      let a :=
        if label.startsWith "X" then
          match ((label.drop 1).toNat?).bind (fun id => (a.st.vvers.find? (·.1 == id)).map (·.2)) with
          | some ver =>
            match a.st.first[s!"V{ver}"]? with
            | some tv =>
              if tv == t then a
              else a.fail "heap-view-differs-from-saved-version"
                s!"{label} (opened at version {ver}) shows {renderTree t}, the root record of version {ver} shows {renderTree tv}"
            | none => a
          | none => a
        else a
      match modelRoot st label with
      | some mt => if mt == t then a else a.diff s!"abs({label}) differs from the model: impl {renderTree t}, model {renderTree mt} (contents equal: {renderTree t == renderTree mt})"
      | none => a.diff s!"{label}: the model has no such root"
  | _ => a

def heapLine (st : DSt) (toks : List String) : DSt × Verdict :=
  let a : HAcc := { st := st }
  let a := toks.foldl heapToken a
  -- version root records first (a view handle is compared with its version's record)
  let isV (t : String) : Bool := t.startsWith "R,V"
  let a := (toks.filter isV).foldl rootToken a
  let a := (toks.filter (fun t => !isV t)).foldl rootToken a
  let v :=
    match a.fails, a.diffs, a.bad with
    | (sg, d) :: _, _, _ => Verdict.propfail sg d
    | [], d :: _, _ => .diff d
    | [], [], b :: _ => .bad s!"heap token {b}"
    | [], [], [] => .ok
  (a.st, v)

def targetRoot (st : DSt) (tok : String) : Option (Option Node) :=
  if tok = "w" then some st.tree.root
  else if tok.startsWith "x" then ((tok.drop 1).toNat?).bind (fun id => ((st.views.find? (·.1 == id)).map (·.2)).join)
  else none

/-- A read: first against the map specification of the targeted (saved or working) tree — a wrong
answer is a failing input (`historical-read` through a view, `working-read`) — then against the model. -/
def readLine (st : DSt) (line impl : String) (tok : String) (r : Read) : DSt × Verdict :=
  match targetRoot st tok with
  | some root =>
    let specS := renderRead (some (KVs.read (contents root) r))
    let modelS := renderRead (some (readRoot root r))
    if impl.startsWith "PANIC" then (st, .propfail "impl-panic" s!"{line} => {impl}")
    else if impl != specS then
      (st, .propfail (if tok = "w" then "working-read" else "historical-read") s!"{line}: spec={specS} impl={impl}")
    else (st, judge "read" line modelS impl)
  | none => (st, .bad s!"unknown target {tok}")

def b (s : String) : Bool := s == "1"

/-! ### The heap model replayed next to the real heap

For the first `modelBudget` operations of a stream the driver also runs `Iavl.Heap`'s own step
functions (the ones the theorems are about) with the implementation's cache size and compares, after
every operation, the pointer-reachable shape of the working tree and of `lastSaved` — per object:
key, height, size, version, `persisted`, hash memoised?, child hashes present?, child held by pointer? —
with the dumped Go heap.  A difference is a `DIFF heap-model-shape` (the heap model is not the code).
The model heap is a list that only grows, hence the budget. -/

def modelBudget : Nat := 160

def nat4 (n : Nat) : Bytes := [UInt8.ofNat (n / 16777216), UInt8.ofNat (n / 65536 % 256), UInt8.ofNat (n / 256 % 256), UInt8.ofNat (n % 256)]

/-- The model's hash: a serialisation of the hash input (only presence of hashes is compared). -/
def Hd : HashIn → Hash
  | .leaf h s ver k v => [0] ++ nat4 h ++ nat4 s ++ nat4 ver ++ nat4 k.length ++ k ++ v
  | .inner h s ver l r => [1] ++ nat4 h ++ nat4 s ++ nat4 ver ++ nat4 l.length ++ l ++ r

def b01 (x : Bool) : String := if x then "1" else "0"

def cellShape (c : Cell) (l r : String) : String :=
  s!"({Bytes.render c.key},{c.height},{c.size},{c.version},{b01 c.persisted},{b01 c.hash.isSome},{b01 c.leftHash.isSome},{b01 c.rightHash.isSome},{l},{r})"

partial def shapeModel (st : St) (a : Addr) : String :=
  match st.heap[a]? with
  | none => "?"
  | some c =>
    let ch (p : Option Addr) : String := match p with | some q => shapeModel st q | none => "."
    if c.height = 0 then cellShape c "." "." else cellShape c (ch c.leftPtr) (ch c.rightPtr)

partial def shapeImpl (cells : Std.HashMap Nat Cell) (m : Nat) : String :=
  match cells[m]? with
  | none => "?"
  | some c =>
    let ch (p : Option Nat) : String := match p with | some q => shapeImpl cells q | none => "."
    if c.height = 0 then cellShape c "." "." else cellShape c (ch c.leftPtr) (ch c.rightPtr)

def rootRef (toks : List String) (label : String) : Option String :=
  toks.findSome? (fun t => match t.splitOn "," with
    | ["R", l, r] => if l == label then some r else none
    | _ => none)

def shapeOfRef (st : DSt) (ref : String) : String :=
  if ref = "-" then "-" else match parseObj ref with
    | some m => shapeImpl st.cells m
    | none => "?"

def shapeOfOpt (ms : St) : Option Addr → String
  | none => "-"
  | some a => shapeModel ms a

/-- Compare the model's working / lastSaved shapes with the dumped ones. -/
def compareShapes (st : DSt) (toks : List String) : Option String :=
  match st.model with
  | none => none
  | some (ms, mt) =>
    let chk (label : String) (mroot : Option Addr) : Option String :=
      match rootRef toks label with
      | none => none
      | some ref =>
        let si := shapeOfRef st ref
        let sm := shapeOfOpt ms mroot
        if si == sm then none else some s!"heap-model-shape {label}: model {sm} impl {si}"
    -- the LRU queue of the node cache (small caches only), as key:height:version per entry
    let chkQ : Option String :=
      match toks.findSome? (fun t => if t.startsWith "Q," then some (t.drop 2).toString else none) with
      | none => none
      | some qi =>
        let qm := ms.queue.map (fun e => match ms.heap[e.2]? with
          | some c => s!"{Bytes.render c.key}:{c.height}:{c.version}"
          | none => "?")
        let sm := if qm.isEmpty then "-" else ";".intercalate qm
        if qi == sm then none else some s!"heap-model-cache: LRU queue model {sm} impl {qi}"
    match chk "W" mt.root with
    | some d => some d
    | none => match chk "L" mt.lastSaved with
      | some d => some d
      | none => chkQ

def mroot (st : DSt) (mt : MT) (tok : String) : Option (Option Addr) :=
  if tok = "w" then some mt.root
  else if tok.startsWith "x" then ((tok.drop 1).toNat?).bind (fun id => (st.mviews.find? (·.1 == id)).map (·.2))
  else none

/-- One operation on the heap model (`none`: the model panicked / ran out of fuel / bad line). -/
def modelStep (st : DSt) (ms : St) (mt : MT) (pre : List String) (impl : String) :
    Option (St × MT × List (Nat × Option Addr)) :=
  let fuel := 80
  let rd (tok : String) (r : Read) : Option (St × MT × List (Nat × Option Addr)) := do
    let root ← mroot st mt tok
    let (ms', _) ← readRootH fuel ms root r
    some (ms', mt, st.mviews)
  match pre with
  | ["set", k, v] => do
    let kb ← Bytes.parse k
    let vb ← Bytes.parse v
    let (ms', mt', _) ← Iavl.Heap.set Cfg.asIs fuel ms mt kb vb
    some (ms', mt', st.mviews)
  | ["rm", k] => do
    let kb ← Bytes.parse k
    let (ms', mt', _) ← Iavl.Heap.remove Cfg.asIs fuel ms mt kb
    some (ms', mt', st.mviews)
  | ["save"] => do
    let (ms', mt', _) ← saveVersion Hd fuel ms mt
    some (ms', mt', st.mviews)
  | ["whash"] => do
    let (ms', _) ← workingHash Hd fuel ms mt
    some (ms', mt, st.mviews)
  | ["rollback"] => some (ms, rollback mt, st.mviews)
  | ["reload", v] => do
    let vv ← v.toNat?
    let (ms', mt', _) ← loadVersion ms mt vv
    some (ms', mt', st.mviews)
  | ["open", kind, v] => do
    let vv ← v.toInt?
    let (ms', res) ← if kind == "I" then (if vv < 0 then some (ms, ViewRes.errMissing) else getImmutable ms vv.toNat)
                     else lazyLoadVersion ms vv
    match res with
    | .view root _ =>
      if impl.startsWith "x" then
        match (impl.drop 1).toNat? with
        | some id => some (ms', mt, (id, root) :: st.mviews)
        | none => none
      else none
    | _ => if impl.startsWith "x" then none else some (ms', mt, st.mviews)
  | ["drop", _] => some (ms, mt, st.mviews)
  | ["get", tok, k] => (Bytes.parse k).bind (fun kb => rd tok (.get kb))
  | ["has", tok, k] => (Bytes.parse k).bind (fun kb => rd tok (.has kb))
  | ["idx", tok, i] => (i.toInt?).bind (fun ii => rd tok (.byIndex ii))
  | ["iter", tok, s, e, asc, incl] =>
    match Bytes.parseOpt s, Bytes.parseOpt e with
    | some sb, some eb => rd tok (.range sb eb (asc == "1") (incl == "1"))
    | _, _ => none
  | _ => none

def step0 (st : DSt) (pre post : List String) : DSt × Verdict :=
  let line := join pre
  let impl := join post
  match pre with
  | "heap" :: toks =>
    if impl != "ok" then (st, .propfail "impl-panic" s!"heap dump: {impl}") else heapLine st toks
  | ["config", "cache", n] =>
    match n.toNat? with
    | some sz => ({ st with model := some ({ cacheSize := sz }, {}), budget := modelBudget }, .ok)
    | none => (st, .bad "config args")
  | ["set", k, v] =>
    match Bytes.parse k, Bytes.parse v with
    | some kb, some vb =>
      let (t', upd) := st.tree.set kb vb
      ({ st with tree := t' }, judge "set" line (toString upd) impl)
    | _, _ => (st, .bad "set args")
  | ["rm", k] =>
    match Bytes.parse k with
    | some kb =>
      let (t', v, rmd) := st.tree.remove kb
      ({ st with tree := t' }, judge "rm" line s!"{Bytes.renderOpt v} {rmd}" impl)
    | none => (st, .bad "rm args")
  | ["save"] =>
    let (t', o) := st.tree.saveVersionX
    let s := match o with
      | .saved v => s!"saved {v}"
      | .idempotent v => s!"idem {v}"
      | .errDifferent => "err"
    ({ st with tree := t' }, judge "save" line s impl)
  | ["whash"] => (st, judge "whash" line "ok" impl)
  | ["rollback"] => ({ st with tree := st.tree.rollback }, judge "rollback" line "ok" impl)
  | ["reload", v] =>
    match v.toNat? with
    | some vv =>
      let (t', o) := st.tree.loadVersion vv
      let s := match o with | some l => s!"ok {l}" | none => "err"
      ({ st with tree := t' }, judge "reload" line s impl)
    | none => (st, .bad "reload args")
  | ["open", kind, v] =>
    match v.toInt? with
    | some vv =>
      let (s, mt) : String × Option (Option Node) :=
        if kind == "I" then
          match (if vv < 0 then none else st.tree.getImmutable vv.toNat) with
          | some r => (s!"x{st.nextV}", some r)
          | none => ("err", none)
        else
          -- the latest version on disk (not `tree.version`, which a reload may have lowered)
          let latest : Nat := st.tree.versions.foldl (fun m p => max m p.1) 0
          if (latest : Int) < vv then ("err", none)
          else if latest = 0 then ("nil", none)
          else
            let tv : Nat := if vv ≤ (0 : Int) then latest else vv.toNat
            match st.tree.getImmutable tv with
            | some r => (s!"x{st.nextV}", some r)
            | none => ("err", none)
      let vd := judge "open" line s impl
      if impl.startsWith "x" then
        let latest : Nat := st.tree.versions.foldl (fun m p => max m p.1) 0
        let ver : Nat := if kind == "I" then vv.toNat else (if vv ≤ (0 : Int) then latest else vv.toNat)
        ({ st with views := (st.nextV, mt) :: st.views, vvers := (st.nextV, ver) :: st.vvers, nextV := st.nextV + 1 }, vd)
      else (st, vd)
    | none => (st, .bad "open args")
  | ["drop", x] =>
    match (x.drop 1).toNat? with
    | some id => ({ st with views := st.views.filter (·.1 != id) }, .ok)
    | none => (st, .bad "drop args")
  | ["get", tok, k] =>
    match Bytes.parse k with
    | some kb => readLine st line impl tok (.get kb)
    | none => (st, .bad "get args")
  | ["has", tok, k] =>
    match Bytes.parse k with
    | some kb => readLine st line impl tok (.has kb)
    | none => (st, .bad "has args")
  | ["idx", tok, i] =>
    match i.toInt? with
    | some ii => readLine st line impl tok (.byIndex ii)
    | none => (st, .bad "idx args")
  | ["iter", tok, s, e, asc, incl] =>
    match Bytes.parseOpt s, Bytes.parseOpt e with
    | some sb, some eb => readLine st line impl tok (.range sb eb (b asc) (b incl))
    | _, _ => (st, .bad "iter args")
  | _ => (st, .bad s!"op {line.take 40}")

/-- `step0` (pure model, monitor) plus the heap model replay. -/
def step (st : DSt) (pre post : List String) : DSt × Verdict :=
  let (st1, v) := step0 st pre post
  match st.model with
  | none => (st1, v)
  | some (ms, mt) =>
    match pre with
    | "heap" :: toks =>
      -- `st1` has the freshly dumped objects
      match v, compareShapes st1 toks with
      | .ok, some d => ({ st1 with model := none }, .diff d)
      | _, _ => (st1, v)
    | "config" :: _ => (st1, v)
    | _ =>
      if st.budget = 0 then ({ st1 with model := none }, v)
      else
        match modelStep st ms mt pre (join post) with
        | some (ms', mt', mv) => ({ st1 with model := some (ms', mt'), mviews := mv, budget := st.budget - 1 }, v)
        | none =>
          ({ st1 with model := none },
            match v with
            | .ok => .diff s!"heap-model-stuck: the heap model panicked / ran out of fuel on: {join pre}"
            | _ => v)

def main : IO Unit := Proto.run ({} : DSt) step
