import PocketModel.Basic.Proto
import PocketModel.Store.RootMulti
/-! Driver for the application-level stream of C06 (`harness/cmd/c06app`).

The model statement used is `C06.transient_empty_after_commit` / `commit_version_succ`: after every
Commit each transient substore is empty and the version grew by one.  The lines are the
implementation's own observations at ABCI level; this driver evaluates that specification on them:

* `tstart run h => name:count,…`  — every transient substore read back before BeginBlock of `h` (h ≥ 2)
* `commit run b => version hash`  — `LastBlockHeight` and `ResponseCommit.Data`
* `apphash h => a b`              — the run with off-chain simulate/CheckTx traffic vs the twin without
-/

structure St where
  last : List (Nat × Nat) := []   -- run ↦ last committed version

def step (st : St) (pre post : List String) : St × Verdict :=
  match pre with
  | ["tinit", _] => (st, .ok)
  | ["panic", r] => (st, .propfail "app-panic" s!"run {r}: {post}")
  | ["tstart", run, h] =>
    match post with
    | [d] =>
      let bad := (d.splitOn ",").filter fun e => (e.splitOn ":").getLast? ≠ some "0"
      if bad.isEmpty then (st, .ok)
      else (st, .propfail "transient-not-empty-at-beginblock" s!"run {run} before block {h}: {d}")
    | _ => (st, .bad "tstart")
  | ["commit", run, _] =>
    match run.toNat?, post with
    | some r, [v, _] =>
      match v.toNat? with
      | some v =>
        let prev := ((st.last.find? (·.1 = r)).map (·.2)).getD 0
        let st' := { st with last := (r, v) :: st.last.filter (·.1 ≠ r) }
        if v = prev + 1 then (st', .ok) else (st', .propfail "app-version-not-succ" s!"run {r}: {prev} -> {v}")
      | none => (st, .bad "version")
    | _, _ => (st, .bad "commit")
  | ["sim", _, _, _] => (st, .ok)
  | ["check", _, _, _] => (st, .ok)
  | ["apphash", h] =>
    match post with
    | [a, b] => if a = b then (st, .ok) else (st, .propfail "apphash-depends-on-offchain-traffic" s!"height {h}: {a} vs twin {b}")
    | _ => (st, .bad "apphash")
  | _ => (st, .bad s!"unknown {pre}")

def main : IO Unit := Proto.run ({} : St) step
