import PocketModel.Basic.Proto
import PocketModel.Num.Split
/-!
Driver for C26: reward / fee splitting.  Stateless.  Every line is compared with the model and
judged by the executable specification on the implementation's own output:

* `split`  : `node + fees = reward ∧ 0 ≤ fees ≤ reward`                       (`split-rewards-sum`)
* `deleg`  : valid map ⇒ each delegator gets `⌊rewards·share/100⌋` (if > 0), the primary recipient the
             non-negative remainder, total = rewards                           (`delegator-split`)
* `block`  : `daoCut + Σ payments + left in fee collector = fees`, nothing left when the delegator map
             is valid                                                          (`fees-split-sum`);
             a panic at `dao = proposer = 0` is the known excluded point      (`fees-split-zero-alloc-panic`)
* `relay`  : valid map ⇒ supply delta = computed reward = Σ balances          (`minted-ne-computed`)
-/
open Split BigDec

def parseDeleg (s : String) : Option (Nat × Nat × Bool) :=
  match s.splitOn ":" with
  | [i, sh] => do pure ((← i.toNat?), (← sh.toNat?), false)
  | [i, sh, "x"] => do pure ((← i.toNat?), (← sh.toNat?), true)
  | _ => none

def parseDelegs (s : String) : Option (List (Nat × Nat × Bool)) :=
  if s = "-" then some [] else (s.splitOn ",").mapM parseDeleg

/-- payments rendered like the harness: delegators by id, then `P`. -/
def insertById (x : Nat × Int) : List (Nat × Int) → List (Nat × Int)
  | [] => [x]
  | y :: ys => if x.1 < y.1 then x :: y :: ys else y :: insertById x ys

def renderPays (pays : List (Rcpt × Int)) (pre : List String := []) (post : List String := []) : String :=
  let ds := pays.filterMap fun (r, a) => match r with | .delegator i => some (i, a) | .primary => none
  let ps := pays.filterMap fun (r, a) => match r with | .primary => some a | _ => none
  let sorted := ds.foldl (fun acc x => insertById x acc) []
  let parts := pre ++ sorted.map (fun (i, a) => s!"{i}:{a}") ++ ps.map (fun a => s!"P:{a}") ++ post
  if parts.isEmpty then "-" else ",".intercalate parts

def cmp (model impl : String) : Verdict :=
  if model = impl then .ok else .diff s!"model={model} impl={impl}"

def knownSig (sig detail : String) (c : Verdict) : Verdict :=
  match c with
  | .ok => .propfail sig detail
  | v => v

/-- parse `k:amt,k:amt` into (key, amount) pairs -/
def parsePays (s : String) : Option (List (String × Int)) :=
  if s = "-" then some [] else
  (s.splitOn ",").mapM fun p =>
    match p.splitOn ":" with
    | [k, a] => do pure (k, (← a.toInt?))
    | _ => none

def sumPays (l : List (String × Int)) : Int := l.foldl (fun acc x => acc + x.2) 0

def validAlloc (dao prop : Int) : Bool := decide (0 ≤ dao ∧ 0 ≤ prop ∧ dao + prop ≤ 100)

/-- split the result words at ";" -/
def fields (post : List String) : List String :=
  ((" ".intercalate post).splitOn ";").map fun s => s.trimAscii.toString

def step (_ : Unit) (pre post : List String) : Unit × Verdict :=
  let v : Verdict :=
    match pre with
    | ["split", dao, prop, reward] =>
      match dao.toInt?, prop.toInt?, reward.toInt? with
      | some dao, some prop, some reward =>
        let m := match splitRewards dao prop reward with
          | some (n, f) => s!"{n} {f}"
          | none => "PANIC"
        let i := " ".intercalate post
        match post with
        | [n, f] =>
          match n.toInt?, f.toInt? with
          | some n, some f =>
            if validAlloc dao prop && reward ≥ 0 && !(n + f = reward && 0 ≤ f && f ≤ reward) then
              .propfail "split-rewards-sum" s!"dao={dao} proposer={prop} reward={reward} impl={i}"
            else cmp m i
          | _, _ => .bad "result"
        | _ => cmp m i
      | _, _, _ => .bad "args"
    | ["deleg", rewards, ds] =>
      match rewards.toInt?, parseDelegs ds with
      | some rewards, some ds =>
        let m := match splitNodeRewards rewards ds with
          | none => "PANIC"
          | some .error => "ERR"
          | some (.paid pays) => renderPays pays
        let i := " ".intercalate post
        let valid := rewards > 0 && normalize ds 0
        if valid then
          match parsePays i with
          | some ps =>
            let dsOk := ds.all fun (id, share, _) =>
              let want := rewards * (share : Int) / 100
              let got := (ps.filter (·.1 = toString id)).map (·.2)
              if want > 0 then got = [want] else got = []
            let prim := (ps.filter (·.1 = "P")).map (·.2)
            let known := ps.all fun (k, _) => k = "P" || ds.any (fun (id, _, _) => toString id = k)
            if !(dsOk && known && sumPays ps = rewards && prim.all (· > 0) && prim.length ≤ 1) then
              .propfail "delegator-split" s!"rewards={rewards} delegators={ds.map fun (a, b, _) => (a, b)} impl={i}"
            else cmp m i
          | none => if i = "PANIC" then cmp m i else .propfail "delegator-split" s!"rewards={rewards} impl={i}"
        else cmp m i
      | _, _ => .bad "args"
    | ["block", dao, prop, fees, ds] =>
      match dao.toInt?, prop.toInt?, fees.toInt?, parseDelegs ds with
      | some dao, some prop, some fees, some ds =>
        let m := match blockReward dao prop fees ds with
          | none => "PANIC"
          | some (d, res) =>
            match res with
            | .error => s!"{d} ; - ; {fees - d}"
            | .paid pays => s!"{d} ; {renderPays pays} ; 0"
        let i := " ; ".intercalate (fields post)
        if i = "PANIC" then
          if dao = 0 && prop = 0 && fees > 0 then
            knownSig "fees-split-zero-alloc-panic" s!"BeginBlocker panics: DAOAllocation=0 ProposerAllocation=0 fees={fees}" (cmp m i)
          else if validAlloc dao prop then .propfail "fees-split-panic" s!"dao={dao} proposer={prop} fees={fees}"
          else cmp m i
        else
          match fields post with
          | [d, ps, left] =>
            match d.toInt?, parsePays ps, left.toInt? with
            | some d, some ps, some left =>
              let valid := validAlloc dao prop && dao + prop > 0 && fees ≥ 0
              let okSum := d + sumPays ps + left = fees && 0 ≤ d && d ≤ fees && ps.all (·.2 > 0) && left ≥ 0
              let okAll := !(fees - d > 0 && normalize ds 0) || left = 0
              if valid && !(okSum && okAll) then
                .propfail "fees-split-sum" s!"dao={dao} proposer={prop} fees={fees} impl={i}"
              else cmp m i
            | _, _, _ => .bad "result"
          | _ => .bad "result arity"
      | _, _, _, _ => .bad "args"
    | ["relay", dao, prop, mult, relays, cost, ds] =>
      match dao.toInt?, prop.toInt?, mult.toInt?, relays.toInt?, parseDelegs ds with
      | some dao, some prop, some mult, some relays, some ds =>
        let rc : Option Int := cost.toInt?
        -- before the RewardDelegators upgrade the stored validator carries no delegators
        let ds := if rc.isNone then [] else ds
        let coins := mult * relays
        let m := match distribute dao prop coins rc ds with
          | none => "PANIC"
          | some (mints, toNode) =>
            let op := mints.filterMap fun x => match x with | .operator a => some s!"O:{a}" | _ => none
            let fee := mints.filterMap fun x => match x with | .feeCollector a => some s!"F:{a}" | _ => none
            let pays := mints.filterMap fun x => match x with | .node r a => some (r, a) | _ => none
            s!"{toNode} ; {total mints} ; {renderPays pays op fee}"
        let i := " ; ".intercalate (fields post)
        match fields post with
        | [_, sd, ps] =>
          match sd.toInt?, parsePays ps with
          | some sd, some ps =>
            let valid := validAlloc dao prop && coins ≥ 0 && normalize ds 0
            if valid && !(sd = coins && sumPays ps = coins && ps.all (·.2 > 0)) then
              .propfail "minted-ne-computed" s!"dao={dao} proposer={prop} coins={coins} cost={cost} impl={i}"
            else cmp m i
          | _, _ => .bad "result"
        | _ => cmp m i
      | _, _, _, _, _ => .bad "args"
    | _ => .bad "op"
  ((), v)

def main : IO Unit := Proto.run () step
