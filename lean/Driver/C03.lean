import PocketModel.Basic.Proto
import PocketModel.Store.IavlSpec
/-!
Driver for C03 (and the tree-level part of C09): replays a history of real `iavl.MutableTree` calls
on the Lean model (`Iavl.Tree`) **and** on the per-version map specification (`Iavl.Spec`).

* `PROPFAIL` — the implementation's own answer contradicts the map specification, or its dumped
  shape fails the verified monitor `checkInv`, or its contents differ from the specification's map.
* `DIFF` — the answer agrees with the specification but not with the model (for example the exact
  shape, node versions, stored heights).
-/
open Iavl

structure St where
  tree : Tree := {}
  spec : Spec := {}

def parseKey (s : String) : Option Bytes := Bytes.parse s

def renderKVs (kvs : KVs) : String :=
  if kvs.isEmpty then "-"
  else ",".intercalate (kvs.map fun p => s!"{Bytes.render p.1}:{Bytes.render p.2}")

def renderRead : Option ReadResult → String
  | none => "novers"
  | some (.get i v) => s!"{i} {Bytes.renderOpt v}"
  | some (.has b) => toString b
  | some (.byIndex none) => "~ ~"
  | some (.byIndex (some (k, v))) => s!"{Bytes.render k} {Bytes.render v}"
  | some (.range kvs) => renderKVs kvs

def parseTarget (s : String) : Option Target :=
  if s = "w" then some .working
  else if s.startsWith "i" || s.startsWith "z" then (s.drop 1).toNat?.map Target.version
  else none

def join (ws : List String) : String := " ".intercalate ws

/-- three-way verdict: spec first (failing input), then model (correspondence). -/
def judge (sig : String) (line : String) (specS modelS implS : String) : Verdict :=
  if implS.startsWith "PANIC" then .propfail "impl-panic" s!"{line} => {implS}"
  else if implS != specS then .propfail sig s!"{line}: spec={specS} impl={implS}"
  else if implS != modelS then .diff s!"{line}: model={modelS} impl={implS}"
  else .ok

/-- Parse a pre-order dump `I:key:h:size:ver` / `L:key:val:size:ver`. Returns the node, the rest, and
whether every dumped leaf had size 1. -/
def parseNode : Nat → List String → Option (Node × List String × Bool)
  | 0, _ => none
  | _, [] => none
  | fuel + 1, tok :: rest =>
    match tok.splitOn ":" with
    | ["L", k, v, sz, ver] => do
      let kb ← Bytes.parse k
      let vb ← Bytes.parse v
      let s ← sz.toNat?
      let vr ← ver.toNat?
      pure (Node.leaf kb vb vr, rest, s == 1)
    | ["I", k, h, sz, ver] => do
      let kb ← Bytes.parse k
      let hh ← h.toNat?
      let s ← sz.toNat?
      let vr ← ver.toNat?
      let (l, rest1, ok1) ← parseNode fuel rest
      let (r, rest2, ok2) ← parseNode fuel rest1
      pure (Node.inner kb hh s l r vr, rest2, ok1 && ok2)
    | _ => none

def parseShape (s : String) : Option (Option Node × Bool) :=
  if s = "-" then some (none, true)
  else
    let toks := s.splitOn ","
    match parseNode (toks.length + 1) toks with
    | some (n, [], ok) => some (some n, ok)
    | _ => none

def specVersions (s : Spec) : String :=
  let vs := (s.saved.map (·.1)).reverse
  if vs.isEmpty then "-" else ",".intercalate (vs.map toString)

def modelVersions (t : Tree) : String :=
  let vs := (t.versions.map (·.1)).reverse
  if vs.isEmpty then "-" else ",".intercalate (vs.map toString)

def lazyStr : Tree.LazyResult → String
  | .errTooNew => "errtoonew"
  | .nilTree => "nil"
  | .errMissing => "errmissing"
  | .view _ v => s!"view {v}"

/-- What `LazyLoadVersion` must answer according to the map specification. -/
def specLazy (s : Spec) (target : Int) : String :=
  if (s.version : Int) < target then "errtoonew"
  else if s.version = 0 then "nil"
  else
    let tv : Nat := if target ≤ 0 then s.version else target.toNat
    if s.versionExists tv then s!"view {tv}" else "errmissing"

def delStr : Tree.DelResult → String
  | .ok => "ok" | .errZero => "errzero" | .errLatest => "errlatest" | .errMissing => "errmissing"

def specDel (s : Spec) (v : Nat) : String :=
  if v = 0 then "errzero" else if v = s.version then "errlatest"
  else if !s.versionExists v then "errmissing" else "ok"

def targetRoot (t : Tree) : Target → Option (Option Node)
  | .working => some t.root
  | .version v => t.getImmutable v

def targetMap (s : Spec) : Target → Option KVs
  | .working => some s.cur
  | .version v => s.getVersion v

def targetVersion (t : Tree) : Target → Nat
  | .working => t.version
  | .version v => v

/-- smallest h with 2^h ≥ n -/
def log2ceil (n : Nat) : Nat := Id.run do
  let mut h := 0
  let mut p := 1
  while p < n do
    h := h + 1
    p := p * 2
  return h

def step (st : St) (pre post : List String) : St × Verdict :=
  let line := join pre
  let impl := join post
  match pre with
  | ["set", k, v] =>
    match parseKey k, Bytes.parse v with
    | some kb, some vb =>
      let specS := toString (KVs.contains kb st.spec.cur)
      let (t', upd) := st.tree.set kb vb
      ({ tree := t', spec := st.spec.step (.set kb vb) }, judge "set-updated-flag" line specS (toString upd) impl)
    | _, _ => (st, .bad "set args")
  | ["rm", k] =>
    match parseKey k with
    | some kb =>
      let specS := s!"{Bytes.renderOpt (KVs.lookup kb st.spec.cur)} {KVs.contains kb st.spec.cur}"
      let (t', val, rem) := st.tree.remove kb
      ({ tree := t', spec := st.spec.step (.remove kb) }, judge "remove-result" line specS s!"{Bytes.renderOpt val} {rem}" impl)
    | none => (st, .bad "rm args")
  | ["save"] =>
    let specS := toString (st.spec.version + 1)
    let t' := st.tree.saveVersion
    ({ tree := t', spec := st.spec.step .save }, judge "save-version" line specS (toString t'.version) impl)
  | ["del", v] =>
    match v.toNat? with
    | some vn =>
      let (t', r) := st.tree.deleteVersion vn
      ({ tree := t', spec := st.spec.step (.delete vn) }, judge "delete-result" line (specDel st.spec vn) (delStr r) impl)
    | none => (st, .bad "del args")
  | ["rollback"] =>
    ({ tree := st.tree.rollback, spec := st.spec.step .rollback }, judge "rollback" line "ok" "ok" impl)
  | ["lazy", tg] =>
    match tg.toInt? with
    | some ti => (st, judge "lazy-load" line (specLazy st.spec ti) (lazyStr (st.tree.lazyLoadVersion ti)) impl)
    | none => (st, .bad "lazy args")
  | ["getv", v, k] =>
    match v.toNat?, parseKey k with
    | some vn, some kb =>
      let specS := match st.spec.getVersion vn with
        | some m => s!"{KVs.rank kb m} {Bytes.renderOpt (KVs.lookup kb m)}"
        | none => "-1 ~"
      let modelS :=
        if st.tree.versionExists vn then
          match st.tree.read (.version vn) (.get kb) with
          | some r => renderRead (some r)
          | none => "-1 ~"
        else "-1 ~"
      (st, judge "getversioned" line specS modelS impl)
    | _, _ => (st, .bad "getv args")
  | ["getimm", _] =>
    -- only written when `GetImmutable` itself panicked
    (st, .propfail "impl-panic" s!"{line} => {impl}")
  | ["vers"] => (st, judge "available-versions" line (specVersions st.spec) (modelVersions st.tree) impl)
  | ["get", tg, k] =>
    match parseTarget tg, parseKey k with
    | some t, some kb =>
      (st, judge "get" line (renderRead (st.spec.read t (.get kb))) (renderRead (st.tree.read t (.get kb))) impl)
    | _, _ => (st, .bad "get args")
  | ["has", tg, k] =>
    match parseTarget tg, parseKey k with
    | some t, some kb =>
      (st, judge "has" line (renderRead (st.spec.read t (.has kb))) (renderRead (st.tree.read t (.has kb))) impl)
    | _, _ => (st, .bad "has args")
  | ["idx", tg, i] =>
    match parseTarget tg, i.toInt? with
    | some t, some ii =>
      (st, judge "getbyindex" line (renderRead (st.spec.read t (.byIndex ii))) (renderRead (st.tree.read t (.byIndex ii))) impl)
    | _, _ => (st, .bad "idx args")
  | ["iter", tg, s, e, asc, incl, lim] =>
    match parseTarget tg, Bytes.parseOpt s, Bytes.parseOpt e, lim.toInt? with
    | some t, some sb, some eb, some limit =>
      let rd := Read.range sb eb (asc == "1") (incl == "1")
      let fmt (r : Option ReadResult) : String :=
        match r with
        | some (.range kvs) =>
          if limit < 0 then s!"false {renderKVs kvs}"
          else s!"{decide (limit.toNat ≤ kvs.length)} {renderKVs (kvs.take limit.toNat)}"
        | some _ => "?"
        | none => "novers"
      (st, judge "iterate" line (fmt (st.spec.read t rd)) (fmt (st.tree.read t rd)) impl)
    | _, _, _, _ => (st, .bad "iter args")
  | ["meta", tg] =>
    match parseTarget tg with
    | some t =>
      match targetRoot st.tree t, targetMap st.spec t with
      | some root, some m =>
        let modelS := match root with
          | none => s!"0 0 {targetVersion st.tree t}"
          | some n => s!"{n.size} {n.height} {targetVersion st.tree t}"
        -- specification: size = number of keys; version; height within the AVL bounds
        match post with
        | [sz, h, ver] =>
          match sz.toNat?, h.toNat? with
          | some szn, some hn =>
            if szn != m.length || ver != toString (targetVersion st.tree t) then
              (st, .propfail "meta-size" s!"{line}: spec size={m.length} impl={impl}")
            else if szn > 0 && (Node.fib (hn + 2) > szn || log2ceil szn > hn) || (szn == 0 && hn != 0) then
              (st, .propfail "meta-height" s!"{line}: size={szn} height={hn} outside AVL bounds")
            else (st, judge "meta" line impl modelS impl)
          | _, _ => (st, .bad "meta result")
        | _ => (st, judge "meta" line modelS modelS impl)
      | none, none => (st, judge "meta" line "novers" "novers" impl)
      | _, _ => (st, .bad "meta: model and spec disagree on version existence")
    | none => (st, .bad "meta args")
  | ["shape", tg] =>
    match parseTarget tg with
    | some t =>
      match targetRoot st.tree t, targetMap st.spec t with
      | some root, some m =>
        if impl.startsWith "PANIC" then (st, .propfail "impl-panic" s!"{line} => {impl}")
        else match post with
        | [d] =>
          match parseShape d with
          | some (iroot, leafOk) =>
            if !leafOk then (st, .propfail "shape-leaf-size" line)
            else if !checkRoot iroot then (st, .propfail "shape-invariant" s!"{line}: dumped shape violates Inv: {d.take 400}")
            else if contents iroot != m then
              (st, .propfail "shape-contents" s!"{line}: spec={renderKVs (m.take 20)} impl={renderKVs ((contents iroot).take 20)}")
            else if iroot != root then (st, .diff s!"{line}: shape differs from model: impl={d.take 300}")
            else (st, .ok)
          | none => (st, .bad "shape parse")
        | _ => (st, .bad "shape arity")
      | none, none => (st, judge "shape" line "novers" "novers" impl)
      | _, _ => (st, .bad "shape: model and spec disagree on version existence")
    | none => (st, .bad "shape args")
  | _ => (st, .bad s!"op {line.take 40}")

def main : IO Unit := Proto.run ({} : St) step
