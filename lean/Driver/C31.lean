import PocketModel.Basic.Proto
import PocketModel.Claims
/-! Driver for C31: the claim-window decision, the entropy block and the leaf index of the real keeper
vs `Claims.lean`; the executable spec flags every accepted claim whose entropy block is already
known at the claim height. -/
open Claims

def renderCheck : HeightCheck → String
  | .early => "early"
  | .expired => "expired"
  | .ok => "ok"

def parseHeights (s : String) : List Int :=
  if s = "-" then [] else (s.splitOn ",").filterMap String.toInt?

def srcName : HashSource → String
  | .header => "hdr"
  | .cache => "cache"
  | .store => "store"
  | .notFound => "err"

def step (_ : Unit) (pre post : List String) : Unit × Verdict :=
  let v : Verdict :=
    match pre, post with
    | ["gpbh", ctxH, h, cached, stored, nils], [res] =>
      match ctxH.toInt?, h.toInt? with
      | some ctxH, some h =>
        let cs := parseHeights cached
        let ss := parseHeights stored
        let src := prevBlockHashSource ctxH h (fun x => cs.contains x) (fun x => ss.contains x)
        let nilHash := (nils.splitOn ",").contains s!"{srcName src}{h}"
        let m := match src with
          | .notFound => "err"
          | _ => if nilHash then s!"cons-{srcName src}:{h}" else s!"{srcName src}:{h - 1}"
        -- spec: nothing about a block that does not exist yet can be looked up
        if res ≠ "err" && h > ctxH then
          .propfail "future-block-hash-available" s!"GetPrevBlockHash({h}) at context height {ctxH} answered {res}"
        else if m = res then .ok else .diff s!"GetPrevBlockHash({h}) at height {ctxH}: model={m} impl={res}"
      | _, _ => .bad "numbers"
    | ["win", b, w, bc, wc, bp, wp, s, h, total, blockHash, headerHash, seedHex, hash8],
      [claimRes, mature, proofRes, req, used, idx, eRes, eReq, eUsed, eIdx, _] =>
      match b.toInt?, w.toInt?, s.toInt?, h.toInt?, total.toNat?, req.toInt?, used.toInt?, idx.toInt?,
            eReq.toInt?, eUsed.toInt?, eIdx.toInt?, bc.toInt?, wc.toInt?, bp.toInt?, wp.toInt? with
      | some B, some W, some S, some H, some total, some req, some used, some idx, some eReq, some eUsed, some eIdx,
        some Bc, some Wc, some Bp, some Wp =>
        -- p: parameters in the state at session start; pcl: live when the claim is processed; (Bp, Wp): live
        -- when the proof is processed (the model of the proof path does not read them)
        let p : Params := ⟨B, W⟩
        let pcl : Params := ⟨Bc, Wc⟩
        let same := Bc = B && Wc = W && Bp = B && Wp = W
        let ctx := if same then s!"B={B} W={W} S={S} H={H} total={total}"
          else s!"session-start B={B} W={W}, at claim B={Bc} W={Wc}, at proof B={Bp} W={Wp}, S={S} H={H} total={total}"
        if proofRes ≠ "ok" then .diff s!"{ctx}: could not observe the leaf selection: {proofRes}" else
        -- model
        let mCheck := renderCheck (claimHeightCheck p pcl H S)
        let mMature := toString (claimIsMature pcl H S)
        let mReq := proofHeight p S
        let mUsed := entropyBlock p S
        let mSeed := Bytes.render (seed (ascii blockHash) (ascii headerHash))
        let mIdx : Option Nat := (Bytes.parse hash8).map (Session.pseudorandomSelection total)
        let diffs : List String :=
          (if mCheck ≠ claimRes then [s!"ValidateClaim model={mCheck} impl={claimRes}"] else []) ++
          (if mMature ≠ mature then [s!"ClaimIsMature model={mMature} impl={mature}"] else []) ++
          (if mReq ≠ req then [s!"proofHeight model={mReq} impl={req}"] else []) ++
          (if mUsed ≠ used then [s!"entropy block model={mUsed} impl={used}"] else []) ++
          (if mSeed ≠ seedHex then [s!"seed model={mSeed} harness={seedHex}"] else []) ++
          (if mIdx.map Int.ofNat ≠ some idx then [s!"index model={mIdx} impl={idx}"] else []) ++
          -- the proof path at the claim height itself, honest world (past heights cached, empty block store)
          (if eRes = "skip" then [] else
            let src := indexSource p H S (fun x => decide (x < H)) (fun _ => false)
            let mE := if src = .notFound then s!"unavail {mReq} -1 -1" else s!"ok {mReq} {mUsed} {idx}"
            let iE := s!"{eRes} {eReq} {eUsed} {eIdx}"
            if mE ≠ iE then [s!"proof at the claim height: model={mE} impl={iE}"] else [])
        -- executable specification on the implementation's own answers
        if idx < 0 || idx ≥ total then .propfail "leaf-index-out-of-range" s!"{ctx} index={idx}"
        else if eRes = "ok" && H < S + W * B then
          .propfail "leaf-index-available-before-selecting-block"
            s!"{ctx}: at height {H} ValidateProof hands out leaf {eIdx} (hash of block {eUsed}) although the selecting block {S + W * B} does not exist yet; claim at this height: {claimRes}"
        else if claimRes = "ok" && used < H && H > S + W * B && Wc * Bc > W * B && diffs.isEmpty then
          -- only reachable when governance raised the window after the session started
          .propfail "entropy-known-claim-window-raised-after-session-start"
            s!"{ctx}: claim accepted at H under the raised live window, leaf selected by the hash of block {used} (session-start window)"
        else if claimRes = "ok" && used < H then
          if H = S + W * B then
            if diffs.isEmpty then
              .propfail "entropy-known-at-last-claim-height" s!"{ctx}: claim accepted at H, leaf selected by the hash of block {used} = H-1"
            else .diff (s!"{ctx}: " ++ "; ".intercalate diffs)
          else .propfail "entropy-known-at-claim" s!"{ctx}: claim accepted at H={H}, leaf selected by the hash of block {used} < H"
        else if claimRes = "ok" && (H < S + B) then
          .propfail "claim-accepted-before-session-end" ctx
        else if diffs.isEmpty then .ok
        else .diff (s!"{ctx}: " ++ "; ".intercalate diffs)
      | _, _, _, _, _, _, _, _, _, _, _, _, _, _, _ => .bad "numbers"
    | _, _ => .bad "op"
  ((), v)

def main : IO Unit := Proto.run () step
