import PocketModel.Ledger.AnteDriver
/-! Driver for C14: model ante step + DeliverTx rule on dumped pre-states, and the C14 specification
clauses evaluated on the implementation's own outputs (see PocketModel/Ledger/AnteDriver.lean). -/
def main : IO Unit := Proto.run ({} : AnteDriver.St) (AnteDriver.step .c14)
