import PocketModel.Basic.Proto
import PocketModel.Store.RawDisk
/-! Driver for C04: persistence of IAVL substores and multistore records.

The implementation's disk is rebuilt from the recorded atomic writes (`shadow`).  The trees each
commit saved are decoded *from those real bytes with the model decoder* and handed to the model's
`saveVersion`/`commitMS`, whose resulting disk must equal the shadow disk (nodes, orphan records,
roots, commit infos, latest).  Reopen/lazy-load lines are compared with the model's load functions
and — as the property's executable specification — with what the live store reported when the
version was committed, with a plain-map oracle and with a never-reopened replica. -/
open NodeDB RootMulti

structure Obs where
  cid : CID
  stores : List (Name × Int × Bytes × String) := []

structure St where
  names : List Name := []
  shadow : Disk := {}
  model : Option MStore := none
  peek : Option MStore := none
  peekVer : Int := 0
  obs : List (Int × Obs) := []

def H := Sha256.sum

def parseCID (v h : String) : Option CID := do
  let v ← v.toInt?
  let h ← parseHash h
  pure ⟨v, h⟩

def latestObs (st : St) : Option (Int × Obs) :=
  st.obs.foldl (fun acc e => match acc with | none => some e | some a => if a.1 < e.1 then some e else some a) none

def cmpStore (t : MTree) (iver : Int) (ihash : Bytes) (dump : String) : Option String :=
  if t.version ≠ iver then some s!"store version model={t.version} impl={iver}"
  else if (if t.version > 0 then hashOpt H t.lastSaved else []) ≠ ihash then some s!"store hash model={renderHash (hashOpt H t.lastSaved)} impl={renderHash ihash}"
  else if renderKV (toListOpt t.root) ≠ dump then some s!"contents model={renderKV (toListOpt t.root)} impl={dump}"
  else none

def obsStore (o : Obs) (n : Name) : Option (Int × Bytes × String) := (o.stores.find? (·.1 = n)).map (·.2)

def step (st : St) (pre post : List String) : St × Verdict :=
  match pre with
  | ["hist", _, ns] =>
    let names := (ns.splitOn ",").map nameOf
    ({ names := names, shadow := { stores := names.map fun n => (n, {}) } }, .ok)
  | ["panic", who] => (st, .propfail "panic" s!"{who}: {post}")
  | ["open"] =>
    match openMS H st.shadow st.names with
    | none => (st, .diff "model cannot open empty disk")
    | some m =>
      ({ st with model := some m },
        if post = [toString m.lastCommitID.version, renderHash m.lastCommitID.hash] then .ok else .diff s!"open: model={m.lastCommitID.version} impl={post}")
  | ["commit", _] =>
    match post, st.model with
    | ver :: hash :: evs, some m =>
      match parseCID ver hash, evs.mapM parseEvent with
      | some cid, some batches =>
        match batches.getLast?, batches.dropLast with
        | some fin, storeBatches =>
          -- shape of the write sequence assumed by the model
          let finOk := match fin with
            | [.set (.cinfo v) _, .set .latest _] => v = cid.version
            | _ => false
          let order := storeBatches.filterMap fun b => b.head?.bind (·.key.store?)
          let shapeOk := finOk && order.length = storeBatches.length &&
            (storeBatches.zip order).all (fun (b, n) => b.all fun op => op.key.store? = some n)
          if !shapeOk then (st, .diff s!"commit write sequence is not [store batches…, (commitInfo, latest)]: {evs.length} events")
          else
          match batches.foldlM (fun d b => Disk.applyRawAll d b) st.shadow with
          | none => (st, .diff "a multistore record of the implementation does not decode with the model decoder")
          | some shadow' =>
            match batches.findSome? checkNodeOps with
            | some e => ({ st with shadow := shadow' }, .diff s!"node encoding: {e}")
            | none =>
              -- the trees that were saved, decoded from the implementation's bytes
              let blockOpt : Option DBlock := st.names.mapM fun n =>
                match aget n m.stores with
                | none => none
                | some t =>
                  let db := shadow'.storeDB n
                  match aget (t.version + 1) db.roots with
                  | none => none
                  | some rh => (loadRoot db.nodes rh).map fun tr => (n, tr)
              match blockOpt with
              | none => ({ st with shadow := shadow' }, .diff "saved tree cannot be loaded from the implementation's disk with the model loader")
              | some block =>
                match commitMS H order (m.applyBlock block) with
                | none => ({ st with shadow := shadow' }, .diff "model commit fails (SaveVersion error/panic) where the implementation succeeded")
                | some (m', mcid, ws) =>
                  let st' := { st with shadow := shadow', model := some m', obs := (cid.version, ⟨cid, []⟩) :: st.obs }
                  let prev := m.lastCommitID.version
                  if cid.version ≠ prev + 1 then (st', .propfail "version-not-succ" s!"prev={prev} got={cid.version}")
                  else if mcid ≠ cid then (st', .diff s!"commit id model={mcid.version} {renderHash mcid.hash} impl={ver} {hash}")
                  else if ws.length ≠ batches.length then (st', .diff s!"number of atomic writes model={ws.length} impl={batches.length}")
                  else if !(Disk.same st.names m'.disk shadow') then
                    let d := st.names.foldl (fun acc n => acc ++ (let x := NDB.diffDetail ((m'.disk).storeDB n) (shadow'.storeDB n); if x = "" then "" else s!" [{nameStr n}:{x}]")) ""
                    (st', .diff s!"disk after commit differs:{d} cinfos={sameSet m'.disk.cinfos shadow'.cinfos} latest={m'.disk.latest == shadow'.latest}")
                  else if shadow'.cinfos.any (fun e => (aget e.1 (batches.flatten.filterMap fun op => match op with | .set (.cinfo v) bz => some (v, bz) | _ => none)).any (· ≠ encCommitInfo e.2)) then
                    (st', .diff "commit info bytes: model encoder ≠ implementation")
                  else (st', .ok)
        | none, _ => (st, .diff "commit without any write")
      | _, _ => (st, .bad "commit fields")
    | _, _ => (st, .bad "commit")
  | ["state", v, store] =>
    match post, st.model, v.toInt? with
    | [iver, ihash, live, oracle], some m, some v =>
      match iver.toInt?, parseHash ihash, aget (nameOf store) m.stores with
      | some iver, some ihash, some t =>
        let st' := { st with obs := st.obs.map fun e => if e.1 = v then (e.1, { e.2 with stores := (nameOf store, iver, ihash, live) :: e.2.stores }) else e }
        if live ≠ oracle then (st', .propfail "live-contents-differ-from-map" s!"store {store} v{v}: live={live} oracle={oracle}")
        else match cmpStore t iver ihash live with
          | some e => (st', .diff s!"state {store} v{v}: {e}")
          | none => (st', .ok)
      | _, _, _ => (st, .bad "state fields")
    | _, _, _ => (st, .bad "state")
  | ["reopen", which] =>
    let target : Option Int := if which = "latest" then none else which.toInt?
    let mm := match target with
      | none => openMS H st.shadow st.names
      | some v => loadMS H st.shadow st.names v
    let tv : Int := match target with | none => (latestObs st).map (·.1) |>.getD 0 | some v => v
    let expected := st.obs.find? (·.1 = tv)
    match post with
    | "ERR" :: _ | "PANIC" :: _ =>
      if expected.isSome then (st, .propfail "reopen-fails" s!"version {tv} was committed but cannot be reopened: {post}")
      else if mm.isSome then (st, .diff s!"reopen {which}: model loads, implementation fails {post}")
      else (st, .ok)
    | [ver, hash] =>
      match parseCID ver hash, mm with
      | some cid, some m2 =>
        let st' := if target.isNone then { st with model := some m2, peek := some m2, peekVer := tv } else { st with peek := some m2, peekVer := tv }
        match expected with
        | none => (st', .propfail "reopen-unknown-version" s!"version {tv} was never committed but loads: {post}")
        | some e =>
          if e.2.cid ≠ cid then (st', .propfail "reopen-lastcommitid" s!"version {tv}: live {e.2.cid.version} {renderHash e.2.cid.hash}, reopened {ver} {hash}")
          else if m2.lastCommitID ≠ cid then (st', .diff s!"reopen {which}: model lastCommitID={m2.lastCommitID.version} {renderHash m2.lastCommitID.hash}")
          else (st', .ok)
      | some _, none => (st, .diff s!"reopen {which}: model fails to load, implementation gives {post}")
      | _, _ => (st, .bad "reopen fields")
    | _ => (st, .bad "reopen")
  | ["rstate", _, store] =>
    match post, st.peek with
    | [iver, ihash, dump], some m =>
      match iver.toInt?, parseHash ihash, aget (nameOf store) m.stores with
      | some iver, some ihash, some t =>
        match (st.obs.find? (·.1 = st.peekVer)).bind (fun e => obsStore e.2 (nameOf store)) with
        | none => (st, .bad "no observation")
        | some (lver, lhash, ldump) =>
          if ldump ≠ dump then (st, .propfail "reopen-contents-differ" s!"store {store} v{st.peekVer}: live={ldump} reopened={dump}")
          else if lhash ≠ ihash ∨ lver ≠ iver then (st, .propfail "reopen-roothash-differs" s!"store {store} v{st.peekVer}: live={lver} {renderHash lhash} reopened={iver} {renderHash ihash}")
          else match cmpStore t iver ihash dump with
            | some e => (st, .diff s!"rstate {store} v{st.peekVer}: {e}")
            | none => (st, .ok)
      | _, _, _ => (st, .bad "rstate fields")
    | _, _ => (st, .bad "rstate")
  | ["lazy", v] =>
    match v.toInt?, st.model with
    | some v, some m =>
      let expected := st.obs.find? (·.1 = v)
      let mres : Option (List (Name × String)) := st.names.mapM fun n =>
        match aget n m.stores with
        | none => none
        | some t =>
          match lazyLoadVersion t v with
          | some (some (_, r)) => some (n, renderKV (toListOpt r))
          | _ => none
      match post with
      | "ERR" :: _ | "PANIC" :: _ =>
        if expected.isSome then (st, .propfail "lazy-load-fails" s!"version {v}: {post}")
        else if mres.isSome then (st, .diff s!"lazy {v}: model loads, implementation fails")
        else (st, .ok)
      | parts =>
        let impl := parts.map fun p => match p.splitOn "=" with | [a, b] => (nameOf a, b) | _ => ([], "")
        match expected with
        | none => (st, .propfail "lazy-unknown-version" s!"version {v} loads lazily but was never committed")
        | some e =>
          if impl.any (fun p => (obsStore e.2 p.1).map (·.2.2) ≠ some p.2) then (st, .propfail "lazy-contents-differ" s!"version {v}: {post}")
          else if mres ≠ some impl then (st, .diff s!"lazy {v}: model≠impl")
          else (st, .ok)
    | _, _ => (st, .bad "lazy")
  | ["replica", b] =>
    match b.toInt?, post with
    | some b, [ver, hash] =>
      match parseCID ver hash, st.obs.find? (·.1 = b + 1) with
      | some cid, some e =>
        if e.2.cid = cid then (st, .ok) else (st, .propfail "replica-commitid-differs" s!"height {b + 1}: persisted {renderHash e.2.cid.hash} replica {hash}")
      | _, _ => (st, .bad "replica obs")
    | _, _ => (st, .bad "replica")
  | _ => (st, .bad s!"unknown {pre}")

def main : IO Unit := Proto.run ({} : St) step
