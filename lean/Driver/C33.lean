import PocketModel.Basic.Proto
import PocketModel.Session
/-! Driver for C33: replays `NewSessionNodes` on the model with the index stream computed from the
successive session keys the harness observed, and judges the implementation's own node list. -/
open Session

def parseList (s : String) : Option (List String) :=
  if s = "-" then some [] else some (s.splitOn ",")

def parseChains (s : String) : Option (List Chain) :=
  if s = "-" then some [] else (s.splitOn "+").mapM Bytes.parse

/-- `addr:jailed:chains[:status]` or `addr:~` (no record at the reference context). -/
def parseRec (s : String) : Option (Addr × Option NodeRec) :=
  match s.splitOn ":" with
  | [a, "~"] => do pure ((← Bytes.parse a), none)
  | [a, j, cs] => do
    let a ← Bytes.parse a
    let cs ← parseChains cs
    pure (a, some ⟨j = "1", cs⟩)
  | [a, j, cs, _] => do
    let a ← Bytes.parse a
    let cs ← parseChains cs
    pure (a, some ⟨j = "1", cs⟩)
  | _ => none

/-- The stake status of the real node record (keeper mode): `2` = staked; absent = staked (stub mode
has no status). -/
def parseStatus (s : String) : Option (Addr × Nat) :=
  match s.splitOn ":" with
  | [a, _, _, st] => do pure ((← Bytes.parse a), (← st.toNat?))
  | _ => none

def stakedIn (sts : List (Addr × Nat)) (a : Addr) : Bool :=
  match sts.find? (·.1 == a) with
  | some (_, st) => st == 2
  | none => true

def lookupIn (recs : List (Addr × Option NodeRec)) (a : Addr) : Option NodeRec :=
  match recs.find? (·.1 == a) with
  | some (_, r) => r
  | none => none

def renderResult : Result → String
  | .ok ns => "ok " ++ (if ns.isEmpty then "-" else ",".intercalate (ns.map Bytes.render))
  | .insufficient => "insufficient"
  | .panic => "PANIC"
  | .outOfFuel => "OUT-OF-STREAM"

def nodupB (l : List Addr) : Bool :=
  match l with
  | [] => true
  | x :: xs => !(xs.contains x) && nodupB xs

def step (_ : Unit) (pre post : List String) : Unit × Verdict :=
  let v : Verdict :=
    -- keeper mode appends one word `hist:<ops>`: the real keeper history behind the population (for replays)
    let pre := match pre.reverse with
      | h :: rest => if h.startsWith "hist:" then rest.reverse else pre
      | [] => pre
    match pre with
    | ["sess", count, featH, refH, maxch, chain, addrs, recs, keys] =>
      let statuses : List (Addr × Nat) := if recs = "-" then [] else (recs.splitOn ",").filterMap parseStatus
      match count.toNat?, featH.toInt?, refH.toInt?, maxch.toInt?, Bytes.parse chain,
            (parseList addrs).bind (·.mapM Bytes.parse), (parseList recs).bind (·.mapM parseRec),
            (parseList keys).bind (·.mapM Bytes.parse) with
      | some count, some featH, some refH, some maxch, some chain, some addrs, some recs, some keys =>
        let total := addrs.length
        let idx : List Nat := keys.map (pseudorandomSelection total)
        let cfg : Cfg :=
          { addrs := addrs, lookup := lookupIn recs, chain := chain, count := count, maxChains := maxch,
            enforce := enforceAt featH refH, stream := fun i => idx.getD i total }
        let m := renderResult (newSessionNodes cfg (idx.length + 1))
        -- the implementation's answer: result words, then `same|differs:…` (second generation), then
        -- `intact|mutated` (the candidate list after the generation)
        let (resWords, same, mutw) := match post.reverse with
          | mw :: sm :: rest => (rest.reverse, sm, mw)
          | _ => ([], "?", "?")
        let impl := " ".intercalate resWords
        let post := resWords ++ [same]
        let ctx := s!"count={count} total={total} enforce={enforceAt featH refH}"
        if impl = "TIMEOUT" || (same.splitOn "TIMEOUT").length > 1 then
          .propfail "session-generation-did-not-terminate" s!"{ctx}: NewSessionNodes did not return within the watchdog limit (first={impl} second={same})"
        else if mutw ≠ "intact" then
          .propfail "candidates-mutated" s!"{ctx}: the candidate list returned by GetValidatorsByChain (the cached slice) was modified by the generation; first={impl}"
        else if same ≠ "same" then .propfail "session-not-deterministic" s!"{ctx} first={impl} second={same}"
        else
          let elig := addrs.filter (eligible cfg)
          let spec : Option Verdict :=
            match post with
            | ["ok", ns, _] =>
              match (parseList ns).bind (·.mapM Bytes.parse) with
              | none => some (.bad "nodes")
              | some ns =>
                if ns.length ≠ count then some (.propfail "session-wrong-count" s!"{ctx} got {ns.length} nodes")
                else if !nodupB ns then some (.propfail "session-duplicate-node" s!"{ctx} impl={impl}")
                else if !(ns.all fun n => addrs.contains n && eligible cfg n) then
                  some (.propfail "session-ineligible-node" s!"{ctx} impl={impl}")
                else if !(ns.all (stakedIn statuses)) then
                  some (.propfail "session-node-not-staked"
                    s!"{ctx}: a selected node's record is not staked (unstaking/unstaked) at session start: {(ns.filter fun n => !stakedIn statuses n).map Bytes.render}")
                else none
            | ["insufficient", _] =>
              if count > 0 && nodupB addrs && elig.length ≥ count then
                some (.propfail "session-fails-with-enough-eligible" s!"{ctx} eligible={elig.length}")
              else none
            | ["PANIC", _] =>
              if count > 0 then some (.propfail "session-panics" ctx) else none
            | _ => some (.propfail "session-unexpected-error" s!"{ctx} impl={impl}")
          match spec with
          | some v => v
          | none => if m = impl then .ok else .diff s!"{ctx} model={m} impl={impl}"
      | _, _, _, _, _, _, _, _ => .bad "args"
    | _ => .bad "op"
  ((), v)

def main : IO Unit := Proto.run () step
