import PocketModel.Basic.Proto
import PocketModel.Upgrade
/-! Driver for C37: the feature-map functions, `HandleUpgrade` and the restart path of the real code
vs `Upgrade.lean`; the executable spec judges the implementation's own stored parameter, live
globals and post-restart globals. -/
open Upgrade

structure St where
  fixed : Bool := false
  stored : Upgrade.Upgrade := {}
  live : Globals := {}
  -- the implementation's own last reported state (the executable spec judges against these)
  iStored : Upgrade.Upgrade := {}
  iLive : Globals := {}
  -- an upgrade went through the legacy (pre-codec-height) branch since the last boot
  preCodec : Bool := false

def parseStrs (s : String) : Option (List Bytes) :=
  if s = "-" then some [] else (s.splitOn ",").mapM Bytes.parse

def renderStrs (l : List Bytes) : String :=
  if l.isEmpty then "-" else ",".intercalate (l.map Bytes.render)

def parseMap (s : String) : Option FMap :=
  if s = "-" then some [] else
  (s.splitOn ",").mapM fun e =>
    match e.splitOn "=" with
    | [k, v] => do pure ((← Bytes.parse k), (← v.toInt?))
    | _ => none

def insertByKey (e : Bytes × Int) : FMap → FMap
  | [] => [e]
  | y :: ys => if e.1 ≤ y.1 then e :: y :: ys else y :: insertByKey e ys

def sortMap (m : FMap) : FMap := m.foldr insertByKey []

def renderMap (m : FMap) : String :=
  if m.isEmpty then "-" else ",".intercalate ((sortMap m).map fun e => s!"{Bytes.render e.1}={e.2}")

def renderGlobals (g : Globals) : String := s!"G:{g.upgradeHeight}:{g.oldUpgradeHeight}:{renderMap g.featureMap}"

def renderUpgrade (u : Upgrade.Upgrade) : String :=
  s!"S:{u.height}:{Bytes.render u.version}:{u.oldUpgradeHeight}:{renderStrs u.features}"

def parseGlobals (s : String) : Option Globals :=
  match s.splitOn ":" with
  | ["G", uh, old, m] => do pure { upgradeHeight := (← uh.toInt?), oldUpgradeHeight := (← old.toInt?), featureMap := (← parseMap m) }
  | _ => none

def parseUpgrade (s : String) : Option Upgrade.Upgrade :=
  match s.splitOn ":" with
  | ["S", h, v, old, fs] => do
    pure { height := (← h.toInt?), version := (← Bytes.parse v), oldUpgradeHeight := (← old.toInt?), features := (← parseStrs fs) }
  | _ => none

def cmp (m impl : String) : Verdict := if m = impl then .ok else .diff s!"model={m} impl={impl}"

/-- Last value scheduled for `k` in a list of feature strings (model parsing). -/
def lastFor (xs : List Bytes) (k : Bytes) : Option Int :=
  xs.foldl (fun acc s => match parseEntry s with
    | some (k', v) => if k' = k then some v else acc
    | none => acc) none

def keysOf (xs : List Bytes) : List Bytes := (xs.filterMap parseEntry).map (·.1)

def strictSorted : List Bytes → Bool
  | a :: b :: rest => decide (a < b) && strictSorted (b :: rest)
  | _ => true

def nodupB (l : List Bytes) : Bool :=
  match l with
  | [] => true
  | x :: xs => !(xs.contains x) && nodupB xs

/-- The canonical-form part of the spec on a cleaned list: strictly sorted, one entry per key, and
the value of each key is the last one scheduled in `input`. -/
def canonicalFor (input out : List Bytes) : Option String :=
  if !strictSorted out then some "not strictly sorted"
  else if !nodupB (keysOf out) then some "duplicate key"
  else if !((keysOf input).all fun k => lastFor out k = lastFor input k) then some "a key lost or with another height than last scheduled"
  else if !((keysOf out).all fun k => (keysOf input).contains k) then some "a key that was never scheduled"
  else none

/-- Activation schedule of a feature map: the non-zero entries (a zero height is "never"). -/
def schedule (m : FMap) : String := renderMap (m.filter fun e => e.2 != 0)

def step (st : St) (pre post : List String) : St × Verdict :=
  let impl := " ".intercalate post
  match pre with
  | ["mode", m] =>
    if m = "asis" then ({ st with fixed := false }, .ok)
    else if m = "fixed" then ({ st with fixed := true }, .ok)
    else (st, .diff s!"the restart path of NewPocketCoreApp matches neither the as-is model nor the fixed model: {m}")
  | ["clean", xs] =>
    match parseStrs xs with
    | some l =>
      let m := match clean l with | none => "PANIC" | some o => renderStrs o
      let v : Verdict :=
        match post with
        | ["PANIC"] => if (clean l).isSome then .propfail "clean-panics-on-wellformed" xs else cmp m impl
        | [o] =>
          match parseStrs o with
          | some out =>
            if (clean l).isNone then cmp m impl
            else match canonicalFor l out with
              | some why => .propfail "clean-not-canonical" s!"{why}: in={xs} out={o}"
              | none => cmp m impl
          | none => .bad "out"
        | _ => .bad "arity"
      (st, v)
    | none => (st, .bad "strs")
  | ["s2m", xs] =>
    match parseStrs xs with
    | some l => (st, cmp (match sliceToMap l with | none => "PANIC" | some m => renderMap m) impl)
    | none => (st, .bad "strs")
  | ["s2em", xs, m0] =>
    match parseStrs xs, parseMap m0 with
    | some l, some m => (st, cmp (match sliceToExistingMap l m with | none => "PANIC" | some m => renderMap m) impl)
    | _, _ => (st, .bad "args")
  | ["m2s", m0] =>
    match parseMap m0 with
    | some m =>
      -- whatever order Go's map iteration produced, cleaning gives the sorted rendering of the map
      (st, cmp (match clean (mapToSlice m) with | none => "PANIC" | some o => renderStrs o) impl)
    | none => (st, .bad "map")
  | ["new"] =>
    match post with
    | [s, g] =>
      match parseUpgrade s, parseGlobals g with
      | some u, some gl => ({ st with stored := u, live := gl, iStored := u, iLive := gl, preCodec := false }, .ok)
      | _, _ => (st, .bad "state")
    | _ => (st, .bad "arity")
  | ["up", bh, own, h, ver, fs] =>
    match bh.toInt?, h.toInt?, Bytes.parse ver, parseStrs fs, post with
    | some bh, some h, some ver, some fs, [res, s, g] =>
      let msg : Upgrade.Upgrade := { height := h, version := ver, features := fs }
      let after := isAfterUpgradeHeight st.iLive bh
      let out : String × Upgrade.Upgrade × Globals :=
        if own = "0" then ("fail", st.stored, st.live)
        else match handleUpgrade st.stored st.live bh msg with
          | none => ("PANIC", st.stored, st.live)
          | some (u, gl) => ("ok", u, gl)
      let (mres, mu, mg) := out
      let m := s!"{mres} {renderUpgrade mu} {renderGlobals mg}"
      let implN := (if res.startsWith "fail" then "fail" else res) ++ s!" {s} {g}"
      -- executable spec on the implementation's own state
      let spec : Option Verdict :=
        match parseUpgrade s, parseGlobals g with
        | some iu, some ig =>
          if res ≠ "ok" then
            (if s!"{s} {g}" ≠ s!"{renderUpgrade st.iStored} {renderGlobals st.iLive}" then
              some (.propfail "failed-upgrade-changed-state" s!"{impl}") else none)
          else
            let named := keysOf fs
            let okNamed := named.all fun k => some (ig.featureMap.get k) = lastFor fs k
            let kept := (keysOf st.iStored.features).all fun k => (keysOf iu.features).contains k
            let canon := canonicalFor (st.iStored.features ++ fs) iu.features
            if okNamed && kept && canon.isNone then none
            else if !after then
              some (.propfail "upgrade-before-codec-height-not-merged"
                s!"block {bh} is before the codec upgrade height: named-live={okNamed} previous-kept={kept} canonical={canon.isNone}")
            else if !okNamed then some (.propfail "feature-not-scheduled" impl)
            else if !kept then some (.propfail "feature-dropped" impl)
            else some (.propfail "stored-not-canonical" s!"{canon}: {impl}")
        | _, _ => some (.bad "state")
      let v : Verdict :=
        match spec with
        | some (.propfail sig d) =>
          if m = implN || sig ≠ "upgrade-before-codec-height-not-merged" then .propfail sig d else .diff s!"model={m} impl={implN}"
        | some v => v
        | none => cmp m implN
      let (is', il') := match parseUpgrade s, parseGlobals g with
        | some iu, some ig => (iu, ig)
        | _, _ => (st.iStored, st.iLive)
      ({ st with stored := mu, live := mg, iStored := is', iLive := il',
                 preCodec := st.preCodec || (res = "ok" && !after) }, v)
    | _, _, _, _, _ => (st, .bad "args")
  | ["pred", k, h, tol] =>
    match Bytes.parse k, h.toInt?, tol.toInt? with
    | some k, some h, some tol =>
      let g := st.live
      let m := s!"{isAfterNamed g h k} {isOnNamed g h k} {isOnNamedWithTolerance g h k tol} {isAfterFeature 0 g h k}"
      -- spec: active exactly from its (non-zero) height
      let a := st.iLive.featureMap.get k
      let want := decide (a ≠ 0 ∧ h ≥ a)
      (st, if post.head? ≠ some (toString want) then .propfail "activation-predicate-wrong" s!"key={k} scheduled={a} h={h} impl={impl}" else cmp m impl)
    | _, _, _ => (st, .bad "args")
  | ["restart"] =>
    let mr := if st.fixed then restartFixed st.stored else restart st.stored
    match mr, post with
    | some mg, ["PANIC"] =>
      (st, .propfail "restart-panics" s!"stored={renderUpgrade st.iStored} model={renderGlobals mg}")
    | some mg, [g] =>
      let m := renderGlobals mg
      match parseGlobals g with
      | some ig =>
        let v : Verdict :=
          if schedule ig.featureMap ≠ schedule st.iLive.featureMap then
            let d := s!"stored={renderUpgrade st.iStored} live={schedule st.iLive.featureMap} after-restart={schedule ig.featureMap}"
            -- the two known causes, recognised on the implementation's own state
            let lostAtZero := st.iStored.height = 0 && schedule ig.featureMap = "-"
            let preCodec := st.preCodec && st.iStored.height ≠ 0 &&
              (match sliceToMap st.iStored.features with
                | some fm => schedule fm = schedule ig.featureMap && schedule fm ≠ schedule st.iLive.featureMap
                | none => false)
            if lostAtZero then
              (if m = g then .propfail "restart-loses-features-when-upgrade-height-zero" d else .diff s!"model={m} impl={g}")
            else if preCodec then
              (if m = g then .propfail "restart-differs-after-pre-codec-upgrade" d else .diff s!"model={m} impl={g}")
            else .propfail "restart-changes-schedule" d
          else cmp m g
        ({ st with live := mg, iLive := ig, preCodec := false }, v)
      | none => (st, .bad "globals")
    | none, _ =>
      -- the model's boot panics (a stored feature string without ':' reaches SliceToExistingMap)
      if impl ≠ "PANIC" then (st, .diff s!"model=PANIC impl={impl}")
      else
        let malformed := st.iStored.features.any fun f => (splitKV f).isNone
        let d := s!"stored={renderUpgrade st.iStored}: NewPocketCoreApp panics, the node cannot boot"
        (st, if malformed then .propfail "restart-panics-on-malformed-stored-feature" d else .propfail "restart-panics" d)
    | _, _ => (st, .bad "arity")
  | _ => (st, .bad "op")

def main : IO Unit := Proto.run ({} : St) step
