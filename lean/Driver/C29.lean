import PocketModel.Merkle.SumIndexDriver
/-! Driver for C29 (honest proofs verify; `levels`): see `PocketModel/Merkle/SumIndexDriver.lean`. -/
def main : IO Unit := Proto.run ({} : SumIndex.Driver.St) SumIndex.Driver.step
