import PocketModel.Store.TowerDriver
/-! Driver for C02 (prefix store): see `PocketModel/Store/TowerDriver.lean`. -/
def main : IO Unit := Proto.run TowerDriver.init TowerDriver.step
