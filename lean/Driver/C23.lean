import PocketModel.Ledger.NodesDriver
/-! Driver for C23 (nodes ledger): see `PocketModel/Ledger/NodesDriver.lean`. -/
def main : IO Unit := Proto.run (NodesDriver.init "C23") NodesDriver.step
