import PocketModel.Ledger.NodesDriver
/-! Driver for C24 (nodes ledger): see `PocketModel/Ledger/NodesDriver.lean`. -/
def main : IO Unit := Proto.run (NodesDriver.init "C24") NodesDriver.step
