import PocketModel.Merkle.SumIndexDriver
/-! Driver for C30 (forged / replayed proofs): see `PocketModel/Merkle/SumIndexDriver.lean`. -/
def main : IO Unit := Proto.run ({} : SumIndex.Driver.St) SumIndex.Driver.step
