import PocketModel.Basic.Proto
import PocketModel.Codec.Wire
import PocketModel.Codec.WireText
/-! Driver for C38: schemas arrive as data lines (regenerated from /repo/proto by the harness), then
round-trip lines of the real codecs are judged: model encoder vs real bytes, model decoder vs real
decoded value (DIFF), and the executable specification `decoded = normalize original` on the
implementation's own outputs (PROPFAIL `roundtrip-changed-<type>`). -/
open Wire

structure St where
  reg : Reg := []

def lookupSchema (st : St) (n : String) : Option Schema := st.reg.lookup n

def hexOpt (s : String) : Option Bytes := Bytes.parse s

def isErr (s : String) : Bool := s = "ERR" || s = "PANIC"

def eqVals (a b : List Value) : Bool := Value.beqList a b

/-- split `h:c:v` -/
def splitH (s : String) : Option (Int × String × String) :=
  match s.splitOn ":" with
  | h :: c :: rest => match h.toInt? with
    | some hi => some (hi, c, ":".intercalate rest)
    | none => none
  | _ => none

def cfgDefault : SwitchCfg := { upgradeHeight := 30024 }

def short (s : String) : String := if s.length > 160 then (s.take 160).toString ++ "…" else s

def stepRt (st : St) (pre post : List String) : Verdict :=
  match pre, post with
  | ["rt", name, full, _variant, amino, json, vx],
    "P" :: pB :: vy :: "L" :: pL :: vl :: "A" :: pA :: vz :: "J" :: pJ :: vw :: "H" :: rest =>
    match lookupSchema st full with
    | none => .bad s!"no schema {full}"
    | some s =>
      match Text.parseMsg st.reg s vx with
      | none => .bad s!"cannot parse value of {full}: {short vx}"
      | some X =>
        let want := normFields s X
        let sig := s!"roundtrip-changed-{name}"
        let hs := rest.takeWhile (· ≠ "M")
        let mut? := (rest.dropWhile (· ≠ "M")).drop 1
        -- 1. specification on the implementation's own outputs
        if isErr pB then .propfail sig s!"proto marshal failed on {short vx}"
        else if isErr vy then .propfail sig s!"proto unmarshal of own bytes failed on {short vx}"
        else match hexOpt pB, Text.parseMsg st.reg s vy with
          | some B, some Y =>
            if !eqVals Y want then .propfail sig s!"proto: in={short vx} out={short vy}"
            else if (match mut? with
                     | ["="] => false
                     | [after] => match Text.parseMsg st.reg s after with
                                  | some Xa => !eqVals (normFields s Xa) want
                                  | none => true
                     | _ => true) then .propfail s!"{sig}-mutated" s!"marshalling changed its argument {short vx}"
            else
              -- length prefixed
              let lpV : Option Verdict :=
                if isErr pL || isErr vl then some (.propfail s!"{sig}-lp" s!"length-prefixed round trip failed: {short vx}")
                else match hexOpt pL, Text.parseMsg st.reg s vl with
                  | some L, some Yl =>
                    if !eqVals Yl want then some (.propfail s!"{sig}-lp" s!"length-prefixed: in={short vx} out={short vl}")
                    else if L != marshalLP B then some (.diff s!"length prefix: model={Bytes.render (marshalLP B)} impl={short pL}")
                    else if unmarshalLP L != some B then some (.diff "model rejects the implementation's length-prefixed bytes")
                    else none
                  | _, _ => some (.bad "lp fields")
              match lpV with
              | some v => v
              | none =>
                -- amino binary
                let amV : Option Verdict :=
                  if amino != "1" then none
                  else if isErr pA || isErr vz then some (.propfail s!"{sig}-amino" s!"amino round trip failed: {short vx}")
                  else match Text.parseMsg st.reg s vz with
                    | some Z => if eqVals (normFields s Z) want then none
                                else some (.propfail s!"{sig}-amino" s!"amino: in={short vx} out={short vz}")
                    | none => some (.bad "amino value")
                match amV with
                | some v => v
                | none =>
                  let jsV : Option Verdict :=
                    if json != "1" then none
                    else if isErr pJ || isErr vw then some (.propfail s!"{sig}-json" s!"json round trip failed: {short vx}")
                    else match Text.parseMsg st.reg s vw with
                      | some W => if eqVals (normFields s W) want then none
                                  else some (.propfail s!"{sig}-json" s!"json: in={short vx} out={short vw}")
                      | none => some (.bad "json value")
                  match jsV with
                  | some v => v
                  | none =>
                    -- the height switch
                    let swV : Option Verdict := hs.foldl (fun acc h =>
                      match acc with
                      | some v => some v
                      | none =>
                        match splitH h with
                        | none => some (.bad s!"switch field {short h}")
                        | some (hi, c, vu) =>
                          let wantProto := isAfterCodecUpgrade cfgDefault hi
                          if !wantProto && amino != "1" then none
                          else if c = "E" || c = "PANIC" || isErr vu then
                            some (.propfail s!"{sig}-switch" s!"Marshal/Unmarshal at height {hi} failed: {short vx}")
                          else
                            match Text.parseMsg st.reg s vu with
                            | none => some (.bad "switch value")
                            | some U =>
                              if !eqVals (normFields s U) want then
                                some (.propfail s!"{sig}-switch" s!"height {hi} codec={c}: in={short vx} out={short vu}")
                              else if c != "b" && c != (if wantProto then "p" else "a") then
                                some (.diff s!"height {hi}: model picks {if wantProto then "proto" else "amino"}, impl bytes are {c}")
                              else none) none
                    match swV with
                    | some v => v
                    | none =>
                      -- 2. model vs implementation
                      let mB := encodeMsg s X
                      if mB != B then .diff s!"encode {full}: model={Bytes.render mB} impl={short pB}"
                      else match decodeMsg s B with
                        | none => .diff s!"decode {full}: model rejects {short pB}"
                        | some Ym => if eqVals Ym Y then .ok else .diff s!"decode {full}: model≠impl on {short pB}"
          | _, _ => .bad "proto fields"
  | _, _ => .bad "rt arity"

def step (st : St) (pre post : List String) : St × Verdict :=
  match pre with
  | ["schema", name, spec] =>
    match Text.parseSchema spec with
    | none => (st, .bad s!"schema {name}")
    | some s =>
      if wfSchema s then ({ st with reg := (name, s) :: st.reg }, .ok)
      else (st, .diff s!"schema {name} is not well-formed (duplicate or out-of-range field numbers)")
  | "noschema" :: _ => (st, .ok)
  | "skip" :: _ => (st, .ok)
  | "rt" :: _ => (st, stepRt st pre post)
  | _ => (st, .bad "op")

def main : IO Unit := Proto.run ({} : St) step
