import PocketModel.Basic.Proto
import PocketModel.Codec.Wire
import PocketModel.Codec.WireText
import PocketModel.Codec.Json
import PocketModel.Codec.BigText
import PocketModel.Codec.TxSchema
/-! Driver for C38: schemas arrive as data lines (regenerated from /repo/proto by the harness), then
round-trip lines of the real codecs are judged: model encoder vs real bytes, model decoder vs real
decoded value (DIFF), and the executable specification `decoded = normalize original` on the
implementation's own outputs (PROPFAIL `roundtrip-changed-<type>`). -/
open Wire

structure St where
  reg : Reg := []
  /-- `Any` type URL → schema name (the interface registry, emitted by the harness) -/
  urls : List (Bytes × String) := []

def lookupSchema (st : St) (n : String) : Option Schema := st.reg.lookup n

def hexOpt (s : String) : Option Bytes := Bytes.parse s

def isErr (s : String) : Bool := s = "ERR" || s = "PANIC"

def eqVals (a b : List Value) : Bool := Value.beqList a b

/-- split `h:c:v` -/
def splitH (s : String) : Option (Int × String × String) :=
  match s.splitOn ":" with
  | h :: c :: rest => match h.toInt? with
    | some hi => some (hi, c, ":".intercalate rest)
    | none => none
  | _ => none

def cfgDefault : SwitchCfg := { upgradeHeight := 30024 }

def short (s : String) : String := if s.length > 160 then (s.take 160).toString ++ "…" else s

def stepRt (st : St) (pre post : List String) : Verdict :=
  match pre, post with
  | ["rt", name, full, _variant, amino, json, vx],
    "P" :: pB :: vy :: "L" :: pL :: vl :: "A" :: pA :: vz :: "J" :: pJ :: vw :: "H" :: rest =>
    match lookupSchema st full with
    | none => .bad s!"no schema {full}"
    | some s =>
      match Text.parseMsg st.reg s vx with
      | none => .bad s!"cannot parse value of {full}: {short vx}"
      | some X =>
        let want := normFields s X
        -- a BigDec whose scaled integer needs more than 255 bits (legal for BigDec arithmetic, which
        -- admits 255+60 bits) gets its own signature: a BigInt cannot hold such a value at all
        let over := (BigText.canonFields s X).isNone
        let sig := if over then s!"roundtrip-changed-{name}-bigdec-over-255-bits" else s!"roundtrip-changed-{name}"
        let hs := rest.takeWhile (· ≠ "M")
        let mut? := (rest.dropWhile (· ≠ "M")).drop 1
        -- 1. specification on the implementation's own outputs
        if isErr pB then .propfail sig s!"proto marshal failed on {short vx}"
        else if isErr vy then .propfail sig s!"proto unmarshal of own bytes failed on {short vx}"
        else match hexOpt pB, Text.parseMsg st.reg s vy with
          | some B, some Y =>
            if !eqVals Y want then .propfail sig s!"proto: in={short vx} out={short vy}"
            else if (match mut? with
                     | ["="] => false
                     | [after] => match Text.parseMsg st.reg s after with
                                  | some Xa => !eqVals (normFields s Xa) want
                                  | none => true
                     | _ => true) then .propfail s!"{sig}-mutated" s!"marshalling changed its argument {short vx}"
            else
              -- length prefixed
              let lpV : Option Verdict :=
                if isErr pL || isErr vl then some (.propfail s!"{sig}-lp" s!"length-prefixed round trip failed: {short vx}")
                else match hexOpt pL, Text.parseMsg st.reg s vl with
                  | some L, some Yl =>
                    if !eqVals Yl want then some (.propfail s!"{sig}-lp" s!"length-prefixed: in={short vx} out={short vl}")
                    else if L != marshalLP B then some (.diff s!"length prefix: model={Bytes.render (marshalLP B)} impl={short pL}")
                    else if unmarshalLP L != some B then some (.diff "model rejects the implementation's length-prefixed bytes")
                    else none
                  | _, _ => some (.bad "lp fields")
              match lpV with
              | some v => v
              | none =>
                -- amino binary
                let amV : Option Verdict :=
                  if amino != "1" then none
                  else if isErr pA || isErr vz then some (.propfail s!"{sig}-amino" s!"amino round trip failed: {short vx}")
                  else match Text.parseMsg st.reg s vz with
                    | some Z => if eqVals (normFields s Z) want then none
                                else some (.propfail s!"{sig}-amino" s!"amino: in={short vx} out={short vz}")
                    | none => some (.bad "amino value")
                match amV with
                | some v => v
                | none =>
                  let jsV : Option Verdict :=
                    if json != "1" then none
                    else if isErr pJ || isErr vw then some (.propfail s!"{sig}-json" s!"json round trip failed: {short vx}")
                    else match Text.parseMsg st.reg s vw with
                      | some W => if eqVals (normFields s W) want then none
                                  else some (.propfail s!"{sig}-json" s!"json: in={short vx} out={short vw}")
                      | none => some (.bad "json value")
                  match jsV with
                  | some v => v
                  | none =>
                    -- the height switch
                    let swV : Option Verdict := hs.foldl (fun acc h =>
                      match acc with
                      | some v => some v
                      | none =>
                        match splitH h with
                        | none => some (.bad s!"switch field {short h}")
                        | some (hi, c, vu) =>
                          let wantProto := isAfterCodecUpgrade cfgDefault hi
                          if !wantProto && amino != "1" then none
                          else if c = "E" || c = "PANIC" || isErr vu then
                            some (.propfail s!"{sig}-switch" s!"Marshal/Unmarshal at height {hi} failed: {short vx}")
                          else
                            match Text.parseMsg st.reg s vu with
                            | none => some (.bad "switch value")
                            | some U =>
                              if !eqVals (normFields s U) want then
                                some (.propfail s!"{sig}-switch" s!"height {hi} codec={c}: in={short vx} out={short vu}")
                              else if c != "b" && c != (if wantProto then "p" else "a") then
                                some (.diff s!"height {hi}: model picks {if wantProto then "proto" else "amino"}, impl bytes are {c}")
                              else none) none
                    match swV with
                    | some v => v
                    | none =>
                      -- 2. model vs implementation
                      let mB := encodeMsg s X
                      if mB != B then .diff s!"encode {full}: model={Bytes.render mB} impl={short pB}"
                      else match decodeMsg s B with
                        | none => .diff s!"decode {full}: model rejects {short pB}"
                        | some Ym => if eqVals Ym Y then .ok else .diff s!"decode {full}: model≠impl on {short pB}"
          | _, _ => .bad "proto fields"
  | _, _ => .bad "rt arity"

/-- Sign-bytes lines (`harness/cmd/c38/sign.go`). -/
def stepSign (pre post : List String) : Verdict :=
  let sig := "signbytes-order-dependent"
  match pre, post with
  | ["sortjson", doc], [out] =>
    match hexOpt doc with
    | none => .bad "doc"
    | some d =>
      let m := Json.sortJSONBytes d
      if isErr out then (if m.isNone then .ok else .diff "model sorts a document the implementation rejects")
      else match hexOpt out with
        | none => .bad "out"
        | some o =>
          if !Json.isCanonical o then .propfail sig s!"SortJSON output is not its own canonical form: {short out}"
          else if m == some o then .ok else .diff s!"sortjson model={(m.map Bytes.render).getD "none"} impl={short out}"
  | ["sortperm", d1, d2], [o1, o2] =>
    if o1 != o2 then .propfail sig s!"same members in another order sort differently: {short d1} / {short d2}"
    else match hexOpt d1, hexOpt d2, hexOpt o1 with
      | some a, some b, some o =>
        if Json.sortJSONBytes a != some o then .diff s!"sortperm model≠impl on {short d1}"
        else if Json.sortJSONBytes b != some o then .diff s!"sortperm model≠impl on {short d2}"
        else .ok
      | _, _, _ => if isErr o1 then .diff "SortJSON rejected a generated document" else .bad "hex"
  | ["signbytes", chain, entropy, fee, msg, memo], [s1, s2] =>
    if isErr s1 || isErr s2 then .propfail "signbytes-failed" s!"StdSignBytes failed for msg {short msg}"
    else if s1 != s2 then .propfail sig s!"sign bytes change with Go map order: {short s1} / {short s2}"
    else match hexOpt chain, entropy.toInt?, hexOpt fee, hexOpt msg, hexOpt memo, hexOpt s1 with
      | some c, some e, some f, some m, some mm, some s =>
        if !Json.isCanonical s then .propfail sig s!"sign bytes are not in sorted canonical form: {short s1}"
        else if !Json.isCanonical m then .propfail sig s!"message sign bytes are not in sorted canonical form: {short msg}"
        else match Json.parse f, Json.parse m with
          | some fj, some mj =>
            let model := Json.signBytes c e fj mj mm
            if model == s then .ok else .diff s!"signbytes model={Bytes.render model} impl={short s1}"
          | _, _ => .bad "fee/msg json outside the modelled fragment"
      | _, _, _, _, _, _ => .bad "signbytes fields"
  | ["txsign", ty], [_s0, sp, sa] =>
    if isErr sp then .propfail "signbytes-failed" s!"sign bytes of a decoded {ty} tx failed"
    else if sa != "-" && sa != sp then
      .propfail "signbytes-codec-dependent" s!"{ty}: sign bytes after amino and after proto decoding differ"
    else .ok
  | _, _ => .bad "sign op"

/-- The real transaction decoder as the model sees it: framing, `ProtoStdTx`, `Any` resolution,
then the `BigInt` texts. -/
def modelTx (st : St) (b : Bytes) : Option (List Value × List Value) := do
  let stdtx ← lookupSchema st "x.auth.ProtoStdTx"
  let body ← unmarshalLP b
  let vs ← decodeMsg stdtx body
  let vs' ← BigText.canonFields stdtx vs
  match vs with
  | .msg (some [.bytes (some url), .bytes ob]) :: _ =>
    let name ← st.urls.lookup url
    let s ← lookupSchema st name
    let inner ← decodeMsg s (ob.getD [])
    let inner' ← BigText.canonFields s inner
    some (vs', inner')
  | _ => none

/-- C16 (byte level): re-encodings of a signed transaction judged by the real decoder. -/
def stepC16 (st : St) (pre post : List String) : Verdict :=
  match pre, post with
  | ["c16", cls, path, b0, b1], [acc, same, sign, sigok, hash] =>
    match hexOpt b0, hexOpt b1 with
    | some x0, some x1 =>
      if acc = "P" then .propfail s!"decoder-panics-{cls}" s!"the transaction decoder panicked on {short b1}"
      else
        let m0 := modelTx st x0
        let m1 := modelTx st x1
        let mAcc := m1.isSome
        let mSame := match m0, m1 with
          | some (a, ai), some (b, bi) =>
            -- the Any's value bytes are compared through their decoded content
            (match a, b with
             | _ :: ar, _ :: br => eqVals ar br
             | _, _ => false) && eqVals ai bi &&
            (match a, b with
             | .msg (some (u1 :: _)) :: _, .msg (some (u2 :: _)) :: _ => Value.beq u1 u2
             | _, _ => false)
          | _, _ => false
        let canon0 := match unmarshalLP x0 with
          | some body => (match decodeMsg stdTxSchema body with
                          | some v => encodeMsg stdTxSchema v == body && marshalLP body == x0
                          | none => false)
          | none => false
        if m0.isNone then .diff s!"model rejects the canonical encoding {short b0}"
        else if !canon0 then .diff s!"DefaultTxEncoder output is not Canonical in the model: {short b0}"
        else if mAcc != (acc = "1") then .diff s!"{cls}@{path}: model accepts={mAcc} impl accepts={acc} on {short b1}"
        else if acc = "1" && mSame != (same = "1") then .diff s!"{cls}@{path}: model same-content={mSame} impl={same} on {short b1}"
        else if acc = "1" && same = "1" && sign = "1" && sigok = "1" && hash = "1" then
          .propfail s!"reencode-replays-{cls}" s!"@{path}: other bytes, same signed content: {short b1}"
        else .ok
    | _, _ => .bad "hex"
  | ["bigtext", t], [r, dec, js] =>
    match hexOpt t with
    | none => .bad "hex"
    | some tb =>
      let parsed := BigText.parseGoInt tb
      let m := match BigText.canonText tb with
        | none => "ERR"
        | some c => String.ofList (c.map fun b => Char.ofNat b.toNat)
      -- specification on the implementation's own answers: every integer of the documented range
      -- (|x| < 2^255) written in canonical decimal must be readable by all three decoders
      let canonicalInRange := match parsed with
        | some v => BigText.inRange v && Json.intDigits v == tb
        | none => false
      if canonicalInRange && (isErr r || isErr dec || isErr js) then
        .propfail "roundtrip-changed-BigInt-text" s!"in-range decimal text {m} is rejected: proto={r} dec={dec} json={js}"
      -- an empty payload is ignored by BigInt.Unmarshal (the field keeps its previous value)
      else if tb = [] then (if r = "NOP" && dec = "NOP" && isErr js then .ok else .diff s!"bigtext empty: impl={r} {dec} {js}")
      else if m != r then .diff s!"bigtext {t}: model={m} impl={r}"
      else if m != dec then .diff s!"bigtext {t} (BigDec.Unmarshal): model={m} impl={dec}"
      else if m != js then .diff s!"bigtext {t} (BigInt.UnmarshalJSON): model={m} impl={js}"
      else .ok
  | _, _ => .bad "c16 op"

/-- `he:hd:c:r` -/
def splitPair (s : String) : Option (Int × Int × String × String) :=
  match s.splitOn ":" with
  | [a, b, c, r] => match a.toInt?, b.toInt? with
    | some x, some y => some (x, y, c, r)
    | _, _ => none
  | _ => none

/-- Cross-height lines (`harness/cmd/c38/xheight.go`): encode at `he`, decode at `hd ≥ he`.  The two
codecs are abstracted to "which codec wrote the bytes": amino reads amino bytes, proto reads proto
bytes (`b`: both wrote the same bytes); everything else is `Wire.marshalAt` / `Wire.unmarshalAt`. -/
def stepXh (st : St) (pre post : List String) : Verdict :=
  match pre, post with
  | ["xh", cfgName, u, name, full, kind, vx], vy :: vz :: pairs =>
    match lookupSchema st full, u.toInt? with
    | some s, some U =>
      match Text.parseMsg st.reg s vx with
      | none => .bad s!"cannot parse value of {full}"
      | some X =>
        let want := normFields s X
        let sig := s!"roundtrip-changed-{name}-switch"
        let okV (v : String) : Bool := match Text.parseMsg st.reg s v with
          | some Y => eqVals (normFields s Y) want
          | none => false
        if isErr vy || !okV vy then .propfail s!"roundtrip-changed-{name}" s!"proto ({kind}): in={short vx} out={short vy}"
        else if isErr vz || !okV vz then .propfail s!"roundtrip-changed-{name}-amino" s!"amino ({kind}): in={short vx} out={short vz}"
        else
          let cfg : SwitchCfg := { upgradeHeight := U, testMode := cfgName = "testmode" }
          -- where the unchanged code guarantees that a value written at `he` is read back at `hd`
          let guaranteed := cfgName = "main" || cfgName = "testmode"
          let enc (tag : String) : Unit → Option Bytes := fun _ => some tag.toUTF8.toList
          let aDec (b : Bytes) : Option Unit := if b = "a".toUTF8.toList || b = "b".toUTF8.toList then some () else none
          let pDec (b : Bytes) : Option Unit := if b = "p".toUTF8.toList || b = "b".toUTF8.toList then some () else none
          pairs.foldl (fun acc p =>
            match acc with
            | .ok =>
              match splitPair p with
              | none => .bad s!"pair {p}"
              | some (he, hd, c, r) =>
                let wantTag := if isAfterCodecUpgrade cfg he then "p" else "a"
                if c = "E" || c = "?" || c = "PANIC" then .propfail sig s!"{cfgName}/{kind}: Marshal at height {he} failed ({c}): {short vx}"
                else if c != "b" && c != wantTag then .diff s!"{cfgName}/{kind}: height {he}: model writes {wantTag}, impl wrote {c}"
                else
                  let written := (marshalAt cfg (enc "a") (enc "p") he ()).map fun _ => c.toUTF8.toList
                  let expectOk := match written with
                    | some b => (unmarshalAt cfg aDec pDec hd b).isSome
                    | none => false
                  let implOk := r = "y" || r = "z"
                  if expectOk && !implOk then
                    if guaranteed then
                      .propfail sig s!"{cfgName}/{kind}: written at height {he} ({c}), not read back at height {hd} ({r}): {short vx}"
                    else .diff s!"{cfgName}/{kind}: {he}->{hd}: model reads the value back, impl={r}"
                  else if !expectOk && implOk then
                    .diff s!"{cfgName}/{kind}: {he}->{hd}: model cannot read {c} bytes at {hd}, impl did"
                  else .ok
            | v => v) .ok
    | _, _ => .bad s!"xh header {full}"
  | _, _ => .bad "xh arity"

def step (st : St) (pre post : List String) : St × Verdict :=
  match pre with
  | ["schema", name, spec] =>
    match Text.parseSchema spec with
    | none => (st, .bad s!"schema {name}")
    | some s =>
      if name = "x.auth.ProtoStdTx" && !FSpec.beqList s stdTxSchema then
        (st, .diff s!"message ProtoStdTx changed: the theorems of Props/C16wire are about {spec}'s predecessor (Wire.stdTxSchema)")
      else if wfSchema s then ({ st with reg := (name, s) :: st.reg }, .ok)
      else (st, .diff s!"schema {name} is not well-formed (duplicate or out-of-range field numbers)")
  | "noschema" :: _ => (st, .ok)
  | "skip" :: _ => (st, .ok)
  | "rt" :: _ => (st, stepRt st pre post)
  | "sortjson" :: _ => (st, stepSign pre post)
  | "sortperm" :: _ => (st, stepSign pre post)
  | "signbytes" :: _ => (st, stepSign pre post)
  | "txsign" :: _ => (st, stepSign pre post)
  | ["anyurl", url, name] =>
    match hexOpt url with
    | some u => ({ st with urls := (u, name) :: st.urls }, .ok)
    | none => (st, .bad "anyurl")
  | ["isafter", uh, ouh, ov, tm, h] =>
    match uh.toInt?, ouh.toInt?, ov.toInt?, h.toInt?, post with
    | some u, some o, some v, some hh, [got, res] =>
      let g := getCodecUpgradeHeight u o
      let r := isAfterCodecUpgrade { upgradeHeight := g, override := v, testMode := tm = "1" } hh
      if toString g != got then (st, .diff s!"GetCodecUpgradeHeight({u},{o}): model={g} impl={got}")
      else if toString r != res then (st, .diff s!"IsAfterCodecUpgrade({hh}) with upgrade height {g}: model={r} impl={res}")
      else (st, .ok)
    | _, _, _, _, _ => (st, .bad "isafter")
  | "xh" :: _ => (st, stepXh st pre post)
  | ["mapstab", name, full, vx] =>
    -- one encoding decoded many times: the value and the sign bytes must not depend on map order
    match post with
    | [nd, ns, vy, vj] =>
      match lookupSchema st full with
      | none => (st, .bad s!"no schema {full}")
      | some s =>
        match Text.parseMsg st.reg s vx with
        | none => (st, .bad s!"cannot parse value of {full}")
        | some X =>
          let want := normFields s X
          if isErr nd || isErr vy then (st, .propfail s!"roundtrip-changed-{name}" s!"proto round trip failed on {short vx}")
          else if nd != "1" then
            (st, .propfail "decode-order-dependent" s!"{name}: {nd} different values from decoding the same bytes; in={short vx}")
          else if ns != "1" then
            (st, .propfail "signbytes-order-dependent" s!"{name}: {ns} different sign bytes from decoding the same bytes; in={short vx}")
          else match Text.parseMsg st.reg s vy with
            | none => (st, .bad "decoded value")
            | some Y =>
              if !eqVals Y want then (st, .propfail s!"roundtrip-changed-{name}" s!"proto: in={short vx} out={short vy}")
              else if isErr vj then (st, .propfail s!"roundtrip-changed-{name}-json" s!"json round trip failed: {short vx}")
              else match Text.parseMsg st.reg s vj with
                | none => (st, .bad "json value")
                | some W =>
                  if eqVals (normFields s W) want then (st, .ok)
                  else (st, .propfail s!"roundtrip-changed-{name}-json" s!"json: in={short vx} out={short vj}")
    | _ => (st, .bad "mapstab")
  | ["jrt", ty, _mode] =>
    -- parameter values (no schema): amino-JSON round trip judged on the harness' canonical rendering
    match post with
    | [js, eq, before, after] =>
      if isErr js then (st, .propfail s!"roundtrip-changed-{ty}-json" s!"amino-JSON marshal failed for {before}")
      else if eq = "1" && before = after then (st, .ok)
      else (st, .propfail s!"roundtrip-changed-{ty}-json" s!"in={before} out={after}")
    | _ => (st, .bad "jrt")
  | "c16" :: _ => (st, stepC16 st pre post)
  | "bigtext" :: _ => (st, stepC16 st pre post)
  | _ => (st, .bad "op")

def main : IO Unit := Proto.run ({} : St) step
