import PocketModel.Store.DiskDriver
/-! Driver for C07 (see `PocketModel/Store/DiskDriver.lean`). -/
def main : IO Unit := Proto.run ({} : DiskDriver.St) DiskDriver.step
