import PocketModel.Basic.Proto
import PocketModel.Ledger.Apps
/-!
Driver for C20 / C28 / C23 (applications): consumes the trace of `harness/cmd/appsdrive`.

Every line carries the abstract applications-ledger state the real application had **after** the
operation.  The driver keeps the implementation's previous dump as the pre-state and
* evaluates the specification monitors (the decidable predicates the theorems of `Props/C20`,
  `Props/C28`, `Proofs/Ledger/AppsEdit` are about) on the implementation's own pre/post dumps
  (`PROPFAIL <sig>`), and
* runs the model's transition from the dumped pre-state and compares it with the dumped
  post-state component by component (`DIFF`).
-/
open Apps

/-! ## Parsing -/

def splitC (s : String) (c : Char) : List String := if s = "-" ∨ s = "" then [] else s.split (· == c) |>.map (·.toString) |>.toList

def kv (w : String) : Option (String × String) :=
  match w.splitOn "=" with
  | [k, v] => some (k, v)
  | _ => none

def field (ws : List String) (k : String) : Option String :=
  ws.findSome? fun w => match kv w with
    | some (k', v) => if k' = k then some v else none
    | none => none

def pInt (s : String) : Option Int := s.toInt?

def pChains (s : String) : List String := (splitC s '+').map fun c => if c = "EMPTY" then "" else c

def pApp (s : String) : Option (Addr × App) :=
  match s.splitOn ":" with
  | [a, pk, st, j, tok, mr, ut, ch] => do
    let a ← Bytes.parse a
    let pk ← Bytes.parse pk
    let st ← st.toNat?
    let tok ← pInt tok
    let mr ← pInt mr
    let ut ← pInt ut
    pure (a, { pk := pk, status := st, jailed := j = "1", tokens := tok, maxRelays := mr, chains := pChains ch, unstakingTime := ut })
  | _ => none

def pIdx (s : String) : Option ((Int × Addr) × Addr) :=
  match s.splitOn ":" with
  | [p, k, v] => do
    let p ← pInt p
    let k ← Bytes.parse k
    let v ← Bytes.parse v
    pure ((p, k), v)
  | _ => none

def pQ (s : String) : Option (Int × List Addr) :=
  match s.splitOn ":" with
  | [t, as] => do
    let t ← pInt t
    let as ← (splitC as '+').mapM Bytes.parse
    pure (t, as)
  | _ => none

def pBal (s : String) : Option (Addr × Int) :=
  match s.splitOn ":" with
  | [a, v] => do
    let a ← Bytes.parse a
    let v ← pInt v
    pure (a, v)
  | _ => none

def pParams (s : String) : Option Params :=
  match (s.splitOn ",").mapM pInt with
  | some [a, b, c, d, e, f, g] => some { minStake := a, maxChains := b, maxApps := c, baseRelays := d, stability := e, unstakingTime := f, participation := g = 1 }
  | _ => none

def pState (ws : List String) : Option St := do
  let t ← (field ws "t").bind pInt
  let pool ← (field ws "pool").bind pInt
  let fee ← (field ws "fee").bind pInt
  let supply ← (field ws "supply").bind pInt
  let ns ← (field ws "nstaked").bind pInt
  let p ← (field ws "P").bind pParams
  let a ← (field ws "A").bind fun s => (splitC s ';').mapM pApp
  let i ← (field ws "I").bind fun s => (splitC s ';').mapM pIdx
  let q ← (field ws "Q").bind fun s => (splitC s ';').mapM pQ
  let b ← (field ws "B").bind fun s => (splitC s ';').mapM pBal
  pure { apps := a, idx := i, queue := q, pool := pool, feeColl := fee, supply := supply, nodeStaked := ns, bals := b, params := p, time := t }

/-! ## Canonical forms (store order) -/

def leB (a b : Bytes) : Bool := Bytes.cmp a b != .gt

def sortApps (m : List (Addr × App)) := m.mergeSort fun x y => leB x.1 y.1
def sortBals (m : List (Addr × Int)) := m.mergeSort fun x y => leB x.1 y.1
def sortIdx (m : List ((Int × Addr) × Addr)) := m.mergeSort fun x y => x.1.1 < y.1.1 || (x.1.1 == y.1.1 && leB y.1.2 x.1.2)
def sortQ (m : List (Int × List Addr)) := m.mergeSort fun x y => decide (x.1 ≤ y.1)

def rApp (e : Addr × App) : String :=
  let a := e.2
  s!"{Bytes.toHex e.1}:{Bytes.toHex a.pk}:{a.status}:{if a.jailed then 1 else 0}:{a.tokens}:{a.maxRelays}:{a.unstakingTime}:{"+".intercalate a.chains}"
def rApps (m : List (Addr × App)) : String := ";".intercalate ((sortApps m).map rApp)
def rIdx (m : List ((Int × Addr) × Addr)) : String :=
  ";".intercalate ((sortIdx m).map fun e => s!"{e.1.1}:{Bytes.toHex e.1.2}:{Bytes.toHex e.2}")
def rQ (m : List (Int × List Addr)) : String :=
  ";".intercalate ((sortQ m).map fun e => s!"{e.1}:{"+".intercalate (e.2.map Bytes.toHex)}")
def rBals (m : List (Addr × Int)) : String := ";".intercalate ((sortBals m).map fun e => s!"{Bytes.toHex e.1}:{e.2}")

/-- Components in which the model post-state differs from the implementation's. -/
def diffState (m i : St) (withBals : Bool) : List String :=
  (if rApps m.apps ≠ rApps i.apps then [s!"apps model={rApps m.apps} impl={rApps i.apps}"] else []) ++
  (if rIdx m.idx ≠ rIdx i.idx then [s!"idx model={rIdx m.idx} impl={rIdx i.idx}"] else []) ++
  (if rQ m.queue ≠ rQ i.queue then [s!"queue model={rQ m.queue} impl={rQ i.queue}"] else []) ++
  (if m.pool ≠ i.pool then [s!"pool model={m.pool} impl={i.pool}"] else []) ++
  (if withBals ∧ m.feeColl ≠ i.feeColl then [s!"feeColl model={m.feeColl} impl={i.feeColl}"] else []) ++
  (if withBals ∧ m.supply ≠ i.supply then [s!"supply model={m.supply} impl={i.supply}"] else []) ++
  (if withBals ∧ rBals m.bals ≠ rBals i.bals then [s!"bals model={rBals m.bals} impl={rBals i.bals}"] else [])

/-! ## Specification monitors on the implementation's own dumps -/

def isStaked (o : Option App) : Bool := match o with | some a => a.status = stStaked | none => false

/-- State monitors: index and queue agree with the records, stakes are non-negative. -/
def stateMon (s : St) : Option (String × String) :=
  let wantIdx := (s.apps.filter fun e => e.2.status = stStaked && !e.2.jailed).map fun e => ((power e.2.tokens, e.1), e.1)
  let qEntries := (s.queue.flatMap fun e => e.2.map fun a => (e.1, a))
  let unst := s.apps.filter fun e => e.2.status = stUnstaking
  if rIdx wantIdx ≠ rIdx s.idx then some ("app-index-ne-staked", s!"want={rIdx wantIdx} have={rIdx s.idx}")
  else if s.apps.any fun e => e.2.tokens < 0 then some ("app-negative-stake", rApps s.apps)
  else if !(qEntries.all fun (t, a) => unst.any fun e => e.1 = a && e.2.unstakingTime = t) then
    some ("app-queue-dangling", s!"queue={rQ s.queue} apps={rApps s.apps}")
  else if !(unst.all fun e => e.2.jailed || qEntries.any fun (t, a) => e.1 = a && e.2.unstakingTime = t) then
    some ("app-unstaking-not-queued", s!"queue={rQ s.queue} apps={rApps s.apps}")
  else if (s.apps.map (·.1)).eraseDups.length ≠ s.apps.length then some ("app-duplicate-record", rApps s.apps)
  else none

def sameLedger (a b : St) : Bool :=
  rApps a.apps = rApps b.apps && rIdx a.idx = rIdx b.idx && rQ a.queue = rQ b.queue && a.pool = b.pool

/-- Transition monitor for an application `MsgStake` (C28, C23-apps, C20). -/
def stakeMon (pre post : St) (signer : Addr) (m : MsgStake) (fee : Int) (ok : Bool) : Option (String × String) :=
  if !ok then
    if sameLedger pre post then none else some ("app-failed-tx-changed-state", "stake")
  else
    -- every record of another address is untouched
    let others := pre.apps.filter fun e => e.1 ≠ signer
    match others.find? fun e => get post.apps e.1 ≠ some e.2 with
    | some e => some ("app-transfer-by-stranger", s!"record {Bytes.toHex e.1} changed by signer {Bytes.toHex signer}")
    | none =>
    match get pre.apps m.addr, get post.apps m.addr with
    | none, some r =>
      if signer = m.addr then
        -- a new application became staked
        if r.status ≠ stStaked then some ("app-new-not-staked", rApp (m.addr, r))
        else if m.value < pre.params.minStake then some ("app-staked-below-min", s!"value={m.value} min={pre.params.minStake}")
        else if (m.chains.length : Int) > pre.params.maxChains then some ("app-staked-over-maxchains", s!"chains={m.chains.length} max={pre.params.maxChains}")
        else if balOf pre signer < m.value + fee then some ("app-staked-without-funds", s!"bal={balOf pre signer} value={m.value} fee={fee}")
        else if (pre.idx.length : Int) ≥ pre.params.maxApps then some ("app-staked-over-max", s!"staked={pre.idx.length} max={pre.params.maxApps}")
        else if r.tokens ≠ m.value ∨ r.chains ≠ m.chains ∨ r.pk ≠ m.pk ∨ r.jailed then some ("app-stake-record-ne-msg", rApp (m.addr, r))
        else if r.maxRelays ≠ post.relays r.tokens then some ("app-allowance-ne-calc", s!"maxRelays={r.maxRelays} calc={post.relays r.tokens}")
        else if balOf post signer ≠ balOf pre signer - fee - m.value ∨ post.pool ≠ pre.pool + m.value then
          some ("app-stake-coins-ne", s!"bal {balOf pre signer}->{balOf post signer} pool {pre.pool}->{post.pool}")
        else none
      else
        -- a transfer: the signer's staked record moved to the new key
        match get pre.apps signer with
        | none => some ("app-transfer-by-stranger", s!"signer {Bytes.toHex signer} has no record")
        | some cur =>
          if cur.status ≠ stStaked then some ("app-transfer-by-stranger", s!"signer record not staked")
          else if !m.isTransferShaped then some ("app-transfer-by-stranger", "message is not transfer-shaped")
          else if r ≠ { cur with pk := m.pk } then some ("app-transfer-lost-stake", s!"old={rApp (signer, cur)} new={rApp (m.addr, r)}")
          else if has post.apps signer ∨ post.idx.any (fun e => e.1.2 = signer ∨ e.2 = signer) then
            some ("app-transfer-old-record-remains", s!"apps={rApps post.apps} idx={rIdx post.idx}")
          else if post.pool ≠ pre.pool then some ("app-transfer-moved-coins", s!"pool {pre.pool}->{post.pool}")
          else none
    | some r0, some r =>
      if signer ≠ m.addr then none  -- covered by the frame check above
      else if r0.status = stStaked then
        -- edit stake
        if r.tokens < r0.tokens then some ("app-edit-lowered-stake", s!"{r0.tokens}->{r.tokens}")
        else if r.pk ≠ r0.pk ∨ r.jailed ≠ r0.jailed ∨ r.status ≠ r0.status ∨ r.unstakingTime ≠ r0.unstakingTime then
          some ("app-edit-changed-identity", s!"old={rApp (signer, r0)} new={rApp (signer, r)}")
        else if r.tokens ≠ m.value ∨ r.chains ≠ m.chains then some ("app-stake-record-ne-msg", rApp (m.addr, r))
        else if (m.chains.length : Int) > pre.params.maxChains then some ("app-staked-over-maxchains", s!"chains={m.chains.length}")
        else if r.tokens > r0.tokens ∧ r.maxRelays ≠ post.relays r.tokens then some ("app-allowance-ne-calc", s!"maxRelays={r.maxRelays} calc={post.relays r.tokens}")
        else if r.tokens = r0.tokens ∧ r.maxRelays ≠ r0.maxRelays then some ("app-allowance-changed-without-stake", s!"{r0.maxRelays}->{r.maxRelays}")
        else if balOf post signer ≠ balOf pre signer - fee - (r.tokens - r0.tokens) ∨ post.pool ≠ pre.pool + (r.tokens - r0.tokens) then
          some ("app-edit-coins-ne", s!"bal {balOf pre signer}->{balOf post signer} pool {pre.pool}->{post.pool}")
        else none
      else if r0.status = stUnstaked then
        -- re-stake of an unstaked record (only reachable after a keeper-level force-unstake)
        if m.value < pre.params.minStake then some ("app-staked-below-min", s!"value={m.value}")
        else if (pre.idx.length : Int) ≥ pre.params.maxApps then some ("app-staked-over-max", s!"staked={pre.idx.length}")
        else if balOf pre signer < m.value + fee then some ("app-staked-without-funds", s!"bal={balOf pre signer}")
        else none
      else some ("app-stake-on-unstaking", rApp (signer, r0))
    | some r0, none =>
      if signer = m.addr then some ("app-record-vanished", rApp (signer, r0)) else none
    | none, none =>
      if sameLedger pre post then none else some ("app-stake-ok-without-record", "")

def unstakeMon (pre post : St) (signer a : Addr) (ok : Bool) : Option (String × String) :=
  if !ok then
    if sameLedger pre post then none else some ("app-failed-tx-changed-state", "unstake")
  else
    match get pre.apps a, get post.apps a with
    | some r0, some r =>
      if signer ≠ a then some ("app-unstake-by-stranger", Bytes.toHex signer)
      else if r0.status ≠ stStaked ∨ r0.jailed then some ("app-unstake-not-staked", rApp (a, r0))
      else if r ≠ { r0 with status := stUnstaking, unstakingTime := pre.time + pre.params.unstakingTime } then
        some ("app-unstake-record-ne", s!"old={rApp (a, r0)} new={rApp (a, r)}")
      else if post.pool ≠ pre.pool then some ("app-unstake-moved-coins", "")
      else if (pre.apps.filter fun e => e.1 ≠ a).any fun e => get post.apps e.1 ≠ some e.2 then some ("app-unstake-touched-other", "")
      else none
    | _, _ => some ("app-unstake-no-record", Bytes.toHex a)

/-- End-block monitor: exactly the mature, unjailed unstaking records leave, each paid once. -/
def endMon (pre post : St) : Option (String × String) :=
  let due := pre.apps.filter fun e => e.2.status = stUnstaking && !e.2.jailed && decide (e.2.unstakingTime ≤ pre.time)
  let gone := pre.apps.filter fun e => !has post.apps e.1
  match gone.find? fun e => !(due.any fun d => d.1 = e.1) with
  | some e => some ("app-unstaked-early", s!"{rApp e} at t={pre.time}")
  | none =>
  match due.find? fun e => has post.apps e.1 with
  | some e => some ("app-unstake-late", s!"{rApp e} at t={pre.time}")
  | none =>
  match (pre.apps.filter fun e => has post.apps e.1).find? fun e => get post.apps e.1 ≠ some e.2 with
  | some e => some ("app-endblock-changed-record", rApp e)
  | none =>
  if post.apps.any fun e => !has pre.apps e.1 then some ("app-endblock-new-record", rApps post.apps)
  else
    let paid := due.foldl (fun acc e => acc + e.2.tokens) 0
    if post.pool ≠ pre.pool - paid then some ("app-unstake-payout-ne", s!"pool {pre.pool}->{post.pool} due={paid}")
    else match due.find? fun e => balOf post e.1 < balOf pre e.1 + e.2.tokens with
      | some e => some ("app-unstake-payout-ne", s!"{Bytes.toHex e.1} bal {balOf pre e.1}->{balOf post e.1} tokens={e.2.tokens}")
      | none => none

def first (xs : List (Option (String × String))) : Option (String × String) := xs.findSome? id

def verdict (mon : Option (String × String)) (diffs : List String) : Verdict :=
  match mon with
  | some (sig, d) => .propfail sig d
  | none => if diffs.isEmpty then .ok else .diff (" | ".intercalate diffs)

/-- pool − Σ bonded must not move (C20); `donate` is the one operation that moves it. -/
def excessMon (pre post : St) : Option (String × String) :=
  if excess post ≠ excess pre then some ("app-pool-ne-sum-staked", s!"pool-sum {excess pre}->{excess post}") else none

def extOf (i : St) : Ext := { bals := i.bals, feeColl := i.feeColl, supply := i.supply, nodeStaked := i.nodeStaked, params := i.params }

def rcOf (s : String) : Bool := s = "ok"

def step (cur : Option St) (pre post : List String) : Option St × Verdict :=
  match pre with
  | ["init"] =>
    match pState post with
    | none => (cur, .bad "state")
    | some i =>
      let mon := first [if excess i ≠ 0 then some ("app-pool-ne-sum-staked", s!"genesis pool-sum={excess i}") else none, stateMon i]
      (some i, verdict mon [])
  | _ =>
  match cur with
  | none => (cur, .bad "no init")
  | some s =>
    match pre, post with
    | ["begin"], st =>
      match pState st with
      | none => (cur, .bad "state")
      | some i =>
        -- other modules' begin blockers only move balances; the applications ledger is framed
        let m := Apps.step (Apps.step s (.ext (extOf i))) (.beginBlock i.time)
        (some i, verdict (first [excessMon s i, stateMon i]) (diffState m i true))
    | ["end"], st =>
      match pState st with
      | none => (cur, .bad "state")
      | some i =>
        let m := Apps.step s .endBlock
        -- other modules' end blockers may pay out too: balances are compared for the applications only
        let mb := { m with bals := m.bals.filter fun e => has s.apps e.1 }
        let ib := { i with bals := i.bals.filter fun e => has s.apps e.1, feeColl := m.feeColl, supply := m.supply }
        (some i, verdict (first [excessMon s i, endMon s i, stateMon i]) (diffState mb ib true))
    | ["tx", "stake", signer, pk, addr, value, chains, fee], code :: st =>
      match pState st, Bytes.parse signer, Bytes.parse pk, Bytes.parse addr, pInt value, pInt fee with
      | some i, some signer, some pk, some addr, some value, some fee =>
        let msg : MsgStake := { pk := pk, addr := addr, chains := pChains chains, value := value }
        let (rc, m) := deliverStake s signer msg fee
        let d := (if rc.render ≠ code then [s!"code model={rc.render} impl={code}"] else []) ++ diffState m i true
        (some i, verdict (first [excessMon s i, stakeMon s i signer msg fee (rcOf code), stateMon i]) d)
      | _, _, _, _, _, _ => (cur, .bad "stake args")
    | ["tx", "unstake", signer, addr, fee], code :: st =>
      match pState st, Bytes.parse signer, Bytes.parse addr, pInt fee with
      | some i, some signer, some addr, some fee =>
        let (rc, m) := deliverUnstake s signer addr fee
        let d := (if rc.render ≠ code then [s!"code model={rc.render} impl={code}"] else []) ++ diffState m i true
        (some i, verdict (first [excessMon s i, unstakeMon s i signer addr (rcOf code), stateMon i]) d)
      | _, _, _, _ => (cur, .bad "unstake args")
    | ["tx", "donate", src, amt, fee], code :: st =>
      match pState st, Bytes.parse src, pInt amt, pInt fee with
      | some i, some src, some amt, some fee =>
        let (rc, s1) := deductFee s src fee
        let (rc, m) := if rc = .ok then (if balOf s1 src < amt then (Rc.sdk 10, s1) else (Rc.ok, donate s1 src amt)) else (rc, s1)
        let d := (if rc.render ≠ code then [s!"code model={rc.render} impl={code}"] else []) ++ diffState m i true
        let mon := if excess i ≠ excess s then some ("app-pool-inflated-by-send", s!"pool-sum {excess s}->{excess i} by MsgSend of {amt} to the pool address") else none
        (some i, verdict (first [mon, stateMon i]) d)
      | _, _, _, _ => (cur, .bad "donate args")
    | "tx" :: "ext" :: _, _ :: st =>
      match pState st with
      | none => (cur, .bad "state")
      | some i =>
        let m := Apps.step s (.ext (extOf i))
        (some i, verdict (first [excessMon s i, if sameLedger s i then none else some ("app-ledger-changed-by-other-tx", ""), stateMon i]) (diffState m i true))
    | "tx" :: "extapp" :: _, _ :: st =>
      match pState st with
      | none => (cur, .bad "state")
      | some i => (some i, verdict (first [excessMon s i, stateMon i]) [])
    | ["keeper", "jail", a], _ :: st =>
      match pState st, Bytes.parse a with
      | some i, some a =>
        let m := jail s a
        (some i, verdict (first [excessMon s i]) (diffState m i true))
      | _, _ => (cur, .bad "jail args")
    | ["keeper", "unjail", a], _ :: st =>
      match pState st, Bytes.parse a with
      | some i, some a =>
        let m := unjail s a
        (some i, verdict (first [excessMon s i]) (diffState m i true))
      | _, _ => (cur, .bad "unjail args")
    | ["keeper", "requeue", a], _ :: st =>
      -- JailApplication then UnjailApplication: on an unstaking record its queue slot gains two more entries
      match pState st, Bytes.parse a with
      | some i, some a =>
        let m := unjail (jail s a) a
        (some i, verdict (first [excessMon s i]) (diffState m i true))
      | _, _ => (cur, .bad "requeue args")
    | ["keeper", "force", a], res :: st =>
      match pState st, Bytes.parse a with
      | some i, some a =>
        let (ok, m) := forceUnstake s a
        let r := if !has s.apps a then "notfound" else if ok then "ok" else "err"
        let d := (if r ≠ res then [s!"result model={r} impl={res}"] else []) ++ diffState m i true
        (some i, verdict (first [excessMon s i]) d)
      | _, _ => (cur, .bad "force args")
    | _, _ => (cur, .bad "op")

def main : IO Unit := Proto.run (none : Option St) step
