import PocketModel.Ledger.NodesDriver
/-! Driver for C22 (nodes ledger): see `PocketModel/Ledger/NodesDriver.lean`. -/
def main : IO Unit := Proto.run (NodesDriver.init "C22") NodesDriver.step
