import PocketModel.Basic.Proto
import PocketModel.Relay.Auth
/-! Driver for C35: `validate k=v … => OK max | ERR space:code | PANIC | FATAL` and
`handle sessAllow=… k=v … => OK sig=… evN=… stored=… resp=… | ERR …`.  Stateless.  Signature verdicts,
hashes, addresses and the session-node selection arrive as oracle data; the driver evaluates the
decision function and the executable specification `served ⇒ every authorization condition`. -/
open RelayAuth

def kvs (ws : List String) : List (String × String) :=
  ws.filterMap fun w => match w.splitOn "=" with
    | [k, v] => some (k, v)
    | _ => none

def look (m : List (String × String)) (k : String) : String := (m.lookup k).getD ""

def strOf (h : String) : String :=
  if h = "-" || h = "~" || h = "" then "" else
  match Bytes.parse h with
  | some b => String.ofList (b.map fun c => Char.ofNat c.toNat)
  | none => "?"

def listOf (h : String) : List String :=
  if h = "-" || h = "" then [] else (h.splitOn ",").map strOf

def intOf (s : String) : Int := s.toInt?.getD 0
def boolOf (s : String) : Bool := s = "true" || s = "1"

def bytesOf (h : String) : Option Bytes := if h = "x" || h = "" then none else Bytes.parse h

structure Case where
  E : Env
  r : Relay
  sbhArg : Int
  app : Option App
  appStakedNow : Bool
  appStaked : Bool
  appSigOK : Bool
  clientSigOK : Bool
  label : String
  canonIn : String

def mkCase (m : List (String × String)) : Case :=
  let g := look m
  let tok : AAT := { version := strOf (g "version"), appPub := strOf (g "appPub"), clientPub := strOf (g "clientPub"), appSig := strOf (g "appSig") }
  let p : Proof := { entropy := intOf (g "entropy"), sbh := intOf (g "sbh"), servicer := strOf (g "servicer"), chain := strOf (g "chain"),
                     token := tok, sig := strOf (g "clientSig"), requestHash := strOf (g "reqHashProof") }
  let r : Relay := { data := strOf (g "data"), path := strOf (g "path"), metaHeight := intOf (g "metaHeight"), proof := p }
  let sbhArg := intOf (g "sbhArg")
  let app : Option App :=
    if boolOf (g "appFound") then
      some { pubRaw := strOf (g "appRecPub"), chains := listOf (g "appChains"), maxRelays := intOf (g "appMaxRelays") }
    else none
  let session : Except (String × Nat) (List (Option Bytes)) :=
    let s := g "session"
    if s.startsWith "ERR:" then
      match s.splitOn ":" with
      | [_, sp, c] => .error (sp, c.toNat?.getD 0)
      | _ => .error ("?", 0)
    else if s = "-" || s = "PANIC" then .error ("?", 0)
    else if s = "~" then .ok []
    else .ok ((s.splitOn ",").map fun a => Bytes.parse a)
  let servicerAddr := bytesOf (g "servicerAddr")
  let appAddr := bytesOf (g "appAddr")
  let appSigOK := g "appSigOK" = "1"
  let clientSigOK := g "clientSigOK" = "1"
  let E : Env := {
    height := intOf (g "height"), blockAllowance := intOf (g "blockAllow"), sessionAllowance := intOf (g "sessAllow"),
    bps := intOf (g "bps"), hosted := listOf (g "hosted"),
    prevCtxOk := fun _ => boolOf (g "prevOK"),
    appAt := fun _ _ => app,
    enforceMaxChains := boolOf (g "enforceMax"), maxChains := intOf (g "maxChainsApp"),
    nodeCount := fun _ => intOf (g "nodeCount"),
    evidence := { found := boolOf (g "evFound"), n := intOf (g "evN"), sealed_ := boolOf (g "evSealed"), has := boolOf (g "evHas") },
    nodeAddr := (Bytes.parse (g "nodeAddr")).getD [],
    addrOf := fun pub => if pub = p.servicer then servicerAddr else if pub = tok.appPub then appAddr
                         else (hexDecode pub).bind fun b => if b.length = 32 then some b else none,
    requestHashOf := fun _ => strOf (g "reqHashReal"),
    tokenHash := fun _ => [0], proofHash := fun _ => [1],
    verify := fun _ msg _ => if msg = [0] then appSigOK else clientSigOK,
    sessionCache := (let c := g "cached"; if c = "-" || c = "" then none else if c = "~" then some [] else some ((c.splitOn ",").map fun a => Bytes.parse a)),
    sessionGen := session,
    sessionEndCtxOk := g "label" ≠ "session-end-ctx-missing" }
  { E, r, sbhArg, app, appStakedNow := boolOf (g "appStakedNow"), appStaked := g "appStatus" = "2" && !boolOf (g "appJailed"),
    appSigOK, clientSigOK, label := g "label", canonIn := g "canonIn" }

def resStr : Res → String
  | .ok m => s!"OK {m}"
  | .fail (.err sp c) => s!"ERR {sp}:{c}"
  | .fail .panic => "PANIC"
  | .fail .fatal => "FATAL"

/-- The executable specification: the implementation said "serve"; every condition of the
property must hold of the inputs (computed from the oracle data, not from the model). -/
def specServed (c : Case) (handle : Bool) : Option Verdict :=
  let p := c.r.proof
  let E := c.E
  let fail (sig : String) := some (Verdict.propfail sig s!"label={c.label}")
  if !c.appSigOK then fail "served-with-bad-token-signature"
  else match c.app with
  | none => fail "served-for-unknown-application"
  | some app =>
    -- the session (node selection, cache key, evidence key) is a function of the header's key
    -- TEXT: only the canonical spelling of the staked application's key names its session
    if p.token.appPub ≠ app.pubRaw then
      some (Verdict.propfail "served-noncanonical-app-key" s!"label={c.label} servicerInCanonicalSession={c.canonIn}")
    else if !c.clientSigOK then fail "served-with-bad-client-signature"
    else if p.requestHash ≠ E.requestHashOf c.r then fail "served-with-wrong-request-hash"
    else if E.addrOf p.servicer ≠ some E.nodeAddr then fail "served-for-other-servicer-key"
    else if !(match E.session with | .ok ns => ns.contains (some E.nodeAddr) | _ => false) then fail "served-by-non-session-servicer"
    else if !app.chains.contains p.chain then fail "served-chain-not-of-application"
    else if !E.hosted.contains p.chain then fail "served-chain-not-hosted"
    else if E.height + E.blockAllowance < c.r.metaHeight ∨ E.height - E.blockAllowance > c.r.metaHeight then fail "served-out-of-sync-block-height"
    else if p.sbh < 1 ∨ p.sbh ≠ c.sbhArg then fail "served-wrong-session-height"
    else if handle && !withinTolerance E p.sbh then fail "served-session-height-out-of-tolerance"
    else if E.evidence.sealed_ then fail "served-after-seal"
    else if E.evidence.has then fail "served-duplicate-proof"
    else if handle && (p.sbh - 1) % E.bps ≠ 0 then fail "served-session-height-not-a-session-start"
    else if !c.appStaked then fail "served-for-non-staked-application"
    else none

def step (_ : Unit) (pre post : List String) : Unit × Verdict :=
  let v : Verdict :=
    match pre with
    | "validate" :: ws =>
      let c := mkCase (kvs ws)
      let m := resStr (validate c.E c.r c.sbhArg)
      let i := " ".intercalate post
      -- a panic is legitimate only for ledger states that cannot exist (division by zero: an
      -- application without chains, a session node count of zero)
      let degenerate := match c.app with
        | some app => app.chains.isEmpty || c.E.nodeCount c.sbhArg = 0
        | none => false
      if i = "FATAL" then .propfail "relay-validation-kills-node" s!"label={c.label} (log.Fatalf in GetTotalProofs: allowance rounds to 0 and no evidence yet)"
      else if i = "PANIC" && !degenerate then .propfail "relay-validation-panics" s!"label={c.label}"
      else if post.head? = some "OK" then
        match specServed c false with
        | some v => v
        | none => if m = i then .ok else .diff s!"model={m} impl={i} label={c.label}"
      else if m = i then .ok else .diff s!"model={m} impl={i} label={c.label}"
    | "handle" :: ws =>
      let c := mkCase (kvs ws)
      let m := handleRelay c.E c.r
      let i := " ".intercalate post
      match post with
      | "OK" :: rest =>
        let rm := kvs rest
        match specServed c true with
        | some v => v
        | none =>
          if look rm "sig" ≠ "true" then .propfail "response-signature-invalid" s!"label={c.label}"
          else if look rm "stored" ≠ "true" then .propfail "served-relay-not-recorded" s!"label={c.label}"
          else if intOf (look rm "evN") ≠ (if c.E.evidence.found then c.E.evidence.n else 0) + 1 then .propfail "evidence-count-wrong" s!"label={c.label} {i}"
          else match m with
            | .ok _ => .ok
            | m => .diff s!"model={resStr m} impl={i} label={c.label}"
      | _ => if resStr m = i then .ok else .diff s!"model={resStr m} impl={i} label={c.label}"
    | _ => .bad "op"
  ((), v)

def main : IO Unit := Proto.run () step
