import PocketModel.Basic.Proto
import PocketModel.Ledger.Determinism
/-! Driver for C12 (see harness/cmd/c12).

* `norm <key:share,…> => invalid | <addr:share,… in the order returned>` — real
  `NormalizeRewardDelegators` vs `Determinism.normalizeSorted` (the model is run on the entries in
  canonical key order; by `C12.normalize_sorted_indep` the order it is fed does not matter).
* `split <rewards> <primary> <key:share,…> => error | <addr:amount,… in callback order>` — real
  `SplitNodeRewards` vs `Determinism.splitNodeRewardsSorted`: recipients, amounts AND order.
* `run <rep> blk <h> <kinds> wall=<w> => apphash codes dataDigest valUpdates stateDigest rawDigest` —
  repeat executions of one history in fresh processes: every run must equal run 0 (the property
  itself).  PROPFAIL signature by history kind; for `delegators`/`genesismaps` histories the model
  additionally predicts that *contents* (state and raw digests) agree even when the app hash does not
  (`split_perm_balances`) — a content difference is reported under its own signature.
-/
open Determinism

structure St where
  kind : String := ""
  ref : List (String × List String) := []   -- run 0: height ↦ result words
  reported : List String := []               -- repeat ids already reported in this history
  leavers : List String := []                -- public keys of the validators that leave the staked set together
  valReported : Bool := false

def isHex (c : Char) : Bool := c.isDigit || ('a' ≤ c && c ≤ 'f') || ('A' ≤ c && c ≤ 'F')

/-- `sdk.AddressFromHex`: empty string is accepted as the empty address; otherwise 20 hex-encoded bytes. -/
def parseAddr (k : String) : Option String :=
  if k.isEmpty then some "" else if k.length = 40 && k.toList.all isHex then some k.toLower else none

def parseDels (s : String) : Option (List (Option String × Nat)) :=
  if s = "-" then some [] else
  (s.splitOn ",").mapM fun e => match e.splitOn ":" with
    | [k, sh] => sh.toNat?.map fun n => (parseAddr k, n)
    | _ => none

def renderInOrder (l : List (String × String)) : String :=
  if l.isEmpty then "-" else ",".intercalate (l.map fun p => s!"{p.1}:{p.2}")

/-- `bytes.Compare(a, b) <= 0` on addresses = string order of their lower-case hex form -/
def addrLe (a b : String) : Bool := decide (a ≤ b)

def sigOfKind (kind : String) : String :=
  if kind = "delegators" then "delegators-order-apphash"
  else if kind = "genesismaps" then "genesis-map-order-apphash"
  else if kind = "unjail" then "wallclock-dependence"
  else if kind = "unstakequeue" then "unstake-queue-order-apphash"
  else "generic-nondeterminism"

/-- Order-independent spec on a single run (`UpdateTendermintValidators`): the EndBlock validator updates
of a block name every validator at most once, and when validators leave the staked set together each
of them is there exactly once with power 0. -/
def valsetVerdict (st : St) (pre post : List String) : Option (St × Verdict) :=
  match pre, post with
  | ["run", rep, "blk", h, _, _], [_, _, _, vu, _, _] =>
    if st.valReported || vu = "-" then none else
    let ups := (vu.splitOn ",").map fun e => match e.splitOn ":" with
      | [k, p] => (k, p)
      | _ => (e, "?")
    let keys := ups.map (·.1)
    let dup := keys.filter fun k => (keys.filter (· = k)).length > 1
    let leaving := st.leavers.filter fun k => ups.any (fun u => u.1 = k && u.2 = "0")
    let missing := if leaving.isEmpty then [] else st.leavers.filter fun k => !(ups.any (fun u => u.1 = k && u.2 = "0"))
    if dup.isEmpty && missing.isEmpty then none
    else some ({ st with valReported := true }, .propfail "valset-update-duplicate-or-missing"
      s!"block {h} run {rep}: validator updates {vu}: duplicated {dup.eraseDups.map (·.take 8)}, leaving validators without their power-0 update {missing.map (·.take 8)}")
  | _, _ => none

def stepCore (st : St) (pre post : List String) : St × Verdict :=
  match pre with
  | ["norm", ds] =>
    match parseDels ds with
    | none => (st, .bad "delegators")
    | some es =>
      let m := match normalizeSorted addrLe es with
        | none => "invalid"
        | some n => renderInOrder (n.map fun e => (e.1, toString e.2))
      (st, if [m] = post then .ok else .diff s!"normalize: model {m} impl {post}")
  | ["split", r, primary, ds] =>
    match r.toInt?, parseDels ds with
    | some rewards, some es =>
      let m := match splitNodeRewardsSorted addrLe rewards primary es with
        | none => "error"
        | some ps => renderInOrder (ps.map fun e => (e.1, toString e.2))
      -- executable spec on the implementation's own answer: nothing is created or lost
      let conserve : Bool := match post with
        | ["error"] => true
        | [res] =>
          if res = "-" then false else
          let tot := (res.splitOn ",").foldl (fun acc e => acc + ((e.splitOn ":").getD 1 "0").toInt?.getD 0) (0 : Int)
          tot = rewards
        | _ => false
      if !conserve then (st, .propfail "split-not-conserving" s!"rewards={r} primary={primary} delegators={ds} impl={post}")
      else (st, if [m] = post then .ok else .diff s!"split: model {m} impl {post}")
    | _, _ => (st, .bad "split args")
  | "hist" :: _ :: kind :: rest =>
    let lv := match rest.find? (·.startsWith "leavers=") with
      | some w => let v := (w.drop 8).toString; if v = "-" then [] else v.splitOn ","
      | none => []
    ({ st with kind := kind, ref := [], reported := [], leavers := lv, valReported := false }, .ok)
  | ["crash", _, rep] => (st, .propfail (sigOfKind st.kind) s!"run {rep} crashed or hung: {" ".intercalate (post.take 30)}")
  | ["run", rep, "blk", h, kinds, wall] =>
    if post.length ≠ 6 then (st, .bad "blk arity") else
    if rep = "0" then ({ st with ref := (h, wall :: post) :: st.ref }, .ok)
    else match st.ref.find? (·.1 = h) with
      | none => (st, .bad s!"no reference block {h}")
      | some (_, rwall :: r) =>
        if r = post || st.reported.contains rep then (st, .ok)
        else
          let st' := { st with reported := rep :: st.reported }
          let contentsSame := r.drop 4 = post.drop 4
          let codesSame := (r.drop 1).take 3 = (post.drop 1).take 3
          let what := if !codesSame then "DeliverTx results" else if !contentsSame then "state contents" else "app hash only (same contents)"
          let detail := s!"block {h} ({kinds}) run {rep} (wall {wall}) vs run 0 (wall {rwall}): {what} differ: codes {(r.drop 1).take 1} / {(post.drop 1).take 1}, app hash {(r.take 1)} / {(post.take 1)}"
          if (st.kind = "delegators" || st.kind = "genesismaps" || st.kind = "unstakequeue") && (!contentsSame || !codesSame) then
            (st', .propfail "map-order-changes-contents" detail)
          else (st', .propfail (sigOfKind st.kind) detail)
      | some _ => (st, .bad "reference")
  | ["end", _] => (st, .ok)
  | _ => (st, .bad "op")

def step (st : St) (pre post : List String) : St × Verdict :=
  match valsetVerdict st pre post with
  | some (st', v) => ((stepCore st' pre post).1, v)   -- keep the run bookkeeping, report the single-run violation first
  | none => stepCore st pre post

def main : IO Unit := Proto.run ({} : St) step
