import PocketModel.Ledger.BankProto
/-! Driver for C18: signed `MsgSend` transactions through the real DeliverTx.  The fee (C15's subject)
is removed first: the ante handler either charged `fee` from the signer to the fee collector, or
aborted and charged nothing.  What remains must be the exact transfer or nothing. -/
open Ledger Ledger.BankProto

structure St where
  feeColl : Addr := []

/-- The ante handler's fee deduction (x/auth/ante.go `DeductFees`): the signer must have an account
holding the fee; then `SendCoinsFromAccountToModule(signer, fee_collector, fee)`. -/
def deductFee (b : Bank) (fc : Addr) (src : Addr) (fee : Int) : Option Bank :=
  match b.accts.get src with
  | none => none
  | some a =>
    if a.bal < fee then none
    else
      let o := Bank.sendCoins b src fc fee
      if o.err.isSome then none else some o.st

/-- All entries except the listed addresses agree (and no entry appeared or vanished elsewhere). -/
def othersSame (pre post : Accounts) (skip : List Addr) : Bool :=
  (post.all fun p => skip.contains p.1 || pre.get p.1 == some p.2) &&
  (pre.all fun p => skip.contains p.1 || post.get p.1 == some p.2)

def step (s : St) (pre post : List String) : St × Verdict :=
  match pre with
  | ["init", mods] =>
    match parseMods mods, parseBank post with
    | some mt, some b =>
      let fc := match mt.find "fee_collector" with
        | some m => m.addr
        | none => []
      ({ feeColl := fc }, (invVerdict b "genesis").getD .ok)
    | _, _ => (s, .bad "init")
  | ["send", f, t, a, fe] =>
    match Bytes.parse f, Bytes.parse t, a.toInt?, fe.toInt?, post with
    | some src, some dst, some amt, some fee, [code, _cs, s1, a1, s2, a2] =>
      match parseBank [s1, a1], parseBank [s2, a2] with
      | some b0, some b1 =>
        let line := s!"send {f} {t} {a} fee={fe} code={code}"
        let fc := s.feeColl
        -- the invariants on the implementation's own post state
        match invVerdict b1 line with
        | some v => (s, v)
        | none =>
          -- third parties: everything but sender, recipient and the fee collector
          if !othersSame b0.accts b1.accts [src, dst, fc] then
            (s, .propfail "third-party-balance-changed" line)
          else if b1.supply ≠ b0.supply then (s, .propfail "supply-moved-without-mint-burn" line)
          else
            -- remove the fee: which of the two ante outcomes explains the fee collector's balance?
            let charged := b1.balOf fc - b0.balOf fc - (if code = "0" && dst = fc && src ≠ dst then amt else 0)
            let feeBase : Option Bank :=
              if src = fc then some b0   -- degenerate: the fee collector pays itself
              else if charged = fee then deductFee b0 fc src fee
              else if charged = 0 then some b0
              else none
            match feeBase with
            | none => (s, .propfail "send-amount-inexact" s!"{line}: fee collector moved by {charged}")
            | some base =>
              let specOk : Bool :=
                if code = "0" then
                  -- exact debit and credit relative to the state after the fee
                  if src = dst then b1.balOf src = base.balOf src
                  else b1.balOf src = base.balOf src - amt && b1.balOf dst = base.balOf dst + amt
                else
                  b1.balOf src = base.balOf src && b1.balOf dst = base.balOf dst
              if !specOk then
                if code = "0" then (s, .propfail "send-amount-inexact" line)
                else (s, .propfail "send-failed-but-moved" line)
              else if code = "0" && (amt ≤ 0 || base.balOf src < amt) then
                (s, .propfail "send-amount-inexact" s!"{line}: accepted without cover")
              else
                -- model: ante fee, then ValidateBasic + handler
                let (mst, mok) : Bank × Bool :=
                  -- ValidateBasic runs before the ante handler: a malformed message pays no fee
                  if amt ≤ 0 then (b0, false)
                  else match deductFee b0 fc src fee with
                    | none => (b0, false)
                    | some b' =>
                      let o := Bank.msgSend b' src dst amt
                      (o.st, o.err.isNone)
                if mok ≠ (code = "0") then (s, .diff s!"{line}: model ok={mok}")
                else if mst.supply ≠ b1.supply || !sameAccts b1.accts mst.accts then
                  (s, .diff s!"{line}: {firstDiff b1.accts mst.accts}")
                else (s, .ok)
      | _, _ => (s, .bad "bank")
    | _, _, _, _, _ => (s, .bad "send")
  | _ => (s, .bad "line")

def main : IO Unit := Proto.run ({} : St) step
