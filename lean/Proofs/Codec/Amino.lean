import PocketModel.Codec.Amino
/-! Round-trip lemmas for the amino primitives (all `uint64` / `int64` values). -/
namespace Amino

theorem decodeUvarintAux_encode (fuel : Nat) : ∀ (x i acc : Nat) (rest : Bytes), i + fuel = 9 → x * 128 ^ i < 2 ^ 64 →
    decodeUvarintAux i acc (encodeUvarintFuel fuel x ++ rest) = some (acc + x * 128 ^ i, rest) := by
  induction fuel with
  | zero =>
    intro x i acc rest hi hx
    have h9 : i = 9 := by omega
    subst h9
    have hx2 : x < 2 := by simp at hx; omega
    have hb : (UInt8.ofNat x).toNat = x := by simp; omega
    simp only [encodeUvarintFuel, List.cons_append, List.nil_append, decodeUvarintAux, hb]
    have h128 : x < 128 := by omega
    rw [if_neg (by omega), if_pos h128, if_neg (by omega)]
  | succ fuel ih =>
    intro x i acc rest hi hx
    have h10 : i ≠ 10 := by omega
    have h9 : i ≠ 9 := by omega
    rw [encodeUvarintFuel]
    by_cases h : x < 128
    · rw [if_pos h]
      have hb : (UInt8.ofNat x).toNat = x := by simp; omega
      simp only [List.cons_append, List.nil_append, decodeUvarintAux, hb]
      rw [if_neg h10, if_pos h, if_neg (by omega)]
    · rw [if_neg h]
      have hb : (UInt8.ofNat (x % 128 + 128)).toNat = x % 128 + 128 := by simp; omega
      simp only [List.cons_append, decodeUvarintAux, hb]
      rw [if_neg h10, if_neg (by omega)]
      have hpow : 128 ^ (i + 1) = 128 * 128 ^ i := by rw [Nat.pow_succ, Nat.mul_comm]
      have hle : x / 128 * 128 ^ (i + 1) ≤ x * 128 ^ i := by
        rw [hpow, ← Nat.mul_assoc]
        exact Nat.mul_le_mul_right _ (Nat.div_mul_le_self x 128)
      rw [ih (x / 128) (i + 1) _ rest (by omega) (by omega)]
      congr 2
      have hdm : x % 128 + 128 * (x / 128) = x := Nat.mod_add_div x 128
      have e1 : x % 128 + 128 - 128 = x % 128 := by omega
      rw [e1, hpow, Nat.add_assoc, ← Nat.mul_assoc, ← Nat.add_mul, Nat.mul_comm (x / 128) 128, hdm]

/-- `DecodeUvarint (EncodeUvarint x ++ rest) = (x, rest)` for every `uint64`. -/
theorem uvarint_roundtrip (x : Nat) (hx : x < 2 ^ 64) (rest : Bytes) :
    decodeUvarint (encodeUvarint x ++ rest) = some (x, rest) := by
  have := decodeUvarintAux_encode 9 x 0 0 rest (by omega) (by simpa using hx)
  simpa [decodeUvarint, encodeUvarint] using this

theorem zigzag_lt (i : Int) (h : isInt64 i) : zigzag i < 2 ^ 64 := by
  unfold isInt64 at h; unfold zigzag
  split <;> omega

theorem unzigzag_zigzag (i : Int) : unzigzag (zigzag i) = i := by
  unfold zigzag unzigzag
  split <;> split <;> omega

/-- `DecodeVarint (EncodeVarint i ++ rest) = (i, rest)` for every `int64`. -/
theorem varint_roundtrip (i : Int) (h : isInt64 i) (rest : Bytes) :
    decodeVarint (encodeVarint i ++ rest) = some (i, rest) := by
  simp [decodeVarint, encodeVarint, uvarint_roundtrip _ (zigzag_lt i h), unzigzag_zigzag]

theorem int8_roundtrip (i : Int) (h : isInt8 i) (rest : Bytes) :
    decodeInt8 (encodeInt8 i ++ rest) = some (i, rest) := by
  have h64 : isInt64 i := by unfold isInt8 at h; unfold isInt64; omega
  unfold isInt8 at h
  simp [decodeInt8, encodeInt8, varint_roundtrip i h64]
  omega

/-- `DecodeByteSlice (EncodeByteSlice b ++ rest) = (b, rest)` for every slice shorter than 2^63. -/
theorem byteslice_roundtrip (b : Bytes) (hb : b.length < 2 ^ 63) (rest : Bytes) :
    decodeByteSlice (encodeByteSlice b ++ rest) = some (b, rest) := by
  unfold decodeByteSlice encodeByteSlice
  rw [List.append_assoc, uvarint_roundtrip _ (by omega)]
  simp only
  rw [if_neg (by omega), if_neg (by simp)]
  simp

end Amino
