import Proofs.Codec.WireRoundtrip
/-! Main nested induction for `wire_roundtrip`. -/
namespace Wire

theorem wfFields_append (a b : List FSpec) : wfFields (a ++ b) = (wfFields a && wfFields b) := by
  induction a with
  | nil => simp [wfFields]
  | cons f fs ih => simp [wfFields, ih, Bool.and_assoc]

theorem serToks_single_len (num : Nat) (b : Bytes) : b.length ≤ (serToks [⟨num, .len b⟩]).length :=
  len_le_serToks [⟨num, .len b⟩] ⟨num, .len b⟩ (by simp) b rfl

/-- decoding one embedded-message payload that an encoder wrote -/
theorem tokenize_payload (sub : List FSpec) (vs : List Value) (hw : wfFields sub = true)
    (hs : (serToks (encFields sub vs)).length < two63) :
    tokenize (serToks (encFields sub vs)) = some (encFields sub vs) :=
  tokenize_serToks _ (encFields_ok sub vs hw hs)

theorem tokenize_nil : tokenize [] = some [] := by simp [tokenize, tokenizeAux]

theorem pick_norm (k : BytesKind) (always : Bool) (ob : Option Bytes)
    (hc : ¬ (k.toWire ob = [] ∧ always = false)) : k.pick [k.toWire ob] = k.norm always ob := by
  cases k <;> cases always <;> cases ob with
  | none => simp_all [BytesKind.pick, BytesKind.norm, BytesKind.toWire, lastD]
  | some b => cases b <;> simp_all [BytesKind.pick, BytesKind.norm, BytesKind.toWire, lastD]

theorem pick_nil_norm (k : BytesKind) (always : Bool) (ob : Option Bytes)
    (hc : k.toWire ob = [] ∧ always = false) : k.pick [] = k.norm always ob := by
  obtain ⟨h1, h2⟩ := hc
  subst h2
  cases k <;> cases ob with
  | none => simp_all [BytesKind.pick, BytesKind.norm, BytesKind.toWire, lastD]
  | some b => cases b <;> simp_all [BytesKind.pick, BytesKind.norm, BytesKind.toWire, lastD]

theorem pick_nil_zero (k : BytesKind) : k.pick [] = k.zero := by
  cases k <;> simp [BytesKind.pick, BytesKind.zero, lastD]

/-- The per-element decoder of a repeated message field. -/
def decElem (sub : List FSpec) (b : Bytes) : Option Value :=
  match tokenize b with
  | none => none
  | some ts => match decFields sub ts with
               | none => none
               | some vs => some (Value.msg (some vs))

end Wire
