import PocketModel.Codec.Json
import Proofs.Basic.Bytes
/-!
# Facts about the JSON canonicalisation model (`PocketModel/Codec/Json.lean`)

* `insertKV`/`sortKVs` produce strictly key-sorted member lists (`insertKV_sorted`, `sortKVs_sorted`);
* last duplicate wins (`lookup_sortKVs`);
* `sortKVs` does not depend on the member order when keys are distinct (`sortKVs_perm`);
* `sortJSON` (hence the rendered sign bytes) is invariant under recursive reordering of object
  members (`PermEq`, `sortJSON_perm_invariant`, `signbytes_canonical`), idempotent (`sortJSON_idem`),
  and the sign doc's five members may come in any order (`signBytes_field_order_irrelevant`).
-/
namespace Json

/-! ## `beq` decides equality -/

mutual
theorem beq_iff : (a b : Json) → (beq a b = true ↔ a = b)
  | .null, b => by cases b <;> simp [beq]
  | .bool x, b => by cases b <;> simp [beq]
  | .num x, b => by cases b <;> simp [beq]
  | .str x, b => by cases b <;> simp [beq]
  | .arr xs, b => by cases b <;> simp [beq, beqList_iff xs]
  | .obj xs, b => by cases b <;> simp [beq, beqMembers_iff xs]
theorem beqList_iff : (xs ys : List Json) → (beqList xs ys = true ↔ xs = ys)
  | [], ys => by cases ys <;> simp [beqList]
  | x :: xs, ys => by cases ys <;> simp [beqList, beq_iff x, beqList_iff xs]
theorem beqMembers_iff :
    (xs ys : List (Bytes × Json)) → (beqMembers xs ys = true ↔ xs = ys)
  | [], ys => by cases ys <;> simp [beqMembers]
  | (k, x) :: xs, ys => by
    cases ys with
    | nil => simp [beqMembers]
    | cons y ys =>
      obtain ⟨l, y⟩ := y
      simp [beqMembers, beq_iff x, beqMembers_iff xs, and_assoc]
end

/-- Decidable equality of documents, computed by `Json.beq`. -/
instance : DecidableEq Json := fun a b => decidable_of_iff _ (beq_iff a b)

/-- Member list strictly ascending by key (bytewise). -/
abbrev KeySorted (l : List (Bytes × Json)) : Prop := l.Pairwise (fun a b => a.1 < b.1)

/-! ## `insertKV`, `sortKVs`: sortedness -/

theorem mem_insertKV {k : Bytes} {v : Json} {l : List (Bytes × Json)} {p : Bytes × Json}
    (h : p ∈ insertKV k v l) : p = (k, v) ∨ p ∈ l := by
  induction l with
  | nil => simp [insertKV] at h; exact Or.inl h
  | cons hd tl ih =>
    obtain ⟨k', v'⟩ := hd
    simp only [insertKV] at h
    by_cases hlt : k < k'
    · rw [if_pos hlt] at h
      exact List.mem_cons.mp h
    · rw [if_neg hlt] at h
      by_cases heq : k = k'
      · rw [if_pos heq] at h
        rcases List.mem_cons.mp h with h | h
        · exact Or.inl h
        · exact Or.inr (List.mem_cons_of_mem _ h)
      · rw [if_neg heq] at h
        rcases List.mem_cons.mp h with h | h
        · exact Or.inr (h ▸ List.mem_cons_self)
        · rcases ih h with h | h
          · exact Or.inl h
          · exact Or.inr (List.mem_cons_of_mem _ h)

/-- Inserting into a strictly sorted member list keeps it strictly sorted. -/
theorem insertKV_sorted (k : Bytes) (v : Json) {l : List (Bytes × Json)} (h : KeySorted l) :
    KeySorted (insertKV k v l) := by
  induction l with
  | nil => simp [insertKV, KeySorted]
  | cons hd tl ih =>
    obtain ⟨k', v'⟩ := hd
    have ⟨h1, h2⟩ := List.pairwise_cons.mp h
    simp only [insertKV]
    by_cases hlt : k < k'
    · rw [if_pos hlt]
      refine List.pairwise_cons.mpr ⟨fun p hp => ?_, h⟩
      rcases List.mem_cons.mp hp with rfl | hp
      · exact hlt
      · exact Bytes.lt_trans hlt (h1 p hp)
    · rw [if_neg hlt]
      by_cases heq : k = k'
      · rw [if_pos heq]
        subst heq
        exact List.pairwise_cons.mpr ⟨h1, h2⟩
      · rw [if_neg heq]
        have hgt : k' < k := by
          rcases Bytes.lt_tri k k' with h | h | h
          · exact absurd h hlt
          · exact absurd h heq
          · exact h
        refine List.pairwise_cons.mpr ⟨fun p hp => ?_, ih h2⟩
        rcases mem_insertKV hp with rfl | hp
        · exact hgt
        · exact h1 p hp

theorem foldl_insertKV_sorted (kvs acc : List (Bytes × Json)) (h : KeySorted acc) :
    KeySorted (kvs.foldl (fun acc kv => insertKV kv.1 kv.2 acc) acc) := by
  induction kvs generalizing acc with
  | nil => exact h
  | cons kv rest ih => exact ih _ (insertKV_sorted _ _ h)

/-- The member list produced by `sortKVs` is strictly sorted by key, for every input. -/
theorem sortKVs_sorted (kvs : List (Bytes × Json)) : KeySorted (sortKVs kvs) :=
  foldl_insertKV_sorted kvs [] List.Pairwise.nil

theorem KeySorted.nodup_keys {l : List (Bytes × Json)} (h : KeySorted l) :
    (l.map (·.1)).Nodup := by
  rw [List.Nodup, List.pairwise_map]
  exact h.imp (fun h => Bytes.ne_of_lt h)

/-! ## Lookup: last one wins -/

/-- Value of the FIRST member with key `k` (on a sorted list: the only one). -/
def lookup (k : Bytes) : List (Bytes × Json) → Option Json
  | [] => none
  | (k', v) :: rest => if k = k' then some v else lookup k rest

/-- Value of the LAST member with key `k` in input order (what a Go map holds after assigning the
members in order). -/
def lookupLast (k : Bytes) : List (Bytes × Json) → Option Json
  | [] => none
  | (k', v) :: rest =>
    match lookupLast k rest with
    | some w => some w
    | none => if k = k' then some v else none

theorem lookup_insertKV (k k' : Bytes) (v : Json) (l : List (Bytes × Json)) :
    lookup k (insertKV k' v l) = if k = k' then some v else lookup k l := by
  induction l with
  | nil => simp [insertKV, lookup]
  | cons hd tl ih =>
    obtain ⟨k'', v''⟩ := hd
    simp only [insertKV]
    by_cases hlt : k' < k''
    · rw [if_pos hlt]; simp [lookup]
    · rw [if_neg hlt]
      by_cases heq : k' = k''
      · rw [if_pos heq]
        subst heq
        by_cases hk : k = k' <;> simp [lookup, hk]
      · rw [if_neg heq]
        simp only [lookup, ih]
        by_cases hk : k = k''
        · simp [hk]
          intro e; exact absurd e.symm heq
        · simp [hk]

theorem lookup_foldl_insertKV (k : Bytes) (kvs acc : List (Bytes × Json)) :
    lookup k (kvs.foldl (fun acc kv => insertKV kv.1 kv.2 acc) acc) =
      match lookupLast k kvs with
      | some w => some w
      | none => lookup k acc := by
  induction kvs generalizing acc with
  | nil => simp [lookupLast]
  | cons kv rest ih =>
    obtain ⟨k', v⟩ := kv
    simp only [List.foldl_cons, ih, lookupLast, lookup_insertKV]
    cases lookupLast k rest with
    | some w => rfl
    | none => by_cases hk : k = k' <;> simp [hk]

/-- Last-one-wins: looking a key up in `sortKVs kvs` gives the value of the last member of `kvs`
with that key (the Go map semantics of `json.Unmarshal` for duplicate keys). -/
theorem lookup_sortKVs (k : Bytes) (kvs : List (Bytes × Json)) :
    lookup k (sortKVs kvs) = lookupLast k kvs := by
  rw [sortKVs, lookup_foldl_insertKV]
  cases lookupLast k kvs <;> simp [lookup]

theorem lookup_eq_none {k : Bytes} {l : List (Bytes × Json)} (h : ∀ p ∈ l, p.1 ≠ k) :
    lookup k l = none := by
  induction l with
  | nil => rfl
  | cons hd tl ih =>
    obtain ⟨k', v⟩ := hd
    have h1 : k ≠ k' := fun e => h (k', v) List.mem_cons_self e.symm
    simp only [lookup, if_neg h1]
    exact ih (fun p hp => h p (List.mem_cons_of_mem _ hp))

/-- Two strictly sorted member lists with the same lookup function are equal. -/
theorem keySorted_ext {l1 l2 : List (Bytes × Json)} (h1 : KeySorted l1) (h2 : KeySorted l2)
    (h : ∀ k, lookup k l1 = lookup k l2) : l1 = l2 := by
  induction l1 generalizing l2 with
  | nil =>
    cases l2 with
    | nil => rfl
    | cons hd tl => obtain ⟨k, v⟩ := hd; have := h k; simp [lookup] at this
  | cons hd1 tl1 ih =>
    obtain ⟨k1, v1⟩ := hd1
    cases l2 with
    | nil => have := h k1; simp [lookup] at this
    | cons hd2 tl2 =>
      obtain ⟨k2, v2⟩ := hd2
      have ⟨a1, s1⟩ := List.pairwise_cons.mp h1
      have ⟨a2, s2⟩ := List.pairwise_cons.mp h2
      have n1 : lookup k1 tl1 = none :=
        lookup_eq_none (fun p hp e => Bytes.lt_irrefl k1 (by have := a1 p hp; rwa [e] at this))
      have n2 : lookup k2 tl2 = none :=
        lookup_eq_none (fun p hp e => Bytes.lt_irrefl k2 (by have := a2 p hp; rwa [e] at this))
      rcases Bytes.lt_tri k1 k2 with hlt | heq | hgt
      · exfalso
        have hk := h k1
        have : lookup k1 tl2 = none :=
          lookup_eq_none (fun p hp e =>
            Bytes.lt_asymm hlt (by have := a2 p hp; rwa [e] at this))
        simp [lookup, Bytes.ne_of_lt hlt, this] at hk
      · subst heq
        have hv := h k1
        simp [lookup] at hv
        subst hv
        congr 1
        apply ih s1 s2
        intro k
        by_cases hk : k = k1
        · subst hk; rw [n1, n2]
        · have := h k
          simpa [lookup, hk] using this
      · exfalso
        have hk := h k2
        have : lookup k2 tl1 = none :=
          lookup_eq_none (fun p hp e =>
            Bytes.lt_asymm hgt (by have := a1 p hp; rwa [e] at this))
        simp [lookup, (Bytes.ne_of_lt hgt), this] at hk

/-! ## Independence of the member order -/

theorem lookupLast_eq_none {k : Bytes} {l : List (Bytes × Json)} (h : k ∉ l.map (·.1)) :
    lookupLast k l = none := by
  induction l with
  | nil => rfl
  | cons hd tl ih =>
    obtain ⟨k', v⟩ := hd
    simp only [List.map_cons, List.mem_cons, not_or] at h
    simp only [lookupLast, ih h.2, if_neg h.1]

theorem lookupLast_eq_some_iff {k : Bytes} {v : Json} {l : List (Bytes × Json)}
    (hn : (l.map (·.1)).Nodup) : lookupLast k l = some v ↔ (k, v) ∈ l := by
  induction l with
  | nil => simp [lookupLast]
  | cons hd tl ih =>
    obtain ⟨k', v'⟩ := hd
    simp only [List.map_cons, List.nodup_cons] at hn
    have ih := ih hn.2
    simp only [lookupLast, List.mem_cons, Prod.mk.injEq]
    constructor
    · intro h
      cases hl : lookupLast k tl with
      | some w =>
        rw [hl] at h
        exact Or.inr (ih.mp (by rw [hl]; exact h))
      | none =>
        rw [hl] at h
        by_cases hk : k = k'
        · simp [hk] at h; exact Or.inl ⟨hk, h.symm⟩
        · simp [hk] at h
    · rintro (⟨rfl, rfl⟩ | h)
      · rw [lookupLast_eq_none hn.1]; simp
      · rw [ih.mpr h]

theorem lookupLast_eq_lookup {k : Bytes} {l : List (Bytes × Json)} (hn : (l.map (·.1)).Nodup) :
    lookupLast k l = lookup k l := by
  induction l with
  | nil => rfl
  | cons hd tl ih =>
    obtain ⟨k', v'⟩ := hd
    simp only [List.map_cons, List.nodup_cons] at hn
    simp only [lookupLast, lookup, ih hn.2]
    by_cases hk : k = k'
    · subst hk
      rw [← ih hn.2, lookupLast_eq_none hn.1]
    · simp only [if_neg hk]
      cases lookup k tl <;> rfl

/-- With pairwise distinct keys the result of `sortKVs` does not depend on the member order. -/
theorem sortKVs_perm {kvs₁ kvs₂ : List (Bytes × Json)} (hp : kvs₁.Perm kvs₂)
    (hn : (kvs₁.map (·.1)).Nodup) : sortKVs kvs₁ = sortKVs kvs₂ := by
  apply keySorted_ext (sortKVs_sorted _) (sortKVs_sorted _)
  intro k
  rw [lookup_sortKVs, lookup_sortKVs]
  have hn2 : (kvs₂.map (·.1)).Nodup := (hp.map _).nodup_iff.mp hn
  apply Option.ext
  intro v
  rw [lookupLast_eq_some_iff hn, lookupLast_eq_some_iff hn2]
  exact hp.mem_iff

/-- A strictly sorted member list is a fixed point of `sortKVs`. -/
theorem sortKVs_of_sorted {l : List (Bytes × Json)} (h : KeySorted l) : sortKVs l = l := by
  apply keySorted_ext (sortKVs_sorted _) h
  intro k
  rw [lookup_sortKVs, lookupLast_eq_lookup h.nodup_keys]

/-! ## `sortJSON` as maps -/

theorem sortList_eq_map (xs : List Json) : sortList xs = xs.map sortJSON := by
  induction xs with
  | nil => rfl
  | cons x xs ih => simp [sortList, ih]

theorem sortMembers_eq_map (kvs : List (Bytes × Json)) :
    sortMembers kvs = kvs.map (fun kv => (kv.1, sortJSON kv.2)) := by
  induction kvs with
  | nil => rfl
  | cons kv kvs ih => obtain ⟨k, v⟩ := kv; simp [sortMembers, ih]

theorem sortMembers_keys (kvs : List (Bytes × Json)) :
    (sortMembers kvs).map (·.1) = kvs.map (·.1) := by
  rw [sortMembers_eq_map, List.map_map]; rfl

theorem insertKV_mapVal (f : Json → Json) (k : Bytes) (v : Json) (l : List (Bytes × Json)) :
    (insertKV k v l).map (fun kv => (kv.1, f kv.2)) =
      insertKV k (f v) (l.map (fun kv => (kv.1, f kv.2))) := by
  induction l with
  | nil => rfl
  | cons hd tl ih =>
    obtain ⟨k', v'⟩ := hd
    simp only [insertKV, List.map_cons]
    by_cases hlt : k < k'
    · simp [hlt]
    · by_cases heq : k = k'
      · subst heq; simp [Bytes.lt_irrefl]
      · simp [hlt, heq, ih]

theorem foldl_insertKV_mapVal (f : Json → Json) (kvs acc : List (Bytes × Json)) :
    (kvs.foldl (fun acc kv => insertKV kv.1 kv.2 acc) acc).map (fun kv => (kv.1, f kv.2)) =
      (kvs.map (fun kv => (kv.1, f kv.2))).foldl (fun acc kv => insertKV kv.1 kv.2 acc)
        (acc.map (fun kv => (kv.1, f kv.2))) := by
  induction kvs generalizing acc with
  | nil => rfl
  | cons kv rest ih => simp only [List.foldl_cons, List.map_cons, ih, insertKV_mapVal]

/-- Mapping the values commutes with `sortKVs` (keys are untouched). -/
theorem sortKVs_mapVal (f : Json → Json) (kvs : List (Bytes × Json)) :
    (sortKVs kvs).map (fun kv => (kv.1, f kv.2)) = sortKVs (kvs.map (fun kv => (kv.1, f kv.2))) := by
  simp only [sortKVs, foldl_insertKV_mapVal, List.map_nil]

theorem sortMembers_sortKVs (kvs : List (Bytes × Json)) :
    sortMembers (sortKVs kvs) = sortKVs (sortMembers kvs) := by
  rw [sortMembers_eq_map, sortMembers_eq_map, sortKVs_mapVal]

/-! ## Equality up to the order of object members -/

/-- Two lists related elementwise (Mathlib's `Forall₂`, which core Lean does not have). -/
inductive Forall₂ {α β : Type} (R : α → β → Prop) : List α → List β → Prop
  | nil : Forall₂ R [] []
  | cons {a : α} {b : β} {as : List α} {bs : List β} :
      R a b → Forall₂ R as bs → Forall₂ R (a :: as) (b :: bs)

mutual
/-- "Same content up to the order of object members, recursively": atoms equal, arrays elementwise,
objects: the left key list has no duplicates and some permutation of the right member list matches
the left one member by member (equal keys, `PermEq` values).  See `permEq_arr_iff`/`permEq_obj_iff`
for the `Forall₂` reading. -/
inductive PermEq : Json → Json → Prop
  | null : PermEq .null .null
  | bool (b : Bool) : PermEq (.bool b) (.bool b)
  | num (n : Int) : PermEq (.num n) (.num n)
  | str (s : Bytes) : PermEq (.str s) (.str s)
  | arr {xs ys : List Json} : PermEqList xs ys → PermEq (.arr xs) (.arr ys)
  | obj {kvs₁ kvs₂ kvs₂' : List (Bytes × Json)} :
      (kvs₁.map (·.1)).Nodup → kvs₂.Perm kvs₂' → PermEqMembers kvs₁ kvs₂' →
      PermEq (.obj kvs₁) (.obj kvs₂)
/-- `Forall₂ PermEq`. -/
inductive PermEqList : List Json → List Json → Prop
  | nil : PermEqList [] []
  | cons {x y : Json} {xs ys : List Json} :
      PermEq x y → PermEqList xs ys → PermEqList (x :: xs) (y :: ys)
/-- `Forall₂ (fun a b => a.1 = b.1 ∧ PermEq a.2 b.2)`. -/
inductive PermEqMembers : List (Bytes × Json) → List (Bytes × Json) → Prop
  | nil : PermEqMembers [] []
  | cons {k : Bytes} {v w : Json} {xs ys : List (Bytes × Json)} :
      PermEq v w → PermEqMembers xs ys → PermEqMembers ((k, v) :: xs) ((k, w) :: ys)
end

theorem permEqList_iff {xs ys : List Json} : PermEqList xs ys ↔ Forall₂ PermEq xs ys := by
  constructor
  · intro h
    induction xs generalizing ys with
    | nil => cases h; exact .nil
    | cons x xs ih => cases h with | cons h1 h2 => exact .cons h1 (ih h2)
  · intro h
    induction h with
    | nil => exact .nil
    | cons h1 _ ih => exact .cons h1 ih

theorem permEqMembers_iff {xs ys : List (Bytes × Json)} :
    PermEqMembers xs ys ↔ Forall₂ (fun a b => a.1 = b.1 ∧ PermEq a.2 b.2) xs ys := by
  constructor
  · intro h
    induction xs generalizing ys with
    | nil => cases h; exact .nil
    | cons x xs ih => cases h with | cons h1 h2 => exact .cons ⟨rfl, h1⟩ (ih h2)
  · intro h
    induction h with
    | nil => exact .nil
    | @cons a b _ _ h1 _ ih =>
      obtain ⟨k, v⟩ := a
      obtain ⟨k', w⟩ := b
      obtain ⟨rfl, hv⟩ := h1
      exact .cons hv ih

/-- Arrays: elementwise. -/
theorem permEq_arr_iff {xs ys : List Json} :
    PermEq (.arr xs) (.arr ys) ↔ Forall₂ PermEq xs ys := by
  rw [← permEqList_iff]
  exact ⟨fun h => by cases h; assumption, .arr⟩

/-- Objects: distinct keys on the left, and a permutation of the right members matching the left
ones with equal keys and `PermEq` values. -/
theorem permEq_obj_iff {kvs₁ kvs₂ : List (Bytes × Json)} :
    PermEq (.obj kvs₁) (.obj kvs₂) ↔
      (kvs₁.map (·.1)).Nodup ∧ ∃ kvs₂', kvs₂.Perm kvs₂' ∧
        Forall₂ (fun a b => a.1 = b.1 ∧ PermEq a.2 b.2) kvs₁ kvs₂' := by
  constructor
  · intro h
    cases h with
    | obj hn hp hm => exact ⟨hn, _, hp, permEqMembers_iff.mp hm⟩
  · rintro ⟨hn, kvs₂', hp, hm⟩
    exact .obj hn hp (permEqMembers_iff.mpr hm)

/-- `sortJSON` identifies documents that differ only in the order of object members. -/
theorem sortJSON_perm_invariant {a b : Json} (h : PermEq a b) : sortJSON a = sortJSON b := by
  refine PermEq.rec
    (motive_1 := fun a b _ => sortJSON a = sortJSON b)
    (motive_2 := fun xs ys _ => sortList xs = sortList ys)
    (motive_3 := fun xs ys _ => sortMembers xs = sortMembers ys)
    rfl (fun _ => rfl) (fun _ => rfl) (fun _ => rfl) ?arr ?obj rfl ?consL rfl ?consM h
  case arr =>
    intro xs ys _ ih
    simp only [sortJSON, ih]
  case obj =>
    intro kvs₁ kvs₂ kvs₂' hn hp _ ih
    simp only [sortJSON]
    congr 1
    have hp' : (sortMembers kvs₂').Perm (sortMembers kvs₂) := by
      rw [sortMembers_eq_map, sortMembers_eq_map]; exact (hp.map _).symm
    rw [ih]
    exact sortKVs_perm hp' (by rw [← ih, sortMembers_keys]; exact hn)
  case consL =>
    intro x y xs ys _ _ ih1 ih2
    simp only [sortList, ih1, ih2]
  case consM =>
    intro k v w xs ys _ _ ih1 ih2
    simp only [sortMembers, ih1, ih2]

/-- The canonical bytes of documents that differ only in the order of object members coincide. -/
theorem signbytes_canonical {a b : Json} (h : PermEq a b) :
    render (sortJSON a) = render (sortJSON b) := by
  rw [sortJSON_perm_invariant h]

/-! ## Idempotence -/

mutual
/-- `SortJSON` is idempotent on trees. -/
theorem sortJSON_idem : (a : Json) → sortJSON (sortJSON a) = sortJSON a
  | .null => rfl
  | .bool _ => rfl
  | .num _ => rfl
  | .str _ => rfl
  | .arr xs => by simp only [sortJSON, sortList_idem xs]
  | .obj kvs => by
    simp only [sortJSON]
    rw [sortMembers_sortKVs, sortMembers_idem kvs, sortKVs_of_sorted (sortKVs_sorted _)]
theorem sortList_idem : (xs : List Json) → sortList (sortList xs) = sortList xs
  | [] => rfl
  | x :: xs => by simp only [sortList, sortJSON_idem x, sortList_idem xs]
theorem sortMembers_idem :
    (kvs : List (Bytes × Json)) → sortMembers (sortMembers kvs) = sortMembers kvs
  | [] => rfl
  | (k, v) :: rest => by simp only [sortMembers, sortJSON_idem v, sortMembers_idem rest]
end

/-! ## The output is sorted at every level, and sorted documents are fixed points -/

mutual
/-- Every object of the document, at any depth, has strictly ascending keys. -/
def DeepSorted : Json → Prop
  | .arr xs => DeepSortedList xs
  | .obj kvs => KeySorted kvs ∧ DeepSortedMembers kvs
  | .null => True
  | .bool _ => True
  | .num _ => True
  | .str _ => True
/-- `DeepSorted` for every element. -/
def DeepSortedList : List Json → Prop
  | [] => True
  | x :: xs => DeepSorted x ∧ DeepSortedList xs
/-- `DeepSorted` for every member value. -/
def DeepSortedMembers : List (Bytes × Json) → Prop
  | [] => True
  | (_, v) :: rest => DeepSorted v ∧ DeepSortedMembers rest
end

theorem deepSortedMembers_iff {l : List (Bytes × Json)} :
    DeepSortedMembers l ↔ ∀ p ∈ l, DeepSorted p.2 := by
  induction l with
  | nil => simp [DeepSortedMembers]
  | cons hd tl ih => obtain ⟨k, v⟩ := hd; simp [DeepSortedMembers, ih]

theorem mem_foldl_insertKV {kvs acc : List (Bytes × Json)} {p : Bytes × Json}
    (h : p ∈ kvs.foldl (fun acc kv => insertKV kv.1 kv.2 acc) acc) : p ∈ acc ∨ p ∈ kvs := by
  induction kvs generalizing acc with
  | nil => exact Or.inl h
  | cons kv rest ih =>
    rcases ih h with h | h
    · rcases mem_insertKV h with h | h
      · exact Or.inr (h ▸ List.mem_cons_self)
      · exact Or.inl h
    · exact Or.inr (List.mem_cons_of_mem _ h)

/-- `sortKVs` only selects members of its input. -/
theorem mem_sortKVs {kvs : List (Bytes × Json)} {p : Bytes × Json} (h : p ∈ sortKVs kvs) :
    p ∈ kvs := by
  rcases mem_foldl_insertKV h with h | h
  · cases h
  · exact h

mutual
/-- The canonical form has strictly ascending keys in every object, at every depth. -/
theorem sortJSON_deepSorted : (a : Json) → DeepSorted (sortJSON a)
  | .null => trivial
  | .bool _ => trivial
  | .num _ => trivial
  | .str _ => trivial
  | .arr xs => by simp only [sortJSON, DeepSorted]; exact sortList_deepSorted xs
  | .obj kvs => by
    simp only [sortJSON, DeepSorted]
    refine ⟨sortKVs_sorted _, deepSortedMembers_iff.mpr fun p hp => ?_⟩
    exact deepSortedMembers_iff.mp (sortMembers_deepSorted kvs) p (mem_sortKVs hp)
theorem sortList_deepSorted : (xs : List Json) → DeepSortedList (sortList xs)
  | [] => trivial
  | x :: xs => by
    simp only [sortList, DeepSortedList]; exact ⟨sortJSON_deepSorted x, sortList_deepSorted xs⟩
theorem sortMembers_deepSorted :
    (kvs : List (Bytes × Json)) → DeepSortedMembers (sortMembers kvs)
  | [] => trivial
  | (k, v) :: rest => by
    simp only [sortMembers, DeepSortedMembers]
    exact ⟨sortJSON_deepSorted v, sortMembers_deepSorted rest⟩
end

mutual
/-- A document whose objects all have strictly ascending keys is its own canonical form. -/
theorem sortJSON_of_deepSorted : (a : Json) → DeepSorted a → sortJSON a = a
  | .null, _ => rfl
  | .bool _, _ => rfl
  | .num _, _ => rfl
  | .str _, _ => rfl
  | .arr xs, h => by
    simp only [DeepSorted] at h
    simp only [sortJSON, sortList_of_deepSorted xs h]
  | .obj kvs, h => by
    simp only [DeepSorted] at h
    simp only [sortJSON, sortMembers_of_deepSorted kvs h.2, sortKVs_of_sorted h.1]
theorem sortList_of_deepSorted : (xs : List Json) → DeepSortedList xs → sortList xs = xs
  | [], _ => rfl
  | x :: xs, h => by
    simp only [DeepSortedList] at h
    simp only [sortList, sortJSON_of_deepSorted x h.1, sortList_of_deepSorted xs h.2]
theorem sortMembers_of_deepSorted :
    (kvs : List (Bytes × Json)) → DeepSortedMembers kvs → sortMembers kvs = kvs
  | [], _ => rfl
  | (k, v) :: rest, h => by
    simp only [DeepSortedMembers] at h
    simp only [sortMembers, sortJSON_of_deepSorted v h.1, sortMembers_of_deepSorted rest h.2]
end

/-- The fixed points of `sortJSON` are exactly the documents sorted at every level. -/
theorem sortJSON_eq_self_iff (a : Json) : sortJSON a = a ↔ DeepSorted a :=
  ⟨fun h => h ▸ sortJSON_deepSorted a, sortJSON_of_deepSorted a⟩

/-! ## The sign doc -/

theorem signDoc_keys (chainId : Bytes) (entropy : Int) (fee msg : Json) (memo : Bytes) :
    (signDocMembers chainId entropy fee msg memo).map (·.1) =
      [ascii "chain_id", ascii "fee", ascii "memo", ascii "msg", ascii "entropy"] := rfl

/-- The five json keys of `StdSignDoc` are pairwise distinct. -/
theorem signDoc_keys_nodup (chainId : Bytes) (entropy : Int) (fee msg : Json) (memo : Bytes) :
    ((signDocMembers chainId entropy fee msg memo).map (·.1)).Nodup := by
  rw [signDoc_keys]; decide

/-- The canonical form of the sign doc, explicitly: keys in bytewise order
`chain_id < entropy < fee < memo < msg`, `fee` and `msg` canonicalised recursively. -/
theorem sortJSON_signDoc (chainId : Bytes) (entropy : Int) (fee msg : Json) (memo : Bytes) :
    sortJSON (signDoc chainId entropy fee msg memo) =
      .obj [(ascii "chain_id", .str chainId), (ascii "entropy", .str (intDigits entropy)),
            (ascii "fee", sortJSON fee), (ascii "memo", .str memo), (ascii "msg", sortJSON msg)] := by
  have h1 : ¬ ascii "fee" < ascii "chain_id" := by decide
  have h2 : ascii "fee" ≠ ascii "chain_id" := by decide
  have h3 : ¬ ascii "memo" < ascii "chain_id" := by decide
  have h4 : ascii "memo" ≠ ascii "chain_id" := by decide
  have h5 : ¬ ascii "memo" < ascii "fee" := by decide
  have h6 : ascii "memo" ≠ ascii "fee" := by decide
  have h7 : ¬ ascii "msg" < ascii "chain_id" := by decide
  have h8 : ascii "msg" ≠ ascii "chain_id" := by decide
  have h9 : ¬ ascii "msg" < ascii "fee" := by decide
  have h10 : ascii "msg" ≠ ascii "fee" := by decide
  have h11 : ¬ ascii "msg" < ascii "memo" := by decide
  have h12 : ascii "msg" ≠ ascii "memo" := by decide
  have h13 : ¬ ascii "entropy" < ascii "chain_id" := by decide
  have h14 : ascii "entropy" ≠ ascii "chain_id" := by decide
  have h15 : ascii "entropy" < ascii "fee" := by decide
  simp only [signDoc, signDocMembers, sortJSON, sortMembers, sortKVs, List.foldl_cons, List.foldl_nil,
    insertKV, h1, h2, h3, h4, h5, h6, h7, h8, h9, h10, h11, h12, h13, h14, h15, if_true, if_false]

/-- Any permutation of the five members of the sign doc yields the same sign bytes: the struct-field
order chosen by the amino-JSON encoder is irrelevant. -/
theorem signBytes_field_order_irrelevant (chainId : Bytes) (entropy : Int) (fee msg : Json)
    (memo : Bytes) (members : List (Bytes × Json))
    (h : members.Perm (signDocMembers chainId entropy fee msg memo)) :
    render (sortJSON (.obj members)) = signBytes chainId entropy fee msg memo := by
  simp only [signBytes, signDoc, sortJSON]
  have hp : (sortMembers (signDocMembers chainId entropy fee msg memo)).Perm (sortMembers members) := by
    rw [sortMembers_eq_map, sortMembers_eq_map]; exact (h.map _).symm
  rw [sortKVs_perm hp (by rw [sortMembers_keys]; exact signDoc_keys_nodup ..)]

/-! ## Non-vacuity: concrete instances of every statement above -/

/-- `{"b":[{"y":1,"x":2}],"a":null}` -/
def exA : Json :=
  .obj [(ascii "b", .arr [.obj [(ascii "y", .num 1), (ascii "x", .num 2)]]), (ascii "a", .null)]
/-- `{"a":null,"b":[{"x":2,"y":1}]}`: `exA` with the members of both objects reordered. -/
def exB : Json :=
  .obj [(ascii "a", .null), (ascii "b", .arr [.obj [(ascii "x", .num 2), (ascii "y", .num 1)]])]

-- `insertKV_sorted`, `sortKVs_sorted`: insertion in the middle / duplicate keys, unsorted input
example : KeySorted (insertKV [2] .null [([1], .null), ([3], .null)]) :=
  insertKV_sorted _ _ (by decide)
example : insertKV [2] .null [([1], .null), ([3], .null)] =
    [([1], .null), ([2], .null), ([3], .null)] := by decide
example : insertKV [3] (.num 7) [([1], .null), ([3], .null)] = [([1], .null), ([3], .num 7)] := by
  decide
example : sortKVs [([3], .num 1), ([1], .num 2), ([3], .num 3), ([2], .null)] =
    [([1], .num 2), ([2], .null), ([3], .num 3)] := by decide
-- `lookup_sortKVs`: the last of the two members with key `[3]` wins
example : lookupLast [3] [([3], .num 1), ([1], .num 2), ([3], .num 3), ([2], .null)] =
    some (.num 3) := by decide
example : lookup [3] (sortKVs [([3], .num 1), ([1], .num 2), ([3], .num 3), ([2], .null)]) =
    some (.num 3) := by decide
-- `sortKVs_perm`: a non-trivial permutation with distinct keys …
example : sortKVs [([3], .num 1), ([1], .num 2), ([2], .null)] =
    sortKVs [([2], .null), ([3], .num 1), ([1], .num 2)] :=
  sortKVs_perm (by decide) (by decide)
-- … and the `Nodup` hypothesis cannot be dropped: with a duplicate key the order matters
example : [([1], Json.num 1), ([1], .num 2)].Perm [([1], .num 2), ([1], .num 1)] ∧
    sortKVs [([1], .num 1), ([1], .num 2)] ≠ sortKVs [([1], .num 2), ([1], .num 1)] := by decide

-- `sortJSON_perm_invariant` / `signbytes_canonical`: nested objects in different member order
example : exA ≠ exB := by decide
theorem exA_permEq_exB : PermEq exA exB :=
  .obj (kvs₂' := [(ascii "b", .arr [.obj [(ascii "x", .num 2), (ascii "y", .num 1)]]),
                  (ascii "a", .null)])
    (by decide) (List.Perm.swap _ _ _)
    (.cons (.arr (.cons
      (.obj (kvs₂' := [(ascii "y", .num 1), (ascii "x", .num 2)]) (by decide) (List.Perm.swap _ _ _)
        (.cons (.num 1) (.cons (.num 2) .nil))) .nil))
      (.cons .null .nil))
example : sortJSON exA = sortJSON exB := sortJSON_perm_invariant exA_permEq_exB
example : render (sortJSON exA) = render (sortJSON exB) := signbytes_canonical exA_permEq_exB
example : render (sortJSON exA) = ascii "{\"a\":null,\"b\":[{\"x\":2,\"y\":1}]}" := by decide
example : render exA ≠ render exB := by decide
-- `sortJSON_idem` on a document that is not yet canonical
example : sortJSON exA ≠ exA ∧ sortJSON (sortJSON exA) = sortJSON exA := by decide
-- the decoder and the executable spec on the same documents
example : parse (ascii " {\"b\" : [ {\"y\":1, \"x\":2} ],\n \"a\":null} ") = some exA := by
  decide +kernel
example : isCanonical (ascii "{\"a\":null,\"b\":[{\"x\":2,\"y\":1}]}") = true := by decide +kernel
example : isCanonical (ascii "{\"b\":[{\"y\":1,\"x\":2}],\"a\":null}") = false := by decide +kernel

/-- A sign doc: a send message with a fee, memo `<memo>` (HTML-escaped by Go), entropy `-12`. -/
def exFee : Json :=
  .arr [.obj [(ascii "denom", .str (ascii "upokt")), (ascii "amount", .str (ascii "10000"))]]
/-- The message part of the example sign doc (members deliberately not in key order). -/
def exMsg : Json :=
  .obj [(ascii "type", .str (ascii "pos/Send")),
        (ascii "value", .obj [(ascii "to_address", .str (ascii "ab")),
                              (ascii "from_address", .str (ascii "cd")),
                              (ascii "amount", .str (ascii "1"))])]

example : signBytes (ascii "testnet") (-12) exFee exMsg (ascii "<memo>") =
    ascii ("{\"chain_id\":\"testnet\",\"entropy\":\"-12\"," ++
      "\"fee\":[{\"amount\":\"10000\",\"denom\":\"upokt\"}],\"memo\":\"\\u003cmemo\\u003e\"," ++
      "\"msg\":{\"type\":\"pos/Send\",\"value\":{\"amount\":\"1\",\"from_address\":\"cd\"," ++
      "\"to_address\":\"ab\"}}}") := by decide +kernel

-- `signBytes_field_order_irrelevant`: the members in reverse struct order
example : render (sortJSON (.obj
      [(ascii "entropy", .str (intDigits (-12))), (ascii "msg", exMsg),
       (ascii "memo", .str (ascii "<memo>")), (ascii "fee", exFee),
       (ascii "chain_id", .str (ascii "testnet"))])) =
    signBytes (ascii "testnet") (-12) exFee exMsg (ascii "<memo>") :=
  signBytes_field_order_irrelevant _ _ _ _ _ _ (by decide +kernel)

end Json
