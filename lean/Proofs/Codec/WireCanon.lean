import Proofs.Codec.WireMalleable
/-! The encoder's image is canonical: `encode (normalize v) = encode v` for well-shaped values. -/
namespace Wire

mutual
/-- The value has the constructor its field spec expects, at every depth (what the harness' dump of a
Go value always satisfies). -/
def shapedField : FSpec → Value → Bool
  | .int _ _ _, v => match v with | .int _ => true | _ => false
  | .bytes _ _ _, v => match v with | .bytes _ => true | _ => false
  | .msg _ nullable sub, v =>
    match v with
    | .msg (some vs) => shapedFields sub vs
    | .msg none => nullable
    | _ => false
  | .repBytes _ _, v =>
    match v with
    | .rep none => true
    | .rep (some vs) => vs.all fun e => match e with | .bytes _ => true | _ => false
    | _ => false
  | .repMsg _ sub, v =>
    match v with
    | .rep none => true
    | .rep (some vs) => vs.all fun e => match e with | .msg (some fs) => shapedFields sub fs | _ => false
    | _ => false
  | .oneof alts, v =>
    match v with
    | .one none => true
    | .one (some (n, v')) => shapedAlts alts n v'
    | _ => false
def shapedFields : List FSpec → List Value → Bool
  | [], [] => true
  | f :: fs, v :: vs => shapedField f v && shapedFields fs vs
  | _, _ => false
def shapedAlts : List (Nat × List FSpec) → Nat → Value → Bool
  | [], _, _ => false
  | (k, sub) :: rest, n, v =>
    if k = n then
      match v with
      | .msg (some fs) => shapedFields sub fs
      | _ => false
    else shapedAlts rest n v
end

theorem toWire_norm (k : BytesKind) (always : Bool) (ob : Option Bytes) :
    k.toWire (k.norm always ob) = k.toWire ob := by
  cases k <;> cases always <;> cases ob with
  | none => simp [BytesKind.toWire, BytesKind.norm]
  | some b => cases b <;> simp [BytesKind.toWire, BytesKind.norm]

theorem toWire_toWire (k : BytesKind) (ob : Option Bytes) : k.toWire (some (k.toWire ob)) = k.toWire ob := by
  cases k <;> cases ob with
  | none => simp [BytesKind.toWire]
  | some b => cases b <;> simp [BytesKind.toWire]

mutual
theorem encField_norm : ∀ (f : FSpec) (v : Value), shapedField f v = true →
    encField f (normField f v) = encField f v
  | .int num k always, v, h => by
    cases v with
    | int n => simp [encField, normField, IntKind.trunc_idem]
    | bytes _ => simp [shapedField] at h
    | msg _ => simp [shapedField] at h
    | rep _ => simp [shapedField] at h
    | one _ => simp [shapedField] at h
  | .bytes num k always, v, h => by
    cases v with
    | bytes ob => simp [encField, normField, toWire_norm]
    | int _ => simp [shapedField] at h
    | msg _ => simp [shapedField] at h
    | rep _ => simp [shapedField] at h
    | one _ => simp [shapedField] at h
  | .msg num nullable sub, v, h => by
    cases v with
    | msg m =>
      cases m with
      | some vs =>
        simp only [shapedField] at h
        simp [encField, normField, encFields_norm sub vs h]
      | none =>
        simp only [shapedField] at h
        subst h
        simp [encField, normField]
    | int _ => simp [shapedField] at h
    | bytes _ => simp [shapedField] at h
    | rep _ => simp [shapedField] at h
    | one _ => simp [shapedField] at h
  | .repBytes num k, v, h => by
    cases v with
    | rep l =>
      cases l with
      | none => simp [encField, normField]
      | some vs =>
        cases vs with
        | nil => simp [encField, normField]
        | cons x xs =>
          simp only [shapedField, List.all_eq_true] at h
          simp only [encField, normField, List.map_map]
          apply List.map_congr_left
          intro e he
          have hs := h e he
          cases e with
          | bytes ob => simp [repBytesTok, normRepBytes, toWire_toWire]
          | int _ => simp at hs
          | msg _ => simp at hs
          | rep _ => simp at hs
          | one _ => simp at hs
    | int _ => simp [shapedField] at h
    | bytes _ => simp [shapedField] at h
    | msg _ => simp [shapedField] at h
    | one _ => simp [shapedField] at h
  | .repMsg num sub, v, h => by
    cases v with
    | rep l =>
      cases l with
      | none => simp [encField, normField]
      | some vs =>
        cases vs with
        | nil => simp [encField, normField]
        | cons x xs =>
          simp only [shapedField, List.all_eq_true] at h
          simp only [encField, normField, List.map_map]
          apply List.map_congr_left
          intro e he
          have hs := h e he
          cases e with
          | msg m =>
            cases m with
            | some fs =>
              simp only at hs
              simp [encFields_norm sub fs hs]
            | none => simp at hs
          | int _ => simp at hs
          | bytes _ => simp at hs
          | rep _ => simp at hs
          | one _ => simp at hs
    | int _ => simp [shapedField] at h
    | bytes _ => simp [shapedField] at h
    | msg _ => simp [shapedField] at h
    | one _ => simp [shapedField] at h
  | .oneof alts, v, h => by
    cases v with
    | one sel =>
      cases sel with
      | none => simp [encField, normField]
      | some p =>
        obtain ⟨n, v'⟩ := p
        simp only [shapedField] at h
        simp only [encField, normField]
        exact encAlts_norm alts n v' h
    | int _ => simp [shapedField] at h
    | bytes _ => simp [shapedField] at h
    | msg _ => simp [shapedField] at h
    | rep _ => simp [shapedField] at h
theorem encFields_norm : ∀ (fs : List FSpec) (vs : List Value), shapedFields fs vs = true →
    encFields fs (normFields fs vs) = encFields fs vs
  | [], [], _ => by simp [encFields, normFields]
  | [], _ :: _, h => by simp [shapedFields] at h
  | _ :: _, [], h => by simp [shapedFields] at h
  | f :: fs, v :: vs, h => by
    simp only [shapedFields, Bool.and_eq_true] at h
    simp [encFields, normFields, encField_norm f v h.1, encFields_norm fs vs h.2]
theorem encAlts_norm : ∀ (alts : List (Nat × List FSpec)) (n : Nat) (v : Value), shapedAlts alts n v = true →
    encField (.oneof alts) (.one (normAlts alts n v)) = encAlts alts n v
  | [], _, _, h => by simp [shapedAlts] at h
  | (k, sub) :: rest, n, v, h => by
    by_cases hk : k = n
    · subst hk
      cases v with
      | msg m =>
        cases m with
        | some fs =>
          simp only [shapedAlts, if_true] at h
          simp [encField, encAlts, normAlts, encFields_norm sub fs h]
        | none => simp [shapedAlts] at h
      | int _ => simp [shapedAlts] at h
      | bytes _ => simp [shapedAlts] at h
      | rep _ => simp [shapedAlts] at h
      | one _ => simp [shapedAlts] at h
    · simp only [shapedAlts, if_neg hk] at h
      have ih := encAlts_norm rest n v h
      -- the selected member keeps its number, so the head alternative is skipped again
      cases hn : normAlts rest n v with
      | none =>
        rw [hn] at ih
        simp only [normAlts, if_neg hk, hn, encAlts]
        simpa [encField] using ih
      | some p =>
        obtain ⟨m, w⟩ := p
        rw [hn] at ih
        have hm : m = n := by
          -- `normAlts` returns the number it was asked for
          have : ∀ (as : List (Nat × List FSpec)), normAlts as n v = some (m, w) → m = n := by
            intro as
            induction as with
            | nil => intro h'; simp [normAlts] at h'
            | cons a as ih' =>
              obtain ⟨k', sub'⟩ := a
              intro h'
              unfold normAlts at h'
              by_cases hk' : k' = n
              · rw [if_pos hk'] at h'
                cases v with
                | msg mm => cases mm with
                  | some fs => simp at h'; exact h'.1 ▸ hk' ▸ rfl
                  | none => simp at h'
                | int _ => simp at h'
                | bytes _ => simp at h'
                | rep _ => simp at h'
                | one _ => simp at h'
              · rw [if_neg hk'] at h'; exact ih' h'
          exact this rest hn
        subst hm
        simp only [normAlts, if_neg hk, hn, encAlts]
        simp only [encField] at ih ⊢
        simp only [encAlts, if_neg hk]
        exact ih
end

/-- What a well-formed, well-shaped value encodes to is canonical. -/
theorem encode_is_canonical (s : Schema) (vs : List Value) (hw : wfSchema s = true)
    (hsh : shapedFields s vs = true) (hs : (encodeMsg s vs).length < two63) :
    Canonical s (encodeMsg s vs) := by
  refine ⟨normFields s vs, ?_, ?_⟩
  · simp only [wfSchema, Bool.and_eq_true, decide_eq_true_eq] at hw
    have hs' : (serToks (encFields s vs)).length < two63 := by simpa [encodeMsg] using hs
    have htok := tokenize_payload s vs hw.1 hs'
    have hrec := rt_fields_gen s [] [] vs rfl (by simpa using hw.1) (by simpa using hw.2) (by simpa using hs')
    simp only [List.nil_append] at hrec
    simp only [decodeMsg, encodeMsg, htok, hrec]
  · simp only [encodeMsg, encFields_norm s vs hsh]

end Wire
