import PocketModel.Codec.Wire
/-! Varint, zig-zag and length-prefix lemmas for `PocketModel/Codec/Wire.lean`. -/
namespace Wire

theorem u8_toNat_ofNat_lt {n : Nat} (h : n < 256) : (UInt8.ofNat n).toNat = n := by
  simp [UInt8.toNat_ofNat, Nat.mod_eq_of_lt h]

/-- Decoding what `encVarintAux` wrote, from any accumulator state. -/
theorem decVarintAux_enc (f : Nat) : ∀ (n shift acc : Nat) (rest : Bytes), n < 128 ^ (f + 1) →
    decVarintAux (f + 1) shift acc (encVarintAux (f + 1) n ++ rest) = some ((acc + n * 2 ^ shift) % two64, rest) := by
  induction f with
  | zero =>
    intro n shift acc rest h
    have hn : n < 128 := by simpa using h
    have h256 : n < 256 := by omega
    simp [encVarintAux, hn, decVarintAux, u8_toNat_ofNat_lt h256, Nat.mod_eq_of_lt hn]
  | succ f ih =>
    intro n shift acc rest h
    by_cases hn : n < 128
    · have h256 : n < 256 := by omega
      simp [encVarintAux, hn, decVarintAux, u8_toNat_ofNat_lt h256, Nat.mod_eq_of_lt hn]
    · have hb : n % 128 + 128 < 256 := by omega
      have hq : n / 128 < 128 ^ (f + 1) := by
        have : 128 ^ (f + 1 + 1) = 128 * 128 ^ (f + 1) := by rw [Nat.pow_succ, Nat.mul_comm]
        rw [this] at h
        exact Nat.div_lt_of_lt_mul h
      have hge : ¬ (n % 128 + 128 < 128) := by omega
      have hm : (n % 128 + 128) % 128 = n % 128 := by omega
      rw [encVarintAux, if_neg hn]
      simp only [List.cons_append, decVarintAux, u8_toNat_ofNat_lt hb, hge, if_false, hm]
      rw [ih (n / 128) (shift + 7) _ rest hq]
      congr 1
      have hp : 2 ^ (shift + 7) = 2 ^ shift * 128 := by rw [Nat.pow_add]
      rw [hp]
      have hsplit : n * 2 ^ shift = (n % 128) * 2 ^ shift + 128 * ((n / 128) * 2 ^ shift) := by
        have := Nat.div_add_mod n 128
        calc n * 2 ^ shift = (128 * (n / 128) + n % 128) * 2 ^ shift := by rw [this]
          _ = (n % 128) * 2 ^ shift + 128 * ((n / 128) * 2 ^ shift) := by
            rw [Nat.add_mul, Nat.mul_assoc, Nat.add_comm]
      have h2 : n / 128 * (2 ^ shift * 128) = 128 * ((n / 128) * 2 ^ shift) := by
        rw [← Nat.mul_assoc, Nat.mul_comm]
      rw [hsplit, h2]
      generalize (n % 128) * 2 ^ shift = a
      generalize (n / 128) * 2 ^ shift = b
      simp only [two64]
      congr 1
      omega

theorem decodeVarint_encodeVarint (n : Nat) (h : n < two64) (rest : Bytes) :
    decodeVarint (encodeVarint n ++ rest) = some (n, rest) := by
  have h' : n < 128 ^ (9 + 1) := by simp only [two64] at h; omega
  have := decVarintAux_enc 9 n 0 0 rest h'
  simp only [decodeVarint, encodeVarint]
  rw [this]
  simp [Nat.mod_eq_of_lt h]

theorem encVarintAux_length_pos (f n : Nat) : 0 < (encVarintAux (f + 1) n).length := by
  unfold encVarintAux
  split <;> simp

theorem encodeVarint_ne_nil (n : Nat) : encodeVarint n ≠ [] := by
  intro h
  have := encVarintAux_length_pos 9 n
  simp [encodeVarint] at h
  simp [h] at this

theorem encVarintAux_length_le (f : Nat) : ∀ n, (encVarintAux f n).length ≤ f := by
  induction f with
  | zero => intro n; simp [encVarintAux]
  | succ f ih =>
    intro n
    unfold encVarintAux
    split
    · simp
    · simp; exact ih _

theorem encodeVarint_length_le (n : Nat) : (encodeVarint n).length ≤ 10 := encVarintAux_length_le 10 n

/-- Zig-zag is a bijection between `Int` and `Nat`. -/
theorem unzigzag_zigzag (i : Int) : unzigzag (zigzag i) = i := by
  unfold zigzag unzigzag
  by_cases h : 0 ≤ i
  · simp only [h, if_true]
    have : (2 * i).toNat % 2 = 0 := by omega
    simp only [this, if_true]
    omega
  · simp only [h, if_false]
    have : (-2 * i - 1).toNat % 2 = 1 := by omega
    have h1 : ¬ ((-2 * i - 1).toNat % 2 = 0) := by omega
    simp only [h1, if_false]
    omega

theorem zigzag_unzigzag (n : Nat) : zigzag (unzigzag n) = n := by
  unfold zigzag unzigzag
  by_cases h : n % 2 = 0
  · simp only [h, if_true]
    have : (0 : Int) ≤ ((n / 2 : Nat) : Int) := by omega
    simp only [this, if_true]
    omega
  · simp only [h, if_false]
    have : ¬ ((0 : Int) ≤ -((n / 2 : Nat) : Int) - 1) := by omega
    simp only [this, if_false]
    omega

/-- `binary.Uvarint` on `binary.PutUvarint` output (any position `i` of the loop). -/
theorem uvarintAux_enc (k : Nat) : ∀ (i s x n : Nat) (rest : Bytes), i + (k + 1) = 10 → n < 2 * 128 ^ k →
    uvarintAux i s x (encVarintAux (k + 1) n ++ rest) = .ok (x + n * 2 ^ s) (i + (encVarintAux (k + 1) n).length) := by
  induction k with
  | zero =>
    intro i s x n rest hi hn
    have hn2 : n < 2 := by simpa using hn
    have hlt : n < 128 := by omega
    have h256 : n < 256 := by omega
    have hi9 : i = 9 := by omega
    subst hi9
    simp [encVarintAux, hlt, uvarintAux, u8_toNat_ofNat_lt h256]
    omega
  | succ k ih =>
    intro i s x n rest hi hn
    have hi10 : i ≠ 10 := by omega
    have hi9 : i ≠ 9 := by omega
    by_cases hlt : n < 128
    · have h256 : n < 256 := by omega
      simp [encVarintAux, hlt, uvarintAux, u8_toNat_ofNat_lt h256, hi10, hi9]
    · have hb : n % 128 + 128 < 256 := by omega
      have hge : ¬ (n % 128 + 128 < 128) := by omega
      have hm : (n % 128 + 128) % 128 = n % 128 := by omega
      have hq : n / 128 < 2 * 128 ^ k := by
        have : 2 * 128 ^ (k + 1) = 128 * (2 * 128 ^ k) := by rw [Nat.pow_succ]; ac_rfl
        rw [this] at hn
        exact Nat.div_lt_of_lt_mul hn
      rw [encVarintAux, if_neg hlt]
      simp only [List.cons_append, uvarintAux, hi10, if_false, u8_toNat_ofNat_lt hb, hge, hm, List.length_cons]
      rw [ih (i + 1) (s + 7) _ (n / 128) rest (by omega) hq]
      have hp : 2 ^ (s + 7) = 2 ^ s * 128 := by rw [Nat.pow_add]
      have hsplit : n * 2 ^ s = (n % 128) * 2 ^ s + (n / 128) * (2 ^ s * 128) := by
        have := Nat.div_add_mod n 128
        calc n * 2 ^ s = (128 * (n / 128) + n % 128) * 2 ^ s := by rw [this]
          _ = (n % 128) * 2 ^ s + (n / 128) * (2 ^ s * 128) := by
            rw [Nat.add_mul, Nat.add_comm]; congr 1; rw [Nat.mul_comm 128, Nat.mul_assoc, Nat.mul_comm 128]
      rw [hp, hsplit]
      congr 1
      · omega
      · omega

theorem uvarintStd_encodeVarint (n : Nat) (h : n < two64) (rest : Bytes) :
    uvarintStd (encodeVarint n ++ rest) = .ok n (encodeVarint n).length := by
  have h' : n < 2 * 128 ^ 9 := by simp only [two64] at h; omega
  have := uvarintAux_enc 9 0 0 0 n rest (by omega) h'
  simp only [uvarintStd, encodeVarint]
  rw [this]
  simp

theorem unmarshalLP_marshalLP (body : Bytes) (h : body.length < two64) :
    unmarshalLP (marshalLP body) = some body := by
  simp only [unmarshalLP, marshalLP]
  rw [uvarintStd_encodeVarint _ h]
  simp

end Wire
