import PocketModel.Codec.AminoNode
import Proofs.Codec.Amino
namespace NodeDB
open Amino

/-- `MakeNode (writeBytes n) = n` for every well-formed record (any trailing bytes). -/
theorem makeNode_writeBytes_append (n : NodeRec) (h : n.WF) (rest : Bytes) :
    makeNode (writeBytes n ++ rest) = some n := by
  obtain ⟨hh, hs, hv, hk, hval, hl, hr, hleaf, hinner⟩ := h
  unfold makeNode writeBytes
  simp only [List.append_assoc]
  rw [int8_roundtrip _ hh]; simp only
  rw [varint_roundtrip _ hs]; simp only
  rw [varint_roundtrip _ hv]; simp only
  rw [byteslice_roundtrip _ hk]; simp only
  by_cases h0 : n.height = 0
  · simp only [h0, if_true]
    rw [byteslice_roundtrip _ hval]
    obtain ⟨e1, e2⟩ := hleaf h0
    cases n; simp_all
  · simp only [h0, if_false, List.append_assoc]
    rw [byteslice_roundtrip _ hl]; simp only
    rw [byteslice_roundtrip _ hr]
    have := hinner h0
    cases n; simp_all

theorem makeNode_writeBytes (n : NodeRec) (h : n.WF) : makeNode (writeBytes n) = some n := by
  simpa using makeNode_writeBytes_append n h []

end NodeDB
