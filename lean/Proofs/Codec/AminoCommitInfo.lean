import PocketModel.Codec.AminoCommitInfo
import Proofs.Codec.Amino
/-! Round trip of the multistore's commit-info and latest-version records. -/
set_option linter.unusedSimpArgs false
namespace NodeDB
open Amino

/-- Field values the records can carry: versions are non-negative `int64`s, slices shorter than 2^63,
and every nested length-prefixed body shorter than 2^63. -/
structure SInfo.WF (si : SInfo) : Prop where
  name : si.name.length < 2 ^ 63
  ver0 : 0 ≤ si.cid.version
  ver : si.cid.version < 2 ^ 63
  hash : si.cid.hash.length < 2 ^ 63
  l1 : (encCommitID si.cid).length < 2 ^ 63
  l2 : (encStoreCore si.cid).length < 2 ^ 63
  l3 : (encStoreInfo si).length < 2 ^ 63

structure CInfo.WF (ci : CInfo) : Prop where
  ver0 : 0 ≤ ci.version
  ver : ci.version < 2 ^ 63
  infos : ∀ si ∈ ci.infos, si.WF
  len : (encCommitInfoBare ci).length < 2 ^ 63

theorem toU64_ofU64 (v : Int) (h0 : 0 ≤ v) (h1 : v < 2 ^ 63) : toU64 v < 2 ^ 64 ∧ ofU64 (toU64 v) = v := by
  unfold toU64 ofU64
  have : v % (2 ^ 64 : Int) = v := Int.emod_eq_of_lt h0 (by omega)
  rw [this]
  constructor
  · omega
  · have : v.toNat < 2 ^ 63 := by omega
    simp [this]; omega

theorem decIntField_enc (key : UInt8) (v : Int) (rest : Bytes) (h0 : 0 ≤ v) (h1 : v < 2 ^ 63)
    (hrest : ∀ b r, rest = b :: r → b ≠ key) : decIntField key (encIntField key v ++ rest) = some (v, rest) := by
  unfold encIntField
  by_cases hv : v = 0
  · subst hv
    simp only [if_true, List.nil_append]
    cases rest with
    | nil => rfl
    | cons b r => simp [decIntField, hrest b r rfl]
  · simp only [hv, if_false, List.cons_append, decIntField, if_true]
    obtain ⟨h2, h3⟩ := toU64_ofU64 v h0 h1
    rw [uvarint_roundtrip _ h2]
    simp [h3]

theorem decBytesField_enc (key : UInt8) (b : Bytes) (rest : Bytes) (hb : b.length < 2 ^ 63)
    (hrest : ∀ x r, rest = x :: r → x ≠ key) : decBytesField key (encBytesField key b ++ rest) = some (b, rest) := by
  unfold encBytesField
  by_cases hv : b = []
  · subst hv
    simp only [if_true, List.nil_append]
    cases rest with
    | nil => rfl
    | cons x r => simp [decBytesField, hrest x r rfl]
  · simp only [hv, if_false, List.cons_append, decBytesField, if_true]
    rw [byteslice_roundtrip _ hb]

theorem encStructField_eq (key : UInt8) (body : Bytes) : encStructField key body = encBytesField key body := rfl

theorem encBytesField_head (key : UInt8) (b : Bytes) : ∀ x r, encBytesField key b = x :: r → x = key := by
  intro x r h
  unfold encBytesField at h
  split at h
  · cases h
  · cases h; rfl

theorem decCommitID_enc (c : CID) (h0 : 0 ≤ c.version) (h1 : c.version < 2 ^ 63) (hh : c.hash.length < 2 ^ 63) :
    decCommitID (encCommitID c) = some c := by
  unfold decCommitID encCommitID
  rw [decIntField_enc 0x08 c.version _ h0 h1 (fun x r h => by rw [encBytesField_head 0x12 c.hash x r h]; decide)]
  simp only
  have := decBytesField_enc 0x12 c.hash [] hh (fun x r h => by cases h)
  rw [List.append_nil] at this
  rw [this]
  simp

theorem decStoreCore_enc (c : CID) (h0 : 0 ≤ c.version) (h1 : c.version < 2 ^ 63) (hh : c.hash.length < 2 ^ 63)
    (hl : (encCommitID c).length < 2 ^ 63) : decStoreCore (encStoreCore c) = some c := by
  unfold decStoreCore encStoreCore
  rw [encStructField_eq]
  have := decBytesField_enc 0x0a (encCommitID c) [] hl (fun x r h => by cases h)
  rw [List.append_nil] at this
  rw [this]
  simp [decCommitID_enc c h0 h1 hh]

theorem decStoreInfo_enc (si : SInfo) (h : si.WF) : decStoreInfo (encStoreInfo si) = some si := by
  unfold decStoreInfo encStoreInfo
  rw [encStructField_eq]
  rw [decBytesField_enc 0x0a si.name _ h.name (fun x r e => by rw [encBytesField_head 0x12 _ x r e]; decide)]
  simp only
  have := decBytesField_enc 0x12 (encStoreCore si.cid) [] h.l2 (fun x r e => by cases e)
  rw [List.append_nil] at this
  rw [this]
  simp [decStoreCore_enc si.cid h.ver0 h.ver h.hash h.l1]

theorem decStoreInfos_enc : ∀ (infos : List SInfo), (∀ si ∈ infos, si.WF) → ∀ fuel : Nat, infos.length < fuel →
    decStoreInfos fuel (infos.flatMap fun si => 0x12 :: encodeByteSlice (encStoreInfo si)) = some infos := by
  intro infos
  induction infos with
  | nil =>
    intro _ fuel hf
    cases fuel with
    | zero => omega
    | succ f => rfl
  | cons si l ih =>
    intro hwf fuel hf
    cases fuel with
    | zero => omega
    | succ f =>
      simp only [List.flatMap_cons, List.cons_append, decStoreInfos, if_true]
      rw [byteslice_roundtrip _ (hwf si List.mem_cons_self).l3]
      simp only
      rw [decStoreInfo_enc si (hwf si List.mem_cons_self), ih (fun x hx => hwf x (List.mem_cons_of_mem _ hx)) f (by simpa using hf)]

theorem flatMap_length_ge (infos : List SInfo) :
    infos.length ≤ (infos.flatMap fun si => (0x12 : UInt8) :: encodeByteSlice (encStoreInfo si)).length := by
  induction infos with
  | nil => simp
  | cons si l ih => simp only [List.flatMap_cons, List.length_append, List.length_cons]; omega

/-- `getCommitInfo (setCommitInfo ci) = ci`. -/
theorem decCommitInfo_enc (ci : CInfo) (h : ci.WF) : decCommitInfo (encCommitInfo ci) = some ci := by
  unfold decCommitInfo encCommitInfo
  have := byteslice_roundtrip (encCommitInfoBare ci) h.len []
  rw [List.append_nil] at this
  rw [this]
  simp only
  unfold decCommitInfoBare encCommitInfoBare
  rw [decIntField_enc 0x08 ci.version _ h.ver0 h.ver (fun x r e => by
    cases hi : ci.infos with
    | nil => simp [hi] at e
    | cons si l => simp [hi] at e; rw [← e.1]; decide)]
  simp only
  rw [decStoreInfos_enc ci.infos h.infos _ (by have := flatMap_length_ge ci.infos; omega)]
  rfl

/-- `getLatestVersion (setLatestVersion v) = v`. -/
theorem decLatest_enc (v : Int) (h0 : 0 ≤ v) (h1 : v < 2 ^ 63) : decLatest (encLatest v) = some v := by
  obtain ⟨h2, h3⟩ := toU64_ofU64 v h0 h1
  unfold decLatest encLatest
  have hlen : (encodeUvarint (toU64 v)).length < 2 ^ 63 := by
    have : ∀ f x, (encodeUvarintFuel f x).length ≤ f + 1 := by
      intro f
      induction f with
      | zero => intro x; simp [encodeUvarintFuel]
      | succ f ih => intro x; rw [encodeUvarintFuel]; split <;> simp; have := ih (x / 128); omega
    have := this 9 (toU64 v)
    unfold encodeUvarint; omega
  have := byteslice_roundtrip (encodeUvarint (toU64 v)) hlen []
  rw [List.append_nil] at this
  rw [this]
  simp only
  have := uvarint_roundtrip _ h2 []
  rw [List.append_nil] at this
  rw [this]
  simp [h3]

end NodeDB
