import Proofs.Codec.WireBasics
/-! The nested induction: `decFields s (encFields s vs) = some (normFields s vs)`. -/
namespace Wire

/-! ### Absent fields decode to zero values -/

theorem mapM_nil_option {α β} (f : α → Option β) : ([] : List α).mapM f = some [] := by simp

mutual
theorem decField_absent : ∀ (f : FSpec) (toks : List Tok), (∀ t ∈ toks, f.owns t = false) →
    decField f toks = some (zeroField f)
  | .int num k always, toks, h => by
    have hf : toks.filter (fun t => t.num == num) = [] :=
      filter_none _ _ (fun t ht => by simpa [FSpec.owns, FSpec.nums] using h t ht)
    simp [decField, hf, lastD, IntKind.trunc_zero, zeroField]
  | .bytes num k always, toks, h => by
    have hf : toks.filter (fun t => t.num == num) = [] :=
      filter_none _ _ (fun t ht => by simpa [FSpec.owns, FSpec.nums] using h t ht)
    cases k <;> simp [decField, hf, lastD, zeroField, BytesKind.pick, BytesKind.zero]
  | .msg num nullable sub, toks, h => by
    have hf : toks.filter (fun t => t.num == num) = [] :=
      filter_none _ _ (fun t ht => by simpa [FSpec.owns, FSpec.nums] using h t ht)
    cases nullable
    · simp [decField, hf, zeroField, decFields_nil sub]
    · simp [decField, hf, zeroField]
  | .repBytes num k, toks, h => by
    have hf : toks.filter (fun t => t.num == num) = [] :=
      filter_none _ _ (fun t ht => by simpa [FSpec.owns, FSpec.nums] using h t ht)
    simp [decField, hf, zeroField]
  | .repMsg num sub, toks, h => by
    have hf : toks.filter (fun t => t.num == num) = [] :=
      filter_none _ _ (fun t ht => by simpa [FSpec.owns, FSpec.nums] using h t ht)
    simp [decField, hf, zeroField]
  | .oneof alts, toks, h => by
    have hf : toks.filter (fun t => (alts.map (·.1)).contains t.num) = [] :=
      filter_none _ _ (fun t ht => by simpa [FSpec.owns, FSpec.nums] using h t ht)
    simp only [decField]
    rw [hf]
    simp [zeroField]
theorem decFields_nil : ∀ (fs : List FSpec), decFields fs [] = some (zeroFields fs)
  | [] => by simp [decFields, zeroFields]
  | f :: fs => by
    simp [decFields, zeroFields, decField_absent f [] (by simp), decFields_nil fs]
end

theorem decFields_disjoint : ∀ (fs : List FSpec) (toks : List Tok), (∀ t ∈ toks, t.num ∉ allNums fs) →
    decFields fs toks = some (zeroFields fs)
  | [], _, _ => by simp [decFields, zeroFields]
  | f :: fs, toks, h => by
    have h1 : ∀ t ∈ toks, f.owns t = false := by
      intro t ht
      have := h t ht
      simp only [allNums, List.mem_append, not_or] at this
      cases ho : f.owns t
      · rfl
      · exact absurd ((owns_iff f t).mp ho) this.1
    have h2 : ∀ t ∈ toks, t.num ∉ allNums fs := by
      intro t ht
      have := h t ht
      simp only [allNums, List.mem_append, not_or] at this
      exact this.2
    simp [decFields, zeroFields, decField_absent f toks h1, decFields_disjoint fs toks h2]

theorem normFields_nil : ∀ (fs : List FSpec), normFields fs [] = zeroFields fs
  | [] => by simp [normFields, zeroFields]
  | f :: fs => by simp [normFields, zeroFields, normFields_nil fs]

theorem encFields_nil_right : ∀ (fs : List FSpec), encFields fs [] = []
  | [] => by simp [encFields]
  | _ :: _ => by simp [encFields]

/-! ### A field only looks at its own tokens -/

theorem filter_idem {α} (p : α → Bool) (l : List α) : (l.filter p).filter p = l.filter p := by
  rw [List.filter_filter]; congr 1; funext x; simp

theorem decField_filter (f : FSpec) (toks : List Tok) : decField f toks = decField f (toks.filter f.owns) := by
  cases f with
  | int num k always =>
    simp only [decField]
    have hp : (fun t : Tok => t.num == num) = (FSpec.int num k always).owns := by
      funext t; by_cases e : t.num = num <;> simp [FSpec.owns, FSpec.nums, e]
    rw [hp, filter_idem]
  | bytes num k always =>
    simp only [decField]
    have hp : (fun t : Tok => t.num == num) = (FSpec.bytes num k always).owns := by
      funext t; by_cases e : t.num = num <;> simp [FSpec.owns, FSpec.nums, e]
    rw [hp, filter_idem]
  | msg num nullable sub =>
    simp only [decField]
    have hp : (fun t : Tok => t.num == num) = (FSpec.msg num nullable sub).owns := by
      funext t; by_cases e : t.num = num <;> simp [FSpec.owns, FSpec.nums, e]
    rw [hp, filter_idem]
  | repBytes num k =>
    simp only [decField]
    have hp : (fun t : Tok => t.num == num) = (FSpec.repBytes num k).owns := by
      funext t; by_cases e : t.num = num <;> simp [FSpec.owns, FSpec.nums, e]
    rw [hp, filter_idem]
  | repMsg num sub =>
    simp only [decField]
    have hp : (fun t : Tok => t.num == num) = (FSpec.repMsg num sub).owns := by
      funext t; by_cases e : t.num = num <;> simp [FSpec.owns, FSpec.nums, e]
    rw [hp, filter_idem]
  | oneof alts =>
    simp only [decField]
    have hp : (fun t : Tok => (alts.map (·.1)).contains t.num) = (FSpec.oneof alts).owns := by
      funext t; simp [FSpec.owns, FSpec.nums]
    rw [hp, filter_idem]

theorem decField_congr (f : FSpec) (toks E : List Tok) (h : toks.filter f.owns = E)
    (hE : ∀ t ∈ E, f.owns t = true) : decField f toks = decField f E := by
  rw [decField_filter f toks, h, decField_filter f E, filter_all _ _ hE]

end Wire
