import Proofs.Codec.Varint
/-! Token level: `tokenize (serToks ts) = some ts` for the tokens an encoder produces. -/
namespace Wire

/-- Tokens an encoder can produce and a decoder reads back: valid field number, a 64-bit varint or a
length-delimited payload whose length is a non-negative Go `int`. -/
def TokOK (t : Tok) : Prop :=
  0 < t.num ∧ t.num < 536870912 ∧
  match t.p with
  | .varint n => n < two64
  | .len b => b.length < two63
  | _ => False

theorem serTok_ne_nil (t : Tok) : serTok t ≠ [] := by
  unfold serTok
  intro h
  have := List.append_eq_nil_iff.mp h
  exact encodeVarint_ne_nil _ this.1

theorem readTok_serTok (t : Tok) (h : TokOK t) (rest : Bytes) :
    readTok (serTok t ++ rest) = some (t, rest) := by
  obtain ⟨hpos, hlt, hp⟩ := h
  obtain ⟨num, p⟩ := t
  simp only at hpos hlt hp
  cases p with
  | varint n =>
    simp only at hp
    have htag : num * 8 + 0 < two64 := by simp only [two64]; omega
    simp only [serTok, Payload.wt, List.append_assoc, readTok]
    rw [decodeVarint_encodeVarint _ htag]
    have h1 : (num * 8 + 0) % 8 = 0 := by omega
    have h2 : (num * 8 + 0) / 8 % two32 = num := by simp only [two32]; omega
    simp only [h1, h2]
    have h3 : ¬ (num = 0 ∨ num ≥ two31) := by simp only [two31]; omega
    simp only [h3, if_false]
    rw [decodeVarint_encodeVarint _ hp]
    simp
  | len b =>
    simp only at hp
    have htag : num * 8 + 2 < two64 := by simp only [two64]; omega
    simp only [serTok, Payload.wt, List.append_assoc, readTok]
    rw [decodeVarint_encodeVarint _ htag]
    have h1 : (num * 8 + 2) % 8 = 2 := by omega
    have h2 : (num * 8 + 2) / 8 % two32 = num := by simp only [two32]; omega
    simp only [h1, h2]
    have h3 : ¬ (num = 0 ∨ num ≥ two31) := by simp only [two31]; omega
    simp only [h3, if_false]
    have hl : b.length < two64 := by simp only [two63] at hp; simp only [two64]; omega
    rw [decodeVarint_encodeVarint _ hl]
    simp [hp]
  | fixed64 b => simp at hp
  | group b => simp at hp
  | fixed32 b => simp at hp

theorem serToks_cons (t : Tok) (ts : List Tok) : serToks (t :: ts) = serTok t ++ serToks ts := by
  simp [serToks]

theorem serToks_append (a b : List Tok) : serToks (a ++ b) = serToks a ++ serToks b := by
  simp [serToks]

theorem serToks_nil : serToks [] = [] := rfl

theorem tokenizeAux_serToks (ts : List Tok) : ∀ fuel, (∀ t ∈ ts, TokOK t) → (serToks ts).length ≤ fuel →
    tokenizeAux fuel (serToks ts) = some ts := by
  induction ts with
  | nil => intro fuel _ _; cases fuel <;> simp [serToks, tokenizeAux]
  | cons t ts ih =>
    intro fuel hok hfuel
    rw [serToks_cons] at hfuel ⊢
    have hne := serTok_ne_nil t
    have hpos : 0 < (serTok t).length := List.length_pos_iff.mpr hne
    rw [List.length_append] at hfuel
    cases fuel with
    | zero => omega
    | succ f =>
      have hcons : ∃ x xs, serTok t ++ serToks ts = x :: xs := by
        cases hs : serTok t with
        | nil => exact absurd hs hne
        | cons x xs => exact ⟨x, xs ++ serToks ts, by simp⟩
      obtain ⟨x, xs, hx⟩ := hcons
      have hrt := readTok_serTok t (hok t List.mem_cons_self) (serToks ts)
      rw [hx] at hrt ⊢
      simp only [tokenizeAux, hrt]
      rw [ih f (fun t' ht' => hok t' (List.mem_cons_of_mem _ ht')) (by omega)]

theorem tokenize_serToks (ts : List Tok) (hok : ∀ t ∈ ts, TokOK t) : tokenize (serToks ts) = some ts :=
  tokenizeAux_serToks ts _ hok (Nat.le_refl _)

/-- A length-delimited payload is a piece of the serialisation, hence not longer. -/
theorem len_le_serToks (ts : List Tok) (t : Tok) (ht : t ∈ ts) (b : Bytes) (hb : t.p = .len b) :
    b.length ≤ (serToks ts).length := by
  induction ts with
  | nil => cases ht
  | cons x xs ih =>
    rw [serToks_cons, List.length_append]
    cases ht with
    | head =>
      have : b.length ≤ (serTok t).length := by
        unfold serTok; rw [hb]; simp only [List.length_append]; omega
      omega
    | tail _ h => have := ih h; omega

theorem serToks_length_mono (a b c : List Tok) : (serToks b).length ≤ (serToks (a ++ b ++ c)).length := by
  rw [serToks_append, serToks_append, List.length_append, List.length_append]; omega

end Wire
