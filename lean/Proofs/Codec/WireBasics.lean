import Proofs.Codec.Tokens
/-! Facts about the schema-directed encoder that do not need the nested induction: integer
truncation, which tokens a field produces, list helpers. -/
namespace Wire

theorem IntKind.trunc_lt (k : IntKind) (n : Nat) : k.trunc n < two64 := by
  cases k <;> simp only [IntKind.trunc, two64, two32, two31]
  · omega
  · by_cases h : n % 4294967296 < 2147483648 <;> simp only [h, if_true, if_false] <;> omega
  · omega
  · omega
  · by_cases h : n % 18446744073709551616 = 0 <;> simp [h]

theorem IntKind.trunc_idem (k : IntKind) (n : Nat) : k.trunc (k.trunc n) = k.trunc n := by
  cases k <;> simp only [IntKind.trunc, two64, two32, two31]
  · omega
  · by_cases h : n % 4294967296 < 2147483648
    · simp only [h, if_true]
      have : n % 4294967296 % 4294967296 = n % 4294967296 := by omega
      simp only [this, h, if_true]
    · simp only [h, if_false]
      have h1 : (n % 4294967296 + (18446744073709551616 - 4294967296)) % 4294967296 = n % 4294967296 := by omega
      simp only [h1, h, if_false]
  · omega
  · omega
  · by_cases h : n % 18446744073709551616 = 0 <;> simp [h]

theorem IntKind.trunc_zero (k : IntKind) : k.trunc 0 = 0 := by
  cases k <;> simp [IntKind.trunc, two64, two32, two31]

/-! ### Option `mapM` over lists -/

theorem mapM_some_map {α β} (f : α → Option β) (g : α → β) (l : List α)
    (h : ∀ x ∈ l, f x = some (g x)) : l.mapM f = some (l.map g) := by
  induction l with
  | nil => simp
  | cons a as ih =>
    have ha := h a List.mem_cons_self
    have ih' := ih (fun x hx => h x (List.mem_cons_of_mem _ hx))
    simp [List.mapM_cons, ha, ih']

theorem filter_all {α} (p : α → Bool) (l : List α) (h : ∀ x ∈ l, p x = true) : l.filter p = l :=
  List.filter_eq_self.mpr h

theorem filter_none {α} (p : α → Bool) (l : List α) (h : ∀ x ∈ l, p x = false) : l.filter p = [] := by
  apply List.filter_eq_nil_iff.mpr
  intro x hx
  simp [h x hx]

theorem filter_mid {α} (p : α → Bool) (a e b : List α) (ha : ∀ x ∈ a, p x = false)
    (he : ∀ x ∈ e, p x = true) (hb : ∀ x ∈ b, p x = false) : (a ++ e ++ b).filter p = e := by
  rw [List.filter_append, List.filter_append, filter_none p a ha, filter_all p e he, filter_none p b hb]
  simp

/-! ### Which tokens a field produces -/

/-- Shape of the tokens an encoder produces. -/
def TokShape (t : Tok) : Prop := (∃ n, t.p = .varint n ∧ n < two64) ∨ ∃ b, t.p = .len b

theorem encAlts_shape (alts : List (Nat × List FSpec)) (n : Nat) (v : Value) :
    ∀ t ∈ encAlts alts n v, t.num ∈ alts.map (·.1) ∧ TokShape t := by
  induction alts with
  | nil => intro t ht; simp [encAlts] at ht
  | cons a rest ih =>
    obtain ⟨k, sub⟩ := a
    intro t ht
    unfold encAlts at ht
    by_cases hk : k = n
    · rw [if_pos hk] at ht
      cases v with
      | msg m =>
        cases m with
        | none => simp at ht
        | some fs =>
          simp at ht
          subst ht
          exact ⟨by simp, Or.inr ⟨_, rfl⟩⟩
      | int _ => simp at ht
      | bytes _ => simp at ht
      | rep _ => simp at ht
      | one _ => simp at ht
    · rw [if_neg hk] at ht
      obtain ⟨h1, h2⟩ := ih t ht
      exact ⟨List.mem_cons_of_mem _ h1, h2⟩

theorem encField_shape (f : FSpec) (v : Value) : ∀ t ∈ encField f v, t.num ∈ f.nums ∧ TokShape t := by
  intro t ht
  cases f with
  | int num k always =>
    cases v with
    | int n =>
      simp only [encField] at ht
      split at ht
      · simp at ht
      · simp at ht; subst ht
        exact ⟨by simp [FSpec.nums], Or.inl ⟨_, rfl, IntKind.trunc_lt k n⟩⟩
    | bytes _ => simp [encField] at ht
    | msg _ => simp [encField] at ht
    | rep _ => simp [encField] at ht
    | one _ => simp [encField] at ht
  | bytes num k always =>
    cases v with
    | bytes ob =>
      simp only [encField] at ht
      split at ht
      · simp at ht
      · simp at ht; subst ht
        exact ⟨by simp [FSpec.nums], Or.inr ⟨_, rfl⟩⟩
    | int _ => simp [encField] at ht
    | msg _ => simp [encField] at ht
    | rep _ => simp [encField] at ht
    | one _ => simp [encField] at ht
  | msg num nullable sub =>
    have hcase : t = ⟨num, .len []⟩ ∨ ∃ vs, t = ⟨num, .len (serToks (encFields sub vs))⟩ := by
      cases v with
      | msg m =>
        cases m with
        | some vs => simp [encField] at ht; exact Or.inr ⟨vs, ht⟩
        | none => cases nullable <;> simp [encField] at ht; exact Or.inl ht
      | int _ => cases nullable <;> simp [encField] at ht; exact Or.inl ht
      | bytes _ => cases nullable <;> simp [encField] at ht; exact Or.inl ht
      | rep _ => cases nullable <;> simp [encField] at ht; exact Or.inl ht
      | one _ => cases nullable <;> simp [encField] at ht; exact Or.inl ht
    rcases hcase with h | ⟨vs, h⟩ <;> subst h <;> exact ⟨by simp [FSpec.nums], Or.inr ⟨_, rfl⟩⟩
  | repBytes num k =>
    cases v with
    | rep l =>
      cases l with
      | none => simp [encField] at ht
      | some vs =>
        simp only [encField, List.mem_map] at ht
        obtain ⟨e, _, he⟩ := ht
        subst he
        cases e <;> exact ⟨by simp [FSpec.nums, repBytesTok], Or.inr ⟨_, rfl⟩⟩
    | int _ => simp [encField] at ht
    | bytes _ => simp [encField] at ht
    | msg _ => simp [encField] at ht
    | one _ => simp [encField] at ht
  | repMsg num sub =>
    cases v with
    | rep l =>
      cases l with
      | none => simp [encField] at ht
      | some vs =>
        simp only [encField, List.mem_map] at ht
        obtain ⟨e, _, he⟩ := ht
        subst he
        cases e with
        | msg m => cases m <;> exact ⟨by simp [FSpec.nums], Or.inr ⟨_, rfl⟩⟩
        | int _ => exact ⟨by simp [FSpec.nums], Or.inr ⟨_, rfl⟩⟩
        | bytes _ => exact ⟨by simp [FSpec.nums], Or.inr ⟨_, rfl⟩⟩
        | rep _ => exact ⟨by simp [FSpec.nums], Or.inr ⟨_, rfl⟩⟩
        | one _ => exact ⟨by simp [FSpec.nums], Or.inr ⟨_, rfl⟩⟩
    | int _ => simp [encField] at ht
    | bytes _ => simp [encField] at ht
    | msg _ => simp [encField] at ht
    | one _ => simp [encField] at ht
  | oneof alts =>
    cases v with
    | one sel =>
      cases sel with
      | none => simp [encField] at ht
      | some p =>
        obtain ⟨n, v'⟩ := p
        simp only [encField] at ht
        exact encAlts_shape alts n v' t ht
    | int _ => simp [encField] at ht
    | bytes _ => simp [encField] at ht
    | msg _ => simp [encField] at ht
    | rep _ => simp [encField] at ht

theorem encFields_shape : ∀ (fs : List FSpec) (vs : List Value), ∀ t ∈ encFields fs vs,
    t.num ∈ allNums fs ∧ TokShape t
  | [], _, t, ht => by simp [encFields] at ht
  | _ :: _, [], t, ht => by simp [encFields] at ht
  | f :: fs, v :: vs, t, ht => by
    simp only [encFields, List.mem_append] at ht
    simp only [allNums, List.mem_append]
    rcases ht with h | h
    · obtain ⟨h1, h2⟩ := encField_shape f v t h
      exact ⟨Or.inl h1, h2⟩
    · obtain ⟨h1, h2⟩ := encFields_shape fs vs t h
      exact ⟨Or.inr h1, h2⟩

theorem allNums_append (a b : List FSpec) : allNums (a ++ b) = allNums a ++ allNums b := by
  induction a with
  | nil => simp [allNums]
  | cons f fs ih => simp [allNums, ih]

theorem encFields_append (a b : List FSpec) (va vb : List Value) (h : a.length = va.length) :
    encFields (a ++ b) (va ++ vb) = encFields a va ++ encFields b vb := by
  induction a generalizing va with
  | nil =>
    cases va with
    | nil => simp [encFields]
    | cons _ _ => simp at h
  | cons f fs ih =>
    cases va with
    | nil => simp at h
    | cons v vs =>
      simp only [List.cons_append, encFields, List.append_assoc]
      rw [ih vs (by simpa using h)]

theorem wfAlts_nums (alts : List (Nat × List FSpec)) (h : wfAlts alts = true) :
    ∀ n ∈ alts.map (·.1), numOK n = true := by
  induction alts with
  | nil => intro n hn; simp at hn
  | cons a rest ih =>
    obtain ⟨k, sub⟩ := a
    simp only [wfAlts, Bool.and_eq_true] at h
    intro n hn
    simp only [List.map_cons, List.mem_cons] at hn
    rcases hn with e | hn
    · subst e; exact h.1.1.1
    · exact ih h.2 n hn

theorem wfField_nums (f : FSpec) (h : wfField f = true) : ∀ n ∈ f.nums, numOK n = true := by
  cases f with
  | int n _ _ => intro m hm; simp [FSpec.nums] at hm; subst hm; simpa [wfField] using h
  | bytes n _ _ => intro m hm; simp [FSpec.nums] at hm; subst hm; simpa [wfField] using h
  | msg n _ sub =>
    intro m hm; simp [FSpec.nums] at hm; subst hm
    simp only [wfField, Bool.and_eq_true] at h; exact h.1.1
  | repBytes n _ => intro m hm; simp [FSpec.nums] at hm; subst hm; simpa [wfField] using h
  | repMsg n sub =>
    intro m hm; simp [FSpec.nums] at hm; subst hm
    simp only [wfField, Bool.and_eq_true] at h; exact h.1.1
  | oneof alts => simp only [wfField] at h; exact wfAlts_nums alts h

theorem wfFields_nums : ∀ (fs : List FSpec), wfFields fs = true → ∀ n ∈ allNums fs, numOK n = true
  | [], _, n, hn => by simp [allNums] at hn
  | f :: fs, h, n, hn => by
    simp only [wfFields, Bool.and_eq_true] at h
    simp only [allNums, List.mem_append] at hn
    rcases hn with hn | hn
    · exact wfField_nums f h.1 n hn
    · exact wfFields_nums fs h.2 n hn

/-- All tokens of a well-formed message whose encoding fits a Go `int` are readable. -/
theorem encFields_ok (fs : List FSpec) (vs : List Value) (hw : wfFields fs = true)
    (hs : (serToks (encFields fs vs)).length < two63) : ∀ t ∈ encFields fs vs, TokOK t := by
  intro t ht
  obtain ⟨hn, hsh⟩ := encFields_shape fs vs t ht
  have hnum := wfFields_nums fs hw t.num hn
  simp only [numOK, Bool.and_eq_true, decide_eq_true_eq] at hnum
  refine ⟨hnum.1, hnum.2, ?_⟩
  rcases hsh with ⟨n, hp, hlt⟩ | ⟨b, hp⟩
  · rw [hp]; exact hlt
  · rw [hp]
    have := len_le_serToks _ t ht b hp
    show b.length < two63
    omega

theorem owns_iff (f : FSpec) (t : Tok) : f.owns t = true ↔ t.num ∈ f.nums := by
  simp [FSpec.owns]

end Wire
