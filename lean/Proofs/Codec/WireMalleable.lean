import Proofs.Codec.WireRT
import PocketModel.Codec.TxSchema
/-! Why the decoder is not injective: a field's value depends only on the sub-sequence of tokens
carrying its number(s). -/
namespace Wire

/-- The decoded message depends only on the per-field token streams. -/
theorem decFields_depends_on_field_streams : ∀ (s : List FSpec) (toks toks' : List Tok),
    (∀ f ∈ s, toks.filter f.owns = toks'.filter f.owns) → decFields s toks = decFields s toks'
  | [], _, _, _ => by simp [decFields]
  | f :: fs, toks, toks', h => by
    have hf : decField f toks = decField f toks' := by
      rw [decField_filter f toks, decField_filter f toks', h f List.mem_cons_self]
    have hfs := decFields_depends_on_field_streams fs toks toks'
      (fun g hg => h g (List.mem_cons_of_mem _ hg))
    simp [decFields, hf, hfs]

/-- Unknown fields are skipped wherever they stand. -/
theorem decFields_unknown_skipped (s : List FSpec) (a b : List Tok) (t : Tok)
    (h : ∀ f ∈ s, f.owns t = false) : decFields s (a ++ t :: b) = decFields s (a ++ b) := by
  apply decFields_depends_on_field_streams
  intro f hf
  simp [List.filter_append, List.filter_cons, h f hf]

/-- Fields of different numbers may be written in any relative order. -/
theorem decFields_swap_distinct (s : List FSpec) (a b : List Tok) (t u : Tok)
    (h : ∀ f ∈ s, ¬ (f.owns t = true ∧ f.owns u = true)) :
    decFields s (a ++ t :: u :: b) = decFields s (a ++ u :: t :: b) := by
  apply decFields_depends_on_field_streams
  intro f hf
  have := h f hf
  cases ht : f.owns t <;> cases hu : f.owns u <;> simp_all [List.filter_append, List.filter_cons]

/-- Bytes that are their own re-encoding. -/
def Canonical (s : Schema) (b : Bytes) : Prop := ∃ v, decodeMsg s b = some v ∧ encodeMsg s v = b

/-- On canonical encodings the decoder is injective. -/
theorem decode_canonical_injective (s : Schema) (b₁ b₂ : Bytes) (h₁ : Canonical s b₁) (h₂ : Canonical s b₂)
    (h : decodeMsg s b₁ = decodeMsg s b₂) : b₁ = b₂ := by
  obtain ⟨v₁, d₁, e₁⟩ := h₁
  obtain ⟨v₂, d₂, e₂⟩ := h₂
  rw [d₁, d₂] at h
  have : v₁ = v₂ := by injection h
  rw [← e₁, ← e₂, this]

end Wire
