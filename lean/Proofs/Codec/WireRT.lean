import Proofs.Codec.WireMain
/-! `rt_field` / `rt_fields_gen` / `rt_alts`: the mutual structural induction over schemas. -/
namespace Wire

mutual
theorem rt_field : ∀ (f : FSpec) (v : Value), wfField f = true →
    (serToks (encField f v)).length < two63 → decField f (encField f v) = some (normField f v)
  | .int num k always, v, _, _ => by
    cases v with
    | int n =>
      simp only [encField, normField]
      by_cases hc : k.trunc n = 0 ∧ always = false
      · rw [if_pos hc]
        simp [decField, lastD, IntKind.trunc_zero, hc.1]
      · rw [if_neg hc]
        simp [decField, Tok.varintVal, lastD, IntKind.trunc_idem]
    | bytes _ => simp [encField, normField, decField, lastD, IntKind.trunc_zero]
    | msg _ => simp [encField, normField, decField, lastD, IntKind.trunc_zero]
    | rep _ => simp [encField, normField, decField, lastD, IntKind.trunc_zero]
    | one _ => simp [encField, normField, decField, lastD, IntKind.trunc_zero]
  | .bytes num k always, v, _, _ => by
    cases v with
    | bytes ob =>
      simp only [encField, normField]
      by_cases hc : k.toWire ob = [] ∧ always = false
      · rw [if_pos hc]
        simp [decField, pick_nil_norm k always ob hc]
      · rw [if_neg hc]
        simp [decField, Tok.lenBytes, pick_norm k always ob hc]
    | int _ => simp [encField, normField, decField, pick_nil_zero]
    | msg _ => simp [encField, normField, decField, pick_nil_zero]
    | rep _ => simp [encField, normField, decField, pick_nil_zero]
    | one _ => simp [encField, normField, decField, pick_nil_zero]
  | .msg num nullable sub, v, hw, hs => by
    simp only [wfField, Bool.and_eq_true] at hw
    obtain ⟨⟨_, hwsub⟩, hnd⟩ := hw
    have hnd' : (allNums sub).Nodup := by simpa using hnd
    have absent : ∀ v, (∀ vs, v ≠ Value.msg (some vs)) →
        decField (.msg num nullable sub) (if nullable then [] else [⟨num, .len []⟩]) =
          some (if nullable then .msg none else .msg (some (zeroFields sub))) := by
      intro _ _
      cases nullable
      · simp [decField, Tok.lenBytes, tokenize_nil, decFields_nil sub]
      · simp [decField]
    cases v with
    | msg m =>
      cases m with
      | some vs =>
        simp only [encField, normField] at hs ⊢
        have hsP : (serToks (encFields sub vs)).length < two63 := by
          have := serToks_single_len num (serToks (encFields sub vs)); omega
        have htok := tokenize_payload sub vs hwsub hsP
        have hrec := rt_fields_gen sub [] [] vs rfl (by simpa using hwsub) (by simpa using hnd') (by simpa using hsP)
        simp only [List.nil_append] at hrec
        simp [decField, Tok.lenBytes, htok, hrec]
      | none => simpa [encField, normField] using absent (.msg none) (by intro vs h; cases h)
    | int n => simpa [encField, normField] using absent (.int n) (by intro vs h; cases h)
    | bytes b => simpa [encField, normField] using absent (.bytes b) (by intro vs h; cases h)
    | rep l => simpa [encField, normField] using absent (.rep l) (by intro vs h; cases h)
    | one s => simpa [encField, normField] using absent (.one s) (by intro vs h; cases h)
  | .repBytes num k, v, _, _ => by
    cases v with
    | rep l =>
      cases l with
      | none => simp [encField, normField, decField]
      | some vs =>
        cases vs with
        | nil => simp [encField, normField, decField]
        | cons x xs =>
          simp only [encField, normField]
          have hfil : ((x :: xs).map (repBytesTok num k)).filter (fun t => t.num == num) =
              (x :: xs).map (repBytesTok num k) :=
            filter_all _ _ (by
              intro t ht
              simp only [List.mem_map] at ht
              obtain ⟨e, _, he⟩ := ht
              subst he
              cases e <;> simp [repBytesTok])
          have hmap : ((x :: xs).map (repBytesTok num k)).mapM Tok.lenBytes =
              some (((x :: xs).map (repBytesTok num k)).map (fun t => match t.p with | .len b => b | _ => [])) :=
            mapM_some_map _ _ _ (by
              intro t ht
              simp only [List.mem_map] at ht
              obtain ⟨e, _, he⟩ := ht
              subst he
              cases e <;> simp [repBytesTok, Tok.lenBytes])
          simp only [decField, hfil, hmap]
          simp only [List.map_cons, List.map_map]
          simp only [reduceCtorEq, if_false, List.cons.injEq, Option.some.injEq, Value.rep.injEq, false_and]
          refine ⟨?_, ?_⟩
          · cases x <;> simp [repBytesTok, normRepBytes]
          · apply List.map_congr_left
            intro e _
            cases e <;> simp [repBytesTok, normRepBytes]
    | int _ => simp [encField, normField, decField]
    | bytes _ => simp [encField, normField, decField]
    | msg _ => simp [encField, normField, decField]
    | one _ => simp [encField, normField, decField]
  | .repMsg num sub, v, hw, hs => by
    simp only [wfField, Bool.and_eq_true] at hw
    obtain ⟨⟨_, hwsub⟩, hnd⟩ := hw
    have hnd' : (allNums sub).Nodup := by simpa using hnd
    cases v with
    | rep l =>
      cases l with
      | none => simp [encField, normField, decField]
      | some vs =>
        cases vs with
        | nil => simp [encField, normField, decField]
        | cons x xs =>
          simp only [encField, normField] at hs ⊢
          -- abbreviations
          generalize hE : (fun e : Value => match e with
              | .msg (some fs) => (⟨num, .len (serToks (encFields sub fs))⟩ : Tok)
              | _ => ⟨num, .len []⟩) = E at hs ⊢
          have hnumE : ∀ e, (E e).num = num := by
            intro e; subst hE; cases e with
            | msg m => cases m <;> rfl
            | _ => rfl
          have hfil : ((x :: xs).map E).filter (fun t => t.num == num) = (x :: xs).map E :=
            filter_all _ _ (by
              intro t ht
              simp only [List.mem_map] at ht
              obtain ⟨e, _, he⟩ := ht
              subst he
              simp [hnumE e])
          have hmap : ((x :: xs).map E).mapM Tok.lenBytes =
              some (((x :: xs).map E).map (fun t => match t.p with | .len b => b | _ => [])) :=
            mapM_some_map _ _ _ (by
              intro t ht
              simp only [List.mem_map] at ht
              obtain ⟨e, _, he⟩ := ht
              subst he
              subst hE
              cases e with
              | msg m => cases m <;> simp [Tok.lenBytes]
              | _ => simp [Tok.lenBytes])
          -- every element decodes to its normal form
          have helem : ∀ e ∈ (x :: xs),
              decElem sub (match (E e).p with | .len b => b | _ => []) =
                some (match e with
                  | .msg (some fs) => Value.msg (some (normFields sub fs))
                  | _ => Value.msg (some (zeroFields sub))) := by
            intro e he
            have hlen : ∀ b, (E e).p = .len b → b.length < two63 := by
              intro b hb
              have := len_le_serToks ((x :: xs).map E) (E e) (List.mem_map_of_mem he) b hb
              omega
            subst hE
            cases e with
            | msg m =>
              cases m with
              | some fs =>
                have hsP := hlen _ rfl
                have htok := tokenize_payload sub fs hwsub hsP
                have hrec := rt_fields_gen sub [] [] fs rfl (by simpa using hwsub) (by simpa using hnd') (by simpa using hsP)
                simp only [List.nil_append] at hrec
                simp [decElem, htok, hrec]
              | none => simp [decElem, tokenize_nil, decFields_nil sub]
            | int _ => simp [decElem, tokenize_nil, decFields_nil sub]
            | bytes _ => simp [decElem, tokenize_nil, decFields_nil sub]
            | rep _ => simp [decElem, tokenize_nil, decFields_nil sub]
            | one _ => simp [decElem, tokenize_nil, decFields_nil sub]
          have hdec : (((x :: xs).map E).map (fun t => match t.p with | .len b => b | _ => [])).mapM (decElem sub) =
              some ((x :: xs).map fun e => match e with
                  | .msg (some fs) => Value.msg (some (normFields sub fs))
                  | _ => Value.msg (some (zeroFields sub))) := by
            rw [List.map_map]
            have := mapM_some_map (fun e => decElem sub (match (E e).p with | .len b => b | _ => []))
              (fun e => match e with
                  | .msg (some fs) => Value.msg (some (normFields sub fs))
                  | _ => Value.msg (some (zeroFields sub))) (x :: xs) helem
            rw [← this, List.mapM_map]
            rfl
          simp only [decField, hfil, hmap]
          have hne : ¬ (((x :: xs).map E).map (fun t => match t.p with | .len b => b | _ => []) = []) := by simp
          rw [if_neg hne]
          have key : ∀ (g : Bytes → Option Value) (L : List Bytes) (R : List Value), L.mapM g = some R →
              (match L.mapM g with
                | none => none
                | some vs => some (Value.rep (some vs))) = some (Value.rep (some R)) := by
            intro g L R h; rw [h]
          exact key _ _ _ hdec
    | int _ => simp [encField, normField, decField]
    | bytes _ => simp [encField, normField, decField]
    | msg _ => simp [encField, normField, decField]
    | one _ => simp [encField, normField, decField]
  | .oneof alts, v, hw, hs => by
    simp only [wfField] at hw
    cases v with
    | one sel =>
      cases sel with
      | none => simp [encField, normField, decField]
      | some p =>
        obtain ⟨n, v'⟩ := p
        simp only [encField, normField] at hs ⊢
        rcases rt_alts alts n v' hw hs with ⟨h1, h2⟩ | ⟨tok, x, h1, h2, h3, h4⟩
        · simp [decField, h1, h2]
        · have hfil : [tok].filter (fun t => (alts.map (·.1)).contains t.num) = [tok] :=
            filter_all _ _ (by intro t ht; simp at ht; subst ht; simpa using h2)
          simp only [decField, h1, hfil]
          simp [h3, h4]
    | int _ => simp [encField, normField, decField]
    | bytes _ => simp [encField, normField, decField]
    | msg _ => simp [encField, normField, decField]
    | rep _ => simp [encField, normField, decField]
theorem rt_fields_gen : ∀ (fs pre : List FSpec) (vpre vfs : List Value), pre.length = vpre.length →
    wfFields (pre ++ fs) = true → (allNums (pre ++ fs)).Nodup →
    (serToks (encFields (pre ++ fs) (vpre ++ vfs))).length < two63 →
    decFields fs (encFields (pre ++ fs) (vpre ++ vfs)) = some (normFields fs vfs)
  | [], _, _, _, _, _, _, _ => by simp [decFields, normFields]
  | f :: fs, pre, vpre, [], hl, hw, hnd, _ => by
    rw [normFields_nil]
    apply decFields_disjoint
    intro t ht
    rw [List.append_nil] at ht
    have hsplit : encFields (pre ++ f :: fs) vpre = encFields pre vpre := by
      have := encFields_append pre (f :: fs) vpre [] hl
      rw [List.append_nil] at this
      rw [this, encFields_nil_right, List.append_nil]
    rw [hsplit] at ht
    have hin := (encFields_shape pre vpre t ht).1
    rw [allNums_append] at hnd
    intro hc
    exact (List.nodup_append.mp hnd).2.2 _ hin _ hc rfl
  | f :: fs, pre, vpre, v :: vfs, hl, hw, hnd, hs => by
    have hsplit : encFields (pre ++ f :: fs) (vpre ++ v :: vfs) =
        encFields pre vpre ++ encField f v ++ encFields fs vfs := by
      rw [encFields_append pre (f :: fs) vpre (v :: vfs) hl]
      simp [encFields, List.append_assoc]
    have hw' := hw
    rw [wfFields_append] at hw'
    simp only [wfFields, Bool.and_eq_true] at hw'
    obtain ⟨hwpre, hwf, hwfs⟩ := hw'
    have hnd' := hnd
    rw [allNums_append] at hnd'
    simp only [allNums] at hnd'
    -- disjointness facts
    have hd1 : ∀ t ∈ encFields pre vpre, f.owns t = false := by
      intro t ht
      have hin := (encFields_shape pre vpre t ht).1
      cases ho : f.owns t
      · rfl
      · have hmem := (owns_iff f t).mp ho
        exact absurd rfl ((List.nodup_append.mp hnd').2.2 _ hin _ (List.mem_append_left _ hmem))
    have hd2 : ∀ t ∈ encFields fs vfs, f.owns t = false := by
      intro t ht
      have hin := (encFields_shape fs vfs t ht).1
      cases ho : f.owns t
      · rfl
      · have hmem := (owns_iff f t).mp ho
        have hnd2 := (List.nodup_append.mp hnd').2.1
        exact absurd rfl ((List.nodup_append.mp hnd2).2.2 _ hmem _ hin)
    have hown : ∀ t ∈ encField f v, f.owns t = true := by
      intro t ht
      exact (owns_iff f t).mpr (encField_shape f v t ht).1
    have hfield : decField f (encFields (pre ++ f :: fs) (vpre ++ v :: vfs)) = some (normField f v) := by
      rw [hsplit]
      rw [decField_congr f _ (encField f v) (filter_mid f.owns _ _ _ hd1 hown hd2) hown]
      apply rt_field f v hwf
      have := serToks_length_mono (encFields pre vpre) (encField f v) (encFields fs vfs)
      rw [hsplit] at hs
      omega
    have hrest : decFields fs (encFields (pre ++ f :: fs) (vpre ++ v :: vfs)) = some (normFields fs vfs) := by
      have e1 : pre ++ f :: fs = (pre ++ [f]) ++ fs := by simp
      have e2 : vpre ++ v :: vfs = (vpre ++ [v]) ++ vfs := by simp
      rw [e1, e2]
      apply rt_fields_gen fs (pre ++ [f]) (vpre ++ [v]) vfs (by simp [hl])
      · rw [← e1]; exact hw
      · rw [← e1]; exact hnd
      · rw [← e1, ← e2]; exact hs
    simp [decFields, normFields, hfield, hrest]
theorem rt_alts : ∀ (alts : List (Nat × List FSpec)) (n : Nat) (v : Value), wfAlts alts = true →
    (serToks (encAlts alts n v)).length < two63 →
    (encAlts alts n v = [] ∧ normAlts alts n v = none) ∨
    ∃ tok x, encAlts alts n v = [tok] ∧ tok.num ∈ alts.map (·.1) ∧ decAlts alts tok = some x ∧
      normAlts alts n v = some x
  | [], _, _, _, _ => by simp [encAlts, normAlts]
  | (k, sub) :: rest, n, v, hw, hs => by
    simp only [wfAlts, Bool.and_eq_true] at hw
    obtain ⟨⟨⟨_, hwsub⟩, hnd⟩, hwrest⟩ := hw
    have hnd' : (allNums sub).Nodup := by simpa using hnd
    by_cases hk : k = n
    · subst hk
      cases v with
      | msg m =>
        cases m with
        | some fs =>
          right
          simp only [encAlts, if_true] at hs ⊢
          have hsP : (serToks (encFields sub fs)).length < two63 := by
            have := serToks_single_len k (serToks (encFields sub fs)); omega
          have htok := tokenize_payload sub fs hwsub hsP
          have hrec := rt_fields_gen sub [] [] fs rfl (by simpa using hwsub) (by simpa using hnd') (by simpa using hsP)
          simp only [List.nil_append] at hrec
          refine ⟨_, (k, .msg (some (normFields sub fs))), rfl, by simp, ?_, by simp [normAlts]⟩
          simp [decAlts, Tok.lenBytes, htok, hrec]
        | none => left; simp [encAlts, normAlts]
      | int _ => left; simp [encAlts, normAlts]
      | bytes _ => left; simp [encAlts, normAlts]
      | rep _ => left; simp [encAlts, normAlts]
      | one _ => left; simp [encAlts, normAlts]
    · have henc : encAlts ((k, sub) :: rest) n v = encAlts rest n v := by simp [encAlts, hk]
      have hnorm : normAlts ((k, sub) :: rest) n v = normAlts rest n v := by simp [normAlts, hk]
      rw [henc] at hs
      rw [henc, hnorm]
      rcases rt_alts rest n v hwrest hs with h | ⟨tok, x, h1, h2, h3, h4⟩
      · left; exact h
      · right
        have htn : tok.num = n := by
          -- the token of `encAlts` carries the selected number
          have : ∀ (as : List (Nat × List FSpec)) (t : Tok), t ∈ encAlts as n v → t.num = n := by
            intro as
            induction as with
            | nil => intro t ht; simp [encAlts] at ht
            | cons a as ih =>
              obtain ⟨k', sub'⟩ := a
              intro t ht
              unfold encAlts at ht
              by_cases hk' : k' = n
              · rw [if_pos hk'] at ht
                cases v with
                | msg m => cases m with
                  | some fs => simp at ht; subst ht; exact hk'
                  | none => simp at ht
                | int _ => simp at ht
                | bytes _ => simp at ht
                | rep _ => simp at ht
                | one _ => simp at ht
              · rw [if_neg hk'] at ht; exact ih t ht
          exact this rest tok (by rw [h1]; simp)
        refine ⟨tok, x, h1, List.mem_cons_of_mem _ h2, ?_, h4⟩
        have : ¬ (k = tok.num) := by rw [htn]; exact hk
        simp [decAlts, this, h3]
end

end Wire
