import PocketModel.Crypto.Keybase
import Proofs.Basic.Bytes
/-! Lemmas for C40: armor round trip, association-list DB as a map, keybase invariants. -/
namespace Keybase

/-! ## armor -/

section armor
variable (A : AEAD) (C : Codec A.Ct)

theorem newPrivateKeyBz_wf {sk : Bytes} (h : wfPriv sk) : newPrivateKeyBz sk = .ok sk := by
  unfold newPrivateKeyBz wfPriv at *
  simp [h]

theorem newPrivateKeyBz_ok {b sk : Bytes} (h : newPrivateKeyBz b = .ok sk) : sk = b ∧ wfPriv sk := by
  unfold newPrivateKeyBz at h
  split at h
  · rename_i hl
    cases h
    exact ⟨rfl, hl⟩
  · cases h

/-- Decrypting a fresh armor with a passphrase deriving the **same key** returns the key. -/
theorem unarmor_encrypt_samekey (sk pass pass' salt : Bytes) (hint : String) (hsk : wfPriv sk)
    (hsalt : salt ≠ []) (hk : A.kdf pass' salt = A.kdf pass salt) :
    unarmorDecrypt A.toAEADOps C.toCodecOps (encryptArmor A.toAEADOps C.toCodecOps sk pass salt hint) pass' = .ok sk := by
  unfold unarmorDecrypt encryptArmor
  simp only [C.parse_render, C.hex_roundtrip, C.hexEnc_nonempty salt hsalt, hk, A.law, C.hex_lenient]
  simp [newPrivateKeyBz_wf hsk]

theorem unarmor_encrypt (sk pass salt : Bytes) (hint : String) (hsk : wfPriv sk) (hsalt : salt ≠ []) :
    unarmorDecrypt A.toAEADOps C.toCodecOps (encryptArmor A.toAEADOps C.toCodecOps sk pass salt hint) pass = .ok sk :=
  unarmor_encrypt_samekey A C sk pass pass salt hint hsk hsalt rfl

end armor

section auth
variable (A : AuthAEAD) (C : Codec A.Ct)

/-- Under the authenticity assumption a passphrase deriving a **different key** is rejected with
the authentication error. -/
theorem unarmor_encrypt_otherkey (sk pass pass' salt : Bytes) (hint : String) (hsalt : salt ≠ [])
    (hk : A.kdf pass' salt ≠ A.kdf pass salt) :
    unarmorDecrypt A.toAEADOps C.toCodecOps (encryptArmor A.toAEADOps C.toCodecOps sk pass salt hint) pass' = .error .auth := by
  unfold unarmorDecrypt encryptArmor
  simp only [C.parse_render, C.hex_roundtrip, C.hexEnc_nonempty salt hsalt]
  simp [A.auth _ _ _ (Ne.symm hk)]

end auth

/-! ## the DB as a map -/

section db
variable {A : AEADOps} {C : CodecOps A.Ct}

theorem lookup_insert (db : List (Bytes × Entry A C)) (a b : Bytes) (e : Entry A C) :
    lookup (insert db a e) b = if a = b then some e else lookup db b := by
  induction db with
  | nil => simp [insert, lookup]
  | cons kv rest ih =>
    obtain ⟨k, v⟩ := kv
    simp only [insert]
    by_cases hka : k = a
    · subst hka
      simp only [if_true, lookup]
      by_cases hb : k = b <;> simp [hb]
    · simp only [hka, if_false]
      by_cases hlt : a < k
      · simp only [hlt, if_true, lookup]
      · simp only [hlt, if_false, lookup, ih]
        by_cases hkb : k = b
        · subst hkb
          simp [Ne.symm hka]
        · simp [hkb]

theorem lookup_erase (db : List (Bytes × Entry A C)) (a b : Bytes) :
    lookup (erase db a) b = if a = b then none else lookup db b := by
  induction db with
  | nil => simp [erase, lookup]
  | cons kv rest ih =>
    obtain ⟨k, v⟩ := kv
    simp only [erase]
    by_cases hka : k = a
    · subst hka
      simp only [if_true, ih, lookup]
      by_cases hb : k = b <;> simp [hb]
    · simp only [hka, if_false, lookup, ih]
      by_cases hkb : k = b
      · subst hkb
        simp [Ne.symm hka]
      · simp [hkb]

theorem mem_keys_iff (db : List (Bytes × Entry A C)) (a : Bytes) :
    a ∈ db.map (·.1) ↔ (lookup db a).isSome = true := by
  induction db with
  | nil => simp [lookup]
  | cons kv rest ih =>
    obtain ⟨k, v⟩ := kv
    simp only [List.map_cons, List.mem_cons, lookup]
    by_cases hk : k = a
    · simp [hk]
    · simp only [hk, if_false]
      rw [← ih]
      constructor
      · rintro (h | h)
        · exact absurd h.symm hk
        · exact h
      · exact Or.inr

/-- Keys strictly increasing (the iteration order of the DB). -/
def Sorted (db : List (Bytes × Entry A C)) : Prop := (db.map (·.1)).Pairwise (· < ·)

theorem keys_insert_mem (db : List (Bytes × Entry A C)) (a : Bytes) (e : Entry A C) (x : Bytes) :
    x ∈ (insert db a e).map (·.1) → x = a ∨ x ∈ db.map (·.1) := by
  intro h
  rw [mem_keys_iff, lookup_insert] at h
  by_cases hx : a = x
  · exact Or.inl hx.symm
  · simp only [hx, if_false] at h
    exact Or.inr ((mem_keys_iff db x).mpr h)

theorem sorted_insert (db : List (Bytes × Entry A C)) (a : Bytes) (e : Entry A C) (h : Sorted db) :
    Sorted (insert db a e) := by
  induction db with
  | nil => simp [insert, Sorted]
  | cons kv rest ih =>
    obtain ⟨k, v⟩ := kv
    unfold Sorted at h ih ⊢
    simp only [List.map_cons, List.pairwise_cons] at h
    simp only [insert]
    by_cases hka : k = a
    · subst hka
      simp only [if_true, List.map_cons, List.pairwise_cons]
      exact h
    · simp only [hka, if_false]
      by_cases hlt : a < k
      · simp only [hlt, if_true, List.map_cons, List.pairwise_cons]
        refine ⟨?_, h⟩
        intro x hx
        simp only [List.mem_cons] at hx
        rcases hx with rfl | hx
        · exact hlt
        · exact Bytes.lt_trans hlt (h.1 x hx)
      · simp only [hlt, if_false, List.map_cons, List.pairwise_cons]
        refine ⟨?_, ih h.2⟩
        intro x hx
        rcases keys_insert_mem rest a e x hx with rfl | hx
        · rcases Bytes.lt_tri k x with h1 | h1 | h1
          · exact h1
          · exact absurd h1 hka
          · exact absurd h1 hlt
        · exact h.1 x hx

theorem sorted_erase (db : List (Bytes × Entry A C)) (a : Bytes) (h : Sorted db) :
    Sorted (erase db a) := by
  induction db with
  | nil => simp [erase, Sorted]
  | cons kv rest ih =>
    obtain ⟨k, v⟩ := kv
    unfold Sorted at h ih ⊢
    simp only [List.map_cons, List.pairwise_cons] at h
    simp only [erase]
    by_cases hka : k = a
    · simp only [hka, if_true]
      exact ih h.2
    · simp only [hka, if_false, List.map_cons, List.pairwise_cons]
      refine ⟨?_, ih h.2⟩
      intro x hx
      rw [mem_keys_iff, lookup_erase] at hx
      by_cases hax : a = x
      · simp [hax] at hx
      · simp only [hax, if_false] at hx
        exact h.1 x ((mem_keys_iff rest x).mpr hx)

theorem sorted_nodup (db : List (Bytes × Entry A C)) (h : Sorted db) : (db.map (·.1)).Nodup := by
  unfold Sorted at h
  exact List.Pairwise.imp (fun h => Bytes.ne_of_lt h) h

end db

end Keybase

namespace Keybase

/-! ## the keybase refines a map from address to encrypted key -/

section refine
variable {A : AEADOps} {C : CodecOps A.Ct} (addrOf : Bytes → Bytes)

/-- The abstract state: a map from address to the stored (encrypted) key. -/
abbrev AMap (A : AEADOps) (C : CodecOps A.Ct) := Bytes → Option (Entry A C)

def AMap.set (f : AMap A C) (a : Bytes) (e : Entry A C) : AMap A C := fun b => if a = b then some e else f b
def AMap.del (f : AMap A C) (a : Bytes) : AMap A C := fun b => if a = b then none else f b

/-- Abstraction function. -/
def abs (kb : KB A C) : AMap A C := fun a => lookup kb.db a

/-- The specification of every operation on the abstract map.  The result is `none` where the
specification does not determine it from the map alone (`list`: stated separately as a set;
the coinbase cache is outside the map). -/
def specStep (f : AMap A C) : Op A C → AMap A C × Option (Res A C)
  | .create sk pass salt =>
    let e : Entry A C := ⟨addrOf sk, encryptArmor A C sk pass salt ""⟩
    (f.set (addrOf sk) e, some (.addr (addrOf sk)))
  | .importObj sk pass salt =>
    match f (addrOf sk) with
    | some _ => (f, some (.err .exists_))
    | none =>
      let e : Entry A C := ⟨addrOf sk, encryptArmor A C sk pass salt ""⟩
      (f.set (addrOf sk) e, some (.addr (addrOf sk)))
  | .importArmor armor decPass encPass salt =>
    match unarmorDecrypt A C armor decPass with
    | .error e => (f, some (.err e))
    | .ok sk =>
      match f (addrOf sk) with
      | some _ => (f, some (.err .exists_))
      | none =>
        let e : Entry A C := ⟨addrOf sk, encryptArmor A C sk encPass salt ""⟩
        (f.set (addrOf sk) e, some (.addr (addrOf sk)))
  | .exportArmor a decPass encPass salt =>
    match f a with
    | none => (f, some (.err .notfound))
    | some e =>
      match unarmorDecrypt A C e.armor decPass with
      | .error er => (f, some (.err er))
      | .ok sk => (f, some (.armor (encryptArmor A C sk encPass salt "h")))
  | .exportObj a pass =>
    match f a with
    | none => (f, some (.err .notfound))
    | some e =>
      match unarmorDecrypt A C e.armor pass with
      | .error er => (f, some (.err er))
      | .ok sk => (f, some (.key sk))
  | .delete a pass =>
    match f a with
    | none => (f, some (.err .notfound))
    | some e =>
      match unarmorDecrypt A C e.armor pass with
      | .error er => (f, some (.err er))
      | .ok _ => (f.del a, some .ok)
  | .unsafeDelete a =>
    match f a with
    | none => (f, some (.err .notfound))
    | some _ => (f.del a, some .ok)
  | .update a oldPass newPass salt =>
    match f a with
    | none => (f, some (.err .notfound))
    | some e =>
      match unarmorDecrypt A C e.armor oldPass with
      | .error er => (f, some (.err er))
      | .ok sk =>
        let e' : Entry A C := ⟨addrOf sk, encryptArmor A C sk newPass salt ""⟩
        (f.set (addrOf sk) e', some .ok)
  | .sign a pass =>
    match f a with
    | none => (f, some (.err .notfound))
    | some e =>
      match unarmorDecrypt A C e.armor pass with
      | .error er => (f, some (.err er))
      | .ok sk => (f, some (.key sk))
  | .get a =>
    match f a with
    | none => (f, some (.err .notfound))
    | some e => (f, some (.addr e.addr))
  | .list => (f, none)
  | .getCoinbase => (f, none)
  | .setCoinbase _ => (f, none)

/-- Representation invariant: keys strictly increasing, every entry stored under its own address. -/
def Inv (kb : KB A C) : Prop :=
  Sorted kb.db ∧ ∀ a e, lookup kb.db a = some e → e.addr = a

theorem inv_empty : Inv (KB.empty A C) := by
  refine ⟨?_, ?_⟩
  · simp [Sorted, KB.empty]
  · intro a e h; simp [KB.empty, lookup] at h

theorem abs_insert (kb : KB A C) (a : Bytes) (e : Entry A C) :
    abs { kb with db := insert kb.db a e } = (abs kb).set a e := by
  funext b; simp [abs, AMap.set, lookup_insert]

theorem abs_erase (kb : KB A C) (a : Bytes) :
    abs { kb with db := erase kb.db a } = (abs kb).del a := by
  funext b; simp [abs, AMap.del, lookup_erase]

theorem inv_insert (kb : KB A C) (a : Bytes) (e : Entry A C) (h : Inv kb) (he : e.addr = a) :
    Inv { kb with db := insert kb.db a e } := by
  refine ⟨sorted_insert _ _ _ h.1, ?_⟩
  intro b e' hl
  simp only [lookup_insert] at hl
  by_cases hab : a = b
  · simp only [hab, if_true, Option.some.injEq] at hl
    rw [← hl, he, hab]
  · simp only [hab, if_false] at hl
    exact h.2 b e' hl

theorem inv_erase (kb : KB A C) (a : Bytes) (h : Inv kb) : Inv { kb with db := erase kb.db a } := by
  refine ⟨sorted_erase _ _ h.1, ?_⟩
  intro b e' hl
  simp only [lookup_erase] at hl
  by_cases hab : a = b
  · simp [hab] at hl
  · simp only [hab, if_false] at hl
    exact h.2 b e' hl

theorem inv_coinbase (kb : KB A C) (c : Option (Entry A C)) (h : Inv kb) : Inv { kb with coinbase := c } := h

theorem get_eq (kb : KB A C) (a : Bytes) :
    get kb a = match abs kb a with | none => .error .notfound | some e => .ok e := by
  unfold get abs
  cases lookup kb.db a <;> rfl

/-- One step of the real keybase is the specified step on the abstract map; the invariant is kept. -/
theorem step_refines (kb : KB A C) (op : Op A C) (h : Inv kb) :
    abs (step addrOf kb op).1 = (specStep addrOf (abs kb) op).1 ∧
    (∀ r, (specStep addrOf (abs kb) op).2 = some r → (step addrOf kb op).2 = r) ∧
    Inv (step addrOf kb op).1 := by
  cases op with
  | create sk pass salt =>
    simp only [step, writeLocal, specStep]
    exact ⟨abs_insert _ _ _, by intro r hr; simpa using hr, inv_insert _ _ _ h rfl⟩
  | importObj sk pass salt =>
    simp only [step, specStep, get_eq]
    cases hf : abs kb (addrOf sk) with
    | some e => exact ⟨rfl, by intro r hr; simpa using hr, h⟩
    | none =>
      simp only [writeLocal]
      exact ⟨abs_insert _ _ _, by intro r hr; simpa using hr, inv_insert _ _ _ h rfl⟩
  | importArmor armor dp ep salt =>
    simp only [step, specStep]
    cases hu : unarmorDecrypt A C armor dp with
    | error e => exact ⟨rfl, by intro r hr; simpa using hr, h⟩
    | ok sk =>
      simp only [get_eq]
      cases hf : abs kb (addrOf sk) with
      | some e => exact ⟨rfl, by intro r hr; simpa using hr, h⟩
      | none =>
        simp only [writeLocal]
        exact ⟨abs_insert _ _ _, by intro r hr; simpa using hr, inv_insert _ _ _ h rfl⟩
  | exportArmor a dp ep salt =>
    simp only [step, specStep, exportObj, get_eq]
    cases hf : abs kb a with
    | none => exact ⟨rfl, by intro r hr; simpa using hr, h⟩
    | some e =>
      simp only
      cases hu : unarmorDecrypt A C e.armor dp with
      | error er => exact ⟨rfl, by intro r hr; simpa using hr, h⟩
      | ok sk => exact ⟨rfl, by intro r hr; simpa using hr, h⟩
  | exportObj a p =>
    simp only [step, specStep, exportObj, get_eq]
    cases hf : abs kb a with
    | none => exact ⟨rfl, by intro r hr; simpa using hr, h⟩
    | some e =>
      simp only
      cases hu : unarmorDecrypt A C e.armor p with
      | error er => exact ⟨rfl, by intro r hr; simpa using hr, h⟩
      | ok sk => exact ⟨rfl, by intro r hr; simpa using hr, h⟩
  | delete a p =>
    simp only [step, specStep, get_eq]
    cases hf : abs kb a with
    | none => exact ⟨rfl, by intro r hr; simpa using hr, h⟩
    | some e =>
      simp only
      cases hu : unarmorDecrypt A C e.armor p with
      | error er => exact ⟨rfl, by intro r hr; simpa using hr, h⟩
      | ok sk =>
        have hea : e.addr = a := h.2 a e hf
        simp only [hea]
        exact ⟨abs_erase _ _, by intro r hr; simpa using hr, inv_erase _ _ h⟩
  | unsafeDelete a =>
    simp only [step, specStep, get_eq]
    cases hf : abs kb a with
    | none => exact ⟨rfl, by intro r hr; simpa using hr, h⟩
    | some e =>
      have hea : e.addr = a := h.2 a e hf
      simp only [hea]
      exact ⟨abs_erase _ _, by intro r hr; simpa using hr, inv_erase _ _ h⟩
  | update a op np salt =>
    simp only [step, specStep, get_eq]
    cases hf : abs kb a with
    | none => exact ⟨rfl, by intro r hr; simpa using hr, h⟩
    | some e =>
      simp only
      cases hu : unarmorDecrypt A C e.armor op with
      | error er => exact ⟨rfl, by intro r hr; simpa using hr, h⟩
      | ok sk =>
        simp only [writeLocal]
        exact ⟨abs_insert _ _ _, by intro r hr; simpa using hr, inv_insert _ _ _ h rfl⟩
  | sign a p =>
    simp only [step, specStep, exportObj, get_eq]
    cases hf : abs kb a with
    | none => exact ⟨rfl, by intro r hr; simpa using hr, h⟩
    | some e =>
      simp only
      cases hu : unarmorDecrypt A C e.armor p with
      | error er => exact ⟨rfl, by intro r hr; simpa using hr, h⟩
      | ok sk => exact ⟨rfl, by intro r hr; simpa using hr, h⟩
  | get a =>
    simp only [step, specStep, get_eq]
    cases hf : abs kb a with
    | none => exact ⟨rfl, by intro r hr; simpa using hr, h⟩
    | some e => exact ⟨rfl, by intro r hr; simpa using hr, h⟩
  | list => exact ⟨rfl, by intro r hr; simp [specStep] at hr, h⟩
  | getCoinbase =>
    simp only [step, specStep]
    split
    · exact ⟨rfl, by intro r hr; simp at hr, inv_coinbase kb _ h⟩
    · cases hd : kb.db with
      | nil => exact ⟨by funext b; simp [abs, hd], by intro r hr; simp at hr, by simpa [hd] using inv_coinbase kb none h⟩
      | cons kv rest =>
        refine ⟨?_, by intro r hr; simp at hr, ?_⟩
        · funext b; simp [abs, hd]
        · have := inv_coinbase kb (some kv.2) h
          simpa [hd] using this
  | setCoinbase a =>
    simp only [step, specStep, get_eq]
    cases hf : abs kb a with
    | none => exact ⟨rfl, by intro r hr; simp at hr, h⟩
    | some e => exact ⟨rfl, by intro r hr; simp at hr, inv_coinbase kb _ h⟩

theorem lookup_of_mem_sorted (db : List (Bytes × Entry A C)) (hs : Sorted db) (k : Bytes)
    (v : Entry A C) (hp : (k, v) ∈ db) : lookup db k = some v := by
  induction db with
  | nil => cases hp
  | cons q rest ih =>
    obtain ⟨k', v'⟩ := q
    unfold Sorted at hs ih
    simp only [List.map_cons, List.pairwise_cons] at hs
    simp only [lookup]
    by_cases hkk : k' = k
    · subst hkk
      simp only [if_true]
      rcases List.mem_cons.mp hp with hq | hq
      · cases hq; rfl
      · exact absurd (hs.1 k' (List.mem_map_of_mem (f := (·.1)) hq)) (Bytes.lt_irrefl _)
    · simp only [hkk, if_false]
      rcases List.mem_cons.mp hp with hq | hq
      · cases hq; exact absurd rfl hkk
      · exact ih hs.2 hq

/-- `List` returns exactly the addresses of the map's domain, each once, in increasing order. -/
theorem list_spec (kb : KB A C) (h : Inv kb) :
    ∃ l, (step addrOf kb .list).2 = .addrs l ∧ (∀ a, a ∈ l ↔ (abs kb a).isSome = true) ∧
      l.Pairwise (· < ·) := by
  have hl : (kb.db.map fun p => p.2.addr) = kb.db.map (·.1) := by
    apply List.map_congr_left
    intro p hp
    obtain ⟨k, v⟩ := p
    exact h.2 k v (lookup_of_mem_sorted kb.db h.1 k v hp)
  have hs : (kb.db.map (·.1)).Pairwise (· < ·) := h.1
  exact ⟨kb.db.map (·.1), by simp [step, hl], fun a => mem_keys_iff kb.db a, hs⟩

/-- Specification of a whole history on the abstract map. -/
def specRun (f : AMap A C) : List (Op A C) → AMap A C
  | [] => f
  | op :: ops => specRun (specStep addrOf f op).1 ops

theorem run_refines (ops : List (Op A C)) : ∀ (kb : KB A C), Inv kb →
    abs (run addrOf kb ops).1 = specRun addrOf (abs kb) ops ∧ Inv (run addrOf kb ops).1 := by
  induction ops with
  | nil => intro kb h; exact ⟨rfl, h⟩
  | cons op ops ih =>
    intro kb h
    obtain ⟨h1, _, h3⟩ := step_refines addrOf kb op h
    have := ih (step addrOf kb op).1 h3
    simp only [run, specRun]
    rw [← h1]
    exact this

end refine

end Keybase

namespace Keybase

/-! ## what the passphrase guards -/

section stored
variable (A : AEAD) (C : Codec A.Ct) (addrOf : Bytes → Bytes)

/-- Address `a` holds key `sk`, protected by passphrase `p` with salt `s`. -/
def Stored (kb : KB A.toAEADOps C.toCodecOps) (a sk p s : Bytes) : Prop :=
  lookup kb.db a = some ⟨a, encryptArmor A.toAEADOps C.toCodecOps sk p s ""⟩ ∧
    addrOf sk = a ∧ wfPriv sk ∧ s ≠ []

variable {A C addrOf}

theorem stored_get {kb : KB A.toAEADOps C.toCodecOps} {a sk p s : Bytes} (h : Stored A C addrOf kb a sk p s) :
    get kb a = .ok ⟨a, encryptArmor A.toAEADOps C.toCodecOps sk p s ""⟩ := by
  unfold get; rw [h.1]

theorem stored_exportObj {kb : KB A.toAEADOps C.toCodecOps} {a sk p s : Bytes}
    (h : Stored A C addrOf kb a sk p s) (p' : Bytes) (hk : A.kdf p' s = A.kdf p s) :
    exportObj kb a p' = .ok sk := by
  unfold exportObj
  rw [stored_get h]
  exact unarmor_encrypt_samekey A C sk p p' s "" h.2.2.1 h.2.2.2 hk

theorem stored_after_write (kb : KB A.toAEADOps C.toCodecOps) (sk p s : Bytes) (hsk : wfPriv sk) (hs : s ≠ []) :
    Stored A C addrOf (writeLocal addrOf kb sk p s).1 (addrOf sk) sk p s := by
  refine ⟨?_, rfl, hsk, hs⟩
  simp [writeLocal, lookup_insert]

end stored

section storedAuth
variable (A : AuthAEAD) (C : Codec A.Ct) {addrOf : Bytes → Bytes}

theorem stored_exportObj_otherkey {kb : KB A.toAEADOps C.toCodecOps} {a sk p s : Bytes}
    (h : Stored A.toAEAD C addrOf kb a sk p s) (p' : Bytes) (hk : A.kdf p' s ≠ A.kdf p s) :
    exportObj kb a p' = .error .auth := by
  unfold exportObj
  rw [stored_get h]
  exact unarmor_encrypt_otherkey A C sk p p' s "" h.2.2.2 hk

end storedAuth

end Keybase
