import PocketModel.Crypto.Sig
/-! Lemmas for C39: multisig composition logic, varint / amino round trips, dispatch. -/
namespace Crypto

/-! ## multisig -/

theorem multisigVerify_iff {κ : Type} (vm : κ → Bytes → Bytes → Bool) (ks : List κ) (m : Bytes)
    (sigs : List Bytes) :
    multisigVerify vm ks m sigs = true ↔
      sigs.length = ks.length ∧
        ∀ i (h1 : i < sigs.length) (h2 : i < ks.length), sigs[i] ≠ [] ∧ vm ks[i] m sigs[i] = true := by
  unfold multisigVerify posOk
  simp only [Bool.and_eq_true, beq_iff_eq, List.all_eq_true, List.mem_range]
  constructor
  · rintro ⟨hl, h⟩
    refine ⟨hl, fun i h1 h2 => ?_⟩
    have := h i h1
    simp [List.getElem?_eq_getElem h1, List.getElem?_eq_getElem h2] at this
    exact this
  · rintro ⟨hl, h⟩
    refine ⟨hl, fun i h1 => ?_⟩
    have h2 : i < ks.length := hl ▸ h1
    simp [List.getElem?_eq_getElem h1, List.getElem?_eq_getElem h2]
    exact h i h1 h2

/-- The sequential loop with early exit computes the same verdict when there is no nil member and
no member verifier panics. -/
theorem verifyLoopP_total {κ : Type} (vm : κ → Bytes → Bytes → Bool) (m : Bytes) :
    ∀ (ks : List κ) (sigs : List Bytes), sigs.length = ks.length →
      verifyLoopP (fun k m s => some (vm k m s)) m (ks.map some) sigs =
        some ((List.range sigs.length).all (posOk vm ks m sigs)) := by
  intro ks
  induction ks with
  | nil => intro sigs h; cases sigs <;> simp_all [verifyLoopP]
  | cons k ks ih =>
    intro sigs h
    cases sigs with
    | nil => simp at h
    | cons s ss =>
      simp only [List.length_cons, Nat.add_right_cancel_iff] at h
      simp only [List.map_cons, verifyLoopP, List.length_cons]
      rw [List.range_succ_eq_map]
      simp only [List.all_cons, List.all_map, posOk, List.getElem?_cons_zero]
      by_cases hs : s = []
      · simp [hs]
      · simp only [hs, if_false]
        cases hv : vm k m s
        · simp
        · simp only [ih ss h]
          have : (s != []) = true := by simp [hs]
          rw [this, Bool.true_and]
          rfl

theorem multisigVerifyP_total {κ : Type} (vm : κ → Bytes → Bytes → Bool) (ks : List κ) (m : Bytes)
    (sigs : List Bytes) :
    multisigVerifyP (fun k m s => some (vm k m s)) (ks.map some) m sigs =
      some (multisigVerify vm ks m sigs) := by
  unfold multisigVerifyP multisigVerify
  by_cases h : sigs.length = ks.length
  · rw [if_neg (by simp [h]), verifyLoopP_total vm m ks sigs h]
    simp [h]
  · simp [h]

/-! ## varint -/

theorem uvarint_ne_nil (n : Nat) : uvarint n ≠ [] := by
  rw [uvarint]; split <;> simp

theorem uvarint_length_small {n : Nat} (h : n < 128) : (uvarint n).length = 1 := by
  rw [uvarint]; simp [h]

theorem uvarint_length_pos (n : Nat) : 1 ≤ (uvarint n).length := by
  rw [uvarint]; split <;> simp

theorem uvarint_head_ne_zero {n : Nat} (h : 0 < n) : (uvarint n).head? ≠ some 0 := by
  rw [uvarint]
  split
  · rename_i hn
    simp only [List.head?_cons, ne_eq, Option.some.injEq]
    intro e
    have : (UInt8.ofNat n).toNat = 0 := by rw [e]; rfl
    simp [UInt8.toNat_ofNat'] at this
    omega
  · simp only [List.head?_cons, ne_eq, Option.some.injEq]
    intro e
    have : (UInt8.ofNat (n % 128 + 128)).toNat = 0 := by rw [e]; rfl
    simp [UInt8.toNat_ofNat'] at this
    omega

theorem readUvarintAux_uvarint (n : Nat) : ∀ (rest : Bytes) (sh acc : Nat),
    readUvarintAux (uvarint n ++ rest) sh acc = some (acc + n * 2 ^ sh, rest) := by
  induction n using Nat.strongRecOn with
  | _ n ih =>
    intro rest sh acc
    rw [uvarint]
    split
    · rename_i hn
      have h1 : (UInt8.ofNat n).toNat = n := by simp [UInt8.toNat_ofNat']; omega
      have h2 : UInt8.ofNat n < 128 := by
        rw [UInt8.lt_iff_toNat_lt, h1]; exact hn
      simp [readUvarintAux, h2, h1]
    · rename_i hn
      have h1 : (UInt8.ofNat (n % 128 + 128)).toNat = n % 128 + 128 := by
        simp [UInt8.toNat_ofNat']; omega
      have h2 : ¬ UInt8.ofNat (n % 128 + 128) < 128 := by
        rw [UInt8.lt_iff_toNat_lt, h1]; simp
      simp only [List.cons_append, readUvarintAux, h2, if_false, h1]
      rw [ih (n / 128) (by omega)]
      congr 2
      have e : n = 128 * (n / 128) + n % 128 := (Nat.div_add_mod n 128).symm
      have : 2 ^ (sh + 7) = 2 ^ sh * 128 := by rw [Nat.pow_add]
      rw [this]
      generalize 2 ^ sh = p
      generalize n / 128 = q at *
      generalize n % 128 = r at *
      subst e
      simp only [Nat.add_sub_cancel]
      rw [Nat.add_mul, Nat.add_assoc]
      congr 1
      rw [Nat.add_comm]
      congr 1
      rw [Nat.mul_comm 128 q, Nat.mul_assoc, Nat.mul_comm 128 p]

theorem readUvarint_uvarint (n : Nat) (rest : Bytes) :
    readUvarint (uvarint n ++ rest) = some (n, rest) := by
  simp [readUvarint, readUvarintAux_uvarint]

theorem readByteSlice_lenPrefixed (b rest : Bytes) :
    readByteSlice (lenPrefixed b ++ rest) = some (b, rest) := by
  simp [readByteSlice, lenPrefixed, List.append_assoc, readUvarint_uvarint]

theorem lenPrefixed_length (b : Bytes) : (lenPrefixed b).length = (uvarint b.length).length + b.length := by
  simp [lenPrefixed]

theorem lenPrefixed_head_ne_zero {b : Bytes} (h : b ≠ []) (rest : Bytes) :
    ¬ ∃ t, lenPrefixed b ++ rest = 0 :: t := by
  rintro ⟨t, e⟩
  have hpos : 0 < b.length := List.length_pos_iff.mpr h
  have := uvarint_head_ne_zero hpos
  unfold lenPrefixed at e
  cases hu : uvarint b.length with
  | nil => exact uvarint_ne_nil _ hu
  | cons x xs =>
    rw [hu] at e this
    simp at e this
    exact this e.1

theorem readByteArray_lenPrefixed {n : Nat} {raw : Bytes} (h : raw.length = n) :
    readByteArray n (lenPrefixed raw) = some (raw, []) := by
  have := readByteSlice_lenPrefixed raw []
  simp only [List.append_nil] at this
  unfold readByteArray
  have hl : ¬ (lenPrefixed raw).length < n := by rw [lenPrefixed_length]; omega
  simp [hl, this, h]

end Crypto

namespace Crypto

/-! ## amino round trip of keys (nested multisig included) -/

mutual
/-- Fuel needed by the decoder for a key. -/
def Key.need : Key → Nat
  | .multi ks => 2 + Key.needList ks
  | _ => 1
def Key.needList : List Key → Nat
  | [] => 1
  | k :: ks => 1 + max k.need (Key.needList ks)
end

theorem readPrefix_ed (rest : Bytes) : readPrefix (pfxEd ++ rest) = some (pfxEd, rest) := by
  simp [readPrefix, pfxEd]
theorem readPrefix_secp (rest : Bytes) : readPrefix (pfxSecp ++ rest) = some (pfxSecp, rest) := by
  simp [readPrefix, pfxSecp]
theorem readPrefix_multi (rest : Bytes) : readPrefix (pfxMulti ++ rest) = some (pfxMulti, rest) := by
  simp [readPrefix, pfxMulti]

theorem readUvarint_0a (r : Bytes) : readUvarint (0x0a :: r) = some (10, r) := by
  simp [readUvarint, readUvarintAux]

theorem amino_ne_nil : ∀ k : Key, k.wf = true → k.amino ≠ []
  | .ed _, _ => by simp [Key.amino, pfxEd]
  | .secp _, _ => by simp [Key.amino, pfxSecp]
  | .multi _, _ => by simp [Key.amino, pfxMulti]
  | .nil, h => by simp [Key.wf] at h

theorem head_lenPrefixed_ne_zero {b : Bytes} (h : b ≠ []) (rest : Bytes) :
    (lenPrefixed b ++ rest).head? ≠ some 0 := by
  intro e
  apply lenPrefixed_head_ne_zero h rest
  cases hl : lenPrefixed b ++ rest with
  | nil => rw [hl] at e; simp at e
  | cons x xs => rw [hl] at e; simp at e; exact ⟨xs, by rw [e]⟩

theorem drop_lenPrefixed (b rest : Bytes) :
    (lenPrefixed b ++ rest).drop ((uvarint b.length).length + b.length) = rest := by
  have : (lenPrefixed b).length = (uvarint b.length).length + b.length := lenPrefixed_length b
  rw [← this]
  simp

mutual
theorem decodeIface_amino : ∀ (k : Key), k.wf = true → ∀ fuel, k.need ≤ fuel →
    decodeIface fuel k.amino = some k
  | .ed raw, h, fuel, hf => by
    cases fuel with
    | zero => simp [Key.need] at hf
    | succ f =>
      simp only [Key.wf, beq_iff_eq] at h
      simp [decodeIface, Key.amino, readPrefix_ed, readByteArray_lenPrefixed h]
  | .secp raw, h, fuel, hf => by
    cases fuel with
    | zero => simp [Key.need] at hf
    | succ f =>
      simp only [Key.wf, beq_iff_eq] at h
      have : pfxSecp ≠ pfxEd := by decide
      simp [decodeIface, Key.amino, readPrefix_secp, readByteArray_lenPrefixed h, this]
  | .multi ks, h, fuel, hf => by
    simp only [Key.wf] at h
    simp only [Key.need] at hf
    match fuel, hf with
    | 0, hf => omega
    | 1, hf => omega
    | f + 2, hf =>
      have h1 : pfxMulti ≠ pfxEd := by decide
      have h2 : pfxMulti ≠ pfxSecp := by decide
      have := decodeList_amino ks h f (by omega)
      simp [decodeIface, Key.amino, readPrefix_multi, h1, h2, decodeStruct, this, skipFields]
  | .nil, h, _, _ => by simp [Key.wf] at h
theorem decodeList_amino : ∀ (ks : List Key), Key.wfList ks = true → ∀ fuel, Key.needList ks ≤ fuel →
    decodeList fuel (Key.aminoList ks) = some (ks, [])
  | [], _, fuel, hf => by
    cases fuel with
    | zero => simp [Key.needList] at hf
    | succ f => simp [Key.aminoList, decodeList]
  | k :: ks, h, fuel, hf => by
    simp only [Key.wfList, Bool.and_eq_true] at h
    simp only [Key.needList] at hf
    cases fuel with
    | zero => omega
    | succ f =>
      have ihk := decodeIface_amino k h.1 f (by omega)
      have ihl := decodeList_amino ks h.2 f (by omega)
      have hne := head_lenPrefixed_ne_zero (amino_ne_nil k h.1) (Key.aminoList ks)
      simp only [Key.aminoList, decodeList, readUvarint_0a]
      rw [if_neg hne]
      simp [readByteSlice_lenPrefixed, ihk, drop_lenPrefixed, ihl]
end

end Crypto

namespace Crypto

mutual
theorem need_le : ∀ k : Key, k.need ≤ k.amino.length + 1
  | .ed _ => by simp [Key.need]
  | .secp _ => by simp [Key.need]
  | .nil => by simp [Key.need]
  | .multi ks => by
    have := needList_le ks
    simp [Key.need, Key.amino, pfxMulti]
    omega
theorem needList_le : ∀ ks : List Key, Key.needList ks ≤ (Key.aminoList ks).length + 1
  | [] => by simp [Key.needList]
  | k :: ks => by
    have h1 := need_le k
    have h2 := needList_le ks
    have h3 := uvarint_length_pos k.amino.length
    simp only [Key.needList, Key.aminoList, List.length_cons, List.length_append, lenPrefixed_length]
    omega
end

/-- `PubKeyFromBytes (k.Bytes()) = k`. -/
theorem pubKeyFromBytes_amino (k : Key) (h : k.wf = true) : pubKeyFromBytes k.amino = some k :=
  decodeIface_amino k h _ (need_le k)

/-! ### dispatch by length is unambiguous on encodings of well-formed keys -/

mutual
theorem size_class : ∀ k : Key, k.wf = true → 37 ≤ k.amino.length ∨ k.amino.length % 6 = 4
  | .ed raw, h => by
    simp only [Key.wf, beq_iff_eq, edSize] at h
    left
    simp [Key.amino, pfxEd, lenPrefixed_length, h, uvarint_length_small]
  | .secp raw, h => by
    simp only [Key.wf, beq_iff_eq, secpSize] at h
    left
    simp [Key.amino, pfxSecp, lenPrefixed_length, h, uvarint_length_small]
  | .nil, h => by simp [Key.wf] at h
  | .multi ks, h => by
    simp only [Key.wf] at h
    have := sizeList_class ks h
    simp only [Key.amino, pfxMulti, List.length_append, List.length_cons, List.length_nil]
    omega
theorem sizeList_class : ∀ ks : List Key, Key.wfList ks = true →
    39 ≤ (Key.aminoList ks).length ∨ (Key.aminoList ks).length % 6 = 0
  | [], _ => by simp [Key.aminoList]
  | k :: ks, h => by
    simp only [Key.wfList, Bool.and_eq_true] at h
    have h1 := size_class k h.1
    have h2 := sizeList_class ks h.2
    have h3 := uvarint_length_pos k.amino.length
    simp only [Key.aminoList, List.length_cons, List.length_append, lenPrefixed_length]
    by_cases hb : 37 ≤ k.amino.length
    · omega
    · have : (uvarint k.amino.length).length = 1 := uvarint_length_small (by omega)
      omega
end

theorem multi_size_not_dispatch (ks : List Key) (h : Key.wfList ks = true) :
    (Key.multi ks).amino.length ≠ edSize ∧ (Key.multi ks).amino.length ≠ secpSize := by
  have := size_class (.multi ks) (by simpa [Key.wf] using h)
  simp only [edSize, secpSize]
  omega

theorem newMultiKey_amino (ks : List Key) (h : Key.wfList ks = true) :
    newMultiKey (pfxMulti ++ Key.aminoList ks) = some (.multi ks) := by
  have hl := needList_le ks
  have hd := decodeList_amino ks h (pfxMulti ++ Key.aminoList ks).length
    (by simp [pfxMulti]; omega)
  simp [pfxMulti] at hd
  simp [newMultiKey, pfxMulti, decodeStruct, hd, skipFields]

/-- `NewPublicKeyBz (k.RawBytes()) = k`. -/
theorem newPublicKeyBz_rawBytes : ∀ k : Key, k.wf = true → newPublicKeyBz k.rawBytes = some k
  | .ed raw, h => by
    simp only [Key.wf, beq_iff_eq] at h
    simp [newPublicKeyBz, Key.rawBytes, h]
  | .secp raw, h => by
    simp only [Key.wf, beq_iff_eq] at h
    simp [newPublicKeyBz, Key.rawBytes, h, edSize, secpSize]
  | .nil, h => by simp [Key.wf] at h
  | .multi ks, h => by
    simp only [Key.wf] at h
    have hs := multi_size_not_dispatch ks h
    have e : (Key.multi ks).rawBytes = pfxMulti ++ Key.aminoList ks := by simp [Key.rawBytes, Key.amino]
    have e' : (Key.multi ks).amino = pfxMulti ++ Key.aminoList ks := by simp [Key.amino]
    rw [e'] at hs
    rw [e]
    simp only [newPublicKeyBz, hs.1, hs.2, if_false]
    exact newMultiKey_amino ks h

/-! ### MultiSignature round trip -/

theorem decodeSigList_encode : ∀ (sigs : List Bytes) (fuel : Nat), sigs.length < fuel →
    decodeSigList fuel (sigs.flatMap fun s => 0x0a :: lenPrefixed s) = some (sigs, [])
  | [], fuel, h => by
    cases fuel with
    | zero => omega
    | succ f => simp [decodeSigList]
  | s :: ss, fuel, h => by
    cases fuel with
    | zero => omega
    | succ f =>
      have ih := decodeSigList_encode ss f (by simp at h; omega)
      simp only [List.flatMap_cons, List.cons_append, decodeSigList, readUvarint_0a]
      simp [readByteSlice_lenPrefixed, ih]

theorem decodeMultiSig_encode (sigs : List Bytes) :
    decodeMultiSig (encodeMultiSig sigs) = some sigs := by
  generalize hb : (sigs.flatMap fun s => (0x0a : UInt8) :: lenPrefixed s) = body
  have hlen : sigs.length ≤ body.length := by
    subst hb
    induction sigs with
    | nil => simp
    | cons s ss ih => simp only [List.flatMap_cons, List.length_append, List.length_cons]; omega
  have := decodeSigList_encode sigs ((pfxMsig ++ body).length + 1) (by simp; omega)
  rw [hb] at this
  simp only [decodeMultiSig, encodeMultiSig, hb]
  simp [pfxMsig] at this ⊢
  simp [this, skipFields]

/-! ### AddSignatureByIndex -/

theorem addSignatureByIndex_length (sigs : List Bytes) (sig : Bytes) (i : Nat) :
    (addSignatureByIndex sigs sig i).length = max sigs.length (i + 1) := by
  unfold addSignatureByIndex
  by_cases hlt : i < sigs.length
  · simp [hlt]; omega
  · simp [hlt]; omega

theorem addSignatureByIndex_self (sigs : List Bytes) (sig : Bytes) (i : Nat) :
    (addSignatureByIndex sigs sig i)[i]? = some sig := by
  unfold addSignatureByIndex
  by_cases hlt : i < sigs.length
  · simp [hlt]
  · simp only [hlt, if_false]
    rw [List.getElem?_append_right (by simp; omega)]
    have : i - (sigs ++ List.replicate (i - sigs.length) [0]).length = 0 := by simp; omega
    rw [this]; rfl

theorem addSignatureByIndex_other (sigs : List Bytes) (sig : Bytes) (i j : Nat)
    (hj : j < sigs.length) (hne : j ≠ i) : (addSignatureByIndex sigs sig i)[j]? = sigs[j]? := by
  unfold addSignatureByIndex
  by_cases hlt : i < sigs.length
  · simp only [hlt, if_true]
    rw [List.getElem?_set_ne (Ne.symm hne)]
  · simp only [hlt, if_false]
    rw [List.append_assoc, List.getElem?_append_left hj]

theorem foldl_add_spec (sigOf : Nat → Bytes) : ∀ (order : List Nat) (acc : List Bytes) (done : List Nat),
    (∀ o ∈ done, acc[o]? = some (sigOf o)) →
    ∀ o, (o ∈ done ∨ o ∈ order) →
      (order.foldl (fun acc o => addSignatureByIndex acc (sigOf o) o) acc)[o]? = some (sigOf o) := by
  intro order
  induction order with
  | nil =>
    intro acc done h o ho
    rcases ho with ho | ho
    · exact h o ho
    · cases ho
  | cons x xs ih =>
    intro acc done h o ho
    simp only [List.foldl_cons]
    apply ih (addSignatureByIndex acc (sigOf x) x) (x :: done)
    · intro q hq
      rcases List.mem_cons.mp hq with rfl | hq
      · exact addSignatureByIndex_self _ _ _
      · by_cases hqx : q = x
        · subst hqx; exact addSignatureByIndex_self _ _ _
        · have hacc := h q hq
          have hlt : q < acc.length := by
            rcases List.getElem?_eq_some_iff.mp hacc with ⟨hl, _⟩; exact hl
          rw [addSignatureByIndex_other _ _ _ _ hlt hqx]; exact hacc
    · rcases ho with ho | ho
      · exact Or.inl (List.mem_cons_of_mem _ ho)
      · rcases List.mem_cons.mp ho with rfl | ho
        · exact Or.inl List.mem_cons_self
        · exact Or.inr ho

theorem foldl_add_length (sigOf : Nat → Bytes) (n : Nat) : ∀ (order : List Nat) (acc : List Bytes),
    acc.length ≤ n → (∀ o ∈ order, o < n) →
    (order.foldl (fun acc o => addSignatureByIndex acc (sigOf o) o) acc).length ≤ n := by
  intro order
  induction order with
  | nil => intro acc h _; exact h
  | cons x xs ih =>
    intro acc h ho
    simp only [List.foldl_cons]
    apply ih
    · rw [addSignatureByIndex_length]
      have := ho x List.mem_cons_self
      omega
    · intro o hmem; exact ho o (List.mem_cons_of_mem _ hmem)

/-- Whatever the order in which the `n` members sign, the assembled multi-signature has exactly
`n` entries and entry `j` is member `j`'s signature. -/
theorem assemble_spec (sigOf : Nat → Bytes) (order : List Nat) (n : Nat)
    (hall : ∀ j, j < n → j ∈ order) (hrange : ∀ o ∈ order, o < n) :
    (assemble sigOf order).length = n ∧ ∀ j, j < n → (assemble sigOf order)[j]? = some (sigOf j) := by
  have hget : ∀ j, j < n → (assemble sigOf order)[j]? = some (sigOf j) := fun j hj =>
    foldl_add_spec sigOf order [] [] (by intro o ho; cases ho) j (Or.inr (hall j hj))
  refine ⟨?_, hget⟩
  have hle : (assemble sigOf order).length ≤ n := foldl_add_length sigOf n order [] (by simp) hrange
  cases n with
  | zero => omega
  | succ m =>
    have := hget m (by omega)
    rcases List.getElem?_eq_some_iff.mp this with ⟨hl, _⟩
    omega

end Crypto
