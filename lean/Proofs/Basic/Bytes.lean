import PocketModel.Basic.Bytes
/-! Order facts about `Bytes` used everywhere (strict total order). -/
namespace Bytes

theorem lt_irrefl (a : Bytes) : ¬ a < a := List.lt_irrefl a
theorem lt_trans {a b c : Bytes} (h1 : a < b) (h2 : b < c) : a < c := List.lt_trans h1 h2
theorem lt_asymm {a b : Bytes} (h : a < b) : ¬ b < a := List.lt_asymm h
theorem lt_tri (a b : Bytes) : a < b ∨ a = b ∨ b < a := by
  by_cases h1 : a < b
  · exact Or.inl h1
  · by_cases h2 : b < a
    · exact Or.inr (Or.inr h2)
    · exact Or.inr (Or.inl (List.le_antisymm (List.not_lt.mp h2) (List.not_lt.mp h1)))
theorem not_lt_of_eq {a b : Bytes} (h : a = b) : ¬ a < b := h ▸ lt_irrefl a
theorem ne_of_lt {a b : Bytes} (h : a < b) : a ≠ b := fun e => lt_irrefl b (e ▸ h)
theorem le_iff (a b : Bytes) : a ≤ b ↔ a < b ∨ a = b := by
  constructor
  · intro h
    rcases lt_tri a b with h1 | h1 | h1
    · exact Or.inl h1
    · exact Or.inr h1
    · exact absurd h1 (List.not_lt.mpr h)
  · rintro (h | h)
    · exact List.le_of_lt h
    · exact h ▸ List.le_refl a
theorem lt_of_lt_of_le {a b c : Bytes} (h1 : a < b) (h2 : b ≤ c) : a < c := by
  rcases (le_iff b c).mp h2 with h | h
  · exact lt_trans h1 h
  · exact h ▸ h1
theorem lt_of_le_of_lt {a b c : Bytes} (h1 : a ≤ b) (h2 : b < c) : a < c := by
  rcases (le_iff a b).mp h1 with h | h
  · exact lt_trans h h2
  · exact h ▸ h2
theorem not_lt {a b : Bytes} : ¬ a < b ↔ b ≤ a := List.not_lt
theorem not_le {a b : Bytes} : ¬ a ≤ b ↔ b < a := List.not_le
theorem le_refl (a : Bytes) : a ≤ a := List.le_refl a
theorem le_trans {a b c : Bytes} (h1 : a ≤ b) (h2 : b ≤ c) : a ≤ c := List.le_trans h1 h2
theorem le_antisymm {a b : Bytes} (h1 : a ≤ b) (h2 : b ≤ a) : a = b := List.le_antisymm h1 h2
theorem le_total (a b : Bytes) : a ≤ b ∨ b ≤ a := List.le_total a b
theorem le_of_lt {a b : Bytes} (h : a < b) : a ≤ b := List.le_of_lt h

end Bytes
