import Proofs.Merkle.Sound
set_option linter.unusedVariables false
/-! `merklePath` / `rootOf` (fuelled, Go-shaped) coincide with `pathOf` / `lvl` on levels of `2^(k+1)` nodes. -/
namespace SumIndex
variable (H : Bytes → Bytes) (post : Bool)

theorem two_le_two_pow_succ (k : Nat) : 2 ≤ 2 ^ (k + 1) := by
  have : 2 ^ 1 ≤ 2 ^ (k + 1) := Nat.pow_le_pow_right (by decide) (by omega)
  simpa using this

theorem sibIndex_lt (i m : Nat) (hi : i < 2 * m) : sibIndex i < 2 * m := by
  unfold sibIndex; split <;> omega

theorem merklePath_eq_pathOf : ∀ (k fuel : Nat) (data : List HashRange) (i : Nat),
    k + 1 ≤ fuel → data.length = 2 ^ (k + 1) → i < 2 ^ (k + 1) →
    merklePath H post fuel data i = some (pathOf H post (k + 1) data i) := by
  intro k
  induction k with
  | zero =>
    intro fuel data i hf hl hi
    obtain ⟨f, rfl⟩ : ∃ f, fuel = f + 1 := ⟨fuel - 1, by omega⟩
    have hl2 : data.length = 2 * 1 := by simpa using hl
    obtain ⟨hup, hnl⟩ := up1_spec H post data 1 hl2
    have hs : sibIndex i < data.length := by rw [hl2]; exact sibIndex_lt i 1 (by simpa using hi)
    simp [merklePath, levelUp, hup, hnl, List.getElem?_eq_getElem hs, pathOf]
  | succ k ih =>
    intro fuel data i hf hl hi
    obtain ⟨f, rfl⟩ : ∃ f, fuel = f + 1 := ⟨fuel - 1, by omega⟩
    have hl2 : data.length = 2 * 2 ^ (k + 1) := by rw [hl]; exact Nat.pow_succ'
    obtain ⟨hup, hnl⟩ := up1_spec H post data _ hl2
    have hs : sibIndex i < data.length := by
      rw [hl2]; exact sibIndex_lt i _ (by rw [← Nat.pow_succ']; exact hi)
    have hne : (up1 H post data).length ≠ 1 := by have := two_le_two_pow_succ k; omega
    have hi2 : i / 2 < 2 ^ (k + 1) := by
      have : i < 2 * 2 ^ (k + 1) := by rw [← Nat.pow_succ']; exact hi
      omega
    have := ih f (up1 H post data) (i / 2) (by omega) hnl hi2
    rw [merklePath]
    simp only [List.getElem?_eq_getElem hs, levelUp, hup, hne, if_false, this, Option.map_some]
    rw [show pathOf H post (k + 1 + 1) data i =
      (data[sibIndex i]?).getD default :: pathOf H post (k + 1) (up1 H post data) (i / 2) from rfl]
    simp only [List.getElem?_eq_getElem hs, Option.getD_some]

theorem rootOf_eq_lvl : ∀ (k fuel : Nat) (data : List HashRange),
    k + 1 ≤ fuel → data.length = 2 ^ (k + 1) →
    rootOf H post fuel data = (lvl H post (k + 1) data)[0]? := by
  intro k
  induction k with
  | zero =>
    intro fuel data hf hl
    obtain ⟨f, rfl⟩ : ∃ f, fuel = f + 1 := ⟨fuel - 1, by omega⟩
    have hl2 : data.length = 2 * 1 := by simpa using hl
    obtain ⟨hup, hnl⟩ := up1_spec H post data 1 hl2
    simp [rootOf, levelUp, hup, hnl, lvl, List.head?_eq_getElem?]
  | succ k ih =>
    intro fuel data hf hl
    obtain ⟨f, rfl⟩ : ∃ f, fuel = f + 1 := ⟨fuel - 1, by omega⟩
    have hl2 : data.length = 2 * 2 ^ (k + 1) := by rw [hl]; exact Nat.pow_succ'
    obtain ⟨hup, hnl⟩ := up1_spec H post data _ hl2
    have hne : (up1 H post data).length ≠ 1 := by have := two_le_two_pow_succ k; omega
    have := ih f (up1 H post data) (by omega) hnl
    rw [rootOf]
    simp only [levelUp, hup, hne, if_false, this]
    rfl

theorem pathOf_length : ∀ (n : Nat) (data : List HashRange) (i : Nat), (pathOf H post n data i).length = n
  | 0, _, _ => rfl
  | n + 1, d, i => by simp [pathOf, pathOf_length n]

end SumIndex
