import Proofs.Merkle.Tree
import Proofs.Merkle.Climb
set_option linter.unusedVariables false
/-! The verification loop run on the path produced by `merklePath` reaches the root. -/
namespace SumIndex

theorem goOdd_natCast (i : Nat) : goOdd (i : Int) = decide (i % 2 = 1) := by
  unfold goOdd
  have : Int.tmod (i : Int) 2 = ((i % 2 : Nat) : Int) := by
    simp [Int.tmod_eq_emod_of_nonneg]
  rw [this]
  rcases Nat.mod_two_eq_zero_or_one i with h | h <;> simp [h]

theorem tdiv_natCast (i : Nat) : Int.tdiv (i : Int) 2 = ((i / 2 : Nat) : Int) := by
  rw [Int.tdiv_eq_ediv_of_nonneg (by omega)]; simp

theorem u64_natCast (i : Nat) (h : i < two64) : u64 (i : Int) = i := by
  unfold u64
  have : ((i : Int) % (two64 : Int)) = (i : Int) := Int.emod_eq_of_lt (by omega) (by exact_mod_cast h)
  rw [this]; simp

variable (H : Bytes → Bytes) (post : Bool)

theorem climb_step_even (n j : Nat) (a b : HashRange) (rest : List HashRange)
    (ha : a.lower < a.upper) (hb : b.lower < b.upper) (hab : a.upper = b.lower) (hj : 2 * j + 1 < two64) :
    climb H post (n + 1) ((2 * j : Nat) : Int) a (b :: rest) =
      climb H post n ((j : Nat) : Int) (parent H post (2 * j) a b) rest := by
  have e1 : a.isValid = true := (isValid_iff a).mpr ha
  have e2 : b.isValid = true := (isValid_iff b).mpr hb
  have e3 : goOdd ((2 * j : Nat) : Int) = false := by rw [goOdd_natCast]; simp
  have e4 : Int.tdiv ((2 * j : Nat) : Int) 2 = ((j : Nat) : Int) := by rw [tdiv_natCast]; congr 1; omega
  have e5 : u64 ((2 * j : Nat) : Int) = 2 * j := u64_natCast _ (by omega)
  have e6 : u64 (((2 * j : Nat) : Int) + 1) = 2 * j + 1 := by
    have : (((2 * j : Nat) : Int) + 1) = ((2 * j + 1 : Nat) : Int) := by simp
    rw [this]; exact u64_natCast _ hj
  rw [climb]
  simp only [e1, e2, e3, e4, e5, e6, hab, parent]
  simp

theorem climb_step_odd (n j : Nat) (a b : HashRange) (rest : List HashRange)
    (ha : a.lower < a.upper) (hb : b.lower < b.upper) (hab : a.upper = b.lower) (hj : 2 * j + 1 < two64) :
    climb H post (n + 1) ((2 * j + 1 : Nat) : Int) b (a :: rest) =
      climb H post n ((j : Nat) : Int) (parent H post (2 * j) a b) rest := by
  have e1 : a.isValid = true := (isValid_iff a).mpr ha
  have e2 : b.isValid = true := (isValid_iff b).mpr hb
  have e3 : goOdd ((2 * j + 1 : Nat) : Int) = true := by rw [goOdd_natCast]; simp
  have e4 : Int.tdiv ((2 * j + 1 : Nat) : Int) 2 = ((j : Nat) : Int) := by rw [tdiv_natCast]; congr 1; omega
  have e5 : u64 ((2 * j + 1 : Nat) : Int) = 2 * j + 1 := u64_natCast _ hj
  have e6 : u64 (((2 * j + 1 : Nat) : Int) - 1) = 2 * j := by
    have : (((2 * j + 1 : Nat) : Int) - 1) = ((2 * j : Nat) : Int) := by simp
    rw [this]; exact u64_natCast _ (by omega)
  rw [climb]
  simp only [e1, e2, e3, e4, e5, e6, hab, parent]
  simp

/-- The two children of position `i / 2` exist in a level of even length `2m` when `i < 2m`. -/
theorem pair_exists (data : List HashRange) (m i : Nat) (hl : data.length = 2 * m) (hi : i < 2 * m) :
    ∃ a b, data[2 * (i / 2)]? = some a ∧ data[2 * (i / 2) + 1]? = some b := by
  have h1 : 2 * (i / 2) < data.length := by omega
  have h2 : 2 * (i / 2) + 1 < data.length := by omega
  exact ⟨data[2 * (i / 2)], data[2 * (i / 2) + 1], List.getElem?_eq_getElem h1, List.getElem?_eq_getElem h2⟩

/-- **Main lemma of C29.**  On a level of `2^(k+1)` contiguous non-empty ranges, `merklePath` returns
`k+1` siblings, `rootOf` returns a root spanning the whole level, and the verification loop started
at node `i` with that path arrives exactly at that root. -/
theorem climb_merklePath : ∀ (k fuel : Nat) (data : List HashRange) (lo i : Nat),
    k + 1 ≤ fuel → data.length = 2 ^ (k + 1) → 2 ^ (k + 1) ≤ two64 → Contig lo data → AllValid data →
    i < 2 ^ (k + 1) →
    ∃ path r t, merklePath H post fuel data i = some path ∧ rootOf H post fuel data = some r ∧
      data[i]? = some t ∧ path.length = k + 1 ∧
      climb H post (k + 1) ((i : Nat) : Int) t path = .top r 0 ∧
      r.lower = lo ∧ r.upper = chainEnd lo data := by
  intro k
  induction k with
  | zero =>
    intro fuel data lo i hf hl h64 hc hv hi
    obtain ⟨f, rfl⟩ : ∃ f, fuel = f + 1 := ⟨fuel - 1, by omega⟩
    have hl2 : data.length = 2 * 1 := by simpa using hl
    obtain ⟨next, hnext⟩ := levelUpFrom_isSome H post 1 data 0 hl2
    have hnl : next.length = 1 := by have := levelUpFrom_length H post data 0 next hnext; omega
    obtain ⟨a, b, ha, hb⟩ := pair_exists data 1 i hl2 (by simpa using hi)
    have hj : i / 2 = 0 := by simp at hi; omega
    rw [hj] at ha hb
    have hn0 := levelUpFrom_getElem H post data 0 next hnext 0 a b ha hb
    have hab := Contig.adjacent data lo 0 a b hc ha hb
    have hva := AllValid.getElem data hv _ a ha
    have hvb := AllValid.getElem data hv _ b hb
    have ⟨hc', he'⟩ := levelUpFrom_contig H post data 0 lo next hnext hc
    have hhead : next.head? = some (parent H post 0 a b) := by
      rw [List.head?_eq_getElem?]; simpa using hn0
    have hnexteq : next = [parent H post 0 a b] := by
      match next, hnl, hhead with
      | [x], _, hh => simp at hh; rw [hh]
    have hrl : (parent H post 0 a b).lower = lo := by
      have := Contig.head_lower data lo a hc ha; simpa [parent] using this
    have hru : (parent H post 0 a b).upper = chainEnd lo data := by
      rw [← he', hnexteq]; rfl
    have hi2 : i = 0 ∨ i = 1 := by simp at hi; omega
    rcases hi2 with rfl | rfl
    · refine ⟨[b], parent H post 0 a b, a, ?_, ?_, ha, rfl, ?_, hrl, hru⟩
      · simp [merklePath, sibIndex, levelUp, hnext, hnl, hb]
      · simp [rootOf, levelUp, hnext, hnl, hhead]
      · have := climb_step_even H post 0 0 a b [] hva hvb hab (by decide)
        simpa [climb] using this
    · refine ⟨[a], parent H post 0 a b, b, ?_, ?_, hb, rfl, ?_, hrl, hru⟩
      · simp [merklePath, sibIndex, levelUp, hnext, hnl, ha]
      · simp [rootOf, levelUp, hnext, hnl, hhead]
      · have := climb_step_odd H post 0 0 a b [] hva hvb hab (by decide)
        simpa [climb] using this
  | succ k ih =>
    intro fuel data lo i hf hl h64 hc hv hi
    obtain ⟨f, rfl⟩ : ∃ f, fuel = f + 1 := ⟨fuel - 1, by omega⟩
    have hl2 : data.length = 2 * 2 ^ (k + 1) := by rw [hl]; exact Nat.pow_succ'
    obtain ⟨next, hnext⟩ := levelUpFrom_isSome H post _ data 0 hl2
    have hnl : next.length = 2 ^ (k + 1) := by
      have := levelUpFrom_length H post data 0 next hnext; omega
    have hpos : 2 ≤ 2 ^ (k + 1) := by
      have : 2 ^ 1 ≤ 2 ^ (k + 1) := Nat.pow_le_pow_right (by decide) (by omega)
      simpa using this
    have hne1 : next.length ≠ 1 := by omega
    have hi' : i < 2 * 2 ^ (k + 1) := by rw [← Nat.pow_succ']; exact hi
    obtain ⟨a, b, ha, hb⟩ := pair_exists data _ i hl2 hi'
    have hn0 := levelUpFrom_getElem H post data 0 next hnext (i / 2) a b ha hb
    have hab := Contig.adjacent data lo _ a b hc ha hb
    have hva := AllValid.getElem data hv _ a ha
    have hvb := AllValid.getElem data hv _ b hb
    have ⟨hc', he'⟩ := levelUpFrom_contig H post data 0 lo next hnext hc
    have hv' := levelUpFrom_allValid H post data 0 lo next hnext hc hv
    have h64' : 2 ^ (k + 1) ≤ two64 := by omega
    have hj : i / 2 < 2 ^ (k + 1) := by omega
    obtain ⟨path', r, t', hp', hr', ht', hlen', hclimb', hrl, hru⟩ :=
      ih f next lo (i / 2) (by omega) hnl h64' hc' hv' hj
    have ht'eq : t' = parent H post (2 * (i / 2)) a b := by
      rw [ht'] at hn0; simpa using hn0
    have hjj : 2 * (i / 2) + 1 < two64 := by omega
    rcases Nat.mod_two_eq_zero_or_one i with hpar | hpar
    · have hi_eq : i = 2 * (i / 2) := by omega
      refine ⟨b :: path', r, a, ?_, ?_, by rw [hi_eq]; exact ha, by simp [hlen'], ?_, hrl, by rw [hru, he']⟩
      · have hs : data[sibIndex i]? = some b := by
          have : sibIndex i = 2 * (i / 2) + 1 := by simp [sibIndex, hpar]; omega
          rw [this]; exact hb
        simp [merklePath, levelUp, hnext, hne1, hs, hp']
      · simp [rootOf, levelUp, hnext, hne1, hr']
      · have := climb_step_even H post (k + 1) (i / 2) a b path' hva hvb hab hjj
        have hcast : ((i : Nat) : Int) = ((2 * (i / 2) : Nat) : Int) := by rw [← hi_eq]
        rw [hcast, this, ← ht'eq]; exact hclimb'
    · have hi_eq : i = 2 * (i / 2) + 1 := by omega
      refine ⟨a :: path', r, b, ?_, ?_, by rw [hi_eq]; exact hb, by simp [hlen'], ?_, hrl, by rw [hru, he']⟩
      · have hs : data[sibIndex i]? = some a := by
          have : sibIndex i = 2 * (i / 2) := by simp [sibIndex, hpar]; omega
          rw [this]; exact ha
        simp [merklePath, levelUp, hnext, hne1, hs, hp']
      · simp [rootOf, levelUp, hnext, hne1, hr']
      · have := climb_step_odd H post (k + 1) (i / 2) a b path' hva hvb hab hjj
        have hcast : ((i : Nat) : Int) = ((2 * (i / 2) + 1 : Nat) : Int) := by rw [← hi_eq]
        rw [hcast, this, ← ht'eq]; exact hclimb'

end SumIndex
