import PocketModel.Merkle.SumIndex
set_option linter.unusedVariables false
/-! Byte layout of the parent-hash input: with 32-byte child hashes it is an injective encoding. -/
namespace SumIndex

theorem leBytes_length : ∀ (k x : Nat), (leBytes k x).length = k
  | 0, _ => rfl
  | k + 1, x => by simp [leBytes, leBytes_length k]

theorem leNat_leBytes : ∀ (k x : Nat), leNat (leBytes k x) = x % 256 ^ k
  | 0, x => by simp [leBytes, leNat, Nat.mod_one]
  | k + 1, x => by
    simp only [leBytes, leNat, leNat_leBytes k]
    have h : (UInt8.ofNat (x % 256)).toNat = x % 256 := by
      simp [UInt8.toNat_ofNat']
    rw [h, Nat.pow_succ, Nat.mul_comm (256 ^ k) 256, Nat.mod_mul]

theorem le8_inj (x y : Nat) (hx : x < two64) (hy : y < two64) (h : le8 x = le8 y) : x = y := by
  have := congrArg leNat h
  simp only [le8, leNat_leBytes] at this
  have e : (256 : Nat) ^ 8 = two64 := by decide
  rw [e, Nat.mod_eq_of_lt hx, Nat.mod_eq_of_lt hy] at this
  exact this

theorem le8_length (x : Nat) : (le8 x).length = 8 := leBytes_length 8 x

theorem multiAppend_exact (size : Nat) (parts : List Bytes) (h : parts.flatten.length = size) :
    multiAppend size parts = parts.flatten := by
  subst h
  simp only [multiAppend, List.take_length, Nat.sub_self, List.replicate_zero, List.append_nil]

theorem parentInput_post (h1 h2 : Bytes) (lo up i1 i2 : Nat) (l1 : h1.length = 32) (l2 : h2.length = 32) :
    parentInput true h1 h2 lo up i1 i2 = h1 ++ (h2 ++ ((le8 i1 ++ le8 i2) ++ (le8 lo ++ le8 up))) := by
  simp only [parentInput, if_true]
  rw [multiAppend_exact]
  · simp
  · simp [l1, l2, le8_length]

theorem parentInput_pre (h1 h2 : Bytes) (lo up i1 i2 : Nat) (l1 : h1.length = 32) (l2 : h2.length = 32) :
    parentInput false h1 h2 lo up i1 i2 = h1 ++ (h2 ++ (le8 lo ++ le8 up)) := by
  simp only [parentInput, Bool.false_eq_true, if_false]
  rw [multiAppend_exact]
  · simp
  · simp [l1, l2, le8_length]

/-- Post-upgrade layout: equal inputs have equal components. -/
theorem parentInput_post_inj (h1 h2 g1 g2 : Bytes) (lo up i1 i2 lo' up' j1 j2 : Nat)
    (l1 : h1.length = 32) (l2 : h2.length = 32) (m1 : g1.length = 32) (m2 : g2.length = 32)
    (b1 : lo < two64) (b2 : up < two64) (b3 : i1 < two64) (b4 : i2 < two64)
    (c1 : lo' < two64) (c2 : up' < two64) (c3 : j1 < two64) (c4 : j2 < two64)
    (h : parentInput true h1 h2 lo up i1 i2 = parentInput true g1 g2 lo' up' j1 j2) :
    h1 = g1 ∧ h2 = g2 ∧ lo = lo' ∧ up = up' ∧ i1 = j1 ∧ i2 = j2 := by
  rw [parentInput_post _ _ _ _ _ _ l1 l2, parentInput_post _ _ _ _ _ _ m1 m2] at h
  obtain ⟨e1, h⟩ := List.append_inj h (by rw [l1, m1])
  obtain ⟨e2, h⟩ := List.append_inj h (by rw [l2, m2])
  obtain ⟨hi, hr⟩ := List.append_inj h (by simp [le8_length])
  obtain ⟨e3, e4⟩ := List.append_inj hi (by simp [le8_length])
  obtain ⟨e5, e6⟩ := List.append_inj hr (by simp [le8_length])
  exact ⟨e1, e2, le8_inj _ _ b1 c1 e5, le8_inj _ _ b2 c2 e6, le8_inj _ _ b3 c3 e3, le8_inj _ _ b4 c4 e4⟩

/-- Pre-upgrade layout: hashes and range, no indices. -/
theorem parentInput_pre_inj (h1 h2 g1 g2 : Bytes) (lo up i1 i2 lo' up' j1 j2 : Nat)
    (l1 : h1.length = 32) (l2 : h2.length = 32) (m1 : g1.length = 32) (m2 : g2.length = 32)
    (b1 : lo < two64) (b2 : up < two64) (c1 : lo' < two64) (c2 : up' < two64)
    (h : parentInput false h1 h2 lo up i1 i2 = parentInput false g1 g2 lo' up' j1 j2) :
    h1 = g1 ∧ h2 = g2 ∧ lo = lo' ∧ up = up' := by
  rw [parentInput_pre _ _ _ _ _ _ l1 l2, parentInput_pre _ _ _ _ _ _ m1 m2] at h
  obtain ⟨e1, h⟩ := List.append_inj h (by rw [l1, m1])
  obtain ⟨e2, h⟩ := List.append_inj h (by rw [l2, m2])
  obtain ⟨e5, e6⟩ := List.append_inj h (by simp [le8_length])
  exact ⟨e1, e2, le8_inj _ _ b1 c1 e5, le8_inj _ _ b2 c2 e6⟩

/-- Either layout: equal inputs have equal hashes and bounds, and after the upgrade equal indices. -/
theorem parentInput_inj (post : Bool) (h1 h2 g1 g2 : Bytes) (lo up i1 i2 lo' up' j1 j2 : Nat)
    (l1 : h1.length = 32) (l2 : h2.length = 32) (m1 : g1.length = 32) (m2 : g2.length = 32)
    (b1 : lo < two64) (b2 : up < two64) (b3 : i1 < two64) (b4 : i2 < two64)
    (c1 : lo' < two64) (c2 : up' < two64) (c3 : j1 < two64) (c4 : j2 < two64)
    (h : parentInput post h1 h2 lo up i1 i2 = parentInput post g1 g2 lo' up' j1 j2) :
    h1 = g1 ∧ h2 = g2 ∧ lo = lo' ∧ up = up' ∧ (post = true → i1 = j1 ∧ i2 = j2) := by
  cases post with
  | true =>
    obtain ⟨e1, e2, e3, e4, e5, e6⟩ := parentInput_post_inj h1 h2 g1 g2 lo up i1 i2 lo' up' j1 j2
      l1 l2 m1 m2 b1 b2 b3 b4 c1 c2 c3 c4 h
    exact ⟨e1, e2, e3, e4, fun _ => ⟨e5, e6⟩⟩
  | false =>
    obtain ⟨e1, e2, e3, e4⟩ := parentInput_pre_inj h1 h2 g1 g2 lo up i1 i2 lo' up' j1 j2
      l1 l2 m1 m2 b1 b2 c1 c2 h
    exact ⟨e1, e2, e3, e4, fun h => by simp at h⟩

end SumIndex
