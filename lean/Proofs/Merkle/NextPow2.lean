import Proofs.Merkle.Levels
/-! `nextPowerOfTwo` (bit smearing with shifts 1,2,4,8,16) is `2 ^ levels n` for `1 ≤ n ≤ 2^32`. -/
namespace SumIndex

/-- One smearing step doubles the window of bits that are or-ed together. -/
theorem smear_step (v g : Nat) (w : Nat)
    (hg : ∀ j, g.testBit j = true ↔ ∃ s, s < w ∧ v.testBit (j + s) = true) :
    ∀ j, (g ||| (g >>> w)).testBit j = true ↔ ∃ s, s < 2 * w ∧ v.testBit (j + s) = true := by
  intro j
  rw [Nat.testBit_or, Nat.testBit_shiftRight, Bool.or_eq_true, hg, hg]
  constructor
  · rintro (⟨s, hs, h⟩ | ⟨s, hs, h⟩)
    · exact ⟨s, by omega, h⟩
    · exact ⟨w + s, by omega, by rw [← Nat.add_assoc, Nat.add_comm j w]; exact h⟩
  · rintro ⟨s, hs, h⟩
    by_cases hsw : s < w
    · exact Or.inl ⟨s, hsw, h⟩
    · refine Or.inr ⟨s - w, by omega, ?_⟩
      have : w + j + (s - w) = j + s := by omega
      rw [this]; exact h

/-- The smeared value of `v` with top bit `m ≤ 31` is `2^(m+1) - 1`. -/
theorem smear_eq (v v1 v2 v3 v4 v5 : Nat) (hv : v ≠ 0) (h32 : v < 2 ^ 32)
    (e1 : v1 = v ||| (v >>> 1)) (e2 : v2 = v1 ||| (v1 >>> 2)) (e3 : v3 = v2 ||| (v2 >>> 4))
    (e4 : v4 = v3 ||| (v3 >>> 8)) (e5 : v5 = v4 ||| (v4 >>> 16)) : v5 = 2 ^ (v.log2 + 1) - 1 := by
  subst e1 e2 e3 e4 e5
  have h0 : ∀ j, v.testBit j = true ↔ ∃ s, s < 1 ∧ v.testBit (j + s) = true := by
    intro j
    constructor
    · intro h; exact ⟨0, by omega, by simpa using h⟩
    · rintro ⟨s, hs, h⟩
      have : s = 0 := by omega
      subst this; simpa using h
  have h1 := smear_step v _ 1 h0
  have h2 := smear_step v _ 2 h1
  have h3 := smear_step v _ 4 h2
  have h4 := smear_step v _ 8 h3
  have h5 := smear_step v _ 16 h4
  have hm : v.log2 < 32 := (Nat.log2_lt hv).mpr h32
  apply Nat.eq_of_testBit_eq
  intro j
  rw [Nat.testBit_two_pow_sub_one]
  by_cases hj : j < v.log2 + 1
  · simp only [hj, decide_true]
    exact (h5 j).mpr ⟨v.log2 - j, by omega, by
      have : j + (v.log2 - j) = v.log2 := by omega
      rw [this]; exact Nat.testBit_log2 hv⟩
  · simp only [hj, decide_false]
    rw [Bool.eq_false_iff]
    intro hcon
    obtain ⟨s, _, hs⟩ := (h5 j).mp hcon
    have hlt : v < 2 ^ (j + s) := by
      have : v < 2 ^ (v.log2 + 1) := Nat.lt_log2_self
      exact Nat.lt_of_lt_of_le this (Nat.pow_le_pow_right (by decide) (by omega))
    rw [Nat.testBit_lt_two_pow hlt] at hs
    exact Bool.false_ne_true hs

theorem nextPowerOfTwo_eq (n : Nat) (h1 : 1 ≤ n) (h32 : n ≤ 2 ^ 32) :
    nextPowerOfTwo n = 2 ^ levels n := by
  have hv : (n + two64 - 1) % two64 = n - 1 := by
    have : n + two64 - 1 = (n - 1) + two64 := by omega
    rw [this, Nat.add_mod_right]
    exact Nat.mod_eq_of_lt (by unfold two64; omega)
  unfold nextPowerOfTwo
  simp only [hv]
  by_cases hn1 : n = 1
  · subst hn1; decide
  · have hne : n - 1 ≠ 0 := by omega
    have hlt : n - 1 < 2 ^ 32 := by omega
    have := smear_eq (n - 1) _ _ _ _ _ hne hlt rfl rfl rfl rfl rfl
    rw [this]
    have hlev : levels n = (n - 1).log2 + 1 := by simp [levels]; omega
    rw [hlev]
    have hm : (n - 1).log2 < 32 := (Nat.log2_lt hne).mpr hlt
    have hp : 0 < 2 ^ ((n - 1).log2 + 1) := Nat.two_pow_pos _
    have hle : 2 ^ ((n - 1).log2 + 1) ≤ 2 ^ 32 := Nat.pow_le_pow_right (by decide) (by omega)
    have : 2 ^ ((n - 1).log2 + 1) - 1 + 1 = 2 ^ ((n - 1).log2 + 1) := by omega
    rw [this]
    exact Nat.mod_eq_of_lt (by unfold two64; omega)

/-- Beyond 2^32 the shifts no longer cover the word: the result is not a power of two. -/
theorem nextPowerOfTwo_large : nextPowerOfTwo (2 ^ 32 + 1) = 2 ^ 33 - 1 := by decide

end SumIndex
