import Proofs.Merkle.Structure
import Proofs.Merkle.Bridge
set_option linter.unusedVariables false
/-! Shape of the leaf level for *any* entries (duplicates allowed): what soundness needs. -/
namespace SumIndex
variable (H : Bytes → Bytes)

theorem leNat_lt : ∀ b : Bytes, leNat b < 256 ^ b.length
  | [] => by simp [leNat]
  | x :: xs => by
    have := leNat_lt xs
    have hx : x.toNat < 256 := x.toNat_lt
    simp only [leNat, List.length_cons, Nat.pow_succ]
    omega

theorem sumFromHash_lt (h : Bytes) : sumFromHash h < two64 := by
  unfold sumFromHash
  have h1 := leNat_lt (h.take 8)
  have h2 : (h.take 8).length ≤ 8 := by simp [List.length_take]; omega
  have h3 : 256 ^ (h.take 8).length ≤ 256 ^ 8 := Nat.pow_le_pow_right (by decide) h2
  have e : (256 : Nat) ^ 8 = two64 := by decide
  omega

theorem chainLower_nodeOK : ∀ (l : List HashRange) (lo : Nat), lo < two64 →
    (∀ x ∈ l, x.hash.length = 32 ∧ x.upper < two64) →
    (∀ y ∈ (chainLower lo l).1, NodeOK y) ∧ (chainLower lo l).2 < two64
  | [], lo, hlo, _ => ⟨by intro y hy; simp [chainLower] at hy, hlo⟩
  | x :: xs, lo, hlo, h => by
    have hx := h x List.mem_cons_self
    have ih := chainLower_nodeOK xs x.upper hx.2 (fun y hy => h y (List.mem_cons_of_mem _ hy))
    refine ⟨?_, ih.2⟩
    intro y hy
    simp only [chainLower, List.mem_cons] at hy
    rcases hy with rfl | hy
    · exact ⟨hx.1, hlo, hx.2⟩
    · exact ih.1 y hy

theorem padding_nodeOK (hH : ∀ x, (H x).length = 32) : ∀ (c i lower : Nat), lower < two64 →
    ∀ y ∈ padding H c i lower, NodeOK y
  | 0, _, _, _ => by intro y hy; simp [padding] at hy
  | c + 1, i, lower, hlo => by
    have hm : (lower + 1) % two64 < two64 := Nat.mod_lt _ (by unfold two64; omega)
    intro y hy
    simp only [padding, List.mem_cons] at hy
    rcases hy with rfl | hy
    · exact ⟨hH _, hlo, hm⟩
    · exact padding_nodeOK hH c (i + 1) _ hm y hy

theorem padding_getElem : ∀ (c i lower j : Nat) (t : HashRange), (padding H c i lower)[j]? = some t →
    t.hash = H (Bytes.ofString (toString (i + j)))
  | 0, _, _, _, _, h => by simp [padding] at h
  | c + 1, i, lower, 0, t, h => by simp [padding] at h; subst h; rfl
  | c + 1, i, lower, j + 1, t, h => by
    simp only [padding, List.getElem?_cons_succ] at h
    have := padding_getElem c (i + 1) _ j t h
    rw [this]; congr 3; omega

/-- The leaf level built from any `1 ≤ n ≤ 2^32` entries with 32-byte hashes. -/
theorem structureEntries_shape (hH : ∀ x, (H x).length = 32) (es : List Entry) (h1 : 1 ≤ es.length)
    (h32 : es.length ≤ 2 ^ 32) (hh : ∀ e ∈ es, e.hash.length = 32) :
    ∃ data : List HashRange, structureEntries H es = some (data, (es.mergeSort Entry.le).map (·.leaf)) ∧
      data.length = 2 ^ levels es.length ∧ Contig 0 data ∧ (∀ x ∈ data, NodeOK x) ∧
      (∀ (i : Nat) (e : Entry), (es.mergeSort Entry.le)[i]? = some e →
        ∃ t : HashRange, data[i]? = some t ∧ t.hash = e.hash ∧ t.upper = sumFromHash e.hash) ∧
      (∀ (i : Nat) (t : HashRange), es.length ≤ i → data[i]? = some t →
        t.hash = H (Bytes.ofString (toString i))) := by
  have hnp := nextPowerOfTwo_eq es.length h1 h32
  have hle := le_two_pow_levels es.length
  have hperm : (es.mergeSort Entry.le).Perm es := List.mergeSort_perm es Entry.le
  have hslen : (es.mergeSort Entry.le).length = es.length := List.length_mergeSort es
  generalize hs : es.mergeSort Entry.le = sorted at *
  have hc := chainLower_contig (rawLeaves sorted) 0
  have hrl : (rawLeaves sorted).length = es.length := by simp [rawLeaves, hslen]
  have hcl := chainLower_length (rawLeaves sorted) 0
  have hok := chainLower_nodeOK (rawLeaves sorted) 0 (by unfold two64; omega) (by
    intro x hx
    simp only [rawLeaves, List.mem_map] at hx
    obtain ⟨e, he, rfl⟩ := hx
    exact ⟨hh e (hperm.mem_iff.mp he), sumFromHash_lt _⟩)
  refine ⟨(chainLower 0 (rawLeaves sorted)).1 ++
      padding H (2 ^ levels es.length - es.length) es.length (chainLower 0 (rawLeaves sorted)).2, ?_, ?_, ?_, ?_, ?_, ?_⟩
  · unfold structureEntries
    have hne : es.length ≠ 0 := by omega
    simp only [hne, if_false, hnp]
    have : ¬ (2 ^ levels es.length < es.length) := by omega
    simp only [this, if_false]
    subst hs
    rfl
  · simp [padding_length, hcl, hrl]; omega
  · exact Contig.append _ _ 0 hc.1 (by rw [hc.2]; exact padding_contig H _ _ _)
  · intro x hx
    rcases List.mem_append.mp hx with h | h
    · exact hok.1 x h
    · exact padding_nodeOK H hH _ _ _ hok.2 x h
  · intro i e hi
    have hraw : (rawLeaves sorted)[i]? = some { hash := e.hash, lower := 0, upper := sumFromHash e.hash } := by
      simp [rawLeaves, hi]
    obtain ⟨t, ht, e1, e2⟩ := chainLower_getElem (rawLeaves sorted) 0 i _ hraw
    refine ⟨t, ?_, e1, e2⟩
    have hlt : i < (chainLower 0 (rawLeaves sorted)).1.length := (List.getElem?_eq_some_iff.mp ht).1
    rw [List.getElem?_append_left hlt]; exact ht
  · intro i t hi ht
    have hge : (chainLower 0 (rawLeaves sorted)).1.length ≤ i := by rw [hcl, hrl]; exact hi
    rw [List.getElem?_append_right hge] at ht
    have := padding_getElem H _ _ _ _ t ht
    rw [this, hcl, hrl]; congr 3; omega

end SumIndex
