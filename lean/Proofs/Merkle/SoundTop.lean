import Proofs.Merkle.Shape
import Proofs.Merkle.Honest
set_option linter.unusedVariables false
/-! Soundness of `Validate` against a root generated from committed entries. -/
namespace SumIndex
variable (H : Bytes → Bytes) (post : Bool)

theorem u64_eq_imp (x : Int) (i : Nat) (h : u64 x = i) (h1 : -(2^63 : Int) ≤ x) (h2 : x < 2^63)
    (hi : i < 2^63) : x = i := by
  unfold u64 two64 at h
  omega

/-- Type invariants of a decoded `MerkleProof` (`uint64` bounds, `int64` index) **plus** 32-byte
sibling hashes — the latter is *not* enforced by the code (see `sibling_hash_extension_accepted`). -/
def WireOK (p : MerkleProof) : Prop :=
  (∀ s ∈ p.hashRanges, NodeOK s) ∧ p.target.lower < two64 ∧ p.target.upper < two64 ∧
    -(2^63 : Int) ≤ p.index ∧ p.index < 2^63

/-- How an accepted proof `p` relates to the committed proof `hp` of position `i`: same hashes
throughout; identical when `i` is even; when `i` is odd identical except for the one boundary that
no hash absorbs (`p.target.lower = first sibling's upper`). -/
def Agree (i : Nat) (p hp : MerkleProof) : Prop :=
  p.target.hash = hp.target.hash ∧ p.target.upper = hp.target.upper ∧
  (i % 2 = 0 → p.target = hp.target ∧ p.hashRanges = hp.hashRanges) ∧
  (i % 2 = 1 → ∃ s0 rest h0, p.hashRanges = s0 :: rest ∧ hp.hashRanges = h0 :: rest ∧
      s0.hash = h0.hash ∧ s0.lower = h0.lower ∧ s0.upper = p.target.lower ∧ h0.upper = hp.target.lower)

/-- Unfolding of an accepting `validateH`. -/
theorem validateH_accept (p : MerkleProof) (root : HashRange) (lh : Bytes) (n : Nat) (rep : Bool)
    (h : validateH H post p root lh n = some (true, rep)) :
    root.lower = 0 ∧ p.target.hash = lh ∧ p.target.upper = sumFromHash p.target.hash ∧
    ∃ fin, climb H post n p.index p.target p.hashRanges = .top root fin := by
  unfold validateH at h
  by_cases h1 : root.lower ≠ 0
  · simp [h1] at h
  · by_cases h2 : p.target.hash ≠ lh
    · simp [h1, h2] at h
    · by_cases h3 : p.target.upper ≠ sumFromHash p.target.hash
      · simp [h1, h2, h3] at h
      · simp only [h1, h2, h3, if_false] at h
        cases hc : climb H post n p.index p.target p.hashRanges with
        | panic => simp [hc] at h
        | fail r => simp [hc] at h
        | top t fin =>
          simp only [hc] at h
          by_cases h4 : root = t
          · subst h4
            exact ⟨by simpa using h1, by simpa using h2, by simpa using h3, fin, rfl⟩
          · simp [h4] at h

/-- **Soundness against committed entries.** -/
theorem validate_sound_entries (hH : ∀ x, (H x).length = 32) (es : List Entry)
    (h2 : 2 ≤ es.length) (h32 : es.length ≤ 2 ^ 32) (hleaf : ∀ e ∈ es, e.hash = H e.leaf)
    (root : HashRange) (sorted : List Bytes) (hroot : genRootE H post es = some (root, sorted))
    (p : MerkleProof) (hw : WireOK p) (hlen : p.hashRanges.length = levels es.length)
    (leaf : Bytes) (rep : Bool)
    (hv : validate H post p root leaf (levels es.length) = some (true, rep)) :
    Collision H ∨
    ∃ i : Nat, i = pathIndex (levels es.length) p.index ∧ i < 2 ^ levels es.length ∧
      (post = true → p.index = (i : Int)) ∧
      (∀ hp hleafb, genProofE H post es i = some (hp, hleafb) → leaf = hleafb ∧ Agree i p hp) ∧
      (es.length ≤ i → leaf = Bytes.ofString (toString i)) := by
  obtain ⟨data, hstruct, hdl, hc, hok, hget, hpad⟩ :=
    structureEntries_shape H hH es (by omega) h32 (fun e he => by rw [hleaf e he]; exact hH _)
  obtain ⟨k, hk⟩ : ∃ k, levels es.length = k + 1 := ⟨levels es.length - 1, by have := levels_pos _ h2; omega⟩
  have hk32 : k + 1 ≤ 32 := by have := levels_le_32 _ h32; omega
  rw [hk] at hdl hlen hv ⊢
  have hfuel : k + 1 ≤ data.length := by rw [hdl]; exact Nat.le_of_lt Nat.lt_two_pow_self
  -- the root is the top of the committed tree
  have hr : (lvl H post (k + 1) data)[0]? = some root := by
    simp only [genRootE, hstruct, Option.map_eq_some_iff] at hroot
    obtain ⟨r, hr, he⟩ := hroot
    rw [rootOf_eq_lvl H post k data.length data hfuel hdl] at hr
    have : r = root := by injection he
    rw [← this]; exact hr
  have hsorted : sorted = (es.mergeSort Entry.le).map (·.leaf) := by
    simp only [genRootE, hstruct, Option.map_eq_some_iff] at hroot
    obtain ⟨r, _, he⟩ := hroot
    injection he with _ e2; exact e2.symm
  obtain ⟨hrl, hth, htu, fin, hclimb⟩ := validateH_accept H post p root (H leaf) (k + 1) rep hv
  obtain ⟨hsok, htl, htup, hi1, hi2⟩ := hw
  have htok : NodeOK p.target := ⟨by rw [hth]; exact hH _, htl, htup⟩
  rcases climb_sound H post hH (k + 1) data 0 p.index p.target p.hashRanges root fin hdl (by omega)
      hok hc htok hsok hlen hclimb ⟨root, hr, rfl⟩ with hcol | hbd
  · exact Or.inl hcol
  have hbd' := hbd
  obtain ⟨d, hd, hh, hcase⟩ := hbd
  have hilt := pathIndex_lt (k + 1) p.index
  rcases hcase with h0 | ⟨p0, s0, rest, hp0, hsibs, hsh, hrest, hidx, hev, hod⟩
  · omega
  -- the leaf: a different leaf with the same hash is a collision
  by_cases hcolleaf : ∃ e, (es.mergeSort Entry.le)[pathIndex (k + 1) p.index]? = some e ∧ leaf ≠ e.leaf
  · obtain ⟨e, he, hne⟩ := hcolleaf
    obtain ⟨t, ht, e1, e2⟩ := hget _ e he
    rw [hd] at ht
    have htd : d = t := Option.some.inj ht
    have hmem : e ∈ es := (List.mergeSort_perm es Entry.le).mem_iff.mp (List.mem_of_getElem? he)
    refine Or.inl ⟨leaf, e.leaf, hne, ?_⟩
    rw [← hth, hh, htd, e1, hleaf e hmem]
  by_cases hcolpad : es.length ≤ pathIndex (k + 1) p.index ∧
      leaf ≠ Bytes.ofString (toString (pathIndex (k + 1) p.index))
  · obtain ⟨hge, hne⟩ := hcolpad
    refine Or.inl ⟨leaf, _, hne, ?_⟩
    rw [← hth, hh, hpad _ d hge hd]
  refine Or.inr ⟨pathIndex (k + 1) p.index, rfl, hilt, ?_, ?_, ?_⟩
  · intro hp
    have h63 : pathIndex (k + 1) p.index < 2 ^ 63 := by
      have : 2 ^ (k + 1) ≤ 2 ^ 63 := Nat.pow_le_pow_right (by decide) (by omega)
      omega
    exact u64_eq_imp _ _ (hidx hp) hi1 hi2 h63
  · intro hp hleafb hgp
    simp only [genProofE, hstruct] at hgp
    rw [merklePath_eq_pathOf H post k data.length data _ hfuel hdl hilt] at hgp
    rw [hd] at hgp
    simp only [List.getElem?_map] at hgp
    cases hse : (es.mergeSort Entry.le)[pathIndex (k + 1) p.index]? with
    | none => simp [hse] at hgp
    | some e =>
      · simp only [hse, Option.map_some, Option.some.injEq, Prod.mk.injEq] at hgp
        obtain ⟨rfl, hsl⟩ := hgp
        obtain ⟨t, ht, e1, e2⟩ := hget _ e hse
        rw [hd] at ht
        have htd : d = t := Option.some.inj ht
        subst htd
        constructor
        · apply Classical.byContradiction
          intro hne
          exact hcolleaf ⟨e, hse, by rw [hsl]; exact hne⟩
        · have hup : p.target.upper = d.upper := by rw [htu, hh, e2, e1]
          refine ⟨hh, hup, ?_, ?_⟩
          · intro hpar
            obtain ⟨e3, e4, e5⟩ := hev hpar
            have hteq : p.target = d := by
              cases hpt : p.target; cases d; simp_all
            refine ⟨hteq, ?_⟩
            exact Bound.sibs_eq H post (k + 1) data 0 p.index p.target p.hashRanges hdl hc hlen hbd'
              (fun d' hd' => by
                rw [hd] at hd'
                have := Option.some.inj hd'
                subst this
                exact ⟨e3, hup⟩)
          · intro hpar
            obtain ⟨e3, e4, e5⟩ := hod hpar
            have hadjc : p0.upper = d.lower := by
              have hsib : sibIndex (pathIndex (k + 1) p.index) = pathIndex (k + 1) p.index - 1 := by
                simp [sibIndex, hpar]
              have hge : 1 ≤ pathIndex (k + 1) p.index := by omega
              rw [hsib] at hp0
              have hd2 : data[pathIndex (k + 1) p.index - 1 + 1]? = some d := by
                rw [Nat.sub_add_cancel hge]; exact hd
              exact Contig.adjacent data 0 _ p0 d hc hp0 hd2
            refine ⟨s0, rest, p0, hsibs, ?_, hsh, e4, e5, hadjc⟩
            show pathOf H post (k + 1) data (pathIndex (k + 1) p.index) = p0 :: rest
            rw [show pathOf H post (k + 1) data (pathIndex (k + 1) p.index) =
              (data[sibIndex (pathIndex (k + 1) p.index)]?).getD default ::
                pathOf H post k (up1 H post data) (pathIndex (k + 1) p.index / 2) from rfl]
            rw [hp0, hrest]; rfl
  · intro hge
    apply Classical.byContradiction
    intro hne
    exact hcolpad ⟨hge, hne⟩

end SumIndex
