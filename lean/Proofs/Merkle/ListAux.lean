import PocketModel.Merkle.SumIndex
/-! Small list / structure facts. -/
namespace SumIndex

theorem HashRange.ext' (a b : HashRange) (h1 : a.hash = b.hash) (h2 : a.lower = b.lower)
    (h3 : a.upper = b.upper) : a = b := by
  cases a; cases b; simp only [HashRange.mk.injEq]; exact ⟨h1, h2, h3⟩

theorem MerkleProof.ext' (p q : MerkleProof) (h1 : p.index = q.index) (h2 : p.hashRanges = q.hashRanges)
    (h3 : p.target = q.target) : p = q := by
  cases p; cases q; simp only [MerkleProof.mk.injEq]; exact ⟨h1, h2, h3⟩

theorem nodup_of_map {α β : Type} (f : α → β) (l : List α) (h : (l.map f).Nodup) : l.Nodup := by
  unfold List.Nodup at *
  rw [List.pairwise_map] at h
  exact h.imp (fun hne heq => hne (congrArg f heq))

theorem nodup_getElem?_inj {α : Type} : ∀ (l : List α) (i j : Nat) (x : α), l.Nodup →
    l[i]? = some x → l[j]? = some x → i = j
  | [], i, j, x, _, h, _ => by simp at h
  | a :: as, 0, 0, x, _, _, _ => rfl
  | a :: as, 0, j + 1, x, hn, h1, h2 => by
    simp at h1; subst h1
    simp only [List.getElem?_cons_succ] at h2
    exact absurd (List.mem_of_getElem? h2) (List.nodup_cons.mp hn).1
  | a :: as, i + 1, 0, x, hn, h1, h2 => by
    simp at h2; subst h2
    simp only [List.getElem?_cons_succ] at h1
    exact absurd (List.mem_of_getElem? h1) (List.nodup_cons.mp hn).1
  | a :: as, i + 1, j + 1, x, hn, h1, h2 => by
    simp only [List.getElem?_cons_succ] at h1 h2
    have := nodup_getElem?_inj as i j x (List.nodup_cons.mp hn).2 h1 h2
    omega

end SumIndex
