import Proofs.Merkle.Verify
import Proofs.Merkle.Layout
set_option linter.unusedVariables false
/-! Re-encodings of a proof that the verification loop cannot tell apart, the pre-upgrade index
aliasing, and compositionality of the loop. -/
namespace SumIndex
variable (H : Bytes → Bytes) (post : Bool)

/-- The bytes that follow the second hash in the parent-hash input. -/
def tailBytes (post : Bool) (lo up i1 i2 : Nat) : Bytes :=
  (if post then le8 i1 ++ le8 i2 else []) ++ (le8 lo ++ le8 up)

theorem tailBytes_length (lo up i1 i2 : Nat) :
    (tailBytes post lo up i1 i2).length = if post then 32 else 16 := by
  cases post <;> simp [tailBytes, le8_length]

/-- `MultiAppend` cuts at the buffer size: a second hash extended by exactly the bytes that would
follow it (and then anything) produces the same parent-hash input. -/
theorem parentInput_extend (h1 h2 junk : Bytes) (lo up i1 i2 : Nat) (l1 : h1.length = 32) (l2 : h2.length = 32) :
    parentInput post h1 (h2 ++ (tailBytes post lo up i1 i2 ++ junk)) lo up i1 i2 =
      parentInput post h1 h2 lo up i1 i2 := by
  cases post with
  | true =>
    rw [parentInput_post _ _ _ _ _ _ l1 l2]
    simp only [parentInput, if_true, multiAppend, tailBytes]
    have e : [h1, h2 ++ (le8 i1 ++ le8 i2 ++ (le8 lo ++ le8 up) ++ junk), le8 i1 ++ le8 i2, le8 lo ++ le8 up].flatten =
        (h1 ++ (h2 ++ ((le8 i1 ++ le8 i2) ++ (le8 lo ++ le8 up)))) ++ (junk ++ ((le8 i1 ++ le8 i2) ++ (le8 lo ++ le8 up))) := by
      simp [List.append_assoc]
    rw [e]
    have hl : (h1 ++ (h2 ++ ((le8 i1 ++ le8 i2) ++ (le8 lo ++ le8 up)))).length = 96 := by
      simp [l1, l2, le8_length]
    rw [List.take_left' hl, hl]
    simp
  | false =>
    rw [parentInput_pre _ _ _ _ _ _ l1 l2]
    simp only [parentInput, Bool.false_eq_true, if_false, multiAppend, tailBytes]
    have e : [h1, h2 ++ ([] ++ (le8 lo ++ le8 up) ++ junk), le8 lo ++ le8 up].flatten =
        (h1 ++ (h2 ++ (le8 lo ++ le8 up))) ++ (junk ++ (le8 lo ++ le8 up)) := by
      simp [List.append_assoc]
    rw [e]
    have hl : (h1 ++ (h2 ++ (le8 lo ++ le8 up))).length = 80 := by
      simp [l1, l2, le8_length]
    rw [List.take_left' hl, hl]
    simp

/-- **Sibling-hash extension (left-hand target).**  When the target is a left child, replacing the
sibling's 32-byte hash by that hash followed by the bytes the buffer would hold anyway, followed by
arbitrary bytes, does not change the outcome of the loop. -/
theorem climb_sibling_hash_extension (n : Nat) (idx : Int) (t s : HashRange) (rest : List HashRange)
    (junk : Bytes) (ht : t.hash.length = 32) (hs : s.hash.length = 32) (heven : goOdd idx = false) :
    climb H post (n + 1) idx t
        ({ s with hash := s.hash ++ (tailBytes post t.lower s.upper (u64 idx) (u64 (idx + 1)) ++ junk) } :: rest) =
      climb H post (n + 1) idx t (s :: rest) := by
  rw [climb, climb]
  simp only [heven, Bool.false_eq_true, if_false, HashRange.isValid, parentHash]
  rw [parentInput_extend post t.hash s.hash junk t.lower s.upper (u64 idx) (u64 (idx + 1)) ht hs]

/-- **Odd-leaf midpoint.**  When the target is a right child, the boundary shared with its sibling
(`t.lower = s.upper`) is read by no hash: both can be moved together anywhere strictly inside. -/
theorem climb_midpoint_shift (n : Nat) (idx : Int) (t s : HashRange) (rest : List HashRange) (m : Nat)
    (hodd : goOdd idx = true) (hadj : t.lower = s.upper) (hs : s.lower < s.upper) (ht : t.lower < t.upper)
    (hm1 : s.lower < m) (hm2 : m < t.upper) :
    climb H post (n + 1) idx { t with lower := m } ({ s with upper := m } :: rest) =
      climb H post (n + 1) idx t (s :: rest) := by
  have v1 : HashRange.isValid { t with lower := m } = true := (isValid_iff _).mpr hm2
  have v2 : HashRange.isValid { s with upper := m } = true := (isValid_iff _).mpr hm1
  have v3 : t.isValid = true := (isValid_iff _).mpr ht
  have v4 : s.isValid = true := (isValid_iff _).mpr hs
  rw [climb, climb]
  simp only [v1, v2, v3, v4, hodd, if_true, hadj]
  simp

/-- Forget the final index of the loop (which `Validate` never looks at). -/
def Climb.noIdx : Climb → Climb
  | .top t _ => .top t 0
  | c => c

theorem parentInput_pre_indices (h1 h2 : Bytes) (lo up i1 i2 j1 j2 : Nat) :
    parentInput false h1 h2 lo up i1 i2 = parentInput false h1 h2 lo up j1 j2 := by
  simp [parentInput]

/-- **Pre-upgrade index binding.**  Before the upgrade the loop depends on the index only through
the position it walks (`pathIndex`, the parity bits it reads). -/
theorem climb_pre_index : ∀ (n : Nat) (idx idx' : Int) (t : HashRange) (sibs : List HashRange),
    pathIndex n idx = pathIndex n idx' →
    (climb H false n idx t sibs).noIdx = (climb H false n idx' t sibs).noIdx
  | 0, _, _, _, _, _ => by simp [climb, Climb.noIdx]
  | n + 1, idx, idx', t, sibs, h => by
    simp only [pathIndex] at h
    have hodd : goOdd idx = goOdd idx' := by
      cases h1 : goOdd idx <;> cases h2 : goOdd idx' <;> simp [h1, h2] at h ⊢ <;> omega
    have hrest : pathIndex n (Int.tdiv idx 2) = pathIndex n (Int.tdiv idx' 2) := by
      rw [hodd] at h; omega
    cases sibs with
    | nil => rw [climb, climb]
    | cons s rest =>
      rw [climb, climb]
      simp only [← hodd, parentHash]
      by_cases htv : t.isValid = true
      · by_cases hsv : s.isValid = true
        · simp only [htv, hsv, Bool.not_true, Bool.false_eq_true, if_false]
          cases ho : goOdd idx
          · simp only [Bool.false_eq_true, if_false]
            by_cases hadj : t.upper ≠ s.lower
            · simp [hadj]
            · simp only [hadj, if_false]
              rw [parentInput_pre_indices t.hash s.hash t.lower s.upper (u64 idx) (u64 (idx + 1)) (u64 idx') (u64 (idx' + 1))]
              exact climb_pre_index n _ _ _ rest hrest
          · simp only [if_true]
            by_cases hadj : t.lower ≠ s.upper
            · simp [hadj]
            · simp only [hadj, if_false]
              rw [parentInput_pre_indices s.hash t.hash s.lower t.upper (u64 (idx - 1)) (u64 idx) (u64 (idx' - 1)) (u64 idx')]
              exact climb_pre_index n _ _ _ rest hrest
        · simp [htv, hsv]
      · simp [htv]

theorem validateH_noIdx (p : MerkleProof) (x : Int) (root : HashRange) (lh : Bytes) (n : Nat)
    (h : (climb H post n x p.target p.hashRanges).noIdx = (climb H post n p.index p.target p.hashRanges).noIdx) :
    validateH H post { p with index := x } root lh n = validateH H post p root lh n := by
  unfold validateH
  simp only
  cases h1 : climb H post n x p.target p.hashRanges <;>
    cases h2 : climb H post n p.index p.target p.hashRanges <;>
    simp_all [Climb.noIdx]

theorem pathIndex_natCast : ∀ (n i : Nat), i < 2 ^ n → pathIndex n (i : Int) = i
  | 0, i, h => by simp at h; simp [pathIndex, h]
  | n + 1, i, h => by
    have hi : i / 2 < 2 ^ n := by rw [Nat.pow_succ] at h; omega
    simp only [pathIndex, goOdd_natCast, tdiv_natCast, pathIndex_natCast n (i / 2) hi]
    rcases Nat.mod_two_eq_zero_or_one i with hp | hp <;> simp [hp] <;> omega

theorem pathIndex_alias : ∀ (n i m : Nat), pathIndex n ((i + m * 2 ^ n : Nat) : Int) = pathIndex n (i : Int)
  | 0, _, _ => rfl
  | n + 1, i, m => by
    have e : m * 2 ^ (n + 1) = (m * 2 ^ n) * 2 := by rw [Nat.pow_succ, Nat.mul_assoc]
    have h1 : (i + m * 2 ^ (n + 1)) % 2 = i % 2 := by
      rw [e]; generalize m * 2 ^ n = q; omega
    have h2 : (i + m * 2 ^ (n + 1)) / 2 = i / 2 + m * 2 ^ n := by
      rw [e]; generalize m * 2 ^ n = q; omega
    simp only [pathIndex, goOdd_natCast, tdiv_natCast, h1, h2, pathIndex_alias n (i / 2) m]

/-- The loop composes: `l + m` iterations are `l` iterations followed by `m` more. -/
theorem climb_split : ∀ (l m : Nat) (idx : Int) (t : HashRange) (sibs : List HashRange),
    climb H post (l + m) idx t sibs =
      match climb H post l idx t sibs with
      | .top t' idx' => climb H post m idx' t' (sibs.drop l)
      | c => c
  | 0, m, idx, t, sibs => by simp [climb]
  | l + 1, m, idx, t, sibs => by
    have e : l + 1 + m = (l + m) + 1 := by omega
    rw [e]
    cases sibs with
    | nil => rw [climb, climb]; by_cases htv : t.isValid = true <;> simp [htv]
    | cons s rest =>
      rw [climb, climb]
      by_cases htv : t.isValid = true
      · by_cases hsv : s.isValid = true
        · simp only [htv, hsv, Bool.not_true, Bool.false_eq_true, if_false, List.drop_succ_cons]
          cases ho : goOdd idx
          · simp only [Bool.false_eq_true, if_false]
            by_cases hadj : t.upper ≠ s.lower
            · simp [hadj]
            · simp only [hadj, if_false]; exact climb_split l m _ _ rest
          · simp only [if_true]
            by_cases hadj : t.lower ≠ s.upper
            · simp [hadj]
            · simp only [hadj, if_false]; exact climb_split l m _ _ rest
        · simp [htv, hsv]
      · simp [htv]

end SumIndex
