import PocketModel.Merkle.SumIndex
/-! `levels n` is the exact ceiling of log₂ n. -/
namespace SumIndex

theorem le_two_pow_levels (n : Nat) : n ≤ 2 ^ levels n := by
  unfold levels
  split
  · rename_i h; exact Nat.le_trans h (Nat.one_le_two_pow)
  · rename_i h
    have := @Nat.lt_log2_self (n - 1)
    omega

theorem levels_le_of_le_two_pow (n k : Nat) (h : n ≤ 2 ^ k) : levels n ≤ k := by
  unfold levels
  split
  · exact Nat.zero_le _
  · rename_i h1
    have hne : n - 1 ≠ 0 := by omega
    have : (n - 1).log2 < k := (Nat.log2_lt hne).mpr (by omega)
    omega

theorem levels_two_pow (k : Nat) : levels (2 ^ k) = k := by
  apply Nat.le_antisymm (levels_le_of_le_two_pow _ _ (Nat.le_refl _))
  have h := le_two_pow_levels (2 ^ k)
  exact (Nat.pow_le_pow_iff_right (by decide)).mp h

/-- `levels n = k + 1` exactly on `(2^k, 2^(k+1)]`. -/
theorem levels_eq_succ_iff (n k : Nat) : levels n = k + 1 ↔ 2 ^ k < n ∧ n ≤ 2 ^ (k + 1) := by
  constructor
  · intro h
    refine ⟨?_, h ▸ le_two_pow_levels n⟩
    apply Nat.lt_of_not_le
    intro hle
    have := levels_le_of_le_two_pow n k hle
    omega
  · rintro ⟨h1, h2⟩
    have hle := levels_le_of_le_two_pow n (k + 1) h2
    have hge : ¬ levels n ≤ k := by
      intro hk
      have := le_two_pow_levels n
      have : 2 ^ levels n ≤ 2 ^ k := Nat.pow_le_pow_right (by decide) hk
      omega
    omega

end SumIndex
