import Proofs.Merkle.Tree
import Proofs.Merkle.Climb
import Proofs.Merkle.Layout
set_option linter.unusedVariables false
/-! Soundness of the verification loop: an accepted chain either follows the committed tree or
exhibits a hash collision. -/
namespace SumIndex

/-- Two different inputs with the same hash. -/
def Collision (H : Bytes → Bytes) : Prop := ∃ x y, x ≠ y ∧ H x = H y

/-- A node as it travels on the wire / is produced by the code: 32-byte hash, `uint64` bounds. -/
def NodeOK (x : HashRange) : Prop := x.hash.length = 32 ∧ x.lower < two64 ∧ x.upper < two64

variable (H : Bytes → Bytes) (post : Bool)

/-- The next level (empty if `levelUp` panics). -/
def up1 (d : List HashRange) : List HashRange := (levelUp H post d).getD []

/-- The level `l` steps above `d`. -/
def lvl : Nat → List HashRange → List HashRange
  | 0, d => d
  | l + 1, d => lvl l (up1 H post d)

/-- The committed sibling path of position `i` over `n` levels. -/
def pathOf : Nat → List HashRange → Nat → List HashRange
  | 0, _, _ => []
  | n + 1, d, i => (d[sibIndex i]?).getD default :: pathOf n (up1 H post d) (i / 2)

theorem pathIndex_lt : ∀ (n : Nat) (idx : Int), pathIndex n idx < 2 ^ n
  | 0, _ => by simp [pathIndex]
  | n + 1, idx => by
    have := pathIndex_lt n (Int.tdiv idx 2)
    simp only [pathIndex, Nat.pow_succ]
    split <;> omega

theorem u64_lt (i : Int) : u64 i < two64 := by
  unfold u64
  have h : (0 : Int) < (two64 : Int) := by unfold two64; decide
  have h1 := Int.emod_lt_of_pos i h
  have h2 := Int.emod_nonneg i (Int.ne_of_gt h)
  omega

theorem up1_spec (d : List HashRange) (m : Nat) (hl : d.length = 2 * m) :
    levelUpFrom H post 0 d = some (up1 H post d) ∧ (up1 H post d).length = m := by
  obtain ⟨o, ho⟩ := levelUpFrom_isSome H post m d 0 hl
  have hlen := levelUpFrom_length H post d 0 o ho
  have : up1 H post d = o := by simp [up1, levelUp, ho]
  rw [this]; exact ⟨ho, by omega⟩

theorem up1_nodeOK (hH : ∀ x, (H x).length = 32) (d : List HashRange) (m : Nat) (hl : d.length = 2 * m)
    (hok : ∀ x ∈ d, NodeOK x) : ∀ x ∈ up1 H post d, NodeOK x := by
  intro x hx
  obtain ⟨hup, hlen⟩ := up1_spec H post d m hl
  obtain ⟨j, hj, rfl⟩ := List.getElem_of_mem hx
  have h1 : 2 * j < d.length := by omega
  have h2 : 2 * j + 1 < d.length := by omega
  have := levelUpFrom_getElem H post d 0 _ hup j d[2 * j] d[2 * j + 1]
    (List.getElem?_eq_getElem h1) (List.getElem?_eq_getElem h2)
  rw [List.getElem?_eq_getElem hj] at this
  have e := Option.some.inj this
  rw [e]
  have ha := hok _ (List.getElem_mem h1)
  have hb := hok _ (List.getElem_mem h2)
  exact ⟨hH _, ha.2.1, hb.2.2⟩

/-- What an accepted chain is bound to, at the bottom of `n` levels over `data`: the node at the
walked position has the target's hash; the first sibling has the committed hash, the remaining
siblings are the committed ones outright, the bounds agree with the committed ones except for the
boundary between the target and its first sibling; after the upgrade the hashed index is the
walked position. -/
def Bound (n : Nat) (data : List HashRange) (idx : Int) (t : HashRange) (sibs : List HashRange) : Prop :=
  ∃ d, data[pathIndex n idx]? = some d ∧ t.hash = d.hash ∧
    (n = 0 ∨ ∃ p0 s0 rest, data[sibIndex (pathIndex n idx)]? = some p0 ∧ sibs = s0 :: rest ∧
      s0.hash = p0.hash ∧ rest = pathOf H post (n - 1) (up1 H post data) (pathIndex n idx / 2) ∧
      (post = true → u64 idx = pathIndex n idx) ∧
      (pathIndex n idx % 2 = 0 → t.lower = d.lower ∧ s0.upper = p0.upper ∧ s0.lower = t.upper) ∧
      (pathIndex n idx % 2 = 1 → t.upper = d.upper ∧ s0.lower = p0.lower ∧ s0.upper = t.lower))

/-- If moreover the target carries the committed bounds, the whole sibling list is the committed path. -/
theorem Bound.sibs_eq (n : Nat) (data : List HashRange) (lo : Nat) (idx : Int) (t : HashRange)
    (sibs : List HashRange) (hl : data.length = 2 ^ n) (hc : Contig lo data) (hlen : sibs.length = n)
    (hb : Bound H post n data idx t sibs)
    (hr : ∀ d, data[pathIndex n idx]? = some d → t.lower = d.lower ∧ t.upper = d.upper) :
    sibs = pathOf H post n data (pathIndex n idx) := by
  obtain ⟨d, hd, hh, hcase⟩ := hb
  rcases hcase with rfl | ⟨p0, s0, rest, hp0, rfl, hsh, hrest, _, hev, hod⟩
  · have : sibs = [] := List.eq_nil_of_length_eq_zero hlen
    subst this; rfl
  · obtain ⟨n', rfl⟩ : ∃ n', n = n' + 1 := ⟨n - 1, by simp at hlen; omega⟩
    obtain ⟨hrl, hru⟩ := hr d hd
    simp only [pathOf, hp0, Option.getD_some]
    simp only [Nat.add_sub_cancel] at hrest
    rw [← hrest]
    congr 1
    rcases Nat.mod_two_eq_zero_or_one (pathIndex (n' + 1) idx) with hpar | hpar
    · obtain ⟨_, e2, e3⟩ := hev hpar
      have hsib : sibIndex (pathIndex (n' + 1) idx) = pathIndex (n' + 1) idx + 1 := by simp [sibIndex, hpar]
      rw [hsib] at hp0
      have hadj := Contig.adjacent data lo _ d p0 hc hd hp0
      cases s0; cases p0; simp_all
    · obtain ⟨_, e2, e3⟩ := hod hpar
      have hsib : sibIndex (pathIndex (n' + 1) idx) = pathIndex (n' + 1) idx - 1 := by simp [sibIndex, hpar]
      rw [hsib] at hp0
      have hge : 1 ≤ pathIndex (n' + 1) idx := by omega
      have hd' : data[pathIndex (n' + 1) idx - 1 + 1]? = some d := by
        rw [Nat.sub_add_cancel hge]; exact hd
      have hadj := Contig.adjacent data lo _ p0 d hc hp0 hd'
      cases s0; cases p0; simp_all

theorem lt_two64_of_lt_pow (n i : Nat) (hn : n ≤ 63) (hi : i < 2 ^ n) : 2 * i + 1 < two64 := by
  have : 2 ^ n ≤ 2 ^ 63 := Nat.pow_le_pow_right (by decide) hn
  unfold two64; omega

/-- **Soundness of the verification loop.**  Over a committed level `data` of `2^n` well-formed,
contiguous nodes: if the loop run on well-formed input ends at a node whose hash is the hash of the
committed top node, then a collision of `H` is exhibited or the chain is bound to the committed
tree (`Bound`). -/
theorem climb_sound (hH : ∀ x, (H x).length = 32) : ∀ (n : Nat) (data : List HashRange) (lo : Nat)
    (idx : Int) (t : HashRange) (sibs : List HashRange) (r : HashRange) (fin : Int),
    data.length = 2 ^ n → n ≤ 63 → (∀ x ∈ data, NodeOK x) → Contig lo data →
    NodeOK t → (∀ s ∈ sibs, NodeOK s) → sibs.length = n →
    climb H post n idx t sibs = .top r fin →
    (∃ top, (lvl H post n data)[0]? = some top ∧ r.hash = top.hash) →
    Collision H ∨ Bound H post n data idx t sibs := by
  intro n
  induction n with
  | zero =>
    intro data lo idx t sibs r fin hl hn hok hc htok hsok hslen hclimb htop
    obtain ⟨top, htop, hr⟩ := htop
    simp only [climb, Climb.top.injEq] at hclimb
    obtain ⟨rfl, _⟩ := hclimb
    exact Or.inr ⟨top, by simpa [lvl, pathIndex] using htop, hr, Or.inl rfl⟩
  | succ n ih =>
    intro data lo idx t sibs r fin hl hn hok hc htok hsok hslen hclimb htop
    have hl2 : data.length = 2 * 2 ^ n := by rw [hl, Nat.pow_succ]; omega
    obtain ⟨hup, hnl⟩ := up1_spec H post data (2 ^ n) hl2
    have hi' := pathIndex_lt n (Int.tdiv idx 2)
    have h1 : 2 * pathIndex n (Int.tdiv idx 2) < data.length := by omega
    have h2 : 2 * pathIndex n (Int.tdiv idx 2) + 1 < data.length := by omega
    have ha := List.getElem?_eq_getElem h1
    have hb := List.getElem?_eq_getElem h2
    generalize data[2 * pathIndex n (Int.tdiv idx 2)] = a at ha
    generalize data[2 * pathIndex n (Int.tdiv idx 2) + 1] = b at hb
    have hd' : (up1 H post data)[pathIndex n (Int.tdiv idx 2)]? =
        some (parent H post (2 * pathIndex n (Int.tdiv idx 2)) a b) := by
      have := levelUpFrom_getElem H post data 0 _ hup _ a b ha hb
      simpa using this
    have haok := hok a (List.mem_of_getElem? ha)
    have hbok := hok b (List.mem_of_getElem? hb)
    have hnok := up1_nodeOK H post hH data (2 ^ n) hl2 hok
    have hc' := (levelUpFrom_contig H post data 0 lo _ hup hc).1
    have hab := Contig.adjacent data lo _ a b hc ha hb
    have hj64 := lt_two64_of_lt_pow n _ (by omega) hi'
    have htop' : ∃ top, (lvl H post n (up1 H post data))[0]? = some top ∧ r.hash = top.hash := htop
    -- unfold one iteration of the loop
    cases sibs with
    | nil => simp at hslen
    | cons s rest =>
    rw [climb] at hclimb
    by_cases htv : t.isValid = true
    · simp only [htv, Bool.not_true, Bool.false_eq_true, if_false] at hclimb
      · have hsok' := hsok s List.mem_cons_self
        have hrok : ∀ x ∈ rest, NodeOK x := fun x hx => hsok x (List.mem_cons_of_mem _ hx)
        have hrlen : rest.length = n := by simpa using hslen
        by_cases hsv : s.isValid = true
        · simp only [hsv, Bool.not_true, Bool.false_eq_true, if_false] at hclimb
          by_cases hodd : goOdd idx = true
          · -- the target is the right child
            simp only [hodd, if_true] at hclimb
            by_cases hadj : t.lower ≠ s.upper
            · simp [hadj] at hclimb
            · simp only [hadj, if_false] at hclimb
              have hadj' : t.lower = s.upper := by simpa using hadj
              have hpi : pathIndex (n + 1) idx = 2 * pathIndex n (Int.tdiv idx 2) + 1 := by
                simp [pathIndex, hodd]; omega
              have ht'ok : NodeOK { hash := parentHash H post s.hash t.hash s.lower t.upper (u64 (idx - 1)) (u64 idx),
                                    lower := s.lower, upper := t.upper } :=
                ⟨hH _, hsok'.2.1, htok.2.2⟩
              rcases ih _ lo _ _ rest r fin hnl (by omega) hnok hc' ht'ok hrok hrlen hclimb htop' with hcol | hbd
              · exact Or.inl hcol
              · obtain ⟨d'', hd'', hh, hcase⟩ := hbd
                rw [hd'] at hd''
                have hdd := (Option.some.inj hd'').symm
                subst hdd
                simp only [parent, parentHash] at hh
                by_cases hinp : parentInput post s.hash t.hash s.lower t.upper (u64 (idx - 1)) (u64 idx) =
                    parentInput post a.hash b.hash a.lower b.upper (2 * pathIndex n (Int.tdiv idx 2))
                      (2 * pathIndex n (Int.tdiv idx 2) + 1)
                · obtain ⟨e1, e2, e3, e4, e5⟩ := parentInput_inj post _ _ _ _ _ _ _ _ _ _ _ _
                    hsok'.1 htok.1 haok.1 hbok.1 hsok'.2.1 htok.2.2 (u64_lt _) (u64_lt _)
                    haok.2.1 hbok.2.2 (by omega) hj64 hinp
                  have hrest : rest = pathOf H post n (up1 H post data) (pathIndex n (Int.tdiv idx 2)) := by
                    apply Bound.sibs_eq H post n (up1 H post data) lo _ _ rest hnl hc' hrlen
                      ⟨_, hd', hh, hcase⟩
                    intro d hd
                    rw [hd'] at hd
                    have := (Option.some.inj hd).symm
                    subst this
                    exact ⟨e3, e4⟩
                  refine Or.inr ⟨b, by rw [hpi]; exact hb, e2, Or.inr ⟨a, s, rest, ?_, rfl, e1, ?_, ?_, ?_, ?_⟩⟩
                  · rw [hpi]
                    have : sibIndex (2 * pathIndex n (Int.tdiv idx 2) + 1) = 2 * pathIndex n (Int.tdiv idx 2) := by
                      simp [sibIndex]
                    rw [this]; exact ha
                  · rw [hpi]
                    have : (2 * pathIndex n (Int.tdiv idx 2) + 1) / 2 = pathIndex n (Int.tdiv idx 2) := by omega
                    simpa [this] using hrest
                  · intro hp; rw [hpi]; exact (e5 hp).2
                  · intro hp; rw [hpi] at hp; omega
                  · intro _; exact ⟨e4, e3, hadj'.symm⟩
                · exact Or.inl ⟨_, _, hinp, hh⟩
          · -- the target is the left child
            simp only [hodd, Bool.false_eq_true, if_false] at hclimb
            by_cases hadj : t.upper ≠ s.lower
            · simp [hadj] at hclimb
            · simp only [hadj, if_false] at hclimb
              have hadj' : t.upper = s.lower := by simpa using hadj
              have hpi : pathIndex (n + 1) idx = 2 * pathIndex n (Int.tdiv idx 2) := by
                simp [pathIndex, hodd]
              have ht'ok : NodeOK { hash := parentHash H post t.hash s.hash t.lower s.upper (u64 idx) (u64 (idx + 1)),
                                    lower := t.lower, upper := s.upper } :=
                ⟨hH _, htok.2.1, hsok'.2.2⟩
              rcases ih _ lo _ _ rest r fin hnl (by omega) hnok hc' ht'ok hrok hrlen hclimb htop' with hcol | hbd
              · exact Or.inl hcol
              · obtain ⟨d'', hd'', hh, hcase⟩ := hbd
                rw [hd'] at hd''
                have hdd := (Option.some.inj hd'').symm
                subst hdd
                simp only [parent, parentHash] at hh
                by_cases hinp : parentInput post t.hash s.hash t.lower s.upper (u64 idx) (u64 (idx + 1)) =
                    parentInput post a.hash b.hash a.lower b.upper (2 * pathIndex n (Int.tdiv idx 2))
                      (2 * pathIndex n (Int.tdiv idx 2) + 1)
                · obtain ⟨e1, e2, e3, e4, e5⟩ := parentInput_inj post _ _ _ _ _ _ _ _ _ _ _ _
                    htok.1 hsok'.1 haok.1 hbok.1 htok.2.1 hsok'.2.2 (u64_lt _) (u64_lt _)
                    haok.2.1 hbok.2.2 (by omega) hj64 hinp
                  have hrest : rest = pathOf H post n (up1 H post data) (pathIndex n (Int.tdiv idx 2)) := by
                    apply Bound.sibs_eq H post n (up1 H post data) lo _ _ rest hnl hc' hrlen
                      ⟨_, hd', hh, hcase⟩
                    intro d hd
                    rw [hd'] at hd
                    have := (Option.some.inj hd).symm
                    subst this
                    exact ⟨e3, e4⟩
                  refine Or.inr ⟨a, by rw [hpi]; exact ha, e1, Or.inr ⟨b, s, rest, ?_, rfl, e2, ?_, ?_, ?_, ?_⟩⟩
                  · rw [hpi]
                    have : sibIndex (2 * pathIndex n (Int.tdiv idx 2)) = 2 * pathIndex n (Int.tdiv idx 2) + 1 := by
                      simp [sibIndex]
                    rw [this]; exact hb
                  · rw [hpi]
                    have : (2 * pathIndex n (Int.tdiv idx 2)) / 2 = pathIndex n (Int.tdiv idx 2) := by omega
                    simpa [this] using hrest
                  · intro hp; rw [hpi]; exact (e5 hp).1
                  · intro _; exact ⟨e3, e4, hadj'.symm⟩
                  · intro hp; rw [hpi] at hp; omega
                · exact Or.inl ⟨_, _, hinp, hh⟩
        · simp [hsv] at hclimb
    · simp [htv] at hclimb

end SumIndex
