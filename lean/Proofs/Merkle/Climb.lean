import PocketModel.Merkle.SumIndex
/-! One-step facts about the verification loop `climb`. -/
namespace SumIndex
variable (H : Bytes → Bytes) (post : Bool)

theorem climb_target_invalid (n : Nat) (idx : Int) (t : HashRange) (sibs : List HashRange)
    (h : t.isValid = false) : climb H post (n + 1) idx t sibs = .fail true := by
  simp [climb, h]

theorem climb_sibling_invalid (n : Nat) (idx : Int) (t s : HashRange) (rest : List HashRange)
    (ht : t.isValid = true) (h : s.isValid = false) :
    climb H post (n + 1) idx t (s :: rest) = .fail true := by
  simp [climb, ht, h]

theorem isValid_iff (hr : HashRange) : hr.isValid = true ↔ hr.lower < hr.upper := by
  simp [HashRange.isValid]
  omega

theorem isValid_false_iff (hr : HashRange) : hr.isValid = false ↔ hr.upper ≤ hr.lower := by
  have := isValid_iff hr
  cases h : hr.isValid <;> simp [h] at this ⊢ <;> omega

theorem isValid_spec (hr : HashRange) : hr.isValid = true ↔ 0 < hr.upper ∧ hr.lower < hr.upper := by
  rw [isValid_iff]; omega

/-- The width test on `uint64` with wrapping subtraction (`Upper != 0 && Upper-Lower > 0`) — *not*
what `isValidRange` does; kept to state how it differs. -/
def wrapWidthValid (hr : HashRange) : Bool :=
  !(hr.upper == 0) && decide (0 < (hr.upper + two64 - hr.lower) % two64)

theorem wrapWidthValid_iff (hr : HashRange) (hl : hr.lower < two64) (hu : hr.upper < two64) :
    wrapWidthValid hr = true ↔ hr.upper ≠ 0 ∧ hr.lower ≠ hr.upper := by
  unfold wrapWidthValid two64 at *
  simp only [Bool.and_eq_true, Bool.not_eq_true', beq_eq_false_iff_ne, ne_eq, decide_eq_true_eq]
  omega

end SumIndex
