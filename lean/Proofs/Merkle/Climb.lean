import PocketModel.Merkle.SumIndex
/-! One-step facts about the verification loop `climb`. -/
namespace SumIndex
variable (H : Bytes → Bytes) (post : Bool)

theorem climb_target_invalid (n : Nat) (idx : Int) (t : HashRange) (sibs : List HashRange)
    (h : t.isValid = false) : climb H post (n + 1) idx t sibs = .fail true := by
  simp [climb, h]

theorem climb_sibling_invalid (n : Nat) (idx : Int) (t s : HashRange) (rest : List HashRange)
    (ht : t.isValid = true) (h : s.isValid = false) :
    climb H post (n + 1) idx t (s :: rest) = .fail true := by
  simp [climb, ht, h]

theorem isValid_iff (hr : HashRange) : hr.isValid = true ↔ hr.lower < hr.upper := by
  simp [HashRange.isValid]
  omega

theorem isValid_false_iff (hr : HashRange) : hr.isValid = false ↔ hr.upper ≤ hr.lower := by
  have := isValid_iff hr
  cases h : hr.isValid <;> simp [h] at this ⊢ <;> omega

end SumIndex
