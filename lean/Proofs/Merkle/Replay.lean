import Proofs.Merkle.Shape
import Proofs.Merkle.Honest
set_option linter.unusedVariables false
/-! Replayed (duplicated) relays produce an empty range, and a proof through it is flagged. -/
namespace SumIndex
variable (H : Bytes → Bytes) (post : Bool)

/-- A sorted list with a repeated value has two equal neighbours. -/
theorem adjacent_eq_of_not_nodup : ∀ (l : List Nat), l.Pairwise (· ≤ ·) → ¬ l.Nodup →
    ∃ j x, l[j]? = some x ∧ l[j + 1]? = some x
  | [], _, h => by simp at h
  | [x], _, h => by simp at h
  | x :: y :: ys, hp, h => by
    rw [List.pairwise_cons] at hp
    by_cases hx : x ∈ y :: ys
    · have hxy : x ≤ y := hp.1 y List.mem_cons_self
      have hyx : y ≤ x := by
        rcases List.mem_cons.mp hx with rfl | hm
        · exact Nat.le_refl _
        · exact (List.pairwise_cons.mp hp.2).1 x hm
      have : x = y := by omega
      subst this
      exact ⟨0, x, by simp, by simp⟩
    · have hnd : ¬ (y :: ys).Nodup := by
        intro hnd; exact h (List.nodup_cons.mpr ⟨hx, hnd⟩)
      obtain ⟨j, v, h1, h2⟩ := adjacent_eq_of_not_nodup (y :: ys) hp.2 hnd
      exact ⟨j + 1, v, by simpa using h1, by simpa using h2⟩

theorem lvl_contig : ∀ (n : Nat) (data : List HashRange) (lo : Nat), data.length = 2 ^ n → Contig lo data →
    Contig lo (lvl H post n data) ∧ (lvl H post n data).length = 1
  | 0, data, lo, hl, hc => ⟨hc, by simpa [lvl] using hl⟩
  | n + 1, data, lo, hl, hc => by
    have hl2 : data.length = 2 * 2 ^ n := by rw [hl, Nat.pow_succ]; omega
    obtain ⟨hup, hnl⟩ := up1_spec H post data _ hl2
    have hc' := (levelUpFrom_contig H post data 0 lo _ hup hc).1
    exact lvl_contig n _ lo hnl hc'

/-- The leaf level for any entries, without assumptions on the hash function. -/
theorem structureEntries_shape0 (es : List Entry) (h1 : 1 ≤ es.length) (h32 : es.length ≤ 2 ^ 32) :
    ∃ data : List HashRange, structureEntries H es = some (data, (es.mergeSort Entry.le).map (·.leaf)) ∧
      data.length = 2 ^ levels es.length ∧ Contig 0 data ∧
      (∀ (i : Nat) (e : Entry), (es.mergeSort Entry.le)[i]? = some e →
        ∃ t : HashRange, data[i]? = some t ∧ t.hash = e.hash ∧ t.upper = sumFromHash e.hash) := by
  have hnp := nextPowerOfTwo_eq es.length h1 h32
  have hle := le_two_pow_levels es.length
  have hslen : (es.mergeSort Entry.le).length = es.length := List.length_mergeSort es
  generalize hs : es.mergeSort Entry.le = sorted at *
  have hc := chainLower_contig (rawLeaves sorted) 0
  have hrl : (rawLeaves sorted).length = es.length := by simp [rawLeaves, hslen]
  have hcl := chainLower_length (rawLeaves sorted) 0
  refine ⟨(chainLower 0 (rawLeaves sorted)).1 ++
      padding H (2 ^ levels es.length - es.length) es.length (chainLower 0 (rawLeaves sorted)).2, ?_, ?_, ?_, ?_⟩
  · unfold structureEntries
    have hne : es.length ≠ 0 := by omega
    simp only [hne, if_false, hnp]
    have : ¬ (2 ^ levels es.length < es.length) := by omega
    simp only [this, if_false]
    subst hs
    rfl
  · simp [padding_length, hcl, hrl]; omega
  · exact Contig.append _ _ 0 hc.1 (by rw [hc.2]; exact padding_contig H _ _ _)
  · intro i e hi
    have hraw : (rawLeaves sorted)[i]? = some { hash := e.hash, lower := 0, upper := sumFromHash e.hash } := by
      simp [rawLeaves, hi]
    obtain ⟨t, ht, e1, e2⟩ := chainLower_getElem (rawLeaves sorted) 0 i _ hraw
    refine ⟨t, ?_, e1, e2⟩
    have hlt : i < (chainLower 0 (rawLeaves sorted)).1.length := (List.getElem?_eq_some_iff.mp ht).1
    rw [List.getElem?_append_left hlt]; exact ht

/-- `GenerateProofs` succeeds for every committed position. -/
theorem genProofE_some (es : List Entry) (h2 : 2 ≤ es.length) (h32 : es.length ≤ 2 ^ 32) (i : Nat)
    (hi : i < es.length) :
    ∃ hp e, genProofE H post es i = some (hp, e.leaf) ∧ (es.mergeSort Entry.le)[i]? = some e ∧
      hp.index = (i : Int) := by
  obtain ⟨data, hstruct, hdl, hc, hget⟩ := structureEntries_shape0 H es (by omega) h32
  obtain ⟨k, hk⟩ : ∃ k, levels es.length = k + 1 := ⟨levels es.length - 1, by have := levels_pos _ h2; omega⟩
  rw [hk] at hdl
  have hfuel : k + 1 ≤ data.length := by rw [hdl]; exact Nat.le_of_lt Nat.lt_two_pow_self
  have hslen : (es.mergeSort Entry.le).length = es.length := List.length_mergeSort es
  have hle2 := le_two_pow_levels es.length
  rw [hk] at hle2
  have hilt : i < (es.mergeSort Entry.le).length := by omega
  have he := List.getElem?_eq_getElem hilt
  generalize (es.mergeSort Entry.le)[i] = e at he
  obtain ⟨t, ht, _, _⟩ := hget i e he
  have hpath := merklePath_eq_pathOf H post k data.length data i hfuel hdl (by omega)
  exact ⟨⟨(i : Int), pathOf H post (k + 1) data i, t⟩, e, by simp [genProofE, hstruct, hpath, ht, he], he, rfl⟩

/-- **Replayed relays are flagged.**  If two of the `2 ≤ n ≤ 2^32` entries have the same sum (in
particular: the same relay twice), some position `j + 1 < n` of the sorted leaves carries an empty
range, the proof generated for it is rejected as a replay, and so is the proof generated for its
sibling position when that is a committed leaf. -/
theorem duplicate_sum_flagged (es : List Entry) (h2 : 2 ≤ es.length) (h32 : es.length ≤ 2 ^ 32)
    (hleaf : ∀ e ∈ es, e.hash = H e.leaf) (hdup : ¬ (es.map Entry.sum).Nodup) :
    ∃ j root sorted, j + 1 < es.length ∧ genRootE H post es = some (root, sorted) ∧
      (∃ p leaf, genProofE H post es (j + 1) = some (p, leaf) ∧ p.target.upper ≤ p.target.lower ∧
        validate H post p root leaf (levels es.length) = some (false, true)) ∧
      (sibIndex (j + 1) < es.length →
        ∃ p leaf, genProofE H post es (sibIndex (j + 1)) = some (p, leaf) ∧
          validate H post p root leaf (levels es.length) = some (false, true)) := by
  obtain ⟨data, hstruct, hdl, hc, hget⟩ := structureEntries_shape0 H es (by omega) h32
  obtain ⟨k, hk⟩ : ∃ k, levels es.length = k + 1 := ⟨levels es.length - 1, by have := levels_pos _ h2; omega⟩
  rw [hk] at hdl ⊢
  have hfuel : k + 1 ≤ data.length := by rw [hdl]; exact Nat.le_of_lt Nat.lt_two_pow_self
  have hperm := List.mergeSort_perm es Entry.le
  have hslen : (es.mergeSort Entry.le).length = es.length := List.length_mergeSort es
  -- two equal neighbours in the sorted sums
  have hsorted : ((es.mergeSort Entry.le).map Entry.sum).Pairwise (· ≤ ·) := by
    rw [List.pairwise_map]
    have hle : (es.mergeSort Entry.le).Pairwise (fun a b => Entry.le a b = true) :=
      List.pairwise_mergeSort
        (fun a b c h1 h2 => by simp [Entry.le] at *; omega)
        (fun a b => by simp [Entry.le]; omega) es
    exact hle.imp (fun h => by simpa [Entry.le, Entry.sum] using h)
  have hnd : ¬ ((es.mergeSort Entry.le).map Entry.sum).Nodup :=
    fun h => hdup ((hperm.map Entry.sum).nodup_iff.mp h)
  obtain ⟨j, v, hj1, hj2⟩ := adjacent_eq_of_not_nodup _ hsorted hnd
  rw [List.getElem?_map] at hj1 hj2
  cases he1 : (es.mergeSort Entry.le)[j]? with
  | none => simp [he1] at hj1
  | some e1 =>
  cases he2 : (es.mergeSort Entry.le)[j + 1]? with
  | none => simp [he2] at hj2
  | some e2 =>
  simp only [he1, he2, Option.map_some, Option.some.injEq] at hj1 hj2
  have hjlt : j + 1 < es.length := by
    have := (List.getElem?_eq_some_iff.mp he2).1; omega
  obtain ⟨t1, ht1, _, hu1⟩ := hget j e1 he1
  obtain ⟨t2, ht2, hh2, hu2⟩ := hget (j + 1) e2 he2
  have hadj := Contig.adjacent data 0 j t1 t2 hc ht1 ht2
  have hzero : t2.upper ≤ t2.lower := by
    rw [← hadj, hu1, hu2]
    simp only [Entry.sum] at hj1 hj2
    omega
  -- root
  have hlv := lvl_contig H post (k + 1) data 0 hdl hc
  obtain ⟨root, hrootl⟩ : ∃ r, (lvl H post (k + 1) data)[0]? = some r :=
    ⟨(lvl H post (k + 1) data)[0]'(by omega), List.getElem?_eq_getElem (by omega)⟩
  have hroot0 : root.lower = 0 := Contig.head_lower _ 0 root hlv.1 hrootl
  have hgr : genRootE H post es = some (root, (es.mergeSort Entry.le).map (·.leaf)) := by
    simp [genRootE, hstruct, rootOf_eq_lvl H post k data.length data hfuel hdl, hrootl]
  have hle2 := le_two_pow_levels es.length
  rw [hk] at hle2
  refine ⟨j, root, _, hjlt, hgr, ?_, ?_⟩
  · have hpath := merklePath_eq_pathOf H post k data.length data (j + 1) hfuel hdl (by omega)
    refine ⟨⟨((j + 1 : Nat) : Int), pathOf H post (k + 1) data (j + 1), t2⟩, e2.leaf, ?_, hzero, ?_⟩
    · simp [genProofE, hstruct, hpath, ht2, he2]
    · have hmem : e2 ∈ es := hperm.mem_iff.mp (List.mem_of_getElem? he2)
      unfold validate validateH
      have c1 : ¬ (root.lower ≠ 0) := by simp [hroot0]
      have c2 : ¬ (t2.hash ≠ H e2.leaf) := by simp [hh2, hleaf e2 hmem]
      have c3 : ¬ (t2.upper ≠ sumFromHash t2.hash) := by simp [hu2, hh2]
      simp only [c1, c2, c3, if_false]
      rw [climb_target_invalid H post k _ t2 _ ((isValid_false_iff t2).mpr hzero)]
  · intro hsib
    have hslt : sibIndex (j + 1) < (es.mergeSort Entry.le).length := by omega
    have he3 := List.getElem?_eq_getElem hslt
    generalize (es.mergeSort Entry.le)[sibIndex (j + 1)] = e3 at he3
    obtain ⟨t3, ht3, hh3, hu3⟩ := hget _ e3 he3
    have hpath := merklePath_eq_pathOf H post k data.length data (sibIndex (j + 1)) hfuel hdl (by omega)
    refine ⟨⟨((sibIndex (j + 1) : Nat) : Int), pathOf H post (k + 1) data (sibIndex (j + 1)), t3⟩, e3.leaf, ?_, ?_⟩
    · simp [genProofE, hstruct, hpath, ht3, he3]
    · have hmem : e3 ∈ es := hperm.mem_iff.mp (List.mem_of_getElem? he3)
      unfold validate validateH
      have c1 : ¬ (root.lower ≠ 0) := by simp [hroot0]
      have c2 : ¬ (t3.hash ≠ H e3.leaf) := by simp [hh3, hleaf e3 hmem]
      have c3 : ¬ (t3.upper ≠ sumFromHash t3.hash) := by simp [hu3, hh3]
      simp only [c1, c2, c3, if_false]
      -- the first sibling on that path is the empty node
      have hss : sibIndex (sibIndex (j + 1)) = j + 1 := by
        unfold sibIndex; split <;> split <;> omega
      have hp0 : pathOf H post (k + 1) data (sibIndex (j + 1)) =
          t2 :: pathOf H post k (up1 H post data) (sibIndex (j + 1) / 2) := by
        rw [show pathOf H post (k + 1) data (sibIndex (j + 1)) =
          (data[sibIndex (sibIndex (j + 1))]?).getD default ::
            pathOf H post k (up1 H post data) (sibIndex (j + 1) / 2) from rfl, hss, ht2]
        rfl
      rw [hp0]
      by_cases hv3 : t3.isValid = true
      · rw [climb_sibling_invalid H post k _ t3 t2 _ hv3 ((isValid_false_iff t2).mpr hzero)]
      · rw [climb_target_invalid H post k _ t3 _ (by simpa using hv3)]

end SumIndex
