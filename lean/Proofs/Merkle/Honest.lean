import Proofs.Merkle.Verify
import Proofs.Merkle.Structure
set_option linter.unusedVariables false
/-! Generated proofs verify against the generated root (assembly of the C29 argument). -/
namespace SumIndex
variable (H : Bytes → Bytes) (post : Bool)

theorem levels_pos (n : Nat) (h : 2 ≤ n) : 1 ≤ levels n := by
  unfold levels; split <;> omega

theorem levels_le_32 (n : Nat) (h : n ≤ 2 ^ 32) : levels n ≤ 32 := levels_le_of_le_two_pow n 32 h

theorem proof_verifies_entries (es : List Entry) (h2 : 2 ≤ es.length) (h32 : es.length ≤ 2 ^ 32)
    (hdist : (es.map Entry.sum).Nodup) (hpos : ∀ e ∈ es, 0 < e.sum)
    (hguard : ∀ e ∈ es, e.sum + (2 ^ levels es.length - es.length) < two64)
    (hleaf : ∀ e ∈ es, e.hash = H e.leaf) (i : Nat) (hi : i < es.length) :
    ∃ root sorted p leaf, genRootE H post es = some (root, sorted) ∧
      genProofE H post es i = some (p, leaf) ∧ sorted[i]? = some leaf ∧
      sorted = (es.mergeSort Entry.le).map (·.leaf) ∧
      p.index = (i : Int) ∧ p.hashRanges.length = levels es.length ∧
      validate H post p root leaf (levels es.length) = some (true, false) := by
  obtain ⟨data, hstruct, hlen, hc, hv, hget⟩ := structureEntries_ok H es (by omega) h32 hdist hpos hguard
  obtain ⟨k, hk⟩ : ∃ k, levels es.length = k + 1 := ⟨levels es.length - 1, by have := levels_pos _ h2; omega⟩
  rw [hk] at hlen
  have hk32 : k + 1 ≤ 32 := by have := levels_le_32 _ h32; omega
  have h64 : 2 ^ (k + 1) ≤ two64 := by
    have : 2 ^ (k + 1) ≤ 2 ^ 32 := Nat.pow_le_pow_right (by decide) hk32
    unfold two64; omega
  have hfuel : k + 1 ≤ data.length := by rw [hlen]; exact Nat.le_of_lt Nat.lt_two_pow_self
  have hile : i < 2 ^ (k + 1) := by
    have := le_two_pow_levels es.length; rw [hk] at this; omega
  obtain ⟨path, r, t, hpath, hroot, ht, hplen, hclimb, hrl, hru⟩ :=
    climb_merklePath H post k data.length data 0 i hfuel hlen h64 hc hv hile
  have hslen : (es.mergeSort Entry.le).length = es.length := List.length_mergeSort es
  have hilt : i < (es.mergeSort Entry.le).length := by omega
  have he : (es.mergeSort Entry.le)[i]? = some (es.mergeSort Entry.le)[i] := List.getElem?_eq_getElem hilt
  obtain ⟨t', ht', hth, htu⟩ := hget i _ he
  have htt : t' = t := by rw [ht] at ht'; exact (Option.some.inj ht').symm
  subst htt
  have hmem : (es.mergeSort Entry.le)[i] ∈ es :=
    (List.mergeSort_perm es Entry.le).mem_iff.mp (List.getElem_mem hilt)
  refine ⟨r, _, ⟨(i : Int), path, t'⟩, (es.mergeSort Entry.le)[i].leaf, ?_, ?_, ?_, rfl, rfl, ?_, ?_⟩
  · simp [genRootE, hstruct, hroot]
  · simp [genProofE, hstruct, hpath, ht, he]
  · simp [he]
  · simp [hplen, hk]
  · unfold validate validateH
    have e1 : ¬ (r.lower ≠ 0) := by simp [hrl]
    have e2 : ¬ (t'.hash ≠ H (es.mergeSort Entry.le)[i].leaf) := by
      simp [hth, hleaf _ hmem]
    have e3 : ¬ (t'.upper ≠ sumFromHash t'.hash) := by simp [htu, hth]
    simp only [e1, e2, e3, if_false, hk, hclimb]
    simp

end SumIndex
