import Proofs.Merkle.Tree
import Proofs.Merkle.NextPow2
set_option linter.unusedVariables false
/-! `sortAndStructure`: the leaf level is a contiguous partition of `[0, top)` into non-empty ranges
when the sums are positive, pairwise distinct and the padding does not wrap. -/
namespace SumIndex
variable (H : Bytes → Bytes)

/-- Upper bounds strictly increase, starting above `lo`. -/
def Incr : Nat → List HashRange → Prop
  | _, [] => True
  | lo, x :: xs => lo < x.upper ∧ Incr x.upper xs

theorem Incr.of_pairwise : ∀ (l : List HashRange) (lo : Nat), (∀ x ∈ l, lo < x.upper) →
    l.Pairwise (fun a b => a.upper < b.upper) → Incr lo l
  | [], _, _, _ => trivial
  | x :: xs, lo, h, hp => by
    rw [List.pairwise_cons] at hp
    exact ⟨h x List.mem_cons_self, Incr.of_pairwise xs x.upper (fun y hy => hp.1 y hy) hp.2⟩

theorem chainLower_length : ∀ (l : List HashRange) (lo : Nat), (chainLower lo l).1.length = l.length
  | [], _ => rfl
  | x :: xs, lo => by simp [chainLower, chainLower_length xs]

theorem chainLower_contig : ∀ (l : List HashRange) (lo : Nat),
    Contig lo (chainLower lo l).1 ∧ chainEnd lo (chainLower lo l).1 = (chainLower lo l).2
  | [], _ => ⟨trivial, rfl⟩
  | x :: xs, lo => by
    have := chainLower_contig xs x.upper
    exact ⟨⟨rfl, this.1⟩, this.2⟩

theorem chainLower_allValid : ∀ (l : List HashRange) (lo : Nat), Incr lo l → AllValid (chainLower lo l).1
  | [], _, _ => by intro x hx; simp [chainLower] at hx
  | x :: xs, lo, h => by
    intro y hy
    simp only [chainLower, List.mem_cons] at hy
    rcases hy with rfl | hy
    · exact h.1
    · exact chainLower_allValid xs x.upper h.2 y hy

theorem chainLower_getElem : ∀ (l : List HashRange) (lo j : Nat) (x : HashRange), l[j]? = some x →
    ∃ t, (chainLower lo l).1[j]? = some t ∧ t.hash = x.hash ∧ t.upper = x.upper
  | [], _, j, x, h => by simp at h
  | y :: ys, lo, 0, x, h => by simp at h; subst h; exact ⟨{ y with lower := lo }, by simp [chainLower], rfl, rfl⟩
  | y :: ys, lo, j + 1, x, h => by
    simp only [List.getElem?_cons_succ] at h
    obtain ⟨t, ht, h1, h2⟩ := chainLower_getElem ys y.upper j x h
    exact ⟨t, by simpa [chainLower] using ht, h1, h2⟩

/-- The last upper bound is the start or one of the upper bounds. -/
theorem chainLower_snd : ∀ (l : List HashRange) (lo : Nat),
    (chainLower lo l).2 = lo ∨ ∃ x ∈ l, (chainLower lo l).2 = x.upper
  | [], _ => Or.inl rfl
  | x :: xs, lo => by
    rcases chainLower_snd xs x.upper with h | ⟨y, hy, h⟩
    · exact Or.inr ⟨x, List.mem_cons_self, h⟩
    · exact Or.inr ⟨y, List.mem_cons_of_mem _ hy, h⟩

theorem padding_length : ∀ (c i lower : Nat), (padding H c i lower).length = c
  | 0, _, _ => rfl
  | c + 1, i, lower => by simp [padding, padding_length c]

theorem padding_contig : ∀ (c i lower : Nat), Contig lower (padding H c i lower)
  | 0, _, _ => trivial
  | c + 1, i, lower => ⟨rfl, padding_contig c (i + 1) _⟩

theorem padding_allValid : ∀ (c i lower : Nat), lower + c < two64 → AllValid (padding H c i lower)
  | 0, _, _, _ => by intro x hx; simp [padding] at hx
  | c + 1, i, lower, h => by
    have e : (lower + 1) % two64 = lower + 1 := Nat.mod_eq_of_lt (by omega)
    intro y hy
    simp only [padding, List.mem_cons] at hy
    rcases hy with rfl | hy
    · simp only [e]; omega
    · rw [e] at hy
      exact padding_allValid c (i + 1) (lower + 1) (by omega) y hy

theorem AllValid.append (a b : List HashRange) (ha : AllValid a) (hb : AllValid b) : AllValid (a ++ b) := by
  intro x hx
  rcases List.mem_append.mp hx with h | h
  · exact ha x h
  · exact hb x h

/-- The sum of an entry. -/
def Entry.sum (e : Entry) : Nat := sumFromHash e.hash

theorem sorted_strict (es : List Entry) (hdist : (es.map Entry.sum).Nodup) :
    (es.mergeSort Entry.le).Pairwise (fun a b => a.sum < b.sum) := by
  have hle : (es.mergeSort Entry.le).Pairwise (fun a b => Entry.le a b = true) :=
    List.pairwise_mergeSort
      (fun a b c h1 h2 => by simp [Entry.le] at *; omega)
      (fun a b => by simp [Entry.le]; omega) es
  have hnd : ((es.mergeSort Entry.le).map Entry.sum).Nodup :=
    ((List.mergeSort_perm es Entry.le).map Entry.sum).nodup_iff.mpr hdist
  have hne : (es.mergeSort Entry.le).Pairwise (fun a b => a.sum ≠ b.sum) := by
    unfold List.Nodup at hnd
    exact List.pairwise_map.mp hnd
  refine (hle.and hne).imp ?_
  intro a b h
  have h1 := h.1
  have h2 := h.2
  simp only [Entry.le, Entry.sum, decide_eq_true_eq] at h1 h2 ⊢
  omega

/-- Level 0 before padding. -/
def rawLeaves (sorted : List Entry) : List HashRange :=
  sorted.map fun e => { hash := e.hash, lower := 0, upper := sumFromHash e.hash }

/-- **The leaf level.**  For `1 ≤ n ≤ 2^32` entries with positive, pairwise distinct sums and room
for the padding, `structureEntries` succeeds; the level has `2 ^ levels n` nodes forming a
contiguous partition of `[0, top)` into non-empty ranges; node `i < n` carries the hash and the sum
of the `i`-th entry in sorted order. -/
theorem structureEntries_ok (es : List Entry) (h1 : 1 ≤ es.length) (h32 : es.length ≤ 2 ^ 32)
    (hdist : (es.map Entry.sum).Nodup) (hpos : ∀ e ∈ es, 0 < e.sum)
    (hguard : ∀ e ∈ es, e.sum + (2 ^ levels es.length - es.length) < two64) :
    ∃ data : List HashRange, structureEntries H es = some (data, (es.mergeSort Entry.le).map (·.leaf)) ∧
      data.length = 2 ^ levels es.length ∧ Contig 0 data ∧ AllValid data ∧
      ∀ (i : Nat) (e : Entry), (es.mergeSort Entry.le)[i]? = some e →
        ∃ t : HashRange, data[i]? = some t ∧ t.hash = e.hash ∧ t.upper = sumFromHash e.hash := by
  have hnp := nextPowerOfTwo_eq es.length h1 h32
  have hle := le_two_pow_levels es.length
  have hperm : (es.mergeSort Entry.le).Perm es := List.mergeSort_perm es Entry.le
  have hslen : (es.mergeSort Entry.le).length = es.length := List.length_mergeSort es
  have hstrict := sorted_strict es hdist
  generalize hs : es.mergeSort Entry.le = sorted at *
  have hincr : Incr 0 (rawLeaves sorted) := by
    apply Incr.of_pairwise
    · intro x hx
      simp only [rawLeaves, List.mem_map] at hx
      obtain ⟨e, he, rfl⟩ := hx
      exact hpos e (hperm.mem_iff.mp he)
    · simp only [rawLeaves, List.pairwise_map]
      exact hstrict
  have hc := chainLower_contig (rawLeaves sorted) 0
  have hv := chainLower_allValid (rawLeaves sorted) 0 hincr
  have hrl : (rawLeaves sorted).length = es.length := by simp [rawLeaves, hslen]
  have hcl := chainLower_length (rawLeaves sorted) 0
  -- the last upper bound leaves room for the padding
  have hend : (chainLower 0 (rawLeaves sorted)).2 + (2 ^ levels es.length - es.length) < two64 := by
    rcases chainLower_snd (rawLeaves sorted) 0 with h | ⟨x, hx, h⟩
    · rw [h]
      obtain ⟨e, he⟩ := List.exists_mem_of_length_pos (by omega : 0 < es.length)
      have := hguard e he; omega
    · rw [h]
      simp only [rawLeaves, List.mem_map] at hx
      obtain ⟨e, he, rfl⟩ := hx
      exact hguard e (hperm.mem_iff.mp he)
  refine ⟨(chainLower 0 (rawLeaves sorted)).1 ++
      padding H (2 ^ levels es.length - es.length) es.length (chainLower 0 (rawLeaves sorted)).2, ?_, ?_, ?_, ?_, ?_⟩
  · unfold structureEntries
    have hne : es.length ≠ 0 := by omega
    simp only [hne, if_false, hnp]
    have : ¬ (2 ^ levels es.length < es.length) := by omega
    simp only [this, if_false]
    subst hs
    rfl
  · simp [padding_length, hcl, hrl]; omega
  · exact Contig.append _ _ 0 hc.1 (by rw [hc.2]; exact padding_contig H _ _ _)
  · exact AllValid.append _ _ hv (padding_allValid H _ _ _ hend)
  · intro i e hi
    have hraw : (rawLeaves sorted)[i]? = some { hash := e.hash, lower := 0, upper := sumFromHash e.hash } := by
      simp [rawLeaves, hi]
    obtain ⟨t, ht, e1, e2⟩ := chainLower_getElem (rawLeaves sorted) 0 i _ hraw
    refine ⟨t, ?_, e1, e2⟩
    have hlt : i < (chainLower 0 (rawLeaves sorted)).1.length := by
      have := (List.getElem?_eq_some_iff.mp ht).1; exact this
    rw [List.getElem?_append_left hlt]; exact ht

end SumIndex
