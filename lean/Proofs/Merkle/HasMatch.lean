import Proofs.Merkle.Honest
import Proofs.Merkle.Replay
set_option linter.unusedVariables false
/-! The keeper's `hasMatch` test never rejects a generated proof. -/
namespace SumIndex
variable (H : Bytes → Bytes) (post : Bool)

/-- On the committed path of any position, some sibling — or the target itself — ends where the
whole level ends (this is what the `hasMatch` loop of `Keeper.ValidateProof` looks for). -/
theorem pathOf_hasMatch : ∀ (k : Nat) (data : List HashRange) (lo i : Nat),
    data.length = 2 ^ (k + 1) → Contig lo data → i < 2 ^ (k + 1) →
    (∃ s ∈ pathOf H post (k + 1) data i, s.upper = chainEnd lo data) ∨
      (∃ t, data[i]? = some t ∧ t.upper = chainEnd lo data) := by
  intro k
  induction k with
  | zero =>
    intro data lo i hl hc hi
    match data, hl with
    | [a, b], _ =>
      have hi2 : i = 0 ∨ i = 1 := by simp at hi; omega
      rcases hi2 with rfl | rfl
      · left; exact ⟨b, by simp [pathOf, sibIndex], rfl⟩
      · right; exact ⟨b, by simp, rfl⟩
  | succ k ih =>
    intro data lo i hl hc hi
    have hl2 : data.length = 2 * 2 ^ (k + 1) := by rw [hl]; exact Nat.pow_succ'
    obtain ⟨hup, hnl⟩ := up1_spec H post data _ hl2
    have ⟨hc', he'⟩ := levelUpFrom_contig H post data 0 lo _ hup hc
    have hi' : i < 2 * 2 ^ (k + 1) := by rw [← Nat.pow_succ']; exact hi
    have hj : i / 2 < 2 ^ (k + 1) := by omega
    have h1 : 2 * (i / 2) < data.length := by omega
    have h2 : 2 * (i / 2) + 1 < data.length := by omega
    have ha := List.getElem?_eq_getElem h1
    have hb := List.getElem?_eq_getElem h2
    generalize data[2 * (i / 2)] = a at ha
    generalize data[2 * (i / 2) + 1] = b at hb
    have hn0 := levelUpFrom_getElem H post data 0 _ hup (i / 2) a b ha hb
    have hpath : pathOf H post (k + 1 + 1) data i =
        (data[sibIndex i]?).getD default :: pathOf H post (k + 1) (up1 H post data) (i / 2) := rfl
    rcases ih (up1 H post data) lo (i / 2) hnl hc' hj with ⟨s, hs, hsu⟩ | ⟨t, ht, htu⟩
    · left
      exact ⟨s, by rw [hpath]; exact List.mem_cons_of_mem _ hs, by rw [hsu, he']⟩
    · rw [hn0] at ht
      have hte : t = parent H post (0 + 2 * (i / 2)) a b := (Option.some.inj ht).symm
      have hbu : b.upper = chainEnd lo data := by rw [← he', ← htu, hte]; rfl
      rcases Nat.mod_two_eq_zero_or_one i with hpar | hpar
      · left
        have hs : sibIndex i = 2 * (i / 2) + 1 := by simp [sibIndex, hpar]; omega
        refine ⟨b, ?_, hbu⟩
        rw [hpath, hs, hb]; simp
      · right
        have hi_eq : i = 2 * (i / 2) + 1 := by omega
        exact ⟨b, by rw [hi_eq]; exact hb, hbu⟩

theorem lvl_chainEnd : ∀ (n : Nat) (data : List HashRange) (lo : Nat), data.length = 2 ^ n → Contig lo data →
    chainEnd lo (lvl H post n data) = chainEnd lo data
  | 0, data, lo, hl, hc => rfl
  | n + 1, data, lo, hl, hc => by
    have hl2 : data.length = 2 * 2 ^ n := by rw [hl, Nat.pow_succ]; omega
    obtain ⟨hup, hnl⟩ := up1_spec H post data _ hl2
    have ⟨hc', he'⟩ := levelUpFrom_contig H post data 0 lo _ hup hc
    rw [← he']
    exact lvl_chainEnd n _ lo hnl hc'

/-- The generated proof of any committed position passes the keeper's `hasMatch` test against the
generated root (no assumption on the sums). -/
theorem genProofE_hasMatch (es : List Entry) (h2 : 2 ≤ es.length) (h32 : es.length ≤ 2 ^ 32)
    (root : HashRange) (sorted : List Bytes) (hroot : genRootE H post es = some (root, sorted))
    (i : Nat) (p : MerkleProof) (leaf : Bytes) (hgen : genProofE H post es i = some (p, leaf)) :
    hasMatch p root = true := by
  obtain ⟨data, hstruct, hdl, hc, hget⟩ := structureEntries_shape0 H es (by omega) h32
  obtain ⟨k, hk⟩ : ∃ k, levels es.length = k + 1 := ⟨levels es.length - 1, by have := levels_pos _ h2; omega⟩
  rw [hk] at hdl
  have hfuel : k + 1 ≤ data.length := by rw [hdl]; exact Nat.le_of_lt Nat.lt_two_pow_self
  -- the root spans the level
  have hlv := lvl_contig H post (k + 1) data 0 hdl hc
  have hr : (lvl H post (k + 1) data)[0]? = some root := by
    simp only [genRootE, hstruct, Option.map_eq_some_iff] at hroot
    obtain ⟨r, hr, he⟩ := hroot
    rw [rootOf_eq_lvl H post k data.length data hfuel hdl] at hr
    have : r = root := by injection he
    rw [← this]; exact hr
  have hru : root.upper = chainEnd 0 data := by
    have hce := lvl_chainEnd H post (k + 1) data 0 hdl hc
    match hl : lvl H post (k + 1) data, hlv.2 with
    | [x], _ =>
      rw [hl] at hr hce
      simp at hr
      subst hr
      simpa [chainEnd] using hce
  -- the proof
  simp only [genProofE, hstruct] at hgen
  cases hp : merklePath H post data.length data i with
  | none => simp [hp] at hgen
  | some path =>
    cases hs : (List.map (fun x => x.leaf) (es.mergeSort Entry.le))[i]? with
    | none => simp [hp, hs] at hgen
    | some lf =>
      cases ht : data[i]? with
      | none => simp [hp, hs, ht] at hgen
      | some t =>
        simp only [hp, hs, ht, Option.some.injEq, Prod.mk.injEq] at hgen
        obtain ⟨rfl, _⟩ := hgen
        have hilt : i < 2 ^ (k + 1) := by
          have := (List.getElem?_eq_some_iff.mp ht).1; omega
        rw [merklePath_eq_pathOf H post k data.length data i hfuel hdl hilt] at hp
        have hpe := Option.some.inj hp
        unfold hasMatch
        simp only [Bool.or_eq_true, List.any_eq_true, beq_iff_eq]
        rcases pathOf_hasMatch H post k data 0 i hdl hc hilt with ⟨s, hs', hsu⟩ | ⟨t', ht', htu⟩
        · left; exact ⟨s, by rw [← hpe]; exact hs', by rw [hsu, hru]⟩
        · right
          rw [ht] at ht'
          have := Option.some.inj ht'
          subst this
          rw [htu, hru]

end SumIndex
