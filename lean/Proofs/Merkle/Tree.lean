import PocketModel.Merkle.SumIndex
set_option linter.unusedVariables false
/-! Structure of `levelUp`: lengths, element access, and the range invariants it preserves. -/
namespace SumIndex
variable (H : Bytes → Bytes) (post : Bool)

/-- Every node starts where its left neighbour ends; the first one starts at `lo`. -/
def Contig : Nat → List HashRange → Prop
  | _, [] => True
  | lo, x :: xs => x.lower = lo ∧ Contig x.upper xs

/-- Every node has a non-empty range. -/
def AllValid (data : List HashRange) : Prop := ∀ x ∈ data, x.lower < x.upper

/-- Upper bound of the last node (`lo` for the empty list). -/
def chainEnd : Nat → List HashRange → Nat
  | lo, [] => lo
  | _, x :: xs => chainEnd x.upper xs

theorem levelUpFrom_length : ∀ (data : List HashRange) (i : Nat) (out : List HashRange),
    levelUpFrom H post i data = some out → data.length = 2 * out.length
  | [], i, out, h => by simp [levelUpFrom] at h; subst h; rfl
  | [_], i, out, h => by simp [levelUpFrom] at h
  | a :: b :: rest, i, out, h => by
    simp only [levelUpFrom, Option.map_eq_some_iff] at h
    obtain ⟨o, ho, rfl⟩ := h
    have := levelUpFrom_length rest (i + 2) o ho
    simp [this]; omega

theorem levelUpFrom_isSome : ∀ (n : Nat) (data : List HashRange) (i : Nat), data.length = 2 * n →
    ∃ out, levelUpFrom H post i data = some out
  | 0, data, i, h => by
    have : data = [] := List.eq_nil_of_length_eq_zero (by omega)
    subst this; exact ⟨[], rfl⟩
  | n + 1, data, i, h => by
    match data, h with
    | a :: b :: rest, h =>
      have hr : rest.length = 2 * n := by simp at h; omega
      obtain ⟨o, ho⟩ := levelUpFrom_isSome n rest (i + 2) hr
      exact ⟨parent H post i a b :: o, by simp [levelUpFrom, ho]⟩

theorem levelUpFrom_getElem : ∀ (data : List HashRange) (i : Nat) (out : List HashRange),
    levelUpFrom H post i data = some out → ∀ (j : Nat) (a b : HashRange),
    data[2 * j]? = some a → data[2 * j + 1]? = some b → out[j]? = some (parent H post (i + 2 * j) a b)
  | [], i, out, h, j, a, b, ha, hb => by simp at ha
  | [_], i, out, h, j, a, b, ha, hb => by simp [levelUpFrom] at h
  | x :: y :: rest, i, out, h, j, a, b, ha, hb => by
    simp only [levelUpFrom, Option.map_eq_some_iff] at h
    obtain ⟨o, ho, rfl⟩ := h
    cases j with
    | zero => simp at ha hb; subst ha; subst hb; simp
    | succ j =>
      have e1 : 2 * (j + 1) = 2 * j + 1 + 1 := by omega
      have e2 : 2 * (j + 1) + 1 = (2 * j + 1) + 1 + 1 := by omega
      rw [e1] at ha; rw [e2] at hb
      simp only [List.getElem?_cons_succ] at ha hb
      have := levelUpFrom_getElem rest (i + 2) o ho j a b ha hb
      simp only [List.getElem?_cons_succ, this]
      congr 2; omega

theorem levelUpFrom_contig : ∀ (data : List HashRange) (i lo : Nat) (out : List HashRange),
    levelUpFrom H post i data = some out → Contig lo data →
    Contig lo out ∧ chainEnd lo out = chainEnd lo data
  | [], i, lo, out, h, hc => by simp [levelUpFrom] at h; subst h; exact ⟨trivial, rfl⟩
  | [_], i, lo, out, h, hc => by simp [levelUpFrom] at h
  | a :: b :: rest, i, lo, out, h, hc => by
    simp only [levelUpFrom, Option.map_eq_some_iff] at h
    obtain ⟨o, ho, rfl⟩ := h
    obtain ⟨ha, hb, hrest⟩ := hc
    have := levelUpFrom_contig rest (i + 2) b.upper o ho hrest
    exact ⟨⟨ha, this.1⟩, this.2⟩

theorem levelUpFrom_allValid : ∀ (data : List HashRange) (i lo : Nat) (out : List HashRange),
    levelUpFrom H post i data = some out → Contig lo data → AllValid data → AllValid out
  | [], i, lo, out, h, hc, hv => by simp [levelUpFrom] at h; subst h; intro x hx; simp at hx
  | [_], i, lo, out, h, hc, hv => by simp [levelUpFrom] at h
  | a :: b :: rest, i, lo, out, h, hc, hv => by
    simp only [levelUpFrom, Option.map_eq_some_iff] at h
    obtain ⟨o, ho, rfl⟩ := h
    obtain ⟨ha, hb, hrest⟩ := hc
    have ih := levelUpFrom_allValid rest (i + 2) b.upper o ho hrest
      (fun x hx => hv x (List.mem_cons_of_mem _ (List.mem_cons_of_mem _ hx)))
    intro x hx
    rcases List.mem_cons.mp hx with rfl | hx
    · have h1 := hv a List.mem_cons_self
      have h2 := hv b (List.mem_cons_of_mem _ List.mem_cons_self)
      simp only [parent]; omega
    · exact ih x hx

/-- Adjacent nodes of a contiguous level share their boundary. -/
theorem Contig.adjacent : ∀ (data : List HashRange) (lo j : Nat) (a b : HashRange), Contig lo data →
    data[j]? = some a → data[j + 1]? = some b → a.upper = b.lower
  | [], lo, j, a, b, hc, ha, hb => by simp at ha
  | [_], lo, j, a, b, hc, ha, hb => by cases j <;> simp at hb
  | x :: y :: rest, lo, j, a, b, hc, ha, hb => by
    cases j with
    | zero => simp at ha hb; subst ha; subst hb; exact hc.2.1.symm
    | succ j =>
      simp only [List.getElem?_cons_succ] at ha hb
      exact Contig.adjacent (y :: rest) x.upper j a b hc.2 ha (by simpa using hb)

theorem Contig.head_lower (data : List HashRange) (lo : Nat) (a : HashRange) (hc : Contig lo data)
    (h : data[0]? = some a) : a.lower = lo := by
  cases data with
  | nil => simp at h
  | cons x xs => simp at h; subst h; exact hc.1

theorem AllValid.getElem (data : List HashRange) (hv : AllValid data) (j : Nat) (a : HashRange)
    (h : data[j]? = some a) : a.lower < a.upper := hv a (List.mem_of_getElem? h)

theorem Contig.append : ∀ (a b : List HashRange) (lo : Nat), Contig lo a → Contig (chainEnd lo a) b →
    Contig lo (a ++ b)
  | [], b, lo, _, hb => hb
  | x :: xs, b, lo, ha, hb => ⟨ha.1, Contig.append xs b x.upper ha.2 hb⟩

theorem chainEnd_append : ∀ (a b : List HashRange) (lo : Nat),
    chainEnd lo (a ++ b) = chainEnd (chainEnd lo a) b
  | [], b, lo => rfl
  | x :: xs, b, lo => chainEnd_append xs b x.upper

end SumIndex
