import PocketModel.Session
/-! Lemmas about the session node selection loop. -/
namespace Session

/-! ## Counting with duplicate-free lists -/

theorem nodup_subset_length {α : Type} [DecidableEq α] :
    ∀ (l1 l2 : List α), l1.Nodup → (∀ x ∈ l1, x ∈ l2) → l1.length ≤ l2.length := by
  intro l1
  induction l1 with
  | nil => intro l2 _ _; simp
  | cons a t ih =>
    intro l2 hn hs
    obtain ⟨hat, hnt⟩ := List.nodup_cons.mp hn
    have ha : a ∈ l2 := hs a List.mem_cons_self
    have hsub : ∀ x ∈ t, x ∈ l2.erase a := by
      intro x hx
      have hne : x ≠ a := fun e => hat (e ▸ hx)
      exact (List.mem_erase_of_ne hne).mpr (hs x (List.mem_cons_of_mem _ hx))
    have := ih (l2.erase a) hnt hsub
    rw [List.length_erase_of_mem ha] at this
    have := List.length_pos_of_mem ha
    simp only [List.length_cons]
    omega

/-- Pigeonhole: a duplicate-free sublist-as-set that is at least as long contains everything. -/
theorem nodup_full {α : Type} [DecidableEq α] (l1 l2 : List α) (h1 : l1.Nodup)
    (hs : ∀ x ∈ l1, x ∈ l2) (hl : l2.length ≤ l1.length) : ∀ x ∈ l2, x ∈ l1 := by
  intro x hx
  apply Classical.byContradiction
  intro hnx
  have hsub : ∀ y ∈ l1, y ∈ l2.erase x := by
    intro y hy
    have hne : y ≠ x := fun e => hnx (e ▸ hy)
    exact (List.mem_erase_of_ne hne).mpr (hs y hy)
  have := nodup_subset_length l1 (l2.erase x) h1 hsub
  rw [List.length_erase_of_mem hx] at this
  have := List.length_pos_of_mem hx
  omega

theorem nodup_filter {α : Type} (p : α → Bool) {l : List α} (h : l.Nodup) : (l.filter p).Nodup :=
  List.Nodup.sublist List.filter_sublist h

/-! ## One iteration -/

/-- What `session_ok` needs of a loop state. -/
structure InvOk (c : Cfg) (s : LoopSt) : Prop where
  nodup : s.chosen.Nodup
  mem : ∀ n ∈ s.chosen, n ∈ c.addrs ∧ eligible c n = true

/-- What the failure analysis needs. -/
structure InvFail (c : Cfg) (s : LoopSt) : Prop where
  triedNodup : s.tried.Nodup
  triedSub : ∀ n ∈ s.tried, n ∈ c.addrs
  elig : ∀ n ∈ s.tried, eligible c n = true → n ∈ s.chosen
  chosenNodup : s.chosen.Nodup
  short : s.chosen.length < c.count

theorem iter_cases (c : Cfg) (s : LoopSt) :
    (s.tried.length ≥ c.addrs.length ∧ iter c s = .inl .insufficient) ∨
    (s.tried.length < c.addrs.length ∧ c.addrs[c.stream s.i]? = none ∧ iter c s = .inl .panic) ∨
    (∃ n, s.tried.length < c.addrs.length ∧ c.addrs[c.stream s.i]? = some n ∧
      ((n ∈ s.tried ∧ iter c s = .inr { s with i := s.i + 1 }) ∨
       (n ∉ s.tried ∧ eligible c n = true ∧ n ∉ s.chosen ∧
          ((c.count = 0 ∧ iter c s = .inl .panic) ∨
           (c.count ≠ 0 ∧ s.chosen.length + 1 = c.count ∧ iter c s = .inl (.ok (s.chosen ++ [n]))) ∨
           (c.count ≠ 0 ∧ s.chosen.length + 1 ≠ c.count ∧
              iter c s = .inr { i := s.i + 1, tried := n :: s.tried, chosen := s.chosen ++ [n] }))) ∨
       (n ∉ s.tried ∧ ¬ (eligible c n = true ∧ n ∉ s.chosen) ∧
          iter c s = .inr { s with i := s.i + 1, tried := n :: s.tried }))) := by
  unfold iter
  by_cases h0 : s.tried.length ≥ c.addrs.length
  · exact Or.inl ⟨h0, by simp [h0]⟩
  · have h0' : s.tried.length < c.addrs.length := by omega
    rw [if_neg h0]
    cases hg : c.addrs[c.stream s.i]? with
    | none => exact Or.inr (Or.inl ⟨h0', rfl, rfl⟩)
    | some n =>
      refine Or.inr (Or.inr ⟨n, h0', rfl, ?_⟩)
      simp only
      by_cases ht : n ∈ s.tried
      · exact Or.inl ⟨ht, by simp [ht]⟩
      · rw [if_neg ht]
        by_cases he : eligible c n = true ∧ n ∉ s.chosen
        · have hc : (eligible c n && !(s.chosen.contains n)) = true := by
            simp [he.1, he.2]
          rw [if_pos hc]
          refine Or.inr (Or.inl ⟨ht, he.1, he.2, ?_⟩)
          by_cases hz : c.count = 0
          · exact Or.inl ⟨hz, by simp [hz]⟩
          · rw [if_neg hz]
            by_cases hl : s.chosen.length + 1 = c.count
            · exact Or.inr (Or.inl ⟨hz, hl, by simp [hl]⟩)
            · exact Or.inr (Or.inr ⟨hz, hl, by simp [hl]⟩)
        · have hc : ¬ ((eligible c n && !(s.chosen.contains n)) = true) := by
            intro hc
            simp at hc
            exact he ⟨hc.1, hc.2⟩
          rw [if_neg hc]
          exact Or.inr (Or.inr ⟨ht, he, rfl⟩)

theorem InvOk.step {c : Cfg} {s s' : LoopSt} (h : InvOk c s) (hi : iter c s = .inr s') : InvOk c s' := by
  rcases iter_cases c s with ⟨_, e⟩ | ⟨_, _, e⟩ | ⟨n, _, hg, hc⟩
  · rw [e] at hi; cases hi
  · rw [e] at hi; cases hi
  · rcases hc with ⟨_, e⟩ | ⟨_, he, hnc, hc⟩ | ⟨_, _, e⟩
    · rw [e] at hi; cases hi; exact ⟨h.nodup, h.mem⟩
    · rcases hc with ⟨_, e⟩ | ⟨_, _, e⟩ | ⟨_, _, e⟩
      · rw [e] at hi; cases hi
      · rw [e] at hi; cases hi
      · rw [e] at hi; cases hi
        constructor
        · simp only
          rw [List.nodup_append]
          refine ⟨h.nodup, by simp, ?_⟩
          intro a ha b hb
          have : b = n := by simpa using hb
          subst this
          exact fun e => hnc (e ▸ ha)
        · intro m hm
          simp only at hm
          rcases List.mem_append.mp hm with hm | hm
          · exact h.mem m hm
          · have : m = n := by simpa using hm
            subst this
            exact ⟨List.mem_of_getElem? hg, he⟩
    · rw [e] at hi; cases hi; exact ⟨h.nodup, h.mem⟩

theorem InvOk.final {c : Cfg} {s : LoopSt} (h : InvOk c s) {ns : List Addr}
    (hi : iter c s = .inl (.ok ns)) :
    ns.length = c.count ∧ ns.Nodup ∧ ∀ n ∈ ns, n ∈ c.addrs ∧ eligible c n = true := by
  rcases iter_cases c s with ⟨_, e⟩ | ⟨_, _, e⟩ | ⟨n, _, hg, hc⟩
  · rw [e] at hi; cases hi
  · rw [e] at hi; cases hi
  · rcases hc with ⟨_, e⟩ | ⟨_, he, hnc, hc⟩ | ⟨_, _, e⟩
    · rw [e] at hi; cases hi
    · rcases hc with ⟨_, e⟩ | ⟨_, hl, e⟩ | ⟨_, _, e⟩
      · rw [e] at hi; cases hi
      · rw [e] at hi
        injection hi with hi
        injection hi with hi
        subst hi
        refine ⟨by simp [hl], ?_, ?_⟩
        · rw [List.nodup_append]
          refine ⟨h.nodup, by simp, ?_⟩
          intro a ha b hb
          have : b = n := by simpa using hb
          subst this
          exact fun e => hnc (e ▸ ha)
        · intro m hm
          rcases List.mem_append.mp hm with hm | hm
          · exact h.mem m hm
          · have : m = n := by simpa using hm
            subst this
            exact ⟨List.mem_of_getElem? hg, he⟩
      · rw [e] at hi; cases hi
    · rw [e] at hi; cases hi

theorem run_ok (c : Cfg) : ∀ (fuel : Nat) (s : LoopSt), InvOk c s → ∀ ns, run c fuel s = .ok ns →
    ns.length = c.count ∧ ns.Nodup ∧ ∀ n ∈ ns, n ∈ c.addrs ∧ eligible c n = true := by
  intro fuel
  induction fuel with
  | zero => intro s _ ns h; simp [run] at h
  | succ fuel ih =>
    intro s hinv ns h
    unfold run at h
    cases hi : iter c s with
    | inl r =>
      rw [hi] at h
      simp only at h
      subst h
      exact hinv.final hi
    | inr s' =>
      rw [hi] at h
      exact ih s' (hinv.step hi) ns h

theorem InvFail.step {c : Cfg} {s s' : LoopSt} (h : InvFail c s) (hi : iter c s = .inr s') :
    InvFail c s' := by
  rcases iter_cases c s with ⟨_, e⟩ | ⟨_, _, e⟩ | ⟨n, _, hg, hc⟩
  · rw [e] at hi; cases hi
  · rw [e] at hi; cases hi
  · have hn : n ∈ c.addrs := List.mem_of_getElem? hg
    rcases hc with ⟨_, e⟩ | ⟨hnt, he, hnc, hc⟩ | ⟨hnt, hne, e⟩
    · rw [e] at hi; cases hi
      exact ⟨h.triedNodup, h.triedSub, h.elig, h.chosenNodup, h.short⟩
    · rcases hc with ⟨_, e⟩ | ⟨_, _, e⟩ | ⟨hz, hl, e⟩
      · rw [e] at hi; cases hi
      · rw [e] at hi; cases hi
      · rw [e] at hi; cases hi
        refine ⟨List.nodup_cons.mpr ⟨hnt, h.triedNodup⟩, ?_, ?_, ?_, ?_⟩
        · intro m hm
          rcases List.mem_cons.mp hm with rfl | hm
          · exact hn
          · exact h.triedSub m hm
        · intro m hm hem
          simp only
          rcases List.mem_cons.mp hm with rfl | hm
          · simp
          · exact List.mem_append_left _ (h.elig m hm hem)
        · simp only
          rw [List.nodup_append]
          refine ⟨h.chosenNodup, by simp, ?_⟩
          intro a ha b hb
          have : b = n := by simpa using hb
          subst this
          exact fun e => hnc (e ▸ ha)
        · have := h.short
          simp only [List.length_append, List.length_cons, List.length_nil]
          omega
    · rw [e] at hi; cases hi
      refine ⟨List.nodup_cons.mpr ⟨hnt, h.triedNodup⟩, ?_, ?_, h.chosenNodup, h.short⟩
      · intro m hm
        rcases List.mem_cons.mp hm with rfl | hm
        · exact hn
        · exact h.triedSub m hm
      · intro m hm hem
        simp only at hm ⊢
        rcases List.mem_cons.mp hm with rfl | hm
        · apply Classical.byContradiction
          intro hmc
          exact hne ⟨hem, hmc⟩
        · exact h.elig m hm hem

theorem InvFail.final {c : Cfg} {s : LoopSt} (h : InvFail c s) (hnd : c.addrs.Nodup)
    (hi : iter c s = .inl .insufficient) : (c.addrs.filter (eligible c)).length < c.count := by
  rcases iter_cases c s with ⟨hl, _⟩ | ⟨_, _, e⟩ | ⟨n, _, hg, hc⟩
  · have hall := nodup_full s.tried c.addrs h.triedNodup h.triedSub hl
    have hsub : ∀ x ∈ c.addrs.filter (eligible c), x ∈ s.chosen := by
      intro x hx
      obtain ⟨hxa, hxe⟩ := List.mem_filter.mp hx
      exact h.elig x (hall x hxa) hxe
    have := nodup_subset_length _ _ (nodup_filter (eligible c) hnd) hsub
    have := h.short
    omega
  · rw [e] at hi; cases hi
  · rcases hc with ⟨_, e⟩ | ⟨_, _, _, hc⟩ | ⟨_, _, e⟩
    · rw [e] at hi; cases hi
    · rcases hc with ⟨_, e⟩ | ⟨_, _, e⟩ | ⟨_, _, e⟩ <;> (rw [e] at hi; cases hi)
    · rw [e] at hi; cases hi

theorem run_insufficient (c : Cfg) (hnd : c.addrs.Nodup) : ∀ (fuel : Nat) (s : LoopSt), InvFail c s →
    run c fuel s = .insufficient → (c.addrs.filter (eligible c)).length < c.count := by
  intro fuel
  induction fuel with
  | zero => intro s _ h; simp [run] at h
  | succ fuel ih =>
    intro s hinv h
    unfold run at h
    cases hi : iter c s with
    | inl r =>
      rw [hi] at h
      simp only at h
      subst h
      exact hinv.final hnd hi
    | inr s' =>
      rw [hi] at h
      exact ih s' (hinv.step hi) h

/-! ## Termination when the stream covers every index -/

structure InvCov (c : Cfg) (K : Nat) (s : LoopSt) : Prop where
  triedNodup : s.tried.Nodup
  triedSub : ∀ n ∈ s.tried, n ∈ c.addrs
  seen : ∀ k, k < s.i → ∀ n, c.addrs[c.stream k]? = some n → n ∈ s.tried
  bound : s.i ≤ K

theorem InvCov.step {c : Cfg} {K : Nat} {s s' : LoopSt} (hnd : c.addrs.Nodup)
    (hcov : ∀ j, j < c.addrs.length → ∃ i, i < K ∧ c.stream i = j)
    (h : InvCov c K s) (hi : iter c s = .inr s') : InvCov c K s' := by
  have hlt : s.i < K := by
    apply Nat.lt_of_not_le
    intro hge
    -- every address has been tried, so the iteration must have returned `insufficient`
    have hall : ∀ x ∈ c.addrs, x ∈ s.tried := by
      intro x hx
      obtain ⟨j, hj⟩ := List.mem_iff_getElem?.mp hx
      have hjl : j < c.addrs.length := by
        obtain ⟨hlt, _⟩ := List.getElem?_eq_some_iff.mp hj
        exact hlt
      obtain ⟨i, hiK, hij⟩ := hcov j hjl
      exact h.seen i (by omega) x (by rw [hij]; exact hj)
    have := nodup_subset_length c.addrs s.tried hnd hall
    rcases iter_cases c s with ⟨_, e⟩ | ⟨hl, _, _⟩ | ⟨n, hl, _, _⟩
    · rw [e] at hi; cases hi
    · omega
    · omega
  rcases iter_cases c s with ⟨_, e⟩ | ⟨_, _, e⟩ | ⟨n, _, hg, hc⟩
  · rw [e] at hi; cases hi
  · rw [e] at hi; cases hi
  · have hn : n ∈ c.addrs := List.mem_of_getElem? hg
    have seen' : ∀ (tr : List Addr), (∀ m ∈ s.tried, m ∈ tr) → n ∈ tr →
        ∀ k, k < s.i + 1 → ∀ m, c.addrs[c.stream k]? = some m → m ∈ tr := by
      intro tr hsub hntr k hk m hm
      by_cases hks : k < s.i
      · exact hsub m (h.seen k hks m hm)
      · have : k = s.i := by omega
        subst this
        rw [hg] at hm
        cases hm
        exact hntr
    have sub' : ∀ m ∈ n :: s.tried, m ∈ c.addrs := by
      intro m hm
      rcases List.mem_cons.mp hm with rfl | hm
      · exact hn
      · exact h.triedSub m hm
    rcases hc with ⟨hnt, e⟩ | ⟨hnt, _, _, hc⟩ | ⟨hnt, _, e⟩
    · rw [e] at hi; cases hi
      exact ⟨h.triedNodup, h.triedSub, seen' s.tried (fun m hm => hm) hnt, by simp only; omega⟩
    · rcases hc with ⟨_, e⟩ | ⟨_, _, e⟩ | ⟨_, _, e⟩
      · rw [e] at hi; cases hi
      · rw [e] at hi; cases hi
      · rw [e] at hi; cases hi
        exact ⟨List.nodup_cons.mpr ⟨hnt, h.triedNodup⟩, sub',
          seen' (n :: s.tried) (fun m hm => List.mem_cons_of_mem _ hm) List.mem_cons_self,
          by simp only; omega⟩
    · rw [e] at hi; cases hi
      exact ⟨List.nodup_cons.mpr ⟨hnt, h.triedNodup⟩, sub',
        seen' (n :: s.tried) (fun m hm => List.mem_cons_of_mem _ hm) List.mem_cons_self,
        by simp only; omega⟩

theorem run_terminates (c : Cfg) (K : Nat) (hnd : c.addrs.Nodup)
    (hcov : ∀ j, j < c.addrs.length → ∃ i, i < K ∧ c.stream i = j) :
    ∀ (fuel : Nat) (s : LoopSt), InvCov c K s → K < s.i + fuel → run c fuel s ≠ .outOfFuel := by
  intro fuel
  induction fuel with
  | zero =>
    intro s h hk
    have := h.bound
    omega
  | succ fuel ih =>
    intro s h hk
    unfold run
    cases hi : iter c s with
    | inl r =>
      simp only
      rcases iter_cases c s with ⟨_, e⟩ | ⟨_, _, e⟩ | ⟨n, _, _, hc⟩
      · rw [e] at hi; cases hi; simp
      · rw [e] at hi; cases hi; simp
      · rcases hc with ⟨_, e⟩ | ⟨_, _, _, hc⟩ | ⟨_, _, e⟩
        · rw [e] at hi; cases hi
        · rcases hc with ⟨_, e⟩ | ⟨_, _, e⟩ | ⟨_, _, e⟩
          · rw [e] at hi; cases hi; simp
          · rw [e] at hi; cases hi; simp
          · rw [e] at hi; cases hi
        · rw [e] at hi; cases hi
    | inr s' =>
      simp only
      have h' := h.step hnd hcov hi
      have hi' : s'.i = s.i + 1 := by
        rcases iter_cases c s with ⟨_, e⟩ | ⟨_, _, e⟩ | ⟨n, _, _, hc⟩
        · rw [e] at hi; cases hi
        · rw [e] at hi; cases hi
        · rcases hc with ⟨_, e⟩ | ⟨_, _, _, hc⟩ | ⟨_, _, e⟩
          · rw [e] at hi; cases hi; rfl
          · rcases hc with ⟨_, e⟩ | ⟨_, _, e⟩ | ⟨_, _, e⟩
            · rw [e] at hi; cases hi
            · rw [e] at hi; cases hi
            · rw [e] at hi; cases hi; rfl
          · rw [e] at hi; cases hi; rfl
      exact ih s' h' (by omega)

/-! ## Determinism: the result depends only on the listed inputs -/

theorem eligible_congr {c1 c2 : Cfg} (hl : ∀ n ∈ c1.addrs, c1.lookup n = c2.lookup n)
    (hch : c1.chain = c2.chain) (hm : c1.maxChains = c2.maxChains) (he : c1.enforce = c2.enforce)
    (n : Addr) (hn : n ∈ c1.addrs) : eligible c1 n = eligible c2 n := by
  unfold eligible
  rw [hl n hn, hch, hm, he]

theorem iter_congr {c1 c2 : Cfg} (ha : c1.addrs = c2.addrs)
    (hl : ∀ n ∈ c1.addrs, c1.lookup n = c2.lookup n) (hch : c1.chain = c2.chain)
    (hc : c1.count = c2.count) (hm : c1.maxChains = c2.maxChains) (he : c1.enforce = c2.enforce)
    (hs : ∀ i, c1.stream i = c2.stream i) (s : LoopSt) : iter c1 s = iter c2 s := by
  unfold iter
  rw [← ha, ← hs s.i, ← hc]
  by_cases h0 : s.tried.length ≥ c1.addrs.length
  · simp [h0]
  · rw [if_neg h0, if_neg h0]
    cases hg : c1.addrs[c1.stream s.i]? with
    | none => rfl
    | some n =>
      simp only
      rw [eligible_congr hl hch hm he n (List.mem_of_getElem? hg)]

theorem run_congr {c1 c2 : Cfg} (ha : c1.addrs = c2.addrs)
    (hl : ∀ n ∈ c1.addrs, c1.lookup n = c2.lookup n) (hch : c1.chain = c2.chain)
    (hc : c1.count = c2.count) (hm : c1.maxChains = c2.maxChains) (he : c1.enforce = c2.enforce)
    (hs : ∀ i, c1.stream i = c2.stream i) : ∀ (fuel : Nat) (s : LoopSt), run c1 fuel s = run c2 fuel s := by
  intro fuel
  induction fuel with
  | zero => intro s; rfl
  | succ fuel ih =>
    intro s
    unfold run
    rw [iter_congr ha hl hch hc hm he hs s]
    cases iter c2 s with
    | inl r => rfl
    | inr s' => exact ih s'

theorem pseudorandomSelection_lt (max : Nat) (hash : Bytes) (h : 0 < max) :
    pseudorandomSelection max hash < max := Nat.mod_lt _ h

end Session
