import PocketModel.Relay.Auth
/-! Lemmas for C35: what each stage of the relay validation guarantees when it lets a relay pass. -/
namespace RelayAuth

theorem signatureVerification_none {E : Env} {pub : String} {msg : Bytes} {sig : String}
    (h : signatureVerification E pub msg sig = none) :
    ∃ sb, hexDecode sig = some sb ∧ sb.length = 64 ∧ E.verify pub msg sb = true := by
  unfold signatureVerification at h
  split at h
  · cases h
  · rename_i sb hsb
    split at h
    · cases h
    · rename_i hlen
      split at h
      · cases h
      · split at h
        · rename_i hv
          exact ⟨sb, hsb, by simpa using hlen, hv⟩
        · cases h

theorem pubKeyVerification_none {s : String} (h : pubKeyVerification s = none) :
    ∃ b, hexDecode s = some b ∧ b.length = 32 := by
  unfold pubKeyVerification at h
  split at h
  · cases h
  · rename_i b hb
    split at h
    · cases h
    · rename_i hl
      exact ⟨b, hb, by simpa using hl⟩

/-- What a valid token is. -/
structure TokenOk (E : Env) (t : AAT) : Prop where
  version : t.version = "0.0.1"
  appKey : ∃ b, hexDecode t.appPub = some b ∧ b.length = 32
  clientKey : ∃ b, hexDecode t.clientPub = some b ∧ b.length = 32
  signed : ∃ sb, hexDecode t.appSig = some sb ∧ sb.length = 64 ∧ E.verify t.appPub (E.tokenHash t) sb = true

theorem tokenValid_true {E : Env} {t : AAT} (h : tokenValid E t = true) : TokenOk E t := by
  unfold tokenValid at h
  simp only [Bool.and_eq_true, supportedVersions, List.contains_cons, List.contains_nil, Bool.or_false,
    beq_iff_eq, Option.isNone_iff_eq_none] at h
  obtain ⟨⟨⟨⟨⟨⟨_, hv⟩, _⟩, ha⟩, _⟩, hc⟩, hs⟩ := h
  exact ⟨hv, pubKeyVerification_none ha, pubKeyVerification_none hc, signatureVerification_none hs⟩

/-- What `ValidateBasic` guarantees. -/
structure BasicOk (E : Env) (p : Proof) : Prop where
  height : 1 ≤ p.sbh
  entropy : 0 ≤ p.entropy
  token : TokenOk E p.token
  clientSigned : ∃ sb, hexDecode p.sig = some sb ∧ sb.length = 64 ∧
    E.verify p.token.clientPub (E.proofHash p) sb = true

theorem validateBasic_none {E : Env} {p : Proof} (h : validateBasic E p = none) : BasicOk E p := by
  unfold validateBasic at h
  split at h
  · cases h
  · rename_i h1
    split at h
    · cases h
    · split at h
      · cases h
      · split at h
        · cases h
        · split at h
          · cases h
          · rename_i h2
            split at h
            · cases h
            · rename_i h3
              refine ⟨by omega, by omega, tokenValid_true (by simpa using h3), signatureVerification_none h⟩

/-- What `ValidateLocal` guarantees. -/
theorem validateLocal_none {E : Env} {p : Proof} {chains : List String} {sbh : Int}
    (h : validateLocal E p chains sbh = none) :
    BasicOk E p ∧ E.addrOf p.servicer = some E.nodeAddr ∧ p.sbh = sbh ∧ p.chain ∈ chains := by
  unfold validateLocal at h
  split at h
  · cases h
  · rename_i hb
    split at h
    · cases h
    · rename_i a ha
      split at h
      · cases h
      · rename_i hne
        split at h
        · cases h
        · rename_i hs
          split at h
          · cases h
          · rename_i hc
            refine ⟨validateBasic_none hb, ?_, by simpa using hs, ?_⟩
            · rw [ha]; simp at hne; rw [hne]
            · simpa using hc

theorem sessionValidate_none {E : Env} {p : Proof} {app : App} {nodes : List (Option Bytes)} {count : Int}
    (h : sessionValidate E p app nodes count = none) :
    app.pubRaw = p.token.appPub ∧ p.chain ∈ app.chains ∧ count ≤ nodes.length ∧ some E.nodeAddr ∈ nodes := by
  unfold sessionValidate at h
  split at h
  · cases h
  · split at h
    · cases h
    · split at h
      · cases h
      · split at h
        · cases h
        · rename_i hp
          split at h
          · cases h
          · rename_i hc
            split at h
            · cases h
            · rename_i hl
              split at h
              · cases h
              · split at h
                · cases h
                · rename_i hn
                  refine ⟨by simpa using hp, by simpa using hc, by omega, by simpa using hn⟩

theorem preChecks_none {E : Env} {r : Relay} {sbhArg : Int} (h : preChecks E r sbhArg = none) :
    ¬ (r.data = "" ∧ r.path = "") ∧
    (E.height - E.blockAllowance ≤ r.metaHeight ∧ r.metaHeight ≤ E.height + E.blockAllowance) ∧
    r.proof.requestHash = E.requestHashOf r ∧ r.proof.chain ∈ E.hosted ∧ r.proof.sbh = sbhArg ∧
    E.prevCtxOk sbhArg = true := by
  unfold preChecks at h
  split at h
  · cases h
  · rename_i h1
    split at h
    · cases h
    · rename_i h2
      split at h
      · cases h
      · rename_i h3
        split at h
        · cases h
        · rename_i h4
          split at h
          · cases h
          · rename_i h5
            split at h
            · cases h
            · rename_i h6
              refine ⟨h1, by omega, by simpa using h3, by simpa using h4, by simpa using h5, by simpa using h6⟩

theorem evidenceChecks_none {E : Env} {max : Int} (h : evidenceChecks E max = none) :
    E.evidence.sealed_ = false ∧ E.evidence.has = false ∧ E.evidence.n < max := by
  unfold evidenceChecks at h
  split at h
  · cases h
  · split at h
    · cases h
    · rename_i h2
      split at h
      · cases h
      · rename_i h3
        split at h
        · cases h
        · rename_i h4
          simp only [Bool.or_eq_true, not_or, Bool.not_eq_true] at h2
          exact ⟨h2.1, by simpa using h3, by omega⟩

theorem sessionStage_none {E : Env} {p : Proof} {app : App} {count sbhArg : Int}
    (h : sessionStage E p app count sbhArg = none) :
    ∃ nodes, E.session = .ok nodes ∧ app.pubRaw = p.token.appPub ∧ p.chain ∈ app.chains ∧
      count ≤ nodes.length ∧ some E.nodeAddr ∈ nodes := by
  unfold sessionStage at h
  split at h
  · cases h
  · split at h
    · cases h
    · rename_i nodes hs
      exact ⟨nodes, hs, sessionValidate_none h⟩

/-! ### no stage of the validation ends the process -/

theorem preChecks_ne_fatal (E : Env) (r : Relay) (s : Int) : preChecks E r s ≠ some .fatal := by
  unfold preChecks
  repeat' split
  all_goals simp [pc]
theorem pubKeyVerification_ne_fatal (s : String) : pubKeyVerification s ≠ some .fatal := by
  unfold pubKeyVerification
  repeat' split
  all_goals simp [pc]
theorem networkIdVerification_ne_fatal (s : String) : networkIdVerification s ≠ some .fatal := by
  unfold networkIdVerification
  repeat' split
  all_goals simp [pc]
theorem hashVerification_ne_fatal (s : String) : hashVerification s ≠ some .fatal := by
  unfold hashVerification
  repeat' split
  all_goals simp [pc]
theorem signatureVerification_ne_fatal (E : Env) (a : String) (b : Bytes) (c : String) : signatureVerification E a b c ≠ some .fatal := by
  unfold signatureVerification
  repeat' split
  all_goals simp [pc]
theorem validateBasic_ne_fatal (E : Env) (p : Proof) : validateBasic E p ≠ some .fatal := by
  unfold validateBasic
  repeat' split
  all_goals first
    | (simp [pc]; done)
    | (rename_i h; intro e; cases e; first | exact pubKeyVerification_ne_fatal _ h | exact networkIdVerification_ne_fatal _ h | exact hashVerification_ne_fatal _ h)
    | exact signatureVerification_ne_fatal _ _ _ _
theorem validateLocal_ne_fatal (E : Env) (p : Proof) (c : List String) (s : Int) : validateLocal E p c s ≠ some .fatal := by
  unfold validateLocal
  repeat' split
  all_goals first
    | (simp [pc]; done)
    | (rename_i h; intro e; cases e; exact validateBasic_ne_fatal _ _ h)
theorem sessionValidate_ne_fatal (E : Env) (p : Proof) (a : App) (n : List (Option Bytes)) (c : Int) : sessionValidate E p a n c ≠ some .fatal := by
  unfold sessionValidate
  repeat' split
  all_goals first
    | (simp [pc]; done)
    | (rename_i h; intro e; cases e; exact pubKeyVerification_ne_fatal _ h)
theorem sessionStage_ne_fatal (E : Env) (p : Proof) (a : App) (c s : Int) : sessionStage E p a c s ≠ some .fatal := by
  unfold sessionStage
  repeat' split
  all_goals first
    | (simp; done)
    | exact sessionValidate_ne_fatal _ _ _ _ _
theorem evidenceChecks_fatal (E : Env) (max : Int) (h : evidenceChecks E max = some .fatal) : max = 0 := by
  unfold evidenceChecks at h
  split at h
  · rename_i hz; exact hz.2
  · repeat (first | split at h | (simp [pc] at h))

end RelayAuth
