import Proofs.Upgrade.Roundtrip
/-! `CleanUpgradeFeatureSlice` keeps the last-wins reading of a feature list; the upgrade handler and
the restart path in terms of that reading. -/
namespace Upgrade

/-- Invariant of maps built from parsed feature strings. -/
structure WFMap (m : FMap) : Prop where
  nodup : (keys m).Nodup
  noColon : ∀ e ∈ m, NoColon e.1
  inRange : ∀ e ∈ m, InRange e.2

theorem mem_set_sub (m : FMap) (k : Bytes) (v : Int) (e : Bytes × Int) (h : e ∈ m.set k v) : e = (k, v) ∨ e ∈ m := by
  induction m with
  | nil => simp [FMap.set] at h; exact Or.inl h
  | cons hd tl ih =>
    obtain ⟨k0, v0⟩ := hd
    unfold FMap.set at h
    by_cases hk : k = k0
    · rw [if_pos hk] at h
      rcases List.mem_cons.mp h with h | h
      · exact Or.inl h
      · exact Or.inr (List.mem_cons_of_mem _ h)
    · rw [if_neg hk] at h
      rcases List.mem_cons.mp h with h | h
      · exact Or.inr (by rw [h]; exact List.mem_cons_self)
      · rcases ih h with h | h
        · exact Or.inl h
        · exact Or.inr (List.mem_cons_of_mem _ h)

theorem WFMap.set {m : FMap} (h : WFMap m) {k : Bytes} {v : Int} (hk : NoColon k) (hv : InRange v) :
    WFMap (m.set k v) := by
  refine ⟨keys_set_nodup m k v h.nodup, ?_, ?_⟩
  · intro e he
    rcases mem_set_sub m k v e he with rfl | he
    · exact hk
    · exact h.noColon e he
  · intro e he
    rcases mem_set_sub m k v e he with rfl | he
    · exact hv
    · exact h.inRange e he

theorem wf_sliceToExistingMap : ∀ (xs : List Bytes) (m m' : FMap), WFMap m →
    sliceToExistingMap xs m = some m' → WFMap m' := by
  intro xs
  induction xs with
  | nil => intro m m' h e; simp only [sliceToExistingMap, Option.some.injEq] at e; exact e ▸ h
  | cons s rest ih =>
    intro m m' h e
    unfold sliceToExistingMap at e
    cases hp : parseEntry s with
    | none => rw [hp] at e; cases e
    | some kv =>
      obtain ⟨k0, v0⟩ := kv
      rw [hp] at e
      exact ih _ _ (h.set (parseEntry_key_noColon hp) (parseEntry_val_inRange hp)) e

theorem wf_nil : WFMap [] := ⟨by simp [keys], by simp, by simp⟩

/-! ## Rendering a well-formed map and reading it back -/

theorem filterMap_render {m : FMap} (h : WFMap m) : (mapToSlice m).filterMap parseEntry = m := by
  unfold mapToSlice
  induction m with
  | nil => rfl
  | cons e tl ih =>
    have htl : WFMap tl := ⟨(List.nodup_cons.mp h.nodup).2, fun x hx => h.noColon x (List.mem_cons_of_mem _ hx),
      fun x hx => h.inRange x (List.mem_cons_of_mem _ hx)⟩
    have he := parseEntry_render e.1 e.2 (h.noColon e List.mem_cons_self) (h.inRange e List.mem_cons_self)
    simp only [List.map_cons, List.filterMap_cons, he, ih htl]

theorem namedKeys_render {m : FMap} (h : WFMap m) : namedKeys (mapToSlice m) = keys m := by
  unfold namedKeys keys
  rw [filterMap_render h]

theorem namedKeys_perm {l1 l2 : List Bytes} (h : l1.Perm l2) : (namedKeys l1).Perm (namedKeys l2) :=
  (h.filterMap parseEntry).map _

/-- With distinct keys, any occurrence decides the value. -/
theorem lastVal_of_nodup : ∀ (xs : List Bytes), (namedKeys xs).Nodup → ∀ (s k : Bytes) (v : Int), s ∈ xs →
    parseEntry s = some (k, v) → lastVal xs k = some v := by
  intro xs
  induction xs with
  | nil => intro _ s k v hs; cases hs
  | cons s0 rest ih =>
    intro hn s k v hs hp
    rw [lastVal_cons]
    cases hp0 : parseEntry s0 with
    | none =>
      rw [namedKeys_cons_none rest hp0] at hn
      rcases List.mem_cons.mp hs with rfl | hs
      · rw [hp0] at hp; cases hp
      · rw [ih hn s k v hs hp]
    | some e0 =>
      obtain ⟨k0, v0⟩ := e0
      rw [namedKeys_cons_some rest hp0] at hn
      obtain ⟨hn1, hn2⟩ := List.nodup_cons.mp hn
      rcases List.mem_cons.mp hs with rfl | hs
      · rw [hp0] at hp
        injection hp with hp
        injection hp with e1 e2
        subst e1 e2
        have : lastVal rest k0 = none := by
          cases hl : lastVal rest k0 with
          | none => rfl
          | some v' =>
            have := (lastVal_isSome_iff rest k0).mp (by rw [hl]; rfl)
            exact absurd this hn1
        rw [this]
        simp
      · rw [ih hn2 s k v hs hp]

theorem lastVal_none_of_not_named (xs : List Bytes) (k : Bytes) (h : k ∉ namedKeys xs) : lastVal xs k = none := by
  cases hl : lastVal xs k with
  | none => rfl
  | some v => exact absurd ((lastVal_isSome_iff xs k).mp (by rw [hl]; rfl)) h

/-- `CleanUpgradeFeatureSlice` in terms of the map it builds. -/
theorem clean_eq (xs ys : List Bytes) : clean xs = some ys ↔
    ∃ m, sliceToMap xs = some m ∧ ys = sortStrings (mapToSlice m) := by
  unfold clean
  cases sliceToMap xs with
  | none => simp
  | some m => simp [eq_comm]

/-- Cleaning keeps, for every key, exactly the height scheduled last; and names the same keys. -/
theorem clean_lastVal {xs ys : List Bytes} (h : clean xs = some ys) :
    (∀ k, lastVal ys k = lastVal xs k) ∧ (∀ k, k ∈ namedKeys ys ↔ k ∈ namedKeys xs) ∧
    (namedKeys ys).Nodup ∧ (∀ s ∈ ys, (parseEntry s).isSome) := by
  obtain ⟨m, hm, rfl⟩ := (clean_eq xs ys).mp h
  have hwf : WFMap m := wf_sliceToExistingMap xs [] m wf_nil hm
  obtain ⟨hget, hkeys, _, _⟩ := sliceToExistingMap_spec xs [] m hm
  have hperm := sortStrings_perm (mapToSlice m)
  have hnk : (namedKeys (sortStrings (mapToSlice m))).Perm (keys m) := by
    have := namedKeys_perm hperm
    rwa [namedKeys_render hwf] at this
  have hnd : (namedKeys (sortStrings (mapToSlice m))).Nodup := hnk.nodup_iff.mpr hwf.nodup
  have hmem : ∀ k, k ∈ namedKeys (sortStrings (mapToSlice m)) ↔ k ∈ namedKeys xs := by
    intro k
    rw [hnk.mem_iff, hkeys k]
    simp [keys]
  refine ⟨?_, hmem, hnd, ?_⟩
  · intro k
    by_cases hk : k ∈ namedKeys xs
    · have hk' : k ∈ keys m := (hkeys k).mpr (Or.inl hk)
      obtain ⟨e, he, hek⟩ := List.mem_map.mp hk'
      obtain ⟨k', v⟩ := e
      simp only at hek
      subst hek
      have hv : m.get k' = v := mem_of_get m hwf.nodup k' v he
      have hs : renderEntry (k', v) ∈ sortStrings (mapToSlice m) :=
        hperm.symm.subset (List.mem_map.mpr ⟨(k', v), he, rfl⟩)
      have hp := parseEntry_render k' v (hwf.noColon _ he) (hwf.inRange _ he)
      rw [lastVal_of_nodup _ hnd _ k' v hs hp]
      have := hget k'
      rw [hv] at this
      cases hl : lastVal xs k' with
      | some v' => rw [hl] at this; simp at this; rw [this]
      | none => exact absurd ((lastVal_isSome_iff xs k').mpr hk) (by rw [hl]; simp)
    · rw [lastVal_none_of_not_named xs k hk, lastVal_none_of_not_named _ k (fun h => hk ((hmem k).mp h))]
  · intro s hs
    obtain ⟨e, he, rfl⟩ := List.mem_map.mp (hperm.subset hs)
    rw [parseEntry_render e.1 e.2 (hwf.noColon e he) (hwf.inRange e he)]
    rfl

theorem clean_isSome_iff (xs : List Bytes) : (clean xs).isSome ↔ ∀ s ∈ xs, (parseEntry s).isSome := by
  unfold clean sliceToMap
  constructor
  · intro h
    cases hm : sliceToExistingMap xs [] with
    | none => rw [hm] at h; cases h
    | some m => exact (sliceToExistingMap_spec xs [] m hm).2.2.2
  · intro h
    have := sliceToExistingMap_isSome xs [] h
    cases hm : sliceToExistingMap xs [] with
    | none => rw [hm] at this; cases this
    | some m => rfl

/-- The cleaned list is strictly sorted (no duplicate string, canonical order). -/
theorem clean_strictSorted {xs ys : List Bytes} (h : clean xs = some ys) : ys.Pairwise (· < ·) := by
  obtain ⟨_, _, hnd, hparse⟩ := clean_lastVal h
  obtain ⟨m, _, rfl⟩ := (clean_eq xs ys).mp h
  have hs := sortStrings_sorted (mapToSlice m)
  -- distinct strings: equal strings would name the same key twice
  have hne : (sortStrings (mapToSlice m)).Pairwise (· ≠ ·) := by
    generalize sortStrings (mapToSlice m) = l at hnd hparse
    induction l with
    | nil => exact List.Pairwise.nil
    | cons s rest ih =>
      have hs' := hparse s List.mem_cons_self
      cases hp : parseEntry s with
      | none => rw [hp] at hs'; cases hs'
      | some e =>
        rw [namedKeys_cons_some rest hp] at hnd
        obtain ⟨h1, h2⟩ := List.nodup_cons.mp hnd
        refine List.pairwise_cons.mpr ⟨?_, ih h2 (fun x hx => hparse x (List.mem_cons_of_mem _ hx))⟩
        intro b hb e'
        subst e'
        apply h1
        unfold namedKeys
        exact List.mem_map.mpr ⟨e, List.mem_filterMap.mpr ⟨s, hb, hp⟩, rfl⟩
  have hboth : (sortStrings (mapToSlice m)).Pairwise (fun a b => a ≤ b ∧ a ≠ b) := by
    rw [List.pairwise_and_iff]
    exact ⟨hs, hne⟩
  exact hboth.imp (fun {a b} h => by
    rcases (Bytes.le_iff a b).mp h.1 with h' | h'
    · exact h'
    · exact absurd h' h.2)

/-! ## The live map and the stored list -/

/-- The height the stored list schedules for `k` (0 = not scheduled / never). -/
def scheduled (fs : List Bytes) (k : Bytes) : Int := (lastVal fs k).getD 0

theorem sliceToMap_get {xs : List Bytes} {m : FMap} (h : sliceToExistingMap xs [] = some m) (k : Bytes) :
    m.get k = scheduled xs k := by
  rw [(sliceToExistingMap_spec xs [] m h).1 k]
  unfold scheduled
  cases lastVal xs k <;> rfl

end Upgrade
