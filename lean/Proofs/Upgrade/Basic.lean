import PocketModel.Upgrade
import Proofs.Num.Elen
/-! Feature map, decimal round trip and entry parsing: lemmas for C37. -/
namespace Upgrade

/-! ## The association list as a map -/

def keys (m : FMap) : List Bytes := m.map (·.1)

theorem get_set (m : FMap) (k : Bytes) (v : Int) (k' : Bytes) :
    (m.set k v).get k' = if k' = k then v else m.get k' := by
  induction m with
  | nil => simp [FMap.set, FMap.get]
  | cons hd tl ih =>
    obtain ⟨k0, v0⟩ := hd
    unfold FMap.set
    by_cases h : k = k0
    · subst h
      simp only [if_true, FMap.get]
      by_cases h' : k' = k <;> simp [h']
    · simp only [h, if_false, FMap.get, ih]
      by_cases h' : k' = k0
      · subst h'
        have : ¬ k' = k := fun e => h e.symm
        simp [this]
      · simp [h']

theorem mem_keys_set (m : FMap) (k : Bytes) (v : Int) (k' : Bytes) :
    k' ∈ keys (m.set k v) ↔ k' = k ∨ k' ∈ keys m := by
  induction m with
  | nil => simp [FMap.set, keys]
  | cons hd tl ih =>
    obtain ⟨k0, v0⟩ := hd
    unfold FMap.set
    by_cases h : k = k0
    · subst h
      simp [keys]
    · simp only [h, if_false]
      have : keys ((k0, v0) :: FMap.set tl k v) = k0 :: keys (FMap.set tl k v) := rfl
      rw [this, List.mem_cons, ih]
      have : keys ((k0, v0) :: tl) = k0 :: keys tl := rfl
      rw [this, List.mem_cons]
      constructor
      · rintro (h1 | h1 | h1)
        · exact Or.inr (Or.inl h1)
        · exact Or.inl h1
        · exact Or.inr (Or.inr h1)
      · rintro (h1 | h1 | h1)
        · exact Or.inr (Or.inl h1)
        · exact Or.inl h1
        · exact Or.inr (Or.inr h1)

theorem keys_set_nodup (m : FMap) (k : Bytes) (v : Int) (h : (keys m).Nodup) : (keys (m.set k v)).Nodup := by
  induction m with
  | nil => simp [FMap.set, keys]
  | cons hd tl ih =>
    obtain ⟨k0, v0⟩ := hd
    have hk : keys ((k0, v0) :: tl) = k0 :: keys tl := rfl
    rw [hk] at h
    obtain ⟨h1, h2⟩ := List.nodup_cons.mp h
    unfold FMap.set
    by_cases he : k = k0
    · subst he
      simp only [if_true]
      exact List.nodup_cons.mpr ⟨h1, h2⟩
    · simp only [he, if_false]
      have : keys ((k0, v0) :: FMap.set tl k v) = k0 :: keys (FMap.set tl k v) := rfl
      rw [this]
      refine List.nodup_cons.mpr ⟨?_, ih h2⟩
      rw [mem_keys_set]
      rintro (e | e)
      · exact he e.symm
      · exact h1 e

theorem get_of_not_mem_keys (m : FMap) (k : Bytes) (h : k ∉ keys m) : m.get k = 0 := by
  induction m with
  | nil => rfl
  | cons hd tl ih =>
    obtain ⟨k0, v0⟩ := hd
    have hk : keys ((k0, v0) :: tl) = k0 :: keys tl := rfl
    rw [hk, List.mem_cons] at h
    have h1 : ¬ k = k0 := fun e => h (Or.inl e)
    have h2 : k ∉ keys tl := fun e => h (Or.inr e)
    simp [FMap.get, h1, ih h2]

theorem mem_of_get (m : FMap) (hn : (keys m).Nodup) (k : Bytes) (v : Int) (h : (k, v) ∈ m) : m.get k = v := by
  induction m with
  | nil => cases h
  | cons hd tl ih =>
    obtain ⟨k0, v0⟩ := hd
    have hk : keys ((k0, v0) :: tl) = k0 :: keys tl := rfl
    rw [hk] at hn
    obtain ⟨h1, h2⟩ := List.nodup_cons.mp hn
    rcases List.mem_cons.mp h with e | e
    · injection e with e1 e2
      simp [FMap.get, e1, e2]
    · have : k ≠ k0 := by
        intro e'
        subst e'
        exact h1 (List.mem_map.mpr ⟨(k, v), e, rfl⟩)
      simp [FMap.get, this, ih h2 e]

/-! ## `sliceToExistingMap` -/

/-- The value scheduled last for `k` in a list of feature strings. -/
def lastVal : List Bytes → Bytes → Option Int
  | [], _ => none
  | s :: rest, k =>
    match lastVal rest k with
    | some v => some v
    | none => match parseEntry s with
      | some (k', v) => if k' = k then some v else none
      | none => none

/-- The keys named by a list of feature strings. -/
def namedKeys (xs : List Bytes) : List Bytes := (xs.filterMap parseEntry).map (·.1)

theorem lastVal_cons (s : Bytes) (rest : List Bytes) (k : Bytes) :
    lastVal (s :: rest) k = match lastVal rest k with
      | some v => some v
      | none => match parseEntry s with
        | some (k', v) => if k' = k then some v else none
        | none => none := rfl

theorem namedKeys_cons_some {s : Bytes} {e : Bytes × Int} (rest : List Bytes) (h : parseEntry s = some e) :
    namedKeys (s :: rest) = e.1 :: namedKeys rest := by
  simp [namedKeys, List.filterMap_cons, h]

theorem namedKeys_cons_none {s : Bytes} (rest : List Bytes) (h : parseEntry s = none) :
    namedKeys (s :: rest) = namedKeys rest := by
  simp [namedKeys, List.filterMap_cons, h]

theorem lastVal_isSome_iff (xs : List Bytes) (k : Bytes) : (lastVal xs k).isSome ↔ k ∈ namedKeys xs := by
  induction xs with
  | nil => simp [lastVal, namedKeys]
  | cons s rest ih =>
    rw [lastVal_cons]
    cases hp : parseEntry s with
    | none =>
      rw [namedKeys_cons_none rest hp, ← ih]
      cases hl : lastVal rest k <;> simp
    | some e =>
      obtain ⟨k', v⟩ := e
      rw [namedKeys_cons_some rest hp, List.mem_cons, ← ih]
      cases hl : lastVal rest k with
      | some v' => simp
      | none =>
        by_cases hk : k' = k
        · simp [hk]
        · have : ¬ k = k' := fun e => hk e.symm
          simp [hk, this]

theorem sliceToExistingMap_spec : ∀ (xs : List Bytes) (m m' : FMap), sliceToExistingMap xs m = some m' →
    (∀ k, m'.get k = match lastVal xs k with | some v => v | none => m.get k) ∧
    (∀ k, k ∈ keys m' ↔ k ∈ namedKeys xs ∨ k ∈ keys m) ∧
    ((keys m).Nodup → (keys m').Nodup) ∧ (∀ s ∈ xs, (parseEntry s).isSome) := by
  intro xs
  induction xs with
  | nil =>
    intro m m' h
    simp only [sliceToExistingMap, Option.some.injEq] at h
    subst h
    simp [lastVal, namedKeys]
  | cons s rest ih =>
    intro m m' h
    unfold sliceToExistingMap at h
    cases hp : parseEntry s with
    | none => rw [hp] at h; cases h
    | some e =>
      obtain ⟨k0, v0⟩ := e
      rw [hp] at h
      simp only at h
      obtain ⟨h1, h2, h3, h4⟩ := ih (m.set k0 v0) m' h
      have hnk : namedKeys (s :: rest) = k0 :: namedKeys rest := namedKeys_cons_some rest hp
      refine ⟨?_, ?_, ?_, ?_⟩
      · intro k
        rw [h1 k, lastVal_cons]
        cases hl : lastVal rest k with
        | some v => rfl
        | none =>
          simp only [hp, get_set]
          by_cases hk : k0 = k
          · subst hk; simp
          · have : ¬ k = k0 := fun e => hk e.symm
            simp [hk, this]
      · intro k
        rw [h2 k, mem_keys_set, hnk, List.mem_cons]
        constructor
        · rintro (h | h | h)
          · exact Or.inl (Or.inr h)
          · exact Or.inl (Or.inl h)
          · exact Or.inr h
        · rintro ((h | h) | h)
          · exact Or.inr (Or.inl h)
          · exact Or.inl h
          · exact Or.inr (Or.inr h)
      · intro hn
        exact h3 (keys_set_nodup m k0 v0 hn)
      · intro s' hs'
        rcases List.mem_cons.mp hs' with rfl | hs'
        · simp [hp]
        · exact h4 s' hs'

theorem sliceToExistingMap_isSome (xs : List Bytes) (m : FMap) (h : ∀ s ∈ xs, (parseEntry s).isSome) :
    (sliceToExistingMap xs m).isSome := by
  induction xs generalizing m with
  | nil => simp [sliceToExistingMap]
  | cons s rest ih =>
    unfold sliceToExistingMap
    have hs := h s List.mem_cons_self
    cases hp : parseEntry s with
    | none => rw [hp] at hs; cases hs
    | some e =>
      obtain ⟨k0, v0⟩ := e
      exact ih _ (fun s' hs' => h s' (List.mem_cons_of_mem _ hs'))

theorem lastVal_append (xs ys : List Bytes) (k : Bytes) :
    lastVal (xs ++ ys) k = match lastVal ys k with | some v => some v | none => lastVal xs k := by
  induction xs with
  | nil =>
    simp only [List.nil_append]
    cases lastVal ys k <;> rfl
  | cons s rest ih =>
    rw [List.cons_append, lastVal_cons, ih, lastVal_cons]
    cases lastVal ys k with
    | some v => rfl
    | none => rfl

theorem namedKeys_append (xs ys : List Bytes) : namedKeys (xs ++ ys) = namedKeys xs ++ namedKeys ys := by
  simp [namedKeys, List.filterMap_append]

end Upgrade
