import Proofs.Upgrade.Clean
/-! `handleUpgradeAfterUpdate`, the restart path, and the invariant that ties the live feature map
to the stored parameter. -/
namespace Upgrade

/-- Membership in a cleaned list. -/
theorem mem_clean {xs ys : List Bytes} (h : clean xs = some ys) (s : Bytes) :
    s ∈ ys ↔ ∃ k v, lastVal xs k = some v ∧ s = renderEntry (k, v) := by
  obtain ⟨hlv, hkeys, hnd, hparse⟩ := clean_lastVal h
  obtain ⟨m, hm, rfl⟩ := (clean_eq xs ys).mp h
  have hwf : WFMap m := wf_sliceToExistingMap xs [] m wf_nil hm
  have hperm := sortStrings_perm (mapToSlice m)
  constructor
  · intro hs
    obtain ⟨e, he, rfl⟩ := List.mem_map.mp (hperm.subset hs)
    obtain ⟨k, v⟩ := e
    have hp := parseEntry_render k v (hwf.noColon _ he) (hwf.inRange _ he)
    exact ⟨k, v, by rw [← hlv k, lastVal_of_nodup _ hnd _ k v hs hp], rfl⟩
  · rintro ⟨k, v, hl, rfl⟩
    rw [← hlv k] at hl
    -- some string of the cleaned list schedules k at v; it is the rendering of (k, v)
    have hk : k ∈ namedKeys (sortStrings (mapToSlice m)) := (lastVal_isSome_iff _ k).mp (by rw [hl]; rfl)
    obtain ⟨e, he, hek⟩ := List.mem_map.mp hk
    obtain ⟨s, hs, hps⟩ := List.mem_filterMap.mp he
    obtain ⟨k', v'⟩ := e
    simp only at hek
    subst hek
    have := lastVal_of_nodup _ hnd s k' v' hs hps
    rw [hl] at this
    injection this with this
    subst this
    obtain ⟨e0, he0, rfl⟩ := List.mem_map.mp (hperm.subset hs)
    rw [parseEntry_render e0.1 e0.2 (hwf.noColon e0 he0) (hwf.inRange e0 he0)] at hps
    injection hps with hps
    have : e0 = (k', v) := by rw [← hps]
    rw [this] at hs
    exact hs

/-- The cleaned list depends only on the last-wins reading of its input. -/
theorem clean_ext {xs xs' ys ys' : List Bytes} (he : ∀ k, lastVal xs k = lastVal xs' k)
    (h : clean xs = some ys) (h' : clean xs' = some ys') : ys = ys' := by
  have hs := clean_strictSorted h
  have hs' := clean_strictSorted h'
  have hn : ys.Nodup := hs.imp (fun h => Bytes.ne_of_lt h)
  have hn' : ys'.Nodup := hs'.imp (fun h => Bytes.ne_of_lt h)
  have hp : ys.Perm ys' := (List.perm_ext_iff_of_nodup hn hn').mpr (by
    intro s
    rw [mem_clean h, mem_clean h']
    simp only [he])
  exact sorted_perm_eq _ _ (hs.imp Bytes.le_of_lt) (hs'.imp Bytes.le_of_lt) hp

/-- Cleaning a cleaned list changes nothing. -/
theorem clean_idempotent {xs ys : List Bytes} (h : clean xs = some ys) : clean ys = some ys := by
  obtain ⟨hlv, _, _, hparse⟩ := clean_lastVal h
  have hsome := (clean_isSome_iff ys).mpr hparse
  cases hc : clean ys with
  | none => rw [hc] at hsome; cases hsome
  | some zs => rw [clean_ext hlv hc h]

/-! ## The handler -/

/-- The live feature map agrees with the stored list, the two heights with the stored heights, and
the stored list is well formed. -/
structure Consistent (stored : Upgrade) (g : Globals) : Prop where
  height : g.upgradeHeight = stored.height
  old : g.oldUpgradeHeight = stored.oldUpgradeHeight
  map : ∀ k, g.featureMap.get k = scheduled stored.features k
  wf : ∀ s ∈ stored.features, (parseEntry s).isSome

theorem after_spec {stored : Upgrade} {g : Globals} {msg stored' : Upgrade} {g' : Globals}
    (h : handleUpgradeAfterUpdate stored g msg = some (stored', g')) :
    clean (stored.features ++ msg.features) = some stored'.features ∧
    sliceToExistingMap stored'.features g.featureMap = some g'.featureMap ∧
    g'.upgradeHeight = stored'.height ∧ g'.oldUpgradeHeight = stored'.oldUpgradeHeight ∧
    (if msg.height ≠ 1 ∧ msg.version ≠ featureKey then
        stored'.height = msg.height ∧ stored'.version = msg.version ∧ stored'.oldUpgradeHeight = stored.height
      else stored'.height = stored.height ∧ stored'.version = stored.version ∧
        stored'.oldUpgradeHeight = stored.oldUpgradeHeight) := by
  unfold handleUpgradeAfterUpdate at h
  cases hc : clean (stored.features ++ msg.features) with
  | none => rw [hc] at h; cases h
  | some fs =>
    rw [hc] at h
    simp only at h
    by_cases hb : msg.height ≠ 1 ∧ msg.version ≠ featureKey
    · rw [if_pos hb] at h
      simp only at h
      cases hm : sliceToExistingMap fs g.featureMap with
      | none => rw [hm] at h; cases h
      | some fm =>
        rw [hm] at h
        injection h with h
        injection h with h1 h2
        subst h1 h2
        simp [hm, hb]
    · rw [if_neg hb] at h
      simp only at h
      cases hm : sliceToExistingMap fs g.featureMap with
      | none => rw [hm] at h; cases h
      | some fm =>
        rw [hm] at h
        injection h with h
        injection h with h1 h2
        subst h1 h2
        simp [hm, hb]

/-- After a successful `handleUpgradeAfterUpdate`, the live map holds for every key the height
scheduled last in (stored features ++ message features), other keys keep their live value. -/
theorem after_map {stored : Upgrade} {g : Globals} {msg stored' : Upgrade} {g' : Globals}
    (h : handleUpgradeAfterUpdate stored g msg = some (stored', g')) (k : Bytes) :
    g'.featureMap.get k = match lastVal (stored.features ++ msg.features) k with
      | some v => v
      | none => g.featureMap.get k := by
  obtain ⟨hc, hm, _⟩ := after_spec h
  rw [(sliceToExistingMap_spec _ _ _ hm).1 k, (clean_lastVal hc).1 k]
  rfl

theorem after_consistent {stored : Upgrade} {g : Globals} {msg stored' : Upgrade} {g' : Globals}
    (hcons : Consistent stored g) (h : handleUpgradeAfterUpdate stored g msg = some (stored', g')) :
    Consistent stored' g' := by
  obtain ⟨hc, hm, h1, h2, _⟩ := after_spec h
  obtain ⟨hlv, _, _, hparse⟩ := clean_lastVal hc
  refine ⟨h1, h2, ?_, hparse⟩
  intro k
  rw [after_map h k]
  unfold scheduled
  rw [hlv k]
  cases hl : lastVal (stored.features ++ msg.features) k with
  | some v => rfl
  | none =>
    simp only [Option.getD_none]
    rw [hcons.map k]
    unfold scheduled
    rw [lastVal_append] at hl
    cases hn : lastVal msg.features k with
    | some v => rw [hn] at hl; cases hl
    | none => rw [hn] at hl; simp only at hl; rw [hl]; rfl

theorem after_isSome_iff (stored : Upgrade) (g : Globals) (msg : Upgrade) :
    (handleUpgradeAfterUpdate stored g msg).isSome ↔ ∀ s ∈ stored.features ++ msg.features, (parseEntry s).isSome := by
  constructor
  · intro h
    cases hr : handleUpgradeAfterUpdate stored g msg with
    | none => rw [hr] at h; cases h
    | some r =>
      obtain ⟨hc, _⟩ := after_spec (stored' := r.1) (g' := r.2) hr
      exact (clean_isSome_iff _).mp (by rw [hc]; rfl)
  · intro h
    have hc := (clean_isSome_iff _).mpr h
    unfold handleUpgradeAfterUpdate
    cases hcl : clean (stored.features ++ msg.features) with
    | none => rw [hcl] at hc; cases hc
    | some fs =>
      simp only
      have hp := (clean_lastVal hcl).2.2.2
      by_cases hb : msg.height ≠ 1 ∧ msg.version ≠ featureKey
      · rw [if_pos hb]
        have := sliceToExistingMap_isSome fs g.featureMap hp
        cases hm : sliceToExistingMap fs g.featureMap with
        | none => rw [hm] at this; cases this
        | some fm => simp [hm]
      · rw [if_neg hb]
        have := sliceToExistingMap_isSome fs g.featureMap hp
        cases hm : sliceToExistingMap fs g.featureMap with
        | none => rw [hm] at this; cases this
        | some fm => simp [hm]

/-! ## Restart -/

theorem restart_of_consistent {stored : Upgrade} {g : Globals} (hc : Consistent stored g) (hh : stored.height ≠ 0) :
    ∃ r, restart stored = some r ∧ r.upgradeHeight = g.upgradeHeight ∧ r.oldUpgradeHeight = g.oldUpgradeHeight ∧
      ∀ k, r.featureMap.get k = g.featureMap.get k := by
  unfold restart
  rw [if_pos hh]
  have := sliceToExistingMap_isSome stored.features [] hc.wf
  cases hm : sliceToExistingMap stored.features [] with
  | none => rw [hm] at this; cases this
  | some fm =>
    refine ⟨_, rfl, hc.height.symm, hc.old.symm, ?_⟩
    intro k
    simp only
    rw [sliceToMap_get hm k, hc.map k]

theorem restartFixed_of_consistent {stored : Upgrade} {g : Globals} (hc : Consistent stored g) :
    ∃ r, restartFixed stored = some r ∧ ∀ k, r.featureMap.get k = g.featureMap.get k := by
  unfold restartFixed
  have := sliceToExistingMap_isSome stored.features [] hc.wf
  cases hm : sliceToExistingMap stored.features [] with
  | none => rw [hm] at this; cases this
  | some fm =>
    refine ⟨_, rfl, ?_⟩
    intro k
    have : (if stored.height ≠ 0 then
        ({ upgradeHeight := stored.height, oldUpgradeHeight := stored.oldUpgradeHeight, featureMap := fm } : Globals)
      else { featureMap := fm }).featureMap = fm := by
      split <;> rfl
    simp only [Option.map_some]
    rw [this, sliceToMap_get hm k, hc.map k]

/-- Any sequence of upgrade messages through `handleUpgradeAfterUpdate` (failed ones change nothing). -/
def runAfter (st : Upgrade × Globals) : List Upgrade → Upgrade × Globals
  | [] => st
  | msg :: rest =>
    match handleUpgradeAfterUpdate st.1 st.2 msg with
    | some st' => runAfter st' rest
    | none => runAfter st rest

theorem runAfter_consistent : ∀ (msgs : List Upgrade) (st : Upgrade × Globals), Consistent st.1 st.2 →
    Consistent (runAfter st msgs).1 (runAfter st msgs).2 := by
  intro msgs
  induction msgs with
  | nil => intro st h; exact h
  | cons msg rest ih =>
    intro st h
    unfold runAfter
    cases hr : handleUpgradeAfterUpdate st.1 st.2 msg with
    | none => exact ih st h
    | some st' => exact ih st' (after_consistent h hr)

/-- A chain at genesis (default parameter, fresh process) is consistent. -/
theorem consistent_genesis_default : Consistent {} { upgradeHeight := 0 } := by
  refine ⟨rfl, rfl, ?_, ?_⟩
  · intro k; rfl
  · intro s hs; cases hs

end Upgrade
