import Proofs.Upgrade.Basic
/-! `%d` / `strconv.ParseInt` and `k:v` / `strings.Split` round trips; `sort.Strings`. -/
namespace Upgrade
open Elen

theorem digitByte_toNat {x : Nat} (h : x < 10) : (digitByte x).toNat = 48 + x := by
  unfold digitByte
  simp [UInt8.toNat_ofNat']
  omega

theorem digitsVal_append (a : Bytes) (b : UInt8) : digitsVal (a ++ [b]) = digitsVal a * 10 + (b.toNat - 48) := by
  simp [digitsVal, List.foldl_append]

theorem digitsVal_rev (l : List Nat) (h : Digits l) : digitsVal (l.reverse.map digitByte) = valRev l := by
  induction l with
  | nil => rfl
  | cons x l ih =>
    have hx : x < 10 := h x List.mem_cons_self
    have hl : Digits l := fun d hd => h d (List.mem_cons_of_mem _ hd)
    simp only [List.reverse_cons, List.map_append, List.map_cons, List.map_nil]
    rw [digitsVal_append, ih hl, digitByte_toNat hx, valRev]
    omega

theorem digitsVal_dec (n : Nat) : digitsVal (dec n) = n := by
  unfold dec
  rw [digitsVal_rev _ (decRev_digits n), valRev_decRev]

theorem dec_bytes (n : Nat) : ∀ b ∈ dec n, 48 ≤ b.toNat ∧ b.toNat ≤ 57 := by
  intro b hb
  unfold dec at hb
  obtain ⟨d, hd, rfl⟩ := List.mem_map.mp hb
  have := decRev_digits n d (List.mem_reverse.mp hd)
  rw [digitByte_toNat this]
  omega

theorem dec_ne_nil (n : Nat) : dec n ≠ [] := by
  unfold dec
  have := decRev_length_pos n
  intro h
  have h2 : ((decRev n).reverse.map digitByte).length = 0 := by rw [h]; rfl
  simp only [List.length_map, List.length_reverse] at h2
  omega

theorem dec_all_digit (n : Nat) : (dec n).all isDigit = true := by
  rw [List.all_eq_true]
  intro b hb
  have := dec_bytes n b hb
  simp [isDigit, this.1, this.2]

def InRange (v : Int) : Prop := minInt64 ≤ v ∧ v ≤ maxInt64

theorem parseInt64_itoa (v : Int) (h : InRange v) : parseInt64 (itoa v) = v := by
  obtain ⟨h1, h2⟩ := h
  unfold itoa
  by_cases hv : v < 0
  · rw [if_pos hv]
    unfold parseInt64
    simp only [if_true]
    have hne : (dec v.natAbs).isEmpty = false := by
      cases hd : dec v.natAbs with
      | nil => exact absurd hd (dec_ne_nil _)
      | cons _ _ => rfl
    simp only [hne, dec_all_digit, Bool.not_true, Bool.or_self, Bool.false_eq_true, if_false, digitsVal_dec]
    have : ¬ (-(v.natAbs : Int) < minInt64) := by unfold minInt64 at *; omega
    rw [if_neg this]
    omega
  · rw [if_neg hv]
    unfold parseInt64
    cases hd : dec v.natAbs with
    | nil => exact absurd hd (dec_ne_nil _)
    | cons b rest =>
      have hb := dec_bytes v.natAbs b (by rw [hd]; exact List.mem_cons_self)
      have hm : b ≠ minus := by
        intro e; rw [e] at hb; simp [minus] at hb
      have hp : b ≠ plus := by
        intro e; rw [e] at hb; simp [plus] at hb
      simp only [hm, hp, if_false]
      have hall : (b :: rest).all isDigit = true := by rw [← hd]; exact dec_all_digit _
      have hval : digitsVal (b :: rest) = v.natAbs := by rw [← hd]; exact digitsVal_dec _
      simp only [List.isEmpty_cons, hall, Bool.not_true, Bool.or_self, Bool.false_eq_true, if_false, hval]
      have : ¬ ((v.natAbs : Int) > maxInt64) := by unfold maxInt64 at *; omega
      rw [if_neg this]
      omega

theorem clampNeg_inRange (v : Int) (hv : 0 ≤ v) : InRange (if -v < minInt64 then minInt64 else -v) := by
  unfold InRange minInt64 maxInt64
  by_cases h : -v < -9223372036854775808
  · rw [if_pos h]; omega
  · rw [if_neg h]; omega

theorem clampPos_inRange (v : Int) (hv : 0 ≤ v) : InRange (if v > maxInt64 then maxInt64 else v) := by
  unfold InRange minInt64 maxInt64
  by_cases h : v > 9223372036854775807
  · rw [if_pos h]; omega
  · rw [if_neg h]; omega

theorem parseInt64_inRange (s : Bytes) : InRange (parseInt64 s) := by
  unfold parseInt64
  split
  rename_i neg ds _
  by_cases h : (ds.isEmpty || !ds.all isDigit) = true
  · rw [if_pos h]; unfold InRange minInt64 maxInt64; omega
  · rw [if_neg h]
    cases neg
    · simp only [Bool.false_eq_true, if_false]
      exact clampPos_inRange _ (Int.natCast_nonneg _)
    · simp only [if_true]
      exact clampNeg_inRange _ (Int.natCast_nonneg _)

/-! ## `strings.Split(s, ":")` -/

def NoColon (l : Bytes) : Prop := ∀ b ∈ l, b ≠ colon

theorem takeWhile_noColon (k x : Bytes) (hk : NoColon k) :
    (k ++ colon :: x).takeWhile (· != colon) = k ∧ (k ++ colon :: x).dropWhile (· != colon) = colon :: x := by
  induction k with
  | nil => simp [List.takeWhile, List.dropWhile]
  | cons c k ih =>
    have hc : c ≠ colon := hk c List.mem_cons_self
    have hb : (c != colon) = true := by simp [hc]
    obtain ⟨i1, i2⟩ := ih (fun b hb => hk b (List.mem_cons_of_mem _ hb))
    simp only [List.cons_append, List.takeWhile_cons, List.dropWhile_cons, hb, if_true, i1, i2, and_self]

theorem takeWhile_all (r : Bytes) (hr : NoColon r) : r.takeWhile (· != colon) = r := by
  induction r with
  | nil => rfl
  | cons c r ih =>
    have hc : c ≠ colon := hr c List.mem_cons_self
    have hb : (c != colon) = true := by simp [hc]
    simp only [List.takeWhile_cons, hb, if_true, ih (fun b hb => hr b (List.mem_cons_of_mem _ hb))]

theorem takeWhile_noColon' (s : Bytes) : NoColon (s.takeWhile (· != colon)) := by
  induction s with
  | nil => intro b hb; simp at hb
  | cons c s ih =>
    intro b hb
    rw [List.takeWhile_cons] at hb
    by_cases hc : (c != colon) = true
    · rw [if_pos hc] at hb
      rcases List.mem_cons.mp hb with rfl | hb
      · simpa using hc
      · exact ih b hb
    · rw [if_neg hc] at hb
      simp at hb

theorem splitKV_render (k r : Bytes) (hk : NoColon k) (hr : NoColon r) : splitKV (k ++ colon :: r) = some (k, r) := by
  unfold splitKV
  obtain ⟨h1, h2⟩ := takeWhile_noColon k r hk
  simp only [h2, h1, takeWhile_all r hr]

theorem splitKV_key_noColon {s k v : Bytes} (h : splitKV s = some (k, v)) : NoColon k := by
  unfold splitKV at h
  split at h
  · cases h
  · injection h with h
    injection h with h1 _
    rw [← h1]
    exact takeWhile_noColon' s

theorem parseEntry_key_noColon {s k : Bytes} {v : Int} (h : parseEntry s = some (k, v)) : NoColon k := by
  unfold parseEntry at h
  cases hs : splitKV s with
  | none => rw [hs] at h; cases h
  | some kv =>
    obtain ⟨k', v'⟩ := kv
    rw [hs] at h
    simp only [Option.map_some, Option.some.injEq, Prod.mk.injEq] at h
    rw [← h.1]
    exact splitKV_key_noColon hs

theorem parseEntry_val_inRange {s k : Bytes} {v : Int} (h : parseEntry s = some (k, v)) : InRange v := by
  unfold parseEntry at h
  cases hs : splitKV s with
  | none => rw [hs] at h; cases h
  | some kv =>
    rw [hs] at h
    simp only [Option.map_some, Option.some.injEq, Prod.mk.injEq] at h
    rw [← h.2]
    exact parseInt64_inRange _

theorem itoa_noColon (v : Int) : NoColon (itoa v) := by
  have hd : ∀ n, NoColon (dec n) := by
    intro n b hb e
    have := dec_bytes n b hb
    rw [e] at this
    simp [colon] at this
  unfold itoa
  split
  · intro b hb
    rcases List.mem_cons.mp hb with rfl | hb
    · decide
    · exact hd _ b hb
  · exact hd _

theorem parseEntry_render (k : Bytes) (v : Int) (hk : NoColon k) (hv : InRange v) :
    parseEntry (renderEntry (k, v)) = some (k, v) := by
  unfold parseEntry renderEntry
  rw [splitKV_render k (itoa v) hk (itoa_noColon v)]
  simp [parseInt64_itoa v hv]

/-! ## `sort.Strings` -/

theorem insertSorted_perm (x : Bytes) (l : List Bytes) : (insertSorted x l).Perm (x :: l) := by
  induction l with
  | nil => exact List.Perm.refl _
  | cons y ys ih =>
    unfold insertSorted
    by_cases h : x ≤ y
    · rw [if_pos h]
    · rw [if_neg h]
      exact (List.Perm.cons y ih).trans (List.Perm.swap x y ys)

theorem sortStrings_perm (l : List Bytes) : (sortStrings l).Perm l := by
  induction l with
  | nil => exact List.Perm.refl _
  | cons x l ih =>
    have : sortStrings (x :: l) = insertSorted x (sortStrings l) := rfl
    rw [this]
    exact (insertSorted_perm x _).trans (List.Perm.cons x ih)

theorem insertSorted_sorted (x : Bytes) (l : List Bytes) (h : l.Pairwise (· ≤ ·)) :
    (insertSorted x l).Pairwise (· ≤ ·) := by
  induction l with
  | nil => simp [insertSorted]
  | cons y ys ih =>
    obtain ⟨h1, h2⟩ := List.pairwise_cons.mp h
    unfold insertSorted
    by_cases hxy : x ≤ y
    · rw [if_pos hxy]
      refine List.pairwise_cons.mpr ⟨?_, h⟩
      intro b hb
      rcases List.mem_cons.mp hb with rfl | hb
      · exact hxy
      · exact Bytes.le_trans hxy (h1 b hb)
    · rw [if_neg hxy]
      refine List.pairwise_cons.mpr ⟨?_, ih h2⟩
      intro b hb
      rcases List.mem_cons.mp ((insertSorted_perm x ys).subset hb) with rfl | hb
      · exact Bytes.le_of_lt (Bytes.not_le.mp hxy)
      · exact h1 b hb

theorem sortStrings_sorted (l : List Bytes) : (sortStrings l).Pairwise (· ≤ ·) := by
  induction l with
  | nil => simp [sortStrings]
  | cons x l ih =>
    have : sortStrings (x :: l) = insertSorted x (sortStrings l) := rfl
    rw [this]
    exact insertSorted_sorted x _ ih

/-- A sorted list is determined by its elements. -/
theorem sorted_perm_eq : ∀ (l1 l2 : List Bytes), l1.Pairwise (· ≤ ·) → l2.Pairwise (· ≤ ·) → l1.Perm l2 → l1 = l2 := by
  intro l1
  induction l1 with
  | nil => intro l2 _ _ hp; exact (List.Perm.nil_eq hp)
  | cons a t1 ih =>
    intro l2 h1 h2 hp
    cases l2 with
    | nil => exact absurd hp.symm.nil_eq (by simp)
    | cons b t2 =>
      obtain ⟨ha, ht1⟩ := List.pairwise_cons.mp h1
      obtain ⟨hb, ht2⟩ := List.pairwise_cons.mp h2
      have hab : a = b := by
        have ha2 : a ∈ b :: t2 := hp.subset List.mem_cons_self
        have hb1 : b ∈ a :: t1 := hp.symm.subset List.mem_cons_self
        rcases List.mem_cons.mp ha2 with e | e
        · exact e
        · rcases List.mem_cons.mp hb1 with e' | e'
          · exact e'.symm
          · exact Bytes.le_antisymm (ha b e') (hb a e)
      subst hab
      rw [ih t2 ht1 ht2 (List.Perm.cons_inv hp)]

theorem sortStrings_congr {l1 l2 : List Bytes} (h : l1.Perm l2) : sortStrings l1 = sortStrings l2 :=
  sorted_perm_eq _ _ (sortStrings_sorted l1) (sortStrings_sorted l2)
    ((sortStrings_perm l1).trans (h.trans (sortStrings_perm l2).symm))

end Upgrade
