import Proofs.Store.IavlHeap
/-!
# IAVL on the heap: clone, rotations, balance (C09 stage B)

Each heap-level step of `mutable_tree.go` commutes with the pure model's step on the represented
tree, writes no object that existed before the call (`Ext`), and keeps the cache invariant.
-/
namespace Iavl.Heap
open Iavl
variable (H : HashIn → Hash)

theorem ExtOn.toExt {K : Addr → Prop} {st st' : St} (h : ExtOn K st st')
    (hK : ∀ (x : Addr) (c : Cell), st.heap[x]? = some c → K x) : Ext st st' :=
  ⟨fun x c _ hx => h.cells x c (hK x c hx) hx, h.pers, h.len, h.db, h.roots, h.csize⟩

/-- What `addOrphans` needs of an orphaned object. -/
def Valid (st : St) (x : Addr) : Prop := ∃ c, st.heap[x]? = some c ∧ (c.persisted = true → c.hash.isSome = true)

theorem Rep.valid {P : Addr → Prop} {st : St} {t : Node} {a : Addr} (h : Rep H P st t a) : Valid st a := by
  obtain ⟨_, c, hc, _, _, _, _, _, _, hp⟩ := Rep.cell H h
  exact ⟨c, hc, fun hpers => by rw [(hp hpers).1]; rfl⟩

theorem Valid.ext {K : Addr → Prop} {st st' : St} {x : Addr} (h : Valid st x) (hext : ExtOn K st st') (hk : K x) :
    Valid st' x := by
  obtain ⟨c, hc, hp⟩ := h
  exact ⟨c, hext.cells x c hk hc, hp⟩

/-- Building a representation of an inner node from its object and its two slots. -/
theorem Rep.mk_inner {P : Addr → Prop} {st : St} {a : Addr} {c : Cell} {k : Bytes} {h s ver : Nat} {l r : Node}
    (hPa : P a) (ha : st.heap[a]? = some c) (hk : c.key = k) (hh : c.height = h) (h0 : h ≠ 0)
    (hs : c.size = s) (hv : c.version = ver)
    (hl : Slot H P st l c.leftPtr c.leftHash) (hr : Slot H P st r c.rightPtr c.rightHash)
    (hhash : c.hash = none) (hnp : c.persisted = false) : Rep H P st (.inner k h s l r ver) a :=
  ⟨hPa, c, ha, hk, hh, h0, hs, hv, hl, hr, Or.inl hhash, fun hp => by rw [hnp] at hp; cases hp⟩

theorem Rep.mk_leaf {P : Addr → Prop} {st : St} {a : Addr} {k v : Bytes} {ver : Nat}
    (hPa : P a) (ha : st.heap[a]? = some (newLeaf k v ver)) : Rep H P st (.leaf k v ver) a :=
  ⟨hPa, _, ha, rfl, rfl, rfl, rfl, rfl, rfl, rfl, Or.inl rfl, fun hp => by cases hp⟩

theorem Slot.ofPtr {P : Addr → Prop} {st : St} {t : Node} {p : Addr} (h : Rep H P st t p) :
    Slot H P st t (some p) none := ⟨h, Or.inl rfl⟩

/-- Restricting a footprint to the objects that exist. -/
theorem Rep.restrict {P : Addr → Prop} {st : St} {t : Node} {a : Addr} (h : Rep H P st t a) :
    Rep H (fun x => P x ∧ x < st.heap.length) st t a :=
  Rep.mono H h (fun _ _ hp hc => ⟨hp, lt_of_get hc⟩)

theorem Slot.restrict {P : Addr → Prop} {st : St} {t : Node} {ptr : Option Addr} {hash : Option Hash}
    (h : Slot H P st t ptr hash) : Slot H (fun x => P x ∧ x < st.heap.length) st t ptr hash :=
  Slot.mono H h (fun _ _ hp hc => ⟨hp, lt_of_get hc⟩)

theorem clone_spec {st : St} {a : Addr} {c : Cell} (ha : st.heap[a]? = some c) (h0 : c.height ≠ 0) (version : Nat) :
    clone st a version = some (st.alloc
      { key := c.key, height := c.height, version := version, size := c.size, hash := none,
        leftHash := c.leftHash, leftPtr := c.leftPtr, rightHash := c.rightHash, rightPtr := c.rightPtr,
        persisted := false }) := by
  simp [clone, ha, h0]

/-- The object `clone` creates. -/
def cloneCell (c : Cell) (version : Nat) : Cell :=
  { key := c.key, height := c.height, version := version, size := c.size, hash := none,
    leftHash := c.leftHash, leftPtr := c.leftPtr, rightHash := c.rightHash, rightPtr := c.rightPtr,
    persisted := false }

theorem clone_spec' {st : St} {a : Addr} {c : Cell} (ha : st.heap[a]? = some c) (h0 : c.height ≠ 0) (version : Nat) :
    clone st a version = some (st.alloc (cloneCell c version)) := clone_spec ha h0 version

/-- `rotateRight` (as is): the result represents the pure model's rotation; no pre-existing object
is written. -/
theorem rotateRight_spec {P : Addr → Prop} {st : St} {a : Addr} {c : Cell} {k : Bytes} {h s ver : Nat}
    {lk : Bytes} {lh ls lver : Nat} {ll lr r : Node} (version : Nat)
    (hc : CacheOK st) (ha : st.heap[a]? = some c) (hk : c.key = k) (hh : c.height = h) (h0 : h ≠ 0)
    (hs : c.size = s)
    (hl : Slot H P st (.inner lk lh ls ll lr lver) c.leftPtr c.leftHash)
    (hr : Slot H P st r c.rightPtr c.rightHash) :
    ∃ st' n o cn, rotateRight Cfg.asIs version st a = some (st', n, o) ∧ Ext st st' ∧ CacheOK st' ∧
      Rep H (Fresh st P) st' (Node.rotateRight version (.inner k h s (.inner lk lh ls ll lr lver) r ver)) n ∧
      st.heap.length ≤ n ∧ st'.heap[n]? = some cn ∧ cn.persisted = false ∧ cn.hash = none ∧
      Rep H (Fresh st P) st' (.inner lk lh ls ll lr lver) o := by
  -- footprints below the allocation point
  let P0 : Addr → Prop := fun x => P x ∧ x < st.heap.length
  have hl0 : Slot H P0 st (.inner lk lh ls ll lr lver) c.leftPtr c.leftHash := Slot.restrict H hl
  have hr0 : Slot H P0 st r c.rightPtr c.rightHash := Slot.restrict H hr
  have hc0 : c.height ≠ 0 := by rw [hh]; exact h0
  -- 1. node := clone(a)
  let cn := cloneCell c version
  let node := st.heap.length
  let st1 := (st.alloc cn).1
  have he1 : Ext st st1 := alloc_ext st cn
  have hnode1 : st1.heap[node]? = some cn := alloc_new st cn
  have hc1 : CacheOK st1 := CacheOK.ext hc he1 (fun _ _ _ _ => trivial) (fun _ _ h => h)
  -- 2. orphaned := getLeft(node)
  have hl1 : Slot H P0 st1 (.inner lk lh ls ll lr lver) cn.leftPtr cn.leftHash := Slot.ext H hl0 he1 (fun _ _ => trivial)
  obtain ⟨st2, o, hg, he2, hc2, hro⟩ := getLeft_spec H hc1 hnode1 hl1
  -- restrict to objects of st2
  have hro' := Rep.restrict H hro
  have hroQ := hro'
  let Q : Addr → Prop := fun x => Fresh st1 P0 x ∧ x < st2.heap.length
  obtain ⟨hQo, co, hco, hcok, hcoh, hlh0, hcos, hcov, hsll, hslr, _, _⟩ := hro'
  have hnodeQ : ¬ Q node := fun hq =>
    Fresh.not hnode1 rfl (fun hp => absurd hp.2 (Nat.lt_irrefl _)) hq.1
  -- 3. newNode := clone(orphaned)
  have hco0 : co.height ≠ 0 := by rw [hcoh]; exact hlh0
  let cnn := cloneCell co version
  let newNode := st2.heap.length
  let st3 := (st2.alloc cnn).1
  have he3 : Ext st2 st3 := alloc_ext st2 cnn
  have hnn3 : st3.heap[newNode]? = some cnn := alloc_new st2 cnn
  have hnode2 : st2.heap[node]? = some cn := he2.cells _ _ trivial hnode1
  have hnode3 : st3.heap[node]? = some cn := he3.cells _ _ trivial hnode2
  have hne : newNode ≠ node := by
    have : node < st2.heap.length := lt_of_get hnode2
    exact fun e => absurd (e ▸ this) (Nat.lt_irrefl _)
  have hnnQ : ¬ Q newNode := fun hq => absurd hq.2 (Nat.lt_irrefl _)
  -- 5. newNode.right := (node.hash, node)
  let cnn' : Cell := { cnn with rightHash := cn.hash, rightPtr := some node }
  let st4 := st3.write newNode cnn'
  have he4 : ExtOn (· ≠ newNode) st3 st4 := write_ext hnn3 cnn' rfl
  have hnn4 : st4.heap[newNode]? = some cnn' := write_same hnn3 cnn'
  have hnode4 : st4.heap[node]? = some cn := he4.cells _ _ (Ne.symm hne) hnode3
  -- 6. node.left := newNode's old right
  let cn' : Cell := { cn with leftHash := cnn.rightHash, leftPtr := cnn.rightPtr }
  let st5 := st4.write node cn'
  have he5 : ExtOn (· ≠ node) st4 st5 := write_ext hnode4 cn' rfl
  have hnode5 : st5.heap[node]? = some cn' := write_same hnode4 cn'
  have hnn5 : st5.heap[newNode]? = some cnn' := he5.cells _ _ hne hnn4
  -- everything in Q is untouched from st2 to st5
  have hQ25 : ExtOn Q st2 st5 :=
    ((he3.on Q).trans (he4.mono (fun x hx e => hnnQ (e ▸ hx)))).trans (he5.mono (fun x hx e => hnodeQ (e ▸ hx)))
  have hpers25 : ∀ (x : Addr) (cx : Cell), st2.heap[x]? = some cx → cx.persisted = true → st5.heap[x]? = some cx := by
    intro x cx hx hp
    have hx3 := he3.cells x cx trivial hx
    have hxn : x ≠ newNode := fun e => by
      subst e; rw [hnn3] at hx3; cases hx3; cases hp
    have hx4 := he4.cells x cx hxn hx3
    have hxnode : x ≠ node := fun e => by
      subst e; rw [hnode4] at hx4; cases hx4; cases hp
    exact he5.cells x cx hxnode hx4
  have hc5 : CacheOK st5 := CacheOK.transfer hc2 hpers25 (fun _ _ h => h) (fun _ _ h => h)
  -- 7. calcHeightAndSize(node): children lr (from orphaned) and r (from a)
  have hslr5 : Slot H Q st5 lr cn'.leftPtr cn'.leftHash := Slot.ext H hslr hQ25 (fun _ hx => hx)
  have hr2 : Slot H Q st2 r cn'.rightPtr cn'.rightHash := by
    have h1 : Slot H P0 st2 r c.rightPtr c.rightHash := Slot.ext H hr0 (he1.trans he2) (fun _ _ => trivial)
    exact Slot.mono H h1 (fun x cx hx hcx => ⟨Or.inl hx, lt_of_get hcx⟩)
  have hr5 : Slot H Q st5 r cn'.rightPtr cn'.rightHash := Slot.ext H hr2 hQ25 (fun _ hx => hx)
  obtain ⟨st6, hcalc1, he6, hc6, hnode6⟩ := calcHS_spec H hc5 hnode5 rfl hnodeQ hslr5 hr5
  have hnn6 : st6.heap[newNode]? = some cnn' := he6.cells _ _ hne hnn5
  -- the lower node now represents node' := calcHS (inner k h s lr r version)
  let Q' : Addr → Prop := fun x => Q x ∨ x = node
  have hnode'rep : Rep H Q' st6 (Node.calcHeightAndSize (.inner k h s lr r version)) node := by
    refine Rep.mk_inner H (Or.inr rfl) hnode6 hk rfl (Nat.succ_ne_zero _) rfl rfl ?_ ?_ rfl rfl
    · exact Slot.mono H (Slot.ext H hslr5 he6 (fun x hx e => hnodeQ (e ▸ hx))) (fun _ _ hx _ => Or.inl hx)
    · exact Slot.mono H (Slot.ext H hr5 he6 (fun x hx e => hnodeQ (e ▸ hx))) (fun _ _ hx _ => Or.inl hx)
  -- 8. calcHeightAndSize(newNode): children ll (from orphaned) and node'
  have hnnQ' : ¬ Q' newNode := fun hq => hq.elim hnnQ hne
  have hsll6 : Slot H Q' st6 ll cnn'.leftPtr cnn'.leftHash :=
    Slot.mono H (Slot.ext H (Slot.ext H hsll hQ25 (fun _ hx => hx)) he6 (fun x hx e => hnodeQ (e ▸ hx)))
      (fun _ _ hx _ => Or.inl hx)
  have hsn6 : Slot H Q' st6 (Node.calcHeightAndSize (.inner k h s lr r version)) cnn'.rightPtr cnn'.rightHash :=
    ⟨hnode'rep, Or.inl rfl⟩
  obtain ⟨st7, hcalc2, he7, hc7, hnn7⟩ := calcHS_spec H hc6 hnn6 rfl hnnQ' hsll6 hsn6
  -- result
  have hQfresh : ∀ x, Q' x → Fresh st P x := by
    intro x hx
    rcases hx with hx | hx
    · exact Fresh.of_ext he1 (fun y hy => Or.inl hy.1) hx.1
    · exact Or.inr (Or.inl (by rw [hx]; exact Nat.le_refl _))
  have hlen : st.heap.length ≤ newNode := Nat.le_trans he1.len he2.len
  have horph : Rep H (Fresh st P) st7 (.inner lk lh ls ll lr lver) o := by
    have h5 := Rep.ext H hroQ hQ25 (fun _ hx => hx)
    have h6 := Rep.ext H h5 he6 (fun x hx e => hnodeQ (e ▸ hx))
    have h7 := Rep.ext H h6 he7 (fun x hx e => hnnQ (e ▸ hx))
    exact Rep.mono H h7 (fun x _ hx _ => hQfresh x (Or.inl hx))
  refine ⟨st7, newNode, o, _, ?_, ?_, hc7, ?_, hlen, hnn7, rfl, rfl, horph⟩
  · have e1 : clone st a version = some (st1, node) := clone_spec' ha hc0 version
    have e3 : clone st2 o version = some (st3, newNode) := clone_spec' hco hco0 version
    have e4 : st3.modify newNode (fun c => { c with rightHash := cn.hash, rightPtr := some node }) = some st4 :=
      modify_eq hnn3 _
    have e5 : st4.modify node (fun c => { c with leftHash := cnn.rightHash, leftPtr := cnn.rightPtr }) = some st5 :=
      modify_eq hnode4 _
    simp only [rotateRight, Cfg.asIs, if_true, e1, hg, e3, hnn3, hnode3, Option.bind_eq_bind, Option.bind_some,
      e4, e5, hcalc1, hcalc2]
  · -- no object of `st` was written
    have hK : ∀ x, x < st.heap.length → x ≠ node ∧ x ≠ newNode :=
      fun x hx => ⟨Nat.ne_of_lt hx, Nat.ne_of_lt (Nat.lt_of_lt_of_le hx hlen)⟩
    have hchain : ExtOn (· < st.heap.length) st st7 :=
      ((((((he1.on _).trans (he2.on _)).trans (he3.on _)).trans (he4.mono (fun x hx => (hK x hx).2))).trans
        (he5.mono (fun x hx => (hK x hx).1))).trans (he6.mono (fun x hx => (hK x hx).1))).trans
        (he7.mono (fun x hx => (hK x hx).2))
    exact hchain.toExt (fun _ _ hx => lt_of_get hx)
  · have hfin : Rep H (fun x => Q' x ∨ x = newNode) st7
        (Node.calcHeightAndSize (.inner lk lh ls ll (Node.calcHeightAndSize (.inner k h s lr r version)) version)) newNode := by
      refine Rep.mk_inner H (Or.inr rfl) hnn7 hcok rfl (Nat.succ_ne_zero _) rfl rfl ?_ ?_ rfl rfl
      · exact Slot.mono H (Slot.ext H hsll6 he7 (fun x hx e => hnnQ' (e ▸ hx))) (fun _ _ hx _ => Or.inl hx)
      · exact Slot.mono H (Slot.ext H hsn6 he7 (fun x hx e => hnnQ' (e ▸ hx))) (fun _ _ hx _ => Or.inl hx)
    refine Rep.mono H hfin (fun x _ hx _ => ?_)
    rcases hx with hx | hx
    · exact hQfresh x hx
    · exact Or.inr (Or.inl (by rw [hx]; exact hlen))

/-- `rotateLeft` (as is), the mirror image. -/
theorem rotateLeft_spec {P : Addr → Prop} {st : St} {a : Addr} {c : Cell} {k : Bytes} {h s ver : Nat}
    {rk : Bytes} {rh rs rver : Nat} {l rl rr : Node} (version : Nat)
    (hc : CacheOK st) (ha : st.heap[a]? = some c) (hk : c.key = k) (hh : c.height = h) (h0 : h ≠ 0)
    (hs : c.size = s)
    (hl : Slot H P st l c.leftPtr c.leftHash)
    (hr : Slot H P st (.inner rk rh rs rl rr rver) c.rightPtr c.rightHash) :
    ∃ st' n o cn, rotateLeft Cfg.asIs version st a = some (st', n, o) ∧ Ext st st' ∧ CacheOK st' ∧
      Rep H (Fresh st P) st' (Node.rotateLeft version (.inner k h s l (.inner rk rh rs rl rr rver) ver)) n ∧
      st.heap.length ≤ n ∧ st'.heap[n]? = some cn ∧ cn.persisted = false ∧ cn.hash = none ∧
      Rep H (Fresh st P) st' (.inner rk rh rs rl rr rver) o := by
  let P0 : Addr → Prop := fun x => P x ∧ x < st.heap.length
  have hl0 : Slot H P0 st l c.leftPtr c.leftHash := Slot.restrict H hl
  have hr0 : Slot H P0 st (.inner rk rh rs rl rr rver) c.rightPtr c.rightHash := Slot.restrict H hr
  have hc0 : c.height ≠ 0 := by rw [hh]; exact h0
  let cn := cloneCell c version
  let node := st.heap.length
  let st1 := (st.alloc cn).1
  have he1 : Ext st st1 := alloc_ext st cn
  have hnode1 : st1.heap[node]? = some cn := alloc_new st cn
  have hc1 : CacheOK st1 := CacheOK.ext hc he1 (fun _ _ _ _ => trivial) (fun _ _ h => h)
  have hr1 : Slot H P0 st1 (.inner rk rh rs rl rr rver) cn.rightPtr cn.rightHash := Slot.ext H hr0 he1 (fun _ _ => trivial)
  obtain ⟨st2, o, hg, he2, hc2, hro⟩ := getRight_spec H hc1 hnode1 hr1
  have hro' := Rep.restrict H hro
  have hroQ := hro'
  let Q : Addr → Prop := fun x => Fresh st1 P0 x ∧ x < st2.heap.length
  obtain ⟨hQo, co, hco, hcok, hcoh, hrh0, hcos, hcov, hsrl, hsrr, _, _⟩ := hro'
  have hnodeQ : ¬ Q node := fun hq =>
    Fresh.not hnode1 rfl (fun hp => absurd hp.2 (Nat.lt_irrefl _)) hq.1
  have hco0 : co.height ≠ 0 := by rw [hcoh]; exact hrh0
  let cnn := cloneCell co version
  let newNode := st2.heap.length
  let st3 := (st2.alloc cnn).1
  have he3 : Ext st2 st3 := alloc_ext st2 cnn
  have hnn3 : st3.heap[newNode]? = some cnn := alloc_new st2 cnn
  have hnode2 : st2.heap[node]? = some cn := he2.cells _ _ trivial hnode1
  have hnode3 : st3.heap[node]? = some cn := he3.cells _ _ trivial hnode2
  have hne : newNode ≠ node := by
    have : node < st2.heap.length := lt_of_get hnode2
    exact fun e => absurd (e ▸ this) (Nat.lt_irrefl _)
  have hnnQ : ¬ Q newNode := fun hq => absurd hq.2 (Nat.lt_irrefl _)
  let cnn' : Cell := { cnn with leftHash := cn.hash, leftPtr := some node }
  let st4 := st3.write newNode cnn'
  have he4 : ExtOn (· ≠ newNode) st3 st4 := write_ext hnn3 cnn' rfl
  have hnn4 : st4.heap[newNode]? = some cnn' := write_same hnn3 cnn'
  have hnode4 : st4.heap[node]? = some cn := he4.cells _ _ (Ne.symm hne) hnode3
  let cn' : Cell := { cn with rightHash := cnn.leftHash, rightPtr := cnn.leftPtr }
  let st5 := st4.write node cn'
  have he5 : ExtOn (· ≠ node) st4 st5 := write_ext hnode4 cn' rfl
  have hnode5 : st5.heap[node]? = some cn' := write_same hnode4 cn'
  have hnn5 : st5.heap[newNode]? = some cnn' := he5.cells _ _ hne hnn4
  have hQ25 : ExtOn Q st2 st5 :=
    ((he3.on Q).trans (he4.mono (fun x hx e => hnnQ (e ▸ hx)))).trans (he5.mono (fun x hx e => hnodeQ (e ▸ hx)))
  have hpers25 : ∀ (x : Addr) (cx : Cell), st2.heap[x]? = some cx → cx.persisted = true → st5.heap[x]? = some cx := by
    intro x cx hx hp
    have hx3 := he3.cells x cx trivial hx
    have hxn : x ≠ newNode := fun e => by
      subst e; rw [hnn3] at hx3; cases hx3; cases hp
    have hx4 := he4.cells x cx hxn hx3
    have hxnode : x ≠ node := fun e => by
      subst e; rw [hnode4] at hx4; cases hx4; cases hp
    exact he5.cells x cx hxnode hx4
  have hc5 : CacheOK st5 := CacheOK.transfer hc2 hpers25 (fun _ _ h => h) (fun _ _ h => h)
  -- calcHeightAndSize(node): children l (from a) and rl (from orphaned)
  have hsrl5 : Slot H Q st5 rl cn'.rightPtr cn'.rightHash := Slot.ext H hsrl hQ25 (fun _ hx => hx)
  have hl2 : Slot H Q st2 l cn'.leftPtr cn'.leftHash := by
    have h1 : Slot H P0 st2 l c.leftPtr c.leftHash := Slot.ext H hl0 (he1.trans he2) (fun _ _ => trivial)
    exact Slot.mono H h1 (fun x cx hx hcx => ⟨Or.inl hx, lt_of_get hcx⟩)
  have hl5 : Slot H Q st5 l cn'.leftPtr cn'.leftHash := Slot.ext H hl2 hQ25 (fun _ hx => hx)
  obtain ⟨st6, hcalc1, he6, hc6, hnode6⟩ := calcHS_spec H hc5 hnode5 rfl hnodeQ hl5 hsrl5
  have hnn6 : st6.heap[newNode]? = some cnn' := he6.cells _ _ hne hnn5
  let Q' : Addr → Prop := fun x => Q x ∨ x = node
  have hnode'rep : Rep H Q' st6 (Node.calcHeightAndSize (.inner k h s l rl version)) node := by
    refine Rep.mk_inner H (Or.inr rfl) hnode6 hk rfl (Nat.succ_ne_zero _) rfl rfl ?_ ?_ rfl rfl
    · exact Slot.mono H (Slot.ext H hl5 he6 (fun x hx e => hnodeQ (e ▸ hx))) (fun _ _ hx _ => Or.inl hx)
    · exact Slot.mono H (Slot.ext H hsrl5 he6 (fun x hx e => hnodeQ (e ▸ hx))) (fun _ _ hx _ => Or.inl hx)
  have hnnQ' : ¬ Q' newNode := fun hq => hq.elim hnnQ hne
  have hsrr6 : Slot H Q' st6 rr cnn'.rightPtr cnn'.rightHash :=
    Slot.mono H (Slot.ext H (Slot.ext H hsrr hQ25 (fun _ hx => hx)) he6 (fun x hx e => hnodeQ (e ▸ hx)))
      (fun _ _ hx _ => Or.inl hx)
  have hsn6 : Slot H Q' st6 (Node.calcHeightAndSize (.inner k h s l rl version)) cnn'.leftPtr cnn'.leftHash :=
    ⟨hnode'rep, Or.inl rfl⟩
  obtain ⟨st7, hcalc2, he7, hc7, hnn7⟩ := calcHS_spec H hc6 hnn6 rfl hnnQ' hsn6 hsrr6
  have hQfresh : ∀ x, Q' x → Fresh st P x := by
    intro x hx
    rcases hx with hx | hx
    · exact Fresh.of_ext he1 (fun y hy => Or.inl hy.1) hx.1
    · exact Or.inr (Or.inl (by rw [hx]; exact Nat.le_refl _))
  have hlen : st.heap.length ≤ newNode := Nat.le_trans he1.len he2.len
  have horph : Rep H (Fresh st P) st7 (.inner rk rh rs rl rr rver) o := by
    have h5 := Rep.ext H hroQ hQ25 (fun _ hx => hx)
    have h6 := Rep.ext H h5 he6 (fun x hx e => hnodeQ (e ▸ hx))
    have h7 := Rep.ext H h6 he7 (fun x hx e => hnnQ (e ▸ hx))
    exact Rep.mono H h7 (fun x _ hx _ => hQfresh x (Or.inl hx))
  refine ⟨st7, newNode, o, _, ?_, ?_, hc7, ?_, hlen, hnn7, rfl, rfl, horph⟩
  · have e1 : clone st a version = some (st1, node) := clone_spec' ha hc0 version
    have e3 : clone st2 o version = some (st3, newNode) := clone_spec' hco hco0 version
    have e4 : st3.modify newNode (fun c => { c with leftHash := cn.hash, leftPtr := some node }) = some st4 :=
      modify_eq hnn3 _
    have e5 : st4.modify node (fun c => { c with rightHash := cnn.leftHash, rightPtr := cnn.leftPtr }) = some st5 :=
      modify_eq hnode4 _
    simp only [rotateLeft, Cfg.asIs, if_true, e1, hg, e3, hnn3, hnode3, Option.bind_eq_bind, Option.bind_some,
      e4, e5, hcalc1, hcalc2]
  · have hK : ∀ x, x < st.heap.length → x ≠ node ∧ x ≠ newNode :=
      fun x hx => ⟨Nat.ne_of_lt hx, Nat.ne_of_lt (Nat.lt_of_lt_of_le hx hlen)⟩
    have hchain : ExtOn (· < st.heap.length) st st7 :=
      ((((((he1.on _).trans (he2.on _)).trans (he3.on _)).trans (he4.mono (fun x hx => (hK x hx).2))).trans
        (he5.mono (fun x hx => (hK x hx).1))).trans (he6.mono (fun x hx => (hK x hx).1))).trans
        (he7.mono (fun x hx => (hK x hx).2))
    exact hchain.toExt (fun _ _ hx => lt_of_get hx)
  · have hfin : Rep H (fun x => Q' x ∨ x = newNode) st7
        (Node.calcHeightAndSize (.inner rk rh rs (Node.calcHeightAndSize (.inner k h s l rl version)) rr version)) newNode := by
      refine Rep.mk_inner H (Or.inr rfl) hnn7 hcok rfl (Nat.succ_ne_zero _) rfl rfl ?_ ?_ rfl rfl
      · exact Slot.mono H (Slot.ext H hsn6 he7 (fun x hx e => hnnQ' (e ▸ hx))) (fun _ _ hx _ => Or.inl hx)
      · exact Slot.mono H (Slot.ext H hsrr6 he7 (fun x hx e => hnnQ' (e ▸ hx))) (fun _ _ hx _ => Or.inl hx)
    refine Rep.mono H hfin (fun x _ hx _ => ?_)
    rcases hx with hx | hx
    · exact hQfresh x hx
    · exact Or.inr (Or.inl (by rw [hx]; exact hlen))

theorem ExtOn.on {st st' : St} (h : ExtOn (fun _ => True) st st') (K : Addr → Prop) : ExtOn K st st' :=
  h.mono (fun _ _ => trivial)

theorem Node.balance_eq (version : Nat) (k : Bytes) (h s : Nat) (l r : Node) (ver : Nat) :
    Node.balance version (.inner k h s l r ver) =
      if (l.height : Int) - (r.height : Int) > 1 then
        if l.calcBalance ≥ 0 then Node.rotateRight version (.inner k h s l r ver)
        else Node.rotateRight version (.inner k h s (Node.rotateLeft version l) r ver)
      else if (l.height : Int) - (r.height : Int) < -1 then
        if r.calcBalance ≤ 0 then Node.rotateLeft version (.inner k h s l r ver)
        else Node.rotateLeft version (.inner k h s l (Node.rotateRight version r) ver)
      else .inner k h s l r ver := rfl

theorem Node.height_pos_inner {t : Node} (h : t.height ≠ 0) : ∃ k hh s l r ver, t = .inner k hh s l r ver := by
  cases t with
  | leaf => exact absurd rfl h
  | inner k hh s l r ver => exact ⟨k, hh, s, l, r, ver, rfl⟩

/-- `balance` (as is) on a fresh unpersisted object outside its children's footprint. -/
theorem balance_spec {P : Addr → Prop} {st : St} {a : Addr} {c : Cell} {k : Bytes} {h s ver : Nat} {l r : Node}
    (version : Nat) (orphans : List Addr)
    (hc : CacheOK st) (ha : st.heap[a]? = some c) (hnp : c.persisted = false) (hPa : ¬ P a)
    (hk : c.key = k) (hh : c.height = h) (h0 : h ≠ 0) (hs : c.size = s) (hv : c.version = ver) (hhash : c.hash = none)
    (hl : Slot H P st l c.leftPtr c.leftHash) (hr : Slot H P st r c.rightPtr c.rightHash) :
    ∃ st' n orph' cn, balance Cfg.asIs version st a orphans = some (st', n, orph') ∧ ExtOn (· ≠ a) st st' ∧
      CacheOK st' ∧
      Rep H (fun x => Fresh st P x ∨ x = a) st' (Node.balance version (.inner k h s l r ver)) n ∧
      st'.heap[n]? = some cn ∧ cn.persisted = false ∧ cn.hash = none ∧ (n = a ∨ st.heap.length ≤ n) ∧
      (∃ extra, orph' = orphans ++ extra ∧ ∀ x ∈ extra, Valid st' x) := by
  have hPne : ∀ x, P x → x ≠ a := fun x hx e => hPa (e ▸ hx)
  -- calcBalance(a)
  obtain ⟨st1, hb1, he1, hc1⟩ := calcBalance_spec H hc ha hl hr
  have ha1 : st1.heap[a]? = some c := he1.cells a c trivial ha
  have hl1 : Slot H P st1 l c.leftPtr c.leftHash := Slot.ext H hl he1 (fun _ _ => trivial)
  have hr1 : Slot H P st1 r c.rightPtr c.rightHash := Slot.ext H hr he1 (fun _ _ => trivial)
  by_cases hb : (l.height : Int) - (r.height : Int) > 1
  · -- left heavy: l is an inner node
    have hlh : l.height ≠ 0 := by intro e; rw [e] at hb; omega
    obtain ⟨lk, lh, ls, ll, lr, lver, rfl⟩ := Node.height_pos_inner hlh
    obtain ⟨st2, lp, hg2, he2, hc2, hrl2⟩ := getLeft_spec H hc1 ha1 hl1
    obtain ⟨_, cl, hcl, _, _, _, _, _, hsll, hslr, _, _⟩ := hrl2
    obtain ⟨st3, hb3, he3, hc3⟩ := calcBalance_spec H hc2 hcl hsll hslr
    have he03 : Ext st st3 := (he1.trans he2).trans he3
    have ha3 : st3.heap[a]? = some c := he03.cells a c trivial ha
    have hl3 : Slot H P st3 (.inner lk lh ls ll lr lver) c.leftPtr c.leftHash := Slot.ext H hl he03 (fun _ _ => trivial)
    have hr3 : Slot H P st3 r c.rightPtr c.rightHash := Slot.ext H hr he03 (fun _ _ => trivial)
    by_cases hlb : (ll.height : Int) - (lr.height : Int) ≥ 0
    · -- left-left: single right rotation
      obtain ⟨st4, n, o, cn, hrot, he4, hc4, hrep, hlen, hn4, hnp4, hh4, horep⟩ :=
        rotateRight_spec H (ver := ver) version hc3 ha3 hk hh h0 hs hl3 hr3
      refine ⟨st4, n, orphans ++ [o], cn, ?_, (he03.trans he4).on _, hc4, ?_, hn4, hnp4, hh4,
        Or.inr (Nat.le_trans he03.len hlen), ⟨_, rfl, fun x hx => ?_⟩⟩
      rotate_left 2
      · rw [List.mem_singleton.mp hx]; exact Rep.valid H horep
      · simp only [balance, ha, hnp, hb1, hg2, hb3, hrot, Option.bind_eq_bind, Option.bind_some, Bool.false_eq_true,
          if_false, if_pos hb, if_pos hlb]
      · have : Node.balance version (.inner k h s (.inner lk lh ls ll lr lver) r ver)
            = Node.rotateRight version (.inner k h s (.inner lk lh ls ll lr lver) r ver) := by
          have hlb' : (Node.inner lk lh ls ll lr lver).calcBalance ≥ 0 := hlb
          rw [Node.balance_eq, if_pos hb, if_pos hlb']
        rw [this]
        exact Rep.mono H hrep (fun x _ hx _ => Or.inl (Fresh.of_ext he03 (fun _ hy => Or.inl hy) hx))
    · -- left-right: rotate the left child left, then rotate right
      have hlrh : lr.height ≠ 0 := by intro e; rw [e] at hlb; omega
      obtain ⟨rk, rh, rs, rl, rr, rver, rfl⟩ := Node.height_pos_inner hlrh
      obtain ⟨st4, left, hg4, he4, hc4, hrl4⟩ := getLeft_spec H hc3 ha3 hl3
      have ha4 : st4.heap[a]? = some c := he4.cells a c trivial ha3
      -- a.leftHash := nil
      let c5 : Cell := { c with leftHash := none }
      let st5 := st4.write a c5
      have he5 : ExtOn (· ≠ a) st4 st5 := write_ext ha4 c5 rfl
      have ha5 : st5.heap[a]? = some c5 := write_same ha4 c5
      have hc5 : CacheOK st5 := by
        refine CacheOK.ext hc4 he5 (fun x cx hx hp e => ?_) (fun _ _ h => h)
        subst e; rw [ha4] at hx; cases hx; rw [hnp] at hp; cases hp
      have hnotF3 : ¬ Fresh st3 P a := Fresh.not ha3 hnp hPa
      have hrl5 : Rep H (Fresh st3 P) st5 (.inner lk lh ls ll (.inner rk rh rs rl rr rver) lver) left :=
        Rep.ext H hrl4 he5 (fun x hx e => hnotF3 (e ▸ hx))
      have hrl5' := hrl5
      obtain ⟨_, cleft, hcleft, hlk, hlhh, hlh0, hlss, _, hsll5, hslr5, _, _⟩ := hrl5
      obtain ⟨st6, nl, lo, cnl, hrot6, he6, hc6, hrep6, hlen6, hnl6, hnp6, hh6, hlorep⟩ :=
        rotateLeft_spec H (ver := lver) version hc5 hcleft hlk hlhh hlh0 hlss hsll5 hslr5
      have ha6 : st6.heap[a]? = some c5 := he6.cells a c5 trivial ha5
      -- a.leftNode := nl
      let c7 : Cell := { c5 with leftPtr := some nl }
      let st7 := st6.write a c7
      have he7 : ExtOn (· ≠ a) st6 st7 := write_ext ha6 c7 rfl
      have ha7 : st7.heap[a]? = some c7 := write_same ha6 c7
      have hc7 : CacheOK st7 := by
        refine CacheOK.ext hc6 he7 (fun x cx hx hp e => ?_) (fun _ _ h => h)
        subst e; rw [ha6] at hx; cases hx; rw [hnp] at hp; cases hp
      let P7 : Addr → Prop := Fresh st5 (Fresh st3 P)
      have hnotP7 : ¬ P7 a := Fresh.not ha5 hnp hnotF3
      have hrep7 : Rep H P7 st7 (Node.rotateLeft version (.inner lk lh ls ll (.inner rk rh rs rl rr rver) lver)) nl :=
        Rep.ext H hrep6 he7 (fun x hx e => hnotP7 (e ▸ hx))
      have he07 : ExtOn (· ≠ a) st st7 :=
        ((((he03.trans he4).on _).trans he5).trans (he6.on _)).trans he7
      have hr7 : Slot H P7 st7 r c7.rightPtr c7.rightHash :=
        Slot.mono H (Slot.ext H hr he07 hPne) (fun _ _ hx _ => Or.inl (Or.inl hx))
      have hl7 : Slot H P7 st7 (Node.rotateLeft version (.inner lk lh ls ll (.inner rk rh rs rl rr rver) lver))
          c7.leftPtr c7.leftHash := ⟨hrep7, Or.inl rfl⟩
      obtain ⟨st8, n, o, cn, hrot8, he8, hc8, hrep8, hlen8, hn8, hnp8, hh8, horep⟩ :=
        rotateRight_spec H (ver := ver) version hc7 ha7 hk hh h0 hs hl7 hr7
      have hvleft : Valid st8 left := by
        have h6 := Rep.ext H hrl5' he6 (fun _ _ => trivial)
        have h7 := Rep.ext H h6 he7 (fun x hx e => hnotF3 (e ▸ hx))
        exact Rep.valid H (Rep.ext H h7 he8 (fun _ _ => trivial))
      have hvlo : Valid st8 lo := by
        have h7 := Rep.ext H hlorep he7 (fun x hx e => hnotP7 (e ▸ hx))
        exact Rep.valid H (Rep.ext H h7 he8 (fun _ _ => trivial))
      refine ⟨st8, n, orphans ++ [left, lo, o], cn, ?_, he07.trans (he8.on _), hc8, ?_, hn8, hnp8, hh8,
        Or.inr (Nat.le_trans he07.len hlen8), ⟨_, rfl, fun x hx => ?_⟩⟩
      rotate_left 2
      · simp only [List.mem_cons, List.mem_nil_iff, or_false] at hx
        rcases hx with rfl | rfl | rfl
        · exact hvleft
        · exact hvlo
        · exact Rep.valid H horep
      · have e5 : st4.modify a (fun c => { c with leftHash := none }) = some st5 := modify_eq ha4 _
        have e7 : st6.modify a (fun c => { c with leftPtr := some nl }) = some st7 := modify_eq ha6 _
        simp only [balance, ha, hnp, hb1, hg2, hb3, hg4, e5, hrot6, e7, hrot8, Option.bind_eq_bind, Option.bind_some,
          Bool.false_eq_true, if_false, if_pos hb, if_neg hlb]
      · have : Node.balance version (.inner k h s (.inner lk lh ls ll (.inner rk rh rs rl rr rver) lver) r ver)
            = Node.rotateRight version (.inner k h s
                (Node.rotateLeft version (.inner lk lh ls ll (.inner rk rh rs rl rr rver) lver)) r ver) := by
          have hlb' : ¬ (Node.inner lk lh ls ll (.inner rk rh rs rl rr rver) lver).calcBalance ≥ 0 := hlb
          rw [Node.balance_eq, if_pos hb, if_neg hlb']
        rw [this]
        refine Rep.mono H hrep8 (fun x _ hx _ => Or.inl ?_)
        exact Fresh.of_ext he07 (fun y hy => Fresh.of_ext ((he03.trans he4).on (· ≠ a) |>.trans he5)
          (fun z hz => Fresh.of_ext he03 (fun _ hw => Or.inl hw) hz) hy) hx
  · by_cases hb2 : (l.height : Int) - (r.height : Int) < -1
    · -- right heavy: r is an inner node
      have hrh : r.height ≠ 0 := by intro e; rw [e] at hb2; omega
      obtain ⟨rk, rh, rs, rl, rr, rver, rfl⟩ := Node.height_pos_inner hrh
      obtain ⟨st2, rp, hg2, he2, hc2, hrr2⟩ := getRight_spec H hc1 ha1 hr1
      obtain ⟨_, cr, hcr, _, _, _, _, _, hsrl, hsrr, _, _⟩ := hrr2
      obtain ⟨st3, hb3, he3, hc3⟩ := calcBalance_spec H hc2 hcr hsrl hsrr
      have he03 : Ext st st3 := (he1.trans he2).trans he3
      have ha3 : st3.heap[a]? = some c := he03.cells a c trivial ha
      have hl3 : Slot H P st3 l c.leftPtr c.leftHash := Slot.ext H hl he03 (fun _ _ => trivial)
      have hr3 : Slot H P st3 (.inner rk rh rs rl rr rver) c.rightPtr c.rightHash := Slot.ext H hr he03 (fun _ _ => trivial)
      by_cases hrb : (rl.height : Int) - (rr.height : Int) ≤ 0
      · -- right-right: single left rotation
        obtain ⟨st4, n, o, cn, hrot, he4, hc4, hrep, hlen, hn4, hnp4, hh4, horep⟩ :=
          rotateLeft_spec H (ver := ver) version hc3 ha3 hk hh h0 hs hl3 hr3
        refine ⟨st4, n, orphans ++ [o], cn, ?_, (he03.trans he4).on _, hc4, ?_, hn4, hnp4, hh4,
          Or.inr (Nat.le_trans he03.len hlen), ⟨_, rfl, fun x hx => ?_⟩⟩
        rotate_left 2
        · rw [List.mem_singleton.mp hx]; exact Rep.valid H horep
        · simp only [balance, ha, hnp, hb1, hg2, hb3, hrot, Option.bind_eq_bind, Option.bind_some, Bool.false_eq_true,
            if_false, if_neg hb, if_pos hb2, if_pos hrb]
        · have : Node.balance version (.inner k h s l (.inner rk rh rs rl rr rver) ver)
              = Node.rotateLeft version (.inner k h s l (.inner rk rh rs rl rr rver) ver) := by
            have hrb' : (Node.inner rk rh rs rl rr rver).calcBalance ≤ 0 := hrb
            rw [Node.balance_eq, if_neg hb, if_pos hb2, if_pos hrb']
          rw [this]
          exact Rep.mono H hrep (fun x _ hx _ => Or.inl (Fresh.of_ext he03 (fun _ hy => Or.inl hy) hx))
      · -- right-left: rotate the right child right, then rotate left
        have hrlh : rl.height ≠ 0 := by intro e; rw [e] at hrb; omega
        obtain ⟨lk, lh, ls, ll, lr, lver, rfl⟩ := Node.height_pos_inner hrlh
        obtain ⟨st4, right, hg4, he4, hc4, hrr4⟩ := getRight_spec H hc3 ha3 hr3
        have ha4 : st4.heap[a]? = some c := he4.cells a c trivial ha3
        let c5 : Cell := { c with rightHash := none }
        let st5 := st4.write a c5
        have he5 : ExtOn (· ≠ a) st4 st5 := write_ext ha4 c5 rfl
        have ha5 : st5.heap[a]? = some c5 := write_same ha4 c5
        have hc5 : CacheOK st5 := by
          refine CacheOK.ext hc4 he5 (fun x cx hx hp e => ?_) (fun _ _ h => h)
          subst e; rw [ha4] at hx; cases hx; rw [hnp] at hp; cases hp
        have hnotF3 : ¬ Fresh st3 P a := Fresh.not ha3 hnp hPa
        have hrr5 : Rep H (Fresh st3 P) st5 (.inner rk rh rs (.inner lk lh ls ll lr lver) rr rver) right :=
          Rep.ext H hrr4 he5 (fun x hx e => hnotF3 (e ▸ hx))
        have hrr5' := hrr5
        obtain ⟨_, cright, hcright, hrk, hrhh, hrh0, hrss, _, hsrl5, hsrr5, _, _⟩ := hrr5
        obtain ⟨st6, nr, ro, cnr, hrot6, he6, hc6, hrep6, hlen6, hnr6, hnp6, hh6, hrorep⟩ :=
          rotateRight_spec H (ver := rver) version hc5 hcright hrk hrhh hrh0 hrss hsrl5 hsrr5
        have ha6 : st6.heap[a]? = some c5 := he6.cells a c5 trivial ha5
        let c7 : Cell := { c5 with rightPtr := some nr }
        let st7 := st6.write a c7
        have he7 : ExtOn (· ≠ a) st6 st7 := write_ext ha6 c7 rfl
        have ha7 : st7.heap[a]? = some c7 := write_same ha6 c7
        have hc7 : CacheOK st7 := by
          refine CacheOK.ext hc6 he7 (fun x cx hx hp e => ?_) (fun _ _ h => h)
          subst e; rw [ha6] at hx; cases hx; rw [hnp] at hp; cases hp
        let P7 : Addr → Prop := Fresh st5 (Fresh st3 P)
        have hnotP7 : ¬ P7 a := Fresh.not ha5 hnp hnotF3
        have hrep7 : Rep H P7 st7 (Node.rotateRight version (.inner rk rh rs (.inner lk lh ls ll lr lver) rr rver)) nr :=
          Rep.ext H hrep6 he7 (fun x hx e => hnotP7 (e ▸ hx))
        have he07 : ExtOn (· ≠ a) st st7 :=
          ((((he03.trans he4).on _).trans he5).trans (he6.on _)).trans he7
        have hl7 : Slot H P7 st7 l c7.leftPtr c7.leftHash :=
          Slot.mono H (Slot.ext H hl he07 hPne) (fun _ _ hx _ => Or.inl (Or.inl hx))
        have hr7 : Slot H P7 st7 (Node.rotateRight version (.inner rk rh rs (.inner lk lh ls ll lr lver) rr rver))
            c7.rightPtr c7.rightHash := ⟨hrep7, Or.inl rfl⟩
        obtain ⟨st8, n, o, cn, hrot8, he8, hc8, hrep8, hlen8, hn8, hnp8, hh8, horep⟩ :=
          rotateLeft_spec H (ver := ver) version hc7 ha7 hk hh h0 hs hl7 hr7
        have hvright : Valid st8 right := by
          have h6 := Rep.ext H hrr5' he6 (fun _ _ => trivial)
          have h7 := Rep.ext H h6 he7 (fun x hx e => hnotF3 (e ▸ hx))
          exact Rep.valid H (Rep.ext H h7 he8 (fun _ _ => trivial))
        have hvro : Valid st8 ro := by
          have h7 := Rep.ext H hrorep he7 (fun x hx e => hnotP7 (e ▸ hx))
          exact Rep.valid H (Rep.ext H h7 he8 (fun _ _ => trivial))
        refine ⟨st8, n, orphans ++ [right, o, ro], cn, ?_, he07.trans (he8.on _), hc8, ?_, hn8, hnp8, hh8,
          Or.inr (Nat.le_trans he07.len hlen8), ⟨_, rfl, fun x hx => ?_⟩⟩
        rotate_left 2
        · simp only [List.mem_cons, List.mem_nil_iff, or_false] at hx
          rcases hx with rfl | rfl | rfl
          · exact hvright
          · exact Rep.valid H horep
          · exact hvro
        · have e5 : st4.modify a (fun c => { c with rightHash := none }) = some st5 := modify_eq ha4 _
          have e7 : st6.modify a (fun c => { c with rightPtr := some nr }) = some st7 := modify_eq ha6 _
          simp only [balance, ha, hnp, hb1, hg2, hb3, hg4, e5, hrot6, e7, hrot8, Option.bind_eq_bind, Option.bind_some,
            Bool.false_eq_true, if_false, if_neg hb, if_pos hb2, if_neg hrb]
        · have : Node.balance version (.inner k h s l (.inner rk rh rs (.inner lk lh ls ll lr lver) rr rver) ver)
              = Node.rotateLeft version (.inner k h s l
                  (Node.rotateRight version (.inner rk rh rs (.inner lk lh ls ll lr lver) rr rver)) ver) := by
            have hrb' : ¬ (Node.inner rk rh rs (.inner lk lh ls ll lr lver) rr rver).calcBalance ≤ 0 := hrb
            rw [Node.balance_eq, if_neg hb, if_pos hb2, if_neg hrb']
          rw [this]
          refine Rep.mono H hrep8 (fun x _ hx _ => Or.inl ?_)
          exact Fresh.of_ext he07 (fun y hy => Fresh.of_ext ((he03.trans he4).on (· ≠ a) |>.trans he5)
            (fun z hz => Fresh.of_ext he03 (fun _ hw => Or.inl hw) hz) hy) hx
    · -- balanced: the node itself
      refine ⟨st1, a, orphans, c, ?_, he1.on _, hc1, ?_, ha1, hnp, hhash, Or.inl rfl, ⟨[], by simp, fun _ hx => by cases hx⟩⟩
      · simp only [balance, ha, hnp, hb1, Option.bind_eq_bind, Option.bind_some, Bool.false_eq_true,
          if_false, if_neg hb, if_neg hb2]
      · rw [Node.balance_eq, if_neg hb, if_neg hb2]
        refine Rep.mk_inner H (Or.inr rfl) ha1 hk hh h0 hs hv ?_ ?_ hhash hnp
        · exact Slot.mono H hl1 (fun _ _ hx _ => Or.inl (Or.inl hx))
        · exact Slot.mono H hr1 (fun _ _ hx _ => Or.inl (Or.inl hx))

end Iavl.Heap
