import Proofs.Store.IavlReads
/-!
# IAVL: the public invariant `Inv`, its proof form `Ord ∧ Shape`, and the decidable monitor
-/
namespace Iavl.Node
open Iavl.KVs

theorem bst_keyOK_iff_ord (t : Node) : (BST t ∧ KeyOK t) ↔ Ord t := by
  induction t with
  | leaf k v ver => simp [BST, KeyOK, Ord]
  | inner k h s l r ver ihl ihr =>
    constructor
    · rintro ⟨⟨bl, br, hlt, _⟩, kl, kr, hk⟩
      exact ⟨ihl.mp ⟨bl, kl⟩, ihr.mp ⟨br, kr⟩, hlt, hk⟩
    · intro ho
      have hge := ho.right_ge
      obtain ⟨ol, or_, hlt, hk⟩ := ho
      have ⟨bl, kl⟩ := ihl.mpr ol
      have ⟨br, kr⟩ := ihr.mpr or_
      exact ⟨⟨bl, br, hlt, hge⟩, kl, kr, hk⟩

theorem shape_iff (t : Node) : (Balanced t ∧ SizeOK t ∧ HeightOK t) ↔ Shape t := by
  induction t with
  | leaf k v ver => simp [Balanced, SizeOK, HeightOK, Shape]
  | inner k h s l r ver ihl ihr =>
    constructor
    · rintro ⟨⟨bl, br, b1, b2⟩, ⟨sl, sr, hs⟩, hl, hr, hh⟩
      exact ⟨ihl.mp ⟨bl, sl, hl⟩, ihr.mp ⟨br, sr, hr⟩, hh, hs, b1, b2⟩
    · rintro ⟨shl, shr, hh, hs, b1, b2⟩
      have ⟨bl, sl, hl⟩ := ihl.mpr shl
      have ⟨br, sr, hr⟩ := ihr.mpr shr
      exact ⟨⟨bl, br, b1, b2⟩, ⟨sl, sr, hs⟩, hl, hr, hh⟩

/-- The public invariant is the conjunction of the two proof invariants. -/
theorem inv_iff (t : Node) : Inv t ↔ Ord t ∧ Shape t := by
  unfold Inv
  rw [← bst_keyOK_iff_ord, ← shape_iff]
  constructor
  · rintro ⟨a, b, c, d, e⟩; exact ⟨⟨a, b⟩, c, d, e⟩
  · rintro ⟨⟨a, b⟩, c, d, e⟩; exact ⟨a, b, c, d, e⟩

theorem Inv.ord {t : Node} (h : Inv t) : Ord t := ((inv_iff t).mp h).1
theorem Inv.shape {t : Node} (h : Inv t) : Shape t := ((inv_iff t).mp h).2

/-! ### the monitor -/

theorem maxKey_mem (t : Node) : ∃ v, (maxKey t, v) ∈ toList t := by
  induction t with
  | leaf k v ver => exact ⟨v, by simp [toList, maxKey]⟩
  | inner k h s l r ver _ ihr =>
    obtain ⟨v, hv⟩ := ihr
    exact ⟨v, by simp [toList, maxKey, hv]⟩

theorem Ord.le_max {t : Node} (h : Ord t) : ∀ p ∈ toList t, p.1 ≤ maxKey t := by
  induction t with
  | leaf k v ver =>
    intro p hp
    simp [toList] at hp
    subst hp
    exact Bytes.le_refl _
  | inner k hh s l r ver ihl ihr =>
    have hge := h.right_ge
    obtain ⟨_, hr, hlt, _⟩ := h
    intro p hp
    simp only [toList, List.mem_append] at hp
    simp only [maxKey]
    rcases hp with hp | hp
    · obtain ⟨w, hw⟩ := maxKey_mem r
      exact Bytes.le_of_lt (Bytes.lt_of_lt_of_le (hlt p hp) (hge _ hw))
    · exact ihr hr p hp

theorem check_sound (t : Node) (a b : Bytes) (h : check t = some (a, b)) :
    Ord t ∧ Shape t ∧ a = minKey t ∧ b = maxKey t := by
  induction t generalizing a b with
  | leaf k v ver =>
    simp only [check, Option.some.injEq, Prod.mk.injEq] at h
    exact ⟨trivial, trivial, h.1.symm, h.2.symm⟩
  | inner k hh s l r ver ihl ihr =>
    simp only [check] at h
    split at h
    · rename_i lmin lmax rmin rmax hcl hcr
      split at h
      · rename_i hc
        obtain ⟨c1, c2, c3, c4, c5, c6⟩ := hc
        simp only [Option.some.injEq, Prod.mk.injEq] at h
        obtain ⟨ol, sl, el1, el2⟩ := ihl _ _ hcl
        obtain ⟨or_, sr, er1, er2⟩ := ihr _ _ hcr
        refine ⟨⟨ol, or_, ?_, ?_⟩, ⟨sl, sr, c3, c4, c5, c6⟩, ?_, ?_⟩
        · intro p hp
          exact Bytes.lt_of_le_of_lt (ol.le_max p hp) (el2 ▸ c1)
        · rw [c2, er1]
        · simp only [minKey]; rw [← h.1, el1]
        · simp only [maxKey]; rw [← h.2, er2]
      · simp at h
    · simp at h

theorem check_complete (t : Node) (ho : Ord t) (hs : Shape t) : check t = some (minKey t, maxKey t) := by
  induction t with
  | leaf k v ver => rfl
  | inner k hh s l r ver ihl ihr =>
    obtain ⟨ol, or_, hlt, hk⟩ := ho
    obtain ⟨sl, sr, c3, c4, c5, c6⟩ := hs
    simp only [check, ihl ol sl, ihr or_ sr, minKey, maxKey]
    obtain ⟨w, hw⟩ := maxKey_mem l
    have : maxKey l < k := hlt _ hw
    rw [if_pos ⟨this, hk, c3, c4, c5, c6⟩]

/-- The runtime monitor decides the invariant. -/
theorem checkInv_iff (t : Node) : checkInv t = true ↔ Inv t := by
  rw [inv_iff]
  unfold checkInv
  constructor
  · intro h
    cases hc : check t with
    | none => simp [hc] at h
    | some p =>
      obtain ⟨a, b⟩ := p
      have := check_sound t a b hc
      exact ⟨this.1, this.2.1⟩
  · rintro ⟨ho, hs⟩
    simp [check_complete t ho hs]

end Iavl.Node

namespace Iavl

theorem checkRoot_iff (r : Option Node) : checkRoot r = true ↔ RootInv r := by
  cases r with
  | none => simp [checkRoot, RootInv]
  | some n => exact Node.checkInv_iff n

end Iavl
