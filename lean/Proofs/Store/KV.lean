import PocketModel.Store.KV
import Proofs.Basic.Bytes
/-!
# Lemmas about the abstract KV store (`PocketModel/Store/KV.lean`)

* association lists: `get_set`, `get_del`, `set_sorted`, `del_sorted`, `ext` (two strictly
  ascending lists with the same lookups are equal), `get_filter`, `get_reverse`, …
* `KVSpec O inv view`: the statement "the implementation `O : KVOps σ` behaves, on states that
  satisfy `inv`, exactly like the specification store `view s`" — the interface theorem that
  cachekv (C01) and prefix (C02) both assume of their parent and prove of themselves, so that
  arbitrary towers of wraps compose.
-/

namespace Assoc
variable {β : Type}

theorem sorted_nil : Sorted ([] : Assoc β) := List.Pairwise.nil

theorem sorted_cons {a : Bytes × β} {m : Assoc β} :
    Sorted (a :: m) ↔ (∀ x ∈ m, a.1 < x.1) ∧ Sorted m := List.pairwise_cons

theorem Sorted.tail {a : Bytes × β} {m : Assoc β} (h : Sorted (a :: m)) : Sorted m :=
  (sorted_cons.mp h).2

theorem Sorted.head_lt {a : Bytes × β} {m : Assoc β} (h : Sorted (a :: m)) :
    ∀ x ∈ m, a.1 < x.1 := (sorted_cons.mp h).1

@[simp] theorem get_nil (k : Bytes) : get ([] : Assoc β) k = none := rfl

theorem get_cons (a : Bytes) (b : β) (m : Assoc β) (k : Bytes) :
    get ((a, b) :: m) k = if k = a then some b else get m k := rfl

theorem mem_of_get {m : Assoc β} {k : Bytes} {v : β} (h : get m k = some v) : (k, v) ∈ m := by
  induction m with
  | nil => simp at h
  | cons a m ih =>
    obtain ⟨a, b⟩ := a
    rw [get_cons] at h
    by_cases e : k = a
    · rw [if_pos e] at h; cases h; subst e; exact List.mem_cons_self
    · rw [if_neg e] at h; exact List.mem_cons_of_mem _ (ih h)

theorem get_eq_none_of_lt {m : Assoc β} {k : Bytes} (h : ∀ x ∈ m, k < x.1) : get m k = none := by
  induction m with
  | nil => rfl
  | cons a m ih =>
    obtain ⟨a, b⟩ := a
    rw [get_cons, if_neg (Bytes.ne_of_lt (h (a, b) List.mem_cons_self))]
    exact ih fun x hx => h x (List.mem_cons_of_mem _ hx)

theorem get_of_mem {m : Assoc β} (hs : Sorted m) {k : Bytes} {v : β} (h : (k, v) ∈ m) :
    get m k = some v := by
  induction m with
  | nil => simp at h
  | cons a m ih =>
    obtain ⟨a, b⟩ := a
    rw [get_cons]
    rcases List.mem_cons.mp h with e | e
    · cases e; simp
    · have hlt := hs.head_lt _ e
      rw [if_neg (fun e' => Bytes.lt_irrefl a (by simpa [e'] using hlt))]
      exact ih hs.tail e

theorem get_eq_some_iff {m : Assoc β} (hs : Sorted m) {k : Bytes} {v : β} :
    get m k = some v ↔ (k, v) ∈ m := ⟨mem_of_get, get_of_mem hs⟩

theorem get_eq_none_iff {m : Assoc β} {k : Bytes} : get m k = none ↔ ∀ x ∈ m, x.1 ≠ k := by
  induction m with
  | nil => simp
  | cons a m ih =>
    obtain ⟨a, b⟩ := a
    rw [get_cons]
    by_cases e : k = a
    · subst e; simp
    · rw [if_neg e, ih]
      constructor
      · intro h x hx
        rcases List.mem_cons.mp hx with rfl | hx
        · exact fun e' => e e'.symm
        · exact h x hx
      · intro h x hx; exact h x (List.mem_cons_of_mem _ hx)

theorem get_isSome_iff {m : Assoc β} {k : Bytes} : (get m k).isSome ↔ k ∈ keys m := by
  cases h : get m k with
  | none =>
    simp only [Option.isSome_none, Bool.false_eq_true, false_iff, keys, List.mem_map, not_exists, not_and]
    exact fun x hx => get_eq_none_iff.mp h x hx
  | some v =>
    simp only [Option.isSome_some, true_iff, keys, List.mem_map]
    exact ⟨(k, v), mem_of_get h, rfl⟩

/-- Lookup after insert-or-replace (holds for every list). -/
theorem get_set (m : Assoc β) (k : Bytes) (v : β) (k' : Bytes) :
    get (set m k v) k' = if k' = k then some v else get m k' := by
  induction m with
  | nil => simp [set, get_cons]
  | cons a m ih =>
    obtain ⟨a, b⟩ := a
    unfold set
    by_cases h1 : k < a
    · rw [if_pos h1, get_cons]
    · rw [if_neg h1]
      by_cases h2 : k = a
      · rw [if_pos h2, get_cons, get_cons]; subst h2
        by_cases h3 : k' = k <;> simp [h3]
      · rw [if_neg h2, get_cons, ih, get_cons]
        by_cases h3 : k' = a
        · subst h3; simp [Ne.symm h2]
        · simp [h3]

theorem mem_set {m : Assoc β} {k : Bytes} {v : β} {x : Bytes × β} (h : x ∈ set m k v) :
    x = (k, v) ∨ x ∈ m := by
  induction m with
  | nil => simp [set] at h; exact Or.inl h
  | cons a m ih =>
    obtain ⟨a, b⟩ := a
    unfold set at h
    by_cases h1 : k < a
    · rw [if_pos h1] at h
      rcases List.mem_cons.mp h with e | e
      · exact Or.inl e
      · exact Or.inr e
    · rw [if_neg h1] at h
      by_cases h2 : k = a
      · rw [if_pos h2] at h
        rcases List.mem_cons.mp h with e | e
        · exact Or.inl e
        · exact Or.inr (List.mem_cons_of_mem _ e)
      · rw [if_neg h2] at h
        rcases List.mem_cons.mp h with e | e
        · exact Or.inr (e ▸ List.mem_cons_self)
        · rcases ih e with e | e
          · exact Or.inl e
          · exact Or.inr (List.mem_cons_of_mem _ e)

theorem set_sorted {m : Assoc β} (hs : Sorted m) (k : Bytes) (v : β) : Sorted (set m k v) := by
  induction m with
  | nil => simp [set, Sorted]
  | cons a m ih =>
    obtain ⟨a, b⟩ := a
    unfold set
    by_cases h1 : k < a
    · rw [if_pos h1]
      refine sorted_cons.mpr ⟨?_, hs⟩
      intro x hx
      rcases List.mem_cons.mp hx with rfl | hx
      · exact h1
      · exact Bytes.lt_trans h1 (hs.head_lt x hx)
    · rw [if_neg h1]
      by_cases h2 : k = a
      · rw [if_pos h2]; subst h2
        exact sorted_cons.mpr ⟨hs.head_lt, hs.tail⟩
      · rw [if_neg h2]
        refine sorted_cons.mpr ⟨?_, ih hs.tail⟩
        intro x hx
        rcases mem_set hx with rfl | hx
        · rcases Bytes.lt_tri a k with h | h | h
          · exact h
          · exact absurd h.symm h2
          · exact absurd h h1
        · exact hs.head_lt x hx

theorem mem_del {m : Assoc β} {k : Bytes} {x : Bytes × β} (h : x ∈ del m k) : x ∈ m := by
  induction m with
  | nil => simp [del] at h
  | cons a m ih =>
    obtain ⟨a, b⟩ := a
    unfold del at h
    by_cases h1 : k = a
    · rw [if_pos h1] at h; exact List.mem_cons_of_mem _ h
    · rw [if_neg h1] at h
      rcases List.mem_cons.mp h with e | e
      · exact e ▸ List.mem_cons_self
      · exact List.mem_cons_of_mem _ (ih e)

theorem del_sorted {m : Assoc β} (hs : Sorted m) (k : Bytes) : Sorted (del m k) := by
  induction m with
  | nil => simp [del, Sorted]
  | cons a m ih =>
    obtain ⟨a, b⟩ := a
    unfold del
    by_cases h1 : k = a
    · rw [if_pos h1]; exact hs.tail
    · rw [if_neg h1]
      exact sorted_cons.mpr ⟨fun x hx => hs.head_lt x (mem_del hx), ih hs.tail⟩

/-- Lookup after delete (needs unique keys). -/
theorem get_del {m : Assoc β} (hs : Sorted m) (k k' : Bytes) :
    get (del m k) k' = if k' = k then none else get m k' := by
  induction m with
  | nil => simp [del]
  | cons a m ih =>
    obtain ⟨a, b⟩ := a
    unfold del
    by_cases h1 : k = a
    · rw [if_pos h1, get_cons]; subst h1
      by_cases h3 : k' = k
      · rw [if_pos h3, h3]; exact get_eq_none_of_lt hs.head_lt
      · rw [if_neg h3, if_neg h3]
    · rw [if_neg h1, get_cons, get_cons, ih hs.tail]
      by_cases h3 : k' = a
      · subst h3; simp [Ne.symm h1]
      · simp [h3]

/-- Two strictly ascending lists with the same lookups are the same list. -/
theorem ext {a b : Assoc β} (ha : Sorted a) (hb : Sorted b) (h : ∀ k, get a k = get b k) : a = b := by
  induction a generalizing b with
  | nil =>
    cases b with
    | nil => rfl
    | cons y b =>
      obtain ⟨yk, yv⟩ := y
      have := h yk
      rw [get_cons, if_pos rfl] at this
      simp at this
  | cons x a ih =>
    obtain ⟨xk, xv⟩ := x
    cases b with
    | nil =>
      have := h xk
      rw [get_cons, if_pos rfl] at this
      simp at this
    | cons y b =>
      obtain ⟨yk, yv⟩ := y
      have hx := h xk
      have hy := h yk
      rw [get_cons, if_pos rfl, get_cons] at hx
      rw [get_cons, get_cons, if_pos rfl] at hy
      have hk : xk = yk := by
        rcases Bytes.lt_tri xk yk with h1 | h1 | h1
        · rw [if_neg (Bytes.ne_of_lt h1)] at hx
          have := mem_of_get hx.symm
          exact absurd (hb.head_lt _ this) (Bytes.lt_asymm h1)
        · exact h1
        · rw [if_neg (Bytes.ne_of_lt h1)] at hy
          have := mem_of_get hy
          exact absurd (ha.head_lt _ this) (Bytes.lt_asymm h1)
      subst hk
      rw [if_pos rfl] at hx
      cases hx
      congr 1
      apply ih ha.tail hb.tail
      intro k
      have hk := h k
      rw [get_cons, get_cons] at hk
      by_cases e : k = xk
      · subst e
        rw [get_eq_none_of_lt ha.head_lt, get_eq_none_of_lt hb.head_lt]
      · rwa [if_neg e, if_neg e] at hk

/-- Lookup in a list filtered by a predicate on keys. -/
theorem get_filter (m : Assoc β) (f : Bytes → Bool) (k : Bytes) :
    get (m.filter (fun p => f p.1)) k = if f k then get m k else none := by
  induction m with
  | nil => simp
  | cons a m ih =>
    obtain ⟨a, b⟩ := a
    by_cases hf : f a
    · rw [List.filter_cons_of_pos (by simpa using hf), get_cons, get_cons, ih]
      by_cases e : k = a
      · subst e; simp [hf]
      · simp [e]
    · rw [List.filter_cons_of_neg (by simpa using hf), ih, get_cons]
      by_cases e : k = a
      · subst e; simp [hf]
      · simp [e]

theorem filter_sorted {m : Assoc β} (hs : Sorted m) (f : Bytes × β → Bool) : Sorted (m.filter f) :=
  List.Pairwise.filter f hs

/-- Lookup in the reversed list (unique keys). -/
theorem get_reverse {m : Assoc β} (hs : Sorted m) (k : Bytes) : get m.reverse k = get m k := by
  cases h : get m k with
  | none =>
    rw [get_eq_none_iff] at h ⊢
    intro x hx; exact h x (List.mem_reverse.mp hx)
  | some v =>
    have hm := mem_of_get h
    -- reversed list is strictly descending: still unique keys
    have key : ∀ (l : Assoc β), l.Pairwise (fun a b => b.1 < a.1) → (k, v) ∈ l → get l k = some v := by
      intro l hl hmem
      induction l with
      | nil => simp at hmem
      | cons a l ih =>
        obtain ⟨a, b⟩ := a
        rw [get_cons]
        rcases List.mem_cons.mp hmem with e | e
        · cases e; simp
        · have hlt := (List.pairwise_cons.mp hl).1 _ e
          rw [if_neg (Bytes.ne_of_lt hlt)]
          exact ih (List.pairwise_cons.mp hl).2 e
    exact key _ (List.pairwise_reverse.mpr hs) (List.mem_reverse.mpr hm)

theorem keys_lt_of_sorted_append {l r : Assoc β} (h : Sorted (l ++ r)) :
    ∀ x ∈ l, ∀ y ∈ r, x.1 < y.1 := (List.pairwise_append.mp h).2.2

end Assoc

/-! ## Domains and ranges -/

theorem inDomain_iff (k : Bytes) (s e : Option Bytes) :
    inDomain k s e = true ↔ (∀ a, s = some a → a ≤ k) ∧ (∀ b, e = some b → k < b) := by
  unfold inDomain
  cases s <;> cases e <;> simp

namespace KV

theorem range_sorted {m : KV} (hs : Assoc.Sorted m) (s e : Option Bytes) : Assoc.Sorted (range m s e) :=
  Assoc.filter_sorted hs _

theorem get_range (m : KV) (s e : Option Bytes) (k : Bytes) :
    Assoc.get (range m s e) k = if inDomain k s e then Assoc.get m k else none :=
  Assoc.get_filter m (fun k => inDomain k s e) k

@[simp] theorem order_true {α : Type} (l : List α) : order true l = l := rfl
@[simp] theorem order_false {α : Type} (l : List α) : order false l = l.reverse := rfl

theorem order_map {α γ : Type} (asc : Bool) (f : α → γ) (l : List α) :
    order asc (l.map f) = (order asc l).map f := by
  cases asc <;> simp [order]

theorem order_filter {α : Type} (asc : Bool) (f : α → Bool) (l : List α) :
    order asc (l.filter f) = (order asc l).filter f := by
  cases asc <;> simp [order, List.filter_reverse]

theorem mem_order {α : Type} (asc : Bool) (l : List α) (x : α) : x ∈ order asc l ↔ x ∈ l := by
  cases asc <;> simp [order]

/-- A full iteration lists the store itself. -/
theorem iter_full (m : KV) : iter m true none none = m := by
  simp [iter, range, inDomain]

end KV

/-! ## The interface theorem -/

/-- `KVSpec O inv view`: on every state satisfying the representation invariant `inv`, each
operation of `O` returns what the specification store `view s` returns, moves the view as the
specification does, and re-establishes `inv`.  (Reads may change the *state* — caches — but never
the view.) -/
structure KVSpec {σ : Type} (O : KVOps σ) (inv : σ → Prop) (view : σ → KV) : Prop where
  sorted : ∀ s, inv s → Assoc.Sorted (view s)
  get_inv : ∀ s k, inv s → inv (O.get s k).1
  get_view : ∀ s k, inv s → view (O.get s k).1 = view s
  get_val : ∀ s k, inv s → (O.get s k).2 = Assoc.get (view s) k
  has_inv : ∀ s k, inv s → inv (O.has s k).1
  has_view : ∀ s k, inv s → view (O.has s k).1 = view s
  has_val : ∀ s k, inv s → (O.has s k).2 = (Assoc.get (view s) k).isSome
  set_inv : ∀ s k v, inv s → inv (O.set s k v)
  set_view : ∀ s k v, inv s → view (O.set s k v) = Assoc.set (view s) k v
  del_inv : ∀ s k, inv s → inv (O.del s k)
  del_view : ∀ s k, inv s → view (O.del s k) = Assoc.del (view s) k
  iter_inv : ∀ s asc st e, inv s → inv (O.iter s asc st e).1
  iter_view : ∀ s asc st e, inv s → view (O.iter s asc st e).1 = view s
  iter_val : ∀ s asc st e, inv s → (O.iter s asc st e).2 = KV.iter (view s) asc st e

/-- The specification store satisfies its own interface (root of every tower). -/
theorem KV.ops_spec : KVSpec KV.ops Assoc.Sorted id where
  sorted _ h := h
  get_inv _ _ h := h
  get_view _ _ _ := rfl
  get_val _ _ _ := rfl
  has_inv _ _ h := h
  has_view _ _ _ := rfl
  has_val _ _ _ := rfl
  set_inv _ k v h := Assoc.set_sorted h k v
  set_view _ _ _ _ := rfl
  del_inv _ k h := Assoc.del_sorted h k
  del_view _ _ _ := rfl
  iter_inv _ _ _ _ h := h
  iter_view _ _ _ _ _ := rfl
  iter_val _ _ _ _ _ := rfl

namespace KVSpec
variable {σ : Type} {O : KVOps σ} {inv : σ → Prop} {view : σ → KV}

/-- One call: same observation as the specification store, views stay related. -/
theorem step_refines (P : KVSpec O inv view) (s : σ) (h : inv s) (op : KVOp) :
    inv (O.step s op).1 ∧ view (O.step s op).1 = (KV.ops.step (view s) op).1 ∧
      (O.step s op).2 = (KV.ops.step (view s) op).2 := by
  cases op with
  | get k => exact ⟨P.get_inv s k h, P.get_view s k h, by simp [KVOps.step, P.get_val s k h, KV.ops]⟩
  | has k => exact ⟨P.has_inv s k h, P.has_view s k h, by simp [KVOps.step, P.has_val s k h, KV.ops]⟩
  | set k v => exact ⟨P.set_inv s k v h, P.set_view s k v h, rfl⟩
  | del k => exact ⟨P.del_inv s k h, P.del_view s k h, rfl⟩
  | iter asc st e =>
    exact ⟨P.iter_inv s asc st e h, P.iter_view s asc st e h, by simp [KVOps.step, P.iter_val s asc st e h, KV.ops]⟩

/-- **Every history**: an implementation satisfying `KVSpec` produces, on any list of calls, the
observations of the specification store started from its view, and ends in a state whose view is
the specification's final store. -/
theorem run_refines (P : KVSpec O inv view) (s : σ) (h : inv s) (ops : List KVOp) :
    inv (O.run s ops).1 ∧ view (O.run s ops).1 = (KV.ops.run (view s) ops).1 ∧
      (O.run s ops).2 = (KV.ops.run (view s) ops).2 := by
  induction ops generalizing s with
  | nil => exact ⟨h, rfl, rfl⟩
  | cons op ops ih =>
    obtain ⟨h1, h2, h3⟩ := P.step_refines s h op
    obtain ⟨i1, i2, i3⟩ := ih (O.step s op).1 h1
    refine ⟨i1, ?_, ?_⟩
    · simp only [KVOps.run]; rw [i2, h2]
    · simp only [KVOps.run]; rw [i3, h2, h3]

end KVSpec
