import PocketModel.Store.IavlHeap
/-!
# IAVL on the heap: representation predicate, frames, node cache (C09 stage B)

`Rep P st t a`: in state `st` the object at address `a` *represents* the pure tree `t`
(`Iavl.Node`), every heap object visited satisfies `P` (the footprint), memoised hashes are the
Merkle hashes of the represented subtrees, persisted objects have no child pointers and their
record is in the DB, and children that are not held by pointer are in the DB under the child hash.
`Rep` is the relational form of the abstraction function `Iavl.Heap.abs`
(`abs_of_rep` / `rep_functional` in `IavlHeapAbs.lean`).
-/
namespace Iavl.Heap
open Iavl

variable (H : HashIn → Hash)

/-- Merkle hash of a pure tree (what `hashWithCount` computes on a faithful representation). -/
def treeHash : Node → Hash
  | .leaf k v ver => H (.leaf 0 1 ver k v)
  | .inner _ h s l r ver => H (.inner h s ver (treeHash l) (treeHash r))

/-- The DB record of the root of a pure tree. -/
def storedOf : Node → Stored
  | .leaf k v ver =>
    { key := k, value := some v, height := 0, size := 1, version := ver, leftHash := none, rightHash := none }
  | .inner k h s l r ver =>
    { key := k, value := none, height := h, size := s, version := ver,
      leftHash := some (treeHash H l), rightHash := some (treeHash H r) }

/-- The whole tree is in the DB, every node under its Merkle hash. -/
def InDB (db : Hash → Option Stored) : Node → Prop
  | .leaf k v ver => db (treeHash H (.leaf k v ver)) = some (storedOf H (.leaf k v ver))
  | .inner k h s l r ver =>
    h ≠ 0 ∧ db (treeHash H (.inner k h s l r ver)) = some (storedOf H (.inner k h s l r ver)) ∧
    InDB db l ∧ InDB db r

/-- A child slot `(pointer, hash)` of an object: either the pointer is set and the target
represents the child (`R`) and the hash field is empty or right; or there is no pointer, the hash is
the child's and the child is in the DB. -/
def ChildOK (R : Addr → Prop) (th : Hash) (indb : Prop) (ptr : Option Addr) (hash : Option Hash) : Prop :=
  match ptr with
  | some p => R p ∧ (hash = none ∨ hash = some th)
  | none => hash = some th ∧ indb

/-- `Rep P st t a`, see the file header. -/
def Rep (P : Addr → Prop) (st : St) : Node → Addr → Prop
  | .leaf k v ver, a =>
    P a ∧ ∃ c, st.heap[a]? = some c ∧ c.key = k ∧ c.value = some v ∧ c.height = 0 ∧ c.size = 1 ∧
      c.version = ver ∧ c.leftPtr = none ∧ c.rightPtr = none ∧
      (c.hash = none ∨ c.hash = some (treeHash H (.leaf k v ver))) ∧
      (c.persisted = true → c.hash = some (treeHash H (.leaf k v ver)) ∧
        st.db (treeHash H (.leaf k v ver)) = some (storedOf H (.leaf k v ver)))
  | .inner k h s l r ver, a =>
    P a ∧ ∃ c, st.heap[a]? = some c ∧ c.key = k ∧ c.height = h ∧ h ≠ 0 ∧ c.size = s ∧ c.version = ver ∧
      ChildOK (Rep P st l) (treeHash H l) (InDB H st.db l) c.leftPtr c.leftHash ∧
      ChildOK (Rep P st r) (treeHash H r) (InDB H st.db r) c.rightPtr c.rightHash ∧
      (c.hash = none ∨ c.hash = some (treeHash H (.inner k h s l r ver))) ∧
      (c.persisted = true → c.hash = some (treeHash H (.inner k h s l r ver)) ∧
        c.leftPtr = none ∧ c.rightPtr = none ∧
        st.db (treeHash H (.inner k h s l r ver)) = some (storedOf H (.inner k h s l r ver)))

/-- `Rep` of an optional root. -/
def RepRoot (P : Addr → Prop) (st : St) : Option Node → Option Addr → Prop
  | none, none => True
  | some t, some a => Rep H P st t a
  | _, _ => False

/-- Structural depth of a pure tree (the fuel the heap recursions need). -/
def depth : Node → Nat
  | .leaf .. => 0
  | .inner _ _ _ l r _ => max (depth l) (depth r) + 1

/-! ## Frames -/

/-- `st'` extends `st`: every object satisfying `K` that exists in `st` is unchanged, nothing is
freed, no object changes its `persisted` flag, DB / root records / cache size are the same (the
node cache may differ). -/
structure ExtOn (K : Addr → Prop) (st st' : St) : Prop where
  cells : ∀ a c, K a → st.heap[a]? = some c → st'.heap[a]? = some c
  pers : ∀ (a : Addr) (c c' : Cell), st.heap[a]? = some c → st'.heap[a]? = some c' → c'.persisted = c.persisted
  len : st.heap.length ≤ st'.heap.length
  db : st'.db = st.db
  roots : st'.roots = st.roots
  csize : st'.cacheSize = st.cacheSize

abbrev Ext (st st' : St) : Prop := ExtOn (fun _ => True) st st'

theorem ExtOn.refl (K : Addr → Prop) (st : St) : ExtOn K st st :=
  ⟨fun _ _ _ h => h, fun _ _ _ h h' => by rw [h] at h'; cases h'; rfl, Nat.le_refl _, rfl, rfl, rfl⟩

theorem lt_of_get {st : St} {a : Addr} {c : Cell} (h : st.heap[a]? = some c) : a < st.heap.length := by
  rcases Nat.lt_or_ge a st.heap.length with h' | h'
  · exact h'
  · rw [List.getElem?_eq_none h'] at h; cases h

theorem get_of_lt {st : St} {a : Addr} (h : a < st.heap.length) : ∃ c, st.heap[a]? = some c :=
  ⟨st.heap[a], List.getElem?_eq_getElem h⟩

theorem ExtOn.trans {K : Addr → Prop} {st st1 st2 : St} (h1 : ExtOn K st st1) (h2 : ExtOn K st1 st2) :
    ExtOn K st st2 :=
  ⟨fun a c hk h => h2.cells a c hk (h1.cells a c hk h),
    fun a c c' h h' => by
      obtain ⟨c1, hc1⟩ := get_of_lt (Nat.lt_of_lt_of_le (lt_of_get h) h1.len)
      rw [h2.pers a c1 c' hc1 h', h1.pers a c c1 h hc1],
    Nat.le_trans h1.len h2.len,
    h2.db.trans h1.db, h2.roots.trans h1.roots, h2.csize.trans h1.csize⟩

theorem ExtOn.mono {K K' : Addr → Prop} {st st' : St} (h : ExtOn K st st') (hk : ∀ a, K' a → K a) :
    ExtOn K' st st' :=
  ⟨fun a c hk' hc => h.cells a c (hk a hk') hc, h.pers, h.len, h.db, h.roots, h.csize⟩

theorem Ext.on {st st' : St} (h : Ext st st') (K : Addr → Prop) : ExtOn K st st' :=
  h.mono (fun _ _ => trivial)

theorem InDB.mono {db db' : Hash → Option Stored} (hsub : ∀ k s, db k = some s → db' k = some s) :
    ∀ {t : Node}, InDB H db t → InDB H db' t
  | .leaf .., h => hsub _ _ h
  | .inner .., ⟨h0, h1, h2, h3⟩ => ⟨h0, hsub _ _ h1, InDB.mono hsub h2, InDB.mono hsub h3⟩

theorem ChildOK.imp {R R' : Addr → Prop} {th : Hash} {indb indb' : Prop} {ptr : Option Addr} {hash : Option Hash}
    (hR : ∀ p, R p → R' p) (hi : indb → indb') (h : ChildOK R th indb ptr hash) : ChildOK R' th indb' ptr hash := by
  cases ptr with
  | none => exact ⟨h.1, hi h.2⟩
  | some p => exact ⟨hR p h.1, h.2⟩

/-- The general frame rule: a representation survives any change that leaves the objects of its
footprint alone, keeps (extends) the DB, and the footprint predicate may be replaced by anything
implied on existing objects. -/
theorem Rep.frame {P P' : Addr → Prop} {st st' : St}
    (hcells : ∀ x c, P x → st.heap[x]? = some c → st'.heap[x]? = some c)
    (hdb : ∀ k s, st.db k = some s → st'.db k = some s)
    (hP : ∀ x c, P x → st.heap[x]? = some c → P' x) :
    ∀ {t : Node} {a : Addr}, Rep H P st t a → Rep H P' st' t a
  | .leaf k v ver, a, ⟨hp, c, hc, h⟩ => by
    obtain ⟨h1, h2, h3, h4, h5, h6, h7, h8, h9⟩ := h
    exact ⟨hP a c hp hc, c, hcells a c hp hc, h1, h2, h3, h4, h5, h6, h7, h8,
      fun hpers => ⟨(h9 hpers).1, hdb _ _ (h9 hpers).2⟩⟩
  | .inner k h s l r ver, a, ⟨hp, c, hc, hrest⟩ => by
    obtain ⟨h1, h2, h3, h4, h5, hl, hr, h8, h9⟩ := hrest
    refine ⟨hP a c hp hc, c, hcells a c hp hc, h1, h2, h3, h4, h5, ?_, ?_, h8, ?_⟩
    · exact hl.imp (fun p hp => Rep.frame hcells hdb hP hp) (InDB.mono H hdb)
    · exact hr.imp (fun p hp => Rep.frame hcells hdb hP hp) (InDB.mono H hdb)
    · intro hpers
      obtain ⟨e1, e2, e3, e4⟩ := h9 hpers
      exact ⟨e1, e2, e3, hdb _ _ e4⟩

theorem Rep.ext {P K : Addr → Prop} {st st' : St} {t : Node} {a : Addr} (h : Rep H P st t a)
    (hext : ExtOn K st st') (hk : ∀ x, P x → K x) : Rep H P st' t a :=
  Rep.frame H (fun x c hp hc => hext.cells x c (hk x hp) hc) (fun k s hs => by rw [hext.db]; exact hs)
    (fun _ _ hp _ => hp) h

theorem Rep.mono {P P' : Addr → Prop} {st : St} {t : Node} {a : Addr} (h : Rep H P st t a)
    (hP : ∀ x c, P x → st.heap[x]? = some c → P' x) : Rep H P' st t a :=
  Rep.frame H (fun _ _ _ hc => hc) (fun _ _ hs => hs) hP h

/-- The root object of a representation. -/
theorem Rep.cell {P : Addr → Prop} {st : St} {t : Node} {a : Addr} (h : Rep H P st t a) :
    P a ∧ ∃ c, st.heap[a]? = some c ∧ c.key = t.key ∧ c.height = t.height ∧ c.size = t.size ∧
      c.version = t.version ∧ (c.height = 0 ↔ ∃ k v ver, t = .leaf k v ver) ∧
      (c.hash = none ∨ c.hash = some (treeHash H t)) ∧
      (c.persisted = true → c.hash = some (treeHash H t) ∧ c.leftPtr = none ∧ c.rightPtr = none ∧
        st.db (treeHash H t) = some (storedOf H t)) := by
  cases t with
  | leaf k v ver =>
    obtain ⟨hp, c, hc, h1, h2, h3, h4, h5, h6, h7, h8, h9⟩ := h
    exact ⟨hp, c, hc, h1, h3, h4, h5, ⟨fun _ => ⟨k, v, ver, rfl⟩, fun _ => h3⟩, h8,
      fun hpers => ⟨(h9 hpers).1, h6, h7, (h9 hpers).2⟩⟩
  | inner k hh s l r ver =>
    obtain ⟨hp, c, hc, h1, h2, h3, h4, h5, _, _, h8, h9⟩ := h
    refine ⟨hp, c, hc, h1, h2, h4, h5, ⟨fun h0 => absurd (h2 ▸ h0) h3, fun ⟨_, _, _, e⟩ => by cases e⟩, h8, h9⟩

/-- A persisted representation is entirely in the DB. -/
theorem Rep.inDB_of_persisted {P : Addr → Prop} {st : St} :
    ∀ {t : Node} {a : Addr} {c : Cell}, Rep H P st t a → st.heap[a]? = some c → c.persisted = true →
      InDB H st.db t
  | .leaf k v ver, a, c, ⟨_, c', hc', h⟩, hc, hpers => by
    have : c' = c := by rw [hc] at hc'; exact (Option.some.inj hc').symm
    subst this
    exact (h.2.2.2.2.2.2.2.2 hpers).2
  | .inner k hh s l r ver, a, c, ⟨_, c', hc', h⟩, hc, hpers => by
    have : c' = c := by rw [hc] at hc'; exact (Option.some.inj hc').symm
    subst this
    obtain ⟨_, _, h3, _, _, hl, hr, _, h9⟩ := h
    obtain ⟨_, e2, e3, e4⟩ := h9 hpers
    rw [e2] at hl; rw [e3] at hr
    exact ⟨h3, e4, hl.2, hr.2⟩

end Iavl.Heap

namespace Iavl.Heap
open Iavl
variable (H : HashIn → Hash)

/-! ## Heap primitives -/

theorem alloc_old (st : St) (c : Cell) {a : Addr} {c' : Cell} (h : st.heap[a]? = some c') :
    (st.alloc c).1.heap[a]? = some c' := by
  simp only [St.alloc, List.getElem?_append_left (lt_of_get h), h]

theorem alloc_new (st : St) (c : Cell) : (st.alloc c).1.heap[(st.alloc c).2]? = some c := by
  simp [St.alloc]

theorem alloc_len (st : St) (c : Cell) : (st.alloc c).1.heap.length = st.heap.length + 1 := by
  simp [St.alloc]

theorem alloc_ext (st : St) (c : Cell) : Ext st (st.alloc c).1 :=
  ⟨fun _ _ _ h => alloc_old st c h,
    fun a c0 c' h h' => by rw [alloc_old st c h] at h'; cases h'; rfl,
    by rw [alloc_len]; exact Nat.le_succ _, rfl, rfl, rfl⟩

theorem write_same {st : St} {a : Addr} {c0 : Cell} (h : st.heap[a]? = some c0) (c : Cell) :
    (st.write a c).heap[a]? = some c := by
  simp [St.write, List.getElem?_set, lt_of_get h]

theorem write_other (st : St) {a b : Addr} (c : Cell) (h : b ≠ a) :
    (st.write a c).heap[b]? = st.heap[b]? := by
  simp [St.write, List.getElem?_set, Ne.symm h]

theorem write_len (st : St) (a : Addr) (c : Cell) : (st.write a c).heap.length = st.heap.length := by
  simp [St.write]

/-- An in-place write that keeps the `persisted` flag. -/
theorem write_ext {st : St} {a : Addr} {c0 : Cell} (h0 : st.heap[a]? = some c0) (c : Cell)
    (hp : c.persisted = c0.persisted) : ExtOn (· ≠ a) st (st.write a c) :=
  ⟨fun b _ hb h => by rw [write_other st c hb]; exact h,
    fun b cb cb' h h' => by
      by_cases hb : b = a
      · subst hb
        rw [write_same h0] at h'; rw [h0] at h
        cases h; cases h'; exact hp
      · rw [write_other st c hb, h] at h'; cases h'; rfl,
    by rw [write_len]; exact Nat.le_refl _, rfl, rfl, rfl⟩

theorem modify_eq {st : St} {a : Addr} {c : Cell} (h : st.heap[a]? = some c) (f : Cell → Cell) :
    st.modify a f = some (st.write a (f c)) := by
  simp [St.modify, h]

/-! ## The node cache -/

/-- Every cache entry is a persisted object without child pointers whose hash is the cache key and
whose content is the DB record under that hash. -/
def CacheOK (st : St) : Prop :=
  ∀ hh a, st.cmap hh = some a → ∃ c, st.heap[a]? = some c ∧ c.persisted = true ∧ c.hash = some hh ∧
    c.leftPtr = none ∧ c.rightPtr = none ∧ st.db hh = some (Stored.ofCell c)

theorem CacheOK.transfer {st st' : St} (h : CacheOK st)
    (hcells : ∀ (x : Addr) (c : Cell), st.heap[x]? = some c → c.persisted = true → st'.heap[x]? = some c)
    (hdb : ∀ k s, st.db k = some s → st'.db k = some s)
    (hmap : ∀ hh a, st'.cmap hh = some a → st.cmap hh = some a) : CacheOK st' := by
  intro hh a hm
  obtain ⟨c, hc, hp, h1, h2, h3, h4⟩ := h hh a (hmap hh a hm)
  exact ⟨c, hcells a c hc hp, hp, h1, h2, h3, hdb _ _ h4⟩

theorem cacheNode_heap (st : St) (hh : Hash) (a : Addr) : (cacheNode st hh a).heap = st.heap := by
  unfold cacheNode; dsimp only; split
  · split <;> rfl
  · rfl

theorem cacheNode_db (st : St) (hh : Hash) (a : Addr) : (cacheNode st hh a).db = st.db := by
  unfold cacheNode; dsimp only; split
  · split <;> rfl
  · rfl

theorem cacheNode_roots (st : St) (hh : Hash) (a : Addr) : (cacheNode st hh a).roots = st.roots := by
  unfold cacheNode; dsimp only; split
  · split <;> rfl
  · rfl

theorem cacheNode_csize (st : St) (hh : Hash) (a : Addr) : (cacheNode st hh a).cacheSize = st.cacheSize := by
  unfold cacheNode; dsimp only; split
  · split <;> rfl
  · rfl

/-- Whatever the LRU eviction does, the new map holds old entries and possibly the new one. -/
theorem cacheNode_cmap (st : St) (hh : Hash) (a : Addr) (x : Hash) (b : Addr)
    (h : (cacheNode st hh a).cmap x = some b) : (x = hh ∧ b = a) ∨ st.cmap x = some b := by
  have key : ∀ (m : Hash → Option Addr), m = (fun y => if y = hh then some a else st.cmap y) →
      m x = some b → (x = hh ∧ b = a) ∨ st.cmap x = some b := by
    intro m hm hmx
    subst hm
    by_cases hx : x = hh
    · simp [hx] at hmx; exact Or.inl ⟨hx, hmx.symm⟩
    · simp [hx] at hmx; exact Or.inr hmx
  unfold cacheNode at h; dsimp only at h
  split at h
  · split at h
    · exact key _ rfl h
    · dsimp only at h
      split at h
      · cases h
      · exact key _ rfl h
  · exact key _ rfl h

theorem cacheNode_ext (st : St) (hh : Hash) (a : Addr) : Ext st (cacheNode st hh a) :=
  ⟨fun _ _ _ h => by rw [cacheNode_heap]; exact h,
    fun _ _ _ h h' => by rw [cacheNode_heap, h] at h'; cases h'; rfl,
    by rw [cacheNode_heap]; exact Nat.le_refl _,
    cacheNode_db st hh a, cacheNode_roots st hh a, cacheNode_csize st hh a⟩

theorem cacheNode_ok {st : St} {hh : Hash} {a : Addr} {c : Cell} (h : CacheOK st)
    (hc : st.heap[a]? = some c) (hp : c.persisted = true) (hh' : c.hash = some hh)
    (hl : c.leftPtr = none) (hr : c.rightPtr = none) (hdb : st.db hh = some (Stored.ofCell c)) :
    CacheOK (cacheNode st hh a) := by
  intro x b hm
  rw [cacheNode_heap, cacheNode_db]
  rcases cacheNode_cmap st hh a x b hm with ⟨rfl, rfl⟩ | hold
  · exact ⟨c, hc, hp, hh', hl, hr, hdb⟩
  · exact h x b hold

/-- Under an extension the cache invariant survives if the map did not grow. -/
theorem CacheOK.ext {K : Addr → Prop} {st st' : St} (h : CacheOK st) (hext : ExtOn K st st')
    (hK : ∀ x c, st.heap[x]? = some c → c.persisted = true → K x)
    (hmap : ∀ hh a, st'.cmap hh = some a → st.cmap hh = some a) : CacheOK st' :=
  CacheOK.transfer h (fun x c hc hp => hext.cells x c (hK x c hc hp) hc) (fun k s hs => by rw [hext.db]; exact hs) hmap

/-- Footprint after an operation started in `st`: what was in the footprint, what the operation
allocated, and objects that were already persisted (cache hits). -/
def Fresh (st : St) (P : Addr → Prop) : Addr → Prop :=
  fun x => P x ∨ st.heap.length ≤ x ∨ ∃ c, st.heap[x]? = some c ∧ c.persisted = true

theorem Fresh.base {st : St} {P : Addr → Prop} {x : Addr} (h : P x) : Fresh st P x := Or.inl h

theorem Fresh.trans {st st1 : St} {P : Addr → Prop} {K : Addr → Prop} (hext : ExtOn K st st1) {x : Addr}
    (h : Fresh st1 (Fresh st P) x) : Fresh st P x := by
  rcases h with h | h | ⟨c, hc, hp⟩
  · exact h
  · exact Or.inr (Or.inl (Nat.le_trans hext.len h))
  · rcases Nat.lt_or_ge x st.heap.length with hlt | hge
    · obtain ⟨c0, hc0⟩ := get_of_lt hlt
      exact Or.inr (Or.inr ⟨c0, hc0, by rw [← hext.pers x c0 c hc0 hc]; exact hp⟩)
    · exact Or.inr (Or.inl hge)

/-- An existing unpersisted object outside `P` is outside `Fresh st P`. -/
theorem Fresh.not {st : St} {P : Addr → Prop} {n : Addr} {c : Cell} (hc : st.heap[n]? = some c)
    (hnp : c.persisted = false) (hP : ¬ P n) : ¬ Fresh st P n := by
  rintro (h | h | ⟨c', hc', hp⟩)
  · exact hP h
  · exact absurd (lt_of_get hc) (Nat.not_lt.mpr h)
  · rw [hc] at hc'; cases hc'; rw [hnp] at hp; cases hp

/-! ## `GetNode`, `getLeftNode`, `getRightNode` -/

theorem getNode_spec {st : St} {t : Node} (hc : CacheOK st) (hdb : InDB H st.db t) :
    ∃ st' a, getNode st (treeHash H t) = some (st', a) ∧ Ext st st' ∧ CacheOK st' ∧
      (st.heap.length ≤ a ∨ ∃ c, st.heap[a]? = some c ∧ c.persisted = true) ∧
      ∀ P : Addr → Prop, P a → Rep H P st' t a := by
  have hrec : st.db (treeHash H t) = some (storedOf H t) := by
    cases t with
    | leaf => exact hdb
    | inner => exact hdb.2.1
  -- a persisted pointer-free object whose record is `storedOf t` represents `t`
  have repOf : ∀ (st' : St) (a : Addr) (c : Cell), st'.db = st.db → st'.heap[a]? = some c →
      c.persisted = true → c.hash = some (treeHash H t) → c.leftPtr = none → c.rightPtr = none →
      Stored.ofCell c = storedOf H t → ∀ P : Addr → Prop, P a → Rep H P st' t a := by
    intro st' a c hdb' hca hp hh hl hr hs P hPa
    cases t with
    | leaf k v ver =>
      have h0 : c.height = 0 := by
        by_cases h0 : c.height = 0
        · exact h0
        · simp [Stored.ofCell, h0, storedOf] at hs
      simp [Stored.ofCell, h0, storedOf] at hs
      refine ⟨hPa, c, hca, hs.1, hs.2.1, h0, hs.2.2.1, hs.2.2.2, hl, hr, Or.inr hh, fun _ => ⟨hh, ?_⟩⟩
      rw [hdb']; exact hrec
    | inner k h s l r ver =>
      have hne : h ≠ 0 := hdb.1
      have h0 : c.height ≠ 0 := by
        intro h0
        simp [Stored.ofCell, h0, storedOf] at hs
      simp [Stored.ofCell, h0, storedOf] at hs
      refine ⟨hPa, c, hca, hs.1, hs.2.1, hne, hs.2.2.1, hs.2.2.2.1, ?_, ?_, Or.inr hh,
        fun _ => ⟨hh, hl, hr, by rw [hdb']; exact hrec⟩⟩
      · rw [hl]; exact ⟨hs.2.2.2.2.1, by rw [hdb']; exact hdb.2.2.1⟩
      · rw [hr]; exact ⟨hs.2.2.2.2.2, by rw [hdb']; exact hdb.2.2.2⟩
  unfold getNode
  cases hm : st.cmap (treeHash H t) with
  | some a =>
    obtain ⟨c, hca, hp, hh, hl, hr, hs⟩ := hc _ a hm
    refine ⟨_, a, rfl, ⟨fun _ _ _ h => h, fun _ _ _ h h' => by rw [h] at h'; cases h'; rfl, Nat.le_refl _, rfl, rfl, rfl⟩,
      ?_, Or.inr ⟨c, hca, hp⟩, ?_⟩
    · exact CacheOK.transfer hc (fun _ _ h _ => h) (fun _ _ h => h) (fun _ _ h => h)
    · rw [hrec] at hs
      exact repOf _ a c rfl hca hp hh hl hr (Option.some.inj hs).symm
  | none =>
    simp only [hrec]
    have hof : Stored.ofCell ((storedOf H t).toCell (treeHash H t)) = storedOf H t := by
      cases t with
      | leaf k v ver => simp [Stored.toCell, Stored.ofCell, storedOf]
      | inner k h s l r ver => simp [Stored.toCell, Stored.ofCell, storedOf, hdb.1]
    let X := (storedOf H t).toCell (treeHash H t)
    have hheap : (cacheNode (st.alloc X).1 (treeHash H t) (st.alloc X).2).heap[(st.alloc X).2]? = some X := by
      rw [cacheNode_heap]; exact alloc_new st X
    refine ⟨cacheNode (st.alloc X).1 (treeHash H t) (st.alloc X).2, (st.alloc X).2, rfl,
      (alloc_ext st _).trans (cacheNode_ext _ _ _), ?_, Or.inl (Nat.le_refl _), ?_⟩
    · have hok1 : CacheOK (st.alloc X).1 :=
        CacheOK.transfer hc (fun _ _ h _ => alloc_old st _ h) (fun _ _ h => h) (fun _ _ h => h)
      refine cacheNode_ok hok1 (alloc_new st X) rfl rfl rfl rfl ?_
      show st.db _ = _
      rw [hrec, hof]
    · intro P hPa
      have hdb' : (cacheNode (st.alloc X).1 (treeHash H t) (st.alloc X).2).db = st.db := cacheNode_db _ _ _
      exact repOf _ _ X hdb' hheap rfl rfl rfl rfl hof P hPa

theorem Fresh.of_ext {st st1 : St} {P P' : Addr → Prop} {K : Addr → Prop} (hext : ExtOn K st st1)
    (hP : ∀ y, P' y → Fresh st P y) {x : Addr} (h : Fresh st1 P' x) : Fresh st P x := by
  rcases h with h | h | ⟨c, hc, hp⟩
  · exact hP x h
  · exact Or.inr (Or.inl (Nat.le_trans hext.len h))
  · rcases Nat.lt_or_ge x st.heap.length with hlt | hge
    · obtain ⟨c0, hc0⟩ := get_of_lt hlt
      exact Or.inr (Or.inr ⟨c0, hc0, by rw [← hext.pers x c0 c hc0 hc]; exact hp⟩)
    · exact Or.inr (Or.inl hge)

/-- The slot type used everywhere: the child `t` behind `(ptr, hash)` in state `st`. -/
abbrev Slot (P : Addr → Prop) (st : St) (t : Node) (ptr : Option Addr) (hash : Option Hash) : Prop :=
  ChildOK (Rep H P st t) (treeHash H t) (InDB H st.db t) ptr hash

theorem Slot.ext {P K : Addr → Prop} {st st' : St} {t : Node} {ptr : Option Addr} {hash : Option Hash}
    (h : Slot H P st t ptr hash) (hext : ExtOn K st st') (hk : ∀ x, P x → K x) : Slot H P st' t ptr hash :=
  ChildOK.imp (fun _ hp => Rep.ext H hp hext hk) (fun hi => by rw [hext.db]; exact hi) h

theorem Slot.mono {P P' : Addr → Prop} {st : St} {t : Node} {ptr : Option Addr} {hash : Option Hash}
    (h : Slot H P st t ptr hash) (hP : ∀ x c, P x → st.heap[x]? = some c → P' x) : Slot H P' st t ptr hash :=
  ChildOK.imp (fun _ hp => Rep.mono H hp hP) id h

theorem getLeft_spec {P : Addr → Prop} {st : St} {a : Addr} {c : Cell} {l : Node}
    (hc : CacheOK st) (ha : st.heap[a]? = some c) (hl : Slot H P st l c.leftPtr c.leftHash) :
    ∃ st' p, getLeft st a = some (st', p) ∧ Ext st st' ∧ CacheOK st' ∧ Rep H (Fresh st P) st' l p := by
  cases hp : c.leftPtr with
  | some p =>
    rw [Slot, hp] at hl
    exact ⟨st, p, by simp [getLeft, ha, hp], ExtOn.refl _ _, hc, Rep.mono H hl.1 (fun _ _ h _ => Or.inl h)⟩
  | none =>
    rw [Slot, hp] at hl
    obtain ⟨hh, hdb⟩ := hl
    obtain ⟨st', p, hg, hext, hc', hfresh, hrep⟩ := getNode_spec H hc hdb
    exact ⟨st', p, by simp [getLeft, ha, hp, hh, hg], hext, hc', hrep _ (Or.inr hfresh)⟩

theorem getRight_spec {P : Addr → Prop} {st : St} {a : Addr} {c : Cell} {r : Node}
    (hc : CacheOK st) (ha : st.heap[a]? = some c) (hr : Slot H P st r c.rightPtr c.rightHash) :
    ∃ st' p, getRight st a = some (st', p) ∧ Ext st st' ∧ CacheOK st' ∧ Rep H (Fresh st P) st' r p := by
  cases hp : c.rightPtr with
  | some p =>
    rw [Slot, hp] at hr
    exact ⟨st, p, by simp [getRight, ha, hp], ExtOn.refl _ _, hc, Rep.mono H hr.1 (fun _ _ h _ => Or.inl h)⟩
  | none =>
    rw [Slot, hp] at hr
    obtain ⟨hh, hdb⟩ := hr
    obtain ⟨st', p, hg, hext, hc', hfresh, hrep⟩ := getNode_spec H hc hdb
    exact ⟨st', p, by simp [getRight, ha, hp, hh, hg], hext, hc', hrep _ (Or.inr hfresh)⟩

/-- Both getters in a row, and the two objects they return. -/
theorem getBoth_spec {P : Addr → Prop} {st : St} {a : Addr} {c : Cell} {l r : Node}
    (hc : CacheOK st) (ha : st.heap[a]? = some c) (hl : Slot H P st l c.leftPtr c.leftHash)
    (hr : Slot H P st r c.rightPtr c.rightHash) :
    ∃ st1 p st2 q cl cr, getLeft st a = some (st1, p) ∧ getRight st1 a = some (st2, q) ∧
      st2.heap[p]? = some cl ∧ st2.heap[q]? = some cr ∧
      cl.height = l.height ∧ cl.size = l.size ∧ cr.height = r.height ∧ cr.size = r.size ∧
      Ext st st2 ∧ CacheOK st2 ∧ Rep H (Fresh st P) st2 l p ∧ Rep H (Fresh st P) st2 r q := by
  obtain ⟨st1, p, hg1, he1, hc1, hrl⟩ := getLeft_spec H hc ha hl
  have ha1 : st1.heap[a]? = some c := he1.cells a c trivial ha
  have hr1 : Slot H P st1 r c.rightPtr c.rightHash := Slot.ext H hr he1 (fun _ _ => trivial)
  obtain ⟨st2, q, hg2, he2, hc2, hrr⟩ := getRight_spec H hc1 ha1 hr1
  have hrl2 : Rep H (Fresh st P) st2 l p := Rep.ext H hrl he2 (fun _ _ => trivial)
  have hrr2 : Rep H (Fresh st P) st2 r q :=
    Rep.mono H hrr (fun x _ hx _ => Fresh.of_ext he1 (fun _ hy => Or.inl hy) hx)
  obtain ⟨_, cl, hcl, _, hlh, hls, _⟩ := Rep.cell H hrl2
  obtain ⟨_, cr, hcr, _, hrh, hrs, _⟩ := Rep.cell H hrr2
  exact ⟨st1, p, st2, q, cl, cr, hg1, hg2, hcl, hcr, hlh, hls, hrh, hrs, he1.trans he2, hc2, hrl2, hrr2⟩

theorem calcBalance_spec {P : Addr → Prop} {st : St} {a : Addr} {c : Cell} {l r : Node}
    (hc : CacheOK st) (ha : st.heap[a]? = some c) (hl : Slot H P st l c.leftPtr c.leftHash)
    (hr : Slot H P st r c.rightPtr c.rightHash) :
    ∃ st', calcBalance st a = some (st', (l.height : Int) - (r.height : Int)) ∧ Ext st st' ∧ CacheOK st' := by
  obtain ⟨st1, p, st2, q, cl, cr, hg1, hg2, hcl, hcr, hlh, _, hrh, _, he, hc2, _, _⟩ := getBoth_spec H hc ha hl hr
  refine ⟨st2, ?_, he, hc2⟩
  simp [calcBalance, hg1, hg2, hcl, hcr, hlh, hrh]

/-- `calcHeightAndSize` on an unpersisted object outside the children's footprint: only that object
changes; its stored height and size become the pure model's. -/
theorem calcHS_spec {P : Addr → Prop} {st : St} {a : Addr} {c : Cell} {l r : Node}
    (hc : CacheOK st) (ha : st.heap[a]? = some c) (hnp : c.persisted = false) (hPa : ¬ P a)
    (hl : Slot H P st l c.leftPtr c.leftHash) (hr : Slot H P st r c.rightPtr c.rightHash) :
    ∃ st', calcHeightAndSize st a = some st' ∧ ExtOn (· ≠ a) st st' ∧ CacheOK st' ∧
      st'.heap[a]? = some { c with height := max l.height r.height + 1, size := l.size + r.size } := by
  obtain ⟨st1, p, st2, q, cl, cr, hg1, hg2, hcl, hcr, hlh, _, hrh, _, he, hc2, _, _⟩ := getBoth_spec H hc ha hl hr
  have ha2 : st2.heap[a]? = some c := he.cells a c trivial ha
  let c' : Cell := { c with height := max l.height r.height + 1 }
  let st3 := st2.write a c'
  have he3 : ExtOn (· ≠ a) st2 st3 := write_ext ha2 c' rfl
  have hPne : ∀ x, P x → x ≠ a := fun x hx e => hPa (e ▸ hx)
  have hc3 : CacheOK st3 := by
    refine CacheOK.ext hc2 he3 (fun x cx hx hp e => ?_) (fun _ _ h => h)
    subst e; rw [ha2] at hx; cases hx; rw [hnp] at hp; cases hp
  have ha3 : st3.heap[a]? = some c' := write_same ha2 c'
  have hl3 : Slot H P st3 l c'.leftPtr c'.leftHash :=
    Slot.ext H (Slot.ext H hl he (fun _ _ => trivial)) he3 hPne
  have hr3 : Slot H P st3 r c'.rightPtr c'.rightHash :=
    Slot.ext H (Slot.ext H hr he (fun _ _ => trivial)) he3 hPne
  obtain ⟨st4, p', st5, q', cl', cr', hg1', hg2', hcl', hcr', _, hls', _, hrs', he', hc5, _, _⟩ :=
    getBoth_spec H hc3 ha3 hl3 hr3
  have ha5 : st5.heap[a]? = some c' := he'.cells a c' trivial ha3
  let c'' : Cell := { c' with size := l.size + r.size }
  have he6 : ExtOn (· ≠ a) st5 (st5.write a c'') := write_ext ha5 c'' rfl
  refine ⟨st5.write a c'', ?_, ?_, ?_, write_same ha5 c''⟩
  · simp only [calcHeightAndSize, hg1, hg2, hcl, hcr, Option.bind_eq_bind, Option.bind_some,
      modify_eq ha2, hlh, hrh]
    show (do
      let (st, l2) ← getLeft st3 a
      let (st, r2) ← getRight st a
      let cl ← st.heap[l2]?
      let cr ← st.heap[r2]?
      st.modify a (fun c => { c with size := cl.size + cr.size })) = _
    simp only [hg1', hg2', hcl', hcr', Option.bind_eq_bind, Option.bind_some, modify_eq ha5, hls', hrs']
    rfl
  · exact (((he.on _).trans he3).trans (he'.on _)).trans he6
  · refine CacheOK.ext hc5 he6 (fun x cx hx hp e => ?_) (fun _ _ h => h)
    subst e; rw [ha5] at hx; cases hx; exact absurd hp (by simp [c', hnp])

end Iavl.Heap
