import Proofs.Store.NodeDB
/-! `DeleteVersionsFrom` / `LoadVersionForOverwriting` on a good disk (C08). -/
set_option linter.unusedSimpArgs false
set_option linter.unusedVariables false
namespace NodeDB
open Amino RootMulti

section rollback
variable {H : Bytes → Bytes}

theorem histAt_take (hist : List (Option Tree)) (h : Nat) (v : Int) :
    histAt (hist.take h) v = if v ≤ h then histAt hist v else none := by
  unfold histAt
  by_cases h1 : 1 ≤ v
  · simp only [h1, if_true]
    by_cases h2 : v ≤ h
    · simp only [h2, if_true]
      have : (v - 1).toNat < h := by omega
      simp only [List.getElem?_take, this, if_true]
    · simp only [h2, if_false]
      apply List.getElem?_eq_none
      simp only [List.length_take]
      omega
  · simp [h1]

theorem mem_take_index {α : Type} {l : List α} {h : Nat} {x : α} (hx : x ∈ l.take h) : ∃ i, i < h ∧ l[i]? = some x := by
  obtain ⟨i, hi⟩ := List.mem_iff_getElem?.mp hx
  rw [List.getElem?_take] at hi
  by_cases hlt : i < h
  · simp [hlt] at hi; exact ⟨i, hlt, hi⟩
  · simp [hlt] at hi

theorem lastOf_take (hist : List (Option Tree)) (h : Nat) (h1 : 1 ≤ h) (h2 : h ≤ hist.length) (r : Option Tree)
    (hr : histAt hist h = some r) : lastOf (hist.take h) = r := by
  unfold lastOf
  rw [List.getLast?_eq_getElem?, List.length_take, List.getElem?_take]
  unfold histAt at hr
  have e1 : (1 : Int) ≤ h := by omega
  simp only [e1, if_true] at hr
  have e2 : ((h : Int) - 1).toNat = h - 1 := by omega
  rw [e2] at hr
  have e3 : min h hist.length - 1 = h - 1 := by omega
  rw [e3]
  have : h - 1 < h := by omega
  simp [this, hr]

/-- `deleteNodesFrom` on a tree that is fully present: it terminates within the height bound and
every hash it marks belongs to a node of that tree whose version is `≥ version`. -/
theorem deleteNodesFrom_spec (hH : HashOK H) (nodes : List (Bytes × Bytes)) (version : Int) (t : Tree) (hwf : t.WF)
    (hp : Present H nodes t) : ∀ fuel : Nat, t.height.toNat < fuel →
      ∃ l, deleteNodesFrom nodes version fuel (hashTree H t) = some l ∧
        ∀ x ∈ l, ∃ s ∈ t.subtrees, hashTree H s = x ∧ version ≤ s.version := by
  induction t with
  | leaf k v ver =>
    intro fuel hf
    cases fuel with
    | zero => omega
    | succ fuel =>
      have h1 := hp _ (Tree.self_mem_subtrees _)
      simp only [deleteNodesFrom, hashTree_ne_nil hH, if_false, h1, Tree.encode]
      rw [makeNode_writeBytes _ (Tree.toRec_WF hH _ hwf)]
      simp only [Tree.toRec, if_true, Option.map_some]
      refine ⟨_, rfl, ?_⟩
      intro x hx
      by_cases hc : ver ≥ version
      · simp only [hc, if_true] at hx
        simp at hx; subst hx
        exact ⟨_, Tree.self_mem_subtrees _, rfl, by simpa [Tree.version] using hc⟩
      · simp only [hc, if_false] at hx; simp at hx
  | inner k hh sz ver l r ihl ihr =>
    intro fuel hf
    cases fuel with
    | zero => omega
    | succ fuel =>
      have h1 := hp _ (Tree.self_mem_subtrees _)
      obtain ⟨_, _, _, _, h5, h6, h7, h8, hwl, hwr⟩ := hwf
      have hwf' : (Tree.inner k hh sz ver l r).WF := ⟨by assumption, by assumption, by assumption, by assumption, h5, h6, h7, h8, hwl, hwr⟩
      have hne : hh ≠ 0 := by omega
      simp only [Tree.height] at hf
      have hl : l ∈ (Tree.inner k hh sz ver l r).subtrees := by simp [Tree.subtrees, Tree.self_mem_subtrees]
      have hr : r ∈ (Tree.inner k hh sz ver l r).subtrees := by simp [Tree.subtrees, Tree.self_mem_subtrees]
      obtain ⟨la, hla, pla⟩ := ihl hwl (hp.sub hl) fuel (by omega)
      obtain ⟨lb, hlb, plb⟩ := ihr hwr (hp.sub hr) fuel (by omega)
      simp only [deleteNodesFrom, hashTree_ne_nil hH, if_false, h1, Tree.encode]
      rw [makeNode_writeBytes _ (Tree.toRec_WF hH _ hwf')]
      simp only [Tree.toRec, hne, if_false, hla, hlb, Option.map_some]
      refine ⟨_, rfl, ?_⟩
      intro x hx
      have sub : x ∈ la ++ lb → ∃ s ∈ (Tree.inner k hh sz ver l r).subtrees, hashTree H s = x ∧ version ≤ s.version := by
        intro hm
        rcases List.mem_append.mp hm with hm | hm
        · obtain ⟨s, hs, e, hv⟩ := pla x hm
          exact ⟨s, by simp [Tree.subtrees, hs], e, hv⟩
        · obtain ⟨s, hs, e, hv⟩ := plb x hm
          exact ⟨s, by simp [Tree.subtrees, hs], e, hv⟩
      by_cases hc : ver ≥ version
      · simp only [hc, if_true] at hx
        rcases List.mem_append.mp hx with hm | hm
        · exact sub hm
        · simp at hm; subst hm
          exact ⟨_, Tree.self_mem_subtrees _, rfl, by simpa [Tree.version] using hc⟩
      · simp only [hc, if_false] at hx; exact sub hx

/-- `DeleteVersionsFrom(h+1)` on a good disk with more than `h` versions: it succeeds and leaves a
good disk for the first `h` versions — no node of any earlier version is lost. -/
theorem deleteVersionsFrom_good (hH : HashOK H) {S : Tree → Prop} (hi : Inj H S) {hist : List (Option Tree)} {t : MTree}
    (g : GoodDisk H S hist t.db) (hok : HistOK S hist) (hlat : t.latest = hist.length) (h : Nat) (hh : h < hist.length) :
    ∃ db', deleteVersionsFrom t ((h : Int) + 1) = some { t with ndbLatest := hist.length, db := db' } ∧
      GoodDisk H S (hist.take h) db' := by
  have hlen : 1 ≤ (hist.length : Int) := by omega
  obtain ⟨last, hlast⟩ := Option.isSome_iff_exists.mp ((histAt_some_iff hist hist.length).mpr ⟨hlen, by omega⟩)
  have hlastmem := histAt_mem hlast
  have hroot : aget (hist.length : Int) t.db.roots = some (hashOpt H last) := by rw [g.roots, hlast]; rfl
  -- the hashes deleted through the latest tree
  have hdead : ∃ dead, deleteNodesFrom t.db.nodes ((h : Int) + 1) (nodeFuel t.db.nodes (hashOpt H last)) (hashOpt H last) = some dead ∧
      ∀ x ∈ dead, ∃ s, S s ∧ hashTree H s = x ∧ (h : Int) + 1 ≤ s.version := by
    cases hl : last with
    | none => exact ⟨[], by simp [hashOpt, deleteNodesFrom, nodeFuel], by simp⟩
    | some tl =>
      subst hl
      have hp := g.present _ hlastmem tl rfl
      have hwf := hok.wf _ hlastmem tl rfl
      have h1 := hp _ (Tree.self_mem_subtrees _)
      simp only [hashOpt, nodeFuel, h1, Tree.encode]
      rw [makeNode_writeBytes _ (Tree.toRec_WF hH _ hwf)]
      simp only [Tree.toRec_height]
      obtain ⟨l, hl, pl⟩ := deleteNodesFrom_spec hH t.db.nodes ((h : Int) + 1) tl hwf hp (tl.height.toNat + 1) (by omega)
      refine ⟨l, hl, ?_⟩
      intro x hx
      obtain ⟨s, hs, e, hv⟩ := pl x hx
      exact ⟨s, hok.inS _ hlastmem tl rfl s hs, e, hv⟩
  obtain ⟨dead, hdel, pdead⟩ := hdead
  unfold deleteVersionsFrom
  simp only [hlat]
  rw [if_neg (by omega)]
  simp only [hroot]
  rw [hdel]
  refine ⟨_, rfl, ?_⟩
  -- what survives
  have keep : ∀ (i : Nat) (u : Tree), i < h → hist[i]? = some (some u) → ∀ s ∈ u.subtrees,
      (!(dead.contains (hashTree H s)) &&
        !(((t.db.orphans.filter fun e => decide (e.1.2.1 ≥ (h : Int) + 1)).map (·.2)).contains (hashTree H s))) = true := by
    intro i u hi' hu s hs
    have hmem : some u ∈ hist := List.mem_of_getElem? hu
    have hsS : S s := hok.inS _ hmem u rfl s hs
    have hsv : s.version ≤ i + 1 := hok.vbound i u hu s hs
    simp only [Bool.and_eq_true, Bool.not_eq_true', ← Bool.not_eq_true]
    constructor
    · intro hc
      obtain ⟨s', hs', e, hv⟩ := pdead _ (List.contains_iff_mem.mp hc)
      have := hi s' s hs' hsS e
      subst this; omega
    · intro hc
      obtain ⟨e, he, hx⟩ := List.mem_map.mp (List.contains_iff_mem.mp hc)
      obtain ⟨he1, he2⟩ := List.mem_filter.mp he
      obtain ⟨o, hoS, ho1, ho2, ho3⟩ := g.orph e he1
      have : hashTree H o = hashTree H s := by rw [ho1, ← ho3, hx]
      have := hi o s hoS hsS this
      subst this
      simp only [decide_eq_true_eq] at he2
      omega
  constructor
  · intro x bz hg
    simp only at hg
    rw [aget_filter (fun k => !(dead.contains k) && !(((t.db.orphans.filter fun e => decide (e.1.2.1 ≥ (h : Int) + 1)).map (·.2)).contains k))] at hg
    split at hg
    · exact g.cons x bz hg
    · cases hg
  · intro v
    simp only
    rw [aget_filter (fun x => !(decide (x ≥ (h : Int) + 1))), histAt_take, g.roots]
    by_cases hv : v ≤ h
    · have : ¬ (v ≥ (h : Int) + 1) := by omega
      simp [hv, this]
    · have : v ≥ (h : Int) + 1 := by omega
      simp [hv, this]
  · intro ot hot u e
    subst e
    obtain ⟨i, hi', hu⟩ := mem_take_index hot
    have hmem : some u ∈ hist := List.mem_of_getElem? hu
    intro s hs
    simp only
    rw [aget_filter (fun k => !(dead.contains k) && !(((t.db.orphans.filter fun e => decide (e.1.2.1 ≥ (h : Int) + 1)).map (·.2)).contains k))]
    rw [if_pos (keep i u hi' hu s hs)]
    exact g.present _ hmem u rfl s hs
  · intro e he
    simp only at he
    exact g.orph e (List.mem_filter.mp he).1

/-- `iavl.Store.Rollback(h)` = `LoadVersionForOverwriting(h)` on a freshly loaded store whose disk
holds the versions `hist` (more than `h` of them, `h ≥ 1`): the result is a good tree for the first
`h` versions, positioned on version `h`. -/
theorem rollback_store_good (hH : HashOK H) {S : Tree → Prop} (hi : Inj H S) {hist : List (Option Tree)} {t : MTree}
    (g : GoodDisk H S hist t.db) (hok : HistOK S hist) (hnl : t.ndbLatest = 0) (h : Nat) (h1 : 1 ≤ h) (hh : h < hist.length) :
    ∃ t' r, loadVersionForOverwriting t h = some (t', (h : Int)) ∧ histAt hist h = some r ∧ t'.root = r ∧
      GoodTree H S (hist.take h) t' := by
  obtain ⟨r, hr, hl⟩ := loadVersion_at hH (t0 := t) g hok h h (by omega) (by omega) (Or.inl rfl)
  let t1 : MTree := { t with version := h, root := r, lastSaved := r, versions := loadedVersions t, persistedTo := h }
  have hlat : t1.latest = hist.length := by
    simp only [MTree.latest, t1, hnl, if_true]
    exact g.latestOnDisk
  obtain ⟨db', hdel, g'⟩ := deleteVersionsFrom_good hH hi (t := t1) g hok hlat h hh
  refine ⟨{ version := h, root := r, lastSaved := r, versions := (loadedVersions t).filter fun v => decide (v ≤ (h : Int)),
             ndbLatest := h, persistedTo := h, db := db' }, r, ?_, hr, rfl, ?_⟩
  · unfold loadVersionForOverwriting
    simp only [hl]
    rw [hdel]
  · constructor
    · exact g'
    · simp [t1]; omega
    · simp only [t1]; exact (lastOf_take hist h h1 (by omega) r hr).symm
    · simp [t1]; omega
    · simp only [MTree.latest, t1]
      have : (h : Int) ≠ 0 := by omega
      simp [this]; omega
    · intro v hv
      simp only [t1, List.mem_filter, decide_eq_true_eq] at hv
      simp; omega

end rollback

/-! ### splitting a legal history -/

theorem GoodSteps.split {S : Tree → Prop} : ∀ (l₁ l₂ : List (Option Tree)) (k : Int) (p : Option Tree),
    GoodSteps S k p (l₁ ++ l₂) →
      GoodSteps S k p l₁ ∧ GoodSteps S (k + l₁.length) (if l₁ = [] then p else lastOf l₁) l₂ := by
  intro l₁
  induction l₁ with
  | nil => intro l₂ k p h; simpa [GoodSteps] using h
  | cons a l ih =>
    intro l₂ k p h
    obtain ⟨h1, h2⟩ := h
    obtain ⟨h3, h4⟩ := ih l₂ (k + 1) a h2
    refine ⟨⟨h1, h3⟩, ?_⟩
    have e : k + 1 + (l.length : Int) = k + ((a :: l).length : Int) := by simp; omega
    rw [e] at h4
    have e2 : (if l = [] then a else lastOf l) = lastOf (a :: l) := by
      cases l with
      | nil => simp [lastOf]
      | cons b l' => simp [lastOf, List.getLast?_cons_cons]
    rw [e2] at h4
    simpa using h4

end NodeDB
