import Proofs.Store.KV
import PocketModel.Store.Prefix
/-!
# Lemmas about the prefix store model (`PocketModel/Store/Prefix.lean`)

* `prefixEnd_cons`: structural reading of the `PrefixEndBytes` loop;
* `prefixEnd_spec`: `p ≤ k` and `k` below the bound (if any) ⇔ `p` is a prefix of `k`;
* `get_view`, `view_sorted`, `iter_eq`: the prefix store's reads/iterators are those of the
  specification store `Prefix.view p m`;
* `ops_spec`: `Prefix.ops O` satisfies `KVSpec` whenever the parent does.
-/
namespace Prefix

/-! ### `PrefixEndBytes` -/

theorem prefixEndRev_append (r : List UInt8) (x : UInt8) :
    prefixEndRev (r ++ [x]) = match prefixEndRev r with
      | some e => some (e ++ [x])
      | none => if x ≠ 255 then some [x + 1] else none := by
  induction r with
  | nil => simp [prefixEndRev]
  | cons y r ih =>
    simp only [List.cons_append, prefixEndRev]
    by_cases h : y ≠ 255
    · simp [h]
    · rw [if_neg h, if_neg h, ih]

/-- Reading the loop from the front: the bound of `x :: xs` keeps `x` when `xs` has a bound;
otherwise (`xs` empty or all `0xFF`) it is `[x+1]`, or nothing when `x` is `0xFF` too. -/
theorem prefixEnd_cons (x : UInt8) (xs : Bytes) :
    prefixEnd (x :: xs) = match prefixEnd xs with
      | some e => some (x :: e)
      | none => if x ≠ 255 then some [x + 1] else none := by
  unfold prefixEnd
  rw [List.reverse_cons, prefixEndRev_append]
  cases prefixEndRev xs.reverse with
  | none => simp; split <;> simp_all
  | some e => simp

@[simp] theorem prefixEnd_nil : prefixEnd [] = none := rfl

theorem u8_lt_succ {x y : UInt8} (h : x ≠ 255) : y < x + 1 ↔ y ≤ x := by
  rw [UInt8.lt_iff_toNat_lt, UInt8.le_iff_toNat_le, UInt8.toNat_add]
  have : x.toNat ≠ 255 := fun e => h (UInt8.toNat_inj.mp (by simpa using e))
  have := x.toNat_lt
  simp; omega

theorem u8_le_max (y : UInt8) : y ≤ 255 := by
  rw [UInt8.le_iff_toNat_le]; have := y.toNat_lt; simp; omega

theorem not_cons_le_nil (x : UInt8) (xs : Bytes) : ¬ (x :: xs ≤ []) := by simp

/-- **`PrefixEndBytes` is exact**: `k` lies in `[p, prefixEnd p)` (no upper bound when
`prefixEnd p` is nil) iff `p` is a prefix of `k`.  Holds for every `p`, including empty and
all-`0xFF` prefixes. -/
theorem prefixEnd_spec (p k : Bytes) :
    (p ≤ k ∧ ∀ e, prefixEnd p = some e → k < e) ↔ p <+: k := by
  induction p generalizing k with
  | nil => simp
  | cons x xs ih =>
    cases k with
    | nil => simp
    | cons y ys =>
      rw [List.cons_le_cons_iff, List.cons_prefix_cons, prefixEnd_cons]
      cases hpe : prefixEnd xs with
      | some e' =>
        simp only [Option.some.injEq, forall_eq']
        rw [List.cons_lt_cons_iff, ← ih ys, hpe]
        simp only [Option.some.injEq, forall_eq']
        constructor
        · rintro ⟨h1 | ⟨h1, h1'⟩, h2 | ⟨h2, h2'⟩⟩
          · exact absurd h2 (UInt8.lt_asymm h1)
          · subst h2; exact absurd h1 (UInt8.lt_irrefl _)
          · subst h1; exact absurd h2 (UInt8.lt_irrefl _)
          · exact ⟨h1, h1', h2'⟩
        · rintro ⟨rfl, h1, h2⟩
          exact ⟨Or.inr ⟨rfl, h1⟩, Or.inr ⟨rfl, h2⟩⟩
      | none =>
        have ih' : xs ≤ ys ↔ xs <+: ys := by
          rw [← ih ys, hpe]; simp
        by_cases hx : x ≠ 255
        · simp only [if_pos hx, Option.some.injEq, forall_eq']
          rw [List.cons_lt_cons_iff, u8_lt_succ hx, ← ih']
          constructor
          · rintro ⟨h1 | ⟨h1, h1'⟩, h2 | ⟨_, h2'⟩⟩
            · exact absurd (UInt8.lt_of_lt_of_le h1 h2) (UInt8.lt_irrefl _)
            · exact absurd h2' (List.not_lt_nil _)
            · exact ⟨h1, h1'⟩
            · exact ⟨h1, h1'⟩
          · rintro ⟨rfl, h1⟩
            exact ⟨Or.inr ⟨rfl, h1⟩, Or.inl (UInt8.le_refl _)⟩
        · have hx' : x = 255 := by simpa using hx
          simp only [if_neg hx, reduceCtorEq, false_imp_iff, implies_true, and_true]
          rw [← ih']
          constructor
          · rintro (h1 | h1)
            · subst hx'
              exact absurd (UInt8.lt_of_lt_of_le h1 (u8_le_max y)) (UInt8.lt_irrefl _)
            · exact h1
          · exact fun h => Or.inr h

/-! ### Prefixed keys -/

theorem hasPrefix_iff (p k : Bytes) : hasPrefix p k = true ↔ p <+: k := List.isPrefixOf_iff_prefix

@[simp] theorem hasPrefix_append (p t : Bytes) : hasPrefix p (p ++ t) = true :=
  (hasPrefix_iff _ _).mpr (List.prefix_append p t)

@[simp] theorem strip_append (p t : Bytes) : strip p (p ++ t) = t := by simp [strip]

theorem eq_append_strip {p k : Bytes} (h : hasPrefix p k = true) : k = p ++ strip p k := by
  obtain ⟨t, rfl⟩ := (hasPrefix_iff _ _).mp h
  simp

theorem append_lt_append_left (p a b : Bytes) : p ++ a < p ++ b ↔ a < b := by
  induction p with
  | nil => simp
  | cons x xs ih =>
    simp only [List.cons_append, List.cons_lt_cons_iff, ih]
    constructor
    · rintro (h | h)
      · exact absurd h (UInt8.lt_irrefl _)
      · exact h.2
    · exact fun h => Or.inr (by simpa using h)

theorem append_le_append_left (p a b : Bytes) : p ++ a ≤ p ++ b ↔ a ≤ b := by
  rw [← Bytes.not_lt, ← Bytes.not_lt, append_lt_append_left]

theorem le_append (p t : Bytes) : p ≤ p ++ t := by
  have := (append_le_append_left p [] t).mpr (List.nil_le t)
  simpa using this

/-- A key between `p` and `p ++ t` carries the prefix `p`. -/
theorem prefix_of_between {p k t : Bytes} (h1 : p ≤ k) (h2 : k < p ++ t) : p <+: k := by
  induction p generalizing k with
  | nil => simp
  | cons x xs ih =>
    cases k with
    | nil => simp at h1
    | cons y ys =>
      rw [List.cons_le_cons_iff] at h1
      rw [List.cons_append, List.cons_lt_cons_iff] at h2
      rw [List.cons_prefix_cons]
      rcases h1 with h1 | ⟨h1, h1'⟩
      · rcases h2 with h2 | ⟨h2, _⟩
        · exact absurd h2 (UInt8.lt_asymm h1)
        · subst h2; exact absurd h1 (UInt8.lt_irrefl _)
      · rcases h2 with h2 | ⟨_, h2'⟩
        · subst h1; exact absurd h2 (UInt8.lt_irrefl _)
        · exact ⟨h1, ih h1' h2'⟩

/-- **Bounds translation is exact**: a parent key is inside the bounds the prefix store hands down
iff it carries the prefix and its stripped form is inside the caller's `[s, e)`. -/
theorem inDomain_bounds (p : Bytes) (s e : Option Bytes) (k : Bytes) :
    inDomain k (iterBounds p s e).1 (iterBounds p s e).2 =
      (hasPrefix p k && inDomain (strip p k) s e) := by
  rw [Bool.eq_iff_iff, Bool.and_eq_true, inDomain_iff, inDomain_iff, hasPrefix_iff]
  unfold iterBounds
  constructor
  · rintro ⟨h1, h2⟩
    have hpk : p ≤ k := Bytes.le_trans (le_append p _) (h1 _ rfl)
    have hpre : p <+: k := by
      cases e with
      | none => exact (prefixEnd_spec p k).mp ⟨hpk, h2⟩
      | some e' => exact prefix_of_between hpk (h2 _ rfl)
    obtain ⟨t, rfl⟩ := hpre
    refine ⟨List.prefix_append p t, ?_, ?_⟩
    · intro a ha; subst ha
      have := h1 _ rfl
      simpa [append_le_append_left] using this
    · intro b hb; subst hb
      have := h2 _ rfl
      simpa [append_lt_append_left] using this
  · rintro ⟨⟨t, rfl⟩, h1, h2⟩
    simp only [strip_append] at h1 h2
    constructor
    · intro a ha
      simp only [Option.some.injEq] at ha; subst ha
      rw [append_le_append_left]
      cases s with
      | none => exact List.nil_le t
      | some s' => exact h1 _ rfl
    · intro b hb
      cases e with
      | none => exact ((prefixEnd_spec p (p ++ t)).mpr (List.prefix_append p t)).2 b hb
      | some e' =>
        simp only [Option.some.injEq] at hb; subst hb
        rw [append_lt_append_left]; exact h2 _ rfl

/-! ### The view through a prefix -/

theorem view_cons (p : Bytes) (a : Bytes) (b : Bytes) (m : KV) :
    view p ((a, b) :: m) = if hasPrefix p a then (strip p a, b) :: view p m else view p m := by
  unfold view
  by_cases h : hasPrefix p a = true
  · rw [List.filter_cons_of_pos (by simpa using h), if_pos h]; rfl
  · rw [List.filter_cons_of_neg (by simpa using h), if_neg h]

theorem mem_view {p : Bytes} {m : KV} {x : Bytes × Bytes} :
    x ∈ view p m ↔ (p ++ x.1, x.2) ∈ m := by
  unfold view
  simp only [List.mem_map, List.mem_filter]
  constructor
  · rintro ⟨⟨a, b⟩, ⟨hm, hp⟩, rfl⟩
    simp only at hp ⊢
    rw [← eq_append_strip hp]; exact hm
  · intro h
    exact ⟨(p ++ x.1, x.2), ⟨h, by simp⟩, by simp⟩

theorem view_sorted {p : Bytes} {m : KV} (hs : Assoc.Sorted m) : Assoc.Sorted (view p m) := by
  unfold view Assoc.Sorted
  rw [List.pairwise_map]
  have h1 : (m.filter (fun kv => hasPrefix p kv.1)).Pairwise (fun a b => a.1 < b.1) :=
    List.Pairwise.filter _ hs
  refine List.Pairwise.imp_of_mem ?_ h1
  intro a b ha hb hlt
  have pa := (List.mem_filter.mp ha).2
  have pb := (List.mem_filter.mp hb).2
  rw [eq_append_strip pa, eq_append_strip pb, append_lt_append_left] at hlt
  exact hlt

/-- Reading through the prefix = reading the prefixed key (`Store.Get`). -/
theorem get_view (p : Bytes) (m : KV) (k : Bytes) :
    Assoc.get (view p m) k = Assoc.get m (p ++ k) := by
  induction m with
  | nil => rfl
  | cons a m ih =>
    obtain ⟨a, b⟩ := a
    rw [view_cons, Assoc.get_cons]
    by_cases h : hasPrefix p a = true
    · rw [if_pos h, Assoc.get_cons, ih]
      have ha := eq_append_strip h
      by_cases e : k = strip p a
      · rw [if_pos e, if_pos (by rw [e, ← ha])]
      · rw [if_neg e, if_neg]
        intro e'; apply e
        rw [ha] at e'
        exact List.append_cancel_left e'
    · rw [if_neg h, ih, if_neg]
      intro e'; apply h; rw [← e']; simp

/-- Keys outside the prefix are not touched by a write through the prefix. -/
theorem pkey_ne_of_not_prefix {p k k' : Bytes} (h : ¬ p <+: k') : k' ≠ pkey p k := by
  intro e; apply h; rw [e]; exact List.prefix_append p k

theorem view_set (p : Bytes) {m : KV} (hs : Assoc.Sorted m) (k v : Bytes) :
    view p (Assoc.set m (p ++ k) v) = Assoc.set (view p m) k v := by
  apply Assoc.ext (view_sorted (Assoc.set_sorted hs _ _)) (Assoc.set_sorted (view_sorted hs) _ _)
  intro k'
  rw [get_view, Assoc.get_set, Assoc.get_set, get_view]
  by_cases e : k' = k
  · simp [e]
  · rw [if_neg e, if_neg]
    intro e'; exact e (List.append_cancel_left e')

theorem view_del (p : Bytes) {m : KV} (hs : Assoc.Sorted m) (k : Bytes) :
    view p (Assoc.del m (p ++ k)) = Assoc.del (view p m) k := by
  apply Assoc.ext (view_sorted (Assoc.del_sorted hs _)) (Assoc.del_sorted (view_sorted hs) _)
  intro k'
  rw [get_view, Assoc.get_del hs, Assoc.get_del (view_sorted hs), get_view]
  by_cases e : k' = k
  · simp [e]
  · rw [if_neg e, if_neg]
    intro e'; exact e (List.append_cancel_left e')

/-! ### Iteration -/

theorem takeWhile_eq_self {α : Type} (f : α → Bool) (l : List α) (h : ∀ x ∈ l, f x = true) :
    l.takeWhile f = l := by
  induction l with
  | nil => rfl
  | cons a l ih =>
    rw [List.takeWhile_cons, if_pos (h a List.mem_cons_self),
      ih fun x hx => h x (List.mem_cons_of_mem _ hx)]

/-- **Prefix iteration is exact**: the drained `prefixIterator` over the parent's iterator with
the translated bounds is the specification iterator of the view, for every `start`, `end`
(nil or not, empty, inverted) and both directions. -/
theorem iter_eq (p : Bytes) (m : KV) (asc : Bool) (s e : Option Bytes) :
    prefixIter p (KV.iter m asc (iterBounds p s e).1 (iterBounds p s e).2) =
      KV.iter (view p m) asc s e := by
  unfold prefixIter KV.iter KV.range
  rw [takeWhile_eq_self]
  · rw [← KV.order_map]
    congr 1
    unfold view
    rw [List.filter_map, List.filter_filter]
    congr 1
    apply List.filter_congr
    intro x _
    rw [inDomain_bounds, Bool.and_comm]
    rfl
  · intro x hx
    rw [KV.mem_order, List.mem_filter, inDomain_bounds, Bool.and_eq_true] at hx
    exact hx.2.1

/-! ### The prefix store satisfies the KV interface -/

/-- If the parent behaves like the specification store `view s`, the prefix store over it behaves
like the specification store `Prefix.view p (view s)`. -/
theorem ops_spec {σ : Type} {O : KVOps σ} {inv : σ → Prop} {vw : σ → KV} (P : KVSpec O inv vw) :
    KVSpec (ops O) (fun s => inv s.1) (fun s => view s.2 (vw s.1)) where
  sorted s h := view_sorted (P.sorted s.1 h)
  get_inv s k h := P.get_inv s.1 _ h
  get_view s k h := by simp only [ops]; rw [P.get_view s.1 _ h]
  get_val s k h := by simp only [ops]; rw [P.get_val s.1 _ h, get_view]; rfl
  has_inv s k h := P.has_inv s.1 _ h
  has_view s k h := by simp only [ops]; rw [P.has_view s.1 _ h]
  has_val s k h := by simp only [ops]; rw [P.has_val s.1 _ h, get_view]; rfl
  set_inv s k v h := P.set_inv s.1 _ v h
  set_view s k v h := by
    simp only [ops]; rw [P.set_view s.1 _ v h]; exact view_set s.2 (P.sorted s.1 h) k v
  del_inv s k h := P.del_inv s.1 _ h
  del_view s k h := by
    simp only [ops]; rw [P.del_view s.1 _ h]; exact view_del s.2 (P.sorted s.1 h) k
  iter_inv s asc st e h := P.iter_inv s.1 asc _ _ h
  iter_view s asc st e h := by simp only [ops]; rw [P.iter_view s.1 asc _ _ h]
  iter_val s asc st e h := by
    simp only [ops]; rw [P.iter_val s.1 asc _ _ h]; exact iter_eq s.2 (vw s.1) asc st e

/-- The prefix never changes along a history. -/
theorem run_prefix {σ : Type} (O : KVOps σ) (s : σ) (p : Bytes) (l : List KVOp) :
    ((ops O).run (s, p) l).1.2 = p := by
  induction l generalizing s with
  | nil => rfl
  | cons op l ih =>
    simp only [KVOps.run]
    cases op <;> exact ih _

end Prefix
