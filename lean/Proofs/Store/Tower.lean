import Proofs.Store.CacheKVSpec
import Proofs.Store.Prefix
import PocketModel.Store.Tower
/-!
# Towers of wraps refine the map-overlay specification

* `layer_spec`: one more wrap (cachekv or prefix) over a store satisfying `KVSpec` satisfies
  `KVSpec` again; `tower_spec n`: hence every tower of `n` wraps does (nesting, by induction).
* `towerView_eq`: the tower's view is the specification's `viewOf` of its abstraction `abs`.
* `step_refines`, `run_refines`: every history of `TOp`s produces the same observations on the
  model tower and on the specification `Spec`, and the abstraction commutes with every step.
-/
namespace Tower
open CacheKV

variable {σ : Type} {O : KVOps σ} {inv : σ → Prop} {vw : σ → KV}

/-- Invariant of a store wrapped once more. -/
def layerInv (inv : σ → Prop) (vw : σ → KV) (s : σ × Layer) : Prop :=
  match s.2 with
  | .cache c => cinv inv vw (s.1, c)
  | .pfx _ => inv s.1

/-- Contents of a store wrapped once more. -/
def layerView (vw : σ → KV) (s : σ × Layer) : KV :=
  match s.2 with
  | .cache c => cview vw (s.1, c)
  | .pfx p => Prefix.view p (vw s.1)

theorem layer_spec (P : KVSpec O inv vw) : KVSpec (layerOps O) (layerInv inv vw) (layerView vw) where
  sorted := by
    rintro ⟨s, l⟩ h; cases l with
    | cache c => exact (ops_spec P).sorted (s, c) h
    | pfx p => exact (Prefix.ops_spec P).sorted (s, p) h
  get_inv := by
    rintro ⟨s, l⟩ k h; cases l with
    | cache c => exact (ops_spec P).get_inv (s, c) k h
    | pfx p => exact (Prefix.ops_spec P).get_inv (s, p) k h
  get_view := by
    rintro ⟨s, l⟩ k h; cases l with
    | cache c => exact (ops_spec P).get_view (s, c) k h
    | pfx p => exact (Prefix.ops_spec P).get_view (s, p) k h
  get_val := by
    rintro ⟨s, l⟩ k h; cases l with
    | cache c => exact (ops_spec P).get_val (s, c) k h
    | pfx p => exact (Prefix.ops_spec P).get_val (s, p) k h
  has_inv := by
    rintro ⟨s, l⟩ k h; cases l with
    | cache c => exact (ops_spec P).has_inv (s, c) k h
    | pfx p => exact (Prefix.ops_spec P).has_inv (s, p) k h
  has_view := by
    rintro ⟨s, l⟩ k h; cases l with
    | cache c => exact (ops_spec P).has_view (s, c) k h
    | pfx p => exact (Prefix.ops_spec P).has_view (s, p) k h
  has_val := by
    rintro ⟨s, l⟩ k h; cases l with
    | cache c => exact (ops_spec P).has_val (s, c) k h
    | pfx p => exact (Prefix.ops_spec P).has_val (s, p) k h
  set_inv := by
    rintro ⟨s, l⟩ k v h; cases l with
    | cache c => exact (ops_spec P).set_inv (s, c) k v h
    | pfx p => exact (Prefix.ops_spec P).set_inv (s, p) k v h
  set_view := by
    rintro ⟨s, l⟩ k v h; cases l with
    | cache c => exact (ops_spec P).set_view (s, c) k v h
    | pfx p => exact (Prefix.ops_spec P).set_view (s, p) k v h
  del_inv := by
    rintro ⟨s, l⟩ k h; cases l with
    | cache c => exact (ops_spec P).del_inv (s, c) k h
    | pfx p => exact (Prefix.ops_spec P).del_inv (s, p) k h
  del_view := by
    rintro ⟨s, l⟩ k h; cases l with
    | cache c => exact (ops_spec P).del_view (s, c) k h
    | pfx p => exact (Prefix.ops_spec P).del_view (s, p) k h
  iter_inv := by
    rintro ⟨s, l⟩ asc st e h; cases l with
    | cache c => exact (ops_spec P).iter_inv (s, c) asc st e h
    | pfx p => exact (Prefix.ops_spec P).iter_inv (s, p) asc st e h
  iter_view := by
    rintro ⟨s, l⟩ asc st e h; cases l with
    | cache c => exact (ops_spec P).iter_view (s, c) asc st e h
    | pfx p => exact (Prefix.ops_spec P).iter_view (s, p) asc st e h
  iter_val := by
    rintro ⟨s, l⟩ asc st e h; cases l with
    | cache c => exact (ops_spec P).iter_val (s, c) asc st e h
    | pfx p => exact (Prefix.ops_spec P).iter_val (s, p) asc st e h

/-- Contents seen at the top of a tower. -/
def towerView : (n : Nat) → T n → KV
  | 0 => id
  | n + 1 => layerView (towerView n)

/-- Invariant of a tower. -/
def towerInv : (n : Nat) → T n → Prop
  | 0 => Assoc.Sorted
  | n + 1 => layerInv (towerInv n) (towerView n)

/-- **Nesting**: a tower of any height satisfies the KV interface theorem. -/
theorem tower_spec : (n : Nat) → KVSpec (ops n) (towerInv n) (towerView n)
  | 0 => KV.ops_spec
  | n + 1 => layer_spec (tower_spec n)

/-- The tower's contents are the specification's contents of its abstraction. -/
theorem towerView_eq : (n : Nat) → (t : T n) → towerView n t = Spec.viewOf (absLayers n t) (rootOf n t)
  | 0, _ => rfl
  | n + 1, (t, .cache c) => by
    show overlay (towerView n t) (pending c) = overlay (Spec.viewOf (absLayers n t) (rootOf n t)) (pending c)
    rw [towerView_eq n t]
  | n + 1, (t, .pfx p) => by
    show Prefix.view p (towerView n t) = Prefix.view p (Spec.viewOf (absLayers n t) (rootOf n t))
    rw [towerView_eq n t]

theorem towerInv_below : (n : Nat) → (t : T (n + 1)) → towerInv (n + 1) t → towerInv n t.1
  | _, (_, .cache _), h => h.1
  | _, (_, .pfx _), h => h

/-! ### The abstraction commutes with every operation -/

/-- Reads (`Get`, `Has`, iterator creation) change caches, never the abstraction. -/
theorem abs_get : (n : Nat) → (t : T n) → towerInv n t → (k : Bytes) →
    absLayers n ((ops n).get t k).1 = absLayers n t ∧ rootOf n ((ops n).get t k).1 = rootOf n t
  | 0, _, _, _ => ⟨rfl, rfl⟩
  | n + 1, (t, .pfx p), h, k => by
    obtain ⟨h1, h2⟩ := abs_get n t h (p ++ k)
    exact ⟨by show SLayer.pfx p :: absLayers n ((ops n).get t (p ++ k)).1 = _; rw [h1]; rfl, h2⟩
  | n + 1, (t, .cache c), h, k => by
    show SLayer.cache (pending (CacheKV.get (ops n) (t, c) k).1.2) ::
        absLayers n (CacheKV.get (ops n) (t, c) k).1.1 = SLayer.cache (pending c) :: absLayers n t ∧
      rootOf n (CacheKV.get (ops n) (t, c) k).1.1 = rootOf n t
    unfold CacheKV.get
    cases hc : Assoc.get c.cache k with
    | some cv => exact ⟨rfl, rfl⟩
    | none =>
      obtain ⟨h1, h2⟩ := abs_get n t h.1 k
      simp only
      rw [h1, h2, pending_fill h.2.cacheSorted k _ hc]
      exact ⟨rfl, rfl⟩

theorem abs_has (n : Nat) (t : T n) (h : towerInv n t) (k : Bytes) :
    absLayers n ((ops n).has t k).1 = absLayers n t ∧ rootOf n ((ops n).has t k).1 = rootOf n t := by
  induction n generalizing k with
  | zero => exact ⟨rfl, rfl⟩
  | succ n ih =>
    obtain ⟨t, l⟩ := t
    cases l with
    | pfx p =>
      obtain ⟨h1, h2⟩ := ih t h (p ++ k)
      exact ⟨by show SLayer.pfx p :: absLayers n ((ops n).has t (p ++ k)).1 = _; rw [h1]; rfl, h2⟩
    | cache c => exact abs_get (n + 1) (t, .cache c) h k

theorem abs_iter : (n : Nat) → (t : T n) → towerInv n t → (asc : Bool) → (st e : Option Bytes) →
    absLayers n ((ops n).iter t asc st e).1 = absLayers n t ∧
      rootOf n ((ops n).iter t asc st e).1 = rootOf n t
  | 0, _, _, _, _, _ => ⟨rfl, rfl⟩
  | n + 1, (t, .pfx p), h, asc, st, e => by
    obtain ⟨h1, h2⟩ := abs_iter n t h asc (Prefix.iterBounds p st e).1 (Prefix.iterBounds p st e).2
    exact ⟨by
      show SLayer.pfx p :: absLayers n ((ops n).iter t asc (Prefix.iterBounds p st e).1 (Prefix.iterBounds p st e).2).1 = _
      rw [h1]; rfl, h2⟩
  | n + 1, (t, .cache c), h, asc, st, e => by
    obtain ⟨h1, h2⟩ := abs_iter n t h.1 asc st e
    exact ⟨by
      show SLayer.cache (pending (dirtyItems c st e)) :: absLayers n ((ops n).iter t asc st e).1 = _
      rw [h1]; rfl, h2⟩

/-- `Set` (`some v`) or `Delete` (`none`) on the top of a tower. -/
def putM (n : Nat) (t : T n) (k : Bytes) : Option Bytes → T n
  | some v => (ops n).set t k v
  | none => (ops n).del t k

theorem putM_inv (n : Nat) (t : T n) (h : towerInv n t) (k : Bytes) (ov : Option Bytes) :
    towerInv n (putM n t k ov) := by
  cases ov with
  | some v => exact (tower_spec n).set_inv t k v h
  | none => exact (tower_spec n).del_inv t k h

/-- A write lands in the first cache layer on the way down (or in the root), with the prefixes
passed prepended — on the model exactly as in the specification. -/
theorem abs_put : (n : Nat) → (t : T n) → towerInv n t → (k : Bytes) → (ov : Option Bytes) →
    (absLayers n (putM n t k ov), rootOf n (putM n t k ov)) = Spec.put (absLayers n t) (rootOf n t) k ov
  | 0, _, _, _, some _ => rfl
  | 0, _, _, _, none => rfl
  | n + 1, (t, .pfx p), h, k, ov => by
    have ih := abs_put n t h (p ++ k) ov
    have : putM (n + 1) (t, .pfx p) k ov = (putM n t (p ++ k) ov, Layer.pfx p) := by cases ov <;> rfl
    rw [this]
    show (SLayer.pfx p :: absLayers n (putM n t (p ++ k) ov), rootOf n (putM n t (p ++ k) ov)) =
      (SLayer.pfx p :: (Spec.put (absLayers n t) (rootOf n t) (p ++ k) ov).1,
        (Spec.put (absLayers n t) (rootOf n t) (p ++ k) ov).2)
    rw [← ih]
  | n + 1, (t, .cache c), h, k, ov => by
    have : putM (n + 1) (t, .cache c) k ov = (t, Layer.cache (setCacheValue c k ov ov.isNone true)) := by
      cases ov <;> rfl
    rw [this]
    show (SLayer.cache (pending (setCacheValue c k ov ov.isNone true)) :: absLayers n t, rootOf n t) = _
    rw [pending_dirty h.2.cacheSorted]
    rfl

theorem writeOne_eq_putM (n : Nat) (t : T n) (kv : Bytes × CValue) (hf : kv.2.deleted = kv.2.value.isNone) :
    writeOne (ops n) t kv = putM n t kv.1 kv.2.value := by
  obtain ⟨k, ⟨v, d, dirty⟩⟩ := kv
  simp only at hf; subst hf
  cases v <;> rfl

/-- `Write`: the dirty entries, in order, are `put` to what is below. -/
theorem abs_foldl_writeOne (n : Nat) (l : Assoc CValue) (t : T n) (h : towerInv n t)
    (hf : ∀ kv ∈ l, kv.2.deleted = kv.2.value.isNone) :
    towerInv n (l.foldl (writeOne (ops n)) t) ∧
    (absLayers n (l.foldl (writeOne (ops n)) t), rootOf n (l.foldl (writeOne (ops n)) t)) =
      (l.map fun kv => (kv.1, kv.2.value)).foldl (fun acc kv => Spec.put acc.1 acc.2 kv.1 kv.2)
        (absLayers n t, rootOf n t) := by
  induction l generalizing t with
  | nil => exact ⟨h, rfl⟩
  | cons a l ih =>
    have e := writeOne_eq_putM n t a (hf a List.mem_cons_self)
    have hi := putM_inv n t h a.1 a.2.value
    obtain ⟨i1, i2⟩ := ih (writeOne (ops n) t a) (e ▸ hi) (fun kv hkv => hf kv (List.mem_cons_of_mem _ hkv))
    refine ⟨i1, ?_⟩
    rw [List.foldl_cons, i2, List.map_cons, List.foldl_cons, e, abs_put n t h]

/-- **One step of any history**: invariant kept, abstraction commutes, same observation. -/
theorem step_refines (s : State) (h : towerInv s.n s.t) (op : TOp) :
    towerInv (step s op).1.n (step s op).1.t ∧ abs (step s op).1 = (Spec.step (abs s) op).1 ∧
      (step s op).2 = (Spec.step (abs s) op).2 := by
  obtain ⟨n, t⟩ := s
  have hview : (abs ⟨n, t⟩).view = towerView n t := (towerView_eq n t).symm
  cases op with
  | kv op =>
    cases op with
    | get k =>
      obtain ⟨a1, a2⟩ := abs_get n t h k
      refine ⟨(tower_spec n).get_inv t k h, ?_, ?_⟩
      · show Spec.mk (absLayers n ((ops n).get t k).1) (rootOf n ((ops n).get t k).1) =
          Spec.mk (absLayers n t) (rootOf n t)
        rw [a1, a2]
      · show KVOut.val ((ops n).get t k).2 = KVOut.val (Assoc.get (abs ⟨n, t⟩).view k)
        rw [hview, (tower_spec n).get_val t k h]
    | has k =>
      obtain ⟨a1, a2⟩ := abs_has n t h k
      refine ⟨(tower_spec n).has_inv t k h, ?_, ?_⟩
      · show Spec.mk (absLayers n ((ops n).has t k).1) (rootOf n ((ops n).has t k).1) =
          Spec.mk (absLayers n t) (rootOf n t)
        rw [a1, a2]
      · show KVOut.bool ((ops n).has t k).2 = KVOut.bool (Assoc.get (abs ⟨n, t⟩).view k).isSome
        rw [hview, (tower_spec n).has_val t k h]
    | set k v =>
      refine ⟨(tower_spec n).set_inv t k v h, ?_, rfl⟩
      have := abs_put n t h k (some v)
      show Spec.mk (absLayers n ((ops n).set t k v)) (rootOf n ((ops n).set t k v)) =
        Spec.mk (Spec.put (absLayers n t) (rootOf n t) k (some v)).1 (Spec.put (absLayers n t) (rootOf n t) k (some v)).2
      rw [← this]; rfl
    | del k =>
      refine ⟨(tower_spec n).del_inv t k h, ?_, rfl⟩
      have := abs_put n t h k none
      show Spec.mk (absLayers n ((ops n).del t k)) (rootOf n ((ops n).del t k)) =
        Spec.mk (Spec.put (absLayers n t) (rootOf n t) k none).1 (Spec.put (absLayers n t) (rootOf n t) k none).2
      rw [← this]; rfl
    | iter asc st e =>
      obtain ⟨a1, a2⟩ := abs_iter n t h asc st e
      refine ⟨(tower_spec n).iter_inv t asc st e h, ?_, ?_⟩
      · show Spec.mk (absLayers n ((ops n).iter t asc st e).1) (rootOf n ((ops n).iter t asc st e).1) =
          Spec.mk (absLayers n t) (rootOf n t)
        rw [a1, a2]
      · show KVOut.items ((ops n).iter t asc st e).2 = KVOut.items (KV.iter (abs ⟨n, t⟩).view asc st e)
        rw [hview, (tower_spec n).iter_val t asc st e h]
  | wrap => exact ⟨⟨h, cinv_empty _⟩, rfl, rfl⟩
  | pwrap p => exact ⟨h, rfl, rfl⟩
  | write =>
    cases n with
    | zero => exact ⟨h, rfl, rfl⟩
    | succ n =>
      obtain ⟨t, l⟩ := t
      cases l with
      | pfx p => exact ⟨h, rfl, rfl⟩
      | cache c =>
        have hf : ∀ kv ∈ c.cache.filter (fun kv => kv.2.dirty), kv.2.deleted = kv.2.value.isNone := by
          intro kv hkv
          obtain ⟨hm, hd⟩ := List.mem_filter.mp hkv
          exact h.2.flags kv.1 kv.2 (Assoc.get_of_mem h.2.cacheSorted hm) hd
        obtain ⟨i1, i2⟩ := abs_foldl_writeOne n _ t h.1 hf
        refine ⟨⟨i1, cinv_empty _⟩, ?_, rfl⟩
        show Spec.mk (SLayer.cache (pending CacheKV.empty) ::
              absLayers n ((c.cache.filter (fun kv => kv.2.dirty)).foldl (writeOne (ops n)) t))
            (rootOf n ((c.cache.filter (fun kv => kv.2.dirty)).foldl (writeOne (ops n)) t)) =
          Spec.write ⟨SLayer.cache (pending c) :: absLayers n t, rootOf n t⟩
        have e1 := congrArg Prod.fst i2
        have e2 := congrArg Prod.snd i2
        simp only at e1 e2
        rw [e1, e2]
        rfl
  | pop =>
    cases n with
    | zero => exact ⟨h, rfl, rfl⟩
    | succ n =>
      obtain ⟨t, l⟩ := t
      refine ⟨towerInv_below n (t, l) h, ?_, rfl⟩
      cases l <;> rfl

/-- **All histories**: model tower and map-overlay specification agree on every observation. -/
theorem run_refines (s : State) (h : towerInv s.n s.t) (l : List TOp) :
    towerInv (run s l).1.n (run s l).1.t ∧ abs (run s l).1 = (Spec.run (abs s) l).1 ∧
      (run s l).2 = (Spec.run (abs s) l).2 := by
  induction l generalizing s with
  | nil => exact ⟨h, rfl, rfl⟩
  | cons op l ih =>
    obtain ⟨h1, h2, h3⟩ := step_refines s h op
    obtain ⟨i1, i2, i3⟩ := ih (step s op).1 h1
    refine ⟨i1, ?_, ?_⟩
    · simp only [run, Spec.run]; rw [i2, h2]
    · simp only [run, Spec.run]; rw [i3, h2, h3]

end Tower
